#!/usr/bin/env python3
"""Turns .work/mutres2.log (written by batch_mut2.sh) into seeded/RESULTS.json (latest line per id wins)."""
import json, re, os
V = os.path.dirname(os.path.abspath(__file__))
res = {}
p = os.path.join(V, "seeded", "RESULTS.json")
if os.path.exists(p):
    res = json.load(open(p))
for line in open(os.path.join(V, ".work", "mutres2.log")):
    m = re.match(r"^(C\d+-\d+): (.*)$", line.strip())
    if not m:
        continue
    mid, rest = m.group(1), m.group(2)
    caught = "MUTANT CAUGHT" in rest
    chk = re.search(r"\((C\d+) (quick|thorough)\)", rest)
    key = re.search(r"key=(\S+)", rest)
    res[mid] = {"caught": caught, "caught_by": ("%s %s" % (chk.group(1), chk.group(2)) if (caught and chk) else ("MISSED" if "MISSED" in rest else rest[:60])),
                "key": key.group(1) if key else ""}
json.dump(res, open(p, "w"), indent=1, sort_keys=True)
print(len(res), "results;", sum(1 for v in res.values() if v["caught"]), "caught")
