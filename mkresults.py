#!/usr/bin/env python3
"""Turns .work/mutres2.log and .work/mutres5.log (written by the batch scripts) into seeded/RESULTS.json.
Latest line per id wins; entries of seeded/NEUTRALISED.json (changes that a later fix made harmless: the author's
own demonstration passes with the patch on the repaired tree) override the log."""
import json, re, os
V = os.path.dirname(os.path.abspath(__file__))
res = {}
p = os.path.join(V, "seeded", "RESULTS.json")
if os.path.exists(p):
    res = json.load(open(p))
for log in ("mutres2.log", "mutres5.log"):
    lp = os.path.join(V, ".work", log)
    if not os.path.exists(lp):
        continue
    for line in open(lp):
        m = re.match(r"^(C\d+-\d+): (.*)$", line.strip())
        if not m:
            continue
        mid, rest = m.group(1), m.group(2)
        caught = "MUTANT CAUGHT" in rest
        chk = re.search(r"\((C\d+) (quick|thorough)\)", rest)
        key = re.search(r"key=(\S+)", rest)
        if not caught and mid in res and res[mid]["caught"] and "DOES NOT APPLY" in rest:
            continue
        if caught and not key and mid in res and res[mid]["caught"] and res[mid]["key"]:
            continue  # keep the entry that recorded the class key
        res[mid] = {"caught": caught, "caught_by": ("%s %s" % (chk.group(1), chk.group(2)) if (caught and chk) else ("MISSED" if "MISSED" in rest else rest[:60])),
                    "key": key.group(1) if key else ""}
res.update(json.load(open(os.path.join(V, "seeded", "NEUTRALISED.json"))))
res = {k: v for k, v in res.items() if os.path.isdir(os.path.join(V, "seeded", k))}
json.dump(res, open(p, "w"), indent=1, sort_keys=True)
# merge the change / needs descriptions into the meta files
D = json.load(open(os.path.join(V, "seeded", "DESCRIPTIONS.json")))
for mid, d in D.items():
    mp = os.path.join(V, "seeded", mid, "meta.json")
    if os.path.exists(mp):
        m = json.load(open(mp))
        m.update(d)
        json.dump(m, open(mp, "w"), indent=1)
print(len(res), "results;", sum(1 for v in res.values() if v["caught"]), "caught;", sum(1 for v in res.values() if "neutralised" in v["caught_by"]), "neutralised;",
      [k for k, v in res.items() if not v["caught"] and "neutralised" not in v["caught_by"]])
