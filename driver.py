#!/usr/bin/env python3
"""Driver: builds the monitor child from /repo's working tree (tag verif),
runs it under a watchdog, aggregates its summaries, matches violations against
known_findings.json, writes evidence/<id>.json and replay files, and sets the
exit code (0 held / 1 violation / 2 broken-or-nothing-observed)."""
import fnmatch
import glob
import hashlib
import json
import os
import re
import shutil
import subprocess
import sys
import time

VERIF = os.path.dirname(os.path.abspath(__file__))
HARNESS = os.path.join(VERIF, "harness")
REPO = os.environ.get("VERIF_REPO", "/repo")
WORK = os.environ.get("VERIF_WORK", os.path.join(VERIF, ".work"))
BUILD = os.environ.get("VERIF_BUILD", os.path.join(VERIF, ".build"))

# ---------------------------------------------------------------------------
# per-property configuration
#   level: evidence level; floor: minimal number of evaluations for a run to count
#   parts: list of child invocations: dict(name, args, race, timeout_q, timeout_t)
LEVEL = {p: "exploration" for p in ["C%02d" % i for i in range(1, 21)]}
LEVEL["C10"] = "fault_enumeration"
LEVEL["C11"] = "fault_enumeration"


def parts_for(prop, tier):
    T = tier == "thorough"
    one = [dict(name="main", args=[], race=False)]
    if prop == "C04":
        ps = [dict(name="dec", args=["-mode", "decoders"], race=False),
              dict(name="parse", args=["-mode", "parsers"], race=False)]
        if T:
            ps.append(dict(name="dec-checkptr", args=["-mode", "decoders-lite"], race=True))
        return ps
    if prop == "C20":
        ps = [dict(name="race-p16", args=["-mode", "all"], race=True, env={"GOMAXPROCS": "16"})]
        if T:
            ps.append(dict(name="race-p4", args=["-mode", "all"], race=True, env={"GOMAXPROCS": "4"}))
            ps.append(dict(name="race-p2", args=["-mode", "all"], race=True, env={"GOMAXPROCS": "2"}))
        return ps
    if prop == "C11":
        ps = [dict(name="direct", args=["-mode", "direct"], race=False),
              dict(name="proto", args=["-mode", "proto"], race=T),
              dict(name="rabin", args=["-mode", "rabin"], race=False)]
        return ps
    if prop == "C14":
        ps = [dict(name="hash", args=["-mode", "hash"], race=False),
              dict(name="deniable", args=["-mode", "deniable"], race=T)]
        return ps
    if prop == "C02":
        ps = [dict(name="main", args=[], race=False),
              dict(name="ct", args=[], race=False, target="./cmd/childct", tags="verif constantTime")]
        if T:
            ps.append(dict(name="ct-purego", args=[], race=False, target="./cmd/childct", tags="verif constantTime purego"))
        return ps
    return one


FLOOR = 50  # a run that made fewer oracle judgements than this observed nothing


def log(*a):
    print(*a, flush=True)


def goenv():
    e = dict(os.environ)
    e["GOFLAGS"] = "-mod=mod"
    e["GOPROXY"] = "off"
    e.pop("GOSUMDB", None)
    e.pop("GOTOOLCHAIN", None)
    e.setdefault("GOCACHE", os.path.expanduser("~/.cache/go-build"))
    return e


def modfile_args():
    """Return extra go args redirecting the kyber replace to VERIF_REPO."""
    if os.path.realpath(REPO) == "/repo":
        # keep go.sum in step with the repo
        try:
            shutil.copyfile("/repo/go.sum", os.path.join(HARNESS, "go.sum"))
        except OSError:
            pass
        return []
    os.makedirs(BUILD, exist_ok=True)
    tag = hashlib.sha1(REPO.encode()).hexdigest()[:10]
    mf = os.path.join(BUILD, "go.%s.mod" % tag)
    src = open(os.path.join(HARNESS, "go.mod")).read()
    src = re.sub(r"=> /repo\b", "=> " + REPO, src)
    open(mf, "w").write(src)
    shutil.copyfile(os.path.join(REPO, "go.sum"), os.path.join(BUILD, "go.%s.sum" % tag))
    return ["-modfile=" + mf]


def build(target, out, tags="verif", race=False, extra_env=None):
    cmd = ["go", "build"] + modfile_args() + ["-tags", tags]
    if race:
        cmd.append("-race")
    cmd += ["-o", out, target]
    t0 = time.time()
    env = goenv()
    if extra_env:
        env.update(extra_env)
    p = subprocess.run(cmd, cwd=HARNESS, env=env, stdout=subprocess.PIPE, stderr=subprocess.STDOUT, text=True)
    if p.returncode != 0:
        log("BUILD FAILED:", " ".join(cmd))
        log(p.stdout[-6000:])
        return False
    log("built %s (tags=%s race=%s) in %.1fs" % (os.path.basename(out), tags, race, time.time() - t0))
    return True


def load_known():
    try:
        return json.load(open(os.path.join(VERIF, "known_findings.json")))["findings"]
    except FileNotFoundError:
        return []


def known_match(known, prop, key):
    for k in known:
        if k.get("property") != prop or k.get("status") != "known":
            continue
        pat = k.get("key", "")
        if pat == key or (("*" in pat) and fnmatch.fnmatchcase(key, pat)):
            return k
    return None


def parse_race_log(prefix):
    """Parse GORACE log files -> list of reports (each: list of stacks; stack = list of function names)."""
    reports = []
    for f in sorted(glob.glob(prefix + ".*")):
        txt = open(f, errors="replace").read()
        for block in txt.split("WARNING: DATA RACE")[1:]:
            block = block.split("==================")[0]
            stacks = []
            cur = None
            for line in block.splitlines():
                if re.match(r"^(Read|Write|Previous read|Previous write|Atomic|Previous atomic)", line.strip()) or line.startswith("Goroutine"):
                    if line.startswith("Goroutine"):
                        cur = None
                        continue
                    cur = []
                    stacks.append(cur)
                    continue
                m = re.match(r"^\s+([\w./()*\[\]\-·]+)\(\)$", line)
                if m and cur is not None:
                    cur.append(m.group(1))
            reports.append(dict(stacks=stacks, text=block[:3000]))
    return reports


def race_key(rep):
    """Deduplicate by the (sorted) pair of outermost kyber entry points of the two conflicting accesses."""
    sig = []
    for st in rep["stacks"][:2]:
        outer = [f for f in st if "go.dedis.ch/kyber" in f]
        if outer:
            sig.append(short(outer[-1]))
        else:
            lib = [f for f in st if "kilic" in f or "circl" in f or "gnark" in f]
            sig.append(short(lib[-1]) if lib else (short(st[-1]) if st else "?"))
    sig.sort()
    return "|".join(sig)


def short(fn):
    fn = fn.replace("go.dedis.ch/kyber/v4/", "")
    fn = re.sub(r"github.com/[\w\-]+/", "", fn)
    return fn


def run_child(binpath, prop, tier, seed, part, outdir, timeout, extra_args, env_extra=None, race=False):
    env = dict(os.environ)
    if env_extra:
        env.update(env_extra)
    racelog = os.path.join(outdir, "race-" + part["name"])
    if race:
        env["GORACE"] = "halt_on_error=0 log_path=%s history_size=5" % racelog
    cmd = ["timeout", "-s", "QUIT", str(timeout), binpath, "-prop", prop, "-tier", tier, "-seed", str(seed),
           "-out", outdir, "-part", part["name"]] + part.get("args", []) + extra_args
    logf = os.path.join(outdir, "child-%s.log" % part["name"])
    t0 = time.time()
    with open(logf, "w") as lf:
        p = subprocess.run(cmd, env=env, stdout=lf, stderr=subprocess.STDOUT)
    dt = time.time() - t0
    tail = ""
    try:
        txt = open(logf, errors="replace").read()
        tail = txt[-8000:]
        for line in txt.splitlines():
            if line.startswith("child "):
                log("  " + line)
    except OSError:
        pass
    return p.returncode, dt, tail, racelog


def crash_signature(tail):
    for pat in [r"fatal error: ([^\n]+)", r"panic: ([^\n]+)", r"(checkptr[^\n]+)", r"SIGQUIT"]:
        m = re.search(pat, tail)
        if m:
            s = m.group(0)
            s = re.sub(r"0x[0-9a-f]+", "0x?", s)
            s = re.sub(r"\d{3,}", "N", s)
            return s[:120]
    return "unknown"


def c18_variants(prop, tier, seed, outdir):
    """C18 (iv): build cmd/ctprog with five build-tag sets, run each with the same seed and compare the
    transcripts line by line. 'C' lines (common part) must agree along the chain default~generic,
    default~purego, default~constantTime, constantTime~constantTime+purego (equality is transitive, so every
    variant is compared with every other); 'F' lines (full library) along default~generic, default~purego.
    A differing line whose operands (text before ' => ', which carries operand fingerprints) are identical is a
    violation class keyed by its op; lines whose operands already differ are inherited divergences and only
    counted. Returns a summary-shaped dict that main() merges like a child summary."""
    t0 = time.time()
    tagsets = ["verif", "verif generic", "verif purego", "verif constantTime", "verif constantTime purego"]
    chain = [("C", "verif", "verif generic"), ("C", "verif", "verif purego"), ("C", "verif", "verif constantTime"),
             ("C", "verif constantTime", "verif constantTime purego"),
             ("F", "verif", "verif generic"), ("F", "verif", "verif purego")]
    res = dict(property=prop, tier=tier, seed=seed, part="variants", evaluations=0, distinct_nontrivial=0, classes={}, ops=[],
               samples=[], violations=[], notes={}, inconclusive=[], assumptions=[],
               rule="build-variant differential: one evaluation = one pair of corresponding transcript lines of cmd/ctprog "
                    "compared between two build-tag sets; distinct = distinct (op, operands) lines; all lines are non-trivial")
    label = lambda tags: "+".join(tags.split()[1:]) or "default"
    suffix = "" if os.path.realpath(REPO) == "/repo" else "-" + hashlib.sha1(REPO.encode()).hexdigest()[:8]
    procs = {}
    for tags in tagsets:
        out = os.path.join(BUILD, "ctprog-" + re.sub(r"[^A-Za-z0-9]+", "_", tags) + suffix)
        if not build("./cmd/ctprog", out, tags=tags):
            res["inconclusive"].append("ctprog variant [%s] failed to build" % tags)
            continue
        tf = os.path.join(outdir, "ctprog-%s.txt" % label(tags))
        procs[tags] = (subprocess.Popen([out, "-seed", str(seed), "-tier", tier, "-out", tf],
                                        stdout=subprocess.PIPE, stderr=subprocess.STDOUT, text=True), tf)
    lines = {}
    partial = set()
    tmo = int(os.environ.get("VERIF_TIMEOUT", "5400" if tier == "thorough" else "900"))
    deadline = time.time() + tmo  # one shared deadline: the variants run in parallel
    for tags, (p, tf) in procs.items():
        try:
            outp, _ = p.communicate(timeout=max(1.0, deadline - time.time()))
        except subprocess.TimeoutExpired:
            p.kill()
            res["inconclusive"].append("ctprog variant [%s]: watchdog fired; its partial transcript is still compared" % tags)
            partial.add(tags)
            outp = ""
        if tags not in partial and p.returncode != 0:
            key = "%s/variant/%s/ctprog/process-died" % (prop, label(tags))
            res["violations"].append(dict(key=key, what="transcript program died (uncaught fatal error in code under test)", count=1,
                                          detail=dict(rc=p.returncode, output_tail=(outp or "")[-3000:], tags=tags)))
            continue
        ls = [l.rstrip("\n") for l in open(tf, errors="replace")]
        lines[tags] = dict(C=[l for l in ls if l.startswith("C ")], F=[l for l in ls if l.startswith("F ")],
                           notes=[l for l in ls if l.startswith("#")])
        res["notes"]["lines_%s" % label(tags)] = len(lines[tags]["C"]) + len(lines[tags]["F"])
        # panics that no step is allowed to raise
        for i, l in enumerate(ls):
            if l.endswith("=> PANIC!"):
                op = l.split(" ")[1]
                key = "%s/variant/%s/%s/panic" % (prop, label(tags), op)
                note = ls[i + 1] if i + 1 < len(ls) and ls[i + 1].startswith("#") else ""
                v = next((v for v in res["violations"] if v["key"] == key), None)
                if v is None:
                    res["violations"].append(dict(key=key, what="panic in a transcript step that must not panic", count=1,
                                                  detail=dict(tags=tags, line=l[:600], panic=note[:600])))
                else:
                    v["count"] += 1
    seen = set()
    ops = set()
    viol = {}
    for part, ta, tb in chain:
        if ta not in lines or tb not in lines:
            continue
        a, b = lines[ta][part], lines[tb][part]
        pair = "%s-vs-%s" % (label(ta), label(tb))
        cls = "variant/%s/%s" % (pair, "common" if part == "C" else "full")
        if len(a) != len(b) and ta not in partial and tb not in partial:
            key = "%s/variant/%s/%s/line-count" % (prop, pair, "common" if part == "C" else "full")
            viol[key] = dict(key=key, what="transcripts have different numbers of lines (%d vs %d)" % (len(a), len(b)), count=1,
                             detail=dict(tagsA=ta, tagsB=tb))
        n_inherit = 0
        for x, y in zip(a, b):
            res["evaluations"] += 1
            res["classes"][cls] = res["classes"].get(cls, 0) + 1
            op = x.split(" ")[1]
            ops.add("ctprog:" + op)
            seen.add(x.split(" => ")[0])
            if x == y:
                continue
            if x.split(" => ")[0] != y.split(" => ")[0]:
                n_inherit += 1
                continue
            key = "%s/variant/%s/%s" % (prop, pair, op)
            v = viol.get(key)
            if v is None:
                viol[key] = dict(key=key, what="same step, same operands, different result in builds [%s] and [%s]" % (ta, tb), count=1,
                                 detail=dict(tagsA=ta, tagsB=tb, lineA=x[:1500], lineB=y[:1500],
                                             reproduce="cd harness && go build -tags '<tags>' -o ctprog ./cmd/ctprog && ./ctprog -seed %d -tier %s" % (seed, tier)))
            else:
                v["count"] += 1
        res["notes"]["inherited_divergences_%s_%s" % (pair, part)] = n_inherit
        if part == "C" and a:
            res["samples"].append(dict(variant_pair=pair, example_line=a[len(a) // 2][:300]))
    res["violations"] += list(viol.values())
    res["distinct_nontrivial"] = len(seen)
    res["ops"] = sorted(ops)
    res["wall_s"] = round(time.time() - t0, 2)
    log("  variants: %d line pairs compared over %d builds, %d violation classes, %.1fs" %
        (res["evaluations"], len(lines), len(res["violations"]), res["wall_s"]))
    if len(lines) < len(tagsets) and not res["inconclusive"]:
        res["inconclusive"].append("only %d of %d ctprog variants produced a transcript" % (len(lines), len(tagsets)))
    return res


def crash_signature(tail):
    for pat in [r"fatal error: ([^\n]+)", r"panic: ([^\n]+)", r"(checkptr[^\n]+)", r"SIGQUIT"]:
        m = re.search(pat, tail)
        if m:
            s = m.group(0)
            s = re.sub(r"0x[0-9a-f]+", "0x?", s)
            s = re.sub(r"\d{3,}", "N", s)
            return s[:120]
    return "unknown"


def main():
    args = sys.argv[1:]
    replay_key = None
    if len(args) >= 2 and args[0] == "--replay":
        rp = json.load(open(args[1]))
        replay_key = rp.get("key")
        os.environ["VERIF_SEED"] = str(rp.get("seed", 1))
        prop, tier = rp["property"], rp["tier"]
        log("replaying %s %s seed=%s; expecting violation key %s" % (prop, tier, rp.get("seed"), rp.get("key")))
        extra = []
    else:
        if len(args) < 2:
            log("usage: driver.py <Cxx> <quick|thorough> | --replay <file>")
            return 2
        prop, tier = args[0], args[1]
        extra = args[2:]
    seed = int(os.environ.get("VERIF_SEED", "1") or "1")
    t_start = time.time()
    outdir = os.path.join(WORK, "%s-%s" % (prop, tier))
    shutil.rmtree(outdir, ignore_errors=True)
    os.makedirs(outdir, exist_ok=True)
    # runs against a scratch copy of the library (VERIF_REPO: seeded-defect runs) must not overwrite the evidence of /repo
    OUT = WORK if os.environ.get("VERIF_REPO") else VERIF
    os.makedirs(os.path.join(OUT, "evidence"), exist_ok=True)
    os.makedirs(os.path.join(OUT, "replays"), exist_ok=True)
    os.makedirs(BUILD, exist_ok=True)
    evfile = os.path.join(OUT, "evidence", prop + ".json")

    parts = parts_for(prop, tier)
    need_race = any(p.get("race") for p in parts)
    suffix = "" if os.path.realpath(REPO) == "/repo" else "-" + hashlib.sha1(REPO.encode()).hexdigest()[:8]
    bins = {}
    for part in parts:
        target = part.get("target", "./cmd/child")
        tags = part.get("tags", "verif")
        race = bool(part.get("race"))
        bkey = (target, tags, race)
        if bkey not in bins:
            name = os.path.basename(target) + ("-race" if race else "")
            if tags != "verif":
                name += "-" + re.sub(r"[^A-Za-z0-9]+", "_", tags)
            out = os.path.join(BUILD, name + suffix)
            if not build(target, out, tags=tags, race=race):
                return broken(prop, tier, seed, evfile, "build failed: %s tags=%s race=%s" % (target, tags, race), t_start)
            bins[bkey] = out
        part["bin"] = bins[bkey]

    known = load_known()
    summaries = []
    violations = {}   # key -> dict
    inconclusive = []
    notes = {}
    race_total = 0
    race_distinct = {}
    timeout = int(os.environ.get("VERIF_TIMEOUT", "5400" if tier == "thorough" else "900"))
    for part in parts:
        rc, dt, tail, racelog = run_child(part["bin"], prop, tier, seed, part, outdir,
                                           timeout, extra, part.get("env"), race=part.get("race", False))
        sfile = os.path.join(outdir, "summary.%s.json" % part["name"])
        s = None
        if os.path.exists(sfile):
            try:
                s = json.load(open(sfile))
            except ValueError:
                s = None
        if s is not None:
            summaries.append(s)
            for v in s.get("violations") or []:
                violations.setdefault(v["key"], dict(v, part=part["name"]))
            inconclusive += s.get("inconclusive") or []
        if (rc != 0 and not (part.get("race") and s is not None and rc == 66)) or s is None:
            jf = os.path.join(outdir, "journal.%s.txt" % part["name"])
            journal = []
            try:
                journal = [l.strip() for l in open(jf, errors="replace").read().split("\n") if l.strip()]
            except OSError:
                pass
            if rc == 124 or "SIGQUIT" in tail:
                inconclusive.append("part %s: watchdog fired after %ds (rc=%d)" % (part["name"], timeout, rc))
                notes["watchdog_" + part["name"]] = tail[-1500:]
            else:
                sig = crash_signature(tail)
                key = "%s/child-died/%s/%s" % (prop, part["name"], sig)
                violations.setdefault(key, dict(key=key, what="monitor process died (uncaught fatal error in code under test): " + sig,
                                                count=1, part=part["name"],
                                                detail=dict(rc=rc, journal_last_cases=journal[-20:], output_tail=tail[-4000:])))
        if part.get("race"):
            reps = parse_race_log(racelog)
            race_total += len(reps)
            for rep in reps:
                k = race_key(rep)
                ent = race_distinct.setdefault(k, dict(count=0, text=rep["text"]))
                ent["count"] += 1


    if prop == "C18":
        vs = c18_variants(prop, tier, seed, outdir)
        summaries.append(vs)
        for v in vs["violations"]:
            violations.setdefault(v["key"], dict(v, part="variants"))
        inconclusive += vs["inconclusive"]

    for k, ent in race_distinct.items():
        stacks = ent["text"]
        only_harness = ("go.dedis.ch/kyber" not in stacks and "kilic" not in stacks and "circl" not in stacks and "gnark" not in stacks)
        key = "%s/race/%s" % (prop, k)
        if only_harness:
            key = "%s/harness-race/%s" % (prop, k)
        violations.setdefault(key, dict(key=key, what="data race reported by the Go race detector (%d reports)" % ent["count"],
                                        count=ent["count"], detail=dict(report=stacks)))

    # ---- merge evidence
    evals = sum(s.get("evaluations", 0) for s in summaries)
    hashes = set()
    distinct = 0
    for s in summaries:
        if s.get("distinct_hashes"):
            hashes.update(s["distinct_hashes"])
        else:
            distinct += s.get("distinct_nontrivial", 0)
    distinct += len(hashes)
    classes = {}
    ops = set()
    samples = []
    rule = ""
    assumptions = []
    for s in summaries:
        for k, v in (s.get("classes") or {}).items():
            classes[k] = classes.get(k, 0) + v
        ops.update(s.get("ops") or [])
        samples += s.get("samples") or []
        if s.get("rule") and s["rule"] not in rule:
            rule = (rule + " || " if rule else "") + s["rule"]
        for a in s.get("assumptions") or []:
            if a not in assumptions:
                assumptions.append(a)
        for k, v in (s.get("notes") or {}).items():
            if k.startswith("sample:"):
                continue
            nk = k if len(summaries) == 1 else "%s.%s" % (s.get("part", ""), k)
            notes[nk] = v

    new_viol, known_hits = [], []
    for key, v in sorted(violations.items()):
        kf = known_match(known, prop, key)
        if kf:
            known_hits.append((kf, v))
        else:
            new_viol.append(v)

    verdict = "held"
    if new_viol:
        verdict = "violated"
    elif inconclusive:
        verdict = "inconclusive"

    replay_paths = []
    for v in new_viol:
        h = hashlib.sha1(v["key"].encode()).hexdigest()[:12]
        rp = os.path.join(OUT, "replays", "%s-%s.json" % (prop, h))
        json.dump(dict(property=prop, tier=tier, seed=seed, key=v["key"], what=v["what"], count=v.get("count", 1),
                       part=v.get("part"), detail=v.get("detail"),
                       how_to_replay="VERIF_SEED=%d ./run.sh %s %s   (deterministic: the same case list is regenerated from the seed; or ./run.sh --replay %s)" % (seed, prop, tier, rp)),
                  open(rp, "w"), indent=1, default=str)
        replay_paths.append(rp)

    wall = time.time() - t_start
    cov = dict(evaluations=int(evals), distinct_nontrivial=int(distinct), rule=rule or "n/a", samples=samples[:40],
               classes=classes, operations=sorted(ops), verdict=verdict, parts=[p["name"] for p in parts],
               inconclusive=inconclusive[:20], notes=notes,
               known_findings_hit=[kf["key"] for kf, _ in known_hits],
               new_violation_keys=[v["key"] for v in new_viol][:50])
    if need_race:
        cov["race_reports_raw"] = race_total
        cov["race_reports_distinct"] = len(race_distinct)
    ev = dict(property_id=prop, tier=tier, seed=seed, level=LEVEL[prop], coverage=cov,
              assumptions=assumptions, wall_s=round(wall, 2), violations=len(new_viol))
    tmp = evfile + ".tmp"
    json.dump(ev, open(tmp, "w"), indent=1, default=str)
    os.replace(tmp, evfile)

    agg = {}
    for kf, v in known_hits:
        a = agg.setdefault(kf["key"], [kf, 0, 0])
        a[1] += 1
        a[2] += v.get("count", 1)
    for kf, nkeys, cnt in agg.values():
        log("KNOWN-FINDING: property=%s %s [%s] (%d violation classes, seen %d times in this run)" % (prop, kf.get("what", ""), kf["key"], nkeys, cnt))
    for r in inconclusive[:10]:
        log("INCONCLUSIVE property=%s reason=%s" % (prop, r))
    for i, (v, rp) in enumerate(zip(new_viol, replay_paths)):
        if i >= 30:
            log("(+%d more violation classes, see %s)" % (len(new_viol) - 30, evfile))
            break
        log("VIOLATION property=%s replay=%s key=%s :: %s" % (prop, rp, v["key"], v["what"]))
    log("%s %s seed=%d: verdict=%s evaluations=%d distinct_nontrivial=%d violations=%d known=%d wall=%.1fs" %
        (prop, tier, seed, verdict, evals, distinct, len(new_viol), len(known_hits), wall))
    if replay_key is not None:
        hit = replay_key in violations
        log("REPLAY property=%s key=%s : %s" % (prop, replay_key, "reproduced" if hit else "NOT reproduced on this tree"))
    if new_viol:
        return 1
    if evals < FLOOR or distinct < 2:
        log("BROKEN property=%s: observed too little (evaluations=%d)" % (prop, evals))
        return 2
    return 0


def broken(prop, tier, seed, evfile, why, t0):
    log("BROKEN property=%s: %s" % (prop, why))
    return 2


if __name__ == "__main__":
    sys.exit(main())
