#!/usr/bin/env python3
"""Regenerates the measured-cost table in DESIGN.md §8 from evidence/*.json (quick tier, last run in /verif) and from
notes/thorough_runs.json (collected from the logs of the background thorough runs: ./mkcost.py --collect)."""
import json, glob, re, os, sys
V = os.path.dirname(os.path.abspath(__file__))
tp = os.path.join(V, "notes", "thorough_runs.json")
if "--collect" in sys.argv:
    t = json.load(open(tp)) if os.path.exists(tp) else {}
    for n in range(1, 40):
        lp = "/root/.vp/runs/%d/log" % n
        if not os.path.exists(lp):
            continue
        for l in open(lp):
            m = re.match(r"^(C\d+) thorough seed=(\d+): verdict=(\w+) evaluations=(\d+) distinct_nontrivial=(\d+) violations=(\d+) known=(\d+) wall=([\d.]+)s", l)
            if m:
                t[m.group(1)] = dict(seed=int(m.group(2)), verdict=m.group(3), evaluations=int(m.group(4)), distinct_nontrivial=int(m.group(5)),
                                     violations=int(m.group(6)), known_findings_hit=int(m.group(7)), wall_s=float(m.group(8)), background_run=n)
    json.dump(t, open(tp, "w"), indent=1, sort_keys=True)
t = json.load(open(tp)) if os.path.exists(tp) else {}
rows = ["| id | quick: wall s | quick: evaluations | quick: distinct non-trivial | thorough: wall s | thorough: evaluations | thorough verdict |", "|---|---|---|---|---|---|---|"]
for f in sorted(glob.glob(os.path.join(V, "evidence", "C*.json"))):
    d = json.load(open(f))
    c = d["coverage"]
    x = t.get(d["property_id"], {})
    rows.append("| %s | %.0f | %s | %s | %s | %s | %s |" % (d["property_id"], d["wall_s"], c.get("evaluations"), c.get("distinct_nontrivial"),
                ("%.0f" % x["wall_s"]) if x else "–", x.get("evaluations", "–"), x.get("verdict", "–")))
s = open(os.path.join(V, "DESIGN.md")).read()
s = re.sub(r"<!-- COST-TABLE-BEGIN -->.*?<!-- COST-TABLE-END -->", "<!-- COST-TABLE-BEGIN -->\n" + "\n".join(rows) + "\n<!-- COST-TABLE-END -->", s, flags=re.S)
open(os.path.join(V, "DESIGN.md"), "w").write(s)
print("cost table regenerated (%d thorough entries)" % len(t))
