#!/usr/bin/env python3
"""Regenerates MANIFEST.json from the table below (single source of truth)."""
import json
import os

HERE = os.path.dirname(os.path.abspath(__file__))

BASELINE_OFF = 'for m in $(cat /w/out/gomods.txt); do MF=$(cd /repo/$m && . /w/out/goenv.sh && gomodflag); (cd /repo/$m && go test $MF -json -vet=off -count=1 -timeout 25m ./...); done'

# id -> (category, technique, text, note)
CLAIMED = {
    "C01": ("exploration",
            "runtime monitor: discrete-log shadow state re-materialised after every API step + algebraic identity table, 20 groups",
            "Runs the real group code on seeded random programs and on the cross product of edge scalars and edge points; every step is judged by re-computing the expected element through a different code path (fresh receivers, explicit base, rotated order) and by two-way algebraic identities. Held = no disagreement on the executions observed.",
            "math/big for scalar shadows; Equal and MarshalBinary of kyber itself are the observation channel (both must agree); only executed operand classes are judged."),
    "C02": ("exploration",
            "runtime monitor: math/big reference of Z_q on edge-biased operands for 12 scalar implementations, in the default and the constantTime build; Ed25519 limb arithmetic driven through verif hooks",
            "Every scalar operation result is decoded and compared with the integer result mod q, canonical form and Equal<=>residue equality are checked on values reached by different routes, SetBytes over lengths 0..96 and Pick via recorded/replayed streams. The same monitor is compiled with -tags constantTime (bigmod back-end).",
            "math/big; the byte order declared by ByteOrder(); hooks export scMulAdd/scReduce/scAdd/scSub/scMul unchanged."),
    "C05": ("exploration",
            "runtime monitor: reference machine executing each API step on fresh unaliased copies (decoded from encoding snapshots), all variables compared after every step; explicit aliasing matrix + random programs, 20 groups",
            "The live (possibly aliased) objects and the reference snapshots are compared after every step of every program: receiver, return value and every other variable. Clone/Set independence is exercised by mutating either side in place with every mutator.",
            "encode/decode round trip (C03) to make independent copies; only executed aliasing patterns are judged (all 5 classes for binary ops are enumerated)."),
    "C04": ("exploration",
            "runtime monitor: hostile byte strings into every point/scalar decoder (20 groups) and every composite parser entry point, child process per batch with a pre-execution journal; accepted points re-checked by independent math/big membership models and cross-decoded by sibling back-ends; thorough tier repeats the decoder batch under -race (checkptr)",
            "Judges 'error or usable value, never panic': every accepted value is used (String, Equal, Clone, Add, Mul, Neg, Sub, Data, re-encode/re-decode), and accepted points must satisfy the independent curve equation / subgroup test. Parsers (Schnorr, EdDSA, BLS, TBLS, BDN, CoSi, proofs, shuffles, ECIES, anon, VSS deals incl. deals sealed through the real encryption path) are fed mutated valid messages.",
            "math/big curve models (Ed25519, P-256, BN G1, BN twist, BLS12-381 G1); q*P=O through the group's own arithmetic for BLS12-381 G2 and BN254 G2; recover() catches panics, the driver attributes process-fatal errors to the journaled input."),
    "C20": ("exploration",
            "Go race detector (-race build, GORACE log parsed and deduplicated by kyber entry-point pair) over 16 goroutines running the read-only method set on shared non-normalised objects of 28 kinds (incl. suites with custom DSTs, streams over several sources, shared unordered share lists), plus comparison of every concurrent result with the sequential run",
            "Shared points/scalars of all 20 groups, pairing operands and GT elements of the 5 suites, shared keys/proofs/polynomials/masks/rings/random streams for the signature, proof, PVSS, ECIES and anon schemes are used concurrently for reading only; objects are rebuilt for every repetition so lazily normalising reads are hit from their first call; the hot path contains no synchronisation of the harness's own.",
            "happens-before race detection covers only accesses that occurred in the run; assembly is not instrumented; results compared with a sequential twin built from the same seed."),
    "C03": ("exploration",
            "runtime monitor: every reachable point (non-normalised internal forms, leading-zero coordinates) and reduced scalar encoded/decoded/streamed/hexed; byte-identity compared with Equal and with a discrete-log/residue shadow, 20 groups",
            "Per value: advertised length, idempotent encoding, decode-Equal, byte-identical re-encoding, value unchanged by encoding (compared with a never-encoded twin), MarshalTo/UnmarshalFrom and util/encoding hex helpers carry exactly those bytes; per pair: Equal <=> identical bytes <=> equal shadow.",
            "the discrete-log / residue shadow kept in math/big decides which pairs are equal; clamped Ed25519 keys are excluded as the property excludes them."),
    "C06": ("exploration",
            "runtime monitor: Pair/ValidatePairing on operand recipes (root point, discrete log in math/big, 20 internal forms incl. identity, negated, non-normalised, decoded copies) for the 5 suites, judged through GT arithmetic and the known discrete logs",
            "Bilinearity e(aP,bQ) = ab*e(P,Q), additivity in each argument, identity operands, non-degeneracy, form-independence, and ValidatePairing compared both with Pair equality and with ground truth from the discrete logs, on 12 tuple families of true/false/identity instances.",
            "GT group laws (C01) are used to compare pairing values; discrete logs kept by the harness are the ground truth for ValidatePairing."),
    "C19": ("exploration",
            "runtime monitor: random Write/Read/XORKeyStream/Reseed/Clone/Reset programs with re-chunked twins against a single-shot reference built on x/crypto blake2 XOFs and crypto/sha3; rejection-sampling reference for random.Int/Bits; reader sets with failing/short readers",
            "Every XOF output is compared with a single-shot reference and with a re-chunked twin; clones are observed after every operation; Write-after-Read must panic until Reseed; Reset judged on factory-made XOFs. random.Int must equal the first masked draw below the modulus of the recorded stream; random.New(readers) is re-chunked, bit-flipped and starved.",
            "x/crypto blake2b/blake2s XOF and crypto/sha3 SHAKE256 as primitives; recorded streams."),
    "C10": ("fault_enumeration",
            "runtime monitor: real Dealer + n real Verifiers (Pedersen and Rabin), malicious deals sealed through the real encryption path (verif hook), enumerated deal faults x response behaviours x justification kinds/sequences x timeout positions, per-observer deliveries in seeded orders; oracle = ground-truth ledger kept by the harness",
            "Single deal faults and single response faults are enumerated exhaustively over verifier position (n=3,4; thorough to 6) and combined with every justification kind incl. two-step sequences (wrong-then-correct); multi-fault histories are sampled. After every delivered event the observer's DealCertified() is compared with the ledger: certified => >= t signed approvals or correctly justified complaints and no invalid justification ever processed; approvals only for good deals; forged/duplicate responses rejected; honest runs certify and any t certified deals recover the secret.",
            "faults are known by construction; Ed25519 suite; the verif hook seals harness-chosen plaintexts with the dealer's keys."),
    "C07": ("exploration",
            "runtime monitor: (t,n) sweep with exhaustive subsets/orders/nil patterns/surplus/duplicates against a math/big polynomial + Lagrange reference (three cross-checked routes), 9 groups; derived polynomial objects through a full battery; operands from two group objects; large thresholds",
            "RecoverSecret/RecoverCommit/RecoverPriPoly/RecoverPubPoly are judged against the dealer's coefficients kept in math/big for every subset (all sizes, n<=6 quick / <=7 thorough; structured above) in several presentations; refusal below t; Check verdicts against reference membership on honest/shifted/negated/wrong-index/foreign shares; Add/Mul against evaluation and commitment.",
            "math/big reference (power-sum evaluation, Newton divided differences, Lagrange at 0); group laws (C01) for commitments."),
    "C09": ("exploration",
            "runtime monitor: BLS verify-iff matrix, TBLS recovery from harness-dealt polynomials (expected output = signature of the group secret), BDN masks built by 11 routes, real CoSi protocol runs with mutated components; 8 (suite, group) combinations",
            "All secrets are generated by the harness as big integers, so the unique expected signature is known. Recover must return exactly those bytes from any list containing >= t distinct valid partials (orders, duplicates, 10 junk kinds) and refuse otherwise; BDN aggregates verify under the aggregate key of exactly that mask and no other; CoSi verifies iff commitment, response and mask are those of the participants and the policy is met.",
            "group laws and pairings (C01, C06) to compute expected signatures from harness-held secrets."),
    "C12": ("exploration",
            "runtime monitor: DSS sessions over keys from real Pedersen and Rabin DKG runs; every t-subset/order/combiner, 27 classes of injected partials; ledger of really delivered valid partials + math/big reference signature; eddsa/schnorr/crypto-ed25519 as verifiers",
            "After every event ProcessPartialSig's result, EnoughPartialSig and Signature() are compared with the ledger and with the unique reference signature R||r+h*a; all combiners must output identical bytes that verify under eddsa.Verify, schnorr.Verify, dss.Verify and crypto/ed25519.Verify.",
            "DKG runs are all-honest (C11 covers faults); math/big Lagrange; crypto/ed25519."),
    "C13": ("exploration",
            "runtime monitor: PVSS/DLEQ honest runs + single-field mutation and cross-trustee swap matrix over both phases, batch results compared with exactly the untouched indices, recovery with altered shares; 3 groups",
            "The harness recomputes the global challenge itself; every field of every share/proof/key/commitment is mutated (+G, negate, random, identity, double, +1, zero, small-order shift) or swapped; each index is must-fail / must-pass / free by construction; recovery is checked with t and t-1 untouched shares; simulated-transcript forgeries exercise the Fiat-Shamir checks.",
            "mutations known by construction; a changed global challenge legitimately invalidates untouched indices (free)."),
    "C15": ("exploration",
            "runtime monitor: 4 shuffles honest (exhaustive permutations for small k), honest proofs against altered statements, cheating provers that write well-formed transcripts for outputs the harness knows not to be re-encryption permutations (linear-combination forgeries, splices, all-equations-but-one), byte mutations",
            "Ground truth from the decryption key held by the harness: the statement is true iff plaintext equality admits a perfect matching. The verifier must accept all honest proofs and reject every forged or altered one.",
            "soundness is judged on explicit cheating-prover families only; Ed25519 and P-256."),
    "C16": ("exploration",
            "runtime monitor: ECIES / IBE-CCA / IBE-CPA / anon-set over length sweeps, keys, recipients; every ciphertext region bit-flipped, truncated or extended, inputs-intact and repeatable-decryption checks, wrong keys, public-data forgeries; plaintext-in-clear scan",
            "Round trip equality; lengths the scheme cannot protect must be refused at encryption; altered or truncated ciphertexts and wrong keys must yield an error for the authenticated schemes, never a different plaintext or a panic; no >= 8-byte run of a high-entropy plaintext may occur in the ciphertext.",
            "hiding is checked only in the observable form the property gives (no plaintext block in the ciphertext)."),
    "C17": ("exploration",
            "runtime monitor: Pick/Embed/Hash on 22 groups with benign and adversarial streams, independent math/big membership models + q*P=O, replay of drawn bytes, Embed/Data losslessness, RFC 9380 vectors and a math/big model of edwards25519_XMD:SHA-512_ELL2_RO_",
            "Every produced point is checked for membership by a model sharing no code with kyber and is then used; determinism by replaying exactly the drawn bytes on fresh and used receivers; Data() returns the stored bytes after encode/decode and Clone, and fails for out-of-range length fields; the three BLS12-381 back-ends agree.",
            "math/big curve models; RFC 9380 appendix vectors embedded as data."),
    "C08": ("exploration",
            "runtime monitor: honest sign/verify + structured mutation corpus (bit flips, S+kq, torsion shifts, small-order and non-canonical encodings, crafted equation-valid forgeries) on 19 groups, crypto/ed25519 as reference signer and second verifier, math/big Ed25519 model for the canonicity/small-order predicates, ring signatures over 5 suites with tag-linkage relations",
            "Schnorr/EdDSA/ring signatures must verify when honest and fail for every semantically different message, key, ring, scope or signature field; on Ed25519 non-canonical R/S/A and small-order R/A must be rejected, EdDSA keys and signatures must be byte-identical to crypto/ed25519 and kyber-accept implies std-accept; linkage tags equal x*H(scope).",
            "crypto/ed25519; the math/big Ed25519 model classifies which mutations are semantic changes."),
    "C14": ("exploration",
            "runtime monitor: random Or-of-And-of-Rep predicate trees proved through HashProve/HashVerify and through the deniable clique protocol (harness Context, k=2..5, -race in thorough; aborted runs with a failing/garbling Context and a deadlock detector, multi-round and self-verifying participants, predicate objects shared between trees and groups); ground-truth evaluation of the claimed branch in the group; differential reference verifier on group operations for transcript mutations; witness-free forgers",
            "Acceptance must coincide with the truth of the claimed branch for every branch choice and every single-secret falsification; each transcript field mutation/truncation is judged by a reference verifier; proofs are checked against other points, predicates and protocol names; forgers with simulated branches, guessed or transplanted challenges must be rejected.",
            "soundness is judged on explicit cheating-prover families; Ed25519, P-256 and BN256 G1."),
    "C18": ("exploration",
            "runtime monitor: lock-step straight-line programs on every implementation of the same object (Ed25519 ct / AllowVarTime / edwards25519vartime projective+extended / math/big model / crypto/ed25519; P-256, BN256 G1, BN254 G1 vs math/big Weierstrass model; Kilic / CIRCL / gnark) + build-variant differential: the ctprog transcript program built with tags {default, generic, purego, constantTime, constantTime+purego} and compared line by line",
            "Point encodings must be identical after every step of every program on all implementations of a curve (scalars compared as integers), BLS12-381 back-ends must agree byte-for-byte on scalars, G1, G2, GT, Hash, Pair and BLS signatures; the verif hooks compare field ops, the three scalar multipliers and slide with math/big. Five builds of one seeded transcript (mod.Int, compatible.Int, Ed25519, CIRCL, Shamir, Schnorr/EdDSA/BLS, XOFs, random; full library for default/generic/purego) must print identical lines; a differing line with identical operands is a violation class keyed by its op.",
            "math/big models, crypto/ed25519; purego also switches gnark-crypto, CIRCL and x/crypto to pure Go, so dependency assembly is covered differentially; Pick is excluded from cross-back-end comparison (legitimately different)."),
    "C11": ("fault_enumeration",
            "runtime monitor: Pedersen DKG through the direct API and through the goroutine Protocol driver (harness Board/Phaser with barrier ticks; -race in thorough), fresh / fast-sync / 18 resharing shapes, 67-entry Byzantine menu enumerated over every party for groups <= 4 and sampled above, plus coalition, threshold-gap and multi-equivocation families, per-recipient delivery permutations/duplications; Rabin DKG with the harness playing Byzantine participants (real vss Dealer/Verifiers under that participant's key, deals sealed via the verif hook, hand-signed commit messages), ~60 fault kinds enumerated for n <= 4",
            "Among honest nodes that finish: identical Commits and QUAL, every share on the polynomial, any t shares reconstruct a secret matching Commits[0] (math/big Lagrange), key = sum of QUAL contributions / unchanged after resharing, dealers with an unjustified invalid deal out of QUAL, honest dealers in QUAL, all-honest runs complete at every node (goroutine-liveness probe for WaitEnd). Violation keys carry the cause derived from the ground-truth fault ledger.",
            "Byzantine behaviour is limited to the enumerated menus; non-completion caused by a faulty participant is not judged; Ed25519 suite; VerifSnapshot hook only for evidence (distinct final status matrices)."),
}

PENDING = {}

ALL = ["C%02d" % i for i in range(1, 21)]


def main():
    checks = []
    for pid in ALL:
        if pid not in CLAIMED:
            continue
        cat, tech, text, note = CLAIMED[pid]
        checks.append({
            "property_id": pid,
            "quick_cmd": "./run.sh %s quick" % pid,
            "thorough_cmd": "./run.sh %s thorough" % pid,
            "evidence_file": "/verif/evidence/%s.json" % pid,
            "replay_cmd_template": "./run.sh --replay {path}",
            "engine": "kyber-runtime-monitors",
            "level_claimed": {"category": cat, "text": text, "design_ref": "DESIGN.md §5 " + pid},
            "level_note": note,
            "technique": tech,
        })
    na = []
    for pid in ALL:
        if pid not in CLAIMED:
            na.append({"property_id": pid, "reason": PENDING.get(pid, "monitor not built yet in this round (runtime monitoring applies; see DESIGN.md §5)")})
    hooks_commits = []
    hf = os.path.join(HERE, "MANIFEST.hooks")
    if os.path.exists(hf):
        for l in open(hf):
            l = l.strip()
            if l and not l.startswith("#"):
                hooks_commits.append(l.split()[0])
    m = {
        "version": 1,
        "setup_cmd": "./setup.sh",
        "hooks": {
            "guard": "verif",
            "enable": "go build -tags verif (harness module /verif/harness replaces go.dedis.ch/kyber/v4 => /repo)",
            "baseline_off_cmd": BASELINE_OFF,
            "source_commits": hooks_commits,
            "add_only": True,
        },
        "engines": [{
            "name": "kyber-runtime-monitors",
            "path": "/verif/harness",
            "serves_properties": sorted(CLAIMED),
            "kind_free_text": "Go monitors executing the real library under seeded hostile workloads (child process per property/batch, journaled), Go race detector builds for shared-read workloads, build-variant transcript differential; Python driver aggregates events, matches known findings, writes evidence",
        }],
        "checks": checks,
        "notes": "Technique family: runtime monitoring and sanitizers. Verdicts are three-valued (held / violated / inconclusive). Seeds via VERIF_SEED. See DESIGN.md.",
        "not_applicable": na,
    }
    json.dump(m, open(os.path.join(HERE, "MANIFEST.json"), "w"), indent=1)
    print("MANIFEST.json: %d checks, %d not claimed" % (len(checks), len(na)))


if __name__ == "__main__":
    main()
