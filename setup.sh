#!/bin/sh
# setup_cmd: offline; warms the Go build cache by building the monitor binaries once.
cd "$(dirname "$0")" || exit 2
unset GOSUMDB GOTOOLCHAIN
export GOFLAGS=-mod=mod GOPROXY=off
cp /repo/go.sum harness/go.sum
mkdir -p .build .work evidence replays
(cd harness && go build -tags verif -o ../.build/child ./cmd/child) || exit 1
(cd harness && go build -race -tags verif -o ../.build/child-race ./cmd/child) || exit 1
(cd harness && go build -tags 'verif constantTime' -o ../.build/childct-verif_constantTime ./cmd/childct) || exit 1
for tags in 'verif' 'verif generic' 'verif purego' 'verif constantTime' 'verif constantTime purego'; do
  n=$(printf %s "$tags" | sed 's/[^A-Za-z0-9][^A-Za-z0-9]*/_/g')
  (cd harness && go build -tags "$tags" -o "../.build/ctprog-$n" ./cmd/ctprog) || exit 1
done
echo setup ok
