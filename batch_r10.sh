#!/bin/sh
# round 10: seeded defects written against the repaired tree (SEEDBASE = /repo HEAD); validate k=9,10 and run their checks
export SEEDBASE=$(git -C /repo rev-parse HEAD)
for ID in "$@"; do
  if [ $ID = C20 ]; then export SEEDTESTFLAGS=-race; else unset SEEDTESTFLAGS; fi
  ./seedauto.sh $ID >> .work/seedcheck-r10.log 2>&1
  for k in 17 18; do
    d=seeded/$ID-$k
    [ -d $d ] || continue
    P=$d/patch.diff; [ -f $d/patch.rebased.diff ] && P=$d/patch.rebased.diff
    out=$(MUT_LINES=8 ./mut.sh $P $ID 2>&1)
    st=$(echo "$out" | grep -E "^(MUTANT|PATCH)" | tail -1)
    key=$(echo "$out" | grep "^VIOLATION" | grep -o "key=[^ ]*" | head -1)
    echo "$(basename $d): $st $key" >> .work/mutres5.log
  done
done
