#!/usr/bin/env python3
"""Regenerates the generated tables inside DESIGN.md (findings from known_findings.json, seeded defects from seeded/*/meta.json)."""
import json, os, re, glob
V = os.path.dirname(os.path.abspath(__file__))
s = open(os.path.join(V, "DESIGN.md")).read()
rows = ["| # | prop | status | commit | violation class key (pattern) | what failed |", "|---|---|---|---|---|---|"]
for i, k in enumerate(json.load(open(os.path.join(V, "known_findings.json")))["findings"], 1):
    rows.append("| %d | %s | %s | %s | `%s` | %s |" % (i, k["property"], k["status"], k.get("commit", "–"), k["key"], k["what"].replace("|", "/")))
s = re.sub(r"<!-- FINDINGS-TABLE-BEGIN -->.*?<!-- FINDINGS-TABLE-END -->", "<!-- FINDINGS-TABLE-BEGIN -->\n" + "\n".join(rows) + "\n<!-- FINDINGS-TABLE-END -->", s, flags=re.S)
if "<!-- SEEDED-TABLE-BEGIN -->" in s:
    res = {}
    p = os.path.join(V, "seeded", "RESULTS.json")
    if os.path.exists(p):
        res = json.load(open(p))
    rows = ["| id | property | change (file: what) | needs, to manifest | caught by | first violation key |", "|---|---|---|---|---|---|"]
    for d in sorted(glob.glob(os.path.join(V, "seeded", "*", "meta.json"))):
        m = json.load(open(d))
        r = res.get(m["id"], {})
        rows.append("| %s | %s | %s | %s | %s | %s |" % (m["id"], m["property"], m.get("change", "see patch.diff").replace("|", "/"), m.get("needs", "see AUTHOR_README.md").replace("|", "/"),
                                                    r.get("caught_by", "?"), ("`%s`" % r["key"]) if r.get("key") else ""))
    s = re.sub(r"<!-- SEEDED-TABLE-BEGIN -->.*?<!-- SEEDED-TABLE-END -->", "<!-- SEEDED-TABLE-BEGIN -->\n" + "\n".join(rows) + "\n<!-- SEEDED-TABLE-END -->", s, flags=re.S)
open(os.path.join(V, "DESIGN.md"), "w").write(s)
print("tables regenerated")
