#!/bin/sh
# ./seedcheck.sh <name> <mutdir> <pkgdir> <RunPattern> <property> : confirm a seeded change in a scratch copy of the ORIGINAL snapshot
# (git archive of the first commit of /repo, or of $SEEDBASE): (a) builds + full suite passes with patch, (b) demo fails with patch, (c) demo passes without.
NAME=$1; M=$(readlink -f $2); PKG=$3; PAT=$4; PROP=$5
unset GOSUMDB GOTOOLCHAIN; export GOFLAGS=-mod=mod GOPROXY=off
S=/root/scratch/seed-$NAME; rm -rf $S; mkdir -p $S
BASE=${SEEDBASE:-$(git -C /repo rev-list --max-parents=0 HEAD)}
git -C /repo archive $BASE | tar -x -C $S
cd $S
cp $M/demo_test.go $PKG/zz_demo_test.go
DEMO=$PKG/zz_demo_test.go
go test $SEEDTESTFLAGS -vet=off -count=1 -run "$PAT" ./$PKG/ > $S.c.log 2>&1; c=$?
rm -f $DEMO
patch -p1 -s < $M/patch.diff || { echo "patch failed"; exit 2; }
go build ./... > $S.a.log 2>&1 && go test -vet=off -count=1 ./... >> $S.a.log 2>&1; a=$?
cp $M/demo_test.go $PKG/zz_demo_test.go
go test $SEEDTESTFLAGS -vet=off -count=1 -run "$PAT" ./$PKG/ > $S.b.log 2>&1; b=$?
cd /verif
echo "$NAME: (a) suite-with-patch rc=$a  (b) demo-with-patch rc=$b (want !=0)  (c) demo-without-patch rc=$c (want 0)"
if [ $a -eq 0 ] && [ $b -ne 0 ] && [ $c -eq 0 ]; then
  mkdir -p seeded/$NAME; cp $M/patch.diff seeded/$NAME/; cp $M/demo_test.go seeded/$NAME/; cp $M/README.md seeded/$NAME/AUTHOR_README.md 2>/dev/null
  cat > seeded/$NAME/meta.json <<EOT
{"id": "$NAME", "property": "$PROP", "demo_package_dir": "$PKG", "demo_run": "go test -vet=off -count=1 -run '$PAT' ./$PKG/",
 "confirmed": {"base_commit": "$BASE", "suite_with_patch": "pass", "demo_with_patch": "fail", "demo_without_patch": "pass",
 "how": "seedcheck.sh: git archive of the original snapshot into a scratch dir; full 'go test -vet=off -count=1 ./...' with patch; demo with and without patch"}}
EOT
  echo "KEPT seeded/$NAME"
else
  echo "REJECTED $NAME (see $S.*.log)"; tail -n 5 $S.a.log $S.b.log $S.c.log
fi
rm -rf $S
