// Package mon is the recorder every monitor reports to: evaluation counters,
// distinct non-trivial case descriptors, violation records with stable class
// keys, samples, and a per-worker journal of the case about to be executed
// (so that a process-fatal error can be attributed by the driver).
package mon

import (
	"crypto/sha256"
	"encoding/binary"
	"encoding/hex"
	"encoding/json"
	"fmt"
	"os"
	"path/filepath"
	"runtime"
	"runtime/debug"
	"sort"
	"strings"
	"sync"
	"sync/atomic"
	"time"
)

// Violation is one class of violation (deduplicated by Key).
type Violation struct {
	Key    string         `json:"key"`
	What   string         `json:"what"`
	Count  int            `json:"count"`
	Detail map[string]any `json:"detail,omitempty"`
}

// Summary is what the child writes for the driver.
type Summary struct {
	Property    string           `json:"property"`
	Tier        string           `json:"tier"`
	Seed        int64            `json:"seed"`
	Part        string           `json:"part,omitempty"`
	Evaluations int64            `json:"evaluations"`
	Distinct    int              `json:"distinct_nontrivial"`
	Classes     map[string]int64 `json:"classes"`
	Ops         []string         `json:"ops,omitempty"`
	Samples     []any            `json:"samples"`
	Violations  []*Violation     `json:"violations"`
	Notes       map[string]any   `json:"notes,omitempty"`
	Inconcl     []string         `json:"inconclusive,omitempty"`
	Rule        string           `json:"rule"`
	Assumptions []string         `json:"assumptions,omitempty"`
	WallS       float64          `json:"wall_s"`
	Complete    bool             `json:"complete"`
	// DistinctHashes lets the driver merge distinct counts across parts.
	DistinctHashes []string `json:"distinct_hashes,omitempty"`
}

// R is the recorder. All methods are safe for concurrent use.
type R struct {
	Prop, Tier string
	Seed       int64
	Part       string
	Out        string
	Only       string // optional filter on case keys (replay)

	mu       sync.Mutex
	evals    atomic.Int64
	classes  map[string]int64
	distinct map[[8]byte]struct{}
	ops      map[string]struct{}
	samples  []any
	viol     map[string]*Violation
	notes    map[string]any
	inconcl  []string
	rule     string
	assume   []string
	start    time.Time
	jfile    *os.File
	maxSamp  int
	exportD  bool
}

const journalSlot = 4096

// New creates a recorder writing into outdir.
func New(prop, tier string, seed int64, part, outdir string) *R {
	_ = os.MkdirAll(outdir, 0o755)
	r := &R{Prop: prop, Tier: tier, Seed: seed, Part: part, Out: outdir,
		classes: map[string]int64{}, distinct: map[[8]byte]struct{}{}, ops: map[string]struct{}{},
		viol: map[string]*Violation{}, notes: map[string]any{}, start: time.Now(), maxSamp: 12}
	f, err := os.OpenFile(filepath.Join(outdir, "journal"+partSuffix(part)+".txt"), os.O_CREATE|os.O_RDWR|os.O_TRUNC, 0o644)
	if err == nil {
		r.jfile = f
	}
	return r
}

func partSuffix(p string) string {
	if p == "" {
		return ""
	}
	return "." + strings.ReplaceAll(p, "/", "of")
}

// Thorough reports whether this is the thorough tier.
func (r *R) Thorough() bool { return r.Tier == "thorough" }

// N picks a budget by tier.
func (r *R) N(quick, thorough int) int {
	if r.Thorough() {
		return thorough
	}
	return quick
}

// SetRule states how cases are generated and what counts as non-trivial.
func (r *R) SetRule(s string) { r.mu.Lock(); r.rule = s; r.mu.Unlock() }

// Assume adds an assumption / trusted-base line to the evidence.
func (r *R) Assume(s string) { r.mu.Lock(); r.assume = append(r.assume, s); r.mu.Unlock() }

// ExportDistinct makes the summary carry the distinct hashes (for multi-part merges).
func (r *R) ExportDistinct() { r.exportD = true }

// Journal records (pwrite into the worker's slot) the case about to run.
func (r *R) Journal(worker int, format string, args ...any) {
	if r.jfile == nil {
		return
	}
	s := fmt.Sprintf(format, args...)
	if len(s) > journalSlot-2 {
		s = s[:journalSlot-2]
	}
	buf := make([]byte, journalSlot)
	copy(buf, s)
	for i := len(s); i < journalSlot-1; i++ {
		buf[i] = ' '
	}
	buf[journalSlot-1] = '\n'
	_, _ = r.jfile.WriteAt(buf, int64(worker)*journalSlot)
}

// Eval counts one oracle judgement of class `class`. desc identifies the case
// (hashed for the distinct count); nontrivial says whether it satisfies the
// property's non-triviality rule.
func (r *R) Eval(class, desc string, nontrivial bool) {
	r.evals.Add(1)
	var h [8]byte
	if nontrivial {
		s := sha256.Sum256([]byte(class + "\x00" + desc))
		copy(h[:], s[:8])
	}
	r.mu.Lock()
	r.classes[class]++
	if nontrivial {
		r.distinct[h] = struct{}{}
	}
	r.mu.Unlock()
}

// EvalN counts n judgements of a class without distinct descriptors.
func (r *R) EvalN(class string, n int) {
	r.evals.Add(int64(n))
	r.mu.Lock()
	r.classes[class] += int64(n)
	r.mu.Unlock()
}

// Op notes that an operation / method / entry point was exercised.
func (r *R) Op(names ...string) {
	r.mu.Lock()
	for _, n := range names {
		r.ops[n] = struct{}{}
	}
	r.mu.Unlock()
}

// Sample keeps a few written-out cases for the evidence file.
func (r *R) Sample(v any) {
	r.mu.Lock()
	if len(r.samples) < r.maxSamp {
		r.samples = append(r.samples, v)
	}
	r.mu.Unlock()
}

// SampleClass keeps at most one sample per class tag (so samples are diverse).
func (r *R) SampleClass(tag string, v any) {
	r.mu.Lock()
	k := "sample:" + tag
	if _, ok := r.notes[k]; !ok && len(r.samples) < 40 {
		r.notes[k] = true
		r.samples = append(r.samples, v)
	}
	r.mu.Unlock()
}

// Note stores an arbitrary observation (counts of distinct states etc.).
func (r *R) Note(k string, v any) { r.mu.Lock(); r.notes[k] = v; r.mu.Unlock() }

// NoteAdd increments an integer note.
func (r *R) NoteAdd(k string, d int64) {
	r.mu.Lock()
	cur, _ := r.notes[k].(int64)
	r.notes[k] = cur + d
	r.mu.Unlock()
}

// Inconclusive records that part of the exploration could not be judged.
func (r *R) Inconclusive(reason string) {
	r.mu.Lock()
	if len(r.inconcl) < 50 {
		r.inconcl = append(r.inconcl, reason)
	}
	r.mu.Unlock()
}

// Violation records a violation of class key (stable, no random data) with a
// human description and a witness.
func (r *R) Violation(key, what string, detail map[string]any) {
	r.mu.Lock()
	v, ok := r.viol[key]
	if !ok {
		v = &Violation{Key: key, What: what, Detail: detail}
		r.viol[key] = v
	}
	v.Count++
	r.mu.Unlock()
}

// NViolations returns the number of distinct violation classes so far.
func (r *R) NViolations() int { r.mu.Lock(); defer r.mu.Unlock(); return len(r.viol) }

// Guard runs f; a panic becomes a violation `key/panic` unless isCapability
// says otherwise. Returns false if f panicked.
func (r *R) Guard(key string, detail map[string]any, f func()) (ok bool) {
	defer func() {
		if e := recover(); e != nil {
			ok = false
			d := map[string]any{}
			for k, v := range detail {
				d[k] = v
			}
			d["panic"] = fmt.Sprint(e)
			d["stack"] = trimStack(debug.Stack())
			r.Violation(key+"/panic", "panic: "+firstLine(fmt.Sprint(e)), d)
		}
	}()
	f()
	return true
}

// Try runs f and returns the recovered panic value (nil if none) as string.
func Try(f func()) (p string, panicked bool) {
	defer func() {
		if e := recover(); e != nil {
			p = fmt.Sprint(e)
			panicked = true
		}
	}()
	f()
	return "", false
}

func firstLine(s string) string {
	if i := strings.IndexByte(s, '\n'); i >= 0 {
		s = s[:i]
	}
	if len(s) > 160 {
		s = s[:160]
	}
	return s
}

func trimStack(b []byte) string {
	lines := strings.Split(string(b), "\n")
	var out []string
	for _, l := range lines {
		if strings.Contains(l, "runtime/debug.Stack") || strings.Contains(l, "mon.(*R).Guard") {
			continue
		}
		out = append(out, l)
		if len(out) > 28 {
			break
		}
	}
	return strings.Join(out, "\n")
}

// Hex is a helper for witnesses.
func Hex(b []byte) string { return hex.EncodeToString(b) }

// FinishPartial writes the summary of an unfinished run (watchdog).
func (r *R) FinishPartial() { r.finish(false) }

// Finish writes the summary file.
func (r *R) Finish() { r.finish(true) }

func (r *R) finish(complete bool) {
	r.mu.Lock()
	defer r.mu.Unlock()
	s := Summary{Property: r.Prop, Tier: r.Tier, Seed: r.Seed, Part: r.Part,
		Evaluations: r.evals.Load(), Distinct: len(r.distinct), Classes: r.classes,
		Samples: r.samples, Notes: r.notes, Inconcl: r.inconcl, Rule: r.rule, Assumptions: r.assume,
		WallS: time.Since(r.start).Seconds(), Complete: complete}
	for k := range r.ops {
		s.Ops = append(s.Ops, k)
	}
	sort.Strings(s.Ops)
	for _, v := range r.viol {
		s.Violations = append(s.Violations, v)
	}
	sort.Slice(s.Violations, func(i, j int) bool { return s.Violations[i].Key < s.Violations[j].Key })
	if s.Samples == nil {
		s.Samples = []any{}
	}
	if s.Violations == nil {
		s.Violations = []*Violation{}
	}
	if r.exportD {
		for h := range r.distinct {
			s.DistinctHashes = append(s.DistinctHashes, hex.EncodeToString(h[:]))
		}
		sort.Strings(s.DistinctHashes)
	}
	b, err := json.MarshalIndent(s, "", " ")
	if err != nil {
		fmt.Fprintln(os.Stderr, "summary marshal:", err)
		os.Exit(3)
	}
	name := filepath.Join(r.Out, "summary"+partSuffix(r.Part)+".json")
	if err := os.WriteFile(name, b, 0o644); err != nil {
		fmt.Fprintln(os.Stderr, "summary write:", err)
		os.Exit(3)
	}
	fmt.Printf("child %s %s seed=%d part=%q: evaluations=%d distinct=%d violations=%d wall=%.1fs\n",
		r.Prop, r.Tier, r.Seed, r.Part, s.Evaluations, s.Distinct, len(s.Violations), s.WallS)
}

// Parallel runs f(worker, i) for i in [0,n) on up to runtime.NumCPU() workers.
// Case i is always handled identically regardless of the worker (determinism
// must come from i, not from worker).
func Parallel(n int, f func(worker, i int)) {
	w := runtime.GOMAXPROCS(0)
	if w > n {
		w = n
	}
	if w < 1 {
		w = 1
	}
	var next atomic.Int64
	var wg sync.WaitGroup
	for k := 0; k < w; k++ {
		wg.Add(1)
		go func(k int) {
			defer wg.Done()
			for {
				i := int(next.Add(1) - 1)
				if i >= n {
					return
				}
				f(k, i)
			}
		}(k)
	}
	wg.Wait()
}

// U64 is a little helper used in case descriptors.
func U64(x uint64) string {
	var b [8]byte
	binary.BigEndian.PutUint64(b[:], x)
	return hex.EncodeToString(b[:])
}
