// Package c02core is the C02 scalar monitor. It depends only on the kyber
// interfaces so that it compiles under every build-tag set (default and
// constantTime); the callers supply the scalar implementations.
package c02core

import (
	"bytes"
	"crypto/cipher"
	"fmt"
	"math"
	"math/big"

	"go.dedis.ch/kyber/v4"

	"verif/internal/gen"
	"verif/internal/mon"
)

// Impl is one scalar implementation.
type Impl struct {
	Name string
	New  func() kyber.Scalar
	Q    *big.Int
	Len  int // advertised ScalarLen
}

func rev(b []byte) []byte {
	c := make([]byte, len(b))
	for i := range b {
		c[len(b)-1-i] = b[i]
	}
	return c
}

// fromBig builds a scalar from a residue through SetBytes in declared order.
func (im *Impl) fromBig(x *big.Int) kyber.Scalar {
	v := new(big.Int).Mod(x, im.Q)
	s := im.New()
	b := v.Bytes()
	if len(b) == 0 {
		return s.Zero()
	}
	if s.ByteOrder() == kyber.LittleEndian {
		b = rev(b)
	}
	return s.SetBytes(b)
}

// toBig decodes through MarshalBinary and checks the canonical form.
func (im *Impl) toBig(r *mon.R, s kyber.Scalar, ctx string, detail func() map[string]any) *big.Int {
	b, err := s.MarshalBinary()
	if err != nil {
		d := detail()
		d["err"] = err.Error()
		r.Violation("C02/"+im.Name+"/"+ctx+"/marshal-error", "MarshalBinary of a result failed", d)
		return new(big.Int)
	}
	if len(b) != im.Len || s.MarshalSize() != im.Len {
		d := detail()
		d["len"] = len(b)
		d["want"] = im.Len
		r.Violation("C02/"+im.Name+"/"+ctx+"/non-canonical-length", "encoding of a result does not have the advertised scalar length", d)
	}
	c := append([]byte(nil), b...)
	if s.ByteOrder() == kyber.LittleEndian {
		c = rev(c)
	}
	v := new(big.Int).SetBytes(c)
	if v.Cmp(im.Q) >= 0 {
		d := detail()
		d["value"] = v.Text(16)
		r.Violation("C02/"+im.Name+"/"+ctx+"/non-reduced", "result is not in canonical reduced form (>= q)", d)
	}
	return v
}

type recStream struct {
	s   cipher.Stream
	rec []byte
}

func (r *recStream) XORKeyStream(dst, src []byte) {
	in := append([]byte(nil), src...) // dst may alias src
	r.s.XORKeyStream(dst, src)
	for i := range in {
		r.rec = append(r.rec, dst[i]^in[i])
	}
}

type replayStream struct {
	b   []byte
	pos int
	ran bool // ran out
}

func (r *replayStream) XORKeyStream(dst, src []byte) {
	for i := range src {
		var k byte
		if r.pos < len(r.b) {
			k = r.b[r.pos]
		} else {
			r.ran = true
		}
		r.pos++
		dst[i] = src[i] ^ k
	}
}

// Run executes the monitor for all implementations.
func Run(r *mon.R, impls []Impl, label string) {
	type job struct {
		im   *Impl
		kind string
		idx  int
	}
	var jobs []job
	for i := range impls {
		im := &impls[i]
		for k := 0; k < r.N(100, 1500); k++ {
			jobs = append(jobs, job{im, "ops", k})
		}
		for k := 0; k < r.N(4, 60); k++ {
			jobs = append(jobs, job{im, "setbytes", k})
		}
		for k := 0; k < r.N(2, 30); k++ {
			jobs = append(jobs, job{im, "setint64", k})
		}
		for k := 0; k < r.N(4, 60); k++ {
			jobs = append(jobs, job{im, "pick", k})
		}
	}
	mon.Parallel(len(jobs), func(w, i int) {
		j := jobs[i]
		r.Journal(w, "C02 %s %s %s %d", label, j.im.Name, j.kind, j.idx)
		r.Guard("C02/"+j.im.Name+"/"+j.kind, map[string]any{"impl": j.im.Name, "idx": j.idx, "build": label}, func() {
			rng := gen.New(r.Seed, "C02"+j.kind+j.im.Name, j.idx)
			switch j.kind {
			case "ops":
				ops(r, j.im, rng, j.idx)
			case "setbytes":
				setBytes(r, j.im, rng, j.idx)
			case "setint64":
				setInt64(r, j.im, rng, j.idx)
			case "pick":
				pick(r, j.im, rng, j.idx)
			}
		})
	})
}

func ops(r *mon.R, im *Impl, rng *gen.Rng, idx int) {
	q := im.Q
	edge := gen.Edge(q)
	for it := 0; it < 100; it++ {
		a := rng.EdgeOrRandom(edge, q, 170)
		b := rng.EdgeOrRandom(edge, q, 170)
		sa, sb := im.fromBig(a), im.fromBig(b)
		det := func() map[string]any { return map[string]any{"impl": im.Name, "a": a.Text(16), "b": b.Text(16)} }
		desc := a.Text(16) + "," + b.Text(16)
		nontriv := a.Sign() != 0 || b.Sign() != 0
		check := func(op string, got kyber.Scalar, want *big.Int) {
			want.Mod(want, q)
			g := im.toBig(r, got, op, det)
			r.Eval(op, im.Name+"|"+desc, nontriv)
			if g.Cmp(want) != 0 {
				d := det()
				d["got"] = g.Text(16)
				d["want"] = want.Text(16)
				r.Violation("C02/"+im.Name+"/"+op+"/wrong-value", op+" differs from the integer result mod q", d)
			}
		}
		// operands round-trip exactly
		check("fromBytes", sa, new(big.Int).Set(a))
		check("Add", im.New().Add(sa, sb), new(big.Int).Add(a, b))
		check("Sub", im.New().Sub(sa, sb), new(big.Int).Sub(a, b))
		check("Mul", im.New().Mul(sa, sb), new(big.Int).Mul(a, b))
		check("Neg", im.New().Neg(sa), new(big.Int).Neg(a))
		if b.Sign() != 0 {
			bi := new(big.Int).ModInverse(b, q)
			if bi != nil {
				check("Div", im.New().Div(sa, sb), new(big.Int).Mul(a, bi))
				check("Inv", im.New().Inv(sb), new(big.Int).Set(bi))
				// a/b*b = a
				check("Div*Mul", im.New().Mul(im.New().Div(sa, sb), sb), new(big.Int).Set(a))
			}
		}
		// the same operations into a receiver that already holds another (full-width) value: the previous content must not matter
		used := func() kyber.Scalar { return im.fromBig(new(big.Int).Sub(q, big.NewInt(1+int64(it%3)))) }
		check("Add/used-receiver", used().Add(sa, sb), new(big.Int).Add(a, b))
		check("Sub/used-receiver", used().Sub(sa, sb), new(big.Int).Sub(a, b))
		check("Mul/used-receiver", used().Mul(sa, sb), new(big.Int).Mul(a, b))
		check("Neg/used-receiver", used().Neg(sa), new(big.Int).Neg(a))
		check("Set/used-receiver", used().Set(sa), new(big.Int).Set(a))
		if b.Sign() != 0 {
			if bi := new(big.Int).ModInverse(b, q); bi != nil {
				check("Div/used-receiver", used().Div(sa, sb), new(big.Int).Mul(a, bi))
				check("Inv/used-receiver", used().Inv(sb), new(big.Int).Set(bi))
			}
		}
		// the same operations with the receiver being one of the operands (x = x op b, x = a op x, x = x op x): the field
		// value must not depend on where the result is stored
		ca, cb := sa.Clone(), sb.Clone()
		check("Add/receiver=a", ca.Add(ca, sb), new(big.Int).Add(a, b))
		check("Add/receiver=b", cb.Add(sa, cb), new(big.Int).Add(a, b))
		ca, cb = sa.Clone(), sb.Clone()
		check("Sub/receiver=a", ca.Sub(ca, sb), new(big.Int).Sub(a, b))
		check("Sub/receiver=b", cb.Sub(sa, cb), new(big.Int).Sub(a, b))
		ca, cb = sa.Clone(), sb.Clone()
		check("Mul/receiver=a", ca.Mul(ca, sb), new(big.Int).Mul(a, b))
		check("Mul/receiver=b", cb.Mul(sa, cb), new(big.Int).Mul(a, b))
		ca = sa.Clone()
		check("Neg/receiver=a", ca.Neg(ca), new(big.Int).Neg(a))
		ca = sa.Clone()
		check("Add/receiver=a=b", ca.Add(ca, ca), new(big.Int).Add(a, a))
		ca = sa.Clone()
		check("Mul/receiver=a=b", ca.Mul(ca, ca), new(big.Int).Mul(a, a))
		ca = sa.Clone()
		check("Sub/receiver=a=b", ca.Sub(ca, ca), new(big.Int))
		if b.Sign() != 0 {
			if bi := new(big.Int).ModInverse(b, q); bi != nil {
				ca, cb = sa.Clone(), sb.Clone()
				check("Div/receiver=a", ca.Div(ca, sb), new(big.Int).Mul(a, bi))
				check("Div/receiver=b", cb.Div(sa, cb), new(big.Int).Mul(a, bi))
				cb = sb.Clone()
				check("Inv/receiver=a", cb.Inv(cb), new(big.Int).Set(bi))
				cb = sb.Clone()
				check("Div/receiver=a=b", cb.Div(cb, cb), big.NewInt(1))
			}
		}
		check("Zero", im.New().Set(sa).Zero(), new(big.Int))
		check("One", im.New().Set(sa).One(), big.NewInt(1))
		check("Set", im.New().Set(sa), new(big.Int).Set(a))
		check("Clone", sa.Clone(), new(big.Int).Set(a))
		// operands untouched
		check("operand-a-intact", sa, new(big.Int).Set(a))
		check("operand-b-intact", sb, new(big.Int).Set(b))

		// Equal <=> equal residues <=> equal bytes, values reached by different routes
		eqPair := func(route string, x, y kyber.Scalar, wantEq bool) {
			r.Eval("Equal/"+route, im.Name+"|"+desc, true)
			bx, _ := x.MarshalBinary()
			by, _ := y.MarshalBinary()
			e1, e2 := x.Equal(y), y.Equal(x)
			if e1 != wantEq || e2 != wantEq || bytes.Equal(bx, by) != wantEq {
				d := det()
				d["route"] = route
				d["Equal"] = []bool{e1, e2}
				d["bytesEqual"] = bytes.Equal(bx, by)
				d["wantEqual"] = wantEq
				d["x"] = mon.Hex(bx)
				d["y"] = mon.Hex(by)
				r.Violation("C02/"+im.Name+"/Equal/"+route, "Equal / byte equality disagrees with equality of residues", d)
			}
		}
		eqPair("a+b-b=a", im.New().Sub(im.New().Add(sa, sb), sb), sa, true)
		eqPair("(-1)a=Neg(a)", im.New().Mul(im.New().SetInt64(-1), sa), im.New().Neg(sa), true)
		eqPair("a*1=a", im.New().Mul(sa, im.New().One()), sa, true)
		eqPair("a+0=a", im.New().Add(sa, im.New().Zero()), sa, true)
		eqPair("a-a=0", im.New().Sub(sa, sa), im.New().Zero(), true)
		eqPair("a vs a+1", im.New().Add(sa, im.New().One()), sa, false)
		if a.Cmp(b) != 0 {
			eqPair("a vs b", sa, sb, false)
		}
		// SetBytes(x) vs SetBytes(x+q): same residue
		{
			xq := new(big.Int).Add(a, q)
			bb := xq.Bytes()
			s2 := im.New()
			if s2.ByteOrder() == kyber.LittleEndian {
				bb = rev(bb)
			}
			s2.SetBytes(bb)
			eqPair("SetBytes(a)=SetBytes(a+q)", s2, sa, true)
		}
		if it == 0 && idx == 0 {
			r.SampleClass("ops:"+im.Name, map[string]any{"impl": im.Name, "a": a.Text(16), "b": b.Text(16), "ops": "Add,Sub,Mul,Neg,Div,Inv,Zero,One,Set,Clone,Equal-routes"})
		}
	}
	r.Op("Add", "Sub", "Mul", "Neg", "Div", "Inv", "Zero", "One", "Set", "Clone", "Equal")
}

func setBytes(r *mon.R, im *Impl, rng *gen.Rng, idx int) {
	q := im.Q
	le := im.New().ByteOrder() == kyber.LittleEndian
	qb := q.Bytes()
	for l := 0; l <= 96; l++ {
		var inputs [][]byte
		inputs = append(inputs, rng.Bytes(l), bytes.Repeat([]byte{0xff}, l), make([]byte, l))
		if l > 0 {
			hi := make([]byte, l) // one-hot top / bottom
			hi[0] = 0x80
			lo := make([]byte, l)
			lo[l-1] = 0x01
			inputs = append(inputs, hi, lo)
		}
		if l >= len(qb) {
			// multiples of q and q±1 padded to length l (big-endian here, converted below)
			for _, m := range []int64{1, 2, 3} {
				for _, dlt := range []int64{-1, 0, 1} {
					v := new(big.Int).Mul(q, big.NewInt(m))
					v.Add(v, big.NewInt(dlt))
					vb := v.Bytes()
					if len(vb) <= l {
						be := make([]byte, l)
						copy(be[l-len(vb):], vb)
						if le {
							be = rev(be)
						}
						inputs = append(inputs, be)
					}
				}
			}
		}
		for k, in := range inputs {
			be := in
			if le {
				be = rev(in)
			}
			want := new(big.Int).SetBytes(be)
			want.Mod(want, q)
			keep := append([]byte(nil), in...)
			s := im.New().SetBytes(in)
			det := func() map[string]any {
				return map[string]any{"impl": im.Name, "input": mon.Hex(keep), "len": l, "littleEndian": le}
			}
			got := im.toBig(r, s, "SetBytes", det)
			r.Eval("SetBytes", fmt.Sprintf("%s|%d|%d|%d", im.Name, idx, l, k), l > 0)
			if got.Cmp(want) != 0 {
				d := det()
				d["got"] = got.Text(16)
				d["want"] = want.Text(16)
				cls := "short"
				if l == len(qb) {
					cls = "full-length"
				} else if l > len(qb) {
					cls = "over-length"
				}
				r.Violation("C02/"+im.Name+"/SetBytes/wrong-value/"+cls, "SetBytes does not interpret-and-reduce the input in the declared byte order", d)
			}
			if !bytes.Equal(in, keep) {
				r.Violation("C02/"+im.Name+"/SetBytes/input-modified", "SetBytes modified its input slice", det())
			}
			// receiver previously holding a value must not matter
			s2 := im.fromBig(rng.Big(q)).SetBytes(in)
			if im.toBig(r, s2, "SetBytes", det).Cmp(want) != 0 {
				r.Violation("C02/"+im.Name+"/SetBytes/stale-receiver", "SetBytes result depends on the previous value of the receiver", det())
			}
		}
	}
	r.Op("SetBytes")
	if idx == 0 {
		r.SampleClass("setbytes:"+im.Name, map[string]any{"impl": im.Name, "lengths": "0..96", "families": "random, all-ff, all-00, one-hot top/bottom, k*q+{-1,0,1}"})
	}
}

func setInt64(r *mon.R, im *Impl, rng *gen.Rng, idx int) {
	q := im.Q
	vals := []int64{0, 1, -1, 2, -2, 1 << 31, -(1 << 31), 1<<31 - 1, 1 << 32, 1 << 62, -(1 << 62), math.MaxInt64, math.MinInt64, math.MaxInt64 - 1, math.MinInt64 + 1, 255, 256, -255, -256, 65535, -65536}
	for i := 0; i < 200; i++ {
		v := int64(rng.Uint64())
		if i%3 == 0 {
			v >>= uint(rng.IntN(63))
		}
		vals = append(vals, v)
	}
	for _, v := range vals {
		want := new(big.Int).Mod(big.NewInt(v), q)
		class := "SetInt64/nonneg"
		if v < 0 {
			class = "SetInt64/negative"
		}
		det := func() map[string]any { return map[string]any{"impl": im.Name, "v": v} }
		var s kyber.Scalar
		if msg, p := mon.Try(func() {
			s = im.New().SetInt64(v)
			// and into a receiver holding q-1: same result
			if u := im.fromBig(new(big.Int).Sub(q, big.NewInt(1))).SetInt64(v); !u.Equal(s) || !s.Equal(u) {
				ub, _ := u.MarshalBinary()
				r.Violation("C02/"+im.Name+"/"+class+"/stale-receiver", "SetInt64 result depends on the previous value of the receiver", map[string]any{"impl": im.Name, "v": v, "got": mon.Hex(ub)})
			}
		}); p {
			d := det()
			d["panic"] = msg
			r.Eval(class, fmt.Sprintf("%s|%d", im.Name, v), true)
			r.Violation("C02/"+im.Name+"/"+class+"/panic", "SetInt64 panics", d)
			continue
		}
		got := im.toBig(r, s, "SetInt64", det)
		r.Eval(class, fmt.Sprintf("%s|%d", im.Name, v), true)
		if got.Cmp(want) != 0 {
			d := det()
			d["got"] = got.Text(16)
			d["want"] = want.Text(16)
			r.Violation("C02/"+im.Name+"/"+class+"/wrong-value", "SetInt64(v) is not v mod q", d)
		}
	}
	r.Op("SetInt64")
	_ = idx
}

func pick(r *mon.R, im *Impl, rng *gen.Rng, idx int) {
	q := im.Q
	seen := map[string]bool{}
	for it := 0; it < 40; it++ {
		seed := rng.Bytes(32)
		mk := func() cipher.Stream { return gen.StreamOf(seed) }
		rec := &recStream{s: mk()}
		s1 := im.New().Pick(rec)
		det := func() map[string]any { return map[string]any{"impl": im.Name, "seed": mon.Hex(seed)} }
		v1 := im.toBig(r, s1, "Pick", det)
		r.Eval("Pick/range", im.Name+"|"+mon.Hex(seed[:8]), true)
		if v1.Cmp(q) >= 0 {
			r.Violation("C02/"+im.Name+"/Pick/out-of-range", "Pick returned a value >= q", det())
		}
		// same stream again => same value
		s2 := im.New().Pick(mk())
		r.Eval("Pick/deterministic", im.Name+"|"+mon.Hex(seed[:8]), true)
		if !s1.Equal(s2) {
			r.Violation("C02/"+im.Name+"/Pick/not-deterministic", "Pick on an identical stream returned a different value", det())
		}
		// a stream that replays exactly the recorded bytes => same value, and needs no more bytes
		rp := &replayStream{b: rec.rec}
		s3 := im.fromBig(rng.Big(q)).Pick(rp)
		r.Eval("Pick/bytes-determine", im.Name+"|"+mon.Hex(seed[:8]), true)
		if !s1.Equal(s3) || rp.ran {
			d := det()
			d["consumed_first"] = len(rec.rec)
			d["consumed_replay"] = rp.pos
			r.Violation("C02/"+im.Name+"/Pick/not-determined-by-bytes", "Pick is not a function of the bytes drawn from the stream (replay of the recorded bytes gives another value or draws more)", d)
		}
		seen[v1.Text(16)] = true
	}
	// scripted streams: the first candidate is q, q+1, 2^bits-1 (must be rejected / reduced, never returned) or q-1 (in range)
	bits := q.BitLen()
	nb := (bits + 7) / 8
	lim := new(big.Int).Lsh(big.NewInt(1), uint(bits))
	for _, first := range []*big.Int{new(big.Int).Set(q), new(big.Int).Add(q, big.NewInt(1)), new(big.Int).Sub(lim, big.NewInt(1)), new(big.Int).Sub(q, big.NewInt(1))} {
		if first.Cmp(lim) >= 0 {
			continue
		}
		for _, le := range []bool{false, true} {
			head := make([]byte, nb)
			first.FillBytes(head)
			if le {
				head = rev(head)
			}
			// pad the head to several candidate widths (some implementations draw more bytes than the modulus size)
			script := append(append([]byte(nil), head...), rng.Bytes(4*nb+64)...)
			rp := &replayStream{b: script}
			var s kyber.Scalar
			msg, panicked := mon.Try(func() { s = im.New().Pick(rp) })
			cls := "Pick/scripted-first-candidate"
			r.Eval(cls, fmt.Sprintf("%s|%s|%v", im.Name, first.Text(16), le), true)
			d := map[string]any{"impl": im.Name, "first_candidate": first.Text(16), "little_endian_script": le, "script_head": mon.Hex(head)}
			if panicked {
				d["panic"] = msg
				r.Violation("C02/"+im.Name+"/"+cls+"/panic", "Pick panicked on a scripted stream", d)
				continue
			}
			if rp.ran {
				continue // the implementation wanted more bytes than scripted: not judged
			}
			v := im.toBig(r, s, cls, func() map[string]any { return d })
			if v.Cmp(q) >= 0 {
				r.Violation("C02/"+im.Name+"/"+cls+"/out-of-range", "Pick returned a value >= q when the stream's first candidate is >= q", d)
			}
			if !s.Equal(im.New().Add(s, im.New().Zero())) {
				r.Violation("C02/"+im.Name+"/"+cls+"/not-equal-to-itself-plus-zero", "picked scalar is not Equal to itself + 0 (non-canonical)", d)
			}
		}
	}
	r.NoteAdd("pick_distinct_values_"+im.Name, int64(len(seen)))
	r.Op("Pick")
	_ = idx
}
