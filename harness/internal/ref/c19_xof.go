// Package ref holds reference models used by the monitors.
//
// c19_xof.go: single-shot reference of the three kyber XOFs (C19) and the
// deterministic rejection-sampling reference of random.Int.
//
// The XOF model never reads incrementally: every output request is answered
// by a FRESH primitive instance (x/crypto blake2b/blake2s XOF, std
// crypto/sha3 SHAKE256) that absorbs key and data with one Write and is
// squeezed with one Read of off+n bytes. The state of the model is therefore
// just (key, absorbed data, number of bytes already squeezed).
package ref

import (
	"crypto/sha3"
	"math/big"

	"golang.org/x/crypto/blake2b"
	"golang.org/x/crypto/blake2s"
)

// C19Impls lists the implementations modelled.
var C19Impls = []string{"blake2xb", "blake2xs", "keccak"}

// C19KeySize is the length of the seed prefix used as the MAC key of the
// primitive (the remainder of the seed is absorbed).
func C19KeySize(impl string) int {
	switch impl {
	case "blake2xb":
		return blake2b.Size
	case "blake2xs":
		return blake2s.Size
	case "keccak":
		return 0
	}
	panic("ref: unknown xof impl " + impl)
}

// C19SingleShot returns the first n output bytes of the primitive keyed with
// key after absorbing data: one instance, one Write, one Read.
func C19SingleShot(impl string, key, data []byte, n int) []byte {
	out := make([]byte, n)
	switch impl {
	case "blake2xb":
		x, err := blake2b.NewXOF(blake2b.OutputLengthUnknown, key)
		if err != nil {
			panic("ref: blake2b.NewXOF: " + err.Error())
		}
		if _, err := x.Write(data); err != nil {
			panic(err)
		}
		if m, err := x.Read(out); err != nil || m != n {
			panic("ref: blake2b short read")
		}
	case "blake2xs":
		x, err := blake2s.NewXOF(blake2s.OutputLengthUnknown, key)
		if err != nil {
			panic("ref: blake2s.NewXOF: " + err.Error())
		}
		if _, err := x.Write(data); err != nil {
			panic(err)
		}
		if m, err := x.Read(out); err != nil || m != n {
			panic("ref: blake2s short read")
		}
	case "keccak":
		if len(key) != 0 {
			panic("ref: keccak model has no key")
		}
		h := sha3.NewSHAKE256()
		if _, err := h.Write(data); err != nil {
			panic(err)
		}
		if m, err := h.Read(out); err != nil || m != n {
			panic("ref: shake short read")
		}
	default:
		panic("ref: unknown xof impl " + impl)
	}
	return out
}

// C19Xof is the model state of one XOF object.
type C19Xof struct {
	Impl      string
	Key       []byte // MAC key of the primitive (seed prefix)
	Data      []byte // everything absorbed after the key
	Off       int    // output bytes already squeezed
	Squeezing bool   // a Read/XORKeyStream call (of any length) happened since the XOF was last writable
	ReadBytes int    // output bytes squeezed since the XOF was last writable
	cache     []byte
}

// C19NewXof models New(seed).
func C19NewXof(impl string, seed []byte) *C19Xof {
	ks := C19KeySize(impl)
	m := &C19Xof{Impl: impl}
	if len(seed) > ks {
		m.Key = append([]byte(nil), seed[:ks]...)
		m.Data = append([]byte(nil), seed[ks:]...)
	} else {
		m.Key = append([]byte(nil), seed...)
	}
	return m
}

// Clone copies the model.
func (m *C19Xof) Clone() *C19Xof {
	return &C19Xof{Impl: m.Impl, Key: append([]byte(nil), m.Key...), Data: append([]byte(nil), m.Data...),
		Off: m.Off, Squeezing: m.Squeezing, ReadBytes: m.ReadBytes}
}

// Write absorbs p. The caller must not call it while Squeezing.
func (m *C19Xof) Write(p []byte) {
	if m.Squeezing {
		panic("ref: model Write while squeezing")
	}
	m.Data = append(m.Data, p...)
	m.cache = nil
}

func (m *C19Xof) ensure(n int) {
	if len(m.cache) >= n {
		return
	}
	want := n
	if want < 2*len(m.cache) {
		want = 2 * len(m.cache)
	}
	if want < 512 {
		want = 512
	}
	m.cache = C19SingleShot(m.Impl, m.Key, m.Data, want)
}

// Peek returns the next n output bytes without consuming them.
func (m *C19Xof) Peek(n int) []byte {
	m.ensure(m.Off + n)
	return append([]byte(nil), m.cache[m.Off:m.Off+n]...)
}

// Next consumes and returns the next n output bytes (a Read of n bytes).
func (m *C19Xof) Next(n int) []byte {
	out := m.Peek(n)
	m.Off += n
	m.ReadBytes += n
	m.Squeezing = true
	return out
}

// Reseed models Reseed(): the next 128 output bytes become the seed of a
// fresh XOF of the same implementation.
func (m *C19Xof) Reseed() {
	k := m.Next(128)
	n := C19NewXof(m.Impl, k)
	m.Key, m.Data, m.Off, m.Squeezing, m.ReadBytes, m.cache = n.Key, n.Data, 0, false, 0, nil
}

// C19RejectionRef is the deterministic statement of "rejection sampling
// without modulo bias": the byte stream is cut into successive draws of
// ceil(bits/8) bytes, each masked to `bits` bits (big-endian, surplus top bits
// cleared); the result is the first draw that is < M. ok=false if the stream
// ends before a draw is accepted.
func C19RejectionRef(M *big.Int, stream []byte) (v *big.Int, draws int, ok bool) {
	bits := M.BitLen()
	l := (bits + 7) / 8
	for pos := 0; pos+l <= len(stream); pos += l {
		draws++
		b := append([]byte(nil), stream[pos:pos+l]...)
		if bits%8 != 0 && l > 0 {
			b[0] &= byte(0xff >> (8 - uint(bits%8)))
		}
		c := new(big.Int).SetBytes(b)
		if c.Cmp(M) < 0 {
			return c, draws, true
		}
		if l == 0 {
			break
		}
	}
	return nil, draws, false
}
