package ref

// Independent (math/big + std hashes) model of RFC 9380 hash-to-curve for the
// suite edwards25519_XMD:SHA-512_ELL2_RO_, used by the C17 monitor as oracle
// for arbitrary (msg, DST). Shares no code with kyber. The monitor validates
// this model against the RFC's published vectors before trusting it.

import (
	"crypto/sha512"
	"hash"
	"math/big"
)

// C17ExpandXMD is expand_message_xmd (RFC 9380 §5.3.1) with the oversize-DST
// rule of §5.3.3. ok=false when the RFC leaves the input undefined (empty DST,
// too long output).
func C17ExpandXMD(newH func() hash.Hash, msg, dst []byte, n int) (out []byte, ok bool) {
	h := newH()
	b := h.Size()
	s := h.BlockSize()
	ell := (n + b - 1) / b
	if ell > 255 || n > 65535 || len(dst) == 0 {
		return nil, false
	}
	if len(dst) > 255 {
		h.Reset()
		h.Write([]byte("H2C-OVERSIZE-DST-"))
		h.Write(dst)
		dst = h.Sum(nil)
	}
	dstPrime := append(append([]byte(nil), dst...), byte(len(dst)))
	h.Reset()
	h.Write(make([]byte, s))
	h.Write(msg)
	h.Write([]byte{byte(n >> 8), byte(n)})
	h.Write([]byte{0})
	h.Write(dstPrime)
	b0 := h.Sum(nil)
	h.Reset()
	h.Write(b0)
	h.Write([]byte{1})
	h.Write(dstPrime)
	bi := h.Sum(nil)
	out = append(out, bi...)
	for i := 2; i <= ell; i++ {
		x := make([]byte, b)
		for k := range x {
			x[k] = b0[k] ^ bi[k]
		}
		h.Reset()
		h.Write(x)
		h.Write([]byte{byte(i)})
		h.Write(dstPrime)
		bi = h.Sum(nil)
		out = append(out, bi...)
	}
	return out[:n], true
}

func c17IsSquare(x *big.Int) bool {
	if x.Sign() == 0 {
		return true
	}
	e := new(big.Int).Rsh(new(big.Int).Sub(EdP, big.NewInt(1)), 1)
	return new(big.Int).Exp(x, e, EdP).Cmp(big.NewInt(1)) == 0
}

func c17Inv0(x *big.Int) *big.Int {
	if x.Sign() == 0 {
		return new(big.Int)
	}
	return new(big.Int).ModInverse(x, EdP)
}

func c17mod(x *big.Int) *big.Int { return x.Mod(x, EdP) }

// c17Ell2Curve25519 is map_to_curve_elligator2 for curve25519 (RFC 9380 §6.7.1, J=486662, K=1, Z=2); returns the Montgomery point (v,w).
func c17Ell2Curve25519(u *big.Int) (v, w *big.Int) {
	J := big.NewInt(486662)
	tv1 := new(big.Int).Mul(u, u)
	tv1.Lsh(tv1, 1)
	c17mod(tv1)
	if tv1.Cmp(new(big.Int).Sub(EdP, big.NewInt(1))) == 0 {
		tv1.SetInt64(0)
	}
	x1 := new(big.Int).Add(tv1, big.NewInt(1))
	x1 = c17Inv0(c17mod(x1))
	x1.Mul(x1, J)
	x1.Neg(x1)
	c17mod(x1)
	g := func(x *big.Int) *big.Int {
		r := new(big.Int).Add(x, J)
		r.Mul(r, x)
		r.Add(r, big.NewInt(1))
		r.Mul(r, x)
		return c17mod(r)
	}
	gx1 := g(x1)
	x2 := new(big.Int).Neg(x1)
	x2.Sub(x2, J)
	c17mod(x2)
	var x, y2 *big.Int
	first := c17IsSquare(gx1)
	if first {
		x, y2 = x1, gx1
	} else {
		x, y2 = x2, g(x2)
	}
	y := new(big.Int).ModSqrt(y2, EdP)
	if y == nil {
		panic("ref: elligator2: neither candidate is a square")
	}
	wantOdd := first
	if (y.Bit(0) == 1) != wantOdd {
		y.Sub(EdP, y)
		c17mod(y)
	}
	return x, y
}

var c17SqrtM486664 = func() *big.Int {
	v := new(big.Int).Sub(EdP, big.NewInt(486664))
	r := new(big.Int).ModSqrt(v, EdP)
	if r == nil {
		panic("ref: -486664 is not a square")
	}
	if r.Bit(0) == 1 { // sgn0 must be 0
		r.Sub(EdP, r)
	}
	return r
}()

// C17EdMapToCurve is map_to_curve_elligator2_edwards25519 (Montgomery map followed by the birational map of RFC 9380 appendix D.1).
func C17EdMapToCurve(u *big.Int) *EdPoint {
	v, w := c17Ell2Curve25519(u)
	vp1 := c17mod(new(big.Int).Add(v, big.NewInt(1)))
	if w.Sign() == 0 || vp1.Sign() == 0 {
		return EdIdentity()
	}
	x := new(big.Int).Mul(c17SqrtM486664, v)
	x.Mul(x, new(big.Int).ModInverse(w, EdP))
	c17mod(x)
	y := new(big.Int).Sub(v, big.NewInt(1))
	y.Mul(y, new(big.Int).ModInverse(vp1, EdP))
	c17mod(y)
	return &EdPoint{x, y}
}

// C17EdHashToCurve is hash_to_curve of edwards25519_XMD:SHA-512_ELL2_RO_.
func C17EdHashToCurve(msg, dst []byte) (*EdPoint, bool) {
	ub, ok := C17ExpandXMD(sha512.New, msg, dst, 96)
	if !ok {
		return nil, false
	}
	u0 := c17mod(new(big.Int).SetBytes(ub[:48]))
	u1 := c17mod(new(big.Int).SetBytes(ub[48:]))
	q := EdAdd(C17EdMapToCurve(u0), C17EdMapToCurve(u1))
	return EdMul(big.NewInt(8), q), true
}
