// Package ref holds reference models that share no code with kyber:
// arbitrary-precision short-Weierstrass and twisted-Edwards curves, F_p^2
// arithmetic for twist membership, Lagrange interpolation.
package ref

import (
	"math/big"
)

func bi(s string) *big.Int {
	v, ok := new(big.Int).SetString(s, 0)
	if !ok {
		panic("bad constant " + s)
	}
	return v
}

// ---------------------------------------------------------------- Weierstrass over F_p

// WCurve is y^2 = x^3 + A x + B over F_P with a subgroup of prime order N.
type WCurve struct {
	Name    string
	P, A, B *big.Int
	N       *big.Int // order of the subgroup the protocols compute in
	Gx, Gy  *big.Int
}

// WPoint is an affine point; Inf marks the identity.
type WPoint struct {
	X, Y *big.Int
	Inf  bool
}

var (
	// P256 is NIST P-256.
	P256 = &WCurve{Name: "P-256",
		P:  bi("0xffffffff00000001000000000000000000000000ffffffffffffffffffffffff"),
		A:  bi("0xffffffff00000001000000000000000000000000fffffffffffffffffffffffc"),
		B:  bi("0x5ac635d8aa3a93e7b3ebbd55769886bc651d06b0cc53b0f63bce3c3e27d2604b"),
		N:  bi("0xffffffff00000000ffffffffffffffffbce6faada7179e84f3b9cac2fc632551"),
		Gx: bi("0x6b17d1f2e12c4247f8bce6e563a440f277037d812deb33a0f4a13945d898c296"),
		Gy: bi("0x4fe342e2fe1a7f9b8ee7eb4a7c0f9e162bce33576b315ececbb6406837bf51f5")}
	// BN256G1 is the G1 curve of the 256-bit Barreto-Naehrig curve used by pairing/bn256 (y^2 = x^3 + 3, generator (1,-2)).
	BN256G1 = &WCurve{Name: "BN256.G1",
		P: bi("65000549695646603732796438742359905742825358107623003571877145026864184071783"),
		A: big.NewInt(0), B: big.NewInt(3),
		N:  bi("65000549695646603732796438742359905742570406053903786389881062969044166799969"),
		Gx: big.NewInt(1), Gy: nil}
	// BN254G1 is alt_bn128 (y^2 = x^3 + 3, generator (1,2)).
	BN254G1 = &WCurve{Name: "BN254.G1",
		P: bi("21888242871839275222246405745257275088696311157297823662689037894645226208583"),
		A: big.NewInt(0), B: big.NewInt(3),
		N:  bi("21888242871839275222246405745257275088548364400416034343698204186575808495617"),
		Gx: big.NewInt(1), Gy: big.NewInt(2)}
	// BLS12381G1 is y^2 = x^3 + 4.
	BLS12381G1 = &WCurve{Name: "BLS12-381.G1",
		P: bi("0x1a0111ea397fe69a4b1ba7b6434bacd764774b84f38512bf6730d2a0f6b0f6241eabfffeb153ffffb9feffffffffaaab"),
		A: big.NewInt(0), B: big.NewInt(4),
		N:  bi("0x73eda753299d7d483339d80809a1d80553bda402fffe5bfeffffffff00000001"),
		Gx: bi("0x17f1d3a73197d7942695638c4fa9ac0fc3688c4f9774b905a14e3a3f171bac586c55e83ff97a1aeffb3af00adb22c6bb"),
		Gy: bi("0x08b3f481e3aaa0f1a09e30ed741d8ae4fcf5e095d5d00af600db18cb2c04b3edd03cc744a2888ae40caa232946c5e7e1")}
)

func init() {
	// bn256 generator is (1, -2)
	BN256G1.Gy = new(big.Int).Sub(BN256G1.P, big.NewInt(2))
}

// OnCurve reports whether (x,y) with 0<=x,y<P satisfies the equation.
func (c *WCurve) OnCurve(x, y *big.Int) bool {
	if x.Sign() < 0 || y.Sign() < 0 || x.Cmp(c.P) >= 0 || y.Cmp(c.P) >= 0 {
		return false
	}
	l := new(big.Int).Mul(y, y)
	l.Mod(l, c.P)
	return l.Cmp(c.rhs(x)) == 0
}

func (c *WCurve) rhs(x *big.Int) *big.Int {
	r := new(big.Int).Mul(x, x)
	r.Mul(r, x)
	ax := new(big.Int).Mul(c.A, x)
	r.Add(r, ax)
	r.Add(r, c.B)
	return r.Mod(r, c.P)
}

// LiftX returns a point with the given x if one exists (y chosen with the given parity bit of y).
func (c *WCurve) LiftX(x *big.Int, odd bool) (*WPoint, bool) {
	r := c.rhs(x)
	y := new(big.Int).ModSqrt(r, c.P)
	if y == nil {
		return nil, false
	}
	if (y.Bit(0) == 1) != odd {
		y.Sub(c.P, y)
	}
	return &WPoint{X: new(big.Int).Set(x), Y: y}, true
}

// Gen returns the generator.
func (c *WCurve) Gen() *WPoint { return &WPoint{X: new(big.Int).Set(c.Gx), Y: new(big.Int).Set(c.Gy)} }

// Add is affine addition with all special cases.
func (c *WCurve) Add(p, q *WPoint) *WPoint {
	if p.Inf {
		return q
	}
	if q.Inf {
		return p
	}
	var lam *big.Int
	if p.X.Cmp(q.X) == 0 {
		s := new(big.Int).Add(p.Y, q.Y)
		s.Mod(s, c.P)
		if s.Sign() == 0 {
			return &WPoint{Inf: true}
		}
		// doubling: (3x^2 + A) / 2y
		num := new(big.Int).Mul(p.X, p.X)
		num.Mul(num, big.NewInt(3))
		num.Add(num, c.A)
		den := new(big.Int).Lsh(p.Y, 1)
		den.ModInverse(den.Mod(den, c.P), c.P)
		lam = num.Mul(num, den)
	} else {
		num := new(big.Int).Sub(q.Y, p.Y)
		den := new(big.Int).Sub(q.X, p.X)
		den.ModInverse(den.Mod(den, c.P), c.P)
		lam = num.Mul(num, den)
	}
	lam.Mod(lam, c.P)
	x3 := new(big.Int).Mul(lam, lam)
	x3.Sub(x3, p.X)
	x3.Sub(x3, q.X)
	x3.Mod(x3, c.P)
	y3 := new(big.Int).Sub(p.X, x3)
	y3.Mul(y3, lam)
	y3.Sub(y3, p.Y)
	y3.Mod(y3, c.P)
	return &WPoint{X: x3, Y: y3}
}

// Neg negates.
func (c *WCurve) Neg(p *WPoint) *WPoint {
	if p.Inf {
		return p
	}
	y := new(big.Int).Sub(c.P, p.Y)
	y.Mod(y, c.P)
	return &WPoint{X: new(big.Int).Set(p.X), Y: y}
}

// Mul is double-and-add (k >= 0).
func (c *WCurve) Mul(k *big.Int, p *WPoint) *WPoint {
	acc := &WPoint{Inf: true}
	for i := k.BitLen() - 1; i >= 0; i-- {
		acc = c.Add(acc, acc)
		if k.Bit(i) == 1 {
			acc = c.Add(acc, p)
		}
	}
	return acc
}

// InSubgroup reports N*p == O.
func (c *WCurve) InSubgroup(p *WPoint) bool { return c.Mul(c.N, p).Inf }

// Bytes returns fixed-width big-endian x||y (all zero for the identity).
func (c *WCurve) Bytes(p *WPoint) []byte {
	n := (c.P.BitLen() + 7) / 8
	out := make([]byte, 2*n)
	if p.Inf {
		return out
	}
	p.X.FillBytes(out[:n])
	p.Y.FillBytes(out[n:])
	return out
}

// ---------------------------------------------------------------- F_p^2 (i^2 = -1) for twists

// F2 is A + B*i.
type F2 struct{ A, B *big.Int }

func f2mul(p *big.Int, x, y F2) F2 {
	// (a+bi)(c+di) = (ac - bd) + (ad + bc) i
	ac := new(big.Int).Mul(x.A, y.A)
	bd := new(big.Int).Mul(x.B, y.B)
	ad := new(big.Int).Mul(x.A, y.B)
	bc := new(big.Int).Mul(x.B, y.A)
	re := ac.Sub(ac, bd)
	im := ad.Add(ad, bc)
	return F2{re.Mod(re, p), im.Mod(im, p)}
}
func f2add(p *big.Int, x, y F2) F2 {
	a := new(big.Int).Add(x.A, y.A)
	b := new(big.Int).Add(x.B, y.B)
	return F2{a.Mod(a, p), b.Mod(b, p)}
}
func f2sub(p *big.Int, x, y F2) F2 {
	a := new(big.Int).Sub(x.A, y.A)
	b := new(big.Int).Sub(x.B, y.B)
	return F2{a.Mod(a, p), b.Mod(b, p)}
}
func f2eq(x, y F2) bool { return x.A.Cmp(y.A) == 0 && x.B.Cmp(y.B) == 0 }

// TwistB computes y^2 - x^3 for a known point (used to derive the twist constant from the published generator).
func TwistB(p *big.Int, x, y F2) F2 {
	return f2sub(p, f2mul(p, y, y), f2mul(p, f2mul(p, x, x), x))
}

// OnTwist reports y^2 = x^3 + b over F_p^2 with all coordinates in [0,p).
func OnTwist(p *big.Int, b, x, y F2) bool {
	for _, v := range []*big.Int{x.A, x.B, y.A, y.B} {
		if v.Sign() < 0 || v.Cmp(p) >= 0 {
			return false
		}
	}
	l := f2mul(p, y, y)
	r := f2add(p, f2mul(p, f2mul(p, x, x), x), b)
	return f2eq(l, r)
}

// BLS12381G2B is 4(1+i).
var BLS12381G2B = F2{big.NewInt(4), big.NewInt(4)}

// ---------------------------------------------------------------- Edwards25519

// Ed25519 constants.
var (
	EdP = bi("0x7fffffffffffffffffffffffffffffffffffffffffffffffffffffffffffffed")
	EdL = bi("7237005577332262213973186563042994240857116359379907606001950938285454250989")
	EdD = func() *big.Int {
		// d = -121665/121666
		p := bi("0x7fffffffffffffffffffffffffffffffffffffffffffffffffffffffffffffed")
		inv := new(big.Int).ModInverse(big.NewInt(121666), p)
		d := new(big.Int).Mul(big.NewInt(-121665), inv)
		return d.Mod(d, p)
	}()
	EdBy = func() *big.Int {
		p := bi("0x7fffffffffffffffffffffffffffffffffffffffffffffffffffffffffffffed")
		inv := new(big.Int).ModInverse(big.NewInt(5), p)
		y := new(big.Int).Mul(big.NewInt(4), inv)
		return y.Mod(y, p)
	}()
)

// EdPoint is an affine point on -x^2 + y^2 = 1 + d x^2 y^2.
type EdPoint struct{ X, Y *big.Int }

// EdIdentity is (0,1).
func EdIdentity() *EdPoint { return &EdPoint{big.NewInt(0), big.NewInt(1)} }

// EdOnCurve checks the curve equation.
func EdOnCurve(p *EdPoint) bool {
	x2 := new(big.Int).Mul(p.X, p.X)
	y2 := new(big.Int).Mul(p.Y, p.Y)
	l := new(big.Int).Sub(y2, x2)
	l.Mod(l, EdP)
	r := new(big.Int).Mul(x2, y2)
	r.Mul(r, EdD)
	r.Add(r, big.NewInt(1))
	r.Mod(r, EdP)
	return l.Cmp(r) == 0
}

// EdDecode decodes a 32-byte encoding (y little-endian, sign of x in the top bit).
// canonical reports whether y < p and not (x == 0 with sign bit set).
func EdDecode(b []byte) (pt *EdPoint, ok bool, canonical bool) {
	if len(b) != 32 {
		return nil, false, false
	}
	c := make([]byte, 32)
	for i := range b {
		c[31-i] = b[i]
	}
	sign := c[0]>>7 == 1
	c[0] &= 0x7f
	y := new(big.Int).SetBytes(c)
	canonical = y.Cmp(EdP) < 0
	y.Mod(y, EdP)
	// x^2 = (y^2-1)/(d y^2+1)
	y2 := new(big.Int).Mul(y, y)
	num := new(big.Int).Sub(y2, big.NewInt(1))
	den := new(big.Int).Mul(y2, EdD)
	den.Add(den, big.NewInt(1))
	den.Mod(den, EdP)
	den.ModInverse(den, EdP)
	x2 := num.Mul(num, den)
	x2.Mod(x2, EdP)
	x := new(big.Int).ModSqrt(x2, EdP)
	if x == nil {
		return nil, false, canonical
	}
	if x.Sign() == 0 && sign {
		canonical = false
	}
	if (x.Bit(0) == 1) != sign {
		x.Sub(EdP, x)
		x.Mod(x, EdP)
	}
	return &EdPoint{x, y}, true, canonical
}

// EdEncode encodes canonically.
func EdEncode(p *EdPoint) []byte {
	out := make([]byte, 32)
	yb := new(big.Int).Mod(p.Y, EdP).Bytes()
	for i := range yb {
		out[i] = yb[len(yb)-1-i]
	}
	if new(big.Int).Mod(p.X, EdP).Bit(0) == 1 {
		out[31] |= 0x80
	}
	return out
}

// EdAdd is the unified affine addition law.
func EdAdd(p, q *EdPoint) *EdPoint {
	x1y2 := new(big.Int).Mul(p.X, q.Y)
	y1x2 := new(big.Int).Mul(p.Y, q.X)
	y1y2 := new(big.Int).Mul(p.Y, q.Y)
	x1x2 := new(big.Int).Mul(p.X, q.X)
	dxy := new(big.Int).Mul(x1x2, y1y2)
	dxy.Mul(dxy, EdD)
	dxy.Mod(dxy, EdP)
	nx := new(big.Int).Add(x1y2, y1x2)
	dx := new(big.Int).Add(big.NewInt(1), dxy)
	ny := new(big.Int).Add(y1y2, x1x2) // a = -1: y1y2 - a x1x2
	dy := new(big.Int).Sub(big.NewInt(1), dxy)
	dx.ModInverse(dx.Mod(dx, EdP), EdP)
	dy.ModInverse(dy.Mod(dy, EdP), EdP)
	x := nx.Mul(nx, dx)
	y := ny.Mul(ny, dy)
	return &EdPoint{x.Mod(x, EdP), y.Mod(y, EdP)}
}

// EdNeg negates.
func EdNeg(p *EdPoint) *EdPoint {
	x := new(big.Int).Sub(EdP, p.X)
	return &EdPoint{x.Mod(x, EdP), new(big.Int).Set(p.Y)}
}

// EdMul is double-and-add.
func EdMul(k *big.Int, p *EdPoint) *EdPoint {
	acc := EdIdentity()
	for i := k.BitLen() - 1; i >= 0; i-- {
		acc = EdAdd(acc, acc)
		if k.Bit(i) == 1 {
			acc = EdAdd(acc, p)
		}
	}
	return acc
}

// EdBase returns the standard base point.
func EdBase() *EdPoint {
	enc := make([]byte, 32)
	yb := EdBy.Bytes()
	for i := range yb {
		enc[i] = yb[len(yb)-1-i]
	}
	p, ok, _ := EdDecode(enc)
	if !ok {
		panic("ed base")
	}
	return p
}

// EdIsIdentity reports (0,1).
func EdIsIdentity(p *EdPoint) bool { return p.X.Sign() == 0 && p.Y.Cmp(big.NewInt(1)) == 0 }

// ---------------------------------------------------------------- Lagrange

// LagrangeAtZero interpolates f(0) mod q from points (xs[i], ys[i]).
func LagrangeAtZero(q *big.Int, xs []int64, ys []*big.Int) *big.Int {
	acc := new(big.Int)
	for i := range xs {
		num, den := big.NewInt(1), big.NewInt(1)
		for j := range xs {
			if i == j {
				continue
			}
			num.Mul(num, big.NewInt(xs[j]))
			num.Mod(num, q)
			d := big.NewInt(xs[j] - xs[i])
			den.Mul(den, d)
			den.Mod(den, q)
		}
		den.ModInverse(den, q)
		t := new(big.Int).Mul(ys[i], num)
		t.Mul(t, den)
		acc.Add(acc, t)
		acc.Mod(acc, q)
	}
	return acc
}

// PolyEval evaluates sum coeffs[k] x^k mod q.
func PolyEval(q *big.Int, coeffs []*big.Int, x int64) *big.Int {
	acc := new(big.Int)
	X := big.NewInt(x)
	for k := len(coeffs) - 1; k >= 0; k-- {
		acc.Mul(acc, X)
		acc.Add(acc, coeffs[k])
		acc.Mod(acc, q)
	}
	return acc
}
