// Package ref holds reference models used by the monitors.
//
// c07_poly.go: polynomials over Z_q in math/big for the Shamir monitor (C07).
// Nothing here uses kyber; the algorithms are deliberately different from the
// ones in share/poly.go (power sums instead of Horner, Newton divided
// differences instead of Lagrange bases) so that a shared mistake is unlikely.
package ref

import "math/big"

// C07Poly is a polynomial over Z_q, C[j] is the coefficient of x^j, every
// coefficient reduced to [0,q).
type C07Poly struct {
	Q *big.Int
	C []*big.Int
}

// C07NewPoly copies and reduces the coefficients.
func C07NewPoly(q *big.Int, coeffs []*big.Int) *C07Poly {
	p := &C07Poly{Q: q, C: make([]*big.Int, len(coeffs))}
	for i, c := range coeffs {
		p.C[i] = new(big.Int).Mod(c, q)
	}
	return p
}

// EvalX evaluates at the abscissa x (NOT at a share index) as a power sum.
func (p *C07Poly) EvalX(x int64) *big.Int {
	X := big.NewInt(x)
	X.Mod(X, p.Q)
	acc := new(big.Int)
	pw := big.NewInt(1)
	for _, c := range p.C {
		t := new(big.Int).Mul(c, pw)
		acc.Add(acc, t)
		acc.Mod(acc, p.Q)
		pw.Mul(pw, X)
		pw.Mod(pw, p.Q)
	}
	return acc
}

// EvalIndex evaluates at share index i, i.e. at x = i+1.
func (p *C07Poly) EvalIndex(i uint32) *big.Int { return p.EvalX(int64(i) + 1) }

// IsZero reports whether all coefficients are zero.
func (p *C07Poly) IsZero() bool {
	for _, c := range p.C {
		if c.Sign() != 0 {
			return false
		}
	}
	return true
}

// Add returns p+q (lengths may differ).
func (p *C07Poly) Add(o *C07Poly) *C07Poly {
	n := len(p.C)
	if len(o.C) > n {
		n = len(o.C)
	}
	r := &C07Poly{Q: p.Q, C: make([]*big.Int, n)}
	for i := range r.C {
		v := new(big.Int)
		if i < len(p.C) {
			v.Add(v, p.C[i])
		}
		if i < len(o.C) {
			v.Add(v, o.C[i])
		}
		r.C[i] = v.Mod(v, p.Q)
	}
	return r
}

// Mul returns the product (length len(p)+len(o)-1, no trimming).
func (p *C07Poly) Mul(o *C07Poly) *C07Poly {
	r := &C07Poly{Q: p.Q, C: make([]*big.Int, len(p.C)+len(o.C)-1)}
	for i := range r.C {
		r.C[i] = new(big.Int)
	}
	for i, a := range p.C {
		for j, b := range o.C {
			t := new(big.Int).Mul(a, b)
			r.C[i+j].Add(r.C[i+j], t)
			r.C[i+j].Mod(r.C[i+j], p.Q)
		}
	}
	return r
}

// Equal compares coefficient vectors exactly (same length, same residues).
func (p *C07Poly) Equal(o *C07Poly) bool {
	if len(p.C) != len(o.C) {
		return false
	}
	for i := range p.C {
		if p.C[i].Cmp(o.C[i]) != 0 {
			return false
		}
	}
	return true
}

// C07Interpolate returns the unique polynomial of length len(xs) (degree
// < len(xs)) through the points (xs[k], ys[k]) by Newton's divided
// differences. The abscissae must be pairwise distinct mod q (returns nil
// otherwise).
func C07Interpolate(q *big.Int, xs []int64, ys []*big.Int) *C07Poly {
	k := len(xs)
	if k == 0 || len(ys) != k {
		return nil
	}
	X := make([]*big.Int, k)
	for i := range xs {
		X[i] = new(big.Int).Mod(big.NewInt(xs[i]), q)
	}
	dd := make([]*big.Int, k)
	for i := range ys {
		dd[i] = new(big.Int).Mod(ys[i], q)
	}
	for j := 1; j < k; j++ {
		for i := k - 1; i >= j; i-- {
			den := new(big.Int).Sub(X[i], X[i-j])
			den.Mod(den, q)
			if den.Sign() == 0 {
				return nil
			}
			inv := new(big.Int).ModInverse(den, q)
			if inv == nil {
				return nil
			}
			num := new(big.Int).Sub(dd[i], dd[i-1])
			num.Mul(num, inv)
			dd[i] = num.Mod(num, q)
		}
	}
	// expand Newton form: (((dd[k-1])(x-x[k-2]) + dd[k-2])(x-x[k-3]) + ...)
	poly := []*big.Int{new(big.Int).Set(dd[k-1])}
	for i := k - 2; i >= 0; i-- {
		next := make([]*big.Int, len(poly)+1)
		for t := range next {
			next[t] = new(big.Int)
		}
		for t, c := range poly {
			// c*x^t * (x - X[i])
			next[t+1].Add(next[t+1], c)
			m := new(big.Int).Mul(c, X[i])
			next[t].Sub(next[t], m)
		}
		next[0].Add(next[0], dd[i])
		for t := range next {
			next[t].Mod(next[t], q)
		}
		poly = next
	}
	// pad to length k (Newton expansion yields exactly k coefficients)
	return &C07Poly{Q: q, C: poly}
}

// C07Lagrange0 returns the value at x=0 of the interpolating polynomial,
// computed with the textbook Lagrange formula (third, independent route).
func C07Lagrange0(q *big.Int, xs []int64, ys []*big.Int) *big.Int {
	acc := new(big.Int)
	for i := range xs {
		num := new(big.Int).Mod(ys[i], q)
		den := big.NewInt(1)
		for j := range xs {
			if i == j {
				continue
			}
			num.Mul(num, big.NewInt(xs[j]))
			num.Mod(num, q)
			d := big.NewInt(xs[j] - xs[i])
			den.Mul(den, d)
			den.Mod(den, q)
		}
		inv := new(big.Int).ModInverse(den, q)
		if inv == nil {
			return nil
		}
		num.Mul(num, inv)
		acc.Add(acc, num)
		acc.Mod(acc, q)
	}
	return acc
}
