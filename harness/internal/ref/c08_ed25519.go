// Reference model of the twisted Edwards curve Ed25519 in math/big (affine
// coordinates), written from RFC 8032 §5.1. It is used by the C08 monitor to
// classify encodings (canonical y, small order, on-curve, semantic equality)
// independently of kyber's field and group code.
package ref

import (
	"math/big"
	"math/bits"
)

// C08Pt is an affine point of Ed25519 (not necessarily in the prime-order subgroup).
type C08Pt struct{ X, Y *big.Int }

var (
	// C08P is the field prime 2^255-19.
	C08P = func() *big.Int {
		p := new(big.Int).Lsh(big.NewInt(1), 255)
		return p.Sub(p, big.NewInt(19))
	}()
	// C08L is the order of the base point.
	C08L, _ = new(big.Int).SetString("7237005577332262213973186563042994240857116359379907606001950938285454250989", 10)
	// c08D = -121665/121666 mod p.
	c08D = func() *big.Int {
		inv := new(big.Int).ModInverse(big.NewInt(121666), C08P)
		d := new(big.Int).Mul(big.NewInt(-121665), inv)
		return d.Mod(d, C08P)
	}()
	// c08SqrtM1 = 2^((p-1)/4) mod p.
	c08SqrtM1 = func() *big.Int {
		e := new(big.Int).Sub(C08P, big.NewInt(1))
		e.Rsh(e, 2)
		return new(big.Int).Exp(big.NewInt(2), e, C08P)
	}()
)

// C08EdDecoded is the outcome of decoding 32 bytes leniently: the RFC failure
// reasons are reported as flags instead of aborting, so that the monitor can
// tell "non-canonical encoding of point P" from "not a point at all".
type C08EdDecoded struct {
	OnCurve    bool   // an x exists for the (reduced) y
	CanonicalY bool   // y < p
	XZeroSign  bool   // x = 0 but the sign bit is set (RFC 8032 says: decoding fails)
	P          *C08Pt // the point denoted when OnCurve (y reduced mod p, x=0 taken for XZeroSign)
}

// C08EdDecode decodes a 32-byte string.
func C08EdDecode(b []byte) C08EdDecoded {
	var out C08EdDecoded
	if len(b) != 32 {
		return out
	}
	le := make([]byte, 32)
	for i := range b {
		le[31-i] = b[i]
	}
	sign := uint(le[0] >> 7)
	le[0] &= 0x7f
	y := new(big.Int).SetBytes(le)
	out.CanonicalY = y.Cmp(C08P) < 0
	y.Mod(y, C08P)
	// x^2 = (y^2-1)/(d y^2+1)
	y2 := new(big.Int).Mul(y, y)
	y2.Mod(y2, C08P)
	u := new(big.Int).Sub(y2, big.NewInt(1))
	u.Mod(u, C08P)
	v := new(big.Int).Mul(c08D, y2)
	v.Add(v, big.NewInt(1))
	v.Mod(v, C08P)
	vinv := new(big.Int).ModInverse(v, C08P)
	if vinv == nil {
		return out
	}
	x2 := new(big.Int).Mul(u, vinv)
	x2.Mod(x2, C08P)
	// candidate root x = x2^((p+3)/8)
	e := new(big.Int).Add(C08P, big.NewInt(3))
	e.Rsh(e, 3)
	x := new(big.Int).Exp(x2, e, C08P)
	chk := new(big.Int).Mul(x, x)
	chk.Mod(chk, C08P)
	if chk.Cmp(x2) != 0 {
		x.Mul(x, c08SqrtM1)
		x.Mod(x, C08P)
		chk.Mul(x, x)
		chk.Mod(chk, C08P)
		if chk.Cmp(x2) != 0 {
			return out
		}
	}
	out.OnCurve = true
	if x.Sign() == 0 && sign == 1 {
		out.XZeroSign = true
	}
	if x.Bit(0) != sign && x.Sign() != 0 {
		x.Sub(C08P, x)
	}
	out.P = &C08Pt{X: x, Y: y}
	return out
}

// C08EdEncode gives the canonical RFC 8032 encoding.
func C08EdEncode(p *C08Pt) []byte {
	be := make([]byte, 32)
	p.Y.FillBytes(be)
	out := make([]byte, 32)
	for i := range be {
		out[31-i] = be[i]
	}
	out[31] |= byte(p.X.Bit(0)) << 7
	return out
}

// C08EdNeutral returns (0,1).
func C08EdNeutral() *C08Pt { return &C08Pt{X: new(big.Int), Y: big.NewInt(1)} }

// C08EdAdd is the complete twisted Edwards addition law (a = -1).
func C08EdAdd(a, b *C08Pt) *C08Pt {
	p := C08P
	x1y2 := new(big.Int).Mul(a.X, b.Y)
	y1x2 := new(big.Int).Mul(a.Y, b.X)
	y1y2 := new(big.Int).Mul(a.Y, b.Y)
	x1x2 := new(big.Int).Mul(a.X, b.X)
	t := new(big.Int).Mul(x1x2, y1y2)
	t.Mod(t, p)
	t.Mul(t, c08D)
	t.Mod(t, p)
	nx := new(big.Int).Add(x1y2, y1x2)
	ny := new(big.Int).Add(y1y2, x1x2) // y1y2 - a x1x2, a=-1
	dx := new(big.Int).Add(big.NewInt(1), t)
	dy := new(big.Int).Sub(big.NewInt(1), t)
	dx.Mod(dx, p)
	dy.Mod(dy, p)
	dx.ModInverse(dx, p)
	dy.ModInverse(dy, p)
	nx.Mul(nx, dx)
	ny.Mul(ny, dy)
	return &C08Pt{X: nx.Mod(nx, p), Y: ny.Mod(ny, p)}
}

// C08EdNeg returns -a.
func C08EdNeg(a *C08Pt) *C08Pt {
	x := new(big.Int).Neg(a.X)
	return &C08Pt{X: x.Mod(x, C08P), Y: new(big.Int).Set(a.Y)}
}

// C08EdMulSmall computes k*a for a small non-negative k by double-and-add.
func C08EdMulSmall(k uint, a *C08Pt) *C08Pt {
	acc := C08EdNeutral()
	for i := bits.Len(k) - 1; i >= 0; i-- {
		acc = C08EdAdd(acc, acc)
		if (k>>uint(i))&1 == 1 {
			acc = C08EdAdd(acc, a)
		}
	}
	return acc
}

// C08EdEqual compares two affine points.
func C08EdEqual(a, b *C08Pt) bool { return a.X.Cmp(b.X) == 0 && a.Y.Cmp(b.Y) == 0 }

// C08EdSmallOrder reports whether 8*a is the neutral element.
func C08EdSmallOrder(a *C08Pt) bool { return C08EdEqual(C08EdMulSmall(8, a), C08EdNeutral()) }

// C08EdOrderOfTorsion returns the order (1,2,4,8) of a small-order point, 0 otherwise.
func C08EdOrderOfTorsion(a *C08Pt) int {
	for o := 1; o <= 8; o *= 2 {
		if C08EdEqual(C08EdMulSmall(uint(o), a), C08EdNeutral()) {
			return o
		}
	}
	return 0
}

// C08EdTorsion returns the eight points of the 8-torsion subgroup, index k
// holding k*T for a fixed generator T of order 8 (index 0 = neutral).
func C08EdTorsion() []*C08Pt {
	// y of a point of order 8 (from the libsodium blocklist), little endian.
	enc := []byte{0x26, 0xe8, 0x95, 0x8f, 0xc2, 0xb2, 0x27, 0xb0, 0x45, 0xc3, 0xf4, 0x89, 0xf2, 0xef, 0x98, 0xf0,
		0xd5, 0xdf, 0xac, 0x05, 0xd3, 0xc6, 0x33, 0x39, 0xb1, 0x38, 0x02, 0x88, 0x6d, 0x53, 0xfc, 0x05}
	d := C08EdDecode(enc)
	if !d.OnCurve || C08EdOrderOfTorsion(d.P) != 8 {
		panic("ref: torsion generator is not of order 8")
	}
	out := make([]*C08Pt, 8)
	for k := 0; k < 8; k++ {
		out[k] = C08EdMulSmall(uint(k), d.P)
	}
	return out
}

// C08EdOnCurve checks -x^2+y^2 = 1+d x^2 y^2.
func C08EdOnCurve(a *C08Pt) bool {
	p := C08P
	x2 := new(big.Int).Mul(a.X, a.X)
	x2.Mod(x2, p)
	y2 := new(big.Int).Mul(a.Y, a.Y)
	y2.Mod(y2, p)
	l := new(big.Int).Sub(y2, x2)
	l.Mod(l, p)
	r := new(big.Int).Mul(x2, y2)
	r.Mod(r, p)
	r.Mul(r, c08D)
	r.Add(r, big.NewInt(1))
	r.Mod(r, p)
	return l.Cmp(r) == 0
}

// C08LEToBig interprets b as a little-endian integer.
func C08LEToBig(b []byte) *big.Int {
	be := make([]byte, len(b))
	for i := range b {
		be[len(b)-1-i] = b[i]
	}
	return new(big.Int).SetBytes(be)
}

// C08BigToLE writes x as n little-endian bytes (x must fit).
func C08BigToLE(x *big.Int, n int) []byte {
	be := make([]byte, n)
	x.FillBytes(be)
	out := make([]byte, n)
	for i := range be {
		out[n-1-i] = be[i]
	}
	return out
}
