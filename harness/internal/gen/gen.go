// Package gen holds the seeded generators shared by the monitors.
package gen

import (
	"crypto/cipher"
	"crypto/sha256"
	"encoding/binary"
	"math/big"
	"math/rand/v2"

	"go.dedis.ch/kyber/v4/xof/blake2xb"
)

// Rng is a deterministic PRNG derived from (seed, label, index).
type Rng struct{ *rand.Rand }

// New derives an independent stream for (seed, label, idx).
func New(seed int64, label string, idx int) *Rng {
	h := sha256.New()
	var b [16]byte
	binary.BigEndian.PutUint64(b[:8], uint64(seed))
	binary.BigEndian.PutUint64(b[8:], uint64(idx))
	h.Write(b[:])
	h.Write([]byte(label))
	var k [32]byte
	copy(k[:], h.Sum(nil))
	return &Rng{rand.New(rand.NewChaCha8(k))}
}

// Bytes returns n pseudo-random bytes.
func (r *Rng) Bytes(n int) []byte {
	b := make([]byte, n)
	for i := 0; i < n; i += 8 {
		v := r.Uint64()
		for j := 0; j < 8 && i+j < n; j++ {
			b[i+j] = byte(v >> (8 * j))
		}
	}
	return b
}

// Stream returns a cipher.Stream (kyber XOF) seeded from this rng; the stream
// is a deterministic function of the rng state at the time of the call.
func (r *Rng) Stream() cipher.Stream { return blake2xb.New(r.Bytes(32)) }

// Big returns a uniform value in [0,q).
func (r *Rng) Big(q *big.Int) *big.Int {
	n := (q.BitLen() + 7) / 8
	x := new(big.Int).SetBytes(r.Bytes(n + 8))
	return x.Mod(x, q)
}

// Perm returns a permutation of [0,n).
func (r *Rng) Perm(n int) []int { return r.Rand.Perm(n) }

// Pick returns one of the choices.
func Pick[T any](r *Rng, xs []T) T { return xs[r.IntN(len(xs))] }

// Edge returns the edge-scalar set for modulus q (values reduced mod q,
// deduplicated): small values, q-1, q-2, halves, 2^k and 2^k±1 at limb/word/
// window boundaries, all-ones patterns.
func Edge(q *big.Int) []*big.Int {
	var out []*big.Int
	seen := map[string]bool{}
	add := func(x *big.Int) {
		v := new(big.Int).Mod(x, q)
		k := v.String()
		if !seen[k] {
			seen[k] = true
			out = append(out, v)
		}
	}
	one := big.NewInt(1)
	for _, v := range []int64{0, 1, 2, 3, 4, 5, 7, 8, 15, 16, 17, 31, 32, 255, 256, 257} {
		add(big.NewInt(v))
	}
	for _, k := range []uint{4, 5, 8, 16, 20, 21, 22, 32, 42, 51, 52, 63, 64, 65, 84, 105, 126, 127, 128, 129, 147, 168, 189, 191, 192, 193, 210, 231, 250, 251, 252, 253, 254, 255, 256, 380, 381, 511, 512} {
		p := new(big.Int).Lsh(one, k)
		if p.Cmp(q) > 0 && k > uint(q.BitLen()) {
			continue
		}
		add(p)
		add(new(big.Int).Sub(p, one))
		add(new(big.Int).Add(p, one))
	}
	add(new(big.Int).Sub(q, one))
	add(new(big.Int).Sub(q, big.NewInt(2)))
	add(new(big.Int).Sub(q, big.NewInt(3)))
	h := new(big.Int).Rsh(q, 1)
	add(h)
	add(new(big.Int).Add(h, one))
	add(new(big.Int).Sub(h, one))
	// all-ones of various widths and alternating patterns
	for _, pat := range []byte{0xff, 0xaa, 0x55, 0x80, 0x01, 0x7f} {
		n := (q.BitLen() + 7) / 8
		b := make([]byte, n)
		for i := range b {
			b[i] = pat
		}
		add(new(big.Int).SetBytes(b))
	}
	// sqrt-ish sizes (endomorphism split boundaries)
	s := new(big.Int).Sqrt(q)
	add(s)
	add(new(big.Int).Add(s, one))
	add(new(big.Int).Sub(s, one))
	add(new(big.Int).Mul(s, s))
	return out
}

// EdgeOrRandom draws from the edge set with probability pEdge (in 1/256ths),
// otherwise uniform; sometimes a small perturbation of an edge value.
func (r *Rng) EdgeOrRandom(edge []*big.Int, q *big.Int, pEdge int) *big.Int {
	x := r.IntN(256)
	if x < pEdge {
		e := edge[r.IntN(len(edge))]
		if r.IntN(4) == 0 {
			d := big.NewInt(int64(r.IntN(5)) - 2)
			v := new(big.Int).Add(e, d)
			return v.Mod(v, q)
		}
		return new(big.Int).Set(e)
	}
	if x < pEdge+24 {
		// short random values
		bits := 1 + r.IntN(q.BitLen())
		v := new(big.Int).SetBytes(r.Bytes((bits + 7) / 8))
		v.Rsh(v, uint((8-bits%8)%8))
		return v.Mod(v, q)
	}
	return r.Big(q)
}

// Subsets enumerates all k-subsets of [0,n) (as index slices).
func Subsets(n, k int) [][]int {
	var out [][]int
	var rec func(start int, cur []int)
	rec = func(start int, cur []int) {
		if len(cur) == k {
			out = append(out, append([]int(nil), cur...))
			return
		}
		for i := start; i < n; i++ {
			rec(i+1, append(cur, i))
		}
	}
	rec(0, nil)
	return out
}

// Perms enumerates all permutations of [0,n).
func Perms(n int) [][]int {
	var out [][]int
	a := make([]int, n)
	for i := range a {
		a[i] = i
	}
	var rec func(k int)
	rec = func(k int) {
		if k == n {
			out = append(out, append([]int(nil), a...))
			return
		}
		for i := k; i < n; i++ {
			a[k], a[i] = a[i], a[k]
			rec(k + 1)
			a[k], a[i] = a[i], a[k]
		}
	}
	rec(0)
	return out
}

// FlipBit returns a copy of b with bit i flipped.
func FlipBit(b []byte, i int) []byte {
	c := append([]byte(nil), b...)
	c[i/8] ^= 1 << uint(i%8)
	return c
}

// StreamOf returns the deterministic stream for a seed.
func StreamOf(seed []byte) cipher.Stream { return blake2xb.New(seed) }
