// Package groups is the registry of the group instances and pairing suites
// that the monitors run on, with capability probes.
package groups

import (
	"crypto/cipher"
	"math/big"
	"strings"

	"go.dedis.ch/kyber/v4"
	"go.dedis.ch/kyber/v4/group/edwards25519"
	"go.dedis.ch/kyber/v4/group/edwards25519vartime"
	"go.dedis.ch/kyber/v4/group/p256"
	"go.dedis.ch/kyber/v4/pairing"
	"go.dedis.ch/kyber/v4/pairing/bls12381/circl"
	"go.dedis.ch/kyber/v4/pairing/bls12381/gnark"
	"go.dedis.ch/kyber/v4/pairing/bls12381/kilic"
	"go.dedis.ch/kyber/v4/pairing/bn254"
	"go.dedis.ch/kyber/v4/pairing/bn256"
	"go.dedis.ch/kyber/v4/xof/blake2xb"
)

// G describes one group instance.
type G struct {
	Name    string
	Grp     kyber.Group
	Q       *big.Int // group order (order of the scalar field)
	VarTime bool     // set AllowVarTime(true) on every point created through NewPoint
	Suite   *PS      // pairing suite the group belongs to (nil otherwise)
	Kind    string   // "G1","G2","GT","" for non pairing

	// capabilities, probed once
	CanBase, CanMulNil, CanPick, CanEmbed, CanHash, CanData bool
	PanicsSeen                                              map[string]string // op -> first non-"unsupported" panic text seen by the probe

	// encodings of the library's constants taken once, before any workload ran (to detect a workload step that corrupts
	// state shared by all values of the group, e.g. a cached identity)
	NullEnc, GenEnc, ZeroEnc, OneEnc []byte
}

// ConstantsIntact re-derives the constants and compares them with the encodings taken at start-up.
func (g *G) ConstantsIntact() (bool, string) {
	if g.NullEnc == nil {
		return true, ""
	}
	if string(Enc(g.Point().Null())) != string(g.NullEnc) {
		return false, "Point().Null()"
	}
	if string(Enc(g.Gen())) != string(g.GenEnc) {
		return false, "generator"
	}
	if string(Enc(g.Scalar().Zero())) != string(g.ZeroEnc) {
		return false, "Scalar().Zero()"
	}
	if string(Enc(g.Scalar().One())) != string(g.OneEnc) {
		return false, "Scalar().One()"
	}
	return true, ""
}

// PS is a pairing suite.
type PS struct {
	Name string
	S    pairing.Suite
}

// Point returns a fresh point (with AllowVarTime applied when configured).
func (g *G) Point() kyber.Point {
	p := g.Grp.Point()
	if g.VarTime {
		if v, ok := p.(kyber.AllowsVarTime); ok {
			v.AllowVarTime(true)
		}
	}
	return p
}

// Scalar returns a fresh scalar.
func (g *G) Scalar() kyber.Scalar { return g.Grp.Scalar() }

// Gen returns the canonical generator: Base() where supported, else (GT) the
// pairing of the generators.
func (g *G) Gen() kyber.Point {
	if g.CanBase {
		return g.Point().Base()
	}
	if g.Suite != nil && g.Kind == "GT" {
		s := g.Suite.S
		return s.Pair(s.G1().Point().Base(), s.G2().Point().Base())
	}
	panic("no generator for " + g.Name)
}

// ScalarFromBig builds the scalar with the given residue via SetBytes in the
// implementation's declared byte order.
func (g *G) ScalarFromBig(x *big.Int) kyber.Scalar {
	v := new(big.Int).Mod(x, g.Q)
	b := v.Bytes()
	s := g.Grp.Scalar()
	if s.ByteOrder() == kyber.LittleEndian {
		for i, j := 0, len(b)-1; i < j; i, j = i+1, j-1 {
			b[i], b[j] = b[j], b[i]
		}
	}
	if len(b) == 0 {
		return s.Zero()
	}
	return s.SetBytes(b)
}

// ScalarToBig decodes a scalar through MarshalBinary in its declared order.
func ScalarToBig(s kyber.Scalar) *big.Int {
	b, err := s.MarshalBinary()
	if err != nil {
		panic(err)
	}
	c := append([]byte(nil), b...)
	if s.ByteOrder() == kyber.LittleEndian {
		for i, j := 0, len(c)-1; i < j; i, j = i+1, j-1 {
			c[i], c[j] = c[j], c[i]
		}
	}
	return new(big.Int).SetBytes(c)
}

// Enc encodes a point (panics on error, which monitors guard).
func Enc(p kyber.Marshaling) []byte {
	b, err := p.MarshalBinary()
	if err != nil {
		panic("MarshalBinary: " + err.Error())
	}
	return append([]byte(nil), b...)
}

// Stream returns a deterministic stream from a seed string.
func Stream(seed string) cipher.Stream { return blake2xb.New([]byte(seed)) }

// Suites lists the five pairing suites.
func Suites() []*PS {
	return []*PS{
		{"bn256", bn256.NewSuite()},
		{"bn254", bn254.NewSuite()},
		{"kilic", kilic.NewBLS12381Suite()},
		{"circl", circl.NewSuite()},
		{"gnark", gnark.NewSuite()},
	}
}

// Hasher is implemented by points that support hash-to-group.
type Hasher interface {
	Hash([]byte) kyber.Point
}

// All returns the 20 group instances.
func All() []*G {
	var gs []*G
	add := func(n string, g kyber.Group, vt bool, ps *PS, kind string) {
		G := &G{Name: n, Grp: g, VarTime: vt, Suite: ps, Kind: kind, PanicsSeen: map[string]string{}}
		G.Q = new(big.Int).Set(g.Scalar().GroupOrder().ToBigInt())
		G.probe()
		func() {
			defer func() { _ = recover() }()
			G.NullEnc, G.GenEnc = Enc(G.Point().Null()), Enc(G.Gen())
			G.ZeroEnc, G.OneEnc = Enc(G.Scalar().Zero()), Enc(G.Scalar().One())
		}()
		gs = append(gs, G)
	}
	add("ed25519", edwards25519.NewBlakeSHA256Ed25519(), false, nil, "")
	add("ed25519-vt", edwards25519.NewBlakeSHA256Ed25519(), true, nil, "")
	add("edvartime", edwards25519vartime.NewBlakeSHA256Ed25519(false), false, nil, "")
	add("p256", p256.NewBlakeSHA256P256(), false, nil, "")
	add("qr512", p256.NewBlakeSHA256QR512(), false, nil, "")
	for _, ps := range Suites() {
		add(ps.Name+".G1", ps.S.G1(), false, ps, "G1")
		add(ps.Name+".G2", ps.S.G2(), false, ps, "G2")
		add(ps.Name+".GT", ps.S.GT(), false, ps, "GT")
	}
	return gs
}

// ResidueR6 is a Schnorr (residue) group with cofactor R = 6 (P = 6Q+1, 163-bit P, 160-bit Q) built through the public
// ResidueGroup.SetParams API: unlike the shipped QR512 (R = 2) being a quadratic residue does not imply membership.
// It is an extra configuration used by the decoder and embedding monitors (not one of the 20 registry instances).
func ResidueR6() *G {
	P, _ := new(big.Int).SetString("54d1822a8b597b3b537790d3399336d8f7b7b4adf", 16)
	Q, _ := new(big.Int).SetString("e22eb0717399489e33e9823344333ced3f3f3725", 16)
	rg := new(p256.ResidueGroup)
	rg.SetParams(P, Q, big.NewInt(6), big.NewInt(0x40))
	g := &G{Name: "residue-r6", Grp: rg, PanicsSeen: map[string]string{}}
	g.Q = new(big.Int).Set(Q)
	g.probe()
	g.NullEnc, g.GenEnc = Enc(g.Point().Null()), Enc(g.Gen())
	g.ZeroEnc, g.OneEnc = Enc(g.Scalar().Zero()), Enc(g.Scalar().One())
	return g
}

// ResidueReconfigured is one ResidueGroup object that is configured twice through the public API: first with the
// parameters of the shipped QR512 group (and used: scalars and points are created), then re-parametrised with the
// cofactor-6 parameters of ResidueR6. Everything it hands out afterwards must belong to the second parameter set.
func ResidueReconfigured() *G {
	rg := new(p256.ResidueGroup)
	qs := p256.NewBlakeSHA256QR512()
	rg.SetParams(qs.P, qs.Q, qs.R, qs.G)
	_ = rg.Scalar().Pick(Stream("x"))
	_ = rg.Point().Pick(Stream("y"))
	_ = rg.Scalar().SetInt64(-1)
	_, _ = rg.Scalar().One().MarshalBinary()
	P, _ := new(big.Int).SetString("54d1822a8b597b3b537790d3399336d8f7b7b4adf", 16)
	Q, _ := new(big.Int).SetString("e22eb0717399489e33e9823344333ced3f3f3725", 16)
	rg.SetParams(P, Q, big.NewInt(6), big.NewInt(0x40))
	g := &G{Name: "residue-reconfigured", Grp: rg, PanicsSeen: map[string]string{}}
	g.Q = new(big.Int).Set(Q)
	g.probe()
	g.NullEnc, g.GenEnc = Enc(g.Point().Null()), Enc(g.Gen())
	g.ZeroEnc, g.OneEnc = Enc(g.Scalar().Zero()), Enc(g.Scalar().One())
	return g
}

// ResidueBig is the group of quadratic residues modulo the 3072-bit MODP safe prime of RFC 3526 (group 15), built through
// SetParams: its EmbedLen (381) exceeds 255, so the 16-bit length field of the residue-group embedding is really used.
func ResidueBig() *G {
	P, _ := new(big.Int).SetString("ffffffffffffffffc90fdaa22168c234c4c6628b80dc1cd129024e088a67cc74"+
		"020bbea63b139b22514a08798e3404ddef9519b3cd3a431b302b0a6df25f1437"+
		"4fe1356d6d51c245e485b576625e7ec6f44c42e9a637ed6b0bff5cb6f406b7ed"+
		"ee386bfb5a899fa5ae9f24117c4b1fe649286651ece45b3dc2007cb8a163bf05"+
		"98da48361c55d39a69163fa8fd24cf5f83655d23dca3ad961c62f356208552bb"+
		"9ed529077096966d670c354e4abc9804f1746c08ca18217c32905e462e36ce3b"+
		"e39e772c180e86039b2783a2ec07a28fb5c55df06f4c52c9de2bcbf695581718"+
		"3995497cea956ae515d2261898fa051015728e5a8aaac42dad33170d04507a33"+
		"a85521abdf1cba64ecfb850458dbef0a8aea71575d060c7db3970f85a6e1e4c7"+
		"abf5ae8cdb0933d71e8c94e04a25619dcee3d2261ad2ee6bf12ffa06d98a0864"+
		"d87602733ec86a64521f2b18177b200cbbe117577a615d6c770988c0bad946e2"+
		"08e24fa074e5ab3143db5bfce0fd108e4b82d120a93ad2caffffffffffffffff", 16)
	Q := new(big.Int).Rsh(P, 1)
	rg := new(p256.ResidueGroup)
	rg.SetParams(P, Q, big.NewInt(2), big.NewInt(4))
	g := &G{Name: "residue-3072", Grp: rg, PanicsSeen: map[string]string{}}
	g.Q = new(big.Int).Set(Q)
	g.probe()
	g.NullEnc, g.GenEnc = Enc(g.Point().Null()), Enc(g.Gen())
	g.ZeroEnc, g.OneEnc = Enc(g.Scalar().Zero()), Enc(g.Scalar().One())
	return g
}

// ResiduePQ returns the modulus and subgroup order of a residue group instance (nil, nil for other groups).
func ResiduePQ(g *G) (P, Q *big.Int) {
	switch v := g.Grp.(type) {
	case *p256.QrSuite:
		return v.P, v.Q
	case *p256.ResidueGroup:
		return v.P, v.Q
	}
	return nil, nil
}

// Select filters by comma-separated substrings (empty = all).
func Select(gs []*G, filter string) []*G {
	if filter == "" {
		return gs
	}
	var out []*G
	for _, g := range gs {
		for _, f := range strings.Split(filter, ",") {
			if strings.Contains(g.Name, f) {
				out = append(out, g)
				break
			}
		}
	}
	return out
}

func try(f func()) (msg string, panicked bool) {
	defer func() {
		if e := recover(); e != nil {
			panicked = true
			switch v := e.(type) {
			case error:
				msg = v.Error()
			case string:
				msg = v
			default:
				msg = "panic"
			}
		}
	}()
	f()
	return
}

// unsupported recognises the documented "operation not available" panics.
func unsupported(msg string) bool {
	m := strings.ToLower(msg)
	return strings.Contains(m, "unsupported") || strings.Contains(m, "not supported") || strings.Contains(m, "not implemented") ||
		strings.Contains(m, "unimplemented") || strings.Contains(m, "not possible") || strings.Contains(m, "no base point") ||
		strings.Contains(m, "does not support") || strings.Contains(m, "cannot be used") || strings.Contains(m, "not available")
}

// probe discovers capabilities on plain receivers (without AllowVarTime): a capability is a property of the point type,
// and the probe must not be the first code to run the configuration under test.
func (g *G) probe() {
	cap := func(op string, f func()) bool {
		msg, p := try(f)
		if !p {
			return true
		}
		if !unsupported(msg) {
			g.PanicsSeen[op] = msg
		}
		return false
	}
	g.CanBase = cap("Base", func() { g.Grp.Point().Base() })
	if g.CanBase {
		g.CanMulNil = cap("Mul(s,nil)", func() { g.Grp.Point().Mul(g.Scalar().One(), nil) })
	}
	g.CanPick = cap("Pick", func() { g.Grp.Point().Pick(Stream("probe")) })
	g.CanEmbed = cap("Embed", func() {
		if g.Grp.Point().EmbedLen() <= 0 {
			panic("unsupported: EmbedLen 0")
		}
		g.Grp.Point().Embed([]byte{1}, Stream("probe"))
	})
	if g.CanEmbed {
		g.CanData = cap("Data", func() {
			p := g.Grp.Point().Embed([]byte{1}, Stream("probe"))
			if _, err := p.Data(); err != nil {
				panic("unsupported: " + err.Error())
			}
		})
	}
	g.CanHash = cap("Hash", func() {
		h, ok := g.Grp.Point().(Hasher)
		if !ok {
			panic("unsupported: no Hash")
		}
		h.Hash([]byte("probe"))
	})
}
