// Package childmain is the shared entry point of the monitor binaries.
package childmain

import (
	"flag"
	"fmt"
	"os"
	"os/signal"
	"runtime"
	"sort"
	"syscall"

	"verif/internal/mon"
)

// Monitor is one property monitor.
type Monitor func(r *mon.R)

var monitors = map[string]Monitor{}

// Register adds a monitor under a property id.
func Register(id string, f Monitor) { monitors[id] = f }

// Flags shared by the monitors.
var (
	Groups = flag.String("groups", "", "comma-separated substrings selecting group instances")
	Mode   = flag.String("mode", "", "monitor-specific mode (e.g. batch name)")
)

// Main parses the flags and runs the selected monitor.
func Main() {
	prop := flag.String("prop", "", "property id")
	tier := flag.String("tier", "quick", "quick|thorough")
	seed := flag.Int64("seed", 1, "seed")
	out := flag.String("out", "", "output directory")
	part := flag.String("part", "", "part label for multi-process runs")
	only := flag.String("only", "", "restrict to cases whose key has this prefix")
	flag.Parse()
	f, ok := monitors[*prop]
	if !ok {
		var ids []string
		for k := range monitors {
			ids = append(ids, k)
		}
		sort.Strings(ids)
		fmt.Fprintln(os.Stderr, "unknown property; have", ids)
		os.Exit(3)
	}
	if *out == "" {
		fmt.Fprintln(os.Stderr, "-out required")
		os.Exit(3)
	}
	r := mon.New(*prop, *tier, *seed, *part, *out)
	r.Only = *only
	// the driver's watchdog sends SIGQUIT: keep what was observed so far (a hang inside the code under test must not
	// swallow the violations already recorded), then dump the goroutines like the default handler would
	sig := make(chan os.Signal, 1)
	signal.Notify(sig, syscall.SIGQUIT)
	go func() {
		<-sig
		r.Inconclusive("watchdog: the monitor did not finish (partial summary written on SIGQUIT)")
		r.FinishPartial()
		buf := make([]byte, 1<<20)
		n := runtime.Stack(buf, true)
		fmt.Fprintf(os.Stderr, "SIGQUIT: goroutine dump\n%s\n", buf[:n])
		os.Exit(3)
	}()
	f(r)
	r.Finish()
}
