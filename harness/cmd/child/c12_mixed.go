package main

// C12, family [mixed-thresholds]: the long-term and the one-time distributed
// key of a session come from DKG runs with DIFFERENT thresholds (tl != tr).
// The signing polynomial random + h*long then has degree max(tl,tr)-1, so the
// session is run with T = max(tl,tr). Oracle (all from values the harness
// recomputes with math/big): every honest partial equals beta_i + h*alpha_i
// and is accepted by every combiner in every delivery order played; below T
// accepted partials there is no signature; from T on Signature() is exactly
// R || k + h*a and crypto/ed25519 accepts it under the long-term public key.

import (
	"bytes"
	"crypto/ed25519"
	"fmt"

	"go.dedis.ch/kyber/v4/sign/dss"

	"verif/internal/gen"
	"verif/internal/mon"
)

func (e *c12Env) mixedThresholds(name string, long, rnd []dss.DistKeyShare, tl, tr int, msg []byte, rng *gen.Rng) {
	r := e.r
	T := tl
	if tr > T {
		T = tr
	}
	sess := fmt.Sprintf("%s|%s|tl=%d,tr=%d", e.id, name, tl, tr)
	det := func(extra map[string]any) map[string]any {
		d := map[string]any{"session": name, "long_term_threshold": tl, "one_time_threshold": tr, "T": T, "msg": mon.Hex(msg)}
		for k, v := range extra {
			d[k] = v
		}
		return d
	}
	a, alpha, A, err := c12GroupSecret(long, tl)
	if err != nil {
		r.Inconclusive(fmt.Sprintf("%s: mixed thresholds: long-term key: %v", e.id, err))
		return
	}
	k, beta, R, err := c12GroupSecret(rnd, tr)
	if err != nil {
		r.Inconclusive(fmt.Sprintf("%s: mixed thresholds: one-time key: %v", e.id, err))
		return
	}
	h := c12Challenge(R, A, msg)
	sigRef := append(append([]byte(nil), R...), c12ToLE32(c12MulAdd(k, h, a))...)
	if !ed25519.Verify(ed25519.PublicKey(A), msg, sigRef) {
		r.Inconclusive(e.id + ": mixed thresholds: reference signature not accepted by crypto/ed25519")
		return
	}
	mk := func(i int) (*dss.DSS, error) {
		return dss.NewDSS(e.nodes.suites[i], e.nodes.privs[i], c12CopyPoints(e.nodes.pubs), long[i], rnd[i],
			append([]byte(nil), msg...), uint32(T))
	}
	// every participant issues its partial
	ps := make([]*dss.PartialSig, e.n)
	for i := 0; i < e.n; i++ {
		var p1 *dss.PartialSig
		var err1 error
		if p, bad := mon.Try(func() {
			var d *dss.DSS
			if d, err1 = mk(i); err1 == nil {
				p1, err1 = d.PartialSig()
			}
		}); bad {
			e.violation("C12/dss/mixed-thresholds/signer/panic", "NewDSS/PartialSig panics for an honest participant when the two keys have different thresholds", det(map[string]any{"signer": i, "panic": p}))
			return
		}
		r.Eval("mixed-thresholds/partial-issued", fmt.Sprintf("%s|signer=%d", sess, i), true)
		if err1 != nil || p1 == nil || p1.Partial == nil || p1.Partial.V == nil {
			e.violation("C12/dss/mixed-thresholds/signer/error", "an honest participant cannot issue its partial signature when the two keys have different thresholds", det(map[string]any{"signer": i, "error": fmt.Sprint(err1)}))
			return
		}
		if want := c12MulAdd(beta[i], h, alpha[i]); int(p1.Partial.I) != i || c12Big(p1.Partial.V).Cmp(want) != 0 {
			e.violation("C12/dss/mixed-thresholds/signer/wrong-partial", "issued partial is not beta_i + H(R,A,m)*alpha_i", det(map[string]any{"signer": i, "got": c12PSHex(p1), "want_value": mon.Hex(c12ToLE32(want))}))
			return
		}
		ps[i] = c12CopyPS(p1)
	}
	r.NoteAdd("mixed_threshold_sessions", 1)
	sigs := map[string]int{}
	// every participant combines, in its own random delivery order of all n-1 foreign partials
	for c := 0; c < e.n; c++ {
		order := rng.Perm(e.n)
		ownFirst := rng.IntN(2) == 0
		var log []string
		var viol bool
		if p, bad := mon.Try(func() {
			d, err := mk(c)
			if err != nil {
				log = append(log, "NewDSS: "+err.Error())
				viol = true
				return
			}
			acc := 0
			step := func(label string, err error) bool {
				desc := fmt.Sprintf("%s|combiner=%d|%s", sess, c, label)
				r.Eval("mixed-thresholds/honest-partial-accepted", desc, true)
				if err != nil {
					log = append(log, label+": "+err.Error())
					e.violation("C12/dss/mixed-thresholds/honest-partial-refused", "a valid partial signature is refused when the two keys have different thresholds", det(map[string]any{"combiner": c, "event": label, "error": err.Error(), "log": log}))
					viol = true
					return false
				}
				acc++
				log = append(log, label+": ok")
				enough := d.EnoughPartialSig()
				sig, serr := d.Signature()
				r.Eval("mixed-thresholds/signature-iff-T-partials", desc, true)
				r.Op("dss.(*DSS).ProcessPartialSig", "dss.(*DSS).EnoughPartialSig", "dss.(*DSS).Signature")
				if acc < T {
					if enough || serr == nil {
						e.violation("C12/dss/mixed-thresholds/signature-below-threshold", "EnoughPartialSig/Signature succeed with fewer than max(tl,tr) partials", det(map[string]any{"combiner": c, "accepted": acc, "enough": enough, "signature": mon.Hex(sig), "log": log}))
						viol = true
						return false
					}
					return true
				}
				if !enough || serr != nil {
					e.violation("C12/dss/mixed-thresholds/no-signature-from-T-valid-partials", "T valid partials do not give a signature", det(map[string]any{"combiner": c, "accepted": acc, "enough": enough, "error": fmt.Sprint(serr), "log": log}))
					viol = true
					return false
				}
				sigs[string(sig)]++
				if !bytes.Equal(sig, sigRef) || !ed25519.Verify(ed25519.PublicKey(A), msg, sig) {
					e.violation("C12/dss/mixed-thresholds/wrong-signature", "the combined signature is not R || k + H(R,A,m)a / is rejected by crypto/ed25519", det(map[string]any{"combiner": c, "accepted": acc, "got": mon.Hex(sig), "want": mon.Hex(sigRef), "public_key": mon.Hex(A), "log": log}))
					viol = true
					return false
				}
				return true
			}
			own := func() bool {
				_, err := d.PartialSig()
				return step(fmt.Sprintf("PartialSig()@%d", c), err)
			}
			if ownFirst && !own() {
				return
			}
			for pos, i := range order {
				if i == c {
					continue
				}
				if !ownFirst && pos >= e.n/2 {
					ownFirst = true // own partial in the middle of the deliveries
					if !own() {
						return
					}
				}
				if !step(fmt.Sprintf("Process(partial of %d)", i), d.ProcessPartialSig(c12CopyPS(ps[i]))) {
					return
				}
			}
		}); bad {
			e.violation("C12/dss/mixed-thresholds/combiner/panic", "panic while combining partials of keys with different thresholds: "+p, det(map[string]any{"combiner": c, "log": log}))
			return
		}
		if viol {
			return
		}
	}
	if len(sigs) > 1 {
		e.violation("C12/dss/mixed-thresholds/combiners-disagree", "participants derive different signatures in one session", det(map[string]any{"distinct": len(sigs)}))
	}
	r.SampleClass("C12/session/mixed-thresholds", det(map[string]any{"job": e.id, "signature": mon.Hex(sigRef), "public_key": mon.Hex(A), "combiners": e.n}))
}
