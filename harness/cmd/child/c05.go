package main

import (
	"bytes"
	"fmt"
	"math/big"

	"go.dedis.ch/kyber/v4"

	"verif/internal/gen"
	"verif/internal/groups"
	"verif/internal/mon"
)

func init() { register("C05", c05) }

// c05m is the pair (real machine, reference machine) for one group.
type c05m struct {
	r    *mon.R
	g    *groups.G
	pv   []kyber.Point  // live point objects (possibly sharing state if the library is wrong)
	sv   []kyber.Scalar // live scalar objects
	pe   [][]byte       // reference: encoding snapshots of point slots
	se   [][]byte       // reference: encoding snapshots of scalar slots
	hist []string
	prog string
}

func (m *c05m) decP(b []byte) kyber.Point {
	p := m.g.Point()
	if err := p.UnmarshalBinary(b); err != nil {
		panic(fmt.Sprintf("harness: reference decode of point failed: %v (%x)", err, b))
	}
	return p
}
func (m *c05m) decS(b []byte) kyber.Scalar {
	s := m.g.Scalar()
	if err := s.UnmarshalBinary(b); err != nil {
		panic(fmt.Sprintf("harness: reference decode of scalar failed: %v (%x)", err, b))
	}
	return s
}

func (m *c05m) viol(op, pattern, what string, extra map[string]any) {
	d := map[string]any{"group": m.g.Name, "op": op, "pattern": pattern, "program": m.prog, "history": append([]string(nil), m.hist...)}
	for k, v := range extra {
		d[k] = v
	}
	m.r.Violation("C05/"+m.g.Name+"/"+op+"/"+what, fmt.Sprintf("%s (%s, aliasing pattern %s)", what, op, pattern), d)
}

// verify compares every live variable with the reference snapshots after a step.
// rp/rs: index of the point/scalar slot that was written (-1 none); ret: returned value encoding (nil if none).
func (m *c05m) verify(op, pattern string, rp, rs int, ret []byte) {
	if ok, which := m.g.ConstantsIntact(); !ok {
		m.viol(op, pattern, "library-constant-changed", map[string]any{"constant": which, "note": "a step of this (or a concurrently running) program corrupted state shared by all values of the group; the reference machine cannot be trusted from here on"})
	}
	for i, p := range m.pv {
		e := groups.Enc(p)
		if !bytes.Equal(e, m.pe[i]) {
			if i == rp {
				m.viol(op, pattern, "receiver-wrong", map[string]any{"slot": i, "got": mon.Hex(e), "want": mon.Hex(m.pe[i])})
			} else {
				m.viol(op, pattern, "other-point-changed", map[string]any{"slot": i, "written": rp, "got": mon.Hex(e), "want": mon.Hex(m.pe[i])})
			}
			// resynchronise real machine to the reference so later steps are judged on their own
			m.pv[i] = m.decP(m.pe[i])
			m.applyVT(m.pv[i])
		}
	}
	for i, s := range m.sv {
		e := groups.Enc(s)
		if !bytes.Equal(e, m.se[i]) {
			if i == rs {
				m.viol(op, pattern, "receiver-wrong", map[string]any{"slot": "s" + fmt.Sprint(i), "got": mon.Hex(e), "want": mon.Hex(m.se[i])})
			} else {
				m.viol(op, pattern, "other-scalar-changed", map[string]any{"slot": "s" + fmt.Sprint(i), "got": mon.Hex(e), "want": mon.Hex(m.se[i])})
			}
			m.sv[i] = m.decS(m.se[i])
		}
	}
	if ret != nil {
		var want []byte
		if rp >= 0 {
			want = m.pe[rp]
		} else if rs >= 0 {
			want = m.se[rs]
		}
		if want != nil && !bytes.Equal(ret, want) {
			m.viol(op, pattern, "return-wrong", map[string]any{"got": mon.Hex(ret), "want": mon.Hex(want)})
		}
	}
}

func (m *c05m) applyVT(p kyber.Point) {
	if m.g.VarTime {
		if v, ok := p.(kyber.AllowsVarTime); ok {
			v.AllowVarTime(true)
		}
	}
}

func pat3(r, a, b int) string {
	switch {
	case r == a && a == b:
		return "r=a=b"
	case r == a:
		return "r=a"
	case r == b:
		return "r=b"
	case a == b:
		return "a=b"
	}
	return "distinct"
}
func pat2(r, a int) string {
	if r == a {
		return "r=a"
	}
	return "distinct"
}

// step executes one operation on both machines. Returns false if the op is not applicable.
func (m *c05m) step(op string, r, a, b int, rng *gen.Rng) bool {
	g := m.g
	np, ns := len(m.pv), len(m.sv)
	h := fmt.Sprintf("%s r=%d a=%d b=%d", op, r, a, b)
	m.hist = append(m.hist, h)
	if len(m.hist) > 14 {
		m.hist = m.hist[1:]
	}
	nontriv := true
	var pattern string
	switch op {
	case "Add", "Sub":
		r, a, b = r%np, a%np, b%np
		pattern = pat3(r, a, b)
		ra, rb := m.decP(m.pe[a]), m.decP(m.pe[b])
		var want kyber.Point
		if op == "Add" {
			want = g.Point().Add(ra, rb)
		} else {
			want = g.Point().Sub(ra, rb)
		}
		m.pe[r] = groups.Enc(want)
		var ret kyber.Point
		if op == "Add" {
			ret = m.pv[r].Add(m.pv[a], m.pv[b])
		} else {
			ret = m.pv[r].Sub(m.pv[a], m.pv[b])
		}
		m.verify(op, pattern, r, -1, groups.Enc(ret))
	case "Neg":
		r, a = r%np, a%np
		pattern = pat2(r, a)
		m.pe[r] = groups.Enc(g.Point().Neg(m.decP(m.pe[a])))
		ret := m.pv[r].Neg(m.pv[a])
		m.verify(op, pattern, r, -1, groups.Enc(ret))
	case "Mul":
		r, a, b = r%np, a%np, b%ns
		pattern = pat2(r, a)
		m.pe[r] = groups.Enc(g.Point().Mul(m.decS(m.se[b]), m.decP(m.pe[a])))
		ret := m.pv[r].Mul(m.sv[b], m.pv[a])
		m.verify(op, pattern, r, -1, groups.Enc(ret))
	case "MulNil":
		if !g.CanMulNil {
			return false
		}
		r, b = r%np, b%ns
		pattern = "nil-operand"
		m.pe[r] = groups.Enc(g.Point().Mul(m.decS(m.se[b]), nil))
		ret := m.pv[r].Mul(m.sv[b], nil)
		m.verify(op, pattern, r, -1, groups.Enc(ret))
	case "Null":
		r = r % np
		pattern = "receiver-held-value"
		m.pe[r] = groups.Enc(g.Point().Null())
		ret := m.pv[r].Null()
		m.verify(op, pattern, r, -1, groups.Enc(ret))
	case "Base":
		if !g.CanBase {
			return false
		}
		r = r % np
		pattern = "receiver-held-value"
		m.pe[r] = groups.Enc(g.Point().Base())
		ret := m.pv[r].Base()
		m.verify(op, pattern, r, -1, groups.Enc(ret))
	case "Set":
		r, a = r%np, a%np
		pattern = pat2(r, a)
		m.pe[r] = append([]byte(nil), m.pe[a]...)
		ret := m.pv[r].Set(m.pv[a])
		m.verify(op, pattern, r, -1, groups.Enc(ret))
	case "Clone":
		r, a = r%np, a%np
		pattern = pat2(r, a)
		m.pe[r] = append([]byte(nil), m.pe[a]...)
		c := m.pv[a].Clone()
		m.pv[r] = c
		m.verify(op, pattern, r, -1, nil)
	case "Pick":
		if !g.CanPick {
			return false
		}
		r = r % np
		pattern = "receiver-held-value"
		seed := rng.Bytes(16)
		m.pe[r] = groups.Enc(g.Point().Pick(groups.Stream(string(seed))))
		ret := m.pv[r].Pick(groups.Stream(string(seed)))
		m.verify(op, pattern, r, -1, groups.Enc(ret))
	case "Embed":
		if !g.CanEmbed {
			return false
		}
		r = r % np
		pattern = "receiver-held-value"
		seed := rng.Bytes(16)
		data := rng.Bytes(rng.IntN(g.Point().EmbedLen() + 1))
		m.pe[r] = groups.Enc(g.Point().Embed(data, groups.Stream(string(seed))))
		ret := m.pv[r].Embed(data, groups.Stream(string(seed)))
		m.verify(op, pattern, r, -1, groups.Enc(ret))
	case "sAdd", "sSub", "sMul", "sDiv":
		r, a, b = r%ns, a%ns, b%ns
		pattern = pat3(r, a, b)
		ra, rb := m.decS(m.se[a]), m.decS(m.se[b])
		if op == "sDiv" && groups.ScalarToBig(rb).Sign() == 0 {
			return false
		}
		f := func(x kyber.Scalar, p, q kyber.Scalar) kyber.Scalar {
			switch op {
			case "sAdd":
				return x.Add(p, q)
			case "sSub":
				return x.Sub(p, q)
			case "sMul":
				return x.Mul(p, q)
			}
			return x.Div(p, q)
		}
		m.se[r] = groups.Enc(f(g.Scalar(), ra, rb))
		ret := f(m.sv[r], m.sv[a], m.sv[b])
		m.verify(op, pattern, -1, r, groups.Enc(ret))
	case "sNeg", "sInv", "sSet":
		r, a = r%ns, a%ns
		pattern = pat2(r, a)
		ra := m.decS(m.se[a])
		if op == "sInv" && groups.ScalarToBig(ra).Sign() == 0 {
			return false
		}
		f := func(x kyber.Scalar, p kyber.Scalar) kyber.Scalar {
			switch op {
			case "sNeg":
				return x.Neg(p)
			case "sInv":
				return x.Inv(p)
			}
			return x.Set(p)
		}
		m.se[r] = groups.Enc(f(g.Scalar(), ra))
		ret := f(m.sv[r], m.sv[a])
		m.verify(op, pattern, -1, r, groups.Enc(ret))
	case "sClone":
		r, a = r%ns, a%ns
		pattern = pat2(r, a)
		m.se[r] = append([]byte(nil), m.se[a]...)
		m.sv[r] = m.sv[a].Clone()
		m.verify(op, pattern, -1, r, nil)
	case "sZero", "sOne", "sSetInt64", "sSetBytes", "sPick":
		r = r % ns
		pattern = "receiver-held-value"
		v := int64(rng.Uint64())
		if rng.IntN(3) == 0 {
			v = int64(rng.IntN(5)) - 2
		}
		bs := rng.Bytes(rng.IntN(70))
		seed := rng.Bytes(16)
		f := func(x kyber.Scalar) kyber.Scalar {
			switch op {
			case "sZero":
				return x.Zero()
			case "sOne":
				return x.One()
			case "sSetInt64":
				return x.SetInt64(v)
			case "sSetBytes":
				return x.SetBytes(append([]byte(nil), bs...))
			}
			return x.Pick(groups.Stream(string(seed)))
		}
		m.se[r] = groups.Enc(f(g.Scalar()))
		ret := f(m.sv[r])
		m.verify(op, pattern, -1, r, groups.Enc(ret))
	default:
		panic("harness: unknown op " + op)
	}
	m.r.Eval(op+"/"+pattern, fmt.Sprintf("%s|%s|%s", g.Name, m.prog, h), nontriv)
	m.r.Op(op)
	return true
}

var c05PointOps = []string{"Add", "Sub", "Neg", "Mul", "MulNil", "Null", "Base", "Set", "Clone", "Pick", "Embed"}
var c05ScalarOps = []string{"sAdd", "sSub", "sMul", "sDiv", "sNeg", "sInv", "sSet", "sClone", "sZero", "sOne", "sSetInt64", "sSetBytes", "sPick"}

func c05new(r *mon.R, g *groups.G, rng *gen.Rng, prog string) *c05m {
	m := &c05m{r: r, g: g, prog: prog}
	edge := gen.Edge(g.Q)
	B := g.Gen()
	for i := 0; i < 4; i++ {
		var p kyber.Point
		switch rng.IntN(6) {
		case 0:
			p = g.Point().Null()
		case 1:
			p = g.Point().Set(B)
		case 2:
			// non-normalised internal form
			k := g.ScalarFromBig(rng.Big(g.Q))
			p = g.Point().Sub(g.Point().Add(g.Point().Mul(k, B), B), B)
		default:
			p = g.Point().Mul(g.ScalarFromBig(rng.EdgeOrRandom(edge, g.Q, 60)), B)
		}
		m.applyVT(p)
		m.pv = append(m.pv, p)
		m.pe = append(m.pe, groups.Enc(p))
	}
	for i := 0; i < 3; i++ {
		s := g.ScalarFromBig(rng.EdgeOrRandom(edge, g.Q, 80))
		m.sv = append(m.sv, s)
		m.se = append(m.se, groups.Enc(s))
	}
	return m
}

func c05(r *mon.R) {
	r.SetRule("per group: (a) explicit aliasing matrix: every Point/Scalar op x every receiver/operand aliasing pattern (distinct, r=a, r=b, a=b, r=a=b, receiver previously holding another value, receiver/operand a Clone or Set copy of the other) followed by in-place mutation of either side; (b) random programs of length <=12 over 4 point + 3 scalar variables with uniformly drawn aliasing. Reference machine executes each step on fresh objects decoded from encoding snapshots; all variables are compared after every step. distinct = (group, program, step descriptor); all steps count as non-trivial (each has a live pool of other variables that must stay intact)")
	r.Assume("MarshalBinary/UnmarshalBinary round-trip (C03) is used to make independent copies for the reference machine")
	gs := groups.Select(groups.All(), *flagGroups)
	type job struct {
		g    *groups.G
		kind string
		idx  int
	}
	var jobs []job
	for _, g := range gs {
		np := r.N(150, 5000)
		nm := r.N(4, 40)
		if g.Kind == "GT" {
			np, nm = r.N(40, 800), r.N(2, 10)
		}
		for i := 0; i < nm; i++ {
			jobs = append(jobs, job{g, "matrix", i})
		}
		for i := 0; i < np; i++ {
			jobs = append(jobs, job{g, "prog", i})
		}
	}
	mon.Parallel(len(jobs), func(w, i int) {
		j := jobs[i]
		r.Journal(w, "C05 %s %s %d", j.g.Name, j.kind, j.idx)
		r.Guard("C05/"+j.g.Name+"/"+j.kind, map[string]any{"group": j.g.Name, "idx": j.idx}, func() {
			rng := gen.New(r.Seed, "C05"+j.kind+j.g.Name, j.idx)
			if j.kind == "matrix" {
				c05Matrix(r, j.g, rng, j.idx)
			} else {
				m := c05new(r, j.g, rng, fmt.Sprintf("prog%d", j.idx))
				n := 4 + rng.IntN(9)
				for s := 0; s < n; s++ {
					var op string
					if rng.IntN(3) == 0 {
						op = gen.Pick(rng, c05ScalarOps)
					} else {
						op = gen.Pick(rng, c05PointOps)
					}
					m.step(op, rng.IntN(12), rng.IntN(12), rng.IntN(12), rng)
				}
				if j.idx == 0 {
					r.SampleClass("prog:"+j.g.Name, map[string]any{"group": j.g.Name, "kind": "random-program", "steps": m.hist})
				}
			}
		})
	})
}

// c05Matrix runs the explicit aliasing matrix once (idx varies the initial values).
func c05Matrix(r *mon.R, g *groups.G, rng *gen.Rng, idx int) {
	// binary point ops: all (r,a,b) in a 3-slot pool -> 27 patterns incl. every aliasing class
	for _, op := range []string{"Add", "Sub"} {
		for rr := 0; rr < 3; rr++ {
			for a := 0; a < 3; a++ {
				for b := 0; b < 3; b++ {
					m := c05new(r, g, rng, fmt.Sprintf("matrix%d", idx))
					m.step(op, rr, a, b, rng)
				}
			}
		}
	}
	for _, op := range []string{"Neg", "Set", "Clone"} {
		for rr := 0; rr < 2; rr++ {
			for a := 0; a < 2; a++ {
				m := c05new(r, g, rng, fmt.Sprintf("matrix%d", idx))
				m.step(op, rr, a, 0, rng)
			}
		}
	}
	for rr := 0; rr < 2; rr++ {
		for a := 0; a < 2; a++ {
			for b := 0; b < 2; b++ {
				m := c05new(r, g, rng, fmt.Sprintf("matrix%d", idx))
				m.step("Mul", rr, a, b, rng)
			}
		}
	}
	for _, op := range []string{"MulNil", "Null", "Base", "Pick", "Embed"} {
		m := c05new(r, g, rng, fmt.Sprintf("matrix%d", idx))
		m.step(op, 0, 0, 0, rng)
	}
	// copy independence: X = copy(A) by Clone or Set; mutate one side in place with every mutator; the other must not move.
	muts := []string{"Add", "Sub", "Neg", "Mul", "MulNil", "Null", "Base", "Pick", "Embed", "Set"}
	for _, cp := range []string{"Clone", "Set"} {
		for _, mu := range muts {
			for side := 0; side < 2; side++ {
				m := c05new(r, g, rng, fmt.Sprintf("matrix%d/%s-then-%s/side%d", idx, cp, mu, side))
				m.step(cp, 1, 0, 0, rng) // slot1 = copy(slot0)
				tgt := side              // mutate the source (0) or the copy (1) in place
				switch mu {
				case "Add", "Sub":
					m.step(mu, tgt, tgt, 2, rng)
				case "Neg":
					m.step(mu, tgt, tgt, 0, rng)
				case "Mul":
					m.step(mu, tgt, tgt, 0, rng)
				case "Set":
					m.step(mu, tgt, 3, 0, rng)
				default:
					m.step(mu, tgt, 0, 0, rng)
				}
				// and use both afterwards
				m.step("Add", 3, 0, 1, rng)
			}
		}
	}
	// scalar matrix
	for _, op := range []string{"sAdd", "sSub", "sMul", "sDiv"} {
		for rr := 0; rr < 3; rr++ {
			for a := 0; a < 3; a++ {
				for b := 0; b < 3; b++ {
					m := c05new(r, g, rng, fmt.Sprintf("matrix%d", idx))
					m.step(op, rr, a, b, rng)
				}
			}
		}
	}
	for _, op := range []string{"sNeg", "sInv", "sSet", "sClone"} {
		for rr := 0; rr < 2; rr++ {
			for a := 0; a < 2; a++ {
				m := c05new(r, g, rng, fmt.Sprintf("matrix%d", idx))
				m.step(op, rr, a, 0, rng)
			}
		}
	}
	smuts := []string{"sAdd", "sSub", "sMul", "sDiv", "sNeg", "sInv", "sZero", "sOne", "sSetInt64", "sSetBytes", "sPick", "sSet"}
	for _, cp := range []string{"sClone", "sSet"} {
		for _, mu := range smuts {
			for side := 0; side < 2; side++ {
				m := c05new(r, g, rng, fmt.Sprintf("matrix%d/%s-then-%s/side%d", idx, cp, mu, side))
				m.step(cp, 1, 0, 0, rng)
				tgt := side
				switch mu {
				case "sAdd", "sSub", "sMul", "sDiv":
					m.step(mu, tgt, tgt, 2, rng)
				case "sNeg", "sInv":
					m.step(mu, tgt, tgt, 0, rng)
				case "sSet":
					m.step(mu, tgt, 2, 0, rng)
				default:
					m.step(mu, tgt, 0, 0, rng)
				}
				m.step("sAdd", 2, 0, 1, rng)
			}
		}
	}
	_ = big.NewInt
}
