package main

// C18 part (iii): the Kilic, CIRCL and gnark BLS12-381 back-ends in lock step
// (scalars, G1, G2, GT, hash-to-curve with the same tag, pairings) and BLS
// signatures that must be byte-identical and verify under every back-end.

import (
	"bytes"
	"fmt"
	"math/big"

	"go.dedis.ch/kyber/v4"
	"go.dedis.ch/kyber/v4/pairing"
	"go.dedis.ch/kyber/v4/pairing/bls12381/circl"
	"go.dedis.ch/kyber/v4/pairing/bls12381/gnark"
	"go.dedis.ch/kyber/v4/pairing/bls12381/kilic"
	"go.dedis.ch/kyber/v4/sign/bls"

	"verif/internal/gen"
	"verif/internal/mon"
	"verif/internal/ref"
)

type c18Hash2 interface {
	Hash2(msg, dst []byte) kyber.Point
}

func c18BLSHash(m *c18Mach, sort int, msg, dst []byte) kyber.Point {
	if dst == nil {
		return m.point(sort).(kyber.HashablePoint).Hash(msg)
	}
	if m.name == "kilic" {
		var g kyber.Group
		other := append([]byte("C18-OTHER-GROUP-TAG-"), dst...)
		switch {
		case len(msg)%2 == 0 && sort == 0: // through a suite whose G2 tag differs
			g = kilic.NewBLS12381SuiteWithDST(append([]byte(nil), dst...), other).G1()
		case len(msg)%2 == 0:
			g = kilic.NewBLS12381SuiteWithDST(other, append([]byte(nil), dst...)).G2()
		case sort == 0:
			g = kilic.NewGroupG1(dst...)
		default:
			g = kilic.NewGroupG2(dst...)
		}
		h := g.Point().(kyber.HashablePoint).Hash(msg)
		// bring the value into the default group object (deep copy by encode -> decode)
		q := m.point(sort)
		if err := q.UnmarshalBinary(c18Enc(h)); err != nil {
			panic("decode of own hash output failed: " + err.Error())
		}
		return q
	}
	return m.point(sort).(c18Hash2).Hash2(msg, dst)
}

type c18BLSBackend struct {
	name  string
	suite pairing.Suite
}

func c18BLSBackends() []c18BLSBackend {
	return []c18BLSBackend{
		{"kilic", kilic.NewBLS12381Suite()},
		{"circl", circl.NewSuite()},
		{"gnark", gnark.NewSuite()},
	}
}

var c18BLSQ = ref.BLS12381G1.N
var c18BLSEdge = gen.Edge(c18BLSQ)

// c18BLSProgram runs one lock-step program over the three back-ends.
func c18BLSProgram(r *mon.R, idx int) {
	rng := gen.New(r.Seed, "C18bls", idx)
	var ms []*c18Mach
	for _, b := range c18BLSBackends() {
		ms = append(ms, &c18Mach{name: b.name, suite: b.suite, hash: c18BLSHash,
			grp: []kyber.Group{b.suite.G1(), b.suite.G2(), b.suite.GT()}})
	}
	g1 := c18WRef{ref.BLS12381G1, "zcash"}
	L := &c18Lock{r: r, part: "bls12381", idx: idx, ms: ms, q: c18BLSQ, edge: c18BLSEdge, nS: 4, nP: 4, scalarBytes: true,
		sorts: []c18Sort{
			{name: "G1", ref: g1, canHash: true, ext: g1.ext()},
			{name: "G2", canHash: true},
			{name: "GT", noBase: true},
		}}
	L.run(rng, 24+rng.IntN(17))
	if idx == 0 {
		r.SampleClass("bls12381-program", map[string]any{"part": "bls12381", "program": idx, "machines": []string{"kilic", "circl", "gnark", "big.Int model (G1 only)"}, "last_steps": L.hist})
	}
}

// c18BLSSig: same secret (as an integer) and message on every back-end: public keys and signatures are
// byte-identical, every back-end accepts every other back-end's signature, and all give the same verdict on
// a damaged signature / other message.
func c18BLSSig(r *mon.R, idx int) {
	rng := gen.New(r.Seed, "C18blssig", idx)
	bes := c18BLSBackends()
	for _, on := range []string{"G1", "G2"} {
		x := rng.EdgeOrRandom(c18BLSEdge, c18BLSQ, 90)
		if x.Sign() == 0 {
			x = big.NewInt(1)
		}
		msg := rng.Bytes(rng.IntN(80))
		type res struct {
			scheme interface {
				Sign(kyber.Scalar, []byte) ([]byte, error)
				Verify(kyber.Point, []byte, []byte) error
			}
			keyGroup kyber.Group
			pub, sig []byte
		}
		out := make([]res, len(bes))
		det := map[string]any{"scheme": "bls-on-" + on, "secret": x.Text(16), "msg": mon.Hex(msg)}
		for i, b := range bes {
			if on == "G1" {
				out[i].scheme, out[i].keyGroup = bls.NewSchemeOnG1(b.suite), b.suite.G2()
			} else {
				out[i].scheme, out[i].keyGroup = bls.NewSchemeOnG2(b.suite), b.suite.G1()
			}
			s := out[i].keyGroup.Scalar()
			s.SetBytes(c18OrderBytes(s, x, 32))
			out[i].pub = c18Enc(out[i].keyGroup.Point().Mul(s, nil))
			sig, err := out[i].scheme.Sign(s, msg)
			if err != nil {
				r.Violation("C18/bls12381/"+b.name+"/bls.Sign-on-"+on+"/error", "Sign failed: "+err.Error(), det)
				return
			}
			out[i].sig = sig
			det[b.name+"_pub"] = mon.Hex(out[i].pub)
			det[b.name+"_sig"] = mon.Hex(sig)
		}
		r.Op("bls.Sign-on-"+on, "bls.Verify-on-"+on)
		desc := fmt.Sprintf("%s|%s|%x", on, x.Text(16), msg)
		for i := 1; i < len(bes); i++ {
			r.Eval("blssig/"+on+"/public-key-bytes", bes[i].name+"|"+desc, true)
			if !bytes.Equal(out[i].pub, out[0].pub) {
				r.Violation("C18/bls12381/"+bes[i].name+"-vs-"+bes[0].name+"/bls-on-"+on+"/public-key-differs", "public keys of the same secret differ between back-ends", det)
			}
			r.Eval("blssig/"+on+"/signature-bytes", bes[i].name+"|"+desc, true)
			if !bytes.Equal(out[i].sig, out[0].sig) {
				r.Violation("C18/bls12381/"+bes[i].name+"-vs-"+bes[0].name+"/bls-on-"+on+"/signature-differs", "signatures of the same (secret, message) differ between back-ends", det)
			}
		}
		r.SampleClass("blssig-"+on, det)
		// cross verification matrix with per-verifier copies
		bad := append([]byte(nil), out[0].sig...)
		bad[len(bad)-1-rng.IntN(8)] ^= byte(1 << uint(rng.IntN(8)))
		other := append(append([]byte(nil), msg...), 0x01)
		for vi, v := range bes {
			for si, s := range bes {
				pub := out[vi].keyGroup.Point()
				if err := pub.UnmarshalBinary(append([]byte(nil), out[si].pub...)); err != nil {
					r.Violation("C18/bls12381/"+v.name+"/bls-on-"+on+"/public-key-of-peer-refused", "public key produced by "+s.name+" is refused: "+err.Error(), det)
					continue
				}
				r.Eval("blssig/"+on+"/cross-verify", v.name+"<-"+s.name+"|"+desc, true)
				if err := out[vi].scheme.Verify(pub, append([]byte(nil), msg...), append([]byte(nil), out[si].sig...)); err != nil {
					r.Violation("C18/bls12381/"+v.name+"/bls-on-"+on+"/signature-of-peer-rejected", "honest signature produced by "+s.name+" is rejected by "+v.name+": "+err.Error(), det)
				}
				if si != 0 {
					continue
				}
				r.Eval("blssig/"+on+"/cross-verify-other-message", v.name+"|"+desc, true)
				if err := out[vi].scheme.Verify(pub, other, append([]byte(nil), out[si].sig...)); err == nil {
					r.Violation("C18/bls12381/"+v.name+"/bls-on-"+on+"/signature-accepted-for-other-message", "signature verifies for a different message", det)
				}
			}
		}
		// damaged signature: all back-ends must give the same verdict (error or not)
		verdict := make([]bool, len(bes))
		for vi := range bes {
			pub := out[vi].keyGroup.Point()
			if err := pub.UnmarshalBinary(append([]byte(nil), out[0].pub...)); err != nil {
				continue
			}
			msgp, p := mon.Try(func() {
				verdict[vi] = out[vi].scheme.Verify(pub, append([]byte(nil), msg...), append([]byte(nil), bad...)) == nil
			})
			if p {
				d := map[string]any{"bad_sig": mon.Hex(bad), "panic": msgp}
				for k, v := range det {
					d[k] = v
				}
				r.Violation("C18/bls12381/"+bes[vi].name+"/bls-on-"+on+"/damaged-signature/panic", "Verify panics on a damaged signature: "+msgp, d)
			}
		}
		for vi := 1; vi < len(bes); vi++ {
			r.Eval("blssig/"+on+"/damaged-signature-verdict", bes[vi].name+"|"+desc, true)
			if verdict[vi] != verdict[0] {
				d := map[string]any{"bad_sig": mon.Hex(bad), "verdicts": fmt.Sprint(verdict)}
				for k, v := range det {
					d[k] = v
				}
				r.Violation("C18/bls12381/"+bes[vi].name+"-vs-"+bes[0].name+"/bls-on-"+on+"/damaged-signature-verdict-differs", "back-ends disagree on the validity of the same (key, message, signature)", d)
			}
		}
	}
}
