package main

// C11, Pedersen DKG (modes direct and proto): shared session model.
//
// A session is one run of the fresh DKG or of the resharing protocol among a set of
// parties. Honest parties are real kyber objects (DistKeyGenerator in mode direct, Protocol in
// mode proto), each with its own seeded suite and its own copies of every value. A Byzantine
// party is the harness itself holding that party's long-term key: it builds, edits and signs
// bundles from polynomials the harness knows, so the harness keeps a ground-truth ledger of who
// was dealt a valid share and which complaint was really justified.

import (
	"crypto/sha256"
	"errors"
	"fmt"
	"math/big"
	"runtime/debug"
	"sort"
	"strings"
	"sync"

	"go.dedis.ch/kyber/v4"
	"go.dedis.ch/kyber/v4/encrypt/ecies"
	"go.dedis.ch/kyber/v4/group/edwards25519"
	"go.dedis.ch/kyber/v4/share"
	dkgp "go.dedis.ch/kyber/v4/share/dkg/pedersen"
	"go.dedis.ch/kyber/v4/sign/schnorr"
	"go.dedis.ch/kyber/v4/xof/blake2xb"

	"verif/internal/gen"
	"verif/internal/mon"
	"verif/internal/ref"
)

type c11pSuite = *edwards25519.SuiteEd25519

// ---------------------------------------------------------------- scenario description

// c11pShape is the membership of a session: which party sits at which index of the old
// (dealing) group and of the new (share-holding) group. A fresh DKG has old == new.
type c11pShape struct {
	kind       string // "fresh" | "reshare"
	name       string // fresh, same, newt, overlap, grow, shrink, disjoint, gap, relabel
	oldT, newT int
	members    [][2]int // per party: {old index or -1, new index or -1}
}

func (sh *c11pShape) oldN() int {
	k := 0
	for _, m := range sh.members {
		if m[0] >= 0 {
			k++
		}
	}
	return k
}
func (sh *c11pShape) newN() int {
	k := 0
	for _, m := range sh.members {
		if m[1] >= 0 {
			k++
		}
	}
	return k
}
func (sh *c11pShape) String() string {
	if sh.kind == "fresh" {
		return fmt.Sprintf("fresh(n=%d,t=%d)", sh.newN(), sh.newT)
	}
	return fmt.Sprintf("reshare/%s(old n=%d t=%d -> new n=%d t=%d; members=%v)", sh.name, sh.oldN(), sh.oldT, sh.newN(), sh.newT, sh.members)
}

// c11pFault is one entry of the Byzantine menu assigned to one party.
type c11pFault struct {
	kind   string // see c11pMenu
	target string // one | two | all : which honest parties are hit
	just   string // justification policy of a dealer that is complained about
	pos    string // where inside the bundle the edited / bogus entry sits, or which variant of the edit
}

func (f c11pFault) label() string {
	s := f.kind
	if f.pos != "" {
		s += "/" + f.pos
	}
	if f.target != "" {
		s += "/" + f.target
	}
	if f.just != "" {
		s += "/" + f.just
	}
	return s
}

// c11pScn is one session to run.
type c11pScn struct {
	shape   c11pShape
	fast    bool
	faults  map[int]c11pFault // party id -> fault
	dv      int               // delivery variant (0 = in order, >0 seeded permutations / duplications)
	chained bool              // resharing: the old sharing comes from a real all-honest fresh DKG run
	sched   string            // proto: lockstep | eager | skew
	origin  string            // exhaustive | sampled | honest
}

func (s *c11pScn) faultList() []string {
	var ids []int
	for p := range s.faults {
		ids = append(ids, p)
	}
	sort.Ints(ids)
	var out []string
	for _, p := range ids {
		out = append(out, fmt.Sprintf("%d:%s", p, s.faults[p].label()))
	}
	return out
}

// faultClass is the stable input class used in violation keys: the sorted set of fault kinds (no party ids,
// no targets) and the synchronisation mode; the full assignment is in the witness.
func (s *c11pScn) faultClass() string {
	if len(s.faults) == 0 {
		return "all-honest"
	}
	seen := map[string]bool{}
	var out []string
	for _, f := range s.faults {
		k := f.kind
		if strings.HasPrefix(f.just, "equivocate") {
			k += "/" + f.just // conflicting justification bundles are an equivocation class of their own
		}
		if !seen[k] {
			seen[k] = true
			out = append(out, k)
		}
	}
	sort.Strings(out)
	if s.fast {
		return strings.Join(out, "+") + "@fastsync"
	}
	return strings.Join(out, "+") + "@regular"
}

func (s *c11pScn) desc() string {
	return fmt.Sprintf("%s fast=%v faults=%v dv=%d chained=%v sched=%s", s.shape.String(), s.fast, s.faultList(), s.dv, s.chained, s.sched)
}

// ---------------------------------------------------------------- session state

type c11pParty struct {
	id       int
	oldIdx   int
	newIdx   int
	priv     kyber.Scalar
	pub      kyber.Point
	honest   bool
	fault    c11pFault
	oldShare *dkgp.DistKeyShare // resharing: what the party holds in the old group

	// harness-held state of a Byzantine dealer
	polys     []*share.PriPoly
	published kyber.Point // constant commitment of the (unique) published polynomial; nil if none/ambiguous
}

func (p *c11pParty) role() string {
	switch {
	case p.oldIdx >= 0 && p.newIdx >= 0:
		return "staying"
	case p.oldIdx >= 0:
		return "leaving"
	}
	return "joining"
}

// c11pOutcome is what one honest party ended with.
type c11pOutcome struct {
	res   *dkgp.Result
	err   error
	stage string // call that returned the error
	done  bool   // finished without a result and without an error (leaving node)
	snap  *dkgp.VerifSnapshot
}

type c11pSess struct {
	r    *mon.R
	mode string
	scn  *c11pScn
	idx  int
	rng  *gen.Rng
	hs   c11pSuite // harness-owned suite: oracle side and Byzantine parties
	q    *big.Int

	nonce   []byte
	parties []*c11pParty
	oldPub  []kyber.Point // resharing: commitments of the old sharing polynomial
	oldKey  kyber.Point

	// ledger
	dealBad  map[[2]int]string // (dealer party, honest holder party) -> why the deal handed over is invalid
	mustOut  map[int]string    // Byzantine dealer that has to be disqualified -> reason
	byzBadTo map[int]bool      // dealers a Byzantine holder would honestly complain about (no usable bundle)

	out     []*c11pOutcome
	perms   []string // delivery orders used (evidence)
	inconcl string
	hist    []string
}

// c11pStats collects evidence across sessions.
type c11pStats struct {
	mu       sync.Mutex
	assign   map[string]struct{}
	perms    map[string]struct{}
	matrices map[string]struct{}
	outcomes map[string]int64
	errs     map[string]int64
	sessions int64
	finished int64 // sessions in which at least two honest parties returned a result
	allFin   int64 // sessions in which every honest new-group member returned a result
	aborts   map[string]int64
	sampled  sync.Map
}

func c11pNewStats() *c11pStats {
	return &c11pStats{assign: map[string]struct{}{}, perms: map[string]struct{}{}, matrices: map[string]struct{}{}, outcomes: map[string]int64{}, errs: map[string]int64{}, aborts: map[string]int64{}}
}

func (st *c11pStats) flush(r *mon.R, mode string) {
	st.mu.Lock()
	defer st.mu.Unlock()
	r.Note("distinct_fault_assignments", len(st.assign))
	r.Note("distinct_delivery_orders", len(st.perms))
	r.Note("distinct_final_status_matrices", len(st.matrices))
	r.Note("sessions", st.sessions)
	r.Note("sessions_with_two_or_more_honest_results", st.finished)
	r.Note("sessions_where_every_honest_holder_finished", st.allFin)
	r.Note("outcome_classes", st.outcomes)
	r.Note("honest_noncompletion_reasons", st.errs)
	r.Note("sessions_without_any_honest_result_by_class", st.aborts)
	if st.sessions > 0 && st.finished == 0 {
		r.Inconclusive("C11 pedersen " + mode + ": no session ended with two honest results, nothing was judged")
	}
}

// ---------------------------------------------------------------- small helpers

func c11pPointClone(s c11pSuite, p kyber.Point) kyber.Point {
	b, err := p.MarshalBinary()
	if err != nil {
		panic("harness: point encode: " + err.Error())
	}
	q := s.Point()
	if err := q.UnmarshalBinary(b); err != nil {
		panic("harness: point decode: " + err.Error())
	}
	return q
}

func c11pScalarClone(s c11pSuite, x kyber.Scalar) kyber.Scalar {
	b, err := x.MarshalBinary()
	if err != nil {
		panic("harness: scalar encode: " + err.Error())
	}
	y := s.Scalar()
	if err := y.UnmarshalBinary(b); err != nil {
		panic("harness: scalar decode: " + err.Error())
	}
	return y
}

func c11pPointsClone(s c11pSuite, ps []kyber.Point) []kyber.Point {
	out := make([]kyber.Point, len(ps))
	for i, p := range ps {
		out[i] = c11pPointClone(s, p)
	}
	return out
}

func c11pBytes(b []byte) []byte { return append([]byte(nil), b...) }

// c11pScalarBig reads an Ed25519 scalar (little-endian encoding) as an integer.
func c11pScalarBig(x kyber.Scalar) *big.Int {
	b, err := x.MarshalBinary()
	if err != nil {
		panic("harness: scalar encode: " + err.Error())
	}
	be := make([]byte, len(b))
	for i := range b {
		be[len(b)-1-i] = b[i]
	}
	return new(big.Int).SetBytes(be)
}

// c11pBigScalar builds the scalar with residue v mod q from its little-endian bytes.
func c11pBigScalar(s c11pSuite, v *big.Int) kyber.Scalar {
	v = new(big.Int).Mod(v, ref.EdL)
	be := v.FillBytes(make([]byte, 32))
	le := make([]byte, 32)
	for i := range be {
		le[31-i] = be[i]
	}
	return s.Scalar().SetBytes(le)
}

func c11pHexPoint(p kyber.Point) string {
	if p == nil {
		return "<nil>"
	}
	b, _ := p.MarshalBinary()
	return mon.Hex(b)
}

func c11pHexScalar(x kyber.Scalar) string {
	if x == nil {
		return "<nil>"
	}
	b, _ := x.MarshalBinary()
	return mon.Hex(b)
}

func c11pCloneDeal(s c11pSuite, b *dkgp.DealBundle) *dkgp.DealBundle {
	c := &dkgp.DealBundle{DealerIndex: b.DealerIndex, SessionID: c11pBytes(b.SessionID), Signature: c11pBytes(b.Signature)}
	if b.Public != nil {
		c.Public = c11pPointsClone(s, b.Public)
	}
	for _, d := range b.Deals {
		c.Deals = append(c.Deals, dkgp.Deal{ShareIndex: d.ShareIndex, EncryptedShare: c11pBytes(d.EncryptedShare)})
	}
	return c
}

func c11pCloneResp(b *dkgp.ResponseBundle) *dkgp.ResponseBundle {
	c := &dkgp.ResponseBundle{ShareIndex: b.ShareIndex, SessionID: c11pBytes(b.SessionID), Signature: c11pBytes(b.Signature)}
	c.Responses = append(c.Responses, b.Responses...)
	return c
}

func c11pCloneJust(s c11pSuite, b *dkgp.JustificationBundle) *dkgp.JustificationBundle {
	c := &dkgp.JustificationBundle{DealerIndex: b.DealerIndex, SessionID: c11pBytes(b.SessionID), Signature: c11pBytes(b.Signature)}
	for _, j := range b.Justifications {
		c.Justifications = append(c.Justifications, dkgp.Justification{ShareIndex: j.ShareIndex, Share: c11pScalarClone(s, j.Share)})
	}
	return c
}

func c11pDealString(b *dkgp.DealBundle) string {
	var ds []string
	for _, d := range b.Deals {
		ds = append(ds, fmt.Sprintf("%d:%s", d.ShareIndex, mon.Hex(d.EncryptedShare)))
	}
	var ps []string
	for _, p := range b.Public {
		ps = append(ps, c11pHexPoint(p))
	}
	return fmt.Sprintf("deal{dealer=%d sid=%s public=%v deals=%v}", b.DealerIndex, mon.Hex(b.SessionID), ps, ds)
}

func c11pRespString(b *dkgp.ResponseBundle) string {
	var rs []string
	for _, x := range b.Responses {
		st := "complaint"
		if x.Status == dkgp.Success {
			st = "success"
		}
		rs = append(rs, fmt.Sprintf("%d:%s", x.DealerIndex, st))
	}
	return fmt.Sprintf("resp{holder=%d sid-ok-prefix=%s %v}", b.ShareIndex, mon.Hex(b.SessionID[:min(4, len(b.SessionID))]), rs)
}

func c11pJustString(b *dkgp.JustificationBundle) string {
	var js []string
	for _, x := range b.Justifications {
		js = append(js, fmt.Sprintf("%d:%s", x.ShareIndex, c11pHexScalar(x.Share)))
	}
	return fmt.Sprintf("just{dealer=%d sid-prefix=%s %v}", b.DealerIndex, mon.Hex(b.SessionID[:min(4, len(b.SessionID))]), js)
}

// ---------------------------------------------------------------- session set-up

func c11pNewSess(r *mon.R, mode string, scn *c11pScn, idx int, rng *gen.Rng, presetKeys []kyber.Scalar) *c11pSess {
	s := &c11pSess{r: r, mode: mode, scn: scn, idx: idx, rng: rng, q: ref.EdL,
		dealBad: map[[2]int]string{}, mustOut: map[int]string{}, byzBadTo: map[int]bool{}}
	s.hs = edwards25519.NewBlakeSHA256Ed25519WithRand(rng.Stream())
	s.nonce = rng.Bytes(dkgp.NonceLength)
	for id, m := range scn.shape.members {
		p := &c11pParty{id: id, oldIdx: m[0], newIdx: m[1], honest: true}
		if presetKeys != nil {
			p.priv = c11pScalarClone(s.hs, presetKeys[id])
		} else {
			p.priv = s.hs.Scalar().Pick(rng.Stream())
		}
		p.pub = s.hs.Point().Mul(p.priv, nil)
		if f, ok := scn.faults[id]; ok {
			p.honest = false
			p.fault = f
		}
		s.parties = append(s.parties, p)
	}
	s.out = make([]*c11pOutcome, len(s.parties))
	for i := range s.out {
		s.out[i] = &c11pOutcome{}
	}
	return s
}

func (s *c11pSess) isReshare() bool { return s.scn.shape.kind == "reshare" }

func (s *c11pSess) key(what string) string {
	return "C11/pedersen/" + s.mode + "/" + s.scn.shape.kind + "/" + what
}

func (s *c11pSess) detail(extra map[string]any) map[string]any {
	d := map[string]any{"seed": s.r.Seed, "tier": s.r.Tier, "session": s.idx, "scenario": s.scn.desc(), "history": append([]string(nil), s.hist...)}
	var ps []string
	for _, p := range s.parties {
		h := "honest"
		if !p.honest {
			h = "BYZ " + p.fault.label()
		}
		ps = append(ps, fmt.Sprintf("party %d (%s old=%d new=%d %s) pub=%s", p.id, p.role(), p.oldIdx, p.newIdx, h, c11pHexPoint(p.pub)))
	}
	d["parties"] = ps
	d["outcomes"] = s.outcomeStrings()
	for k, v := range extra {
		d[k] = v
	}
	return d
}

func (s *c11pSess) outcomeStrings() []string {
	var out []string
	for _, p := range s.parties {
		if !p.honest {
			continue
		}
		o := s.out[p.id]
		switch {
		case o.res != nil:
			out = append(out, fmt.Sprintf("party %d: result QUAL=%v key=%s", p.id, c11pQualIdx(o.res), c11pHexPoint(c11pKeyOf(o.res))))
		case o.err != nil:
			out = append(out, fmt.Sprintf("party %d: error at %s: %v", p.id, o.stage, o.err))
		case o.done:
			out = append(out, fmt.Sprintf("party %d: finished without result (leaving node)", p.id))
		default:
			out = append(out, fmt.Sprintf("party %d: no result", p.id))
		}
	}
	return out
}

func c11pKeyOf(res *dkgp.Result) kyber.Point {
	if res == nil || res.Key == nil || len(res.Key.Commits) == 0 {
		return nil
	}
	return res.Key.Commits[0]
}

func c11pQualIdx(res *dkgp.Result) []int {
	var q []int
	for _, n := range res.QUAL {
		q = append(q, int(n.Index))
	}
	sort.Ints(q)
	return q
}

func (s *c11pSess) viol(what, text string, extra map[string]any) {
	s.r.Violation(s.key(what), text, s.detail(extra))
}

// guard runs f; a panic inside kyber becomes the violation <key>/panic (the witness is only built when needed).
func (s *c11pSess) guard(call string, extra map[string]any, f func()) (ok bool) {
	defer func() {
		if e := recover(); e != nil {
			ok = false
			d := s.detail(extra)
			txt := fmt.Sprint(e)
			d["panic"] = txt
			st := string(debug.Stack())
			if len(st) > 4000 {
				st = st[:4000]
			}
			d["stack"] = st
			if i := strings.IndexByte(txt, '\n'); i >= 0 {
				txt = txt[:i]
			}
			s.r.Violation(s.key(call)+"/panic", "panic: "+txt, d)
		}
	}()
	f()
	return true
}

func (s *c11pSess) note(format string, a ...any) {
	if len(s.hist) < 400 {
		s.hist = append(s.hist, fmt.Sprintf(format, a...))
	}
}

// nodeList builds a party's own copy of a node list.
func (s *c11pSess) nodeList(su c11pSuite, old bool) []dkgp.Node {
	var out []dkgp.Node
	for _, p := range s.parties {
		i := p.newIdx
		if old {
			i = p.oldIdx
		}
		if i < 0 {
			continue
		}
		out = append(out, dkgp.Node{Index: uint32(i), Public: c11pPointClone(su, p.pub)})
	}
	sort.Slice(out, func(a, b int) bool { return out[a].Index < out[b].Index })
	return out
}

func (s *c11pSess) oldMembers() []*c11pParty {
	var out []*c11pParty
	for _, p := range s.parties {
		if p.oldIdx >= 0 {
			out = append(out, p)
		}
	}
	sort.Slice(out, func(a, b int) bool { return out[a].oldIdx < out[b].oldIdx })
	return out
}

func (s *c11pSess) newMembers() []*c11pParty {
	var out []*c11pParty
	for _, p := range s.parties {
		if p.newIdx >= 0 {
			out = append(out, p)
		}
	}
	sort.Slice(out, func(a, b int) bool { return out[a].newIdx < out[b].newIdx })
	return out
}

func (s *c11pSess) byOld(i uint32) *c11pParty {
	for _, p := range s.parties {
		if p.oldIdx == int(i) {
			return p
		}
	}
	return nil
}

// setupOldSharing gives the old group a (oldT, oldN) sharing of a secret the harness knows:
// either built directly from a polynomial, or (chained) produced by a real all-honest DKG run.
func (s *c11pSess) setupOldSharing() {
	if !s.isReshare() {
		return
	}
	sh := s.scn.shape
	old := s.oldMembers()
	if s.scn.chained {
		sub := &c11pScn{shape: c11pShape{kind: "fresh", name: "fresh", oldT: sh.oldT, newT: sh.oldT}, fast: s.scn.fast, dv: s.scn.dv, origin: "chained-parent"}
		var keys []kyber.Scalar
		for k, p := range old {
			// sub-session party k sits at the old index of p
			sub.shape.members = append(sub.shape.members, [2]int{p.oldIdx, p.oldIdx})
			keys = append(keys, p.priv)
			_ = k
		}
		ss := c11pNewSess(s.r, "direct", sub, s.idx, gen.New(s.r.Seed, "c11p-chain/"+s.mode, s.idx), keys)
		ss.runDirect(nil)
		ok := true
		for k := range old {
			if ss.out[k].res == nil {
				ok = false
			}
		}
		if ok {
			for k, p := range old {
				p.oldShare = ss.out[k].res.Key
			}
			s.oldPub = c11pPointsClone(s.hs, old[0].oldShare.Commits)
			s.oldKey = s.oldPub[0]
			return
		}
		// the parent run is judged (and reported) on its own; fall back to a sharing built by the harness
		s.r.NoteAdd("chained_parent_dkg_incomplete", 1)
	}
	secret := s.hs.Scalar().Pick(s.rng.Stream())
	poly := share.NewPriPoly(s.hs, uint32(sh.oldT), secret, s.rng.Stream())
	_, commits := poly.Commit(s.hs.Point().Base()).Info()
	s.oldPub = commits
	s.oldKey = commits[0]
	for _, p := range old {
		p.oldShare = &dkgp.DistKeyShare{Commits: c11pPointsClone(s.hs, commits), Share: poly.Eval(uint32(p.oldIdx))}
	}
}

// config builds the kyber configuration of an honest party: own seeded suite, own copies.
func (s *c11pSess) config(p *c11pParty) *dkgp.Config {
	sh := s.scn.shape
	su := edwards25519.NewBlakeSHA256Ed25519WithRand(blake2xb.New(s.rng.Bytes(32)))
	c := &dkgp.Config{
		Suite:          su,
		Longterm:       c11pScalarClone(su, p.priv),
		NewNodes:       s.nodeList(su, false),
		Threshold:      uint32(sh.newT),
		Nonce:          c11pBytes(s.nonce),
		Auth:           schnorr.NewScheme(su),
		FastSync:       s.scn.fast,
		Reader:         blake2xb.New(s.rng.Bytes(32)),
		UserReaderOnly: true,
	}
	if s.isReshare() {
		c.OldNodes = s.nodeList(su, true)
		c.OldThreshold = uint32(sh.oldT)
		if p.oldShare != nil {
			c.Share = &dkgp.DistKeyShare{Commits: c11pPointsClone(su, p.oldShare.Commits),
				Share: &share.PriShare{I: p.oldShare.Share.I, V: c11pScalarClone(su, p.oldShare.Share.V)}}
		} else {
			c.PublicCoeffs = c11pPointsClone(su, s.oldPub)
		}
	}
	return c
}

// ---------------------------------------------------------------- Byzantine parties

func (s *c11pSess) sign(p *c11pParty, pk dkgp.Packet) []byte {
	h, err := pk.Hash()
	if err != nil {
		panic("harness: packet hash: " + err.Error())
	}
	sig, err := schnorr.Sign(s.hs, p.priv, h)
	if err != nil {
		panic("harness: sign: " + err.Error())
	}
	return sig
}

// honestHolders lists the honest members of the new group other than b, starting after b.
func (s *c11pSess) honestHolders(b *c11pParty) []*c11pParty {
	nm := s.newMembers()
	var out []*c11pParty
	start := 0
	for k, p := range nm {
		if p.id == b.id {
			start = k + 1
		}
	}
	for k := 0; k < len(nm); k++ {
		p := nm[(start+k)%len(nm)]
		if p.honest && p.id != b.id {
			out = append(out, p)
		}
	}
	return out
}

func (s *c11pSess) honestDealers(b *c11pParty) []*c11pParty {
	om := s.oldMembers()
	var out []*c11pParty
	start := 0
	for k, p := range om {
		if p.id == b.id {
			start = k + 1
		}
	}
	for k := 0; k < len(om); k++ {
		p := om[(start+k)%len(om)]
		if p.honest && p.id != b.id {
			out = append(out, p)
		}
	}
	return out
}

func c11pTargets(all []*c11pParty, which string) []*c11pParty {
	switch which {
	case "all":
		return all
	case "two":
		if len(all) > 2 {
			return all[:2]
		}
		return all
	}
	if len(all) > 1 {
		return all[:1]
	}
	return all
}

var c11pFarIndex = uint32(1 << 20)

// byzDeals builds the deal bundle(s) a Byzantine dealer broadcasts and fills the ledger.
func (s *c11pSess) byzDeals(b *c11pParty) []*dkgp.DealBundle {
	if b.oldIdx < 0 {
		return nil
	}
	f := b.fault
	holders := s.honestHolders(b)
	allBad := func(why string) {
		for _, h := range holders {
			s.dealBad[[2]int{b.id, h.id}] = why
		}
		s.mustOut[b.id] = why
		s.byzBadTo[b.id] = true
	}
	if f.kind == "absent" {
		allBad("absent dealer: no deal at all")
		return nil
	}
	sh := s.scn.shape
	mkPoly := func(wrongConst bool) *share.PriPoly {
		var secret kyber.Scalar
		if s.isReshare() {
			secret = c11pScalarClone(s.hs, b.oldShare.Share.V)
			if wrongConst {
				secret = s.hs.Scalar().Add(secret, s.hs.Scalar().One())
			}
		} else {
			secret = s.hs.Scalar().Pick(s.rng.Stream())
		}
		return share.NewPriPoly(s.hs, uint32(sh.newT), secret, s.rng.Stream())
	}
	targets := map[int]bool{}
	switch f.kind {
	case "deal-garbage", "deal-wrongshare", "deal-misdirected", "deal-missing", "deal-badplaintext", "deal-relabel-far", "deal-relabel-dup":
		for _, h := range c11pTargets(holders, f.target) {
			targets[h.id] = true
		}
	}
	// smallest index that no member of the new group has (in the middle for shapes with a gap)
	freeIdx := uint32(0)
	for used := true; used; {
		used = false
		for _, h := range s.newMembers() {
			if uint32(h.newIdx) == freeIdx {
				used = true
				freeIdx++
			}
		}
	}
	bogusDeal := func(idx uint32) dkgp.Deal {
		ct, _ := ecies.Encrypt(s.hs, b.pub, []byte("0123456789abcdef0123456789abcdef"), sha256.New)
		return dkgp.Deal{ShareIndex: idx, EncryptedShare: ct}
	}
	insertDeal := func(ds []dkgp.Deal, at int, d dkgp.Deal) []dkgp.Deal {
		out := append([]dkgp.Deal(nil), ds[:at]...)
		out = append(out, d)
		return append(out, ds[at:]...)
	}
	build := func(poly *share.PriPoly) *dkgp.DealBundle {
		_, commits := poly.Commit(s.hs.Point().Base()).Info()
		bundle := &dkgp.DealBundle{DealerIndex: uint32(b.oldIdx), Public: commits, SessionID: c11pBytes(s.nonce)}
		nm := s.newMembers()
		relabelAt := -1
		for k, h := range nm {
			if h.id == b.id {
				continue // like the honest code, no deal for itself
			}
			v := poly.Eval(uint32(h.newIdx)).V
			to := h.pub
			if targets[h.id] {
				switch f.kind {
				case "deal-missing":
					continue
				case "deal-garbage":
					bundle.Deals = append(bundle.Deals, dkgp.Deal{ShareIndex: uint32(h.newIdx), EncryptedShare: s.rng.Bytes(32 + 48)})
					continue
				case "deal-wrongshare":
					v = s.hs.Scalar().Add(v, s.hs.Scalar().One())
				case "deal-badplaintext":
					// properly encrypted for the holder, but the plaintext is not a scalar encoding
					ct, _ := ecies.Encrypt(s.hs, to, s.rng.Bytes(5), sha256.New)
					bundle.Deals = append(bundle.Deals, dkgp.Deal{ShareIndex: uint32(h.newIdx), EncryptedShare: ct})
					continue
				case "deal-misdirected":
					to = nm[(k+1)%len(nm)].pub
					if to.Equal(h.pub) {
						to = b.pub
					}
				}
			}
			msg, _ := v.MarshalBinary()
			ct, err := ecies.Encrypt(s.hs, to, msg, sha256.New)
			if err != nil {
				panic("harness: ecies: " + err.Error())
			}
			idx := uint32(h.newIdx)
			if targets[h.id] && f.kind == "deal-relabel-far" {
				idx = c11pFarIndex + 3 // the holder's (valid) deal carries an index nobody has
			}
			if targets[h.id] && f.kind == "deal-relabel-dup" {
				// the holder's deal carries the index of another honest holder, which then appears twice
				idx = c11pFarIndex + 3
				for _, o := range holders {
					if o.id != h.id {
						idx = uint32(o.newIdx)
						break
					}
				}
			}
			if idx != uint32(h.newIdx) {
				relabelAt = len(bundle.Deals)
			}
			bundle.Deals = append(bundle.Deals, dkgp.Deal{ShareIndex: idx, EncryptedShare: ct})
		}
		// edits of the bundle's internal structure
		nd := len(bundle.Deals)
		switch f.kind {
		case "deal-relabel-far", "deal-relabel-dup":
			// move the relabelled entry: keep | first | last
			at := relabelAt
			if at >= 0 && f.pos != "keep" && f.pos != "" {
				d := bundle.Deals[at]
				rest := append(append([]dkgp.Deal(nil), bundle.Deals[:at]...), bundle.Deals[at+1:]...)
				if f.pos == "first" {
					bundle.Deals = insertDeal(rest, 0, d)
				} else {
					bundle.Deals = insertDeal(rest, len(rest), d)
				}
			}
		case "deal-extra-far":
			switch f.pos {
			case "first":
				bundle.Deals = insertDeal(bundle.Deals, 0, bogusDeal(c11pFarIndex+uint32(s.rng.IntN(7))))
			case "mid":
				bundle.Deals = insertDeal(bundle.Deals, nd/2, bogusDeal(freeIdx))
			default:
				bundle.Deals = insertDeal(bundle.Deals, nd, bogusDeal(c11pFarIndex+uint32(s.rng.IntN(7))))
			}
		case "deal-order":
			if f.pos == "reversed" {
				for i, j := 0, nd-1; i < j; i, j = i+1, j-1 {
					bundle.Deals[i], bundle.Deals[j] = bundle.Deals[j], bundle.Deals[i]
				}
			} else if nd > 1 {
				bundle.Deals = append(append([]dkgp.Deal(nil), bundle.Deals[1:]...), bundle.Deals[0])
			}
		}
		return bundle
	}
	poly := mkPoly(f.kind == "reshare-wrongconst")
	b.polys = []*share.PriPoly{poly}
	bundle := build(poly)
	b.published = c11pPointClone(s.hs, bundle.Public[0])
	out := []*dkgp.DealBundle{bundle}
	unjustified := func() bool {
		switch f.just {
		case "nojust", "badjust", "sidjust", "partialjust", "otherholderjust":
			return true
		}
		return false
	}
	switch f.kind {
	case "deal-garbage", "deal-wrongshare", "deal-misdirected", "deal-missing", "deal-badplaintext", "deal-relabel-far", "deal-relabel-dup":
		tl := c11pTargets(holders, f.target)
		for _, h := range tl {
			s.dealBad[[2]int{b.id, h.id}] = f.kind
		}
		if unjustified() && (f.just != "partialjust" || len(tl) > 1) {
			s.mustOut[b.id] = fmt.Sprintf("%s to %d honest part(y/ies), justification policy %s", f.kind, len(tl), f.just)
		}
	case "reshare-wrongconst":
		for _, h := range holders {
			s.dealBad[[2]int{b.id, h.id}] = "consistent polynomial whose constant term is not the dealer's old share"
		}
		// no correct justification exists for such a deal
		s.mustOut[b.id] = "resharing deal with the wrong constant term"
		s.byzBadTo[b.id] = true
	case "deal-extra-far":
		s.byzBadTo[b.id] = true
	case "deal-publen-zero":
		bundle.Public = nil
		b.published = nil
		allBad("deal bundle without public polynomial")
	case "deal-ghost-dealer":
		// besides its own proper bundle, a second bundle in the name of a dealer index nobody has
		g := c11pCloneDeal(s.hs, bundle)
		g.DealerIndex = c11pFarIndex + 1
		out = append(out, g)
	case "deal-impersonate":
		// besides its own proper bundle, a bundle in the name of an honest dealer (signed with the own key)
		if vs := s.honestDealers(b); len(vs) > 0 {
			g := c11pCloneDeal(s.hs, bundle)
			g.DealerIndex = uint32(vs[0].oldIdx)
			out = append(out, g)
		}
	case "deal-equivocate-sid":
		// second bundle identical but for the session id
		g := c11pCloneDeal(s.hs, bundle)
		g.SessionID[len(g.SessionID)/2] ^= 0x01
		out = append(out, g)
		s.byzBadTo[b.id] = true
	case "deal-equivocate-cipher":
		// second bundle identical but for one deal's ciphertext (a fresh encryption of the same valid share)
		g := c11pCloneDeal(s.hs, bundle)
		for k := range g.Deals {
			if h := holders[0]; g.Deals[k].ShareIndex == uint32(h.newIdx) {
				msg, _ := poly.Eval(uint32(h.newIdx)).V.MarshalBinary()
				g.Deals[k].EncryptedShare, _ = ecies.Encrypt(s.hs, h.pub, msg, sha256.New)
			}
		}
		out = append(out, g)
		s.byzBadTo[b.id] = true
	case "deal-equivocate-public":
		// second bundle identical but for the last coefficient of the public polynomial
		g := c11pCloneDeal(s.hs, bundle)
		g.Public[len(g.Public)-1] = s.hs.Point().Pick(s.rng.Stream())
		out = append(out, g)
		b.published = nil
		s.byzBadTo[b.id] = true
	case "deal-publen-short":
		bundle.Public = bundle.Public[:len(bundle.Public)-1]
		allBad("public polynomial shorter than the threshold")
	case "deal-publen-long":
		bundle.Public = append(bundle.Public, s.hs.Point().Pick(s.rng.Stream()))
		allBad("public polynomial longer than the threshold")
	case "deal-sid":
		bundle.SessionID[s.rng.IntN(len(bundle.SessionID))] ^= 0x20
		allBad("deal bundle of another session id")
	case "deal-dup":
		out = append(out, c11pCloneDeal(s.hs, bundle))
		if s.mode == "direct" {
			s.byzBadTo[b.id] = true
		}
	case "deal-equivocate":
		p2 := mkPoly(false)
		b.polys = append(b.polys, p2)
		out = append(out, build(p2))
		b.published = nil
		s.byzBadTo[b.id] = true
	case "deal-badsig", "deal-late":
		allBad(f.kind + ": no authentic deal bundle arrives in the deal phase")
	}
	if f.kind == "deal-relabel-far" {
		s.byzBadTo[b.id] = true
	}
	for _, x := range out {
		x.Signature = s.sign(b, x)
	}
	if f.kind == "deal-dup" {
		out[1].Signature = c11pBytes(out[0].Signature)
	}
	if f.kind == "deal-badsig" {
		out[0].Signature[len(out[0].Signature)/2] ^= 0x08
	}
	return out
}

// byzResponses builds the response bundle(s) of a Byzantine share holder. Unless its fault says
// otherwise it answers like an honest node would (complaints about dealers that gave it nothing usable).
func (s *c11pSess) byzResponses(b *c11pParty) []*dkgp.ResponseBundle {
	if b.newIdx < 0 {
		return nil
	}
	f := b.fault
	if f.kind == "absent" || f.kind == "resp-absent" {
		return nil
	}
	base := func() []dkgp.Response {
		var rs []dkgp.Response
		for _, d := range s.oldMembers() {
			if d.id == b.id {
				if s.scn.fast {
					rs = append(rs, dkgp.Response{DealerIndex: uint32(d.oldIdx), Status: dkgp.Success})
				}
				continue
			}
			if !d.honest && s.byzBadTo[d.id] {
				rs = append(rs, dkgp.Response{DealerIndex: uint32(d.oldIdx), Status: dkgp.Complaint})
			} else if s.scn.fast {
				rs = append(rs, dkgp.Response{DealerIndex: uint32(d.oldIdx), Status: dkgp.Success})
			}
		}
		return rs
	}
	setStatus := func(rs []dkgp.Response, dealer int, st dkgp.Status) []dkgp.Response {
		for k := range rs {
			if rs[k].DealerIndex == uint32(dealer) {
				rs[k].Status = st
				return rs
			}
		}
		return append(rs, dkgp.Response{DealerIndex: uint32(dealer), Status: st})
	}
	mk := func(rs []dkgp.Response, sid []byte) *dkgp.ResponseBundle {
		return &dkgp.ResponseBundle{ShareIndex: uint32(b.newIdx), Responses: rs, SessionID: c11pBytes(sid)}
	}
	victims := c11pTargets(s.honestDealers(b), f.target)
	var out []*dkgp.ResponseBundle
	switch f.kind {
	case "resp-false-complaint":
		rs := base()
		for _, v := range victims {
			rs = setStatus(rs, v.oldIdx, dkgp.Complaint)
		}
		out = append(out, mk(rs, s.nonce))
	case "resp-baddealer":
		// a response naming a dealer nobody is, placed first / in the middle / last
		rs := base()
		if !s.scn.fast && len(victims) > 0 {
			rs = setStatus(rs, victims[0].oldIdx, dkgp.Complaint) // so that the list has a real entry to sit next to
		}
		bad := dkgp.Response{DealerIndex: c11pFarIndex + uint32(s.rng.IntN(7)), Status: dkgp.Complaint}
		at := len(rs)
		switch f.pos {
		case "first":
			at = 0
		case "mid":
			at = len(rs) / 2
		}
		rs = append(rs[:at:at], append([]dkgp.Response{bad}, rs[at:]...)...)
		out = append(out, mk(rs, s.nonce))
	case "resp-dupdealer":
		// two entries about the same honest dealer: complaint then success (cs) or success then complaint (sc)
		rs := base()
		if len(victims) > 0 {
			v := uint32(victims[0].oldIdx)
			var keep []dkgp.Response
			for _, x := range rs {
				if x.DealerIndex != v {
					keep = append(keep, x)
				}
			}
			a, c := dkgp.Response{DealerIndex: v, Status: dkgp.Complaint}, dkgp.Response{DealerIndex: v, Status: dkgp.Success}
			if f.pos == "sc" {
				a, c = c, a
			}
			rs = append(keep, a, c)
		}
		out = append(out, mk(rs, s.nonce))
	case "resp-order":
		rs := base()
		for _, v := range victims {
			rs = setStatus(rs, v.oldIdx, dkgp.Complaint)
		}
		for i, j := 0, len(rs)-1; i < j; i, j = i+1, j-1 {
			rs[i], rs[j] = rs[j], rs[i]
		}
		out = append(out, mk(rs, s.nonce))
	case "resp-ghost-holder":
		// besides the own proper answer, a bundle in the name of a share-holder index nobody has
		if rs := base(); len(rs) > 0 {
			out = append(out, mk(rs, s.nonce))
		}
		var rs []dkgp.Response
		for _, d := range s.honestDealers(b) {
			rs = append(rs, dkgp.Response{DealerIndex: uint32(d.oldIdx), Status: dkgp.Complaint})
		}
		g := mk(rs, s.nonce)
		g.ShareIndex = c11pFarIndex + 2
		out = append(out, g)
	case "resp-impersonate":
		// besides the own proper answer, complaints in the name of an honest share holder (signed with the own key)
		if rs := base(); len(rs) > 0 {
			out = append(out, mk(rs, s.nonce))
		}
		if hs := s.honestHolders(b); len(hs) > 0 {
			var rs []dkgp.Response
			for _, d := range s.honestDealers(b) {
				rs = append(rs, dkgp.Response{DealerIndex: uint32(d.oldIdx), Status: dkgp.Complaint})
			}
			g := mk(rs, s.nonce)
			g.ShareIndex = uint32(hs[0].newIdx)
			out = append(out, g)
		}
	case "just-impersonate":
		// a false complaint now, so that the justification phase happens; the forged justification comes later
		rs := base()
		for _, v := range victims {
			rs = setStatus(rs, v.oldIdx, dkgp.Complaint)
		}
		out = append(out, mk(rs, s.nonce))
	case "resp-equivocate-sid":
		// two bundles identical but for the session id
		rs := base()
		for _, v := range victims {
			rs = setStatus(rs, v.oldIdx, dkgp.Complaint)
		}
		sid := c11pBytes(s.nonce)
		sid[len(sid)/3] ^= 0x10
		out = append(out, mk(rs, s.nonce), mk(append([]dkgp.Response(nil), rs...), sid))
	case "resp-success-nonfast":
		rs := base()
		for _, d := range s.oldMembers() {
			if d.honest {
				rs = setStatus(rs, d.oldIdx, dkgp.Success)
			}
		}
		out = append(out, mk(rs, s.nonce))
	case "resp-sid":
		sid := c11pBytes(s.nonce)
		sid[s.rng.IntN(len(sid))] ^= 0x02
		out = append(out, mk(base(), sid))
	case "resp-dup":
		rs := base()
		for _, v := range victims {
			rs = setStatus(rs, v.oldIdx, dkgp.Complaint)
		}
		x := mk(rs, s.nonce)
		out = append(out, x, c11pCloneResp(x))
	case "resp-equivocate":
		rs := base()
		for _, v := range victims {
			rs = setStatus(rs, v.oldIdx, dkgp.Complaint)
		}
		out = append(out, mk(rs, s.nonce), mk(base(), s.nonce))
	default:
		rs := base()
		if len(rs) == 0 {
			return nil
		}
		out = append(out, mk(rs, s.nonce))
	}
	for _, x := range out {
		x.Signature = s.sign(b, x)
	}
	if f.kind == "resp-dup" {
		out[1].Signature = c11pBytes(out[0].Signature)
	}
	if f.kind == "resp-badsig" {
		out[0].Signature[len(out[0].Signature)/3] ^= 0x40
	}
	return out
}

// byzJustifs builds the justification bundle(s) of a Byzantine dealer given the share indices
// that complained about it in any response bundle that was broadcast.
func (s *c11pSess) byzJustifs(b *c11pParty, complainers []uint32) []*dkgp.JustificationBundle {
	f := b.fault
	if f.kind == "just-impersonate" {
		// a justification in the name of the honest dealer it complained about, revealing a wrong share
		vs := c11pTargets(s.honestDealers(b), f.target)
		hs := s.honestHolders(b)
		if len(vs) == 0 || len(hs) == 0 || b.newIdx < 0 {
			return nil
		}
		jb := &dkgp.JustificationBundle{DealerIndex: uint32(vs[0].oldIdx), SessionID: c11pBytes(s.nonce),
			Justifications: []dkgp.Justification{{ShareIndex: uint32(b.newIdx), Share: s.hs.Scalar().Pick(s.rng.Stream())}}}
		jb.Signature = s.sign(b, jb)
		return []*dkgp.JustificationBundle{jb}
	}
	if f.kind == "just-ghost-dealer" && b.oldIdx >= 0 {
		// a justification bundle in the name of a dealer index nobody has
		hs := s.honestHolders(b)
		if len(hs) == 0 {
			return nil
		}
		jb := &dkgp.JustificationBundle{DealerIndex: c11pFarIndex + 4, SessionID: c11pBytes(s.nonce),
			Justifications: []dkgp.Justification{{ShareIndex: uint32(hs[0].newIdx), Share: s.hs.Scalar().Pick(s.rng.Stream())}}}
		jb.Signature = s.sign(b, jb)
		return []*dkgp.JustificationBundle{jb}
	}
	if b.oldIdx < 0 || len(b.polys) == 0 || len(complainers) == 0 {
		return nil
	}
	policy := f.just
	switch f.kind {
	case "absent", "deal-publen-short", "deal-publen-long", "deal-publen-zero", "deal-sid", "deal-extra-far", "deal-relabel-far", "deal-badsig", "deal-late",
		"deal-equivocate", "deal-equivocate-sid", "deal-equivocate-cipher", "deal-equivocate-public":
		return nil
	}
	if policy == "" {
		policy = "just"
	}
	if policy == "nojust" {
		return nil
	}
	poly := b.polys[0]
	sort.Slice(complainers, func(i, j int) bool { return complainers[i] < complainers[j] })
	mk := func(idxs []uint32, delta bool, sid []byte) *dkgp.JustificationBundle {
		jb := &dkgp.JustificationBundle{DealerIndex: uint32(b.oldIdx), SessionID: c11pBytes(sid)}
		for _, i := range idxs {
			v := poly.Eval(i).V
			if delta {
				v = s.hs.Scalar().Add(v, s.hs.Scalar().One())
			}
			jb.Justifications = append(jb.Justifications, dkgp.Justification{ShareIndex: i, Share: v})
		}
		return jb
	}
	var out []*dkgp.JustificationBundle
	switch policy {
	case "just":
		out = append(out, mk(complainers, false, s.nonce))
	case "badjust":
		out = append(out, mk(complainers, true, s.nonce))
	case "dupjust":
		x := mk(complainers, false, s.nonce)
		out = append(out, x, c11pCloneJust(s.hs, x))
	case "equivocate-share":
		out = append(out, mk(complainers, false, s.nonce), mk(complainers, true, s.nonce))
	case "equivocate-sid":
		sid := c11pBytes(s.nonce)
		sid[7] ^= 0x04
		out = append(out, mk(complainers, false, s.nonce), mk(complainers, false, sid))
	case "otherholderjust":
		// reveals the valid share of a holder that did not complain instead of the complainer's
		var other []uint32
		for _, h := range s.newMembers() {
			isC := false
			for _, c := range complainers {
				if uint32(h.newIdx) == c {
					isC = true
				}
			}
			if !isC && h.id != b.id {
				other = append(other, uint32(h.newIdx))
			}
		}
		if len(other) == 0 {
			return nil
		}
		out = append(out, mk(other[:1], false, s.nonce))
	case "dupidxjust":
		// two entries for the same complainer: correct then wrong (cw) or wrong then correct (wc)
		x := mk(complainers[:1], false, s.nonce)
		y := mk(complainers[:1], true, s.nonce)
		if f.pos == "wc" {
			x, y = y, x
		}
		x.Justifications = append(x.Justifications, y.Justifications...)
		x.Justifications = append(x.Justifications, mk(complainers[1:], false, s.nonce).Justifications...)
		out = append(out, x)
	case "sidjust":
		sid := c11pBytes(s.nonce)
		sid[0] ^= 0x80
		out = append(out, mk(complainers, false, sid))
	case "partialjust":
		out = append(out, mk(complainers[:1], false, s.nonce))
	case "badidxjust":
		x := mk(complainers, false, s.nonce)
		bad := dkgp.Justification{ShareIndex: c11pFarIndex, Share: s.hs.Scalar().Pick(s.rng.Stream())}
		if f.pos == "first" {
			x.Justifications = append([]dkgp.Justification{bad}, x.Justifications...)
		} else {
			x.Justifications = append(x.Justifications, bad)
		}
		out = append(out, x)
	}
	for _, x := range out {
		x.Signature = s.sign(b, x)
	}
	if policy == "dupjust" {
		out[1].Signature = c11pBytes(out[0].Signature)
	}
	return out
}

// complainersOf extracts, from all broadcast response bundles, who complained about dealer index d.
func c11pComplainersOf(resps []*dkgp.ResponseBundle, d uint32) []uint32 {
	seen := map[uint32]bool{}
	var out []uint32
	for _, rb := range resps {
		for _, x := range rb.Responses {
			if x.DealerIndex == d && x.Status == dkgp.Complaint && !seen[rb.ShareIndex] {
				seen[rb.ShareIndex] = true
				out = append(out, rb.ShareIndex)
			}
		}
	}
	return out
}

// ---------------------------------------------------------------- delivery orders

// order returns the per-recipient delivery order of k broadcast messages of a phase: the
// identity for delivery variant 0, a seeded permutation otherwise; dup says which positions are
// delivered a second time (used where duplicates are part of the quantifier).
//
// groups[i] names the (Byzantine sender, packet type) of message i or is empty: when one sender
// broadcast two packets of a type (an equivocation pair or a rebroadcast), honest recipients of even
// and odd rank receive the two in opposite relative order, so that "seen in different orders by
// different nodes" holds in every such session and not only when the permutations happen to differ.
func (s *c11pSess) order(phase string, recipient, k int, allowDup bool, groups []string) []int {
	ord := make([]int, k)
	for i := range ord {
		ord[i] = i
	}
	if s.scn.dv > 0 && k > 0 {
		g := gen.New(s.r.Seed, fmt.Sprintf("c11p-order/%s/%s/%d/%d", s.mode, phase, s.scn.dv, recipient), s.idx)
		ord = g.Perm(k)
		if allowDup {
			nd := g.IntN(3)
			for d := 0; d < nd; d++ {
				x := ord[g.IntN(len(ord))]
				pos := g.IntN(len(ord) + 1)
				ord = append(ord[:pos], append([]int{x}, ord[pos:]...)...)
			}
		}
	}
	if s.scn.dv > 0 && len(groups) == k {
		rank := 0
		for _, p := range s.parties {
			if p.honest && p.id < recipient {
				rank++
			}
		}
		first := map[string]int{}
		done := map[string]bool{}
		for i, g := range groups {
			if g == "" || done[g] {
				continue
			}
			a, ok := first[g]
			if !ok {
				first[g] = i
				continue
			}
			done[g] = true
			// a < i are the two packets of the pair: first positions in the order
			pa, pb := -1, -1
			for pos, m := range ord {
				if m == a && pa < 0 {
					pa = pos
				}
				if m == i && pb < 0 {
					pb = pos
				}
			}
			wantAFirst := (rank+s.scn.dv)%2 == 0
			if pa >= 0 && pb >= 0 && (pa < pb) != wantAFirst {
				for pos, m := range ord {
					if m == a {
						ord[pos] = i
					} else if m == i {
						ord[pos] = a
					}
				}
			}
		}
	}
	if len(s.perms) < 64 {
		s.perms = append(s.perms, fmt.Sprintf("%s:%v", phase, ord))
	}
	return ord
}

// ---------------------------------------------------------------- the oracle

func (s *c11pSess) honestParties() []*c11pParty {
	var out []*c11pParty
	for _, p := range s.parties {
		if p.honest {
			out = append(out, p)
		}
	}
	return out
}

func c11pInQual(res *dkgp.Result, idx int, pub kyber.Point) bool {
	for _, n := range res.QUAL {
		if int(n.Index) == idx && n.Public.Equal(pub) {
			return true
		}
	}
	return false
}

func c11pQualKey(res *dkgp.Result) string {
	var q []string
	for _, n := range res.QUAL {
		q = append(q, fmt.Sprintf("%d:%s", n.Index, c11pHexPoint(n.Public)))
	}
	sort.Strings(q)
	return strings.Join(q, ",")
}

// evalCommit evaluates the commitment polynomial at share index i (x = i+1) by explicit power sums
// with scalars built from math/big residues.
func (s *c11pSess) evalCommit(commits []kyber.Point, i uint32) kyber.Point {
	x := big.NewInt(int64(i) + 1)
	pw := big.NewInt(1)
	acc := s.hs.Point().Null()
	for _, c := range commits {
		term := s.hs.Point().Mul(c11pBigScalar(s.hs, pw), c11pPointClone(s.hs, c))
		acc = s.hs.Point().Add(acc, term)
		pw = new(big.Int).Mul(pw, x)
		pw.Mod(pw, s.q)
	}
	return acc
}

// judge applies the oracle to the outcome of the session.
func (s *c11pSess) judge(st *c11pStats) {
	if st == nil {
		st = c11pNewStats() // sub-session (chained parent): judged, not counted in the evidence
	}
	sc := s.scn
	sh := sc.shape
	nontrivial := len(sc.faults) > 0 || sc.dv > 0 || s.isReshare()
	desc := sc.desc()
	honest := s.honestParties()
	var fin []*c11pParty
	for _, p := range honest {
		o := s.out[p.id]
		if o.res == nil {
			continue
		}
		if o.res.Key == nil || o.res.Key.Share == nil || o.res.Key.Share.V == nil || len(o.res.Key.Commits) == 0 {
			s.viol("result/malformed", "an honest party returned a result without key share or commitments", map[string]any{"party": p.id})
			continue
		}
		if p.newIdx < 0 {
			s.viol("result/leaving-node-has-share", "a party that is not in the new group returned a key share", map[string]any{"party": p.id})
			continue
		}
		fin = append(fin, p)
	}
	fc := sc.faultClass()

	// (1) agreement on the commitment polynomial (hence the public key) and on QUAL
	if len(fin) >= 2 {
		a := s.out[fin[0].id].res
		for _, p := range fin[1:] {
			b := s.out[p.id].res
			same := len(a.Key.Commits) == len(b.Key.Commits)
			if same {
				for k := range a.Key.Commits {
					if !a.Key.Commits[k].Equal(b.Key.Commits[k]) {
						same = false
					}
				}
			}
			s.r.Eval("agreement/commits", fmt.Sprintf("%s|%d|%d", desc, fin[0].id, p.id), nontrivial)
			if !same {
				what := "agreement/commitment-polynomial-differs"
				if !a.Key.Commits[0].Equal(b.Key.Commits[0]) {
					what = "agreement/public-key-differs"
				}
				s.viol(what+"/"+fc, "two honest parties that completed output different commitment polynomials / public keys", map[string]any{"party_a": fin[0].id, "party_b": p.id,
					"key_a": c11pHexPoint(a.Key.Commits[0]), "key_b": c11pHexPoint(b.Key.Commits[0])})
			}
			s.r.Eval("agreement/qual", fmt.Sprintf("%s|%d|%d", desc, fin[0].id, p.id), nontrivial)
			if c11pQualKey(a) != c11pQualKey(b) {
				s.viol("agreement/QUAL-differs/"+fc, "two honest parties that completed output different qualified sets", map[string]any{"party_a": fin[0].id, "party_b": p.id,
					"qual_a": c11pQualIdx(a), "qual_b": c11pQualIdx(b)})
			}
		}
	}

	// (2) every honest output share lies on the polynomial the party output
	for _, p := range fin {
		res := s.out[p.id].res
		s.r.Eval("share-on-polynomial", fmt.Sprintf("%s|%d", desc, p.id), nontrivial)
		if int(res.Key.Share.I) != p.newIdx {
			s.viol("share/wrong-index", "the output share does not carry the party's index in the new group", map[string]any{"party": p.id, "share_index": res.Key.Share.I})
			continue
		}
		want := s.evalCommit(res.Key.Commits, res.Key.Share.I)
		got := s.hs.Point().Mul(c11pScalarClone(s.hs, res.Key.Share.V), nil)
		lib := share.NewPubPoly(s.hs, s.hs.Point().Base(), c11pPointsClone(s.hs, res.Key.Commits)).Check(&share.PriShare{I: res.Key.Share.I, V: c11pScalarClone(s.hs, res.Key.Share.V)})
		if !want.Equal(got) || !lib {
			s.viol("share/not-on-polynomial/"+fc, "an honest party's output share does not lie on its output commitment polynomial", map[string]any{"party": p.id,
				"share": c11pHexScalar(res.Key.Share.V), "reference_check": want.Equal(got), "PubPoly.Check": lib})
		}
	}

	// (3) any t honest shares reconstruct a secret matching the public key
	t := sh.newT
	if len(fin) >= t {
		subsets := gen.Subsets(len(fin), t)
		if len(subsets) > 8 {
			g := gen.New(s.r.Seed, "c11p-subsets/"+s.mode, s.idx)
			pm := g.Perm(len(subsets))
			var pick [][]int
			for _, k := range pm[:8] {
				pick = append(pick, subsets[k])
			}
			subsets = pick
		}
		for _, sub := range subsets {
			var xs []int64
			var ys []*big.Int
			var shs []*share.PriShare
			var ids []int
			for _, k := range sub {
				p := fin[k]
				res := s.out[p.id].res
				xs = append(xs, int64(res.Key.Share.I)+1)
				ys = append(ys, c11pScalarBig(res.Key.Share.V))
				shs = append(shs, &share.PriShare{I: res.Key.Share.I, V: c11pScalarClone(s.hs, res.Key.Share.V)})
				ids = append(ids, p.id)
			}
			sec := ref.LagrangeAtZero(s.q, xs, ys)
			pk := s.hs.Point().Mul(c11pBigScalar(s.hs, sec), nil)
			key := s.out[fin[sub[0]].id].res.Key.Commits[0]
			s.r.Eval("t-recovery", fmt.Sprintf("%s|%v", desc, ids), nontrivial)
			if !pk.Equal(key) {
				s.viol("recovery/secret-does-not-match-public-key/"+fc, "t honest output shares interpolate (reference Lagrange) to a secret whose public key is not Commits[0]", map[string]any{"parties": ids, "t": t})
			}
			var ls kyber.Scalar
			var lerr error
			if s.guard("share.RecoverSecret", map[string]any{"parties": ids}, func() { ls, lerr = share.RecoverSecret(s.hs, shs, uint32(t), uint32(sh.newN())) }) {
				if lerr != nil || c11pScalarBig(ls).Cmp(sec) != 0 {
					s.viol("recovery/share.RecoverSecret-disagrees-with-reference", fmt.Sprintf("share.RecoverSecret on t honest output shares differs from the reference interpolation (err=%v)", lerr), map[string]any{"parties": ids})
				}
			}
		}
	}

	// (4) the key is the sum of the qualified dealers' contributions / unchanged by resharing
	if len(fin) >= 1 {
		res := s.out[fin[0].id].res
		if s.isReshare() {
			s.r.Eval("key/unchanged-by-resharing", desc, nontrivial)
			if !res.Key.Commits[0].Equal(s.oldKey) {
				s.viol("key/changed-by-resharing/"+fc, "the public key after resharing differs from the public key of the old sharing", map[string]any{"party": fin[0].id,
					"old_key": c11pHexPoint(s.oldKey), "new_key": c11pHexPoint(res.Key.Commits[0])})
			}
		} else {
			sum := s.hs.Point().Null()
			known := true
			for _, n := range res.QUAL {
				d := s.byOld(n.Index)
				if d == nil || d.published == nil {
					known = false
					break
				}
				sum = s.hs.Point().Add(sum, d.published)
			}
			if known {
				s.r.Eval("key/sum-of-QUAL-contributions", desc, nontrivial)
				if !sum.Equal(res.Key.Commits[0]) {
					s.viol("key/not-sum-of-QUAL-contributions/"+fc, "the public key is not the sum of the constant commitments published by the dealers in QUAL", map[string]any{"party": fin[0].id, "qual": c11pQualIdx(res)})
				}
			} else {
				s.r.NoteAdd("key_sum_skipped_ambiguous_contribution", 1)
			}
		}
	}

	// (5) a dealer whose invalid deal to an honest party stays unjustified is disqualified
	for _, b := range s.parties {
		why, ok := s.mustOut[b.id]
		if b.honest || !ok {
			continue
		}
		idx := b.newIdx // resharing: QUAL lists members of the new group
		if !s.isReshare() {
			idx = b.oldIdx
		}
		if idx < 0 {
			continue
		}
		for _, p := range fin {
			s.r.Eval("disqualification/"+b.fault.kind, fmt.Sprintf("%s|%d|%d", desc, b.id, p.id), true)
			if c11pInQual(s.out[p.id].res, idx, b.pub) {
				s.viol("disqualification/unjustified-dealer-in-QUAL/"+b.fault.label(), "a dealer whose invalid deal to an honest party stayed unjustified is in QUAL of an honest party ("+why+")", map[string]any{"dealer": b.id, "observer": p.id})
			}
		}
	}

	// (6) an honest dealer receiving fewer than t complaints is qualified (at most n-t < t parties are faulty)
	for _, d := range honest {
		if d.oldIdx < 0 {
			continue
		}
		idx := d.newIdx
		if !s.isReshare() {
			idx = d.oldIdx
		}
		if idx < 0 {
			continue // a leaving dealer is not listed in the QUAL of a resharing
		}
		for _, p := range fin {
			s.r.Eval("qualification/honest-dealer", fmt.Sprintf("%s|%d|%d", desc, d.id, p.id), nontrivial)
			if !c11pInQual(s.out[p.id].res, idx, d.pub) {
				s.viol("qualification/honest-dealer-not-in-QUAL/"+fc, "an honest dealer (fewer than t complaints are possible) is missing from the QUAL of an honest party", map[string]any{"dealer": d.id, "observer": p.id, "qual": c11pQualIdx(s.out[p.id].res)})
			}
		}
	}
	for _, p := range honest {
		if o := s.out[p.id]; o.err != nil && errors.Is(o.err, dkgp.ErrEvicted) {
			s.r.Eval("honest-node-evicted", fmt.Sprintf("%s|%d", desc, p.id), true)
			s.viol("qualification/honest-party-told-it-is-evicted/"+fc, "an honest party stopped with ErrEvicted although fewer than t parties are faulty", map[string]any{"party": p.id, "stage": o.stage})
		}
	}

	// (7) when everyone is honest, everyone completes (within the fixed number of protocol steps)
	if len(sc.faults) == 0 {
		for _, p := range honest {
			o := s.out[p.id]
			s.r.Eval("completion/"+p.role(), fmt.Sprintf("%s|%d", desc, p.id), nontrivial)
			if p.newIdx >= 0 {
				if o.res == nil {
					s.viol("all-honest/"+p.role()+"-node-no-result", fmt.Sprintf("everyone is honest, yet a member of the new group did not obtain a result (stage %s, error %v)", o.stage, o.err), map[string]any{"party": p.id})
				}
			} else if o.stage == "Protocol.Start" {
				s.viol("all-honest/leaving-node-WaitEnd-never-fires", "everyone is honest, yet the Protocol of a node of the old group that leaves ends without ever reporting through WaitEnd(): "+fmt.Sprint(o.err), map[string]any{"party": p.id, "fast": sc.fast})
			} else if o.err != nil || !o.done {
				s.viol("all-honest/leaving-node-error", fmt.Sprintf("everyone is honest, yet a node of the old group that leaves cannot complete: %s returns %q", o.stage, fmt.Sprint(o.err)), map[string]any{"party": p.id, "fast": sc.fast})
			}
		}
	}

	// evidence
	var mats []string
	allFin := true
	for _, p := range honest {
		o := s.out[p.id]
		if o.snap != nil {
			mats = append(mats, fmt.Sprintf("%d|%d|%s|%v|%v", p.id, o.snap.Phase, o.snap.Status, o.snap.Evicted, o.snap.EvictedHolders))
		}
		if p.newIdx >= 0 && o.res == nil {
			allFin = false
		}
	}
	oc := fmt.Sprintf("%s/%s/honest-results=%d-of-%d", sh.kind, map[bool]string{true: "faulty", false: "all-honest"}[len(sc.faults) > 0], len(fin), len(s.holdersHonest()))
	st.mu.Lock()
	st.sessions++
	if len(fin) >= 2 {
		st.finished++
	}
	if allFin {
		st.allFin++
	}
	st.assign[fmt.Sprintf("%s|%v|%v", sh.String(), sc.fast, sc.faultList())] = struct{}{}
	for _, pm := range s.perms {
		st.perms[pm] = struct{}{}
	}
	if len(mats) > 0 {
		h := sha256.Sum256([]byte(strings.Join(mats, "\n")))
		st.matrices[string(h[:8])] = struct{}{}
	}
	st.outcomes[oc]++
	for _, p := range honest {
		if o := s.out[p.id]; o.err != nil {
			st.errs[o.stage+": "+c11pErrClass(o.err)]++
		}
	}
	st.mu.Unlock()
	if s.inconcl != "" {
		s.r.Inconclusive(s.inconcl + " :: " + desc)
	}
	tag := sh.kind + "/" + sh.name + "/" + fc
	if len(fin) == 0 && len(s.holdersHonest()) > 0 {
		st.mu.Lock()
		if len(st.aborts) < 400 || st.aborts[tag] > 0 {
			st.aborts[tag]++
		}
		st.mu.Unlock()
	}
	if _, dup := st.sampled.LoadOrStore(tag, true); dup {
		return
	}
	s.r.SampleClass("c11p:"+s.mode+":"+tag, map[string]any{"mode": s.mode, "scenario": desc, "outcomes": s.outcomeStrings(), "ledger_must_be_disqualified": s.mustOut, "history": s.hist})
}

func (s *c11pSess) holdersHonest() []*c11pParty {
	var out []*c11pParty
	for _, p := range s.parties {
		if p.honest && p.newIdx >= 0 {
			out = append(out, p)
		}
	}
	return out
}

// c11pErrClass strips numbers from an error text so that it can serve as a histogram key.
func c11pErrClass(err error) string {
	s := err.Error()
	var b strings.Builder
	for _, c := range s {
		if c >= '0' && c <= '9' {
			c = '#'
		}
		b.WriteRune(c)
	}
	out := b.String()
	if len(out) > 100 {
		out = out[:100]
	}
	return out
}
