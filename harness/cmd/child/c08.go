package main

// C08 — Schnorr, EdDSA and ring signatures accept exactly honest signatures.
//
// Four workloads, all judged per observed call:
//   schnorr : every group with a base point; honest sign/verify, bit flips of
//             signature/message/key, structured mutations, classified by a
//             semantic-equality decoder (c08Grp.classPoint / residue of S);
//   eddsa   : byte identity with crypto/ed25519, determinism, the same mutation
//             corpus plus crafted equation-valid forgeries (small-order key,
//             small-order R, mixed-order key); kyber-accept => std-accept;
//   pred    : IsCanonical / HasSmallOrder predicates against the big.Int model;
//   ring    : sign/anon over 5 suites, ring sizes 1..8, every signer index,
//             unlinkable and linkable; mutation matrix; tag linkage relations.

import (
	"bytes"
	"crypto/cipher"
	"crypto/ed25519"
	"crypto/elliptic"
	"fmt"
	"math/big"
	"sort"
	"strings"
	"sync"
	"sync/atomic"

	"go.dedis.ch/kyber/v4"
	"go.dedis.ch/kyber/v4/sign/eddsa"
	"go.dedis.ch/kyber/v4/sign/schnorr"

	"verif/internal/gen"
	"verif/internal/groups"
	"verif/internal/mon"
	"verif/internal/ref"
)

func init() { register("C08", c08) }

const (
	c08Accept = iota // the call must succeed
	c08Reject        // the call must return an error
	c08Free          // the property states nothing: verdict is only recorded
)

// c08Out is the observed outcome of one verification call.
type c08Out struct {
	accepted bool
	err      string
	panicked bool
	pmsg     string
}

func c08Run(f func() error) (o c08Out) {
	defer func() {
		if e := recover(); e != nil {
			o = c08Out{panicked: true, pmsg: fmt.Sprint(e)}
		}
	}()
	if err := f(); err != nil {
		o.err = err.Error()
	} else {
		o.accepted = true
	}
	return
}

func c08Short(s string) string {
	if i := strings.IndexByte(s, '\n'); i >= 0 {
		s = s[:i]
	}
	if len(s) > 200 {
		s = s[:200]
	}
	return s
}

// Counters are accumulated lock-free and flushed into the recorder at the end
// (a mutex round-trip per judgement on 16 workers serialises the run).
var (
	c08Notes   sync.Map // string -> *atomic.Int64
	c08Sampled sync.Map // string -> bool
)

func c08NoteAdd(k string, d int64) {
	v, ok := c08Notes.Load(k)
	if !ok {
		v, _ = c08Notes.LoadOrStore(k, new(atomic.Int64))
	}
	v.(*atomic.Int64).Add(d)
}

func c08Sample(r *mon.R, tag string, f func() any) {
	if _, loaded := c08Sampled.LoadOrStore(tag, true); !loaded {
		r.SampleClass(tag, f())
	}
}

// c08Judge records one accept/reject judgement. where = group or suite,
// entry = API entry point, class = input class (stable), desc = case descriptor.
func c08Judge(r *mon.R, where, entry, class, desc string, nontrivial bool, demand int, o c08Out, wit func() map[string]any) {
	r.Eval(entry+"/"+class, where+"|"+desc, nontrivial)
	c08NoteAdd("evals/"+where, 1)
	key := "C08/" + where + "/" + entry + "/" + class
	mk := func(extra string) map[string]any {
		d := wit()
		d["where"], d["entry"], d["class"], d["case"] = where, entry, class, desc
		if extra != "" {
			d["observed"] = extra
		}
		return d
	}
	if o.panicked {
		r.Violation(key+"/panic", "panic instead of an error/nil verdict: "+c08Short(o.pmsg), mk("panic: "+o.pmsg))
		return
	}
	switch demand {
	case c08Accept:
		if !o.accepted {
			r.Violation(key+"/rejected", "honest input rejected: "+c08Short(o.err), mk("error: "+o.err))
		}
	case c08Reject:
		if o.accepted {
			r.Violation(key+"/accepted", "input that must be rejected was accepted ("+class+")", mk("accepted"))
		}
	default:
		if o.accepted {
			c08NoteAdd("free-accepted/"+where+"/"+entry+"/"+class, 1)
		} else {
			c08NoteAdd("free-rejected/"+where+"/"+entry+"/"+class, 1)
		}
	}
}

// c08Check records one equality-style judgement.
func c08Check(r *mon.R, where, entry, class, desc string, ok bool, wit func() map[string]any) {
	r.Eval(entry+"/"+class, where+"|"+desc, true)
	c08NoteAdd("evals/"+where, 1)
	if !ok {
		d := wit()
		d["where"], d["entry"], d["class"], d["case"] = where, entry, class, desc
		r.Violation("C08/"+where+"/"+entry+"/"+class+"/mismatch", "relation violated: "+class, d)
	}
}

// ---------------------------------------------------------------------------
// group description + semantic-equality classifier

type c08Grp struct {
	name   string
	grp    kyber.Group
	q      *big.Int
	isEd   bool // Ed25519 curve: classify with the big.Int model
	strict bool // group/edwards25519: canonicity and small-order demands of the property apply
	vt     bool
	pLen   int
	sLen   int
	le     bool
}

func c08NewGrp(name string, grp kyber.Group, vt bool) *c08Grp {
	g := &c08Grp{name: name, grp: grp, vt: vt}
	g.q = new(big.Int).Set(grp.Scalar().GroupOrder().ToBigInt())
	g.isEd = name == "ed25519" || name == "ed25519-vt" || name == "edvartime"
	g.strict = name == "ed25519" || name == "ed25519-vt"
	g.pLen = grp.Point().MarshalSize()
	g.sLen = grp.Scalar().MarshalSize()
	g.le = grp.Scalar().ByteOrder() == kyber.LittleEndian
	return g
}

func (g *c08Grp) point() kyber.Point {
	p := g.grp.Point()
	if g.vt {
		if v, ok := p.(kyber.AllowsVarTime); ok {
			v.AllowVarTime(true)
		}
	}
	return p
}

// scalarInt interprets a scalar encoding as an integer in the declared byte order.
func (g *c08Grp) scalarInt(b []byte) *big.Int {
	if g.le {
		return ref.C08LEToBig(b)
	}
	return new(big.Int).SetBytes(b)
}

func (g *c08Grp) scalarBytes(x *big.Int) []byte {
	if g.le {
		return ref.C08BigToLE(x, g.sLen)
	}
	b := make([]byte, g.sLen)
	x.FillBytes(b)
	return b
}

func (g *c08Grp) scalarFromBig(x *big.Int) kyber.Scalar {
	v := new(big.Int).Mod(x, g.q)
	s := g.grp.Scalar()
	if v.Sign() == 0 {
		return s.Zero()
	}
	if err := s.UnmarshalBinary(g.scalarBytes(v)); err != nil {
		panic("harness: cannot build scalar: " + err.Error())
	}
	return s
}

// classScalar: "same" (identical bytes), "alias" (same residue, other bytes),
// "different" (other residue).
func (g *c08Grp) classScalar(orig, mut []byte) string {
	if bytes.Equal(orig, mut) {
		return "same"
	}
	if len(mut) != len(orig) {
		return "different"
	}
	a := new(big.Int).Mod(g.scalarInt(orig), g.q)
	b := new(big.Int).Mod(g.scalarInt(mut), g.q)
	if a.Cmp(b) == 0 {
		return "alias"
	}
	return "different"
}

// classPoint classifies a mutated point encoding against the original one.
// Returns one of same / alias / different / undecodable and, on the Ed25519
// curve, flags (noncanonical-y, xzero-sign, small-order) of the mutated encoding.
func (g *c08Grp) classPoint(orig, mut []byte) (cls string, flags []string) {
	if g.isEd {
		if len(mut) != 32 {
			return "undecodable", nil
		}
		d := ref.C08EdDecode(mut)
		if !d.OnCurve {
			return "undecodable", nil
		}
		if !d.CanonicalY {
			flags = append(flags, "noncanonical-y")
		}
		if d.XZeroSign {
			flags = append(flags, "xzero-sign")
		}
		if ref.C08EdSmallOrder(d.P) {
			flags = append(flags, "small-order")
		}
		if bytes.Equal(orig, mut) {
			return "same", flags
		}
		o := ref.C08EdDecode(orig)
		if o.OnCurve && ref.C08EdEqual(o.P, d.P) {
			return "alias", flags
		}
		return "different", flags
	}
	if bytes.Equal(orig, mut) {
		return "same", nil
	}
	if g.name == "p256" && len(mut) == 65 && mut[0] == 4 {
		// independent membership test: kyber's decoder is not trusted for it
		c := elliptic.P256().Params()
		x, y := new(big.Int).SetBytes(mut[1:33]), new(big.Int).SetBytes(mut[33:])
		if x.Cmp(c.P) >= 0 || y.Cmp(c.P) >= 0 {
			return "undecodable", []string{"coordinate>=p"}
		}
		l := new(big.Int).Mul(y, y)
		l.Mod(l, c.P)
		rh := new(big.Int).Mul(x, x)
		rh.Mul(rh, x)
		rh.Sub(rh, new(big.Int).Mul(big.NewInt(3), x))
		rh.Add(rh, c.B)
		rh.Mod(rh, c.P)
		if l.Cmp(rh) != 0 {
			return "undecodable", []string{"off-curve"}
		}
	}
	var eq bool
	var derr error
	if pm, p := mon.Try(func() {
		m := g.point()
		if derr = m.UnmarshalBinary(mut); derr != nil {
			return
		}
		o := g.point()
		if err := o.UnmarshalBinary(orig); err != nil {
			panic("harness: original encoding does not decode: " + err.Error())
		}
		eq = m.Equal(o) && o.Equal(m)
	}); p {
		return "undecodable", []string{"decoder-panic: " + c08Short(pm)}
	}
	if derr != nil {
		return "undecodable", nil
	}
	if eq {
		return "alias", nil
	}
	return "different", nil
}

// ---------------------------------------------------------------------------
// Schnorr-style case (R||S signature, key bytes, message) and its classifier

type c08Case struct {
	class  string // stable input class
	pos    string // position / variant inside the class (descriptor only)
	pub    []byte
	msg    []byte
	sig    []byte
	demand int    // -1: to be classified
	why    string // classification reason
}

// classify decides what the property demands for a mutated triple.
func (g *c08Grp) classify(pub0, msg0, sig0 []byte, c *c08Case) {
	if c.demand >= 0 {
		return
	}
	var why []string
	reject, alias := false, false
	if !bytes.Equal(c.msg, msg0) {
		reject = true
		why = append(why, "message differs")
	}
	if len(c.sig) != len(sig0) {
		if len(c.sig) > len(sig0) && bytes.Equal(c.sig[:len(sig0)], sig0) {
			alias = true
			why = append(why, "trailing bytes")
		} else {
			reject = true
			why = append(why, "signature length/fields differ")
		}
	} else {
		rc, rf := g.classPoint(sig0[:g.pLen], c.sig[:g.pLen])
		why = append(why, "R:"+rc+fmt.Sprint(rf))
		switch rc {
		case "different", "undecodable":
			reject = true
		case "alias":
			alias = true
		}
		if g.strict && len(rf) > 0 {
			reject = true
		}
		sc := g.classScalar(sig0[g.pLen:], c.sig[g.pLen:])
		why = append(why, "S:"+sc)
		switch sc {
		case "different":
			reject = true
		case "alias":
			alias = true
		}
	}
	ac, af := g.classPoint(pub0, c.pub)
	why = append(why, "A:"+ac+fmt.Sprint(af))
	switch ac {
	case "different", "undecodable":
		reject = true
	case "alias":
		alias = true
	}
	if g.strict && len(af) > 0 {
		reject = true
	}
	if alias && g.strict {
		reject = true
	}
	c.why = strings.Join(why, " ")
	switch {
	case reject:
		c.demand = c08Reject
	case alias:
		c.demand = c08Free
	default:
		c.demand = -2 // no-op mutation: skip
	}
}

func c08Clone(b []byte) []byte { return append([]byte(nil), b...) }

func c08Cat(a, b []byte) []byte { return append(c08Clone(a), b...) }

// c08BitPositions returns the bit positions to flip in a field of nbits bits:
// all of them when all is set, else n positions: the two lowest and two highest
// bits of the field, the top bits of its first byte, and random ones.
func c08BitPositions(rng *gen.Rng, nbits, n int, all bool) []int {
	if all || n >= nbits {
		out := make([]int, nbits)
		for i := range out {
			out[i] = i
		}
		return out
	}
	seen := map[int]bool{}
	var out []int
	add := func(i int) {
		if i >= 0 && i < nbits && !seen[i] && len(out) < n {
			seen[i] = true
			out = append(out, i)
		}
	}
	for _, i := range []int{0, nbits - 1, 7, nbits - 8, 1, nbits - 2, 6} {
		add(i)
	}
	for len(out) < n {
		add(rng.IntN(nbits))
	}
	return out
}

// c08RandBits returns up to k distinct random positions in [0,nbits).
func c08RandBits(rng *gen.Rng, nbits, k int) []int {
	if k > nbits {
		k = nbits
	}
	seen := map[int]bool{}
	var out []int
	for len(out) < k {
		if i := rng.IntN(nbits); !seen[i] {
			seen[i] = true
			out = append(out, i)
		}
	}
	return out
}

var c08Lens = []int{0, 1, 2, 31, 32, 33, 55, 56, 63, 64, 65, 111, 112, 113, 127, 128, 129, 255, 256, 1023, 1024, 4095, 4096}

func c08MsgLen(rng *gen.Rng, idx int) int {
	if idx < len(c08Lens) {
		return c08Lens[idx]
	}
	if rng.IntN(3) == 0 {
		return rng.IntN(4097)
	}
	return rng.IntN(200)
}

// c08GenericCases builds the group-independent mutation corpus.
func (g *c08Grp) c08GenericCases(rng *gen.Rng, pub0, msg0, sig0 []byte, otherPub []byte, nSig, nMsg, nKey int, all bool) []*c08Case {
	var cs []*c08Case
	add := func(class, pos string, pub, msg, sig []byte) {
		cs = append(cs, &c08Case{class: class, pos: pos, pub: pub, msg: msg, sig: sig, demand: -1})
	}
	// signature bits: R part and S part sampled separately
	for _, b := range c08BitPositions(rng, 8*g.pLen, nSig/2, all && g.pLen <= 64) {
		add("sig-bitflip-R", fmt.Sprint(b), pub0, msg0, gen.FlipBit(sig0, b))
	}
	for _, b := range c08BitPositions(rng, 8*g.sLen, nSig/2, all && g.sLen <= 64) {
		add("sig-bitflip-S", fmt.Sprint(b), pub0, msg0, gen.FlipBit(sig0, 8*g.pLen+b))
	}
	// message
	if len(msg0) > 0 {
		for _, b := range c08BitPositions(rng, 8*len(msg0), nMsg, all && len(msg0) <= 64) {
			add("msg-bitflip", fmt.Sprint(b), pub0, gen.FlipBit(msg0, b), sig0)
		}
		add("msg-truncate", "last", pub0, c08Clone(msg0[:len(msg0)-1]), sig0)
		add("msg-truncate", "first", pub0, c08Clone(msg0[1:]), sig0)
	}
	add("msg-extend", "zero", pub0, c08Cat(msg0, []byte{0}), sig0)
	add("msg-extend", "prefix", pub0, c08Cat([]byte{c08FlipFirst(msg0)}, msg0), sig0)
	// key
	for _, b := range c08BitPositions(rng, 8*len(pub0), nKey, all && len(pub0) <= 64) {
		add("key-bitflip", fmt.Sprint(b), gen.FlipBit(pub0, b), msg0, sig0)
	}
	add("key-other", "", otherPub, msg0, sig0)
	add("key-truncated", "", c08Clone(pub0[:len(pub0)-1]), msg0, sig0)
	// structured
	S := g.scalarInt(sig0[g.pLen:])
	lim := new(big.Int).Lsh(big.NewInt(1), uint(8*g.sLen))
	for k := int64(1); k <= 16; k++ {
		v := new(big.Int).Add(S, new(big.Int).Mul(big.NewInt(k), g.q))
		if v.Cmp(lim) >= 0 {
			break
		}
		add("sig-S+kq", fmt.Sprint(k), pub0, msg0, c08Cat(sig0[:g.pLen], g.scalarBytes(v)))
		if k >= 2 && !all {
			break
		}
	}
	negS := new(big.Int).Sub(g.q, new(big.Int).Mod(S, g.q))
	negS.Mod(negS, g.q)
	add("sig-S-negated", "", pub0, msg0, c08Cat(sig0[:g.pLen], g.scalarBytes(negS)))
	add("sig-S-zero", "", pub0, msg0, c08Cat(sig0[:g.pLen], make([]byte, g.sLen)))
	add("sig-S+1", "", pub0, msg0, c08Cat(sig0[:g.pLen], g.scalarBytes(new(big.Int).Mod(new(big.Int).Add(S, big.NewInt(1)), g.q))))
	add("sig-len", "-1", pub0, msg0, c08Clone(sig0[:len(sig0)-1]))
	add("sig-len", "+1", pub0, msg0, c08Cat(sig0, []byte{0}))
	add("sig-len", "empty", pub0, msg0, []byte{})
	add("sig-len", "R-only", pub0, msg0, c08Clone(sig0[:g.pLen]))
	// R replaced by the key, by the generator, by the neutral element
	add("sig-R=A", "", pub0, msg0, c08Cat(pub0, sig0[g.pLen:]))
	func() {
		defer func() { _ = recover() }()
		add("sig-R=neutral", "", pub0, msg0, c08Cat(groups.Enc(g.point().Null()), sig0[g.pLen:]))
		add("sig-R=base", "", pub0, msg0, c08Cat(groups.Enc(g.point().Base()), sig0[g.pLen:]))
		Rp := g.point()
		if err := Rp.UnmarshalBinary(sig0[:g.pLen]); err == nil {
			add("sig-R-negated", "", pub0, msg0, c08Cat(groups.Enc(g.point().Neg(Rp)), sig0[g.pLen:]))
		}
		Ap := g.point()
		if err := Ap.UnmarshalBinary(pub0); err == nil {
			add("key-negated", "", groups.Enc(g.point().Neg(Ap)), msg0, sig0)
		}
		add("key-neutral", "", groups.Enc(g.point().Null()), msg0, sig0)
	}()
	return cs
}

func c08FlipFirst(m []byte) byte {
	if len(m) == 0 {
		return 0x55
	}
	return m[0] ^ 0xff
}

// ---------------------------------------------------------------------------
// Schnorr

type c08SchnorrSuite struct {
	kyber.Group
	g  *c08Grp
	rs cipher.Stream
}

func (s *c08SchnorrSuite) RandomStream() cipher.Stream { return s.rs }
func (s *c08SchnorrSuite) Point() kyber.Point          { return s.g.point() }

func c08Wit(g *c08Grp, idx int, c *c08Case, pub0, msg0, sig0 []byte) func() map[string]any {
	return func() map[string]any {
		return map[string]any{"group": g.name, "job": idx, "variant": c.pos, "classification": c.why,
			"pub": mon.Hex(c.pub), "msg": mon.Hex(c.msg), "sig": mon.Hex(c.sig),
			"honest_pub": mon.Hex(pub0), "honest_msg": mon.Hex(msg0), "honest_sig": mon.Hex(sig0)}
	}
}

func c08SchnorrJob(r *mon.R, g *c08Grp, idx int, heavy bool) {
	rng := gen.New(r.Seed, "C08schnorr/"+g.name, idx)
	suite := &c08SchnorrSuite{Group: g.grp, g: g, rs: rng.Stream()}
	edge := gen.Edge(g.q)
	xb := rng.EdgeOrRandom(edge, g.q, 48)
	for xb.Sign() == 0 {
		xb = rng.Big(g.q)
	}
	x := g.scalarFromBig(xb)
	pub0 := groups.Enc(g.point().Mul(x, nil))
	msg0 := rng.Bytes(c08MsgLen(rng, idx))
	wit0 := func() map[string]any {
		return map[string]any{"group": g.name, "job": idx, "private": xb.Text(16), "pub": mon.Hex(pub0), "msg": mon.Hex(msg0)}
	}
	var sig0 []byte
	o := c08Run(func() error {
		var err error
		sig0, err = schnorr.Sign(suite, x, c08Clone(msg0))
		if err == nil && len(sig0) != g.pLen+g.sLen {
			return fmt.Errorf("signature length %d, want %d", len(sig0), g.pLen+g.sLen)
		}
		return err
	})
	desc := fmt.Sprintf("%d|len=%d", idx, len(msg0))
	c08Judge(r, g.name, "schnorr.Sign", "honest", desc, true, c08Accept, o, wit0)
	r.Op("schnorr.Sign")
	if !o.accepted {
		return
	}
	sig0 = c08Clone(sig0)
	witS := func() map[string]any { d := wit0(); d["sig"] = mon.Hex(sig0); return d }
	// honest verification through the three entry points
	o = c08Run(func() error { return schnorr.VerifyWithChecks(suite, c08Clone(pub0), c08Clone(msg0), c08Clone(sig0)) })
	c08Judge(r, g.name, "schnorr.VerifyWithChecks", "honest", desc, true, c08Accept, o, witS)
	o = c08Run(func() error {
		A := g.point()
		if err := A.UnmarshalBinary(pub0); err != nil {
			return err
		}
		return schnorr.Verify(suite, A, c08Clone(msg0), c08Clone(sig0))
	})
	c08Judge(r, g.name, "schnorr.Verify", "honest", desc, true, c08Accept, o, witS)
	// sign.Scheme interface with its own key pair; its key doubles as "another key"
	var otherPub []byte
	var sig2 []byte
	o = c08Run(func() error {
		sch := schnorr.NewScheme(suite)
		priv2, pub2 := sch.NewKeyPair(rng.Stream())
		otherPub = groups.Enc(pub2)
		var err error
		if sig2, err = sch.Sign(priv2, c08Clone(msg0)); err != nil {
			return err
		}
		return sch.Verify(pub2, c08Clone(msg0), c08Clone(sig2))
	})
	c08Judge(r, g.name, "schnorr.Scheme", "honest", desc, true, c08Accept, o, witS)
	r.Op("schnorr.VerifyWithChecks", "schnorr.Verify", "schnorr.NewScheme", "Scheme.NewKeyPair", "Scheme.Sign", "Scheme.Verify")
	if otherPub == nil || bytes.Equal(otherPub, pub0) {
		otherPub = groups.Enc(g.point().Mul(g.scalarFromBig(new(big.Int).Add(xb, big.NewInt(1))), nil))
	}
	if sig2 != nil {
		// a valid signature of another key on the same message
		c := &c08Case{class: "sig-of-other-key", pub: pub0, msg: msg0, sig: sig2, demand: c08Reject, why: "signature made with another private key"}
		o = c08Run(func() error { return schnorr.VerifyWithChecks(suite, c08Clone(pub0), c08Clone(msg0), c08Clone(sig2)) })
		c08Judge(r, g.name, "schnorr.VerifyWithChecks", c.class, desc, true, c08Reject, o, c08Wit(g, idx, c, pub0, msg0, sig0))
	}

	nSig, nMsg, nKey := 64, 12, 24
	all := false
	if r.Thorough() {
		nSig, nMsg, nKey = 192, 32, 64
		all = !heavy && idx%3 == 0
	}
	if heavy {
		nSig, nMsg, nKey = nSig/4, nMsg/4, nKey/4
	}
	cases := g.c08GenericCases(rng, pub0, msg0, sig0, otherPub, nSig, nMsg, nKey, all)
	if g.isEd {
		cases = append(cases, c08Kit().edCases(g, rng, pub0, msg0, sig0, new(big.Int).Mod(xb, g.q), false, heavy)...)
	}
	for _, c := range cases {
		g.classify(pub0, msg0, sig0, c)
		if c.demand == -2 {
			continue
		}
		cd := fmt.Sprintf("%d|%s|%s", idx, c.class, c.pos)
		o := c08Run(func() error {
			return schnorr.VerifyWithChecks(suite, c08Clone(c.pub), c08Clone(c.msg), c08Clone(c.sig))
		})
		c08Judge(r, g.name, "schnorr.VerifyWithChecks", c.class, cd, true, c.demand, o, c08Wit(g, idx, c, pub0, msg0, sig0))
		c08Sample(r, "schnorr/"+c.class, func() any {
			return map[string]any{"scheme": "schnorr", "group": g.name, "class": c.class, "variant": c.pos,
				"demand": []string{"accept", "reject", "recorded-only"}[c.demand], "classification": c.why, "accepted": o.accepted, "error": c08Short(o.err),
				"pub": mon.Hex(c.pub), "msg_len": len(c.msg), "sig": mon.Hex(c.sig)}
		})
		// the point-typed entry point, where the key bytes are what the decoded point re-encodes to
		if c.class == "msg-bitflip" || c.class == "key-other" || c.class == "key-negated" || c.class == "sig-S+kq" || strings.HasPrefix(c.class, "msg-") {
			A := g.point()
			if err := A.UnmarshalBinary(c.pub); err == nil && bytes.Equal(groups.Enc(A), c.pub) {
				o := c08Run(func() error { return schnorr.Verify(suite, A, c08Clone(c.msg), c08Clone(c.sig)) })
				c08Judge(r, g.name, "schnorr.Verify", c.class, cd, true, c.demand, o, c08Wit(g, idx, c, pub0, msg0, sig0))
			}
		}
	}
	// Ed25519: a kyber Schnorr signature is an Ed25519 signature; whatever the
	// EdDSA verifier accepts must be accepted by crypto/ed25519 too.
	if g.strict {
		ok := c08Run(func() error {
			A := g.point()
			if err := A.UnmarshalBinary(pub0); err != nil {
				return err
			}
			return eddsa.Verify(A, c08Clone(msg0), c08Clone(sig0))
		})
		c08Judge(r, g.name, "eddsa.Verify", "schnorr-signature", desc, true, c08Accept, ok, witS)
		std := ed25519.Verify(ed25519.PublicKey(pub0), msg0, sig0)
		c08Check(r, g.name, "eddsa.Verify", "accept=>std-accept/schnorr-signature", desc, !ok.accepted || std, witS)
	}
}

// ---------------------------------------------------------------------------

func c08(r *mon.R) {
	r.SetRule("schnorr: per (group, job) a key (edge-biased, non-zero), a message (lengths 0..4096 incl. SHA-512 block boundaries) and a signature made by kyber with a seeded stream; " +
		"each mutation (sampled or all single bits of R, S, message, key; S+kq, -S, 0, S+1; R/A replaced, negated; lengths; on Ed25519 R+T, A+T for the 8-torsion T, small-order and non-canonical-y encodings, x=0 with sign bit, " +
		"and crafted forgeries that satisfy sB=R+hA and are stopped only by the small-order/canonicity checks) is classified by a semantic-equality decoder " +
		"(big.Int Ed25519 model; elsewhere fresh kyber decode + Equal, P-256 curve equation, residue of S mod q computed in math/big): semantically different or undecodable => must be rejected; " +
		"same value in another encoding => must be rejected on group/edwards25519, recorded elsewhere. eddsa: per (seed, message length) public key, private-key encoding and signature byte-identical to crypto/ed25519, signing deterministic, " +
		"same corpus with kyber-accept => std-accept. pred: IsCanonical/HasSmallOrder vs the model. ring: suites x ring size 1..8 x every signer index x {unlinkable, linkable}; honest verify, tag = x*H(scope), " +
		"mutations of message, ring (replace/swap/rotate/drop/append), scope, every signature field; tag relations across messages, rings, keys, scopes. " +
		"reuse: one EdDSA object loading key sequences from a reused buffer / fresh buffers / after NewEdDSA, re-judged against crypto/ed25519 after each load and after the caller overwrote its buffer; one Schnorr suite/Scheme and the same key/message/signature objects across repeated honest and dishonest verifications; one anon.Set object across Sign/Verify rounds; every call must leave its inputs byte-identical and repeated calls must give the same verdict. " +
		"distinct = (group/suite, job, class, variant); non-trivial = the mutated input differs in bytes from the honest one (honest cases: key is not the neutral element)")
	r.Assume("crypto/ed25519, crypto/sha512 and math/big of the Go standard library are the reference for Ed25519/EdDSA")
	r.Assume("outside Ed25519 and P-256 the semantic-equality classifier trusts kyber's UnmarshalBinary+Equal on fresh receivers (their correctness is C03/C04's subject)")
	r.Assume("crafted Ed25519 forgeries use kyber's base-point multiplication; if it were wrong they would lose power, not raise alarms (their acceptance by crypto/ed25519 is recorded)")
	r.Assume("acceptance of an equal value in another encoding (scalar+q, trailing bytes) outside group/edwards25519 Schnorr/EdDSA is recorded, not demanded (DESIGN 6b)")

	type job struct {
		kind   string
		where  string
		idx    int
		weight int // rough cost; expensive jobs are started first (scheduling only, never verdicts)
		run    func()
	}
	var jobs []job
	sel := func(kind string) bool { return *flagMode == "" || strings.Contains(","+*flagMode+",", ","+kind+",") }

	// --- Schnorr over every group with a base point
	if sel("schnorr") {
		for _, G := range groups.Select(groups.All(), *flagGroups) {
			if !G.CanMulNil {
				r.Note("schnorr-skipped/"+G.Name, "no base point (Mul(s,nil) unsupported)")
				continue
			}
			g := c08NewGrp(G.Name, G.Grp, G.VarTime)
			heavy := G.Kind == "GT" || G.Name == "edvartime" // a verification costs tens of milliseconds there
			n := r.N(10, 100)
			if g.strict {
				n = r.N(16, 160)
			}
			if heavy {
				n = r.N(3, 30)
			}
			for i := 0; i < n; i++ {
				i := i
				w := 2
				if heavy {
					w = 20
				}
				jobs = append(jobs, job{"schnorr", g.name, i, w, func() { c08SchnorrJob(r, g, i, heavy) }})
			}
		}
	}
	// --- EdDSA
	if sel("eddsa") && (*flagGroups == "" || strings.Contains(*flagGroups, "ed25519")) {
		n := r.N(700, 4097+3000)
		for i := 0; i < n; i++ {
			i := i
			jobs = append(jobs, job{"eddsa", "eddsa", i, 1, func() { c08EdDSAJob(r, i) }})
		}
		np := r.N(16, 160)
		for i := 0; i < np; i++ {
			i := i
			jobs = append(jobs, job{"pred", "ed25519", i, 0, func() { c08PredJob(r, i) }})
		}
	}
	// --- ring signatures
	if sel("ring") {
		for _, sn := range c08RingSuites {
			if *flagGroups != "" && !strings.Contains(*flagGroups, sn) {
				continue
			}
			reps, maxN, light := r.N(2, 20), 8, false
			if sn == "edvartime" { // ~10 ms per point multiplication
				reps, maxN, light = 1, r.N(3, 8), true
			}
			for rep := 0; rep < reps; rep++ {
				for n := 1; n <= maxN; n++ {
					sn, rep, n := sn, rep, n
					w := n * n
					if light {
						w *= 10
					}
					jobs = append(jobs, job{"ring", sn, rep*8 + n, w, func() { c08RingJob(r, sn, rep, n, light) }})
				}
			}
		}
	}
	// --- reuse workloads (objects, buffers, suites and rings shared across calls)
	if sel("reuse") {
		c08ReuseJobs(r, *flagGroups, func(kind, where string, idx, weight int, run func()) {
			jobs = append(jobs, job{kind, where, idx, weight, run})
		})
	}
	sort.SliceStable(jobs, func(a, b int) bool { return jobs[a].weight > jobs[b].weight })
	mon.Parallel(len(jobs), func(w, i int) {
		j := jobs[i]
		key := "C08/" + j.where + "/" + j.kind + "/job"
		if r.Only != "" && !strings.HasPrefix(key, r.Only) {
			return
		}
		r.Journal(w, "C08 %s %s %d", j.kind, j.where, j.idx)
		r.Guard(key, map[string]any{"kind": j.kind, "where": j.where, "idx": j.idx, "seed": r.Seed}, j.run)
	})
	c08Notes.Range(func(k, v any) bool { r.Note(k.(string), v.(*atomic.Int64).Load()); return true })
	r.Note("jobs", len(jobs))
	if len(jobs) == 0 {
		r.Inconclusive("no job selected: nothing observed")
	}
}
