package main

// C11, Rabin DKG part: the oracle. It judges one observed execution against
// the ground-truth ledger of the engine and returns the judgements made and the
// findings. Violation keys are C11/rabin/<clause>/<observable>/<cause>; the
// cause is a ledger-derived root cause where the ledger can name one, otherwise
// the (minimised) set of fault kinds of the scenario.

import (
	"fmt"
	"math/big"
	"sort"
	"strings"

	"go.dedis.ch/kyber/v4"
	"go.dedis.ch/kyber/v4/share"

	"verif/internal/gen"
	"verif/internal/mon"
	"verif/internal/ref"
)

const (
	// DESIGN §6 #20: a deal one honest node cannot decrypt/parse leaves that node without a VSS instance (and
	// without any means to complain) while the other honest nodes keep the dealer in QUAL.
	c11rCauseUndec = "undecryptable-deal-to-some-honest-nodes"
	// DESIGN §6 #21: Rabin DealCertified tolerates complaints that were never justified.
	c11rCauseUnjust = "unjustified-complaint-tolerated"
	// further ledger-derived root causes (each names one mechanism; see c11rViewCause / c11rDownstreamCause)
	c11rCauseInvisible  = "complaint-invisible-under-session-id-of-altered-deal" // response carries the session id computed from the altered commitments / threshold: everyone else rejects it
	c11rCauseForeignSid = "deal-with-foreign-session-id-approved"                // VerifyDeal compares the deal's SessionID field with itself
	c11rCauseForeignT   = "deal-with-foreign-threshold-accepted"                 // the deal's T is never compared with the DKG threshold
	c11rCauseSplit      = "split-dealing-two-sessions-of-one-dealer"             // different honest nodes get shares of different polynomials (two session ids)
	c11rCauseForgedJust = "forged-justification-in-honest-dealers-name"          // justifications are not signature-checked
	c11rCauseFalseRC    = "falsified-reconstruct-share"                          // ReconstructCommits shares cannot be verified and the first t are interpolated
	c11rCauseKeepsBad   = "complainer-keeps-invalid-share-after-correct-justification"
	c11rCauseEquivResp  = "conflicting-responses-counted-in-arrival-order" // of an approval and a complaint by the same participant the first one received wins
)

var c11rUndecKinds = map[string]bool{"none": true, "cipher-flip": true, "sig-forged": true, "dh-tampered": true, "wrong-recipient": true, "garbage": true, "wrong-index": true}

// c11rViewCause names, from the ledger, why node z may see dealer d differently from the other honest nodes ("" = the ledger has no explanation).
func c11rViewCause(o *c11rOutcome, d, z int) string {
	if !o.isByz[d] {
		if o.forgedJust[d] {
			return c11rCauseForgedJust
		}
		return ""
	}
	switch kind := o.dealKind[d][z]; {
	case o.noVerifier[d][z]:
		return c11rCauseUndec
	case kind == "wrong-sid":
		return c11rCauseForeignSid
	case kind == "t-other":
		return c11rCauseForeignT
	case o.respForeign[d][z]:
		return c11rCauseInvisible
	case o.altPoly[d]:
		return c11rCauseSplit
	}
	// z itself got a flawless deal: it may lack the approvals of honest nodes whose responses carry a foreign session id
	for _, h := range o.honest {
		if o.respForeign[d][h] {
			if o.dealKind[d][h] == "t-other" {
				return c11rCauseForeignT
			}
			return c11rCauseInvisible
		}
	}
	if o.respEquiv[d] {
		return c11rCauseEquivResp
	}
	return ""
}

// c11rCausePriority: when several ledger causes contribute to one observation the key names the first of this list that is present
// (the two causes recorded as DESIGN §6 #20/#21 come last, so that they never mask another mechanism).
var c11rCausePriority = []string{c11rCauseForgedJust, c11rCauseFalseRC, c11rCauseKeepsBad, c11rCauseSplit, c11rCauseEquivResp, c11rCauseForeignSid, c11rCauseForeignT, c11rCauseInvisible, c11rCauseUnjust, c11rCauseUndec}

func c11rPickCause(set map[string]bool) string {
	for _, c := range c11rCausePriority {
		if set[c] {
			return c
		}
	}
	var cl []string
	for c := range set {
		cl = append(cl, c)
	}
	sort.Strings(cl)
	return strings.Join(cl, "+")
}

// c11rDownstreamCause names, from the ledger, a root cause for a wrong output at node x ("" = none known).
func c11rDownstreamCause(o *c11rOutcome, x int) string {
	for _, d := range o.qualF[x] {
		if o.rcFalse[d] {
			return c11rCauseFalseRC
		}
	}
	for _, pass := range []string{"none", "correct"} {
		for _, b := range o.scn.Byz {
			if !c11rContains(o.qualF[x], b) {
				continue
			}
			// some honest node holds a share off b's polynomial (it will use it in its own output and reveal it in a reconstruction)
			for _, h := range o.honest {
				if o.holdsBad[b][h] && o.approved[b][h] == 0 && o.justKind[b][h] == pass {
					if pass == "none" {
						return c11rCauseUnjust
					}
					return c11rCauseKeepsBad
				}
			}
		}
	}
	for _, b := range o.scn.Byz {
		if c11rContains(o.qualF[x], b) && o.altPoly[b] {
			return c11rCauseSplit
		}
	}
	return ""
}

func c11rSlug(s string) string {
	var sb strings.Builder
	dash := false
	for _, c := range strings.ToLower(s) {
		if (c >= 'a' && c <= 'z') || (c >= '0' && c <= '9') {
			sb.WriteRune(c)
			dash = false
		} else if !dash && sb.Len() > 0 {
			sb.WriteByte('-')
			dash = true
		}
		if sb.Len() > 70 {
			break
		}
	}
	return strings.Trim(sb.String(), "-")
}

type c11rEval struct {
	Class, Desc string
}

type c11rFinding struct {
	Clause, Observable, Cause string
	Ledger                    bool // cause was derived from the ledger (not from the fault signature)
	What                      string
	Detail                    map[string]any
}

func (f *c11rFinding) key() string {
	return "C11/rabin/" + f.Clause + "/" + f.Observable + "/" + f.Cause
}

func c11rScalarBig(x kyber.Scalar) *big.Int {
	b, err := x.MarshalBinary()
	if err != nil {
		panic("harness: scalar encode: " + err.Error())
	}
	// Ed25519 scalars are little-endian
	r := make([]byte, len(b))
	for i := range b {
		r[len(b)-1-i] = b[i]
	}
	return new(big.Int).SetBytes(r)
}

func c11rBigScalar(s c11rSuite, v *big.Int) kyber.Scalar {
	b := make([]byte, 32)
	v.FillBytes(b)
	for i, j := 0, len(b)-1; i < j; i, j = i+1, j-1 {
		b[i], b[j] = b[j], b[i]
	}
	x := s.Scalar()
	if err := x.UnmarshalBinary(b); err != nil {
		panic("harness: scalar decode: " + err.Error())
	}
	return x
}

func c11rHex(p kyber.Point) string {
	b, _ := p.MarshalBinary()
	return mon.Hex(b)
}

func c11rCommitsKey(cs []kyber.Point) string {
	var sb strings.Builder
	for _, c := range cs {
		sb.WriteString(c11rHex(c))
		sb.WriteByte('|')
	}
	return sb.String()
}

// c11rEvalCommit evaluates sum_k commits[k]*(i+1)^k with exponents computed in math/big (independent of share.PubPoly).
func c11rEvalCommit(s c11rSuite, commits []kyber.Point, i uint32) kyber.Point {
	x := big.NewInt(int64(i) + 1)
	pw := big.NewInt(1)
	acc := s.Point().Null()
	for _, c := range commits {
		acc = s.Point().Add(acc, s.Point().Mul(c11rBigScalar(s, pw), c))
		pw = new(big.Int).Mod(new(big.Int).Mul(pw, x), ref.EdL)
	}
	return acc
}

func c11rJudge(o *c11rOutcome) ([]c11rEval, []c11rFinding) {
	s := o.scn
	sig := s.signature()
	desc := s.String() + fmt.Sprintf(" idx=%d", s.Idx)
	var evals []c11rEval
	var finds []c11rFinding
	base := func(extra map[string]any) map[string]any {
		d := map[string]any{"scenario": s.String(), "scenario_index": s.Idx, "class": s.Class, "history": o.hist,
			"qual_after_timeout": c11rQualMap(o, o.qualT), "qual_final": c11rQualMap(o, o.qualF), "fault_signature": sig}
		for k, v := range extra {
			d[k] = v
		}
		return d
	}
	seen := map[string]bool{}
	add := func(clause, obs, cause string, ledger bool, what string, extra map[string]any) {
		f := c11rFinding{Clause: clause, Observable: obs, Cause: cause, Ledger: ledger, What: what, Detail: base(extra)}
		if seen[f.key()] {
			return
		}
		seen[f.key()] = true
		finds = append(finds, f)
	}
	ev := func(class, d string) { evals = append(evals, c11rEval{class, desc + "|" + d}) }

	if o.fatal != "" {
		add("harness", "setup-failed", sig, false, "the harness could not set the scenario up: "+o.fatal, nil)
	}
	for _, p := range o.panics {
		add(p.Op, "panic", c11rSlug(p.Msg), true, "panic in "+p.Op+": "+p.Msg, map[string]any{"panic": p.Msg, "stack": p.Stack})
	}
	for _, m := range o.honestMis {
		parts := strings.SplitN(m, "|", 2)
		add("honest-interaction", parts[0], sig, false, "a message of an honest participant was not handled as the protocol prescribes by another honest participant: "+m, nil)
	}
	if o.fatal != "" {
		return evals, finds
	}
	hs := o.suite
	var fin []int
	for _, x := range o.honest {
		if o.dks[x] != nil {
			fin = append(fin, x)
		}
	}

	// ---- completion: when everyone is honest, everyone completes
	if len(s.Byz) == 0 {
		ev("completion", "all-honest")
		for _, x := range o.honest {
			all := len(o.qualT[x]) == o.n && len(o.qualF[x]) == o.n
			if !o.certT[x] || !all || o.scErr[x] != "" || o.dks[x] == nil || !o.finished[x] {
				add("completion", "all-honest-run-did-not-complete", sig, false,
					fmt.Sprintf("every participant followed the protocol and every message was delivered, yet node %d did not complete (certified=%v QUAL=%v SecretCommits error %q Finished=%v DistKeyShare error %q)",
						x, o.certT[x], o.qualF[x], o.scErr[x], o.finished[x], o.dksErr[x]), map[string]any{"node": x})
			}
		}
	}

	// ---- qualification: an honest dealer (fewer than t complaints, all of them answered) stays qualified
	for _, d := range o.honest {
		for _, x := range o.honest {
			ev("qualification", fmt.Sprintf("dealer %d at node %d", d, x))
			if !c11rContains(o.qualT[x], d) || !c11rContains(o.qualF[x], d) {
				cause, led := sig, false
				if o.forgedJust[d] {
					cause, led = c11rCauseForgedJust, true
				}
				add("qualification", "honest-dealer-not-in-QUAL", cause, led,
					fmt.Sprintf("honest dealer %d (at most n-t < t complaints, every one of them justified) is not in QUAL at honest node %d", d, x),
					map[string]any{"dealer": d, "node": x})
			}
		}
	}

	// ---- disqualification: a dealer whose invalid deal to an honest party stays unjustified is disqualified
	for _, b := range s.Byz {
		for _, h := range o.honest {
			kind := o.dealKind[b][h]
			invalid := !o.dealValid[b][h]
			if (kind == "t-other" || kind == "wrong-sid") && o.approved[b][h] == 1 {
				// the share itself is genuine; whether a foreign threshold / session id makes the deal "invalid" is left to the recipient
				invalid = false
			}
			if !invalid {
				continue
			}
			if o.approved[b][h] == 0 && o.justKind[b][h] == "correct" {
				continue // justified: the dealer published the recipient's genuine deal
			}
			cause := ""
			switch {
			case o.noVerifier[b][h]:
				cause = c11rCauseUndec
			case o.altPoly[b]:
				cause = c11rCauseSplit
			case o.respForeign[b][h]:
				cause = c11rCauseInvisible
			case o.approved[b][h] == 0 && o.justKind[b][h] == "none":
				cause = c11rCauseUnjust
			case o.approved[b][h] == 0:
				cause = "invalid-justification-tolerated-" + o.justKind[b][h]
			default:
				cause = "invalid-deal-approved-by-recipient-" + kind
			}
			for _, x := range o.honest {
				ev("disqualification", fmt.Sprintf("dealer %d recipient %d at node %d", b, h, x))
				if c11rContains(o.qualT[x], b) || c11rContains(o.qualF[x], b) {
					cause := cause
					if o.dealKind[b][x] == "wrong-sid" && o.approved[b][x] == 1 && x != h {
						cause = c11rCauseForeignSid // x rejects every response about b, the complaint included: it works under the foreign session id of its own deal
					}
					add("disqualification", "dealer-with-unjustified-invalid-deal-in-QUAL", cause, true,
						fmt.Sprintf("Byzantine dealer %d gave honest node %d an invalid deal (%s; recipient: %s) that was never justified, yet it is in QUAL at honest node %d",
							b, h, kind, c11rVerdict(o, b, h), x),
						map[string]any{"dealer": b, "recipient": h, "deal_fault": kind, "recipient_error": o.procErr[b][h], "justification": o.justKind[b][h], "node": x})
				}
			}
		}
	}

	// downstream attribution: a ledger root cause at any of the given nodes, else the fault signature
	qualCause0, qualLed0, qualDiffers, diffs0 := c11rQualDiff(o, fin, sig)
	down := func(nodes []int) (string, bool) {
		for _, x := range nodes {
			if c := c11rDownstreamCause(o, x); c != "" {
				return c, true
			}
		}
		if qualDiffers && qualLed0 {
			// honest nodes that disagree on QUAL also disagree on whose complaints count and whose polynomial was reconstructed
			return qualCause0, true
		}
		return sig, false
	}

	// ---- the key is the sum of the qualified dealers' contributions
	// Judged at a finisher when the contribution of every dealer in its QUAL is pinned down: an honest dealer's is what it
	// published; a Byzantine dealer's is its polynomial when it dealt shares of ONE polynomial, at least t honest nodes hold them,
	// and it published exactly that polynomial's commitments (accepted or reconstructed, the result must be that polynomial).
	for _, x := range fin {
		applies := true
		var exp []kyber.Point
		for _, d := range o.qualF[x] {
			var cs []kyber.Point
			if o.isByz[d] {
				if !o.consistent[d] || o.holders[d] < o.t || !o.scGenuine[d] {
					applies = false
					break
				}
				cs = o.byzCommit[d]
			} else {
				cs = o.scHonest[d]
			}
			if len(cs) != o.t {
				applies = false
				break
			}
			if exp == nil {
				exp = c11rPts(hs, cs)
			} else {
				for k := range exp {
					exp[k] = hs.Point().Add(exp[k], cs[k])
				}
			}
		}
		if !applies || exp == nil {
			continue
		}
		ev("key-sum", fmt.Sprintf("node %d", x))
		ok := len(o.dks[x].Commits) == len(exp)
		for k := 0; ok && k < len(exp); k++ {
			ok = exp[k].Equal(o.dks[x].Commits[k])
		}
		if !ok {
			cause, led := down([]int{x})
			add("key-sum", "commits-not-sum-of-QUAL-dealers-polynomials", cause, led,
				fmt.Sprintf("node %d: Commits differ from the sum over its QUAL %v of the polynomials the dealers dealt (honest dealers: what they published; Byzantine dealers: the polynomial their shares lie on)", x, o.qualF[x]),
				map[string]any{"node": x, "got": c11rCommitsKey(o.dks[x].Commits), "want": c11rCommitsKey(exp)})
		}
	}

	// ---- agreement among the honest participants that complete
	if len(fin) >= 2 {
		ev("agreement", fmt.Sprintf("finishers %v", fin))
		keys, quals, coms := map[string][]int{}, map[string][]int{}, map[string][]int{}
		for _, x := range fin {
			k := c11rHex(o.dks[x].Commits[0])
			keys[k] = append(keys[k], x)
			quals[c11rIntsKey(o.qualF[x])] = append(quals[c11rIntsKey(o.qualF[x])], x)
			ck := c11rCommitsKey(o.dks[x].Commits)
			coms[ck] = append(coms[ck], x)
		}
		qualCause, qualLed, diffs := qualCause0, qualLed0, diffs0
		view := map[string]any{"public_keys": keys, "quals": quals, "qual_differences": diffs}
		if len(quals) > 1 {
			add("agreement", "different-QUAL", qualCause, qualLed, fmt.Sprintf("honest participants completed with different qualified sets: %v", c11rGroups(quals)), view)
		}
		if len(keys) > 1 {
			// different qualified sets give different sums; with equal sets the difference has another origin
			cause, led := qualCause, qualLed
			if len(quals) == 1 {
				cause, led = down(fin)
			}
			add("agreement", "different-public-keys", cause, led, fmt.Sprintf("honest participants completed with %d different public keys: %v", len(keys), c11rGroups(keys)), view)
		} else if len(coms) > 1 {
			cause, led := down(fin)
			add("agreement", "different-commits", cause, led, "honest participants completed with the same public key but different commitment polynomials", view)
		}
	}

	// ---- every honest output share lies on the output polynomial
	for _, x := range fin {
		ev("share-on-polynomial", fmt.Sprintf("node %d", x))
		k := o.dks[x]
		ok1 := k.Share.I == uint32(x) && share.NewPubPoly(hs, nil, k.Commits).Check(k.Share)
		ok2 := k.Share.I == uint32(x) && c11rEvalCommit(hs, k.Commits, k.Share.I).Equal(hs.Point().Mul(k.Share.V, nil))
		if ok1 != ok2 {
			add("harness", "share-check-disagreement", sig, false, "PubPoly.Check and the independent evaluation of the commitments disagree", map[string]any{"node": x})
		}
		if !ok1 || !ok2 {
			cause, led := down([]int{x})
			add("share", "output-share-off-the-output-polynomial", cause, led,
				fmt.Sprintf("honest node %d completed with a share that does not lie on its own Commits", x),
				map[string]any{"node": x, "share_index": k.Share.I, "commits": c11rCommitsKey(k.Commits)})
		}
	}

	// ---- any t honest shares reconstruct the secret of the public key
	byCom := map[string][]int{}
	for _, x := range fin {
		ck := c11rCommitsKey(o.dks[x].Commits)
		byCom[ck] = append(byCom[ck], x)
	}
	var cks []string
	for ck := range byCom {
		cks = append(cks, ck)
	}
	sort.Strings(cks)
	for _, ck := range cks {
		grp := byCom[ck]
		if len(grp) < o.t {
			continue
		}
		subs := gen.Subsets(len(grp), o.t)
		if len(subs) > 10 {
			subs = subs[:10]
		}
		for _, sub := range subs {
			var xs []int64
			var ys []*big.Int
			var members []int
			for _, k := range sub {
				x := grp[k]
				members = append(members, x)
				xs = append(xs, int64(o.dks[x].Share.I)+1)
				ys = append(ys, c11rScalarBig(o.dks[x].Share.V))
			}
			ev("t-recovery", fmt.Sprintf("nodes %v", members))
			sec := ref.C07Lagrange0(ref.EdL, xs, ys)
			if !hs.Point().Mul(c11rBigScalar(hs, sec), nil).Equal(o.dks[grp[0]].Commits[0]) {
				cause, led := down(members)
				add("recovery", "t-honest-shares-do-not-reconstruct-the-public-key", cause, led,
					fmt.Sprintf("the shares of honest nodes %v (t=%d) interpolate to a secret s with s*G different from the public key they all output", members, o.t),
					map[string]any{"nodes": members})
			}
		}
	}
	return evals, finds
}

// c11rQualDiff attributes a difference between the final QUAL sets of the finishers, dealer by dealer, to what the
// ledger knows about the node that lacks the dealer. differs=false when all finishers have the same QUAL.
func c11rQualDiff(o *c11rOutcome, fin []int, sig string) (cause string, ledger bool, differs bool, diffs []string) {
	cnt := map[int]int{}
	for _, x := range fin {
		for _, d := range o.qualF[x] {
			cnt[d]++
		}
	}
	causes := map[string]bool{}
	ledger = true
	for d, c := range cnt {
		if c == len(fin) {
			continue
		}
		differs = true
		for _, z := range fin {
			if c11rContains(o.qualF[z], d) {
				continue
			}
			vc := c11rViewCause(o, d, z)
			if vc == "" {
				ledger = false
			}
			causes[vc] = true
			diffs = append(diffs, fmt.Sprintf("dealer %d not in QUAL of node %d (deal to it: %s, %s; ledger: %q)", d, z, o.dealKind[d][z], c11rVerdict(o, d, z), vc))
		}
	}
	if !differs {
		return "", true, false, nil
	}
	sort.Strings(diffs)
	cause = c11rPickCause(causes)
	var all []string
	for c := range causes {
		all = append(all, c)
	}
	sort.Strings(all)
	diffs = append(diffs, "ledger causes present: "+strings.Join(all, ", "))
	if !ledger {
		cause = sig
	}
	return cause, ledger, true, diffs
}

func c11rVerdict(o *c11rOutcome, b, h int) string {
	switch {
	case o.noVerifier[b][h] && o.dealKind[b][h] == "none":
		return "received nothing"
	case o.noVerifier[b][h]:
		return "ProcessDeal error, no response possible"
	case o.approved[b][h] == 0:
		return "complained; justification: " + o.justKind[b][h]
	case o.approved[b][h] == 1:
		return "approved"
	}
	return "?"
}

func c11rQualMap(o *c11rOutcome, q [][]int) map[string][]int {
	m := map[string][]int{}
	for _, x := range o.honest {
		m[fmt.Sprint(x)] = q[x]
	}
	return m
}

func c11rGroups(m map[string][]int) [][]int {
	var out [][]int
	for _, v := range m {
		out = append(out, v)
	}
	sort.Slice(out, func(i, j int) bool { return out[i][0] < out[j][0] })
	return out
}

// c11rOutcomeClass summarises an execution for the evidence (distinct outcome shapes seen).
func c11rOutcomeClass(o *c11rOutcome) string {
	fin := 0
	for _, x := range o.honest {
		if o.dks[x] != nil {
			fin++
		}
	}
	byzQ := 0
	for _, b := range o.scn.Byz {
		for _, x := range o.honest {
			if c11rContains(o.qualF[x], b) {
				byzQ++
				break
			}
		}
	}
	return fmt.Sprintf("n%d-t%d-byz%d-finishers%d-of-%d-byzInQUAL%d-recon%d", o.n, o.t, len(o.scn.Byz), fin, len(o.honest), byzQ, len(o.reconDeal))
}
