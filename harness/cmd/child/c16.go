package main

import (
	"bytes"
	"encoding/binary"
	"fmt"
	"runtime/debug"
	"sort"
	"strings"
	"sync"
	"sync/atomic"

	"go.dedis.ch/kyber/v4"

	"verif/internal/gen"
	"verif/internal/mon"
)

// C16 — encryption round-trips, hides the plaintext and rejects altered
// ciphertexts (ECIES, IBE-CCA on G1/G2, IBE-CPA on G1, anonymous-set).
//
// Files: c16.go (entry, shared helpers), c16_ecies.go, c16_ibe.go, c16_anon.go.

func init() { register("C16", c16) }

// Stable keys of the two defects that DESIGN §6 lists for this property.
const (
	// #14: EncryptCPAonG1 accepts messages longer than the hash; gtToHash fills only hash-size bytes of the pad.
	c16KeyCPALeak = "C16/ibe-cpa/EncryptCPAonG1/plaintext-in-clear"
	// #15: the anon-set tag is an unkeyed XOF of the body; anybody can re-compute it for an altered body.
	c16KeyAnonTag = "C16/anon/Decrypt/body-altered+recomputed-unkeyed-tag"
	// found by this monitor: decryptKey re-derives the header into the caller's ciphertext buffer
	// (header() appends to ciphertext[:enclen], whose capacity covers the whole ciphertext) and then
	// compares the buffer with itself, so an altered slot of another recipient is never noticed.
	c16KeyAnonHdr = "C16/anon/Decrypt/other-recipient-slot-altered/accepted"
)

// c16job is one independent unit of work.
type c16job struct {
	cost int // rough relative cost, heavy jobs are scheduled first
	name string
	run  func(w int)
}

// c16c carries the identity of the case under judgement (for keys and witnesses).
type c16c struct {
	r      *mon.R
	scheme string // ecies | ibe-cca-g1 | ibe-cca-g2 | ibe-cpa-g1 | anon
	inst   string // group / suite name
	caseID string // inst|len|rep…, used in descriptors
	base   map[string]any
}

func (c *c16c) key(op, what string) string {
	return "C16/" + c.scheme + "/" + c.inst + "/" + op + "/" + what
}

func (c *c16c) det(kv ...any) map[string]any {
	d := map[string]any{"scheme": c.scheme, "instance": c.inst, "case": c.caseID, "seed": c.r.Seed}
	for k, v := range c.base {
		d[k] = v
	}
	for i := 0; i+1 < len(kv); i += 2 {
		d[fmt.Sprint(kv[i])] = kv[i+1]
	}
	return d
}

// call runs one kyber entry point; a panic becomes violation C16/<scheme>/<inst>/<op>/<class>/panic
// (same semantics as mon.R.Guard, but the witness map is only built when needed).
func (c *c16c) call(op, class string, f func(), kv ...any) (ok bool) {
	defer func() {
		if e := recover(); e != nil {
			ok = false
			d := c.det(kv...)
			d["origin_stack"] = c16Stack()
			c.r.Guard(c.key(op, class), d, func() { panic(e) })
		}
	}()
	f()
	return true
}

// c16Seen counts, per scheme, the successful round trips (a scheme that never
// round-tripped was not observed: the run must not pass silently).
var c16Seen sync.Map // scheme -> *atomic.Int64

func c16Mark(scheme string) {
	v, _ := c16Seen.LoadOrStore(scheme, new(atomic.Int64))
	v.(*atomic.Int64).Add(1)
}

// eval records one oracle judgement.
func (c *c16c) eval(class, desc string, nontrivial bool) {
	c.r.Eval(c.scheme+"/"+class, c.caseID+"|"+desc, nontrivial)
}

// altered judges the outcome of decrypting an altered / truncated ciphertext or of
// decrypting with a wrong key, for an authenticated scheme: an error is demanded.
func (c *c16c) altered(op, class, desc string, pt []byte, err error, orig []byte, kv ...any) {
	c.eval(class, desc, true)
	if err != nil {
		c.r.NoteAdd("rejected:"+c.scheme, 1)
		return
	}
	what := "accepted-different-plaintext"
	if bytes.Equal(pt, orig) {
		what = "accepted-same-plaintext"
	}
	kv = append(kv, "alteration", desc, "returned", mon.Hex(pt), "original", mon.Hex(orig))
	c.r.Violation(c.key(op, class+"/"+what),
		fmt.Sprintf("%s %s: %s did not return an error for %s (%s)", c.scheme, c.inst, op, class, what), c.det(kv...))
}

// ---- inputs intact -----------------------------------------------------------

// c16snap holds deep copies (byte images) of the input objects of one call,
// taken before the call, and the getters that re-read the same objects after it.
type c16snap struct {
	names  []string
	get    []func() []byte
	before [][]byte
}

func c16Snap() *c16snap { return &c16snap{} }

// add registers an input object; get must read the object as the caller sees it.
func (s *c16snap) add(name string, get func() []byte) *c16snap {
	s.names = append(s.names, name)
	s.get = append(s.get, get)
	s.before = append(s.before, append([]byte(nil), get()...))
	return s
}

// c16S reads a byte-slice variable (so a re-assigned struct field is seen too).
func c16S(b *[]byte) func() []byte { return func() []byte { return *b } }

// c16P reads a point / scalar through its encoding.
func c16P(m kyber.Marshaling) func() []byte { return func() []byte { return c16Enc(m) } }

// c16Ps reads a list of points.
func c16Ps(ps []kyber.Point) func() []byte {
	return func() []byte {
		var out []byte
		for _, p := range ps {
			out = append(out, c16Enc(p)...)
		}
		return out
	}
}

// intact judges "every input object is byte-identical to its deep copy taken
// before the call" (one judgement per call, also for calls that returned an error).
func (c *c16c) intact(s *c16snap, op, class string, failed bool, kv ...any) {
	out := "call-succeeded"
	if failed {
		out = "call-failed"
	}
	c.eval("inputs-intact/"+op+"/"+out, class+fmt.Sprint(kv...), true)
	for i, g := range s.get {
		after := g()
		if bytes.Equal(after, s.before[i]) {
			continue
		}
		first := 0
		for first < len(after) && first < len(s.before[i]) && after[first] == s.before[i][first] {
			first++
		}
		d := c.det(kv...)
		d["input"], d["call_class"], d["outcome"] = s.names[i], class, out
		d["before"], d["after"], d["first_differing_byte"] = c16HexCap(s.before[i]), c16HexCap(after), first
		c.r.Violation("C16/"+c.scheme+"/"+op+"/input-mutated/"+s.names[i],
			fmt.Sprintf("%s %s overwrote its input %q (the caller's object differs from the deep copy taken before the call)", c.scheme, op, s.names[i]), d)
	}
}

// repeat judges "decrypting the same ciphertext object again returns the same
// plaintext": good() decrypts the one shared object with the right key, bad()
// (optional) makes a failing attempt with a wrong key on the same object, ser()
// serialises the object for the clear-text scan after decryption.
func (c *c16c) repeat(op string, msg []byte, scan bool, good func() ([]byte, error), bad func() ([]byte, error), ser func() []byte) {
	var p1, p2, p3 []byte
	var e1, e2, e3 error
	if !c.call(op, "repeat/first", func() { p1, e1 = good() }) || e1 != nil || !bytes.Equal(p1, msg) {
		return // the round-trip judgement has already reported this
	}
	if scan {
		after := ser()
		kind, po, co := c16Scan(msg, after)
		c.eval("scan-after-decryption", "scan", len(msg) >= 8)
		if kind != "" {
			c.r.Violation("C16/"+c.scheme+"/"+op+"/plaintext-in-clear-after-decryption",
				fmt.Sprintf("%s: after %s the caller's ciphertext object contains plaintext in the clear (%s)", c.scheme, op, kind),
				c.det("pt_off", po, "ct_off", co, "run", c16RunLen(msg, after, po, co), "ciphertext_object_after", c16HexCap(after)))
		}
	}
	var objBefore []byte // the ciphertext object as it was handed to the call being judged
	judge := func(which string, p []byte, e error) {
		c.eval("repeat/"+which, which, true)
		if e != nil {
			c.r.Violation("C16/"+c.scheme+"/"+op+"/repeat/"+which+"-fails",
				fmt.Sprintf("%s: the %s decryption of the same ciphertext object with the right key failed (%v) although the first one returned the message", c.scheme, which, e),
				c.det("error", e.Error(), "ciphertext_object_handed_to_this_call", c16HexCap(objBefore), "ciphertext_object_after_this_call", c16HexCap(ser())))
		} else if !bytes.Equal(p, msg) {
			c.r.Violation("C16/"+c.scheme+"/"+op+"/repeat/"+which+"-differs",
				fmt.Sprintf("%s: the %s decryption of the same ciphertext object returned a different plaintext", c.scheme, which),
				c.det("returned", c16HexCap(p), "ciphertext_object_handed_to_this_call", c16HexCap(objBefore), "ciphertext_object_after_this_call", c16HexCap(ser())))
		}
		if !bytes.Equal(p1, msg) {
			c.r.Violation("C16/"+c.scheme+"/"+op+"/repeat/earlier-result-overwritten",
				fmt.Sprintf("%s: the plaintext returned by the first decryption was changed by a later %s call on the same object", c.scheme, op), c.det("first_result_now", c16HexCap(p1)))
		}
	}
	objBefore = append([]byte(nil), ser()...)
	if c.call(op, "repeat/second", func() { p2, e2 = good() }) {
		judge("second", p2, e2)
	}
	if bad != nil {
		c.call(op, "repeat/wrong-key-attempt", func() { _, _ = bad() })
	}
	objBefore = append([]byte(nil), ser()...)
	if c.call(op, "repeat/third", func() { p3, e3 = good() }) {
		judge("third-after-failed-attempt", p3, e3)
	}
}

// c16Scan looks for plaintext in the clear: a 16-byte aligned block of pt
// anywhere in ct, or any run of >= 8 plaintext bytes. Returns "" if none.
func c16Scan(pt, ct []byte) (kind string, ptOff, ctOff int) {
	if len(pt) < 8 || len(ct) < 8 {
		return "", 0, 0
	}
	for off := 0; off+16 <= len(pt); off += 16 {
		if i := bytes.Index(ct, pt[off:off+16]); i >= 0 {
			return "aligned-16-byte-block", off, i
		}
	}
	win := make(map[uint64]int, len(ct))
	for i := 0; i+8 <= len(ct); i++ {
		v := binary.BigEndian.Uint64(ct[i:])
		if _, ok := win[v]; !ok {
			win[v] = i
		}
	}
	for off := 0; off+8 <= len(pt); off++ {
		if i, ok := win[binary.BigEndian.Uint64(pt[off:])]; ok {
			return "8-byte-run", off, i
		}
	}
	return "", 0, 0
}

// c16RunLen extends a match found by c16Scan to its full length.
func c16RunLen(pt, ct []byte, po, co int) int {
	n := 0
	for po+n < len(pt) && co+n < len(ct) && pt[po+n] == ct[co+n] {
		n++
	}
	return n
}

// c16Bits picks bit positions in [lo,hi) (bit indices): all of them when the
// region has at most n bits or all is set, else one per stratum (n strata),
// always including the first and the last bit of the region.
func c16Bits(rng *gen.Rng, lo, hi, n int, all bool) []int {
	sz := hi - lo
	if sz <= 0 {
		return nil
	}
	if all || sz <= n {
		out := make([]int, sz)
		for i := range out {
			out[i] = lo + i
		}
		return out
	}
	seen := map[int]bool{lo: true, hi - 1: true}
	out := []int{lo, hi - 1}
	for k := 0; k < n-2; k++ {
		a := lo + sz*k/(n-2)
		b := lo + sz*(k+1)/(n-2)
		if b <= a {
			b = a + 1
		}
		p := a + rng.IntN(b-a)
		if !seen[p] {
			seen[p] = true
			out = append(out, p)
		}
	}
	sort.Ints(out)
	return out
}

// c16Cuts picks truncation lengths in [0,total): all of them when total <= limit
// or all is set; else every cut within `near` bytes of a region boundary plus
// n stratified ones. bounds are the region boundaries (byte offsets).
func c16Cuts(rng *gen.Rng, total int, bounds []int, near, n int, all bool) []int {
	if total <= 0 {
		return nil
	}
	if all || total <= 2*n {
		out := make([]int, total)
		for i := range out {
			out[i] = i
		}
		return out
	}
	seen := map[int]bool{}
	add := func(p int) {
		if p >= 0 && p < total {
			seen[p] = true
		}
	}
	add(0)
	add(total - 1)
	for _, b := range bounds {
		for d := -near; d <= near; d++ {
			add(b + d)
		}
	}
	for k := 0; k < n; k++ {
		a := total * k / n
		b := total * (k + 1) / n
		if b <= a {
			b = a + 1
		}
		add(a + rng.IntN(b-a))
	}
	out := make([]int, 0, len(seen))
	for p := range seen {
		out = append(out, p)
	}
	sort.Ints(out)
	return out
}

// c16Msg builds the message of a case. Class "random" is high-entropy (the
// only class the clear-text scan is applied to).
func c16Msg(rng *gen.Rng, l int, class string) []byte {
	m := rng.Bytes(l)
	switch class {
	case "zeros":
		for i := range m {
			m[i] = 0
		}
	case "ones":
		for i := range m {
			m[i] = 0xff
		}
	case "ascii":
		for i := range m {
			m[i] = 'a' + m[i]%26
		}
	}
	return m
}

func c16MsgClass(rep int) string {
	switch rep % 6 {
	case 3:
		return "zeros"
	case 4:
		return "ascii"
	case 5:
		return "ones"
	}
	return "random"
}

func c16Region(regs []c16reg, bit int) string {
	for _, g := range regs {
		if bit >= g.lo*8 && bit < g.hi*8 {
			return g.name
		}
	}
	return "?"
}

// c16reg is a named byte range of a serialised ciphertext.
type c16reg struct {
	name   string
	lo, hi int
}

func c16HexCap(b []byte) string {
	if len(b) > 512 {
		return mon.Hex(b[:256]) + "…(" + fmt.Sprint(len(b)) + " bytes)…" + mon.Hex(b[len(b)-64:])
	}
	return mon.Hex(b)
}

func c16(r *mon.R) {
	r.SetRule("per scheme instance (ECIES on ed25519/edvartime/edvartime-full/p256/qr512 with hash nil|sha256|sha512; IBE-CCA on G1 and on G2, IBE-CPA on G1 for every pairing suite whose identity group is hashable; anon-set on ed25519/edvartime/p256 with 1..6 recipients and every recipient index) and per message length (quick: 0,1,15,16,17,31,32,33,63,64,65,255,256,1023,4096; thorough: 0..4096 stepped; IBE: 0..hash size densely and beyond): encrypt with the real API, then judge (1) round trip = exact message, or refusal at encryption time only for lengths the scheme cannot protect; (2) decryption with every wrong-key class must error (authenticated schemes); (3) every chosen single-bit flip (stratified per region: ephemeral point / header slots / body / tag; U,V,W; all bits for short ciphertexts in thorough) and every chosen truncation must error, never return a plaintext, never panic; anon-set additionally body alteration with the tag recomputed from public data; (4) clear-text scan: no 16-byte aligned block and no >=8-byte run of a high-entropy plaintext occurs in the serialised ciphertext, scanned after encryption and again on the ciphertext object after it was decrypted; (5) inputs intact: after every Encrypt and every Decrypt call (successful or failed) each input object (message, ciphertext bytes / U,V,W / RP,C, public and private keys, identity, anonymity set) is byte-identical to a deep copy taken before the call; (6) repeatable: the same ciphertext object decrypted a second time, and a third time after a failed wrong-key attempt on it, returns the same plaintext (anon-set also: the same buffer handed to a second recipient). distinct = (scheme, instance, length, repetition, check descriptor). non-trivial = every judgement except: scans of plaintexts shorter than 8 bytes, and IBE-CCA wrong-key trials on messages of < 4 bytes (sigma has only len(msg) bytes, see notes)")
	r.Assume("ecies.Encrypt, ibe.Encrypt* and anon.Encrypt (P-256, edvartime) draw their randomness internally; every oracle is a relation between the inputs and the decryption result and does not depend on that randomness")
	r.Assume("IBE-CPA is unauthenticated by design: wrong keys and alterations are only required not to panic")
	r.Assume("IBE ciphertexts have no wire format in the library; U is altered through its MarshalBinary encoding (altered encodings the decoder refuses count as rejected), V and W as byte strings; the clear-text scan runs over enc(U)||V||W")
	r.Assume("IBE-CCA wrong-key acceptance returning the *same* plaintext for messages shorter than 4 bytes is recorded as a note, not a violation: sigma has len(msg) bytes, so the event has probability 2^-8len by construction and would make the verdict seed-dependent")

	var jobs []c16job
	jobs = append(jobs, c16AnonJobs(r)...)
	jobs = append(jobs, c16IBEJobs(r)...)
	jobs = append(jobs, c16EciesJobs(r)...)
	if *flagMode != "" {
		var sel []c16job
		for _, j := range jobs {
			if len(j.name) >= len(*flagMode) && j.name[:len(*flagMode)] == *flagMode {
				sel = append(sel, j)
			}
		}
		jobs = sel
	}
	sort.SliceStable(jobs, func(i, j int) bool { return jobs[i].cost > jobs[j].cost })
	r.Note("jobs", len(jobs))
	mon.Parallel(len(jobs), func(w, i int) {
		j := jobs[i]
		r.Journal(w, "C16 %s", j.name)
		r.Guard("C16/harness/"+j.name[:c16idx(j.name)], map[string]any{"job": j.name}, func() { j.run(w) })
	})
	if *flagMode == "" && *flagGroups == "" {
		for _, sch := range []string{"ecies", "ibe-cca-g1", "ibe-cca-g2", "ibe-cpa-g1", "anon"} {
			v, ok := c16Seen.Load(sch)
			if !ok || v.(*atomic.Int64).Load() == 0 {
				r.Inconclusive("C16: no successful round trip was observed for scheme " + sch + " — nothing can be said about it")
			} else {
				r.Note("round trips ok:"+sch, v.(*atomic.Int64).Load())
			}
		}
	}
}

// c16Stack returns the kyber frames of the current (panicking) stack.
func c16Stack() string {
	var out []string
	for _, l := range strings.Split(string(debug.Stack()), "\n") {
		if strings.Contains(l, "go.dedis.ch/kyber") || strings.Contains(l, "/repo/") || strings.Contains(l, "panic") {
			out = append(out, strings.TrimSpace(l))
		}
		if len(out) > 24 {
			break
		}
	}
	return strings.Join(out, "\n")
}

func c16idx(s string) int {
	n := 0
	for i := 0; i < len(s); i++ {
		if s[i] == '/' {
			n++
			if n == 2 {
				return i
			}
		}
	}
	return len(s)
}
