package main

import "verif/internal/mon"

// stub: replaced by the Rabin builder (delete this file when c11_rabin.go exists)
func c11Rabin(r *mon.R) { r.SetRule("stub") }
