package main

import (
	"bytes"
	"crypto/sha256"
	"crypto/sha512"
	"fmt"
	"hash"

	"go.dedis.ch/kyber/v4"
	"go.dedis.ch/kyber/v4/encrypt/ecies"
	"go.dedis.ch/kyber/v4/group/edwards25519"
	"go.dedis.ch/kyber/v4/group/edwards25519vartime"
	"go.dedis.ch/kyber/v4/group/p256"

	"verif/internal/gen"
	"verif/internal/mon"
)

type c16eg struct {
	name string
	g    kyber.Group
	cost int
}

func c16EciesGroups() []c16eg {
	return []c16eg{
		{"ed25519", edwards25519.NewBlakeSHA256Ed25519(), 2},
		{"edvartime", edwards25519vartime.NewBlakeSHA256Ed25519(false), 40},
		{"edvartime-full", edwards25519vartime.NewBlakeSHA256Ed25519(true), 40},
		{"p256", p256.NewBlakeSHA256P256(), 1},
		{"qr512", p256.NewBlakeSHA256QR512(), 2},
	}
}

var c16QuickLens = []int{0, 1, 15, 16, 17, 31, 32, 33, 63, 64, 65, 255, 256, 1023, 1024, 1025, 1500, 2049, 3000, 4095, 4096}

// c16LongLens is the thorough length sweep 0..4096: dense at the bottom, around
// every power of two and AES/XOF block multiples, stepped in between.
func c16LongLens() []int {
	seen := map[int]bool{}
	var out []int
	add := func(l int) {
		if l >= 0 && l <= 4096 && !seen[l] {
			seen[l] = true
			out = append(out, l)
		}
	}
	for l := 0; l <= 160; l++ {
		add(l)
	}
	for l := 160; l <= 4096; l += 53 {
		add(l)
	}
	for b := 128; b <= 4096; b += 128 {
		add(b - 1)
		add(b)
		add(b + 1)
	}
	for _, l := range c16QuickLens {
		add(l)
	}
	return out
}

func c16EciesJobs(r *mon.R) []c16job {
	lens := c16QuickLens
	if r.Thorough() {
		lens = c16LongLens()
	}
	var jobs []c16job
	for _, G := range c16EciesGroups() {
		if *flagGroups != "" && !c16Sel(G.name) {
			continue
		}
		slow := G.name == "edvartime" || G.name == "edvartime-full" // big.Int arithmetic, ~10x slower
		for li, l := range lens {
			reps := r.N(3, 2)
			if slow {
				reps = 2
				if r.Thorough() && li%6 != 0 && l > 40 {
					continue
				}
			}
			for rep := 0; rep < reps; rep++ {
				G, l, rep := G, l, rep
				jobs = append(jobs, c16job{cost: G.cost, name: fmt.Sprintf("ecies/%s/l=%d/rep=%d", G.name, l, rep),
					run: func(w int) { c16EciesCase(r, G, l, rep) }})
			}
		}
	}
	return jobs
}

func c16EciesCase(r *mon.R, G c16eg, l, rep int) {
	g := G.g
	rng := gen.New(r.Seed, fmt.Sprintf("C16/ecies/%s/%d", G.name, l), rep)
	c := &c16c{r: r, scheme: "ecies", inst: G.name, caseID: fmt.Sprintf("%s|l=%d|rep=%d", G.name, l, rep)}
	thorough := r.Thorough()

	// hash configuration
	hname := []string{"nil", "sha256", "sha512"}[(rep+l)%3]
	hf := map[string]func() hash.Hash{"nil": nil, "sha256": sha256.New, "sha512": sha512.New}[hname]

	// key pair: picked from a seeded stream, or an edge scalar
	x := g.Scalar().Pick(rng.Stream())
	keyClass := "pick"
	switch (rep + l) % 7 {
	case 5:
		x, keyClass = g.Scalar().One(), "one"
	case 6:
		x, keyClass = g.Scalar().Neg(g.Scalar().One()), "q-1"
	}
	X := g.Point().Mul(x, nil)
	mclass := c16MsgClass(rep)
	msg := c16Msg(rng, l, mclass)
	c.base = map[string]any{"len": l, "hash": hname, "key_class": keyClass, "private": mon.Hex(c16Enc(x)), "public": mon.Hex(c16Enc(X)), "msg_class": mclass, "msg": c16HexCap(msg)}
	r.Op("ecies.Encrypt", "ecies.Decrypt")

	// (1) encryption: ECIES protects every length
	var ct []byte
	var err error
	msgIn := append([]byte(nil), msg...)
	encSnap := c16Snap().add("public-key", c16P(X)).add("message", c16S(&msgIn))
	if !c.call("Encrypt", "honest", func() { ct, err = ecies.Encrypt(g, X, msgIn, hf) }) {
		return
	}
	c.intact(encSnap, "Encrypt", "honest", err != nil)
	ct = append([]byte(nil), ct...) // our own copy: the returned slice is not an input of later calls
	c.eval("encrypt/accepted", "enc", true)
	if err != nil {
		r.Violation(c.key("Encrypt", "refused-protectable-message"), "ecies.Encrypt refused a message it can protect: "+err.Error(), c.det())
		return
	}
	pl := g.PointLen()
	if len(ct) < pl+16 {
		r.Violation(c.key("Encrypt", "ciphertext-shorter-than-point+tag"), "ecies ciphertext shorter than ephemeral point + GCM tag", c.det("ct", mon.Hex(ct)))
		return
	}
	regs := []c16reg{{"eph", 0, pl}, {"body", pl, len(ct) - 16}, {"tag", len(ct) - 16, len(ct)}}
	c.base["ct"] = c16HexCap(ct)

	// (1b) round trip
	dec := func(op, class string, key kyber.Scalar, cc []byte, h func() hash.Hash, kv ...any) (pt []byte, e error, ok bool) {
		sn := c16Snap().add("ciphertext", c16S(&cc)).add("private-key", c16P(key))
		ok = c.call(op, class, func() { pt, e = ecies.Decrypt(g, key, cc, h) }, kv...)
		if ok {
			c.intact(sn, op, class, e != nil, kv...)
		}
		return
	}
	pt, err, ok := dec("Decrypt", "roundtrip", x, append([]byte(nil), ct...), hf)
	if ok {
		c.eval("roundtrip/"+c16LenClass(l), "rt", true)
		if err != nil {
			r.Violation(c.key("Decrypt", "roundtrip/error"), "ecies round trip failed: "+err.Error(), c.det())
		} else if !bytes.Equal(pt, msg) {
			r.Violation(c.key("Decrypt", "roundtrip/wrong-plaintext"), "ecies round trip returned a different message", c.det("returned", c16HexCap(pt)))
		} else {
			c16Mark(c.scheme)
		}
	}
	if rep == 0 {
		r.SampleClass("ecies:"+G.name+":"+c16LenClass(l), map[string]any{"scheme": "ecies", "group": G.name, "len": l, "hash": hname, "ct_len": len(ct), "regions": fmt.Sprint(regs), "roundtrip": err == nil && bytes.Equal(pt, msg)})
	}

	// (1c) the same ciphertext object decrypted again, and once more after a failed wrong-key attempt
	{
		obj := append([]byte(nil), ct...)
		other := g.Scalar().Add(x, g.Scalar().One())
		c.repeat("Decrypt", msg, mclass == "random",
			func() ([]byte, error) { return ecies.Decrypt(g, x, obj, hf) },
			func() ([]byte, error) { return ecies.Decrypt(g, other, obj, hf) },
			func() []byte { return obj })
	}

	// (2) wrong keys
	type wk struct {
		name string
		k    kyber.Scalar
	}
	wks := []wk{
		{"other", g.Scalar().Pick(rng.Stream())},
		{"x+1", g.Scalar().Add(x, g.Scalar().One())},
		{"-x", g.Scalar().Neg(x)},
		{"zero", g.Scalar().Zero()},
		{"2x", g.Scalar().Add(x, x)},
	}
	for _, k := range wks {
		if k.k.Equal(x) {
			continue
		}
		p, e, ok := dec("Decrypt", "wrong-key/"+k.name, k.k, append([]byte(nil), ct...), hf)
		if ok {
			c.altered("Decrypt", "wrong-key/"+k.name, "key="+k.name, p, e, msg, "wrong_key", mon.Hex(c16Enc(k.k)))
		}
	}
	{ // right key, other KDF hash
		oh := sha512.New
		if hname == "sha512" {
			oh = sha256.New
		}
		p, e, ok := dec("Decrypt", "wrong-hash", x, append([]byte(nil), ct...), oh)
		if ok {
			c.altered("Decrypt", "wrong-hash", "hash", p, e, msg)
		}
	}

	// (3) single-bit flips per region
	nEph, nBody, nTag := r.N(40, 64), r.N(40, 64), r.N(24, 128)
	allBits := thorough && l <= 48 && rep == 0
	for _, g3 := range regs {
		n := map[string]int{"eph": nEph, "body": nBody, "tag": nTag}[g3.name]
		for _, b := range c16Bits(rng, g3.lo*8, g3.hi*8, n, allBits) {
			p, e, ok := dec("Decrypt", "flip/"+g3.name, x, gen.FlipBit(ct, b), hf, "bit", b)
			if ok {
				c.altered("Decrypt", "flip/"+g3.name, fmt.Sprintf("bit=%d", b), p, e, msg, "bit", b)
			}
		}
	}

	// (3b) truncations (strict prefixes)
	allCuts := thorough && l <= 300
	for _, cut := range c16Cuts(rng, len(ct), []int{pl, len(ct) - 16}, r.N(3, 8), r.N(24, 48), allCuts) {
		p, e, ok := dec("Decrypt", "truncate/"+c16CutClass(regs, cut), x, append([]byte(nil), ct[:cut]...), hf, "cut", cut)
		if ok {
			c.altered("Decrypt", "truncate/"+c16CutClass(regs, cut), fmt.Sprintf("cut=%d", cut), p, e, msg, "cut", cut)
		}
	}

	// (3c) extensions: the ciphertext followed by extra bytes
	for _, extra := range []int{1, 7, 16, 33} {
		p, e, ok := dec("Decrypt", "extend", x, append(append([]byte(nil), ct...), rng.Bytes(extra)...), hf, "extra", extra)
		if ok {
			c.altered("Decrypt", "extend", fmt.Sprintf("extra=%d", extra), p, e, msg, "extra", extra)
		}
	}

	// (4) clear-text scan
	if mclass == "random" {
		kind, po, co := c16Scan(msg, ct)
		c.eval("scan/"+c16LenClass(l), "scan", l >= 8)
		if kind != "" {
			r.Violation(c.key("Encrypt", "plaintext-in-clear"), "ecies ciphertext contains plaintext in the clear ("+kind+")",
				c.det("pt_off", po, "ct_off", co, "run", c16RunLen(msg, ct, po, co)))
		}
	}
}

// c16CutClass names the region a truncation point falls into.
func c16CutClass(regs []c16reg, cut int) string {
	for _, g := range regs {
		if cut < g.hi {
			return "in-" + g.name
		}
	}
	return "end"
}

func c16LenClass(l int) string {
	switch {
	case l == 0:
		return "len=0"
	case l < 16:
		return "len=1..15"
	case l < 32:
		return "len=16..31"
	case l == 32:
		return "len=32"
	case l <= 64:
		return "len=33..64"
	case l <= 256:
		return "len=65..256"
	case l <= 1024:
		return "len=257..1024"
	}
	return "len=1025..4096"
}

func c16Enc(m kyber.Marshaling) []byte {
	b, err := m.MarshalBinary()
	if err != nil {
		panic("harness: MarshalBinary: " + err.Error())
	}
	return append([]byte(nil), b...)
}

func c16Sel(name string) bool {
	f := *flagGroups
	if f == "" {
		return true
	}
	for _, s := range bytes.Split([]byte(f), []byte(",")) {
		if bytes.Contains([]byte(name), s) {
			return true
		}
	}
	return false
}
