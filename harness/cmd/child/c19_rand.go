package main

import (
	"bytes"
	"crypto/sha256"
	"errors"
	"fmt"
	"io"
	"math/big"
	"sync/atomic"

	"go.dedis.ch/kyber/v4/compatible/compatiblemod"
	"go.dedis.ch/kyber/v4/util/random"

	"verif/internal/gen"
	"verif/internal/mon"
	"verif/internal/ref"
)

type c19RandJob struct {
	kind string
	idx  int
}

// c19RdrCases is filled by c19RandJobs before the workers start (read-only afterwards).
var c19RdrCases []c19RdrCase

func c19RandJobs(r *mon.R) []c19RandJob {
	var jobs []c19RandJob
	for i := 0; i < 1031*r.N(2, 24); i++ {
		jobs = append(jobs, c19RandJob{"bits", i})
	}
	for i := 0; i < 521*r.N(2, 24); i++ {
		jobs = append(jobs, c19RandJob{"int", i})
	}
	c19RdrCases = c19ReaderCases(r)
	for i := range c19RdrCases {
		jobs = append(jobs, c19RandJob{"readers", i})
	}
	return jobs
}

// ---------------------------------------------------------------------------
// recording / scripted cipher.Stream (harness side; independent of kyber's XOFs)

type c19Rec struct {
	script []byte
	pos    int
	fall   *gen.Rng
	log    []byte
	calls  []int
	limit  int
}

func (s *c19Rec) XORKeyStream(dst, src []byte) {
	if len(dst) < len(src) {
		panic("harness stream: dst shorter than src")
	}
	if len(s.calls) >= s.limit {
		panic(fmt.Sprintf("harness stream: the consumer did not terminate within %d draws", s.limit))
	}
	s.calls = append(s.calls, len(src))
	fb := s.fall.Bytes(len(src))
	for i := range src {
		k := fb[i]
		if s.pos < len(s.script) {
			k = s.script[s.pos]
			s.pos++
		}
		s.log = append(s.log, k)
		dst[i] = src[i] ^ k
	}
}

// ---------------------------------------------------------------------------
// random.Bits / random.Bytes

func c19BitsJob(r *mon.R, idx int, evals *atomic.Int64) {
	bitlen := idx % 1031
	rep := idx / 1031
	L := (bitlen + 7) / 8
	for _, exact := range []bool{false, true} {
		if exact && bitlen == 0 {
			continue // unsatisfiable (DESIGN 6b)
		}
		for variant, vname := range []string{"random", "all-ones", "all-zero"} {
			if rep > 0 && variant > 0 {
				continue
			}
			rng := gen.New(r.Seed, fmt.Sprintf("C19/bits/%v/%s", exact, vname), idx)
			rec := &c19Rec{fall: rng, limit: 64}
			switch variant {
			case 1:
				rec.script = bytes.Repeat([]byte{0xff}, L+8)
			case 2:
				rec.script = make([]byte, L+8)
			}
			det := map[string]any{"bitlen": bitlen, "exact": exact, "stream": vname}
			var got []byte
			if !r.Guard("C19/random.Bits", det, func() { got = random.Bits(uint(bitlen), exact, rec) }) {
				continue
			}
			r.Op("random.Bits")
			evals.Add(1)
			cls := "random.Bits/max-bitlen"
			if exact {
				cls = "random.Bits/exact"
			}
			r.Eval(cls+"/"+vname, fmt.Sprintf("%d|%d", bitlen, rep), bitlen%8 != 0 || exact)
			det["stream_hex"] = mon.Hex(rec.log)
			det["got"] = mon.Hex(got)
			if len(got) != L {
				r.Violation("C19/random.Bits/length", fmt.Sprintf("Bits(%d) returned %d bytes, want ceil(bits/8)=%d", bitlen, len(got), L), det)
				continue
			}
			v := new(big.Int).SetBytes(got)
			if v.BitLen() > bitlen {
				r.Violation("C19/random.Bits/out-of-range", fmt.Sprintf("Bits(%d,%v) returned a %d-bit value", bitlen, exact, v.BitLen()), det)
			}
			if exact && v.BitLen() != bitlen {
				r.Violation("C19/random.Bits/exact/wrong-bit-length", fmt.Sprintf("Bits(%d,exact) returned a %d-bit value", bitlen, v.BitLen()), det)
			}
			if len(rec.log) != L {
				r.Violation("C19/random.Bits/stream-consumption", fmt.Sprintf("Bits(%d) consumed %d stream bytes instead of %d", bitlen, len(rec.log), L), det)
				continue
			}
			want := append([]byte(nil), rec.log...)
			if L > 0 {
				if bitlen%8 != 0 {
					want[0] &= byte(0xff >> (8 - uint(bitlen%8)))
				}
				if exact {
					want[0] |= 1 << uint((bitlen-1)%8)
				}
			}
			if !bytes.Equal(got, want) {
				det["want"] = mon.Hex(want)
				r.Violation("C19/random.Bits/not-masked-draw", "Bits is not the stream draw with surplus top bits cleared (and only the top bit forced when exact): the result is biased", det)
			}
			if bitlen%64 == 3 && variant == 0 && rep == 0 {
				r.SampleClass(fmt.Sprintf("bits:%v", exact), map[string]any{"kind": "random.Bits", "bitlen": bitlen, "exact": exact, "stream_hex": mon.Hex(rec.log), "result_hex": mon.Hex(got)})
			}
		}
	}
	// random.Bytes = XOR of the buffer with exactly len(b) stream bytes
	rng := gen.New(r.Seed, "C19/bytes", idx)
	rec := &c19Rec{fall: rng, limit: 64}
	n := idx % 601
	b := rng.Bytes(n)
	before := append([]byte(nil), b...)
	if r.Guard("C19/random.Bytes", map[string]any{"len": n}, func() { random.Bytes(b, rec) }) {
		r.Op("random.Bytes")
		evals.Add(1)
		r.Eval("random.Bytes", fmt.Sprint(idx), n > 0)
		ok := len(rec.log) == n
		for i := 0; ok && i < n; i++ {
			ok = b[i] == before[i]^rec.log[i]
		}
		if !ok {
			r.Violation("C19/random.Bytes/not-stream-xor", "random.Bytes did not XOR the buffer with exactly len(b) stream bytes",
				map[string]any{"len": n, "consumed": len(rec.log), "before": c19Head(before), "after": c19Head(b), "stream": c19Head(rec.log)})
		}
	}
}

// ---------------------------------------------------------------------------
// random.Int

func c19Enc(v *big.Int, l int) []byte { return v.FillBytes(make([]byte, l)) }

func c19IntJob(r *mon.R, idx int, evals *atomic.Int64) {
	bits := 1 + idx%521
	rep := idx / 521
	L := (bits + 7) / 8
	one := big.NewInt(1)
	rngM := gen.New(r.Seed, "C19/int/modulus", idx)
	lo := new(big.Int).Lsh(one, uint(bits-1)) // smallest value with this bit length
	hi := new(big.Int).Sub(new(big.Int).Lsh(one, uint(bits)), one)
	type modc struct {
		kind string
		M    *big.Int
	}
	var mods []modc
	seen := map[string]bool{}
	add := func(kind string, M *big.Int) {
		if M.BitLen() != bits || seen[M.String()] {
			return
		}
		seen[M.String()] = true
		mods = append(mods, modc{kind, M})
	}
	if rep == 0 {
		add("2^(b-1)", lo)
		add("2^(b-1)+1", new(big.Int).Add(lo, one))
		add("2^b-1", hi)
		add("2^b-2", new(big.Int).Sub(hi, one))
		add("2^(b-1)+2^(b-2)", new(big.Int).Add(lo, new(big.Int).Rsh(lo, 1)))
	}
	rm := new(big.Int).Add(lo, rngM.Big(lo))
	add("random", rm)
	for _, mc := range mods {
		M := mc.M
		top := new(big.Int).Lsh(one, uint(bits))
		garbage := func(v *big.Int) []byte { // encoding of v with every surplus top bit set
			b := c19Enc(v, L)
			if bits%8 != 0 {
				b[0] |= byte(0xff << uint(bits%8))
			}
			return b
		}
		type sv struct {
			name   string
			script []byte
		}
		variants := []sv{{"random", nil}}
		if rep == 0 {
			mm1 := new(big.Int).Sub(M, one)
			// draw == M must be rejected, draw == M-1 accepted
			variants = append(variants, sv{"M,M-1", append(c19Enc(M, L), c19Enc(mm1, L)...)})
			s2 := bytes.Repeat([]byte{0xff}, L)
			if mp := new(big.Int).Add(M, one); mp.Cmp(top) < 0 {
				s2 = append(s2, c19Enc(mp, L)...)
			}
			s2 = append(s2, c19Enc(hi, L)...)
			s2 = append(s2, make([]byte, L)...)
			variants = append(variants, sv{"ones,M+1,max,0", s2})
			if bits%8 != 0 {
				variants = append(variants, sv{"garbage-top-bits:M-1", garbage(mm1)})
				variants = append(variants, sv{"garbage-top-bits:M,0", append(garbage(M), garbage(new(big.Int))...)})
			}
		}
		for _, v := range variants {
			rng := gen.New(r.Seed, "C19/int/stream/"+mc.kind+"/"+v.name, idx)
			rec := &c19Rec{script: v.script, fall: rng, limit: 4096}
			det := map[string]any{"modulus_hex": M.Text(16), "modulus_bits": bits, "modulus_kind": mc.kind, "stream": v.name}
			var got *big.Int
			if !r.Guard("C19/random.Int", det, func() {
				res := random.Int(compatiblemod.FromBigInt(new(big.Int).Set(M)), rec)
				got = new(big.Int).Set(res.ToBigInt())
			}) {
				continue
			}
			r.Op("random.Int")
			want, draws, ok := ref.C19RejectionRef(M, rec.log)
			evals.Add(1)
			r.Eval("random.Int/"+mc.kind+"/"+v.name, fmt.Sprintf("%d|%d", bits, rep), draws >= 2 || bits%8 != 0)
			if draws >= 2 {
				r.NoteAdd("int_cases_with_rejection", 1)
			} else {
				r.NoteAdd("int_cases_first_draw_accepted", 1)
			}
			stream := rec.log
			if len(stream) > 6*L {
				stream = stream[:6*L]
			}
			det["stream_hex_first_draws"] = mon.Hex(stream)
			det["draw_bytes"] = L
			det["stream_bytes_consumed"] = len(rec.log)
			det["got_hex"] = got.Text(16)
			if got.Sign() < 0 || got.Cmp(M) >= 0 {
				r.Violation("C19/random.Int/out-of-range", "random.Int returned a value that is not below the modulus", det)
				continue
			}
			if !ok {
				det["ref"] = fmt.Sprintf("no candidate below M among the %d complete draws consumed", draws)
				r.Violation("C19/random.Int/not-first-candidate-below-modulus", "random.Int returned although none of the masked draws it consumed is below the modulus (result not obtained by rejection sampling)", det)
				continue
			}
			det["want_hex"] = want.Text(16)
			det["ref_draws"] = draws
			if got.Cmp(want) != 0 {
				r.Violation("C19/random.Int/not-first-candidate-below-modulus", "random.Int is not the first masked draw below the modulus (modulo bias or wrong acceptance test)", det)
			}
			if bits%97 == 5 && rep == 0 {
				r.SampleClass("int:"+mc.kind+":"+v.name, map[string]any{"kind": "random.Int", "modulus_hex": M.Text(16), "stream": v.name, "draws": draws, "result_hex": got.Text(16)})
			}
		}
	}
}

// ---------------------------------------------------------------------------
// random.New(readers...)

var errC19Reader = errors.New("harness reader: scripted failure")

// c19Script: flat data plus an event list (length of a data chunk, or -1 = error).
// After the last event the reader fails forever.
type c19Script struct {
	kind string
	flat []byte
	evs  []int
}

type c19Reader struct {
	s       *c19Script
	ei, eo  int // event index, offset inside the data event
	fo      int // offset in flat
	call    int
	got     [][]byte // per call: bytes delivered
	errored []bool   // per call: an error was returned
	asked   []bool   // per call: Read was called at all
}

func (rd *c19Reader) begin(call int) {
	rd.call = call
	for len(rd.got) <= call {
		rd.got = append(rd.got, nil)
		rd.errored = append(rd.errored, false)
		rd.asked = append(rd.asked, false)
	}
}

func (rd *c19Reader) Read(p []byte) (int, error) {
	rd.asked[rd.call] = true
	if rd.ei >= len(rd.s.evs) {
		rd.errored[rd.call] = true
		return 0, errC19Reader
	}
	ev := rd.s.evs[rd.ei]
	if ev < 0 {
		rd.ei++
		rd.errored[rd.call] = true
		return 0, errC19Reader
	}
	n := ev - rd.eo
	if n > len(p) {
		n = len(p)
	}
	copy(p, rd.s.flat[rd.fo:rd.fo+n])
	rd.got[rd.call] = append(rd.got[rd.call], rd.s.flat[rd.fo:rd.fo+n]...)
	rd.fo += n
	rd.eo += n
	if rd.eo >= ev {
		rd.ei++
		rd.eo = 0
	}
	return n, nil
}

const c19RdrKinds = 8

var c19RdrKindName = []string{"full", "chunky", "fail", "short", "fail-later", "recover", "misaligned", "short-then-recover"}

func c19MkScript(kind int, rng *gen.Rng) *c19Script {
	s := &c19Script{kind: c19RdrKindName[kind], flat: rng.Bytes(256)}
	switch kind {
	case 0:
		if rng.IntN(2) == 0 {
			s.evs = []int{200}
		} else {
			s.evs = []int{32, 32, 32, 32, 32}
		}
	case 1:
		for t := 0; t < 170; {
			c := 1 + rng.IntN(7)
			s.evs = append(s.evs, c)
			t += c
		}
	case 2:
	case 3:
		s.evs = []int{1 + rng.IntN(31)}
	case 4:
		for c := 1 + rng.IntN(2); c > 0; c-- {
			s.evs = append(s.evs, 32)
		}
	case 5:
		s.evs = []int{-1, 32, 32, 32, 32}
	case 6:
		s.evs = []int{40, -1, 32, 32, 32}
	case 7:
		s.evs = []int{1 + rng.IntN(31), -1, 64, 64}
	}
	return s
}

// c19Rechunk keeps the byte stream and the error positions, changes the data chunking.
func c19Rechunk(s *c19Script, rng *gen.Rng) *c19Script {
	out := &c19Script{kind: s.kind, flat: s.flat}
	run := 0
	flush := func() {
		for run > 0 {
			c := 1 + rng.IntN(run)
			if rng.IntN(8) == 0 {
				out.evs = append(out.evs, 0) // a (0,nil) read: allowed by io.Reader, ReadFull retries
			}
			out.evs = append(out.evs, c)
			run -= c
		}
	}
	for _, e := range s.evs {
		if e < 0 {
			flush()
			out.evs = append(out.evs, -1)
		} else {
			run += e
		}
	}
	flush()
	return out
}

type c19RdrCase struct {
	kinds []int
	rep   int
}

func c19ReaderCases(r *mon.R) []c19RdrCase {
	var out []c19RdrCase
	reps := r.N(1, 10)
	sel := gen.New(r.Seed, "C19/readers/select", 0)
	for rep := 0; rep < reps; rep++ {
		for n := 1; n <= 4; n++ {
			tot := 1
			for i := 0; i < n; i++ {
				tot *= c19RdrKinds
			}
			for a := 0; a < tot; a++ {
				if n == 4 && !r.Thorough() && sel.IntN(2) != 0 {
					continue
				}
				ks := make([]int, n)
				x := a
				for i := range ks {
					ks[i] = x % c19RdrKinds
					x /= c19RdrKinds
				}
				out = append(out, c19RdrCase{ks, rep})
			}
		}
	}
	return out
}

type c19RdrRun struct {
	ks       [][]byte // per call: key-stream revealed (nil if panicked)
	panicked []bool
	pmsg     []string
	rds      []*c19Reader
}

func c19RunReaders(scripts []*c19Script, lens []int, srcs [][]byte) *c19RdrRun {
	run := &c19RdrRun{}
	var ios []io.Reader
	for _, s := range scripts {
		rd := &c19Reader{s: s}
		run.rds = append(run.rds, rd)
		ios = append(ios, rd)
	}
	st := random.New(ios...)
	for c, l := range lens {
		for _, rd := range run.rds {
			rd.begin(c)
		}
		src := append([]byte(nil), srcs[c]...)
		dst := make([]byte, l)
		msg, p := mon.Try(func() { st.XORKeyStream(dst, src) })
		run.panicked = append(run.panicked, p)
		run.pmsg = append(run.pmsg, msg)
		if p {
			run.ks = append(run.ks, nil)
			continue
		}
		for i := range dst {
			dst[i] ^= srcs[c][i]
		}
		run.ks = append(run.ks, dst)
	}
	return run
}

func c19ReadersJob(r *mon.R, idx int, evals *atomic.Int64) {
	cs := c19RdrCases[idx]
	rng := gen.New(r.Seed, "C19/readers", idx)
	var scripts []*c19Script
	var names []string
	for _, k := range cs.kinds {
		s := c19MkScript(k, rng)
		scripts = append(scripts, s)
		names = append(names, s.kind)
	}
	const K = 3
	lens := make([]int, K)
	srcs := make([][]byte, K)
	for c := range lens {
		lens[c] = 16 + rng.IntN(80)
		if rng.IntN(6) == 0 {
			lens[c] = gen.Pick(rng, []int{0, 1, 600})
		}
		srcs[c] = rng.Bytes(lens[c])
	}
	desc := fmt.Sprintf("%v|%d", names, cs.rep)
	det := func(extra map[string]any) map[string]any {
		d := map[string]any{"readers": names, "case": idx, "rng": fmt.Sprintf("gen.New(seed,\"C19/readers\",%d)", idx), "call_lengths": lens}
		var sc []any
		for _, s := range scripts {
			sc = append(sc, map[string]any{"kind": s.kind, "events(-1=error; then error forever)": s.evs, "data_hex_first_128": mon.Hex(s.flat[:128])})
		}
		d["scripts"] = sc
		for k, v := range extra {
			d[k] = v
		}
		return d
	}
	var A *c19RdrRun
	if !r.Guard("C19/random.New/readers", det(nil), func() { A = c19RunReaders(scripts, lens, srcs) }) {
		return
	}
	r.Op("random.New", "randstream.XORKeyStream")
	// ---- ledger of what was really delivered, per call
	for c := 0; c < K; c++ {
		anyFull, allNothing, anyBytes := false, true, false
		h := sha256.New()
		var delivered []string
		for _, rd := range A.rds {
			g := rd.got[c]
			h.Write(g)
			delivered = append(delivered, fmt.Sprintf("%d bytes, err=%v", len(g), rd.errored[c]))
			if len(g) >= 32 && !rd.errored[c] {
				anyFull = true
			}
			if len(g) > 0 || !rd.errored[c] {
				allNothing = false
			}
			if len(g) > 0 {
				anyBytes = true
			}
		}
		ex := map[string]any{"call": c, "delivered_in_this_call": delivered, "panicked": A.panicked[c], "panic": A.pmsg[c]}
		// every reader must be consulted in every call (also one that failed or was short in an earlier call: it may have
		// recovered, and the stream is documented to depend on every reader)
		for i, rd := range A.rds {
			evals.Add(1)
			r.Eval("random.New/every-reader-consulted-in-every-call", fmt.Sprintf("%s|%d|%d", desc, c, i), c > 0)
			if !rd.asked[c] {
				ex["reader"] = i
				r.Violation("C19/random.New/reader-not-consulted", "a reader was not asked for entropy in a call (after it failed or was short in an earlier call)", det(ex))
				delete(ex, "reader")
			}
		}
		switch {
		case anyFull:
			evals.Add(1)
			r.Eval("random.New/works-while-one-reader-works", fmt.Sprintf("%s|%d", desc, c), len(A.rds) > 1)
			if A.panicked[c] {
				r.Violation("C19/random.New/panic-although-a-reader-worked", "XORKeyStream panicked although at least one reader delivered its 32 bytes without error", det(ex))
			}
		case allNothing:
			evals.Add(1)
			r.Eval("random.New/all-readers-failed", fmt.Sprintf("%s|%d", desc, c), true)
			if !A.panicked[c] {
				ex["output"] = c19Head(A.ks[c])
				r.Violation("C19/random.New/all-readers-failed/no-panic", "every reader failed without delivering a byte, yet XORKeyStream produced (predictable) output instead of panicking", det(ex))
			}
		default:
			// every reader errored but some delivered bytes: the property does not say whether this "works"
			if A.panicked[c] {
				r.NoteAdd("readers_all_short_calls_panicked(unjudged)", 1)
			} else {
				r.NoteAdd("readers_all_short_calls_returned(unjudged)", 1)
			}
		}
		if !A.panicked[c] {
			// documented mechanism: key-stream = blake2xb(sha256(consumed bytes in reader order))
			want := ref.C19SingleShot("blake2xb", h.Sum(nil), nil, lens[c])
			evals.Add(1)
			r.Eval("random.New/known-answer", fmt.Sprintf("%s|%d", desc, c), lens[c] > 0 && anyBytes)
			if !bytes.Equal(A.ks[c], want) {
				ex["got"], ex["want"] = c19Head(A.ks[c]), c19Head(want)
				r.Violation("C19/random.New/known-answer", "output is not blake2xb keyed with sha256 of the bytes the readers delivered in this call", det(ex))
			}
		}
	}
	// ---- same consumed bytes, other chunking => same behaviour
	rc := gen.New(r.Seed, "C19/readers/rechunk", idx)
	var scriptsB []*c19Script
	for _, s := range scripts {
		scriptsB = append(scriptsB, c19Rechunk(s, rc))
	}
	var B *c19RdrRun
	if r.Guard("C19/random.New/readers-rechunked", det(nil), func() { B = c19RunReaders(scriptsB, lens, srcs) }) {
		for c := 0; c < K; c++ {
			evals.Add(1)
			r.Eval("random.New/deterministic-in-consumed-bytes", fmt.Sprintf("%s|%d", desc, c), !A.panicked[c] && lens[c] > 0)
			if A.panicked[c] != B.panicked[c] || !bytes.Equal(A.ks[c], B.ks[c]) {
				var evB []any
				for _, s := range scriptsB {
					evB = append(evB, s.evs)
				}
				r.Violation("C19/random.New/not-deterministic-in-consumed-bytes", "readers supplying the same bytes and failures in different chunk sizes gave a different result",
					det(map[string]any{"call": c, "rechunked_events": evB, "a": c19Head(A.ks[c]), "b": c19Head(B.ks[c]), "a_panicked": A.panicked[c], "b_panicked": B.panicked[c]}))
			}
		}
	}
	// ---- dependence on every reader: flip one consumed bit of reader j in call c
	for j := range scripts {
		start := 0
		for c := 0; c < K; c++ {
			g := A.rds[j].got[c]
			off := start
			start += len(g)
			if len(g) == 0 || A.panicked[c] || lens[c] < 16 {
				continue
			}
			t := rng.IntN(len(g))
			bit := rng.IntN(8)
			var scriptsC []*c19Script
			for i, s := range scripts {
				if i == j {
					f := append([]byte(nil), s.flat...)
					f[off+t] ^= 1 << uint(bit)
					s = &c19Script{kind: s.kind, flat: f, evs: s.evs}
				}
				scriptsC = append(scriptsC, s)
			}
			ex := map[string]any{"call": c, "reader": j, "reader_kind": scripts[j].kind, "flipped_data_offset": off + t, "bit": bit, "bytes_reader_delivered_in_call": len(g)}
			var C *c19RdrRun
			if !r.Guard("C19/random.New/readers-flipped", det(ex), func() { C = c19RunReaders(scriptsC, lens, srcs) }) {
				continue
			}
			evals.Add(1)
			cls := "random.New/depends-on-every-reader/full-contribution"
			if len(g) < 32 {
				cls = "random.New/depends-on-every-reader/short-contribution"
			}
			r.Eval(cls, fmt.Sprintf("%s|r%d|c%d", desc, j, c), len(scripts) > 1)
			if C.panicked[c] || bytes.Equal(C.ks[c], A.ks[c]) {
				ex["output"] = c19Head(A.ks[c])
				what := "full"
				if len(g) < 32 {
					what = "short"
				}
				r.Violation("C19/random.New/output-independent-of-a-"+what+"-reader", "flipping one bit of the bytes a reader supplied to this call did not change the output of the call", det(ex))
			}
			for c2 := 0; c2 < c; c2++ {
				if C.panicked[c2] != A.panicked[c2] || !bytes.Equal(C.ks[c2], A.ks[c2]) {
					ex["earlier_call"] = c2
					r.Violation("C19/random.New/earlier-output-changed", "a bit consumed by a later call changed the output of an earlier call", det(ex))
				}
			}
		}
	}
	if cs.rep == 0 && (idx%97 == 0) {
		r.SampleClass(fmt.Sprintf("readers:%d", len(scripts)), map[string]any{"kind": "random.New(readers)", "readers": names, "call_lengths": lens, "panicked": A.panicked})
	}
	// ---- default reader (crypto/rand): not reproducible, so only: works, and two outputs differ
	if idx == 0 {
		var a, b [64]byte
		if r.Guard("C19/random.New/default", nil, func() {
			st := random.New()
			st.XORKeyStream(a[:], a[:])
			st.XORKeyStream(b[:], b[:])
		}) {
			evals.Add(1)
			r.Eval("random.New/default-reader", "crypto/rand", true)
			if a == b {
				r.Violation("C19/random.New/default/repeats", "random.New() returned the same 64 bytes twice", map[string]any{"a": mon.Hex(a[:])})
			}
		}
	}
}
