package main

import (
	"bytes"
	"fmt"

	"go.dedis.ch/kyber/v4"
	"go.dedis.ch/kyber/v4/encrypt/ibe"

	"verif/internal/gen"
	"verif/internal/groups"
	"verif/internal/mon"
)

// c16ibeMode describes one of the three IBE constructions on one suite.
type c16ibeMode struct {
	ps   *groups.PS
	mode string // cca-g1 | cca-g2 | cpa-g1
}

// uGroup is the group of U / RP and of the master public key; idGroup is the group identities are hashed to.
func (m c16ibeMode) uGroup() kyber.Group {
	if m.mode == "cca-g2" {
		return m.ps.S.G2()
	}
	return m.ps.S.G1()
}
func (m c16ibeMode) idGroup() kyber.Group {
	if m.mode == "cca-g2" {
		return m.ps.S.G1()
	}
	return m.ps.S.G2()
}

func c16IBEModes(r *mon.R) []c16ibeMode {
	var out []c16ibeMode
	var skipped []string
	for _, ps := range groups.Suites() {
		if !c16Sel(ps.Name) {
			continue
		}
		for _, mode := range []string{"cca-g1", "cca-g2", "cpa-g1"} {
			m := c16ibeMode{ps, mode}
			if _, ok := m.idGroup().Point().(kyber.HashablePoint); !ok {
				skipped = append(skipped, ps.Name+"/"+mode)
				continue
			}
			out = append(out, m)
		}
	}
	r.Note("ibe:modes-skipped(identity group not hashable)", skipped)
	return out
}

func c16IBELens(r *mon.R, hs int) (ok, beyond []int) {
	if r.Thorough() {
		for l := 0; l <= hs; l++ {
			ok = append(ok, l)
		}
		for l := hs + 1; l <= hs+40; l++ {
			beyond = append(beyond, l)
		}
		beyond = append(beyond, 2*hs-1, 2*hs, 2*hs+1, 127, 128, 255, 256, 257, 511, 1023, 1024, 2048, 4095, 4096)
		return
	}
	ok = []int{0, 1, 2, 15, 16, 17, hs - 1, hs}
	beyond = []int{hs + 1, hs + 2, hs + 15, hs + 16, 2*hs - 1, 2 * hs, 2*hs + 1, 255, 256, 1023, 4096}
	return
}

func c16IBEJobs(r *mon.R) []c16job {
	var jobs []c16job
	for _, m := range c16IBEModes(r) {
		hs := m.ps.S.Hash().Size()
		okL, beyond := c16IBELens(r, hs)
		cost := 20
		if m.ps.Name == "bn254" || m.ps.Name == "bn256" {
			cost = 30
		}
		for _, l := range okL {
			for rep := 0; rep < r.N(2, 4); rep++ {
				m, l, rep := m, l, rep
				jobs = append(jobs, c16job{cost: cost, name: fmt.Sprintf("ibe-%s/%s/l=%d/rep=%d", m.mode, m.ps.Name, l, rep),
					run: func(w int) { c16IBECase(r, m, l, rep, hs) }})
			}
		}
		for _, l := range beyond {
			for rep := 0; rep < r.N(1, 2); rep++ {
				m, l, rep := m, l, rep
				jobs = append(jobs, c16job{cost: 3, name: fmt.Sprintf("ibe-%s/%s/l=%d/rep=%d", m.mode, m.ps.Name, l, rep),
					run: func(w int) { c16IBECase(r, m, l, rep, hs) }})
			}
		}
		if m.mode != "cpa-g1" {
			m := m
			jobs = append(jobs, c16job{cost: 40, name: fmt.Sprintf("ibe-%s/%s/short-sigma", m.mode, m.ps.Name),
				run: func(w int) { c16IBEShortSigma(r, m) }})
		}
	}
	return jobs
}

// c16ibeKeys is the key material of one case.
type c16ibeKeys struct {
	ms         kyber.Scalar
	base       kyber.Point // generator used for the master public key
	master     kyber.Point // ms*base in uGroup
	id         []byte
	priv       []byte // encoding of ms*H(id) in idGroup
	idClass    string
	baseRandom bool
}

func c16IBESetup(m c16ibeMode, rng *gen.Rng, rep int) c16ibeKeys {
	var k c16ibeKeys
	ug, ig := m.uGroup(), m.idGroup()
	k.ms = ug.Scalar().Pick(rng.Stream())
	k.base = ug.Point().Base()
	if m.mode == "cpa-g1" && rep%2 == 1 {
		// the CPA scheme takes the generator as a parameter: use another generator of G1
		k.base = ug.Point().Mul(ug.Scalar().Pick(rng.Stream()), nil)
		k.baseRandom = true
	}
	k.master = ug.Point().Mul(k.ms, k.base)
	switch rep % 4 {
	case 0:
		k.id, k.idClass = rng.Bytes(8+rng.IntN(24)), "random"
	case 1:
		k.id, k.idClass = []byte{}, "empty"
	case 2:
		k.id, k.idClass = []byte(fmt.Sprintf("round-%d", rng.IntN(1<<30))), "ascii"
	default:
		k.id, k.idClass = rng.Bytes(200+rng.IntN(900)), "long"
	}
	q := ig.Point().(kyber.HashablePoint).Hash(k.id)
	k.priv = c16Enc(ig.Point().Mul(k.ms, q))
	return k
}

func c16Dec(g kyber.Group, b []byte) kyber.Point {
	p := g.Point()
	if err := p.UnmarshalBinary(b); err != nil {
		panic(fmt.Sprintf("harness: cannot decode a point the library encoded: %v (%x)", err, b))
	}
	return p
}

func c16IBECase(r *mon.R, m c16ibeMode, l, rep, hs int) {
	s := m.ps.S
	rng := gen.New(r.Seed, fmt.Sprintf("C16/ibe/%s/%s/%d", m.mode, m.ps.Name, l), rep)
	c := &c16c{r: r, scheme: "ibe-" + m.mode, inst: m.ps.Name, caseID: fmt.Sprintf("%s|l=%d|rep=%d", m.ps.Name, l, rep)}
	k := c16IBESetup(m, rng, rep)
	mclass := "random"
	if rep >= 2 {
		mclass = c16MsgClass(rep + 1)
	}
	msg := c16Msg(rng, l, mclass)
	c.base = map[string]any{"len": l, "hash_size": hs, "id": c16HexCap(k.id), "id_class": k.idClass, "master_secret": mon.Hex(c16Enc(k.ms)),
		"master_public": mon.Hex(c16Enc(k.master)), "private": mon.Hex(k.priv), "msg_class": mclass, "msg": c16HexCap(msg)}
	if m.mode == "cpa-g1" {
		c.base["base_point"] = mon.Hex(c16Enc(k.base))
		c16IBECPACase(r, c, m, k, rng, msg, mclass, l, rep, hs)
		return
	}
	encName, decName := "EncryptCCAonG1", "DecryptCCAonG1"
	encrypt, decrypt := ibe.EncryptCCAonG1, ibe.DecryptCCAonG1
	if m.mode == "cca-g2" {
		encName, decName = "EncryptCCAonG2", "DecryptCCAonG2"
		encrypt, decrypt = ibe.EncryptCCAonG2, ibe.DecryptCCAonG2
	}
	r.Op("ibe."+encName, "ibe."+decName)
	ug, ig := m.uGroup(), m.idGroup()

	var ct *ibe.Ciphertext
	var err error
	masterIn, idIn, msgIn := c16Dec(ug, c16Enc(k.master)), append([]byte(nil), k.id...), append([]byte(nil), msg...)
	encSnap := c16Snap().add("master-public-key", c16P(masterIn)).add("identity", c16S(&idIn)).add("message", c16S(&msgIn))
	if !c.call(encName, "honest", func() { ct, err = encrypt(s, masterIn, idIn, msgIn) }) {
		return
	}
	c.intact(encSnap, encName, "honest", err != nil)
	if l > hs {
		c.eval("encrypt/beyond-hash-size", "enc", true)
		if err != nil {
			r.NoteAdd("refused-at-encryption:"+c.scheme, 1)
			if rep == 0 {
				r.SampleClass("ibe-refuse:"+m.mode+":"+m.ps.Name, map[string]any{"scheme": c.scheme, "suite": m.ps.Name, "len": l, "hash_size": hs, "encrypt_error": err.Error()})
			}
			return
		}
		// accepted: then the scheme claims it can protect it — judge it like any other ciphertext below
		r.NoteAdd("accepted-beyond-hash-size:"+c.scheme, 1)
	} else {
		c.eval("encrypt/accepted", "enc", true)
		if err != nil {
			r.Violation(c.key(encName, "refused-protectable-message"), encName+" refused a message of at most the hash size: "+err.Error(), c.det())
			return
		}
	}
	Ub := c16Enc(ct.U)
	V, W := append([]byte(nil), ct.V...), append([]byte(nil), ct.W...)
	c.base["U"], c.base["V"], c.base["W"] = mon.Hex(Ub), c16HexCap(V), c16HexCap(W)
	priv := c16Dec(ig, k.priv)

	dec := func(class string, key kyber.Point, U kyber.Point, v, w []byte, kv ...any) (pt []byte, e error, ok bool) {
		cc := &ibe.Ciphertext{U: U, V: append([]byte(nil), v...), W: append([]byte(nil), w...)}
		sn := c16Snap().add("private-key", c16P(key)).add("ciphertext.U", c16P(cc.U)).add("ciphertext.V", c16S(&cc.V)).add("ciphertext.W", c16S(&cc.W))
		ok = c.call(decName, class, func() { pt, e = decrypt(s, key, cc) }, kv...)
		if ok {
			c.intact(sn, decName, class, e != nil, kv...)
		}
		return
	}

	// (1b) round trip
	pt, err, ok := dec("roundtrip", priv, c16Dec(ug, Ub), V, W)
	if ok {
		c.eval("roundtrip/"+c16IBELenClass(l, hs), "rt", true)
		if err != nil {
			r.Violation(c.key(decName, "roundtrip/error"), "IBE-CCA round trip failed: "+err.Error(), c.det())
		} else if !bytes.Equal(pt, msg) {
			r.Violation(c.key(decName, "roundtrip/wrong-plaintext"), "IBE-CCA round trip returned a different message", c.det("returned", mon.Hex(pt)))
		} else {
			c16Mark(c.scheme)
		}
	}
	if rep == 0 {
		r.SampleClass("ibe:"+m.mode+":"+m.ps.Name+":"+c16IBELenClass(l, hs), map[string]any{"scheme": c.scheme, "suite": m.ps.Name, "len": l, "U_len": len(Ub), "V_len": len(V), "W_len": len(W), "roundtrip": err == nil && bytes.Equal(pt, msg)})
	}

	// (1c) the same Ciphertext object decrypted again, and once more after a failed wrong-key attempt
	{
		obj := &ibe.Ciphertext{U: c16Dec(ug, Ub), V: append([]byte(nil), V...), W: append([]byte(nil), W...)}
		key := c16Dec(ig, k.priv)
		wrong := ig.Point().Mul(k.ms, ig.Point().(kyber.HashablePoint).Hash([]byte("C16 repeat: some other identity")))
		c.repeat(decName, msg, mclass == "random",
			func() ([]byte, error) { return decrypt(s, key, obj) },
			func() ([]byte, error) { return decrypt(s, wrong, obj) },
			func() []byte { return append(append(c16Enc(obj.U), obj.V...), obj.W...) })
	}

	// (2) wrong keys / identities
	otherID := append(append([]byte(nil), k.id...), 0x01)
	ms2 := ug.Scalar().Pick(rng.Stream())
	q := ig.Point().(kyber.HashablePoint).Hash(k.id)
	wks := []struct {
		name string
		p    kyber.Point
	}{
		{"other-identity", ig.Point().Mul(k.ms, ig.Point().(kyber.HashablePoint).Hash(otherID))},
		{"other-master", ig.Point().Mul(ms2, q)},
		{"negated", ig.Point().Neg(priv)},
		{"unkeyed-Qid", ig.Point().Set(q)},
		{"identity-element", ig.Point().Null()},
	}
	for _, wk := range wks {
		if wk.p.Equal(priv) {
			continue
		}
		p, e, ok := dec("wrong-key/"+wk.name, c16Dec(ig, c16Enc(wk.p)), c16Dec(ug, Ub), V, W, "wrong_key", mon.Hex(c16Enc(wk.p)))
		if !ok {
			continue
		}
		if l < 4 {
			// sigma has l bytes: a wrong key reproduces it with probability 2^-8l (certainly for l = 0).
			c.eval("wrong-key-short-message/"+wk.name, "key="+wk.name, false)
			if e == nil && bytes.Equal(p, msg) {
				r.NoteAdd(fmt.Sprintf("ibe-cca:wrong key accepted, same plaintext returned (len=%d, sigma of %d bytes)", l, l), 1)
				continue
			}
			if e == nil {
				c.altered(decName, "wrong-key/"+wk.name, "key="+wk.name, p, e, msg, "wrong_key", mon.Hex(c16Enc(wk.p)))
			}
			continue
		}
		c.altered(decName, "wrong-key/"+wk.name, "key="+wk.name, p, e, msg, "wrong_key", mon.Hex(c16Enc(wk.p)))
	}

	// (3) alterations. U through its encoding …
	all := r.Thorough() && rep == 0
	ubits := c16Bits(rng, 8, len(Ub)*8, r.N(16, 56), all && l%8 == 0)
	ubits = append([]int{0, 1, 2, 3, 4, 5, 6, 7}, ubits...) // flag/sign bits of compressed encodings live in the first byte
	for _, b := range ubits {
		fb := gen.FlipBit(Ub, b)
		U2 := ug.Point()
		var derr error
		if !c.call("U.UnmarshalBinary", "flip/U", func() { derr = U2.UnmarshalBinary(fb) }, "bit", b) {
			continue
		}
		if derr != nil {
			c.eval("flip/U/decoder-rejected", fmt.Sprintf("bit=%d", b), true)
			r.NoteAdd("rejected:"+c.scheme, 1)
			continue
		}
		p, e, ok := dec("flip/U", priv, U2, V, W, "bit", b)
		if ok {
			c.altered(decName, "flip/U", fmt.Sprintf("bit=%d", b), p, e, msg, "bit", b, "U_altered", mon.Hex(fb))
		}
	}
	// … and by substitution with other valid group elements
	U0 := c16Dec(ug, Ub)
	subs := []struct {
		name string
		p    kyber.Point
	}{
		{"negated", ug.Point().Neg(U0)},
		{"plus-base", ug.Point().Add(U0, ug.Point().Base())},
		{"doubled", ug.Point().Add(U0, U0)},
		{"identity", ug.Point().Null()},
		{"random", ug.Point().Mul(ug.Scalar().Pick(rng.Stream()), nil)},
		{"master-public", ug.Point().Set(k.master)},
	}
	for _, sb := range subs {
		if sb.p.Equal(U0) {
			continue
		}
		p, e, ok := dec("substitute/U="+sb.name, priv, c16Dec(ug, c16Enc(sb.p)), V, W, "U_altered", mon.Hex(c16Enc(sb.p)))
		if ok {
			c.altered(decName, "substitute/U="+sb.name, "U="+sb.name, p, e, msg, "U_altered", mon.Hex(c16Enc(sb.p)))
		}
	}
	// V and W bit flips
	nVW := r.N(24, 64)
	for _, part := range []string{"V", "W"} {
		src := V
		if part == "W" {
			src = W
		}
		for _, b := range c16Bits(rng, 0, len(src)*8, nVW, all) {
			v2, w2 := V, W
			if part == "V" {
				v2 = gen.FlipBit(V, b)
			} else {
				w2 = gen.FlipBit(W, b)
			}
			p, e, ok := dec("flip/"+part, priv, c16Dec(ug, Ub), v2, w2, "bit", b, "part", part)
			if ok {
				c.altered(decName, "flip/"+part, fmt.Sprintf("%s bit=%d", part, b), p, e, msg, "bit", b, "part", part)
			}
		}
	}
	// truncations: V only, W only, both (every length in thorough, a few in quick)
	var cuts []int
	for _, cut := range c16Cuts(rng, len(W), []int{0, len(W)}, 2, r.N(4, 12), all) {
		cuts = append(cuts, cut)
	}
	for _, cut := range cuts {
		for _, which := range []string{"V", "W", "V+W"} {
			v2, w2 := V, W
			if which != "W" {
				v2 = V[:cut]
			}
			if which != "V" {
				w2 = W[:cut]
			}
			p, e, ok := dec("truncate/"+which, priv, c16Dec(ug, Ub), v2, w2, "cut", cut, "part", which)
			if ok {
				c.altered(decName, "truncate/"+which, fmt.Sprintf("%s cut=%d", which, cut), p, e, msg, "cut", cut, "part", which)
			}
		}
	}
	// extensions: V, W or both followed by extra bytes
	for _, extra := range []int{1, 7, 32, 128} {
		for _, which := range []string{"V", "W", "V+W"} {
			v2, w2 := V, W
			if which != "W" {
				v2 = append(append([]byte(nil), V...), rng.Bytes(extra)...)
			}
			if which != "V" {
				w2 = append(append([]byte(nil), W...), rng.Bytes(extra)...)
			}
			p, e, ok := dec("extend/"+which, priv, c16Dec(ug, Ub), v2, w2, "extra", extra, "part", which)
			if ok {
				c.altered(decName, "extend/"+which, fmt.Sprintf("%s extra=%d", which, extra), p, e, msg, "extra", extra, "part", which)
			}
		}
	}
	// V / W swapped (only an alteration if they differ)
	if !bytes.Equal(V, W) {
		p, e, ok := dec("swap/V<->W", priv, c16Dec(ug, Ub), W, V)
		if ok {
			c.altered(decName, "swap/V<->W", "swap", p, e, msg)
		}
	}

	// (4) clear-text scan over enc(U)||V||W
	if mclass == "random" {
		ser := append(append(append([]byte(nil), Ub...), V...), W...)
		kind, po, co := c16Scan(msg, ser)
		c.eval("scan/"+c16IBELenClass(l, hs), "scan", l >= 8)
		if kind != "" {
			r.Violation(c.key(encName, "plaintext-in-clear"), "IBE-CCA ciphertext contains plaintext in the clear ("+kind+")",
				c.det("pt_off", po, "ser_off", co, "run", c16RunLen(msg, ser, po, co)))
		}
	}
	if !bytes.Equal(c16Enc(priv), k.priv) {
		r.Inconclusive("C16 " + c.scheme + " " + m.ps.Name + ": the private key object changed during decryption calls (aliasing inside the library); later judgements of this case used a changed key")
	}
}

func c16IBELenClass(l, hs int) string {
	switch {
	case l == 0:
		return "len=0"
	case l < hs/2:
		return "len<hs/2"
	case l < hs:
		return "len<hs"
	case l == hs:
		return "len=hs"
	case l <= 2*hs:
		return "len=hs+1..2hs"
	}
	return "len>2hs"
}

func c16IBECPACase(r *mon.R, c *c16c, m c16ibeMode, k c16ibeKeys, rng *gen.Rng, msg []byte, mclass string, l, rep, hs int) {
	s := m.ps.S
	ug, ig := m.uGroup(), m.idGroup()
	r.Op("ibe.EncryptCPAonG1", "ibe.DecryptCPAonG1")
	var ct *ibe.CiphertextCPA
	var err error
	baseIn, masterIn, idIn, msgIn := c16Dec(ug, c16Enc(k.base)), c16Dec(ug, c16Enc(k.master)), append([]byte(nil), k.id...), append([]byte(nil), msg...)
	encSnap := c16Snap().add("base-point", c16P(baseIn)).add("master-public-key", c16P(masterIn)).add("identity", c16S(&idIn)).add("message", c16S(&msgIn))
	if !c.call("EncryptCPAonG1", "honest", func() { ct, err = ibe.EncryptCPAonG1(s, baseIn, masterIn, idIn, msgIn) }) {
		return
	}
	c.intact(encSnap, "EncryptCPAonG1", "honest", err != nil)
	if l > hs {
		c.eval("encrypt/beyond-hash-size", "enc", true)
		if err != nil {
			r.NoteAdd("refused-at-encryption:"+c.scheme, 1)
			if rep == 0 {
				r.SampleClass("ibe-refuse:"+m.mode+":"+m.ps.Name, map[string]any{"scheme": c.scheme, "suite": m.ps.Name, "len": l, "hash_size": hs, "encrypt_error": err.Error()})
			}
			return
		}
		r.NoteAdd("accepted-beyond-hash-size:"+c.scheme, 1)
	} else {
		c.eval("encrypt/accepted", "enc", true)
		if err != nil {
			r.Violation(c.key("EncryptCPAonG1", "refused-protectable-message"), "EncryptCPAonG1 refused a message of at most the hash size: "+err.Error(), c.det())
			return
		}
	}
	RPb := c16Enc(ct.RP)
	C := append([]byte(nil), ct.C...)
	c.base["RP"], c.base["C"] = mon.Hex(RPb), c16HexCap(C)
	priv := c16Dec(ig, k.priv)
	dec := func(class string, key kyber.Point, RP kyber.Point, cc []byte, kv ...any) (pt []byte, e error, ok bool) {
		x := &ibe.CiphertextCPA{RP: RP, C: append([]byte(nil), cc...)}
		sn := c16Snap().add("private-key", c16P(key)).add("ciphertext.RP", c16P(x.RP)).add("ciphertext.C", c16S(&x.C))
		ok = c.call("DecryptCPAonG1", class, func() { pt, e = ibe.DecryptCPAonG1(s, key, x) }, kv...)
		if ok {
			c.intact(sn, "DecryptCPAonG1", class, e != nil, kv...)
		}
		return
	}
	pt, err, ok := dec("roundtrip", priv, c16Dec(ug, RPb), C)
	if ok {
		c.eval("roundtrip/"+c16IBELenClass(l, hs), "rt", true)
		if err != nil {
			r.Violation(c.key("DecryptCPAonG1", "roundtrip/error"), "IBE-CPA round trip failed: "+err.Error(), c.det())
		} else if !bytes.Equal(pt, msg) {
			r.Violation(c.key("DecryptCPAonG1", "roundtrip/wrong-plaintext"), "IBE-CPA round trip returned a different message", c.det("returned", c16HexCap(pt)))
		} else {
			c16Mark(c.scheme)
		}
	}
	if rep == 0 {
		r.SampleClass("ibe:"+m.mode+":"+m.ps.Name+":"+c16IBELenClass(l, hs), map[string]any{"scheme": c.scheme, "suite": m.ps.Name, "len": l, "RP_len": len(RPb), "C_len": len(C), "roundtrip": err == nil && bytes.Equal(pt, msg)})
	}
	// the same CiphertextCPA object decrypted again, and once more after an attempt with another identity's key
	{
		obj := &ibe.CiphertextCPA{RP: c16Dec(ug, RPb), C: append([]byte(nil), C...)}
		key := c16Dec(ig, k.priv)
		wrong := ig.Point().Mul(k.ms, ig.Point().(kyber.HashablePoint).Hash([]byte("C16 repeat: some other identity")))
		c.repeat("DecryptCPAonG1", msg, mclass == "random",
			func() ([]byte, error) { return ibe.DecryptCPAonG1(s, key, obj) },
			func() ([]byte, error) { return ibe.DecryptCPAonG1(s, wrong, obj) },
			func() []byte { return append(c16Enc(obj.RP), obj.C...) })
	}
	// clear-text scan over enc(RP)||C
	if mclass == "random" {
		ser := append(append([]byte(nil), RPb...), C...)
		kind, po, co := c16Scan(msg, ser)
		c.eval("scan/"+c16IBELenClass(l, hs), "scan", l >= 8)
		if kind != "" {
			run := c16RunLen(msg, ser, po, co)
			d := c.det("suite", m.ps.Name, "pt_off", po, "C_off", co-len(RPb), "run", run, "found", kind)
			r.NoteAdd("ibe-cpa:ciphertexts with plaintext in the clear", 1)
			if l > hs {
				// DESIGN §6 #14: one defect of the generic code, one key (suite in the witness)
				r.Violation(c16KeyCPALeak,
					fmt.Sprintf("EncryptCPAonG1 accepted a %d-byte message (hash size %d) and the ciphertext contains %d plaintext bytes in the clear from plaintext offset %d (%s): gtToHash fills only hash-size bytes of the pad",
						l, hs, run, po, kind), d)
			} else {
				r.Violation(c.key("EncryptCPAonG1", "plaintext-in-clear"),
					fmt.Sprintf("IBE-CPA ciphertext of a %d-byte message (hash size %d) contains %d plaintext bytes in the clear from plaintext offset %d (%s)", l, hs, run, po, kind), d)
			}
		}
	}
	// unauthenticated: wrong keys / alterations are only required not to panic
	if l <= hs && l > 0 {
		wrong := ig.Point().Mul(k.ms, ig.Point().(kyber.HashablePoint).Hash(append(append([]byte(nil), k.id...), 1)))
		if p, e, ok := dec("wrong-key/no-panic", wrong, c16Dec(ug, RPb), C); ok {
			c.eval("wrong-key/no-panic", "other-identity", true)
			if e == nil && bytes.Equal(p, msg) && l >= 4 {
				r.Violation(c.key("DecryptCPAonG1", "wrong-key/returned-the-plaintext"), "IBE-CPA decryption with the key of another identity returned the original message", c.det("wrong_key", mon.Hex(c16Enc(wrong))))
			}
		}
		for _, b := range c16Bits(rng, 0, len(C)*8, 4, false) {
			if _, _, ok := dec("flip/C/no-panic", priv, c16Dec(ug, RPb), gen.FlipBit(C, b), "bit", b); ok {
				c.eval("flip/C/no-panic", fmt.Sprintf("bit=%d", b), true)
			}
		}
		for _, cut := range []int{0, len(C) / 2} {
			if _, _, ok := dec("truncate/C/no-panic", priv, c16Dec(ug, RPb), C[:cut], "cut", cut); ok {
				c.eval("truncate/C/no-panic", fmt.Sprintf("cut=%d", cut), true)
			}
		}
		for _, extra := range []int{1, 7, 32, 33, 128} {
			if _, _, ok := dec("extend/C/no-panic", priv, c16Dec(ug, RPb), append(append([]byte(nil), C...), rng.Bytes(extra)...), "extra", extra); ok {
				c.eval("extend/C/no-panic", fmt.Sprintf("extra=%d", extra), true)
			}
		}
		if _, _, ok := dec("substitute/RP=identity/no-panic", priv, ug.Point().Null(), C); ok {
			c.eval("substitute/RP/no-panic", "identity", true)
		}
	}
}

// c16IBEShortSigma documents (as a note, not a verdict) what the holder of
// *another* identity's key can do with a 1-byte message: sigma is 1 byte, so
// trying the 256 values of V makes DecryptCCA accept exactly when sigma is hit,
// and it then returns the original plaintext.
func c16IBEShortSigma(r *mon.R, m c16ibeMode) {
	s := m.ps.S
	rng := gen.New(r.Seed, "C16/ibe/short-sigma/"+m.mode+"/"+m.ps.Name, 0)
	c := &c16c{r: r, scheme: "ibe-" + m.mode, inst: m.ps.Name, caseID: m.ps.Name + "|short-sigma"}
	k := c16IBESetup(m, rng, 0)
	encrypt, decrypt := ibe.EncryptCCAonG1, ibe.DecryptCCAonG1
	if m.mode == "cca-g2" {
		encrypt, decrypt = ibe.EncryptCCAonG2, ibe.DecryptCCAonG2
	}
	ug, ig := m.uGroup(), m.idGroup()
	msg := rng.Bytes(1)
	var ct *ibe.Ciphertext
	var err error
	if !c.call("EncryptCCA", "short-sigma", func() { ct, err = encrypt(s, k.master, k.id, msg) }) || err != nil {
		return
	}
	Ub := c16Enc(ct.U)
	wrong := ig.Point().Mul(k.ms, ig.Point().(kyber.HashablePoint).Hash([]byte("C16 some other identity")))
	hits, same := 0, 0
	for v := 0; v < 256; v++ {
		var p []byte
		var e error
		cc := &ibe.Ciphertext{U: c16Dec(ug, Ub), V: []byte{byte(v)}, W: append([]byte(nil), ct.W...)}
		if !c.call("DecryptCCA", "short-sigma", func() { p, e = decrypt(s, wrong, cc) }, "V", v) {
			return
		}
		if e == nil {
			hits++
			if bytes.Equal(p, msg) {
				same++
			}
		}
	}
	if hits > same {
		r.Violation(c.key("DecryptCCA", "wrong-key+enumerated-V/accepted-different-plaintext"), "IBE-CCA decryption with another identity's key and an enumerated V returned a plaintext different from the original", c.det("hits", hits, "same", same))
	}
	r.Note("ibe-cca short sigma: "+m.ps.Name+"/"+m.mode, fmt.Sprintf("1-byte message, key of another identity, V enumerated over 256 values: %d accepted, %d of them returned the original plaintext (observation, not judged: outside the property's observable)", hits, same))
}
