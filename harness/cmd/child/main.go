// Command child hosts the monitors; one sub-command per property.
package main

import (
	"flag"
	"fmt"
	"os"
	"sort"

	"verif/internal/mon"
)

type monitor func(r *mon.R)

var monitors = map[string]monitor{}

func register(id string, f monitor) { monitors[id] = f }

var (
	flagGroups = flag.String("groups", "", "comma-separated substrings selecting group instances")
	flagMode   = flag.String("mode", "", "monitor-specific mode (e.g. batch name)")
)

func main() {
	prop := flag.String("prop", "", "property id")
	tier := flag.String("tier", "quick", "quick|thorough")
	seed := flag.Int64("seed", 1, "seed")
	out := flag.String("out", "", "output directory")
	part := flag.String("part", "", "part label (k/n) for multi-process runs")
	only := flag.String("only", "", "restrict to cases whose key has this prefix")
	flag.Parse()
	f, ok := monitors[*prop]
	if !ok {
		var ids []string
		for k := range monitors {
			ids = append(ids, k)
		}
		sort.Strings(ids)
		fmt.Fprintln(os.Stderr, "unknown property; have", ids)
		os.Exit(3)
	}
	if *out == "" {
		fmt.Fprintln(os.Stderr, "-out required")
		os.Exit(3)
	}
	r := mon.New(*prop, *tier, *seed, *part, *out)
	r.Only = *only
	f(r)
	r.Finish()
}
