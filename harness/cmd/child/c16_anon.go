package main

import (
	"bytes"
	"fmt"

	"go.dedis.ch/kyber/v4"
	"go.dedis.ch/kyber/v4/group/edwards25519"
	"go.dedis.ch/kyber/v4/group/edwards25519vartime"
	"go.dedis.ch/kyber/v4/group/p256"
	"go.dedis.ch/kyber/v4/sign/anon"
	"go.dedis.ch/kyber/v4/util/key"

	"verif/internal/gen"
	"verif/internal/mon"
)

type c16ag struct {
	name string
	mk   func(rng *gen.Rng) anon.Suite
	cost int
}

func c16AnonGroups() []c16ag {
	return []c16ag{
		{"ed25519", func(rng *gen.Rng) anon.Suite { return edwards25519.NewBlakeSHA256Ed25519WithRand(rng.Stream()) }, 6},
		{"edvartime", func(rng *gen.Rng) anon.Suite { return edwards25519vartime.NewBlakeSHA256Ed25519(false) }, 200},
		{"p256", func(rng *gen.Rng) anon.Suite { return p256.NewBlakeSHA256P256() }, 4},
	}
}

func c16AnonJobs(r *mon.R) []c16job {
	var jobs []c16job
	long := c16LongLens()
	for _, G := range c16AnonGroups() {
		if !c16Sel(G.name) {
			continue
		}
		ci := 0
		for n := 1; n <= 6; n++ {
			for mine := 0; mine < n; mine++ {
				var lens []int
				if r.Thorough() {
					per := 30
					if G.name == "p256" {
						per = 24
					}
					for k := 0; k < per; k++ {
						lens = append(lens, long[(ci*per+k*7)%len(long)])
					}
					lens = append(lens, 0, 4096)
				} else {
					for k := 0; k < 6; k++ {
						lens = append(lens, c16QuickLens[(ci*6+k)%len(c16QuickLens)])
					}
				}
				if G.name == "edvartime" {
					// big.Int arithmetic, ~40x slower: a thin slice of the same matrix (the code under test is group-generic)
					if ci%5 != 0 {
						ci++
						continue
					}
					lens = lens[:min(len(lens), r.N(3, 8))]
				}
				seen := map[int]bool{}
				for _, l := range lens {
					if seen[l] {
						continue
					}
					seen[l] = true
					G, n, mine, l, rep := G, n, mine, l, ci
					jobs = append(jobs, c16job{cost: G.cost * (n + 2), name: fmt.Sprintf("anon/%s/n=%d/mine=%d/l=%d", G.name, n, mine, l),
						run: func(w int) { c16AnonCase(r, G, n, mine, l, rep) }})
				}
				ci++
			}
		}
	}
	return jobs
}

func c16AnonCase(r *mon.R, G c16ag, n, mine, l, rep int) {
	rng := gen.New(r.Seed, fmt.Sprintf("C16/anon/%s/%d/%d/%d", G.name, n, mine, l), rep)
	suite := G.mk(rng)
	c := &c16c{r: r, scheme: "anon", inst: G.name, caseID: fmt.Sprintf("%s|n=%d|mine=%d|l=%d", G.name, n, mine, l)}
	r.Op("anon.Encrypt", "anon.Decrypt")

	// recipients: key.NewKeyPair on the seeded suite (Ed25519: the key.Generator path) or Pick from a seeded stream
	keyClass := "pick"
	if G.name == "ed25519" && rep%2 == 0 {
		keyClass = "key.NewKeyPair"
		r.Op("key.NewKeyPair")
	}
	var xs []kyber.Scalar
	var pubs [][]byte
	for i := 0; i < n; i++ {
		var x kyber.Scalar
		var X kyber.Point
		if keyClass == "key.NewKeyPair" {
			kp := key.NewKeyPair(suite)
			x, X = kp.Private, kp.Public
		} else {
			x = suite.Scalar().Pick(rng.Stream())
			X = suite.Point().Mul(x, nil)
		}
		xs = append(xs, x)
		pubs = append(pubs, c16Enc(X))
	}
	mkSet := func() anon.Set { // a fresh copy of the recipient set per party / call
		s := make(anon.Set, n)
		for i := range s {
			s[i] = c16Dec(suite, pubs[i])
		}
		return s
	}
	mclass := c16MsgClass(rep + l)
	msg := c16Msg(rng, l, mclass)
	var pubHex []string
	for _, p := range pubs {
		pubHex = append(pubHex, mon.Hex(p))
	}
	c.base = map[string]any{"len": l, "recipients": n, "mine": mine, "key_class": keyClass, "publics": pubHex, "private_mine": mon.Hex(c16Enc(xs[mine])), "msg_class": mclass, "msg": c16HexCap(msg)}

	var ct []byte
	var err error
	msgIn, setIn := append([]byte(nil), msg...), mkSet()
	encSnap := c16Snap().add("message", c16S(&msgIn)).add("anonymity-set", c16Ps(setIn))
	if !c.call("Encrypt", "honest", func() { ct, err = anon.Encrypt(suite, msgIn, setIn) }) {
		return
	}
	c.intact(encSnap, "Encrypt", "honest", err != nil)
	ct = append([]byte(nil), ct...)
	c.eval("encrypt/accepted", "enc", true)
	if err != nil {
		r.Violation(c.key("Encrypt", "refused-protectable-message"), "anon.Encrypt refused a message it can protect: "+err.Error(), c.det())
		return
	}
	pl, sl := suite.PointLen(), suite.ScalarLen()
	hdr := pl + n*sl
	const mac = 16
	if len(ct) < hdr+mac {
		r.Violation(c.key("Encrypt", "ciphertext-shorter-than-header+tag"), "anon ciphertext shorter than header + tag", c.det("ct", mon.Hex(ct)))
		return
	}
	c.base["ct"] = c16HexCap(ct)
	regs := []c16reg{{"eph", 0, pl}}
	for i := 0; i < n; i++ {
		nm := "other-slot"
		if i == mine {
			nm = "own-slot"
		}
		regs = append(regs, c16reg{nm, pl + i*sl, pl + (i+1)*sl})
	}
	regs = append(regs, c16reg{"body", hdr, len(ct) - mac}, c16reg{"tag", len(ct) - mac, len(ct)})

	dec := func(class string, cc []byte, idx int, k kyber.Scalar, kv ...any) (pt []byte, e error, ok bool) {
		set := mkSet()
		sn := c16Snap().add("ciphertext", c16S(&cc)).add("anonymity-set", c16Ps(set)).add("private-key", c16P(k))
		ok = c.call("Decrypt", class, func() { pt, e = anon.Decrypt(suite, cc, set, idx, k) }, kv...)
		if ok {
			c.intact(sn, "Decrypt", class, e != nil, kv...)
		}
		return
	}

	// (1b) round trip for this recipient index
	in := append([]byte(nil), ct...)
	pt, err, ok := dec("roundtrip", in, mine, xs[mine])
	if ok {
		c.eval(fmt.Sprintf("roundtrip/n=%d/%s", n, c16LenClass(l)), "rt", true)
		if err != nil {
			r.Violation(c.key("Decrypt", "roundtrip/error"), "anon-set round trip failed: "+err.Error(), c.det())
		} else if !bytes.Equal(pt, msg) {
			r.Violation(c.key("Decrypt", "roundtrip/wrong-plaintext"), "anon-set round trip returned a different message", c.det("returned", c16HexCap(pt)))
		} else {
			c16Mark(c.scheme)
		}
	}
	r.SampleClass(fmt.Sprintf("anon:%s:n=%d", G.name, n), map[string]any{"scheme": "anon", "group": G.name, "recipients": n, "mine": mine, "len": l, "ct_len": len(ct), "regions": fmt.Sprint(regs), "roundtrip": err == nil && bytes.Equal(pt, msg)})

	// (1c) the same ciphertext buffer decrypted again (same recipient; and, n >= 2, then by another recipient),
	// and once more after a failed wrong-key attempt
	{
		obj := append([]byte(nil), ct...)
		set := mkSet()
		wrong := suite.Scalar().Add(xs[mine], suite.Scalar().One())
		c.repeat("Decrypt", msg, mclass == "random",
			func() ([]byte, error) { return anon.Decrypt(suite, obj, set, mine, xs[mine]) },
			func() ([]byte, error) { return anon.Decrypt(suite, obj, set, mine, wrong) },
			func() []byte { return obj })
		if n >= 2 {
			// one buffer handed to two members of the set in turn (per-party copies of set and keys)
			obj2 := append([]byte(nil), ct...)
			o := (mine + 1) % n
			var pa, pb []byte
			var ea, eb error
			if c.call("Decrypt", "shared-buffer/first-recipient", func() { pa, ea = anon.Decrypt(suite, obj2, mkSet(), mine, xs[mine]) }) && ea == nil && bytes.Equal(pa, msg) &&
				c.call("Decrypt", "shared-buffer/second-recipient", func() { pb, eb = anon.Decrypt(suite, obj2, mkSet(), o, xs[o]) }) {
				c.eval("repeat/second-recipient-same-buffer", fmt.Sprintf("o=%d", o), true)
				if eb != nil || !bytes.Equal(pb, msg) {
					r.Violation("C16/anon/Decrypt/repeat/second-recipient-same-buffer-fails",
						fmt.Sprintf("anon.Decrypt: after recipient %d decrypted a ciphertext buffer, recipient %d of the same set cannot decrypt that buffer any more (err=%v)", mine, o, eb),
						c.det("second_recipient", o, "buffer_now", c16HexCap(obj2), "returned", c16HexCap(pb)))
				}
			}
		}
	}

	// (2) wrong keys
	outsider := suite.Scalar().Pick(rng.Stream())
	if p, e, ok := dec("wrong-key/outsider", append([]byte(nil), ct...), mine, outsider); ok {
		c.altered("Decrypt", "wrong-key/outsider", "outsider", p, e, msg, "wrong_key", mon.Hex(c16Enc(outsider)))
	}
	xp1 := suite.Scalar().Add(xs[mine], suite.Scalar().One())
	if p, e, ok := dec("wrong-key/x+1", append([]byte(nil), ct...), mine, xp1); ok {
		c.altered("Decrypt", "wrong-key/x+1", "x+1", p, e, msg)
	}
	if n >= 2 {
		o := (mine + 1 + rng.IntN(n-1)) % n
		if !xs[o].Equal(xs[mine]) {
			if p, e, ok := dec("wrong-key/own-key-at-other-index", append([]byte(nil), ct...), o, xs[mine], "index", o); ok {
				c.altered("Decrypt", "wrong-key/own-key-at-other-index", fmt.Sprintf("idx=%d", o), p, e, msg, "index", o)
			}
			if p, e, ok := dec("wrong-key/other-member-key-at-my-index", append([]byte(nil), ct...), mine, xs[o], "key_of", o); ok {
				c.altered("Decrypt", "wrong-key/other-member-key-at-my-index", fmt.Sprintf("keyof=%d", o), p, e, msg, "key_of", o)
			}
		}
	}

	// (3) single-bit flips: every region, every header slot
	all := r.Thorough() && l <= 40 && mine == 0
	for _, g3 := range regs {
		nb := map[string]int{"eph": r.N(12, 40), "own-slot": r.N(12, 40), "other-slot": r.N(5, 16), "body": r.N(16, 48), "tag": r.N(12, 40)}[g3.name]
		for _, b := range c16Bits(rng, g3.lo*8, g3.hi*8, nb, all && g3.name != "other-slot") {
			fc := gen.FlipBit(ct, b)
			p, e, ok := dec("flip/"+g3.name, fc, mine, xs[mine], "bit", b)
			if !ok {
				continue
			}
			if g3.name == "other-slot" && e == nil {
				// one defect of the generic code, one key (group in the witness)
				c.eval("flip/other-slot", fmt.Sprintf("bit=%d", b), true)
				r.NoteAdd("anon:altered slot of another recipient accepted", 1)
				r.Violation(c16KeyAnonHdr,
					"anon.Decrypt accepted a ciphertext in which a bit of another recipient's header slot was flipped (the header re-derivation check compares the caller's buffer with itself)",
					c.det("bit", b, "slot", (b/8-pl)/sl, "altered_ct_header", mon.Hex(gen.FlipBit(ct, b)[:hdr]), "returned_same_plaintext", bytes.Equal(p, msg),
						"caller_buffer_header_after_Decrypt_equals_unaltered_header", bytes.Equal(fc[:hdr], ct[:hdr])))
				continue
			}
			c.altered("Decrypt", "flip/"+g3.name, fmt.Sprintf("bit=%d", b), p, e, msg, "bit", b)
		}
	}
	// (3b) truncations
	bounds := []int{pl, hdr, len(ct) - mac}
	for _, cut := range c16Cuts(rng, len(ct), bounds, r.N(2, 6), r.N(12, 40), r.Thorough() && len(ct) <= 260 && mine == 0) {
		p, e, ok := dec("truncate/"+c16AnonCutClass(cut, pl, hdr, len(ct)-mac), append([]byte(nil), ct[:cut]...), mine, xs[mine], "cut", cut)
		if ok {
			c.altered("Decrypt", "truncate/"+c16AnonCutClass(cut, pl, hdr, len(ct)-mac), fmt.Sprintf("cut=%d", cut), p, e, msg, "cut", cut)
		}
	}

	// (3b') extensions: the ciphertext followed by extra bytes (the tag is then no longer the last 16 bytes)
	for _, extra := range []int{1, 16, 40} {
		p, e, ok := dec("extend", append(append([]byte(nil), ct...), rng.Bytes(extra)...), mine, xs[mine], "extra", extra)
		if ok {
			c.altered("Decrypt", "extend", fmt.Sprintf("extra=%d", extra), p, e, msg, "extra", extra)
		}
	}

	// (3c) alteration using only public data: change the body, recompute the tag from the ciphertext itself
	retag := func(head, body []byte) []byte {
		out := append(append([]byte(nil), head...), body...)
		t := make([]byte, mac)
		x := suite.XOF(append([]byte(nil), body...))
		if _, err := x.Read(t); err != nil {
			panic("harness: XOF read: " + err.Error())
		}
		return append(out, t...)
	}
	body := ct[hdr : len(ct)-mac]
	type forg struct {
		class, desc string
		ct          []byte
	}
	var fs []forg
	for _, b := range c16Bits(rng, 0, len(body)*8, r.N(4, 10), false) {
		fs = append(fs, forg{"body-bit-flip", fmt.Sprintf("bit=%d", b), retag(ct[:hdr], gen.FlipBit(body, b))})
	}
	if len(body) > 0 {
		k := rng.IntN(len(body))
		fs = append(fs, forg{"body-truncated", fmt.Sprintf("keep=%d", k), retag(ct[:hdr], body[:k])})
	}
	fs = append(fs, forg{"body-extended", "extra=5", retag(ct[:hdr], append(append([]byte(nil), body...), rng.Bytes(5)...))})
	for _, f := range fs {
		p, e, ok := dec("public-forgery/"+f.class, append([]byte(nil), f.ct...), mine, xs[mine], "forgery", f.desc)
		if !ok {
			continue
		}
		c.eval("public-forgery/"+f.class, f.desc, true)
		if e != nil {
			r.NoteAdd("rejected:anon", 1)
			continue
		}
		r.NoteAdd("anon:public-data forgeries accepted", 1)
		r.Violation(c16KeyAnonTag,
			"anon.Decrypt accepted a ciphertext whose body was altered by a party holding no key: the tag is an unkeyed XOF of the body and was recomputed from public data; a plaintext different from the original is returned without error",
			c.det("variant", f.class, "alteration", f.desc, "forged_ct", c16HexCap(f.ct), "returned", c16HexCap(p), "original", c16HexCap(msg), "same_plaintext", bytes.Equal(p, msg)))
	}

	// (4) clear-text scan
	if mclass == "random" {
		kind, po, co := c16Scan(msg, ct)
		c.eval("scan/"+c16LenClass(l), "scan", l >= 8)
		if kind != "" {
			r.Violation(c.key("Encrypt", "plaintext-in-clear"), "anon-set ciphertext contains plaintext in the clear ("+kind+")",
				c.det("pt_off", po, "ct_off", co, "run", c16RunLen(msg, ct, po, co)))
		}
	}
}

func c16AnonCutClass(cut, pl, hdr, msghi int) string {
	switch {
	case cut < pl:
		return "in-eph"
	case cut < hdr:
		return "in-header"
	case cut < msghi:
		return "in-body"
	}
	return "in-tag"
}
