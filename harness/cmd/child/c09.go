package main

// C09 — BLS, threshold BLS, BDN and CoSi: "verifies iff honestly formed".
//
// The harness generates every secret itself (as math/big residues), so the
// ground truth of each presented (key, message, signature / partial list /
// mask) tuple is known without asking the code under test:
//   * BLS:   Verify(x·B, m, S) must accept  <=>  S decodes to x·H(m).
//   * TBLS:  the harness deals the sharing polynomial; the expected output of
//            Recover is the plain BLS signature of the group secret, and a
//            presented partial is valid <=> its value is f(idx+1)·H(m).
//   * BDN:   aggregate over mask M verifies under the aggregate key of M and
//            under no other mask/message, whichever route built the mask.
//   * CoSi:  the real protocol functions are run for a participant subset;
//            a presented signature must be accepted <=> it is byte-identical
//            to the honest one, the roster aggregates to the same key and the
//            policy is met; it must be rejected when any component is
//            semantically different; nothing is demanded in between.

import (
	"encoding/binary"
	"fmt"
	"math/big"
	"sort"
	"strings"

	"go.dedis.ch/kyber/v4"
	"go.dedis.ch/kyber/v4/pairing"
	"go.dedis.ch/kyber/v4/pairing/bls12381/circl"
	"go.dedis.ch/kyber/v4/pairing/bls12381/gnark"
	"go.dedis.ch/kyber/v4/pairing/bls12381/kilic"
	"go.dedis.ch/kyber/v4/pairing/bn254"
	"go.dedis.ch/kyber/v4/pairing/bn256"
	"go.dedis.ch/kyber/v4/sign"
	"go.dedis.ch/kyber/v4/sign/bls"

	"verif/internal/gen"
	"verif/internal/groups"
	"verif/internal/mon"
)

func init() { register("C09", c09) }

// c09Combo is one (suite, signature-group) combination.
type c09Combo struct {
	name  string // e.g. "kilic.G2": the signature group
	suite string
	onG1  bool // signatures on G1 (keys on G2)
}

// c09Env holds the per-job, never shared, kyber objects of a combination.
type c09Env struct {
	cb   c09Combo
	ps   pairing.Suite
	sigG kyber.Group
	keyG kyber.Group
	q    *big.Int
	sg   *groups.G // helpers (ScalarFromBig) for the two groups; same order q
	kg   *groups.G
}

func c09NewSuite(name string) pairing.Suite {
	switch name {
	case "bn256":
		return bn256.NewSuite()
	case "bn254":
		return bn254.NewSuite()
	case "kilic":
		return kilic.NewBLS12381Suite()
	case "circl":
		return circl.NewSuite()
	case "gnark":
		return gnark.NewSuite()
	}
	panic("harness: unknown suite " + name)
}

func c09NewEnv(cb c09Combo) *c09Env {
	e := &c09Env{cb: cb, ps: c09NewSuite(cb.suite)}
	if cb.onG1 {
		e.sigG, e.keyG = e.ps.G1(), e.ps.G2()
	} else {
		e.sigG, e.keyG = e.ps.G2(), e.ps.G1()
	}
	e.q = new(big.Int).Set(e.keyG.Scalar().GroupOrder().ToBigInt())
	e.sg = &groups.G{Name: cb.name + "/sig", Grp: e.sigG, Q: e.q}
	e.kg = &groups.G{Name: cb.name + "/key", Grp: e.keyG, Q: e.q}
	return e
}

func (e *c09Env) blsScheme() sign.Scheme {
	if e.cb.onG1 {
		return bls.NewSchemeOnG1(e.ps)
	}
	return bls.NewSchemeOnG2(e.ps)
}

// hash returns H(msg) in the signature group (fresh point).
func (e *c09Env) hash(msg []byte) kyber.Point {
	return e.sigG.Point().(groups.Hasher).Hash(append([]byte(nil), msg...))
}

// sigPoint returns x·H(msg): what the holder of x honestly signs.
func (e *c09Env) sigPoint(x *big.Int, msg []byte) kyber.Point {
	return e.sigG.Point().Mul(e.sg.ScalarFromBig(x), e.hash(msg))
}

// pub returns a fresh x·B in the key group.
func (e *c09Env) pub(x *big.Int) kyber.Point {
	return e.keyG.Point().Mul(e.kg.ScalarFromBig(x), nil)
}

// sk returns a fresh scalar of the key group with residue x.
func (e *c09Env) sk(x *big.Int) kyber.Scalar { return e.kg.ScalarFromBig(x) }

func c09Dec(g kyber.Group, b []byte) (kyber.Point, error) {
	p := g.Point()
	if err := p.UnmarshalBinary(append([]byte(nil), b...)); err != nil {
		return nil, err
	}
	return p, nil
}

func c09MustDec(g kyber.Group, b []byte) kyber.Point {
	p, err := c09Dec(g, b)
	if err != nil {
		panic(fmt.Sprintf("harness: re-decode of a library-made encoding failed: %v (%x)", err, b))
	}
	return p
}

// c09Cp copies a byte string (nil stays nil, empty stays non-nil empty).
func c09Cp(b []byte) []byte {
	if b == nil {
		return nil
	}
	out := make([]byte, len(b))
	copy(out, b)
	return out
}

func c09CpAll(bs [][]byte) [][]byte {
	out := make([][]byte, len(bs))
	for i, b := range bs {
		if b != nil {
			out[i] = c09Cp(b)
		}
	}
	return out
}

func c09Hexes(bs [][]byte) []string {
	out := make([]string, len(bs))
	for i, b := range bs {
		out[i] = mon.Hex(b)
	}
	return out
}

// c09NonZero draws a uniform non-zero residue.
func c09NonZero(rng *gen.Rng, q *big.Int) *big.Int {
	for {
		x := rng.Big(q)
		if x.Sign() != 0 {
			return x
		}
	}
}

// c09EdgeSecret draws a non-zero edge residue (1, 2, q-1, q-2, 2^k±1 ...).
func c09EdgeSecret(rng *gen.Rng, q *big.Int) *big.Int {
	edge := gen.Edge(q)
	for {
		x := new(big.Int).Set(edge[rng.IntN(len(edge))])
		if x.Sign() != 0 {
			return x
		}
	}
}

// c09Msg draws a message: lengths at block boundaries, empty, long.
func c09Msg(rng *gen.Rng) []byte {
	lens := []int{0, 1, 2, 15, 16, 31, 32, 33, 63, 64, 65, 100, 127, 128, 129, 255, 1000}
	l := lens[rng.IntN(len(lens))]
	if rng.IntN(3) == 0 {
		l = rng.IntN(80)
	}
	b := rng.Bytes(l)
	if b == nil {
		b = []byte{}
	}
	return b
}

// c09NearMsg returns a message differing minimally from m (bit flip, appended
// zero byte, dropped last byte).
func c09NearMsg(rng *gen.Rng, m []byte) []byte {
	switch k := rng.IntN(3); {
	case len(m) == 0 || k == 0:
		return append(c09Cp(m), 0)
	case k == 1:
		return gen.FlipBit(m, rng.IntN(8*len(m)))
	default:
		return c09Cp(m[:len(m)-1])
	}
}

// c09Pattern is a participation pattern over n signers.
type c09Pattern []bool

func (p c09Pattern) count() int {
	c := 0
	for _, b := range p {
		if b {
			c++
		}
	}
	return c
}

func (p c09Pattern) bytes() []byte {
	out := make([]byte, (len(p)+7)/8)
	for i, b := range p {
		if b {
			out[i/8] |= 1 << uint(i%8)
		}
	}
	return out
}

func (p c09Pattern) String() string {
	var sb strings.Builder
	for _, b := range p {
		if b {
			sb.WriteByte('1')
		} else {
			sb.WriteByte('0')
		}
	}
	return sb.String()
}

func (p c09Pattern) idx() []int {
	var out []int
	for i, b := range p {
		if b {
			out = append(out, i)
		}
	}
	return out
}

func (p c09Pattern) equal(o c09Pattern) bool {
	if len(p) != len(o) {
		return false
	}
	for i := range p {
		if p[i] != o[i] {
			return false
		}
	}
	return true
}

func (p c09Pattern) clone() c09Pattern { return append(c09Pattern(nil), p...) }

// c09PatternFromBytes reads the bits < n of a mask byte string.
func c09PatternFromBytes(b []byte, n int) c09Pattern {
	p := make(c09Pattern, n)
	for i := 0; i < n; i++ {
		if i/8 < len(b) && b[i/8]&(1<<uint(i%8)) != 0 {
			p[i] = true
		}
	}
	return p
}

// c09MakePattern: pidx 0 all, 1 single, 2 all-but-one, 3 only the high end
// (second mask byte when n > 8), 4.. random non-empty.
func c09MakePattern(rng *gen.Rng, n, pidx int) (c09Pattern, string) {
	p := make(c09Pattern, n)
	switch pidx {
	case 0:
		for i := range p {
			p[i] = true
		}
		return p, "all"
	case 1:
		p[rng.IntN(n)] = true
		return p, "single"
	case 2:
		for i := range p {
			p[i] = true
		}
		if n > 1 {
			p[rng.IntN(n)] = false
		}
		return p, "all-but-one"
	case 3:
		if n > 8 {
			for i := 8; i < n; i++ {
				p[i] = true
			}
		} else {
			p[n-1] = true
		}
		return p, "high-end"
	}
	for {
		for i := range p {
			p[i] = rng.IntN(2) == 0
		}
		if p.count() > 0 {
			return p, "random"
		}
	}
}

func c09BE16(i int) []byte {
	var b [2]byte
	binary.BigEndian.PutUint16(b[:], uint16(i))
	return b[:]
}

type c09Job struct {
	part string // bls | tbls | bdn | cosi
	cb   c09Combo
	cs   string // cosi suite name
	t, n int
	idx  int
}

func (j c09Job) String() string {
	if j.part == "cosi" {
		return fmt.Sprintf("cosi %s n=%d idx=%d", j.cs, j.n, j.idx)
	}
	return fmt.Sprintf("%s %s t=%d n=%d idx=%d", j.part, j.cb.name, j.t, j.n, j.idx)
}

func c09(r *mon.R) {
	r.SetRule("all secrets are generated by the harness as math/big residues, so ground truth is known. " +
		"BLS (8 suite x signature-group combinations): per job 3 keys (one edge-valued: 1,2,q-1,2^k±1..) x 3 messages (random, minimally different, unrelated) full 9x9 key/message/signature matrix + mutated signatures (bit flips, -S, 2S, S+H(m), S+B, identity, base, truncated, extended, empty) + mutated keys (-X, X+B, 2X, identity); Verify must accept <=> the presented signature decodes to x·H(m). " +
		"TBLS: for every 2<=t<=n<=8 the harness deals the polynomial (big.Int), partials are classified valid <=> value == f(idx+1)·H(m); lists = t-subsets (all of them in thorough, sampled in quick) in sorted/reversed/random order, surplus, valid duplicates placed before/after the t-th distinct partial, injected junk (bit-flipped value, foreign in-range index, out-of-range index, other message, other polynomial, truncated, empty, identity, negated, garbage); Recover must return exactly bls.Sign(secret,m) when >= t distinct valid partials are present and refuse otherwise. " +
		"BDN: rosters of 1..10 signers, mask patterns all/single/all-but-one/high-end(second byte)/random built by SetBit (asc, random order), NewMask(myKey), SetMask, Merge, Clone, set-all-then-clear, overwrite, random op sequences with a shadow bit vector; all routes must give Equal aggregate key and signature, the aggregate must verify under exactly that mask and message and under no other mask (bit flipped, complement, random, empty), no other message, no permuted/substituted/short signature list. " +
		"CoSi (Ed25519+SHA-512, P-256+SHA-256): Commit/AggregateCommitments/Challenge/Response/AggregateResponses/Sign run per participant with own objects; Verify under nil/Complete/Threshold(k) policies; mutations of message, every mask bit, V, r, roster, dishonest/missing participants, truncations; random SetBit/SetMask sequences with AggregatePublic compared to the fresh sum of enabled keys after every step. " +
		"distinct = (scheme, combination, job, case class, case descriptor). non-trivial: BLS cases where the presented signature decodes to a group element (the pairing check, not the decoder, decides); TBLS lists that are not empty; BDN/CoSi mask-state cases with a non-empty pattern; CoSi verification cases whose signature is well-formed (V decodes, lengths fit); all other judgements (aggregate verifies / must not verify, route equality, sequence steps, protocol consistency) count as non-trivial. " +
		"Cases where the property demands nothing (CoSi: stray mask bits beyond the roster, over-long mask, non-canonical r; BLS: identity key with identity signature; BDN: one surplus signature ignored) are executed under the panic guard but not judged; they are counted in the notes")
	r.Assume("math/big arithmetic mod q is the reference for secrets, shares (polynomial evaluation) and aggregate secrets")
	r.Assume("group arithmetic (Mul, Add, Equal, MarshalBinary/UnmarshalBinary) and hash-to-group of the signature group are trusted here (judged by C01, C03, C17); the expected signature x·H(m) is computed with them on fresh objects, independently of the pairing check under test")
	r.Assume("two independent uniformly random secrets/messages collide with negligible probability (cases are regenerated if two harness secrets are equal)")

	gs := groups.All()
	var combos []c09Combo
	for _, g := range gs {
		if g.Suite == nil || (g.Kind != "G1" && g.Kind != "G2") || !g.CanHash {
			continue
		}
		combos = append(combos, c09Combo{name: g.Name, suite: g.Suite.Name, onG1: g.Kind == "G1"})
	}
	r.Note("combinations_supported", func() []string {
		var s []string
		for _, c := range combos {
			s = append(s, c.name)
		}
		return s
	}())
	if len(combos) != 8 {
		r.Inconclusive(fmt.Sprintf("expected 8 (suite, signature-group) combinations with hash-to-group, found %d", len(combos)))
	}
	if f := *flagGroups; f != "" {
		var sel []c09Combo
		for _, c := range combos {
			for _, s := range strings.Split(f, ",") {
				if strings.Contains(c.name, s) {
					sel = append(sel, c)
					break
				}
			}
		}
		combos = sel
	}
	cosiSuites := []string{"ed25519-sha512", "p256-sha256"}
	if f := *flagGroups; f != "" {
		var sel []string
		for _, c := range cosiSuites {
			for _, s := range strings.Split(f, ",") {
				if strings.Contains(c, s) || s == "cosi" {
					sel = append(sel, c)
					break
				}
			}
		}
		cosiSuites = sel
	}
	mode := *flagMode // optional: restrict to one scheme
	want := func(part string) bool { return mode == "" || strings.Contains(mode, part) }

	var jobs []c09Job
	// TBLS first (heaviest jobs first gives better packing)
	if want("tbls") {
		nrep := r.N(1, 3)
		for rep := 0; rep < nrep; rep++ {
			for n := 8; n >= 2; n-- {
				for t := 2; t <= n; t++ {
					for _, cb := range combos {
						jobs = append(jobs, c09Job{part: "tbls", cb: cb, t: t, n: n, idx: rep})
					}
				}
			}
		}
	}
	if want("bdn") {
		np := r.N(4, 40)
		for pidx := 0; pidx < np; pidx++ {
			for n := 10; n >= 1; n-- {
				for _, cb := range combos {
					jobs = append(jobs, c09Job{part: "bdn", cb: cb, n: n, idx: pidx})
				}
			}
		}
	}
	if want("bls") {
		nb := r.N(4, 48)
		for i := 0; i < nb; i++ {
			for _, cb := range combos {
				jobs = append(jobs, c09Job{part: "bls", cb: cb, idx: i})
			}
		}
	}
	if want("cosi") {
		np := r.N(6, 80)
		for pidx := 0; pidx < np; pidx++ {
			for n := 10; n >= 1; n-- {
				for _, cs := range cosiSuites {
					jobs = append(jobs, c09Job{part: "cosi", cs: cs, n: n, idx: pidx})
				}
			}
		}
	}
	// the smallest instances go first (sequentially ordered pre-pass) so that the witness kept for a
	// violation class is a small one; then the rest, heaviest first for better packing
	var pre, rest []c09Job
	for _, jb := range jobs {
		if jb.idx == 0 && ((jb.part == "tbls" && jb.n <= 3) || (jb.part == "bdn" && jb.n == 2) || (jb.part == "cosi" && jb.n == 2)) {
			pre = append(pre, jb)
		} else {
			rest = append(rest, jb)
		}
	}
	sort.SliceStable(pre, func(a, b int) bool { return pre[a].n*10+pre[a].t < pre[b].n*10+pre[b].t })
	sort.SliceStable(rest, func(a, b int) bool { return c09Weight(rest[a]) > c09Weight(rest[b]) })
	r.Note("jobs", len(jobs))

	runJobs := func(list []c09Job) {
		mon.Parallel(len(list), func(w, i int) {
			j := list[i]
			r.Journal(w, "C09 %s", j.String())
			name := j.cb.name
			if j.part == "cosi" {
				name = j.cs
			}
			r.Guard("C09/"+j.part+"/"+name+"/job", map[string]any{"job": j.String()}, func() {
				switch j.part {
				case "bls":
					c09BLS(r, j)
				case "tbls":
					c09TBLS(r, j)
				case "bdn":
					c09BDN(r, j)
					c09BDNDup(r, j)
				case "cosi":
					c09CoSi(r, j)
				}
			})
		})
	}
	runJobs(pre)
	runJobs(rest)
}

func c09Weight(j c09Job) int {
	switch j.part {
	case "tbls":
		return 1000 + j.n*j.t
	case "bdn":
		return 500 + j.n
	case "bls":
		return 400
	}
	return j.n
}

// ---------------------------------------------------------------------------
// BLS

type c09BLSCtx struct {
	r   *mon.R
	e   *c09Env
	sch sign.Scheme
	job string
}

// judge presents (key x·B, msg, sig) to Verify and compares with ground truth.
func (c *c09BLSCtx) judge(class string, x *big.Int, msg, sig []byte, sub string) {
	e := c.e
	want := false
	decodes := false
	if sp, err := c09Dec(e.sigG, sig); err == nil {
		decodes = true
		want = sp.Equal(e.sigPoint(x, msg))
	}
	if want && x.Sign() == 0 {
		return // identity key + identity signature: nothing demanded
	}
	err := c.sch.Verify(e.pub(x), c09Cp(msg), c09Cp(sig))
	got := err == nil
	c.r.Eval("bls/"+class, e.cb.name+"|"+c.job+"|"+sub, decodes)
	if got != want {
		what := "accepted"
		text := "bls.Verify accepted a signature that is not x·H(m) for the presented key and message"
		if want {
			what = "rejected"
			text = "bls.Verify rejected the honest signature x·H(m)"
		}
		c.r.Violation("C09/bls/"+e.cb.name+"/Verify/"+what+":"+class, text+" ("+class+")", map[string]any{
			"combination": e.cb.name, "job": c.job, "case": sub, "secret": x.Text(16), "msg": mon.Hex(msg), "sig": mon.Hex(sig),
			"sig_decodes": decodes, "verify_error": fmt.Sprint(err)})
	}
}

func c09BLS(r *mon.R, j c09Job) {
	rng := gen.New(r.Seed, "C09bls"+j.cb.name, j.idx)
	e := c09NewEnv(j.cb)
	c := &c09BLSCtx{r: r, e: e, sch: e.blsScheme(), job: fmt.Sprintf("bls%d", j.idx)}
	r.Op("bls.NewSchemeOnG1/G2", "bls.NewKeyPair", "bls.Sign", "bls.Verify")

	// keys: one through NewKeyPair with a seeded stream, one uniform, one edge
	sk0, pk0 := c.sch.NewKeyPair(rng.Stream())
	x0 := groups.ScalarToBig(sk0)
	r.Eval("bls/keypair-consistent", e.cb.name+"|"+c.job, true)
	if !pk0.Equal(e.pub(x0)) {
		r.Violation("C09/bls/"+e.cb.name+"/NewKeyPair/public-not-secret-times-base", "NewKeyPair returned a public key different from secret·B",
			map[string]any{"combination": e.cb.name, "secret": x0.Text(16), "public": mon.Hex(groups.Enc(pk0))})
	}
	var xs []*big.Int
	for {
		xs = []*big.Int{x0, c09NonZero(rng, e.q), c09EdgeSecret(rng, e.q)}
		if x0.Sign() != 0 && xs[0].Cmp(xs[1]) != 0 && xs[0].Cmp(xs[2]) != 0 && xs[1].Cmp(xs[2]) != 0 {
			break
		}
		x0 = c09NonZero(rng, e.q)
	}
	m0 := c09Msg(rng)
	msgs := [][]byte{m0, c09NearMsg(rng, m0), c09Msg(rng)}
	for string(msgs[2]) == string(msgs[0]) || string(msgs[2]) == string(msgs[1]) {
		msgs[2] = append(c09Msg(rng), 0x5a)
	}

	// honest signatures; Sign must be deterministic and equal x·H(m)
	var sigs [3][3][]byte
	for k := range xs {
		for mi := range msgs {
			s, err := c.sch.Sign(e.sk(xs[k]), c09Cp(msgs[mi]))
			if err != nil {
				r.Violation("C09/bls/"+e.cb.name+"/Sign/error", "bls.Sign failed: "+err.Error(), map[string]any{"combination": e.cb.name, "secret": xs[k].Text(16), "msg": mon.Hex(msgs[mi])})
				return
			}
			s2, _ := c.sch.Sign(e.sk(xs[k]), c09Cp(msgs[mi]))
			wantEnc := groups.Enc(e.sigPoint(xs[k], msgs[mi]))
			r.Eval("bls/sign-is-x·H(m)", fmt.Sprintf("%s|%s|k%dm%d", e.cb.name, c.job, k, mi), true)
			if string(s) != string(wantEnc) || string(s2) != string(s) {
				r.Violation("C09/bls/"+e.cb.name+"/Sign/not-x·H(m)", "bls.Sign output differs from the encoding of x·H(m) (or is not deterministic)",
					map[string]any{"combination": e.cb.name, "secret": xs[k].Text(16), "msg": mon.Hex(msgs[mi]), "got": mon.Hex(s), "again": mon.Hex(s2), "want": mon.Hex(wantEnc)})
			}
			sigs[k][mi] = s
		}
	}
	// many messages under one key ("all messages": hash-to-group defects that hit one message in a hundred)
	for mi := 0; mi < 96; mi++ {
		m := append([]byte(fmt.Sprintf("C09 message %d ", mi)), rng.Bytes(mi%7)...)
		s, err := c.sch.Sign(e.sk(xs[0]), c09Cp(m))
		if err != nil {
			r.Violation("C09/bls/"+e.cb.name+"/Sign/error", "bls.Sign failed: "+err.Error(), map[string]any{"combination": e.cb.name, "secret": xs[0].Text(16), "msg": mon.Hex(m)})
			break
		}
		c.judge("many-messages/honest", xs[0], m, s, fmt.Sprintf("m#%d", mi))
	}
	// full matrix: key k, message mi presented with signature of (k2, m2)
	for k := range xs {
		for mi := range msgs {
			for k2 := range xs {
				for m2 := range msgs {
					class := "matrix/"
					switch {
					case k == k2 && mi == m2:
						class += "honest"
					case k == k2:
						class += "other-message"
						if (mi == 0 && m2 == 1) || (mi == 1 && m2 == 0) {
							class += "-minimal-difference"
						}
					case mi == m2:
						class += "other-key"
					default:
						class += "other-key-and-message"
					}
					c.judge(class, xs[k], msgs[mi], sigs[k2][m2], fmt.Sprintf("k%dm%d<-k%dm%d", k, mi, k2, m2))
				}
			}
		}
	}
	r.SampleClass("bls:"+e.cb.name, map[string]any{"scheme": "bls", "combination": e.cb.name, "secret": xs[0].Text(16), "msg": mon.Hex(msgs[0]), "sig": mon.Hex(sigs[0][0]), "note": "honest signature; presented under 3 keys x 3 messages and mutated"})

	// mutated signatures under (key, message) of an honest one; rotate which honest one
	k, mi := j.idx%3, (j.idx/3)%3
	x, m, s := xs[k], msgs[mi], sigs[k][mi]
	S := e.sigPoint(x, m)
	enc := func(p kyber.Point) []byte { return groups.Enc(p) }
	nflip := r.N(8, 24)
	for f := 0; f < nflip; f++ {
		var bit int
		switch {
		case f < 3:
			bit = 7 - f // flag bits of the first byte (compression / infinity / sign on BLS12-381)
		case f == 3:
			bit = 8*len(s) - 8 // lowest bit of the last byte
		default:
			bit = rng.IntN(8 * len(s))
		}
		c.judge("sig-mutation/bit-flip", x, m, gen.FlipBit(s, bit), fmt.Sprintf("flip%d", bit))
	}
	c.judge("sig-mutation/negated", x, m, enc(e.sigG.Point().Neg(S)), "neg")
	c.judge("sig-mutation/doubled", x, m, enc(e.sigG.Point().Add(S, S)), "dbl")
	c.judge("sig-mutation/plus-H(m)", x, m, enc(e.sigG.Point().Add(S, e.hash(m))), "plusH")
	c.judge("sig-mutation/identity", x, m, enc(e.sigG.Point().Null()), "identity")
	c.judge("sig-mutation/H(m)-itself", x, m, enc(e.hash(m)), "H")
	gg := e.sigG.Point()
	if _, p := mon.Try(func() { gg.Base() }); !p {
		c.judge("sig-mutation/plus-base", x, m, enc(e.sigG.Point().Add(S, gg)), "plusB")
		c.judge("sig-mutation/base-itself", x, m, enc(gg), "B")
	}
	c.judge("sig-mutation/truncated", x, m, s[:len(s)-1], "trunc1")
	c.judge("sig-mutation/truncated", x, m, s[:len(s)/2], "trunchalf")
	c.judge("sig-mutation/empty", x, m, []byte{}, "empty")
	c.judge("sig-mutation/extended", x, m, append(c09Cp(s), 0), "ext0")
	c.judge("sig-mutation/random-bytes", x, m, rng.Bytes(len(s)), "rand")
	// mutated keys (discrete log still known to the harness)
	q := e.q
	mod := func(v *big.Int) *big.Int { return v.Mod(v, q) }
	c.judge("key-mutation/negated", mod(new(big.Int).Neg(x)), m, s, "negkey")
	c.judge("key-mutation/plus-base", mod(new(big.Int).Add(x, big.NewInt(1))), m, s, "key+1")
	c.judge("key-mutation/doubled", mod(new(big.Int).Lsh(x, 1)), m, s, "key*2")
	c.judge("key-mutation/identity", big.NewInt(0), m, s, "key0")
}
