package main

// C15 — cheating provers, transcript shapes and the reference verifier.
//
// The transcript structs of shuffle/pair.go and shuffle/simple.go are
// unexported, but fixbuf encodes by reflection over exported fields, so
// identically shaped structs defined here read and write the same bytes.

import (
	"errors"
	"fmt"
	"strings"

	"go.dedis.ch/kyber/v4"
	"go.dedis.ch/kyber/v4/proof"
	"go.dedis.ch/kyber/v4/shuffle"

	"verif/internal/gen"
	"verif/internal/mon"
)

type c15Ega1 struct {
	Gamma            kyber.Point
	A, C, U, W       []kyber.Point
	Lambda1, Lambda2 kyber.Point
}
type c15Ega2 struct{ Zrho []kyber.Scalar }
type c15Ega3 struct{ D []kyber.Point }
type c15Ega4 struct{ Zlambda kyber.Scalar }
type c15Ega5 struct {
	Zsigma []kyber.Scalar
	Ztau   kyber.Scalar
}
type c15Ssa0 struct{ X, Y []kyber.Point }
type c15Ssa1 struct{ Zt kyber.Scalar }
type c15Ssa2 struct{ Theta []kyber.Point }
type c15Ssa3 struct{ Zc kyber.Scalar }
type c15Ssa4 struct{ Zalpha []kyber.Scalar }

// ---- reference verifier (labels which equations a transcript satisfies) ------------

// c15Ref is the result of re-verifying a pair-shuffle transcript in the harness:
// equations (31)-(35) of Neff's protocol as kyber checks them, the embedded
// simple-shuffle equations, and the two bindings kyber does not check
// (simple-shuffle inputs X_i = A_i + λB_i, Y_i = C_i + λD_i).
type c15Ref struct {
	err                              error
	eq33, eq34, eq35, simple, bX, bY bool
	// indices at which the per-index checks fail / simple-shuffle equations E_p that fail
	f33, fbX, fbY, fE []int
}

// onlyFails reports whether exactly the named check fails ("33", "34", "35",
// "simple", "bX", "bY") and, for the per-index checks, at exactly index idx
// (idx < 0: any single index).
func (c c15Ref) onlyFails(what string, idx int) bool {
	if c.err != nil {
		return false
	}
	ok := map[string]bool{"33": c.eq33, "34": c.eq34, "35": c.eq35, "simple": c.simple, "bX": c.bX, "bY": c.bY}
	for k, v := range ok {
		if (k == what) == v {
			return false
		}
	}
	var l []int
	switch what {
	case "33":
		l = c.f33
	case "bX":
		l = c.fbX
	case "bY":
		l = c.fbY
	case "simple":
		l = c.fE
	default:
		return true
	}
	return len(l) == 1 && (idx < 0 || l[0] == idx)
}

func (c c15Ref) kyberEqs() bool { return c.err == nil && c.eq33 && c.eq34 && c.eq35 && c.simple }
func (c c15Ref) all() bool      { return c.kyberEqs() && c.bX && c.bY }
func (c c15Ref) String() string {
	if c.err != nil {
		return "unreadable: " + c.err.Error()
	}
	str := fmt.Sprintf("(33)=%v (31)+(34)=%v (32)+(35)=%v simple-shuffle-eqs=%v simple.X==A+lambda*B:%v simple.Y==C+lambda*D:%v", c.eq33, c.eq34, c.eq35, c.simple, c.bX, c.bY)
	if len(c.f33)+len(c.fbX)+len(c.fbY)+len(c.fE) > 0 {
		str += fmt.Sprintf(" [failing: (33)@%v bindX@%v bindY@%v simple-E_p@%v]", c.f33, c.fbX, c.fbY, c.fE)
	}
	return str
}

// simpleCheck evaluates the simple k-shuffle verification equations.
func (j *c15J) simpleCheck(G, Gamma kyber.Point, X, Y, Theta []kyber.Point, alpha []kyber.Scalar, t, c kyber.Scalar) (bad []int) {
	s := j.s
	k := len(X)
	if G == nil {
		G = s.Point().Base()
	}
	negt := s.Scalar().Neg(t)
	U := s.Point().Mul(negt, G)
	W := s.Point().Mul(negt, Gamma)
	th := func(A, B, T kyber.Point, a, b kyber.Scalar) bool {
		return s.Point().Sub(s.Point().Mul(a, A), s.Point().Mul(b, B)).Equal(T)
	}
	xh := func(i int) kyber.Point { return s.Point().Add(X[i], U) }
	yh := func(i int) kyber.Point { return s.Point().Add(Y[i], W) }
	if !th(xh(0), yh(0), Theta[0], c, alpha[0]) {
		bad = append(bad, 0)
	}
	for i := 1; i < k; i++ {
		if !th(xh(i), yh(i), Theta[i], alpha[i-1], alpha[i]) {
			bad = append(bad, i)
		}
	}
	for i := k; i < 2*k-1; i++ {
		if !th(Gamma, G, Theta[i], alpha[i-1], alpha[i]) {
			bad = append(bad, i)
		}
	}
	if !th(Gamma, G, Theta[2*k-1], alpha[2*k-2], c) {
		bad = append(bad, 2*k-1)
	}
	return bad
}

func (j *c15J) readSimple(k int, ctx proof.VerifierContext) (s0 *c15Ssa0, s2 *c15Ssa2, s4 *c15Ssa4, t, c kyber.Scalar, err error) {
	s0 = &c15Ssa0{X: make([]kyber.Point, k), Y: make([]kyber.Point, k)}
	if err = ctx.Get(s0); err != nil {
		return
	}
	v1 := &c15Ssa1{}
	if err = ctx.PubRand(v1); err != nil {
		return
	}
	s2 = &c15Ssa2{Theta: make([]kyber.Point, 2*k)}
	if err = ctx.Get(s2); err != nil {
		return
	}
	v3 := &c15Ssa3{}
	if err = ctx.PubRand(v3); err != nil {
		return
	}
	s4 = &c15Ssa4{Zalpha: make([]kyber.Scalar, 2*k-1)}
	if err = ctx.Get(s4); err != nil {
		return
	}
	return s0, s2, s4, v1.Zt, v3.Zc, nil
}

// simpleStatement extracts the X, Y the stand-alone simple-shuffle proof speaks about.
func (j *c15J) simpleStatement(k int, prf []byte) (X, Y []kyber.Point, err error) {
	v := func(ctx proof.VerifierContext) error {
		s0 := &c15Ssa0{X: make([]kyber.Point, k), Y: make([]kyber.Point, k)}
		if e := ctx.Get(s0); e != nil {
			return e
		}
		X, Y = s0.X, s0.Y
		return nil
	}
	p, panicked := mon.Try(func() { err = proof.HashVerify(j.s, "SimpleShuffle", v, append([]byte(nil), prf...)) })
	if panicked {
		err = errors.New("panic: " + p)
	}
	return
}

// refPair re-verifies a pair-shuffle transcript against st.
func (j *c15J) refPair(st *c15Stmt, prf []byte) (res c15Ref) {
	s := j.s
	k := len(st.X)
	G := st.G
	if G == nil {
		G = s.Point().Base()
	}
	v := func(ctx proof.VerifierContext) error {
		p1 := &c15Ega1{A: make([]kyber.Point, k), C: make([]kyber.Point, k), U: make([]kyber.Point, k), W: make([]kyber.Point, k)}
		if e := ctx.Get(p1); e != nil {
			return e
		}
		v2 := &c15Ega2{Zrho: make([]kyber.Scalar, k)}
		if e := ctx.PubRand(v2); e != nil {
			return e
		}
		p3 := &c15Ega3{D: make([]kyber.Point, k)}
		if e := ctx.Get(p3); e != nil {
			return e
		}
		v4 := &c15Ega4{}
		if e := ctx.PubRand(v4); e != nil {
			return e
		}
		p5 := &c15Ega5{Zsigma: make([]kyber.Scalar, k)}
		if e := ctx.Get(p5); e != nil {
			return e
		}
		s0, s2, s4, t, c, e := j.readSimple(k, ctx)
		if e != nil {
			return e
		}
		res.fE = j.simpleCheck(G, p1.Gamma, s0.X, s0.Y, s2.Theta, s4.Zalpha, t, c)
		res.simple = len(res.fE) == 0
		res.bX, res.bY, res.eq33 = true, true, true
		phi1, phi2 := s.Point().Null(), s.Point().Null()
		for i := 0; i < k; i++ {
			B := s.Point().Sub(s.Point().Mul(v2.Zrho[i], G), p1.U[i])
			if !s.Point().Add(p1.A[i], s.Point().Mul(v4.Zlambda, B)).Equal(s0.X[i]) {
				res.bX = false
				res.fbX = append(res.fbX, i)
			}
			if !s.Point().Add(p1.C[i], s.Point().Mul(v4.Zlambda, p3.D[i])).Equal(s0.Y[i]) {
				res.bY = false
				res.fbY = append(res.fbY, i)
			}
			if !s.Point().Mul(p5.Zsigma[i], p1.Gamma).Equal(s.Point().Add(p1.W[i], p3.D[i])) {
				res.eq33 = false
				res.f33 = append(res.f33, i)
			}
			phi1 = s.Point().Sub(s.Point().Add(phi1, s.Point().Mul(p5.Zsigma[i], st.Xb[i])), s.Point().Mul(v2.Zrho[i], st.X[i]))
			phi2 = s.Point().Sub(s.Point().Add(phi2, s.Point().Mul(p5.Zsigma[i], st.Yb[i])), s.Point().Mul(v2.Zrho[i], st.Y[i]))
		}
		res.eq34 = s.Point().Add(p1.Lambda1, s.Point().Mul(p5.Ztau, G)).Equal(phi1)
		res.eq35 = s.Point().Add(p1.Lambda2, s.Point().Mul(p5.Ztau, st.H)).Equal(phi2)
		return nil
	}
	var err error
	p, panicked := mon.Try(func() { err = proof.HashVerify(j.s, st.name, v, append([]byte(nil), prf...)) })
	if panicked {
		err = errors.New("panic: " + p)
	}
	res.err = err
	return
}

// simpleCutProver is a cheating simple-shuffle prover: it writes a transcript
// for (x, y, gamma) in which every verification equation E_0..E_{2k-1} holds
// except E_p (for a true statement all of them hold). The honest algorithm run
// on a false witness always breaks E_k; this prover moves the break to any
// chosen equation, so a verifier that skips one equation is exposed.
//
// With delta_i = alpha_i - theta_i the equations read
//
//	E_0: delta_0 = c·xhat_0/yhat_0          E_i (1<=i<k): delta_i = delta_{i-1}·xhat_i/yhat_i
//	E_i (k<=i<=2k-2): delta_i = gamma·delta_{i-1}     E_{2k-1}: c = gamma·delta_{2k-2}
func (j *c15J) simpleCutProver(G kyber.Point, gamma kyber.Scalar, x, y []kyber.Scalar, p int) proof.Prover {
	s := j.s
	k := len(x)
	return func(ctx proof.ProverContext) error {
		s0 := &c15Ssa0{}
		for i := 0; i < k; i++ {
			s0.X = append(s0.X, s.Point().Mul(x[i], G))
			s0.Y = append(s0.Y, s.Point().Mul(y[i], G))
		}
		if err := ctx.Put(s0); err != nil {
			return err
		}
		v1 := &c15Ssa1{}
		if err := ctx.PubRand(v1); err != nil {
			return err
		}
		t := v1.Zt
		gt := s.Scalar().Mul(gamma, t)
		xh := make([]kyber.Scalar, k)
		yh := make([]kyber.Scalar, k)
		for i := 0; i < k; i++ {
			xh[i] = s.Scalar().Sub(x[i], t)
			yh[i] = s.Scalar().Sub(y[i], gt)
		}
		n := 2*k - 1
		th := make([]kyber.Scalar, n)
		for i := range th {
			th[i] = j.rs()
		}
		mulG := func(v kyber.Scalar) kyber.Point { return s.Point().Mul(v, G) }
		Theta := make([]kyber.Point, n+1)
		Theta[0] = mulG(s.Scalar().Neg(s.Scalar().Mul(th[0], yh[0])))
		for i := 1; i < k; i++ {
			Theta[i] = mulG(s.Scalar().Sub(s.Scalar().Mul(th[i-1], xh[i]), s.Scalar().Mul(th[i], yh[i])))
		}
		for i := k; i < n; i++ {
			Theta[i] = mulG(s.Scalar().Sub(s.Scalar().Mul(th[i-1], gamma), th[i]))
		}
		Theta[n] = mulG(s.Scalar().Mul(th[n-1], gamma))
		if err := ctx.Put(&c15Ssa2{Theta: Theta}); err != nil {
			return err
		}
		v3 := &c15Ssa3{}
		if err := ctx.PubRand(v3); err != nil {
			return err
		}
		c := v3.Zc
		d := make([]kyber.Scalar, n)
		// forward through E_0..E_{p-1}
		for i := 0; i < p && i < n; i++ {
			switch {
			case i == 0:
				d[0] = s.Scalar().Div(s.Scalar().Mul(c, xh[0]), yh[0])
			case i < k:
				d[i] = s.Scalar().Div(s.Scalar().Mul(d[i-1], xh[i]), yh[i])
			default:
				d[i] = s.Scalar().Mul(gamma, d[i-1])
			}
		}
		// backward through E_{2k-1}..E_{p+1}
		for e := n; e > p; e-- {
			switch {
			case e == n:
				d[n-1] = s.Scalar().Div(c, gamma)
			case e >= k:
				d[e-1] = s.Scalar().Div(d[e], gamma)
			default:
				d[e-1] = s.Scalar().Div(s.Scalar().Mul(d[e], yh[e]), xh[e])
			}
		}
		alpha := make([]kyber.Scalar, n)
		for i := range alpha {
			alpha[i] = s.Scalar().Add(th[i], d[i])
		}
		return ctx.Put(&c15Ssa4{Zalpha: alpha})
	}
}

// ---- linear algebra over the scalar field -----------------------------------------------

type c15Mat [][]kyber.Scalar

func (j *c15J) matZero(k int) c15Mat {
	m := make(c15Mat, k)
	for i := range m {
		m[i] = make([]kyber.Scalar, k)
		for c := range m[i] {
			m[i][c] = j.s.Scalar().Zero()
		}
	}
	return m
}

// matInv returns the inverse (Gauss-Jordan) or nil if singular.
func (j *c15J) matInv(m c15Mat) c15Mat {
	s := j.s
	k := len(m)
	a := j.matZero(k)
	inv := j.matZero(k)
	zero := s.Scalar().Zero()
	for i := 0; i < k; i++ {
		for c := 0; c < k; c++ {
			a[i][c] = m[i][c].Clone()
		}
		inv[i][i] = s.Scalar().One()
	}
	for col := 0; col < k; col++ {
		p := -1
		for r := col; r < k; r++ {
			if !a[r][col].Equal(zero) {
				p = r
				break
			}
		}
		if p < 0 {
			return nil
		}
		a[col], a[p] = a[p], a[col]
		inv[col], inv[p] = inv[p], inv[col]
		d := s.Scalar().Inv(a[col][col])
		for c := 0; c < k; c++ {
			a[col][c] = s.Scalar().Mul(a[col][c], d)
			inv[col][c] = s.Scalar().Mul(inv[col][c], d)
		}
		for r := 0; r < k; r++ {
			if r == col || a[r][col].Equal(zero) {
				continue
			}
			f := a[r][col].Clone()
			for c := 0; c < k; c++ {
				a[r][c] = s.Scalar().Sub(a[r][c], s.Scalar().Mul(f, a[col][c]))
				inv[r][c] = s.Scalar().Sub(inv[r][c], s.Scalar().Mul(f, inv[col][c]))
			}
		}
	}
	return inv
}

func (j *c15J) matString(m c15Mat) []string {
	one, zero := j.s.Scalar().One(), j.s.Scalar().Zero()
	out := make([]string, len(m))
	for i, row := range m {
		var parts []string
		for _, v := range row {
			switch {
			case v.Equal(zero):
				parts = append(parts, "0")
			case v.Equal(one):
				parts = append(parts, "1")
			default:
				parts = append(parts, c15HexS(v))
			}
		}
		out[i] = "[" + strings.Join(parts, " ") + "]"
	}
	return out
}

// forgeMatrix builds an invertible k×k matrix of the family; "perm" is the
// control (a permutation matrix: the statement is then true).
func (j *c15J) forgeMatrix(family string, k int) c15Mat {
	s := j.s
	for {
		m := j.matZero(k)
		pi := j.rng.Perm(k)
		for i := 0; i < k; i++ {
			m[i][pi[i]] = s.Scalar().One()
		}
		switch family {
		case "perm":
		case "sum": // identity plus one off-diagonal 1: output a = input a + input b
			m = j.matZero(k)
			for i := 0; i < k; i++ {
				m[i][i] = s.Scalar().One()
			}
			a := 0
			b := 1
			if k > 2 {
				a = j.rng.IntN(k)
				b = (a + 1 + j.rng.IntN(k-1)) % k
			}
			m[a][b] = s.Scalar().One()
		case "perm-sum":
			a := j.rng.IntN(k)
			b := (pi[a] + 1 + j.rng.IntN(k-1)) % k
			m[a][b] = s.Scalar().One()
		case "scalar": // c·P_pi, c not in {0,1}
			var c kyber.Scalar
			switch j.rng.IntN(3) {
			case 0:
				c = j.si(2)
			case 1:
				c = j.si(-1)
			default:
				c = j.nz()
			}
			if c.Equal(s.Scalar().One()) {
				continue
			}
			for i := 0; i < k; i++ {
				m[i][pi[i]] = c.Clone()
			}
		case "diag": // one slot scaled
			a := j.rng.IntN(k)
			c := j.nz()
			if c.Equal(s.Scalar().One()) {
				continue
			}
			m[a][pi[a]] = c
		case "row": // one output is a random combination of all inputs
			a := j.rng.IntN(k)
			for c := 0; c < k; c++ {
				m[a][c] = j.nz()
			}
		case "general":
			for i := 0; i < k; i++ {
				for c := 0; c < k; c++ {
					m[i][c] = j.rs()
				}
			}
		default:
			panic("harness: unknown matrix family " + family)
		}
		if j.matInv(m) != nil {
			return m
		}
	}
}

// linOut computes Xbar = M·X + beta·G, Ybar = M·Y + betaY·H.
func (j *c15J) linOut(in *c15Inst, X, Y []kyber.Point, m c15Mat, beta, betaY []kyber.Scalar) (Xb, Yb []kyber.Point) {
	s := j.s
	k := len(X)
	zero := s.Scalar().Zero()
	Xb = make([]kyber.Point, k)
	Yb = make([]kyber.Point, k)
	for i := 0; i < k; i++ {
		Xb[i] = s.Point().Mul(beta[i], in.G)
		Yb[i] = s.Point().Mul(betaY[i], in.H)
		for c := 0; c < k; c++ {
			if m[i][c].Equal(zero) {
				continue
			}
			Xb[i] = s.Point().Add(Xb[i], s.Point().Mul(m[i][c], X[c]))
			Yb[i] = s.Point().Add(Yb[i], s.Point().Mul(m[i][c], Y[c]))
		}
	}
	return
}

// forgeProver is the cheating prover of DESIGN §5 C15. It never looks at the
// ciphertexts: it needs only G, H, the inverse of M and the blinding beta.
//
//	step 1: Γ = γG, A_i = a_iG, C_i = c_iG, U_i = u_iG, W_i = γw_iG, Λ1 = ℓG, Λ2 = ℓH
//	step 3: after ρ: σ = ρ·M⁻¹ (so that σ·M = ρ), D_i = σ_iΓ − W_i        ⇒ (33)
//	step 5: τ = Σσ_iβ_i − ℓ                                               ⇒ (31)/(34), (32)/(35)
//	step 6: an honest simple-shuffle proof for (x, y = γ·π'(x)); bind selects
//	        x unrelated ("none"), x = a + λ(ρ−u) so that x_iG = A_i+λB_i ("x"),
//	        or y_i = c_i + λγ(σ_i−w_i) so that y_iG = C_i+λD_i ("y").
//
// dev breaks exactly one thing on purpose (those transcripts must be rejected
// by the code as it is): badD → (33); badTau → (34),(35); lambda1 → (34);
// simple-nonperm / simple-gamma → the embedded simple shuffle.
func (j *c15J) forgeProver(in *c15Inst, k int, minv c15Mat, beta []kyber.Scalar, bind, dev string) proof.Prover {
	s := j.s
	G := in.G
	return func(ctx proof.ProverContext) error {
		gamma := j.nz()
		ell := j.rs()
		p1 := &c15Ega1{Gamma: s.Point().Mul(gamma, G), Lambda1: s.Point().Mul(ell, G), Lambda2: s.Point().Mul(ell, in.H)}
		a, c, u, w := make([]kyber.Scalar, k), make([]kyber.Scalar, k), make([]kyber.Scalar, k), make([]kyber.Scalar, k)
		for i := 0; i < k; i++ {
			a[i], c[i], u[i], w[i] = j.rs(), j.rs(), j.rs(), j.rs()
			p1.A = append(p1.A, s.Point().Mul(a[i], G))
			p1.C = append(p1.C, s.Point().Mul(c[i], G))
			p1.U = append(p1.U, s.Point().Mul(u[i], G))
			p1.W = append(p1.W, s.Point().Mul(s.Scalar().Mul(gamma, w[i]), G))
		}
		if dev == "lambda1" {
			p1.Lambda1 = s.Point().Add(p1.Lambda1, G)
		}
		if err := ctx.Put(p1); err != nil {
			return err
		}
		v2 := &c15Ega2{Zrho: make([]kyber.Scalar, k)}
		if err := ctx.PubRand(v2); err != nil {
			return err
		}
		rho := v2.Zrho
		sigma := make([]kyber.Scalar, k)
		for i := 0; i < k; i++ {
			sigma[i] = s.Scalar().Zero()
			for r := 0; r < k; r++ {
				sigma[i] = s.Scalar().Add(sigma[i], s.Scalar().Mul(rho[r], minv[r][i]))
			}
		}
		p3 := &c15Ega3{}
		badIdx := j.rng.IntN(k)
		dlogD := make([]kyber.Scalar, k) // D_i = dlogD_i·G
		for i := 0; i < k; i++ {
			dlogD[i] = s.Scalar().Mul(gamma, s.Scalar().Sub(sigma[i], w[i]))
			if dev == "badD" && i == badIdx {
				dlogD[i] = s.Scalar().Add(dlogD[i], s.Scalar().One())
			}
			p3.D = append(p3.D, s.Point().Mul(dlogD[i], G))
		}
		if err := ctx.Put(p3); err != nil {
			return err
		}
		v4 := &c15Ega4{}
		if err := ctx.PubRand(v4); err != nil {
			return err
		}
		lambda := v4.Zlambda
		tau := s.Scalar().Neg(ell)
		for i := 0; i < k; i++ {
			tau = s.Scalar().Add(tau, s.Scalar().Mul(sigma[i], beta[i]))
		}
		if dev == "badTau" {
			tau = s.Scalar().Add(tau, s.Scalar().One())
		}
		if err := ctx.Put(&c15Ega5{Zsigma: sigma, Ztau: tau}); err != nil {
			return err
		}
		// embedded simple shuffle
		pp := j.rng.Perm(k)
		x := make([]kyber.Scalar, k)
		y := make([]kyber.Scalar, k)
		switch bind {
		case "none":
			for i := range x {
				x[i] = j.rs()
			}
			for i := range y {
				y[i] = s.Scalar().Mul(gamma, x[pp[i]])
			}
		case "x":
			for i := range x {
				b := s.Scalar().Sub(rho[i], u[i])
				x[i] = s.Scalar().Add(a[i], s.Scalar().Mul(lambda, b))
			}
			for i := range y {
				y[i] = s.Scalar().Mul(gamma, x[pp[i]])
			}
		case "y":
			ginv := s.Scalar().Inv(gamma)
			for i := range y {
				y[i] = s.Scalar().Add(c[i], s.Scalar().Mul(lambda, dlogD[i]))
				x[pp[i]] = s.Scalar().Mul(ginv, y[i])
			}
		default:
			panic("harness: unknown bind " + bind)
		}
		gp := gamma
		switch dev {
		case "simple-nonperm":
			y[0] = s.Scalar().Add(y[0], s.Scalar().One())
		case "simple-gamma":
			gp = s.Scalar().Add(gamma, s.Scalar().One())
			for i := range y {
				y[i] = s.Scalar().Mul(gp, x[pp[i]])
			}
		}
		ss := new(shuffle.SimpleShuffle).Init(s, k)
		return ss.Prove(G, gp, x, y, j.st, ctx)
	}
}

var c15ForgeFamilies = []string{"sum", "scalar", "diag", "row", "perm-sum", "general"}
var c15ForgeDevs = []string{"badD", "badTau", "lambda1", "simple-nonperm", "simple-gamma", "beta-mismatch-Y", "beta-mismatch-X"}

func c15PlanForge(r *mon.R, e *c15Env, plan *gen.Rng, add func(c15Job)) {
	// minimal witness first
	add(c15Job{env: e, kind: "forge", label: "forge", k: 2, arg: "sum", arg2: "none/", flavor: "random"})
	ks := []int{2, 3, 5, 8, 12}
	for _, fam := range c15ForgeFamilies {
		for _, bind := range []string{"none", "x", "y"} {
			for _, k := range ks {
				add(c15Job{env: e, kind: "forge", label: "forge", k: k, arg: fam, arg2: bind + "/", gnil: k%2 == 1})
			}
		}
	}
	for _, dev := range c15ForgeDevs {
		for _, k := range []int{2, 4, 7} {
			add(c15Job{env: e, kind: "forge", label: "forge", k: k, arg: c15ForgeFamilies[plan.IntN(len(c15ForgeFamilies))], arg2: "none/" + dev})
		}
	}
	for _, k := range []int{2, 5} {
		add(c15Job{env: e, kind: "forge", label: "forge", k: k, arg: "perm", arg2: "none/"})
	}
	for nq := 1; nq <= 4; nq++ {
		for _, fam := range c15ForgeFamilies {
			add(c15Job{env: e, kind: "seqforge", label: "seqforge", k: 2 + plan.IntN(5), nq: nq, arg: fam, arg2: "none/"})
		}
	}
	if r.Thorough() {
		binds := []string{"none", "x", "y"}
		for i := 0; i < 900; i++ {
			k := 2 + plan.IntN(11)
			if i%6 == 0 {
				k = 13 + plan.IntN(28)
			}
			add(c15Job{env: e, kind: "forge", label: "forge", k: k, arg: c15ForgeFamilies[plan.IntN(len(c15ForgeFamilies))], arg2: binds[plan.IntN(3)] + "/", gnil: i%2 == 0})
		}
		for i := 0; i < 210; i++ {
			add(c15Job{env: e, kind: "forge", label: "forge", k: 2 + plan.IntN(11), arg: c15ForgeFamilies[plan.IntN(len(c15ForgeFamilies))], arg2: binds[plan.IntN(3)] + "/" + c15ForgeDevs[i%len(c15ForgeDevs)]})
		}
		for i := 0; i < 120; i++ {
			add(c15Job{env: e, kind: "seqforge", label: "seqforge", k: 2 + plan.IntN(11), nq: 1 + i%4, arg: c15ForgeFamilies[plan.IntN(len(c15ForgeFamilies))], arg2: binds[plan.IntN(3)] + "/"})
		}
	}
}

// judgeForge verifies a forged transcript with the real verifier and records the verdict.
func (j *c15J) judgeForge(scheme string, st *c15Stmt, k int, fam, bind, dev string, m c15Mat, beta []kyber.Scalar, stmtFalse bool, prf []byte, extra map[string]any, desc string) {
	famKey := "lin-" + fam
	if dev != "" {
		famKey += "+" + dev
	}
	class := scheme + "/cheating-prover/" + famKey + "/bind-" + bind
	ref := j.refPair(st, prf)
	det := func() map[string]any {
		d := st.detail()
		d["k"] = k
		d["family"] = fam
		d["simple_shuffle_binding_satisfied_by_forger"] = bind
		d["deliberately_broken"] = dev
		d["M"] = j.matString(m)
		d["beta"] = c15HexSs(beta)
		d["outputs"] = "Xbar = M*X + beta*G, Ybar = M*Y + beta*H (M is not a permutation matrix)"
		d["reference_check_of_transcript"] = ref.String()
		for kk, v := range extra {
			d[kk] = v
		}
		return d
	}
	if !stmtFalse {
		// control (M a permutation) or a coincidence: nothing is demanded
		err, ok := j.verify(scheme, "cheating-prover/"+famKey, st.name, j.pairVerifier(st.G, st.H, st.X, st.Y, st.Xb, st.Yb), prf, det)
		if ok {
			j.r.Eval(scheme+"/forger-control/true-statement", j.id+desc, false)
			if err == nil {
				j.r.NoteAdd("forger_control_true_statement_accepted", 1)
			} else {
				j.r.NoteAdd("forger_control_true_statement_rejected", 1)
			}
		}
		return
	}
	err, ok := j.verify(scheme, "cheating-prover/"+famKey, st.name, j.pairVerifier(st.G, st.H, st.X, st.Y, st.Xb, st.Yb), prf, det)
	if !ok {
		return
	}
	// non-trivial: the transcript is what the forger intended (all of kyber's
	// equations hold for the plain forgeries; exactly the targeted one fails otherwise)
	intended := ref.err == nil
	if dev == "" {
		intended = intended && ref.kyberEqs()
	}
	j.r.Eval(class, j.id+desc, intended)
	if !intended {
		j.r.NoteAdd("forged_transcripts_not_as_intended", 1)
		j.r.Note("forged_transcript_not_as_intended_example", map[string]any{"job": j.id, "class": class, "ref": ref.String()})
	}
	if err == nil {
		j.r.NoteAdd("forged_transcripts_accepted", 1)
		d := det()
		d["proof"] = c15HexProof(prf)
		d["ground_truth"] = "with the decryption key h the harness checked that no permutation pi makes every (Xbar_i,Ybar_i) a re-encryption of (X_pi(i),Y_pi(i))"
		d["code_location"] = "shuffle/pair.go (*PairShuffle).Verify, step 6: ps.pv6.Verify(G, p1.Gamma, ctx) reads the simple shuffle's X,Y from the proof and never compares them with A+lambda*B and C+lambda*D (lambda = v4.Zlambda is not used by Verify at all)"
		j.violation("C15/"+scheme+"/cheating-prover/"+famKey+"/accepted",
			"forged proof ACCEPTED for an output that is not a permutation of re-encryptions ("+famKey+"; transcript: "+ref.String()+")", d)
	} else {
		j.r.NoteAdd("forged_transcripts_rejected", 1)
	}
	stag := scheme + "/cheating-prover/" + famKey
	if dev != "" {
		stag = scheme + "/cheating-prover/+" + dev
	}
	{
		j.sample(stag, map[string]any{"class": class, "env": j.env.name, "k": k, "M": j.matString(m), "reference_check_of_transcript": ref.String(), "verdict": c15Err(err)})
	}
}

func (j *c15J) forgeBetas(k int, dev string) (beta, betaX, betaY []kyber.Scalar) {
	beta = j.betas(k, j.rng.IntN(5) == 0)
	betaX, betaY = beta, beta
	cl := func() []kyber.Scalar {
		o := make([]kyber.Scalar, k)
		for i := range beta {
			o[i] = beta[i].Clone()
		}
		i := j.rng.IntN(k)
		o[i] = j.s.Scalar().Add(o[i], j.s.Scalar().One())
		return o
	}
	switch dev {
	case "beta-mismatch-Y":
		betaY = cl()
	case "beta-mismatch-X":
		betaX = cl()
	}
	return
}

func (j *c15J) jobForge(jb c15Job) {
	k, fam := jb.k, jb.arg
	parts := strings.SplitN(jb.arg2, "/", 2)
	bind, dev := parts[0], parts[1]
	flavor := "random"
	if jb.flavor != "" {
		flavor = jb.flavor
	} else if j.rng.IntN(4) == 0 {
		flavor = c15Flavors[j.rng.IntN(len(c15Flavors))]
	}
	in := j.inst(k, flavor, jb.gnil)
	m := j.forgeMatrix(fam, k)
	minv := j.matInv(m)
	beta, betaX, betaY := j.forgeBetas(k, dev)
	Xb, Yb := j.linOut(in, in.X, in.Y, m, betaX, betaY)
	st := &c15Stmt{G: in.aG(), H: in.H, X: in.X, Y: in.Y, Xb: Xb, Yb: Yb, name: "PairShuffle"}
	stmtFalse := !j.isShuffle1(in, in.X, in.Y, Xb, Yb)
	desc := fmt.Sprintf("|k=%d|%s|%s|%s|gnil=%v", k, fam, bind, dev, jb.gnil)
	j.r.Op("proof.HashProve", "proof.HashVerify", "shuffle.Verifier", "shuffle.PairShuffle.Verify", "shuffle.SimpleShuffle.Prove", "shuffle.SimpleShuffle.Verify")
	prf, err := proof.HashProve(j.s, "PairShuffle", j.forgeProver(in, k, minv, beta, bind, dev))
	if err != nil {
		panic("harness: forging prover failed: " + err.Error())
	}
	j.judgeForge("pair", st, k, fam, bind, dev, m, beta, stmtFalse, prf, map[string]any{"input_flavor": flavor, "decryption_key_h": c15HexS(in.hS) + " (H = h*G; plaintext of a pair is Y - h*X)"}, desc)
}

func (j *c15J) jobSeqForge(jb c15Job) {
	s := j.s
	k, nq, fam := jb.k, jb.nq, jb.arg
	parts := strings.SplitN(jb.arg2, "/", 2)
	bind, dev := parts[0], parts[1]
	in := j.inst(k, "random", jb.gnil)
	X := make([][]kyber.Point, nq)
	Y := make([][]kyber.Point, nq)
	Xb := make([][]kyber.Point, nq)
	Yb := make([][]kyber.Point, nq)
	betas := make([][]kyber.Scalar, nq)
	m := j.forgeMatrix(fam, k)
	minv := j.matInv(m)
	X[0], Y[0] = in.X, in.Y
	for q := 0; q < nq; q++ {
		if q > 0 {
			X[q], Y[q] = j.pairs(in, k, "random")
		}
		betas[q] = j.betas(k, false)
		Xb[q], Yb[q] = j.linOut(in, X[q], Y[q], m, betas[q], betas[q])
	}
	stmtFalse := !j.isShuffle(in.hS, X, Y, Xb, Yb)
	// the verifier's challenge e comes after the outputs are fixed
	e := make([]kyber.Scalar, nq)
	for q := range e {
		e[q] = j.nz()
	}
	beta2 := make([]kyber.Scalar, k)
	for i := 0; i < k; i++ {
		beta2[i] = s.Scalar().Zero()
		for q := 0; q < nq; q++ {
			beta2[i] = s.Scalar().Add(beta2[i], s.Scalar().Mul(e[q], betas[q][i]))
		}
	}
	j.r.Op("shuffle.GetSequenceVerifiable", "shuffle.Verifier", "proof.HashVerify")
	prf, err := proof.HashProve(j.s, "PairShuffle", j.forgeProver(in, k, minv, beta2, bind, dev))
	if err != nil {
		panic("harness: forging prover failed: " + err.Error())
	}
	ec := make([]kyber.Scalar, nq)
	for i := range e {
		ec[i] = e[i].Clone()
	}
	xu, yu, xd, yd := shuffle.GetSequenceVerifiable(j.s, j.cpss(X), j.cpss(Y), j.cpss(Xb), j.cpss(Yb), ec)
	st := &c15Stmt{G: in.aG(), H: in.H, X: xu, Y: yu, Xb: xd, Yb: yd, name: "PairShuffle"}
	extra := map[string]any{"nq": nq, "e": c15HexSs(e), "decryption_key_h": c15HexS(in.hS) + " (H = h*G; plaintext of a pair is Y - h*X)", "note": "X,Y,Xbar,Ybar are the consolidated vectors returned by GetSequenceVerifiable; every sequence q has Xbar[q] = M*X[q] + beta[q]*G"}
	for q := 0; q < nq; q++ {
		extra[fmt.Sprintf("seq%d.X", q)] = c15HexPs(X[q])
		extra[fmt.Sprintf("seq%d.Y", q)] = c15HexPs(Y[q])
		extra[fmt.Sprintf("seq%d.Xbar", q)] = c15HexPs(Xb[q])
		extra[fmt.Sprintf("seq%d.Ybar", q)] = c15HexPs(Yb[q])
	}
	desc := fmt.Sprintf("|nq=%d|k=%d|%s|%s|%s", nq, k, fam, bind, dev)
	j.judgeForge("sequences", st, k, fam, bind, dev, m, beta2, stmtFalse, prf, extra, desc)
}

// ---- biffle ------------------------------------------------------------------------------

// c15BifflePred rebuilds the predicate of shuffle/biffle.go (same names, same order).
func c15BifflePred() proof.Predicate {
	and0 := proof.And(proof.Rep("Xbar0-X0", "beta0", "G"), proof.Rep("Ybar0-Y0", "beta0", "H"),
		proof.Rep("Xbar1-X1", "beta1", "G"), proof.Rep("Ybar1-Y1", "beta1", "H"))
	and1 := proof.And(proof.Rep("Xbar0-X1", "beta1", "G"), proof.Rep("Ybar0-Y1", "beta1", "H"),
		proof.Rep("Xbar1-X0", "beta0", "G"), proof.Rep("Ybar1-Y0", "beta0", "H"))
	return proof.Or(and0, and1)
}

func (j *c15J) bifflePoints(G, H kyber.Point, X, Y, Xb, Yb [2]kyber.Point) map[string]kyber.Point {
	s := j.s
	return map[string]kyber.Point{"G": G, "H": H,
		"Xbar0-X0": s.Point().Sub(Xb[0], X[0]), "Ybar0-Y0": s.Point().Sub(Yb[0], Y[0]),
		"Xbar1-X1": s.Point().Sub(Xb[1], X[1]), "Ybar1-Y1": s.Point().Sub(Yb[1], Y[1]),
		"Xbar0-X1": s.Point().Sub(Xb[0], X[1]), "Ybar0-Y1": s.Point().Sub(Yb[0], Y[1]),
		"Xbar1-X0": s.Point().Sub(Xb[1], X[0]), "Ybar1-Y0": s.Point().Sub(Yb[1], Y[0])}
}

func c15Arr(p []kyber.Point) [2]kyber.Point { return [2]kyber.Point{p[0], p[1]} }

func (j *c15J) biffleVerifier(G, H kyber.Point, X, Y, Xb, Yb []kyber.Point) func() proof.Verifier {
	return func() proof.Verifier {
		return shuffle.BiffleVerifier(j.s, j.cp(G), j.cp(H), c15Arr(j.cps(X)), c15Arr(j.cps(Y)), c15Arr(j.cps(Xb)), c15Arr(j.cps(Yb)))
	}
}

func (j *c15J) jobBiffle(flavor string, gnil bool) {
	s := j.s
	in := j.inst(2, flavor, gnil)
	desc := fmt.Sprintf("|%s|gnil=%v", flavor, gnil)
	j.r.Op("shuffle.Biffle", "shuffle.BiffleVerifier", "proof.HashProve", "proof.HashVerify", "proof.Or.Prover")
	Xa, Ya, prover := shuffle.Biffle(j.s, in.aG(), in.H, c15Arr(in.X), c15Arr(in.Y), j.st)
	Xb, Yb := Xa[:], Ya[:]
	st := &c15Stmt{G: in.aG(), H: in.H, X: in.X, Y: in.Y, Xb: Xb, Yb: Yb, name: "Biffle"}
	prf, err := proof.HashProve(j.s, "Biffle", prover)
	if err != nil {
		d := st.detail()
		d["error"] = err.Error()
		j.r.Eval("biffle/honest/Biffle", j.id+desc, true)
		j.violation("C15/biffle/honest/prove-error", "honest biffle prover returned an error: "+err.Error(), d)
		return
	}
	if !j.isShuffle1(in, in.X, in.Y, Xb, Yb) {
		j.violation("C15/biffle/honest/output-not-a-shuffle", "output of shuffle.Biffle is not a permutation of re-encryptions of its input", st.detail())
	}
	verr, ok := j.verify("biffle", "honest", "Biffle", j.biffleVerifier(st.G, st.H, st.X, st.Y, st.Xb, st.Yb), prf, st.detail)
	if !ok {
		return
	}
	// which bit did Biffle draw? (ground truth by decryption)
	bit := "1"
	if s.Point().Sub(Yb[0], s.Point().Mul(in.hS, Xb[0])).Equal(s.Point().Sub(in.Y[0], s.Point().Mul(in.hS, in.X[0]))) {
		bit = "0"
	}
	j.r.Eval("biffle/honest/Biffle/bit="+bit, j.id+desc, true)
	if verr != nil {
		d := st.detail()
		d["error"] = verr.Error()
		d["proof"] = c15HexProof(prf)
		j.violation("C15/biffle/honest/rejected", "honest biffle proof rejected: "+verr.Error(), d)
		return
	}
	j.sample("biffle/honest/"+j.env.name, map[string]any{"class": "biffle/honest", "env": j.env.name, "bit": bit, "flavor": flavor, "proof_len": len(prf), "verdict": "accepted"})

	// honest proof, altered statement
	d0 := st.digest()
	for _, alt := range c15PairAlts() {
		a := j.rng.IntN(2)
		b := 1 - a
		st2 := st.clone()
		hEff, ok := alt.apply(j, in, st2, a, b)
		if !ok {
			continue
		}
		if hEff == nil {
			hEff = in.hS
		}
		class := "biffle/wrong-statement/" + alt.name
		if st2.digest() == d0 {
			j.r.Eval(class+"/no-op-skipped", j.id+desc, false)
			continue
		}
		stillTrue := j.isShuffle(hEff, [][]kyber.Point{st2.X}, [][]kyber.Point{st2.Y}, [][]kyber.Point{st2.Xb}, [][]kyber.Point{st2.Yb})
		if stillTrue {
			class += "+statement-still-true"
		}
		e, ok := j.verify("biffle", "wrong-statement/"+alt.name, st2.name, j.biffleVerifier(st2.G, st2.H, st2.X, st2.Y, st2.Xb, st2.Yb), prf, st2.detail)
		if !ok {
			continue
		}
		j.r.Eval(class, j.id+desc, true)
		if e == nil {
			d := st2.detail()
			d["alteration"] = alt.name
			d["statement_still_a_shuffle"] = stillTrue
			d["proof"] = c15HexProof(prf)
			j.violation("C15/biffle/wrong-statement/"+alt.name+"/accepted", "honest biffle proof accepted for an altered statement ("+alt.name+")", d)
		}
	}

	// harness-built prover over the same predicate: honest for both bits, then
	// with secrets that fit neither branch
	one := s.Scalar().One()
	type bcase struct {
		name         string
		honest       bool
		m            c15Mat // output = m·input + beta
		betaX, betaY []kyber.Scalar
		choice       int
		secrets      func(bx []kyber.Scalar) (kyber.Scalar, kyber.Scalar)
	}
	mk := func(a, b, c, d kyber.Scalar) c15Mat { return c15Mat{{a, b}, {c, d}} }
	z := s.Scalar().Zero()
	bx := j.betas(2, false)
	bym := []kyber.Scalar{s.Scalar().Add(bx[0], one), bx[1].Clone()}
	// honest: out[i] = in[i^bit] + beta[i^bit]; secrets are indexed by INPUT
	idSec := func(b []kyber.Scalar) (kyber.Scalar, kyber.Scalar) { return b[0], b[1] }
	swSec := func(b []kyber.Scalar) (kyber.Scalar, kyber.Scalar) { return b[1], b[0] }
	cases := []bcase{
		{"honest-bit0", true, mk(one, z, z, one), bx, bx, 0, idSec},
		{"honest-bit1", true, mk(z, one, one, z), bx, bx, 1, swSec},
		{"sum/claim-branch0", false, mk(one, one, z, one), bx, bx, 0, idSec},
		{"sum/claim-branch1", false, mk(one, one, z, one), bx, bx, 1, swSec},
		{"duplicate-input0/claim-branch0", false, mk(one, z, one, z), bx, bx, 0, idSec},
		{"duplicate-input0/claim-branch1", false, mk(one, z, one, z), bx, bx, 1, swSec},
		{"scalar-multiple/claim-branch0", false, mk(j.si(2), z, z, one), bx, bx, 0, idSec},
		{"blinding-mismatch-between-X-and-Y/claim-branch0", false, mk(one, z, z, one), bx, bym, 0, idSec},
		{"blinding-mismatch-between-X-and-Y/claim-branch1", false, mk(z, one, one, z), bx, bym, 1, swSec},
		{"true-for-branch1-but-claims-branch0", false, mk(z, one, one, z), bx, bx, 0, idSec},
	}
	for _, bc := range cases {
		Xo, Yo := j.linOut(in, in.X, in.Y, bc.m, bc.betaX, bc.betaY)
		st3 := &c15Stmt{G: in.aG(), H: in.H, X: in.X, Y: in.Y, Xb: Xo, Yb: Yo, name: "Biffle"}
		isShuf := j.isShuffle1(in, in.X, in.Y, Xo, Yo)
		or := c15BifflePred()
		b0, b1 := bc.secrets(bc.betaX)
		pr := or.Prover(j.s, map[string]kyber.Scalar{"beta0": b0, "beta1": b1}, j.bifflePoints(in.G, in.H, c15Arr(in.X), c15Arr(in.Y), c15Arr(Xo), c15Arr(Yo)), map[proof.Predicate]int{or: bc.choice})
		p3, perr := proof.HashProve(j.s, "Biffle", pr)
		class := "biffle/harness-prover/" + bc.name
		if perr != nil {
			j.r.Eval(class+"/prover-refused", j.id+desc, !bc.honest)
			if bc.honest {
				d := st3.detail()
				d["error"] = perr.Error()
				j.violation("C15/biffle/honest/prove-error", "Or-predicate prover over the biffle predicate returned an error for a true statement: "+perr.Error(), d)
			}
			continue
		}
		e, ok := j.verify("biffle", "harness-prover/"+bc.name, "Biffle", j.biffleVerifier(st3.G, st3.H, st3.X, st3.Y, st3.Xb, st3.Yb), p3, st3.detail)
		if !ok {
			continue
		}
		switch {
		case bc.honest:
			j.r.Eval(class, j.id+desc, true)
			if !isShuf {
				panic("harness: honest biffle case is not a shuffle")
			}
			if e != nil {
				d := st3.detail()
				d["error"] = e.Error()
				d["proof"] = c15HexProof(p3)
				j.violation("C15/biffle/honest/rejected", "honest biffle proof (chosen bit) rejected: "+e.Error(), d)
			}
		case isShuf:
			// e.g. identical input pairs make a "duplicate" a true statement, or the
			// prover merely named the wrong branch: nothing is demanded
			j.r.Eval(class+"/statement-true-skipped", j.id+desc, false)
		default:
			j.r.Eval(class, j.id+desc, true)
			if e == nil {
				d := st3.detail()
				d["family"] = bc.name
				d["M"] = j.matString(bc.m)
				d["proof"] = c15HexProof(p3)
				j.violation("C15/biffle/cheating-prover/"+strings.SplitN(bc.name, "/", 2)[0]+"/accepted", "biffle proof accepted for an output that is not a permutation of re-encryptions ("+bc.name+")", d)
			}
		}
	}

	// hand-written transcript: both branches simulated (sub-challenges chosen
	// before the commitments, so they do not add up to the Fiat-Shamir challenge)
	{
		m := mk(one, one, z, one)
		Xo, Yo := j.linOut(in, in.X, in.Y, m, bx, bx)
		st4 := &c15Stmt{G: in.aG(), H: in.H, X: in.X, Y: in.Y, Xb: Xo, Yb: Yo, name: "Biffle"}
		if !j.isShuffle1(in, in.X, in.Y, Xo, Yo) {
			pts := j.bifflePoints(in.G, in.H, c15Arr(in.X), c15Arr(in.Y), c15Arr(Xo), c15Arr(Yo))
			reps := [2][4][2]string{
				{{"Xbar0-X0", "G"}, {"Ybar0-Y0", "H"}, {"Xbar1-X1", "G"}, {"Ybar1-Y1", "H"}},
				{{"Xbar0-X1", "G"}, {"Ybar0-Y1", "H"}, {"Xbar1-X0", "G"}, {"Ybar1-Y0", "H"}}}
			// response variable used by rep r of branch br: branch0: beta0,beta0,beta1,beta1; branch1: beta1,beta1,beta0,beta0
			rv := [2][4]int{{0, 0, 1, 1}, {1, 1, 0, 0}}
			for _, variant := range []string{"sub-challenges-do-not-sum", "sum-fixed-by-shifting-one-sub-challenge"} {
				variant := variant
				pr := func(ctx proof.ProverContext) error {
					ci := []kyber.Scalar{j.rs(), j.rs()}
					resp := [2][2]kyber.Scalar{{j.rs(), j.rs()}, {j.rs(), j.rs()}}
					for br := 0; br < 2; br++ {
						for r := 0; r < 4; r++ {
							V := s.Point().Add(s.Point().Mul(ci[br], pts[reps[br][r][0]]), s.Point().Mul(resp[br][rv[br][r]], pts[reps[br][r][1]]))
							if err := ctx.Put(V); err != nil {
								return err
							}
						}
					}
					c := s.Scalar()
					if err := ctx.PubRand(c); err != nil {
						return err
					}
					if variant == "sum-fixed-by-shifting-one-sub-challenge" {
						ci[1] = s.Scalar().Sub(c, ci[0])
					}
					if err := ctx.Put(ci); err != nil {
						return err
					}
					for br := 0; br < 2; br++ {
						if err := ctx.Put(resp[br][0]); err != nil {
							return err
						}
						if err := ctx.Put(resp[br][1]); err != nil {
							return err
						}
					}
					return nil
				}
				p4, perr := proof.HashProve(j.s, "Biffle", pr)
				if perr != nil {
					panic("harness: biffle transcript writer failed: " + perr.Error())
				}
				if len(p4) != len(prf) {
					panic(fmt.Sprintf("harness: hand-written biffle transcript has length %d, honest one %d", len(p4), len(prf)))
				}
				e, ok := j.verify("biffle", "simulated-both-branches", "Biffle", j.biffleVerifier(st4.G, st4.H, st4.X, st4.Y, st4.Xb, st4.Yb), p4, st4.detail)
				if !ok {
					continue
				}
				j.r.Eval("biffle/cheating-prover/simulated-both-branches/"+variant, j.id+desc, true)
				if e == nil {
					d := st4.detail()
					d["variant"] = variant
					d["proof"] = c15HexProof(p4)
					j.violation("C15/biffle/cheating-prover/simulated-both-branches/accepted", "biffle transcript with both Or-branches simulated accepted ("+variant+") for a homomorphic-sum output", d)
				}
			}
		}
	}
}
