package main

// C06 — pairings are bilinear, non-degenerate and consistent with ValidatePairing.
//
// For each of the five pairing suites the monitor executes Suite.Pair and
// Suite.ValidatePairing on operands that are *recipes*: a root point (Base,
// Hash(msg) or Pick(stream)), a discrete logarithm k relative to that root
// (edge-biased, kept in math/big) and a *form* that says through which chain
// of earlier arithmetic the operand k·root is produced (plain Mul, X+T−T,
// split sums, negation of an affine point, O−X, copies, decode∘encode, …).
// Every use of an operand builds a fresh object from the recipe, so nothing is
// ever shared between the judged execution and the oracle side, and an
// implementation that normalises operands in place cannot influence a later
// call. The oracle is (a) math/big arithmetic on the discrete logs, carried to
// GT through GT.Mul/Add/Neg/Null/Equal, and (b) relations between two
// executions of Pair (scalars moved between the arguments, normalised versus
// non-normalised operands).

import (
	"bytes"
	"fmt"
	"math/big"
	"sort"
	"strings"
	"sync"

	"go.dedis.ch/kyber/v4"

	"verif/internal/gen"
	"verif/internal/groups"
	"verif/internal/mon"
)

func init() { register("C06", c06) }

// c06Suite bundles a pairing suite with the descriptors of its three groups.
type c06Suite struct {
	name       string
	ps         *groups.PS
	g1, g2, gt *groups.G
	q          *big.Int
	edge       []*big.Int
	table      [][2]*big.Int // fixed (a,b) edge combinations used by the first cases
}

// c06Root is a generator-like point all operands of one argument are multiples of.
type c06Root struct {
	g    *groups.G
	kind string // Base | Hash | Pick
	seed []byte // message (Hash) or stream seed (Pick)
	id   string // short identifier for descriptors
}

func (rt *c06Root) mk() kyber.Point {
	switch rt.kind {
	case "Base":
		return rt.g.Point().Base()
	case "Hash":
		return rt.g.Point().(groups.Hasher).Hash(append([]byte(nil), rt.seed...))
	case "Pick":
		return rt.g.Point().Pick(groups.Stream(string(rt.seed)))
	}
	panic("harness: unknown root kind " + rt.kind)
}

func c06NewRoot(g *groups.G, rng *gen.Rng, want int) *c06Root {
	kinds := []string{"Base"}
	if g.CanHash {
		kinds = append(kinds, "Hash")
	}
	if g.CanPick {
		kinds = append(kinds, "Pick")
	}
	rt := &c06Root{g: g, kind: kinds[want%len(kinds)]}
	switch rt.kind {
	case "Base":
		rt.id = "Base"
	case "Hash":
		rt.seed = rng.Bytes(1 + rng.IntN(40))
		rt.id = "Hash:" + mon.Hex(rt.seed)
	case "Pick":
		rt.seed = rng.Bytes(32)
		rt.id = "Pick:" + mon.Hex(rt.seed[:8])
	}
	return rt
}

// c06Opnd is the recipe of one operand: the point k·root produced through `form`.
type c06Opnd struct {
	g    *groups.G
	root *c06Root
	k    *big.Int
	form string
	aux  *big.Int
}

// forms applicable to every value; "decoded" forms yield canonical objects
// straight from a decoder or a constant, all others are results of arithmetic.
var c06Forms = []string{
	"mul",         // Mul(k, R)
	"norm",        // decode(encode(Mul(k,R)))
	"addsub",      // (kR + tR) − tR
	"split",       // tR + (k−t)R
	"neg",         // −((q−k)R)
	"negaffine",   // −(decode(encode((q−k)R)))      (Z = 1, result of Neg)
	"subnull",     // O − decode(encode((q−k)R))
	"subnullproj", // O − (q−k)R
	"addnull",     // O + kR
	"addnullaff",  // decode(encode(kR)) + O
	"mul1",        // Mul(1, −decode(encode((q−k)R)))
	"setneg",      // Point().Set(−decode(encode((q−k)R)))
	"cloneneg",    // (−decode(encode((q−k)R))).Clone()
	"clone",       // Mul(k,R).Clone()
	"dbl",         // X + X with X = (k/2)R
	"chain",       // ((kR + tR) + uR) − (t+u)R, receiver reused
	"reuse",       // receiver that previously held another value: P.Base(); P.Add(..)
}

func c06Decoded(form string) bool { return form == "norm" || form == "null" || form == "base" }

func c06Norm(g *groups.G, p kyber.Point) kyber.Point {
	q := g.Point()
	if err := q.UnmarshalBinary(groups.Enc(p)); err != nil {
		panic("harness: decode of an encoding the library produced failed: " + err.Error())
	}
	return q
}

// mk builds a fresh object for the operand.
func (o *c06Opnd) mk() kyber.Point {
	g, q := o.g, o.g.Q
	sc := func(x *big.Int) kyber.Scalar { return g.ScalarFromBig(x) }
	mul := func(x *big.Int) kyber.Point { return g.Point().Mul(sc(x), o.root.mk()) }
	mod := func(x *big.Int) *big.Int { return x.Mod(x, q) }
	negk := mod(new(big.Int).Neg(o.k))
	negAff := func() kyber.Point { return g.Point().Neg(c06Norm(g, mul(negk))) }
	switch o.form {
	case "null":
		return g.Point().Null()
	case "base":
		return g.Point().Base()
	case "mulnil":
		return g.Point().Mul(sc(o.k), nil)
	case "mul":
		return mul(o.k)
	case "norm":
		return c06Norm(g, mul(o.k))
	case "addsub":
		return g.Point().Sub(g.Point().Add(mul(o.k), mul(o.aux)), mul(o.aux))
	case "split":
		return g.Point().Add(mul(o.aux), mul(mod(new(big.Int).Sub(o.k, o.aux))))
	case "neg":
		return g.Point().Neg(mul(negk))
	case "negaffine":
		return negAff()
	case "subnull":
		return g.Point().Sub(g.Point().Null(), c06Norm(g, mul(negk)))
	case "subnullproj":
		return g.Point().Sub(g.Point().Null(), mul(negk))
	case "addnull":
		return g.Point().Add(g.Point().Null(), mul(o.k))
	case "addnullaff":
		return g.Point().Add(c06Norm(g, mul(o.k)), g.Point().Null())
	case "mul1":
		return g.Point().Mul(g.Scalar().One(), negAff())
	case "setneg":
		return g.Point().Set(negAff())
	case "cloneneg":
		return negAff().Clone()
	case "clone":
		return mul(o.k).Clone()
	case "dbl":
		half := new(big.Int).ModInverse(big.NewInt(2), q)
		half = mod(half.Mul(half, o.k))
		return g.Point().Add(mul(half), mul(half))
	case "chain":
		u := mod(new(big.Int).Add(o.aux, big.NewInt(3)))
		acc := g.Point().Add(mul(o.k), mul(o.aux))
		acc = g.Point().Add(acc, mul(u))
		return g.Point().Sub(acc, mul(mod(new(big.Int).Add(o.aux, u))))
	case "reuse":
		p := g.Point().Base()
		p.Add(mul(o.aux), mul(mod(new(big.Int).Sub(o.k, o.aux))))
		return p
	}
	panic("harness: unknown form " + o.form)
}

func (o *c06Opnd) isO() bool { return o.k.Sign() == 0 }

func (o *c06Opnd) String() string {
	return fmt.Sprintf("%s[%s]*%s@%s", o.form, o.aux.Text(16), o.k.Text(16), o.root.id)
}

// witness writes the operand out so that a reader can rebuild it.
func (o *c06Opnd) witness() map[string]any {
	w := map[string]any{"group": o.g.Name, "root": o.root.kind, "k": o.k.Text(16), "form": o.form, "aux": o.aux.Text(16)}
	if o.root.seed != nil {
		w["root_seed"] = mon.Hex(o.root.seed)
	}
	if _, p := mon.Try(func() {
		w["root_enc"] = mon.Hex(groups.Enc(o.root.mk()))
		w["enc"] = mon.Hex(groups.Enc(o.mk()))
	}); p {
		w["enc"] = "(encoding panicked)"
	}
	return w
}

// c06Ctx is the state of one case (one job).
type c06Ctx struct {
	r      *mon.R
	s      *c06Suite
	idx    int
	rng    *gen.Rng
	r1, r2 *c06Root
	a, b   *big.Int
	seen   *c06Seen
}

// c06Seen counts evaluations per (suite, family); used to fail loudly when a
// family was never observed.
type c06Seen struct {
	mu sync.Mutex
	m  map[string]int
}

func (s *c06Seen) add(k string) { s.mu.Lock(); s.m[k]++; s.mu.Unlock() }

func (c *c06Ctx) modq(x *big.Int) *big.Int { return x.Mod(x, c.s.q) }

// op draws an operand recipe for k·root with a random applicable form.
func (c *c06Ctx) op(g *groups.G, root *c06Root, k *big.Int) *c06Opnd {
	return c.opForm(g, root, k, c06Forms[c.rng.IntN(len(c06Forms))])
}

func (c *c06Ctx) opForm(g *groups.G, root *c06Root, k *big.Int, form string) *c06Opnd {
	k = new(big.Int).Mod(k, g.Q)
	aux := c.rng.EdgeOrRandom(c.s.edge, g.Q, 40)
	// special constant forms are substituted now and then where they apply
	switch {
	case form == "mul" && k.Sign() == 0 && c.rng.IntN(2) == 0:
		form = "null"
	case form == "mul" && k.Cmp(big.NewInt(1)) == 0 && root.kind == "Base" && c.rng.IntN(2) == 0:
		form = "base"
	case form == "mul" && root.kind == "Base" && g.CanMulNil && c.rng.IntN(3) == 0:
		form = "mulnil"
	}
	return &c06Opnd{g: g, root: root, k: k, form: form, aux: aux}
}

func (c *c06Ctx) p(k *big.Int) *c06Opnd { return c.op(c.s.g1, c.r1, k) }
func (c *c06Ctx) q(k *big.Int) *c06Opnd { return c.op(c.s.g2, c.r2, k) }

func (c *c06Ctx) pair(p, q *c06Opnd) kyber.Point {
	c.r.NoteAdd("pairings_computed", 1)
	P, Q := p.mk(), q.mk()
	res := c.s.ps.S.Pair(P, Q)
	c.intact("Pair", []kyber.Point{P, Q}, []*c06Opnd{p, q})
	return res
}

// intact checks that a pairing call left its operands unchanged (compared with freshly rebuilt twins).
func (c *c06Ctx) intact(call string, live []kyber.Point, ops []*c06Opnd) {
	for i, o := range ops {
		twin := o.mk()
		c.r.Eval("operand-intact/"+call, c.s.name+"|"+c06Desc(ops)+fmt.Sprint(i), true)
		if !live[i].Equal(twin) || !twin.Equal(live[i]) || string(groups.Enc(live[i])) != string(groups.Enc(twin)) {
			c.r.Violation("C06/"+c.s.name+"/"+call+"/operand-modified", call+" changed one of its operands", c.detail(ops, map[string]any{"operand_index": i, "after": mon.Hex(groups.Enc(live[i])), "expected": mon.Hex(groups.Enc(twin))}))
		}
	}
}

func c06Cat(ops []*c06Opnd) string {
	cat := "decoded"
	for _, o := range ops {
		if o.isO() {
			return "identity-operand"
		}
		if !c06Decoded(o.form) {
			cat = "computed"
		}
	}
	return cat + "-operands"
}

func c06Desc(ops []*c06Opnd) string {
	var sb strings.Builder
	for i, o := range ops {
		if i > 0 {
			sb.WriteByte(';')
		}
		sb.WriteString(o.String())
	}
	return sb.String()
}

func c06AllO(ops []*c06Opnd) bool {
	for _, o := range ops {
		if !o.isO() {
			return false
		}
	}
	return true
}

// gtSame compares two GT elements through Equal (both directions) and their encodings.
func c06GTSame(a, b kyber.Point) (bool, string) {
	e1, e2 := a.Equal(b), b.Equal(a)
	ea, eb := groups.Enc(a), groups.Enc(b)
	be := bytes.Equal(ea, eb)
	if e1 && e2 && be {
		return true, ""
	}
	return false, fmt.Sprintf("Equal=%v/%v encodingsEqual=%v", e1, e2, be)
}

func (c *c06Ctx) detail(ops []*c06Opnd, extra map[string]any) map[string]any {
	d := map[string]any{"suite": c.s.name, "case": c.idx, "seed": c.r.Seed, "a": c.a.Text(16), "b": c.b.Text(16),
		"root_G1": c.r1.id, "root_G2": c.r2.id}
	var ws []any
	for _, o := range ops {
		ws = append(ws, o.witness())
	}
	d["operands"] = ws
	for k, v := range extra {
		d[k] = v
	}
	return d
}

func (c *c06Ctx) blame(ops []*c06Opnd) {
	for _, o := range ops {
		c.r.NoteAdd("mismatches_by_operand_form/"+o.g.Name+":"+o.form, 1)
	}
}

// judge records one oracle judgement "got must equal want" (both in GT) about
// executions whose operands are ops.
func (c *c06Ctx) judge(class string, ops []*c06Opnd, relation string, got, want kyber.Point, renorm func() (kyber.Point, kyber.Point)) {
	fam := class
	if i := strings.IndexByte(class, '/'); i >= 0 {
		fam = class[:i]
	}
	c.seen.add(c.s.name + "/" + fam)
	c.r.Eval(class, c.s.name+"|"+c06Desc(ops), !c06AllO(ops))
	c.r.SampleClass(class, map[string]any{"suite": c.s.name, "class": class, "relation": relation, "operands": c06Desc(ops), "a": c.a.Text(16), "b": c.b.Text(16)})
	ok, why := c06GTSame(got, want)
	if ok {
		return
	}
	extra := map[string]any{"relation": relation, "why": why, "got": mon.Hex(groups.Enc(got)), "want": mon.Hex(groups.Enc(want))}
	if renorm != nil {
		// diagnosis only: the same relation with every operand replaced by its decode∘encode copy
		if _, p := mon.Try(func() {
			g2, w2 := renorm()
			ok2, _ := c06GTSame(g2, w2)
			extra["holds_with_normalised_copies_of_the_operands"] = ok2
		}); p {
			extra["holds_with_normalised_copies_of_the_operands"] = "panicked"
		}
	}
	c.blame(ops)
	extra["class"] = class
	c.r.Violation("C06/"+c.s.name+"/Pair/"+fam+"-violated/"+c06Cat(ops), "pairing relation violated ("+class+"): "+relation, c.detail(ops, extra))
}

// normed returns the recipes with the same values in decode∘encode form.
func c06Normed(ops []*c06Opnd) []*c06Opnd {
	out := make([]*c06Opnd, len(ops))
	for i, o := range ops {
		cp := *o
		cp.form = "norm"
		out[i] = &cp
	}
	return out
}

func (c *c06Ctx) guard(api, class string, f func()) {
	c.r.Guard("C06/"+c.s.name+"/"+api+"/"+class, map[string]any{"suite": c.s.name, "case": c.idx, "seed": c.r.Seed,
		"a": c.a.Text(16), "b": c.b.Text(16), "root_G1": c.r1.id, "root_G2": c.r2.id}, f)
}

func c06(r *mon.R) {
	r.SetRule("per suite and case: roots R1 in G1, R2 in G2 (Base / Hash(msg) / Pick(stream) by capability), scalars a,b edge-biased " +
		"(the 7x7 table {0,1,2,q-1,q-2,(q+1)/2,2^128+1}^2 first, then gen.EdgeOrRandom), every operand k*R built afresh for every use through a drawn form " +
		"(Mul, Mul(k,nil), decode(encode), X+T-T, split sum, -(-X), Neg of an affine point, O-X, O+X, Mul(1,.), Set/Clone copies, X+X, longer chains, reused receiver, Null(), Base()). " +
		"Judgements: bilinear (e(aP,bQ) = (ab)*e(P,Q) via GT.Mul; one-sided; scalars moved between arguments), identity (e(O,Q)=e(P,O)=e(O,O)=GT.Null, O in every form), " +
		"additive (left/right with a second independent root, negation), nondegenerate (e(R1,R2) != O_T; order q), forms (non-normalised operands vs their normalised copies, Equal and byte-identical), " +
		"validate (ValidatePairing == Pair(p1,p2).Equal(Pair(i1,i2)) and == ground truth k1*k2 = k3*k4 mod q on true/false/identity tuples). " +
		"distinct = (suite, class, operand recipes incl. root, scalars, forms); non-trivial = not every point operand is the identity")
	r.Assume("math/big arithmetic mod q on the discrete logarithms is the reference; GT.Equal/Mul/Add/Neg/Null transport it to GT (their own laws are judged by C01)")
	r.Assume("operands are rebuilt from their recipe for every call, so the oracle never depends on Pair/ValidatePairing leaving their operands untouched (that is C05/C20)")
	r.Assume("Hash/Pick roots are non-identity elements of the prime-order groups (C17), hence generators")

	var suites []*c06Suite
	all := groups.All()
	byName := map[string]*groups.G{}
	for _, g := range all {
		byName[g.Name] = g
	}
	for _, ps := range groups.Suites() {
		if *flagGroups != "" {
			hit := false
			for _, f := range strings.Split(*flagGroups, ",") {
				if strings.Contains(ps.Name, f) {
					hit = true
				}
			}
			if !hit {
				continue
			}
		}
		g1, g2, gt := byName[ps.Name+".G1"], byName[ps.Name+".G2"], byName[ps.Name+".GT"]
		if g1 == nil || g2 == nil || gt == nil {
			r.Inconclusive("suite " + ps.Name + ": group descriptors missing from the registry")
			continue
		}
		// the registry built its own suite instances; use those so that groups and suite belong together
		s := &c06Suite{name: ps.Name, ps: g1.Suite, g1: g1, g2: g2, gt: gt, q: g1.Q, edge: gen.Edge(g1.Q)}
		if g2.Q.Cmp(s.q) != 0 || gt.Q.Cmp(s.q) != 0 {
			r.Violation("C06/"+s.name+"/orders-differ", "G1, G2 and GT of one suite report different group orders",
				map[string]any{"q1": g1.Q.Text(16), "q2": g2.Q.Text(16), "qT": gt.Q.Text(16)})
			continue
		}
		if !g1.CanBase || !g2.CanBase {
			r.Inconclusive("suite " + ps.Name + ": Base() unsupported on G1 or G2")
			continue
		}
		one := big.NewInt(1)
		qm1 := new(big.Int).Sub(s.q, one)
		qm2 := new(big.Int).Sub(s.q, big.NewInt(2))
		half := new(big.Int).Rsh(new(big.Int).Add(s.q, one), 1)
		p128 := new(big.Int).Add(new(big.Int).Lsh(one, 128), one)
		ev := []*big.Int{big.NewInt(0), one, big.NewInt(2), qm1, qm2, half, p128}
		for _, x := range ev {
			for _, y := range ev {
				s.table = append(s.table, [2]*big.Int{x, y})
			}
		}
		suites = append(suites, s)
	}

	type job struct {
		s   *c06Suite
		idx int
	}
	var jobs []job
	n := r.N(100, 1500)
	for i := 0; i < n; i++ { // interleave the suites so that the slow ones do not pile up at the end
		for _, s := range suites {
			jobs = append(jobs, job{s, i})
		}
	}
	seen := &c06Seen{m: map[string]int{}}
	mon.Parallel(len(jobs), func(w, i int) {
		j := jobs[i]
		r.Journal(w, "C06 suite=%s case=%d seed=%d", j.s.name, j.idx, r.Seed)
		r.Guard("C06/"+j.s.name+"/case-setup", map[string]any{"suite": j.s.name, "case": j.idx, "seed": r.Seed}, func() {
			c06Case(r, j.s, j.idx, seen)
		})
	})

	// a monitor that observed nothing must say so
	fams := []string{"bilinear", "identity", "additive", "nondegenerate", "forms", "validate"}
	for _, s := range suites {
		for _, f := range fams {
			if seen.m[s.name+"/"+f] == 0 {
				r.Inconclusive("suite " + s.name + ": no judgement of family " + f + " was made")
			}
		}
	}
	if len(suites) == 0 {
		r.Inconclusive("no pairing suite selected")
	}
	var ks []string
	for k := range seen.m {
		ks = append(ks, k)
	}
	sort.Strings(ks)
	per := map[string]int{}
	for _, k := range ks {
		per[k] = seen.m[k]
	}
	r.Note("judgements_per_suite_and_family", per)
	r.Note("cases_per_suite", n)
	r.Op("Suite.Pair", "Suite.ValidatePairing", "GT.Equal", "GT.Mul", "GT.Add", "GT.Neg", "GT.Null", "GT.MarshalBinary",
		"G1/G2.Mul", "G1/G2.Add", "G1/G2.Sub", "G1/G2.Neg", "G1/G2.Null", "G1/G2.Base", "G1/G2.Set", "G1/G2.Clone", "G1/G2.UnmarshalBinary")
}

func c06Case(r *mon.R, s *c06Suite, idx int, seen *c06Seen) {
	rng := gen.New(r.Seed, "C06/"+s.name, idx)
	c := &c06Ctx{r: r, s: s, idx: idx, rng: rng, seen: seen}
	if idx < len(s.table) {
		c.a, c.b = s.table[idx][0], s.table[idx][1]
	} else {
		c.a, c.b = rng.EdgeOrRandom(s.edge, s.q, 120), rng.EdgeOrRandom(s.edge, s.q, 120)
	}
	// roots: rotate through the kinds so that every combination occurs early
	c.r1 = c06NewRoot(s.g1, rng, idx)
	c.r2 = c06NewRoot(s.g2, rng, idx/3)
	if c.r1.kind == "Hash" {
		r.Op("G1.Hash")
	}
	if c.r2.kind == "Hash" {
		r.Op("G2.Hash")
	}
	if c.r1.kind == "Pick" || c.r2.kind == "Pick" {
		r.Op("G1/G2.Pick")
	}
	S := s.ps.S
	a, b := c.a, c.b
	one := big.NewInt(1)
	ab := c.modq(new(big.Int).Mul(a, b))
	gtNull := func() kyber.Point { return s.gt.Point().Null() }
	gtMul := func(k *big.Int, e kyber.Point) kyber.Point { return s.gt.Point().Mul(s.gt.ScalarFromBig(k), e) }
	P1n, Q1n := c.opForm(s.g1, c.r1, one, "norm"), c.opForm(s.g2, c.r2, one, "norm")

	// E0 = e(R1,R2) on canonical copies of the roots: the reference element every expected value is a multiple of
	var E0 kyber.Point
	c.guard("Pair", "nondegenerate", func() {
		E0 = c.pair(P1n, Q1n)
		cls := "nondegenerate/derived-generators"
		if c.r1.kind == "Base" && c.r2.kind == "Base" {
			cls = "nondegenerate/generators"
		}
		seen.add(s.name + "/nondegenerate")
		r.Eval(cls, s.name+"|"+c.r1.id+"|"+c.r2.id, true)
		r.SampleClass(cls, map[string]any{"suite": s.name, "class": cls, "relation": "e(R1,R2) != O_T", "R1": c.r1.id, "R2": c.r2.id})
		O := gtNull()
		if E0.Equal(O) || O.Equal(E0) || bytes.Equal(groups.Enc(E0), groups.Enc(O)) {
			ops := []*c06Opnd{P1n, Q1n}
			r.Violation("C06/"+s.name+"/Pair/nondegenerate-violated/"+c06Cat(ops), "pairing of two generators is the identity of GT", c.detail(ops, map[string]any{"got": mon.Hex(groups.Enc(E0))}))
		}
	})
	if E0 == nil {
		return
	}
	E0 = c06Norm(s.gt, E0)

	// ---- bilinearity
	c.guard("Pair", "bilinear/gtmul", func() {
		p, q := c.p(a), c.q(b)
		got := c.pair(p, q)
		c.judge("bilinear/gtmul", []*c06Opnd{p, q}, "e(aP,bQ) = (ab)*e(P,Q)", got, gtMul(ab, E0), func() (kyber.Point, kyber.Point) {
			n := c06Normed([]*c06Opnd{p, q})
			return c.pair(n[0], n[1]), gtMul(ab, E0)
		})
	})
	c.guard("Pair", "bilinear/left", func() {
		p, q := c.p(a), c.q(one)
		c.judge("bilinear/left", []*c06Opnd{p, q}, "e(aP,Q) = a*e(P,Q)", c.pair(p, q), gtMul(a, E0), func() (kyber.Point, kyber.Point) {
			n := c06Normed([]*c06Opnd{p, q})
			return c.pair(n[0], n[1]), gtMul(a, E0)
		})
	})
	c.guard("Pair", "bilinear/right", func() {
		p, q := c.p(one), c.q(b)
		c.judge("bilinear/right", []*c06Opnd{p, q}, "e(P,bQ) = b*e(P,Q)", c.pair(p, q), gtMul(b, E0), func() (kyber.Point, kyber.Point) {
			n := c06Normed([]*c06Opnd{p, q})
			return c.pair(n[0], n[1]), gtMul(b, E0)
		})
	})
	c.guard("Pair", "bilinear/moved", func() {
		// relation between executions, independent of GT.Mul
		p, q := c.p(a), c.q(b)
		var p2, q2 *c06Opnd
		var rel string
		switch rng.IntN(3) {
		case 0:
			p2, q2, rel = c.p(ab), c.q(one), "e(aP,bQ) = e((ab)P,Q)"
		case 1:
			p2, q2, rel = c.p(one), c.q(ab), "e(aP,bQ) = e(P,(ab)Q)"
		default:
			p2, q2, rel = c.p(b), c.q(a), "e(aP,bQ) = e(bP,aQ)"
		}
		ops := []*c06Opnd{p, q, p2, q2}
		c.judge("bilinear/moved", ops, rel, c.pair(p, q), c.pair(p2, q2), func() (kyber.Point, kyber.Point) {
			n := c06Normed(ops)
			return c.pair(n[0], n[1]), c.pair(n[2], n[3])
		})
	})
	c.guard("Pair", "bilinear/order", func() {
		p, q := c.p(new(big.Int).Sub(s.q, one)), c.q(one)
		sum := s.gt.Point().Add(c.pair(p, q), E0)
		c.judge("bilinear/order", []*c06Opnd{p, q}, "e((q-1)P,Q) + e(P,Q) = O_T", sum, gtNull(), nil)
	})

	// ---- identity operands, in every form the identity can take
	c.guard("Pair", "identity", func() {
		zero := big.NewInt(0)
		nz := func(x *big.Int) *big.Int { // a non-zero companion scalar
			if x.Sign() == 0 {
				return big.NewInt(5)
			}
			return x
		}
		p, q := c.p(zero), c.q(nz(b))
		c.judge("identity/e(O,Q)", []*c06Opnd{p, q}, "e(O,Q) = O_T", c.pair(p, q), gtNull(), nil)
		p, q = c.p(nz(a)), c.q(zero)
		c.judge("identity/e(P,O)", []*c06Opnd{p, q}, "e(P,O) = O_T", c.pair(p, q), gtNull(), nil)
		p, q = c.p(zero), c.q(zero)
		c.judge("identity/e(O,O)", []*c06Opnd{p, q}, "e(O,O) = O_T", c.pair(p, q), gtNull(), nil)
	})

	// ---- additivity in each argument (second summand from an independent root), negation
	c.guard("Pair", "additive/left", func() {
		rb := c06NewRoot(s.g1, rng, rng.IntN(3))
		a2 := rng.EdgeOrRandom(s.edge, s.q, 100)
		p1, p2, q := c.p(a), c.op(s.g1, rb, a2), c.q(b)
		sum := s.g1.Point().Add(p1.mk(), p2.mk())
		r.NoteAdd("pairings_computed", 1)
		got := S.Pair(sum, q.mk())
		want := s.gt.Point().Add(c.pair(p1, q), c.pair(p2, q))
		c.judge("additive/left", []*c06Opnd{p1, p2, q}, "e(P1+P2,Q) = e(P1,Q) + e(P2,Q)", got, want, nil)
		// the same sum accumulated in place from the GT identity (the usual way to sum pairing values)
		acc := s.gt.Point().Null()
		acc.Add(acc, c.pair(p1, q))
		acc.Add(acc, c.pair(p2, q))
		c.judge("additive/left-accumulated-from-Null", []*c06Opnd{p1, p2, q}, "O_T + e(P1,Q) + e(P2,Q) (in place) = e(P1+P2,Q)", acc, got, nil)
	})
	c.guard("Pair", "additive/right", func() {
		rb := c06NewRoot(s.g2, rng, rng.IntN(3))
		b2 := rng.EdgeOrRandom(s.edge, s.q, 100)
		p, q1, q2 := c.p(a), c.q(b), c.op(s.g2, rb, b2)
		sum := s.g2.Point().Add(q1.mk(), q2.mk())
		r.NoteAdd("pairings_computed", 1)
		got := S.Pair(p.mk(), sum)
		want := s.gt.Point().Add(c.pair(p, q1), c.pair(p, q2))
		c.judge("additive/right", []*c06Opnd{p, q1, q2}, "e(P,Q1+Q2) = e(P,Q1) + e(P,Q2)", got, want, nil)
	})
	c.guard("Pair", "additive/same-root", func() {
		// a = a1 + a2 on the same root: includes P + (−P) and P + P
		var a1 *big.Int
		switch rng.IntN(4) {
		case 0:
			a1 = new(big.Int).Set(a) // second summand is the identity
		case 1:
			a1 = c.modq(new(big.Int).Mul(a, new(big.Int).ModInverse(big.NewInt(2), s.q))) // doubling
		default:
			a1 = rng.EdgeOrRandom(s.edge, s.q, 100)
		}
		a2 := c.modq(new(big.Int).Sub(a, a1))
		p, p1, p2, q := c.p(a), c.p(a1), c.p(a2), c.q(b)
		want := s.gt.Point().Add(c.pair(p1, q), c.pair(p2, q))
		c.judge("additive/same-root", []*c06Opnd{p, p1, p2, q}, "e((a1+a2)P,Q) = e(a1P,Q) + e(a2P,Q)", c.pair(p, q), want, nil)
	})
	c.guard("Pair", "additive/same-element", func() {
		// both summands are the SAME group element (or opposite elements) reached through different computations, so that
		// their internal representations differ: the sum is a doubling (or the identity) that the addition must recognise
		f1, f2 := gen.Pick(rng, c06Forms), gen.Pick(rng, c06Forms)
		ka, kb := a, b
		if ka.Sign() == 0 {
			ka = big.NewInt(3)
		}
		if kb.Sign() == 0 {
			kb = big.NewInt(5)
		}
		p1, p2, q := c.opForm(s.g1, c.r1, ka, f1), c.opForm(s.g1, c.r1, ka, f2), c.q(kb)
		sum := s.g1.Point().Add(p1.mk(), p2.mk())
		r.NoteAdd("pairings_computed", 2)
		c.judge("additive/left-same-element", []*c06Opnd{p1, p2, q}, "e(P+P',Q) = e(P,Q) + e(P',Q) with P' = P in another representation", S.Pair(sum, q.mk()), s.gt.Point().Add(c.pair(p1, q), c.pair(p2, q)), nil)
		p3 := c.opForm(s.g1, c.r1, new(big.Int).Sub(s.q, new(big.Int).Mod(ka, s.q)), f2)
		c.judge("additive/left-opposite-element", []*c06Opnd{p1, p3, q}, "e(P+P',Q) = O_T with P' = -P in another representation", S.Pair(s.g1.Point().Add(p1.mk(), p3.mk()), q.mk()), gtNull(), nil)
		c.judge("additive/left-difference-of-same-element", []*c06Opnd{p1, p2, q}, "e(P-P',Q) = O_T with P' = P in another representation", S.Pair(s.g1.Point().Sub(p1.mk(), p2.mk()), q.mk()), gtNull(), nil)
		pp := c.p(ka)
		q1, q2 := c.opForm(s.g2, c.r2, kb, f1), c.opForm(s.g2, c.r2, kb, f2)
		c.judge("additive/right-same-element", []*c06Opnd{pp, q1, q2}, "e(P,Q+Q') = e(P,Q) + e(P,Q') with Q' = Q in another representation", S.Pair(pp.mk(), s.g2.Point().Add(q1.mk(), q2.mk())), s.gt.Point().Add(c.pair(pp, q1), c.pair(pp, q2)), nil)
		q3 := c.opForm(s.g2, c.r2, new(big.Int).Sub(s.q, new(big.Int).Mod(kb, s.q)), f2)
		c.judge("additive/right-opposite-element", []*c06Opnd{pp, q1, q3}, "e(P,Q+Q') = O_T with Q' = -Q in another representation", S.Pair(pp.mk(), s.g2.Point().Add(q1.mk(), q3.mk())), gtNull(), nil)
		c.judge("additive/right-difference-of-same-element", []*c06Opnd{pp, q1, q2}, "e(P,Q-Q') = O_T with Q' = Q in another representation", S.Pair(pp.mk(), s.g2.Point().Sub(q1.mk(), q2.mk())), gtNull(), nil)
	})
	c.guard("Pair", "additive/neg", func() {
		p, q := c.p(a), c.q(b)
		pn, qn := c.p(new(big.Int).Neg(a)), c.q(new(big.Int).Neg(b))
		e := c.pair(p, q)
		want := s.gt.Point().Neg(e)
		c.judge("additive/neg-left", []*c06Opnd{p, q, pn}, "e(-P,Q) = -e(P,Q)", c.pair(pn, q), want, nil)
		c.judge("additive/neg-right", []*c06Opnd{p, q, qn}, "e(P,-Q) = -e(P,Q)", c.pair(p, qn), want, nil)
	})

	// ---- non-normalised operands against their normalised copies; forms visited systematically
	c.guard("Pair", "forms", func() {
		nf := len(c06Forms)
		ka, kb := a, b
		if idx%2 == 1 { // every other case uses operands that are certainly not the identity
			if ka.Sign() == 0 {
				ka = big.NewInt(7)
			}
			if kb.Sign() == 0 {
				kb = big.NewInt(11)
			}
		}
		f1, f2 := c06Forms[(idx+idx/nf)%nf], c06Forms[idx%nf] // Latin-square walk: every form on both sides within nf cases, every pair within nf*nf
		p, q := c.opForm(s.g1, c.r1, ka, f1), c.opForm(s.g2, c.r2, kb, f2)
		n := c06Normed([]*c06Opnd{p, q})
		ref := c.pair(n[0], n[1])
		c.judge("forms/both-computed", []*c06Opnd{p, q}, "e(P',Q') = e(norm(P'),norm(Q'))", c.pair(p, q), ref, nil)
		c.judge("forms/G2-computed", []*c06Opnd{n[0], q}, "e(norm(P'),Q') = e(norm(P'),norm(Q'))", c.pair(n[0], q), ref, nil)
		c.judge("forms/G1-computed", []*c06Opnd{p, n[1]}, "e(P',norm(Q')) = e(norm(P'),norm(Q'))", c.pair(p, n[1]), ref, nil)
		r.NoteAdd("forms_seen/G1:"+p.form, 1)
		r.NoteAdd("forms_seen/G2:"+q.form, 1)
	})

	// ---- ValidatePairing
	c06Validate(c)
}

// c06Validate judges ValidatePairing on tuples whose truth is known from the discrete logs.
func c06Validate(c *c06Ctx) {
	s, r, rng := c.s, c.r, c.rng
	S := s.ps.S
	a, b := c.a, c.b
	one, zero := big.NewInt(1), big.NewInt(0)
	ab := c.modq(new(big.Int).Mul(a, b))
	neg := func(x *big.Int) *big.Int { return c.modq(new(big.Int).Neg(x)) }
	t := rng.EdgeOrRandom(s.edge, s.q, 60)
	type tuple struct {
		name           string
		k1, k2, k3, k4 *big.Int
	}
	tuples := []tuple{
		{"scalar-moved", a, one, one, a},                                                       // (aP,Q | P,aQ)          true
		{"product", a, b, ab, one},                                                             // (aP,bQ | abP,Q)        true
		{"same", a, b, a, b},                                                                   // (aP,bQ | aP,bQ)        true
		{"both-negated", neg(a), b, a, neg(b)},                                                 // (-aP,bQ | aP,-bQ)      true
		{"identity-each-side", zero, b, a, zero},                                               // (O,bQ | aP,O)          true
		{"all-identity", zero, zero, zero, zero},                                               //                         true
		{"scalars-differ", a, one, one, b},                                                     // (aP,Q | P,bQ)          true iff a=b
		{"one-negated", a, b, neg(a), b},                                                       // (aP,bQ | -aP,bQ)       true iff 2ab=0
		{"identity-one-side", a, b, t, zero},                                                   // (aP,bQ | tP,O)         true iff ab=0
		{"off-by-one", a, b, c.modq(new(big.Int).Add(ab, one)), one},                           // (aP,bQ | (ab+1)P,Q)    false
		{"random-rhs", a, b, t, rng.EdgeOrRandom(s.edge, s.q, 60)},                             //                         true iff ab = t*t'
		{"factor-moved", c.modq(new(big.Int).Mul(a, t)), b, a, c.modq(new(big.Int).Mul(b, t))}, // true
	}
	for _, tp := range tuples {
		tp := tp
		cls := "validate/" + tp.name
		c.guard("ValidatePairing", cls, func() {
			p1, p2 := c.p(tp.k1), c.q(tp.k2)
			i1, i2 := c.p(tp.k3), c.q(tp.k4)
			ops := []*c06Opnd{p1, p2, i1, i2}
			lhs := new(big.Int).Mul(p1.k, p2.k)
			rhs := new(big.Int).Mul(i1.k, i2.k)
			truth := c.modq(lhs.Sub(lhs, rhs)).Sign() == 0
			live := []kyber.Point{p1.mk(), p2.mk(), i1.mk(), i2.mk()}
			vp := S.ValidatePairing(live[0], live[1], live[2], live[3])
			c.intact("ValidatePairing", live, ops)
			if again := S.ValidatePairing(live[0], live[1], live[2], live[3]); again != vp {
				r.Violation("C06/"+s.name+"/ValidatePairing/not-repeatable", "ValidatePairing on the same operand objects returned a different answer the second time", c.detail(ops, map[string]any{"first": vp, "second": again}))
			}
			l, rr := c.pair(p1, p2), c.pair(i1, i2)
			eq, eq2 := l.Equal(rr), rr.Equal(l)
			c.seen.add(s.name + "/validate")
			r.Eval(cls, s.name+"|"+c06Desc(ops), !c06AllO(ops))
			r.SampleClass(cls, map[string]any{"suite": s.name, "class": cls, "operands": c06Desc(ops), "truth": truth, "ValidatePairing": vp})
			if truth {
				r.NoteAdd("validate_true_instances", 1)
			} else {
				r.NoteAdd("validate_false_instances", 1)
			}
			if vp {
				r.NoteAdd("validate_accepted", 1)
			} else {
				r.NoteAdd("validate_rejected", 1)
			}
			extra := map[string]any{"tuple": tp.name, "ValidatePairing": vp, "Pair(p1,p2).Equal(Pair(i1,i2))": eq, "Pair(i1,i2).Equal(Pair(p1,p2))": eq2,
				"k1*k2==k3*k4 mod q": truth, "order": "operands = [p1 (G1), p2 (G2), i1 (G1), i2 (G2)]"}
			diag := func() {
				if _, p := mon.Try(func() {
					n := c06Normed(ops)
					extra["ValidatePairing_on_normalised_copies"] = S.ValidatePairing(n[0].mk(), n[1].mk(), n[2].mk(), n[3].mk())
					extra["Pair_equal_on_normalised_copies"] = c.pair(n[0], n[1]).Equal(c.pair(n[2], n[3]))
				}); p {
					extra["diagnosis"] = "panicked"
				}
				extra["Pair(p1,p2)"] = mon.Hex(groups.Enc(l))
				extra["Pair(i1,i2)"] = mon.Hex(groups.Enc(rr))
			}
			base, cat := "C06/"+s.name+"/ValidatePairing/", "/"+c06Cat(ops)
			if eq != eq2 {
				diag()
				c.blame(ops)
				r.Violation(base+"GT-Equal-asymmetric"+cat, "GT.Equal of the two pairing results is not symmetric", c.detail(ops, extra))
			}
			if vp != eq {
				diag()
				c.blame(ops)
				r.Violation(base+"differs-from-Pair"+cat, fmt.Sprintf("ValidatePairing returned %v but Pair(p1,p2).Equal(Pair(i1,i2)) is %v (discrete logs say %v; tuple %s)", vp, eq, truth, tp.name), c.detail(ops, extra))
			}
			// second judgement: the answer the discrete logs dictate (e(R1,R2) has prime order q)
			r.Eval("validate-truth/"+tp.name, s.name+"|"+c06Desc(ops), !c06AllO(ops))
			if vp != truth {
				diag()
				c.blame(ops)
				what, k := "ValidatePairing accepted a false pairing equation", "accepts-false-equation"
				if truth {
					what, k = "ValidatePairing rejected a true pairing equation", "rejects-true-equation"
				}
				r.Violation(base+k+cat, what+" (tuple "+tp.name+")", c.detail(ops, extra))
			}
		})
	}
}
