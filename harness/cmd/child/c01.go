package main

import (
	"fmt"
	"math/big"

	"go.dedis.ch/kyber/v4"

	"verif/internal/gen"
	"verif/internal/groups"
	"verif/internal/mon"
)

func init() { register("C01", c01) }

// opaque returns up to m points of g obtained from Pick/Embed/Hash/pairing
// outputs (treated as independent generators by the shadow).
func opaque(g *groups.G, rng *gen.Rng, m int) (pts []kyber.Point, how []string) {
	add := func(p kyber.Point, h string) {
		if len(pts) < m {
			pts = append(pts, p)
			how = append(how, h)
		}
	}
	order := rng.Perm(4)
	for _, o := range order {
		switch o {
		case 0:
			if g.CanPick {
				add(g.Point().Pick(rng.Stream()), "Pick")
			}
		case 1:
			if g.CanEmbed {
				l := g.Point().EmbedLen()
				add(g.Point().Embed(rng.Bytes(rng.IntN(l+1)), rng.Stream()), "Embed")
			}
		case 2:
			if g.CanHash {
				add(g.Point().(groups.Hasher).Hash(rng.Bytes(rng.IntN(40))), "Hash")
			}
		case 3:
			if g.Kind == "GT" {
				s := g.Suite.S
				a := s.G1().Point().Mul(s.G1().Scalar().Pick(rng.Stream()), nil)
				b := s.G2().Point().Mul(s.G2().Scalar().Pick(rng.Stream()), nil)
				add(s.Pair(a, b), "Pair")
			}
		}
	}
	return
}

type shadowVar struct {
	p kyber.Point
	k []*big.Int // coefficients over gens
}

func c01(r *mon.R) {
	r.SetRule("per group: (a) shadowed random programs over 6 point variables, each step (Add,Sub,Neg,Mul,Mul(s,nil),Null,Base,Set,double,P-P) re-materialised from the discrete-log shadow through fresh receivers and compared by Equal and by encoding; (b) identity table over edge-biased scalars x edge points. distinct = (group,law/op,operand descriptor); non-trivial = not all point operands are the identity")
	r.Assume("math/big arithmetic mod q is the reference for scalars")
	r.Assume("Equal and MarshalBinary are trusted only jointly: a mismatch of either is a violation")
	gs := groups.Select(groups.All(), *flagGroups)
	for _, g := range gs {
		for op, msg := range g.PanicsSeen {
			r.Violation("C01/"+g.Name+"/"+op+"/panic", "operation panics (not a documented 'unsupported'): "+msg, map[string]any{"group": g.Name, "op": op, "panic": msg})
		}
	}
	type job struct {
		g    *groups.G
		kind string
		idx  int
	}
	var jobs []job
	for _, g := range gs {
		nprog := r.N(30, 300)
		ntab := r.N(20, 200)
		if g.Kind == "GT" {
			nprog, ntab = r.N(8, 80), r.N(5, 50)
		}
		for i := 0; i < nprog; i++ {
			jobs = append(jobs, job{g, "prog", i})
		}
		for i := 0; i < ntab; i++ {
			jobs = append(jobs, job{g, "table", i})
		}
	}
	mon.Parallel(len(jobs), func(w, i int) {
		j := jobs[i]
		r.Journal(w, "C01 %s %s %d", j.g.Name, j.kind, j.idx)
		key := "C01/" + j.g.Name + "/" + j.kind
		r.Guard(key, map[string]any{"group": j.g.Name, "idx": j.idx}, func() {
			if j.kind == "prog" {
				c01Program(r, j.g, j.idx)
			} else {
				c01Table(r, j.g, j.idx)
			}
		})
	})
}

// materialise computes Σ k_i·gens_i on fresh receivers, rotated order.
func c01Materialise(g *groups.G, gens []kyber.Point, k []*big.Int, rot int) kyber.Point {
	acc := g.Point().Null()
	n := len(gens)
	for t := 0; t < n; t++ {
		i := (t + rot) % n
		if k[i].Sign() == 0 && t%2 == 0 {
			continue
		}
		var term kyber.Point
		if i == 0 && g.CanMulNil {
			term = g.Point().Mul(g.ScalarFromBig(k[i]), nil)
		} else {
			term = g.Point().Mul(g.ScalarFromBig(k[i]), gens[i])
		}
		acc = g.Point().Add(acc, term)
	}
	return acc
}

func same(a, b kyber.Point) (bool, string) {
	eq1, eq2 := a.Equal(b), b.Equal(a)
	ea, eb := groups.Enc(a), groups.Enc(b)
	be := string(ea) == string(eb)
	if eq1 && eq2 && be {
		return true, ""
	}
	return false, fmt.Sprintf("Equal=%v/%v bytesEqual=%v a=%x b=%x", eq1, eq2, be, ea, eb)
}

func c01Program(r *mon.R, g *groups.G, idx int) {
	rng := gen.New(r.Seed, "C01prog"+g.Name, idx)
	edge := gen.Edge(g.Q)
	ops, how := opaque(g, rng, 1+rng.IntN(3))
	gens := append([]kyber.Point{g.Gen()}, ops...)
	m := len(gens)
	zero := func() []*big.Int {
		z := make([]*big.Int, m)
		for i := range z {
			z[i] = new(big.Int)
		}
		return z
	}
	unit := func(i int) []*big.Int { z := zero(); z[i].SetInt64(1); return z }
	const nv = 6
	vars := make([]*shadowVar, nv)
	for i := range vars {
		gi := i % m
		vars[i] = &shadowVar{p: g.Point().Set(gens[gi]), k: unit(gi)}
	}
	steps := r.N(50, 60)
	var trace []string
	for s := 0; s < steps; s++ {
		d, a, b := rng.IntN(nv), rng.IntN(nv), rng.IntN(nv)
		va, vb := vars[a], vars[b]
		// operands are copied by encode/decode-free means: we only pass them as operands, receiver is fresh
		var res kyber.Point
		nk := zero()
		var op string
		// receiver: usually fresh; one step in three writes in place into the object currently held by the target slot
		// (a result that shares internal state with an operand or with a library constant is then corrupted)
		recv := func() kyber.Point {
			if rng.IntN(3) == 0 {
				return vars[d].p
			}
			return g.Point()
		}
		allNull := false
		isNull := func(k []*big.Int) bool {
			for _, x := range k {
				if x.Sign() != 0 {
					return false
				}
			}
			return true
		}
		switch c := rng.IntN(12); c {
		case 0, 1:
			op = "Add"
			res = recv().Add(va.p, vb.p)
			for i := range nk {
				nk[i].Add(va.k[i], vb.k[i]).Mod(nk[i], g.Q)
			}
			allNull = isNull(va.k) && isNull(vb.k)
		case 2:
			op = "Sub"
			res = recv().Sub(va.p, vb.p)
			for i := range nk {
				nk[i].Sub(va.k[i], vb.k[i]).Mod(nk[i], g.Q)
			}
			allNull = isNull(va.k) && isNull(vb.k)
		case 3:
			op = "Neg"
			res = recv().Neg(va.p)
			for i := range nk {
				nk[i].Neg(va.k[i]).Mod(nk[i], g.Q)
			}
			allNull = isNull(va.k)
		case 4, 5, 6:
			sc := rng.EdgeOrRandom(edge, g.Q, 150)
			op = "Mul(" + sc.Text(16) + ")"
			res = recv().Mul(g.ScalarFromBig(sc), va.p)
			for i := range nk {
				nk[i].Mul(va.k[i], sc).Mod(nk[i], g.Q)
			}
			allNull = isNull(va.k)
		case 7:
			sc := rng.EdgeOrRandom(edge, g.Q, 150)
			op = "MulBase(" + sc.Text(16) + ")"
			if g.CanMulNil {
				res = g.Point().Mul(g.ScalarFromBig(sc), nil)
			} else {
				res = g.Point().Mul(g.ScalarFromBig(sc), gens[0])
			}
			nk[0].Set(sc)
		case 8:
			op = "Double"
			res = recv().Add(va.p, va.p)
			for i := range nk {
				nk[i].Lsh(va.k[i], 1).Mod(nk[i], g.Q)
			}
			allNull = isNull(va.k)
		case 9:
			op = "SubSelf"
			res = recv().Sub(va.p, va.p)
		case 10:
			if rng.IntN(2) == 0 {
				op = "Null"
				res = recv().Null()
				allNull = true
			} else {
				op = "Gen"
				res = g.Gen()
				nk[0].SetInt64(1)
			}
		case 11:
			op = "Set"
			res = recv().Set(va.p)
			for i := range nk {
				nk[i].Set(va.k[i])
			}
			allNull = isNull(va.k)
		}
		trace = append(trace, fmt.Sprintf("v%d=%s(v%d,v%d)", d, op, a, b))
		if len(trace) > 12 {
			trace = trace[1:]
		}
		vars[d] = &shadowVar{p: res, k: nk}
		want := c01Materialise(g, gens, nk, s)
		opName := op
		if i := indexByte(op, '('); i >= 0 {
			opName = op[:i]
		}
		r.Eval("prog/"+opName, fmt.Sprintf("%s|%d|%d|%s", g.Name, idx, s, op), !allNull)
		r.Op(opName)
		if ok, why := same(res, want); !ok {
			ks := make([]string, len(nk))
			for i := range nk {
				ks[i] = nk[i].Text(16)
			}
			r.Violation("C01/"+g.Name+"/prog/"+opName, "result of "+opName+" differs from re-materialised discrete-log shadow",
				map[string]any{"group": g.Name, "program": idx, "step": s, "trace": trace, "shadow": ks, "gens": how, "why": why})
			// resynchronise on the reference value so that later steps are judged on their own
			vars[d].p = want
		}
	}
	if idx == 0 {
		r.SampleClass("prog:"+g.Name, map[string]any{"group": g.Name, "kind": "shadow-program", "gens": append([]string{"gen"}, how...), "last_steps": trace})
	}
}

func indexByte(s string, c byte) int {
	for i := 0; i < len(s); i++ {
		if s[i] == c {
			return i
		}
	}
	return -1
}

func c01Table(r *mon.R, g *groups.G, idx int) {
	rng := gen.New(r.Seed, "C01tab"+g.Name, idx)
	edge := gen.Edge(g.Q)
	B := g.Gen()
	O := g.Point().Null()
	// edge points
	type ept struct {
		p    kyber.Point
		name string
	}
	qm1 := new(big.Int).Sub(g.Q, big.NewInt(1))
	pts := []ept{{O, "O"}, {B, "B"}, {g.Point().Neg(B), "-B"}, {g.Point().Add(B, B), "2B"}, {g.Point().Mul(g.ScalarFromBig(qm1), B), "(q-1)B"},
		{g.Point().Neg(O), "-O"}, {g.Point().Sub(B, B), "B-B"}}
	ops, how := opaque(g, rng, 3)
	for i, p := range ops {
		pts = append(pts, ept{p, how[i]}, ept{g.Point().Neg(p), "-" + how[i]})
		// non-normalised (Z != 1) form: P+B-B
		pts = append(pts, ept{g.Point().Sub(g.Point().Add(p, B), B), how[i] + "+B-B"})
	}
	rk := rng.Big(g.Q)
	pts = append(pts, ept{g.Point().Mul(g.ScalarFromBig(rk), B), "kB"})
	check := func(law string, desc string, nontriv bool, a, b kyber.Point, detail func() map[string]any) {
		r.Eval("law/"+law, g.Name+"|"+desc, nontriv)
		if ok, why := same(a, b); !ok {
			d := detail()
			d["group"] = g.Name
			d["why"] = why
			d["case"] = desc
			r.Violation("C01/"+g.Name+"/law/"+law, "group law violated: "+law, d)
		}
	}
	nIter := 12
	for it := 0; it < nIter; it++ {
		P := pts[rng.IntN(len(pts))]
		Q := pts[rng.IntN(len(pts))]
		R := pts[rng.IntN(len(pts))]
		a := rng.EdgeOrRandom(edge, g.Q, 200)
		b := rng.EdgeOrRandom(edge, g.Q, 200)
		sa, sb := g.ScalarFromBig(a), g.ScalarFromBig(b)
		nt := func(ps ...ept) bool {
			for _, p := range ps {
				if p.name != "O" && p.name != "-O" && p.name != "B-B" {
					return true
				}
			}
			return false
		}
		det := func() map[string]any {
			return map[string]any{"a": a.Text(16), "b": b.Text(16), "P": P.name, "Q": Q.name, "R": R.name,
				"encP": mon.Hex(groups.Enc(P.p)), "encQ": mon.Hex(groups.Enc(Q.p)), "encR": mon.Hex(groups.Enc(R.p))}
		}
		d3 := fmt.Sprintf("%s,%s,%s,%s,%s", P.name, Q.name, R.name, a.Text(16), b.Text(16))
		// identity
		check("P+O=P", P.name, nt(P), g.Point().Add(P.p, O), P.p, det)
		check("O+P=P", P.name, nt(P), g.Point().Add(O, P.p), P.p, det)
		check("P-O=P", P.name, nt(P), g.Point().Sub(P.p, O), P.p, det)
		// inverse
		check("P+(-P)=O", P.name, nt(P), g.Point().Add(P.p, g.Point().Neg(P.p)), O, det)
		check("P-P=O", P.name, nt(P), g.Point().Sub(P.p, P.p), O, det)
		check("O-P=-P", P.name, nt(P), g.Point().Sub(O, P.p), g.Point().Neg(P.p), det)
		check("-(-P)=P", P.name, nt(P), g.Point().Neg(g.Point().Neg(P.p)), P.p, det)
		// commutativity, associativity
		check("P+Q=Q+P", P.name+","+Q.name, nt(P, Q), g.Point().Add(P.p, Q.p), g.Point().Add(Q.p, P.p), det)
		check("(P+Q)+R=P+(Q+R)", P.name+","+Q.name+","+R.name, nt(P, Q, R), g.Point().Add(g.Point().Add(P.p, Q.p), R.p), g.Point().Add(P.p, g.Point().Add(Q.p, R.p)), det)
		check("P-Q=P+(-Q)", P.name+","+Q.name, nt(P, Q), g.Point().Sub(P.p, Q.p), g.Point().Add(P.p, g.Point().Neg(Q.p)), det)
		// scalar action
		apb := new(big.Int).Add(a, b)
		ab := new(big.Int).Mul(a, b)
		check("(a+b)P=aP+bP", d3, nt(P), g.Point().Mul(g.ScalarFromBig(apb), P.p), g.Point().Add(g.Point().Mul(sa, P.p), g.Point().Mul(sb, P.p)), det)
		check("a(bP)=(ab)P", d3, nt(P), g.Point().Mul(sa, g.Point().Mul(sb, P.p)), g.Point().Mul(g.ScalarFromBig(ab), P.p), det)
		check("a(P+Q)=aP+aQ", d3, nt(P, Q), g.Point().Mul(sa, g.Point().Add(P.p, Q.p)), g.Point().Add(g.Point().Mul(sa, P.p), g.Point().Mul(sa, Q.p)), det)
		check("0P=O", P.name, nt(P), g.Point().Mul(g.Scalar().Zero(), P.p), O, det)
		check("1P=P", P.name, nt(P), g.Point().Mul(g.Scalar().One(), P.p), P.p, det)
		check("aO=O", a.Text(16), false, g.Point().Mul(sa, O), O, det)
		check("(q-1)P=-P", P.name, nt(P), g.Point().Mul(g.ScalarFromBig(qm1), P.p), g.Point().Neg(P.p), det)
		check("(-a)P=-(aP)", d3, nt(P), g.Point().Mul(g.Scalar().Neg(sa), P.p), g.Point().Neg(g.Point().Mul(sa, P.p)), det)
		check("2P=P+P", P.name, nt(P), g.Point().Mul(g.ScalarFromBig(big.NewInt(2)), P.p), g.Point().Add(P.p, P.p), det)
		if g.CanMulNil {
			check("Mul(a,nil)=Mul(a,Base)", a.Text(16), true, g.Point().Mul(sa, nil), g.Point().Mul(sa, g.Point().Base()), det)
			// add-chain reference for base multiples with small/edge scalars (independent of Mul)
			if a.BitLen() <= 24 {
				acc := g.Point().Null()
				for i := a.BitLen() - 1; i >= 0; i-- {
					acc = g.Point().Add(acc, acc)
					if a.Bit(i) == 1 {
						acc = g.Point().Add(acc, B)
					}
				}
				check("Mul(a,nil)=addchain", a.Text(16), true, g.Point().Mul(sa, nil), acc, det)
			}
		}
		// add-chain reference on variable point
		{
			acc := g.Point().Null()
			for i := a.BitLen() - 1; i >= 0; i-- {
				acc = g.Point().Add(acc, acc)
				if a.Bit(i) == 1 {
					acc = g.Point().Add(acc, P.p)
				}
			}
			check("aP=addchain", d3, nt(P), g.Point().Mul(sa, P.p), acc, det)
		}
		if it == 0 && idx == 0 {
			r.SampleClass("tab:"+g.Name, map[string]any{"group": g.Name, "kind": "identity-table", "P": P.name, "Q": Q.name, "R": R.name, "a": a.Text(16), "b": b.Text(16)})
		}
	}
	r.Op("Add", "Sub", "Neg", "Mul", "Null", "Base")
}
