package main

// C11, Pedersen DKG: the Byzantine menu and the (seed, tier)-determined list of sessions.

import (
	"verif/internal/gen"
	"verif/internal/mon"
)

// c11pMenuEntry is one behaviour a faulty party can be assigned.
type c11pMenuEntry struct {
	f       c11pFault
	dealer  bool // needs a seat in the old (dealing) group
	holder  bool // needs a seat in the new (share-holding) group
	reshare bool // only meaningful in a resharing
	nonfast bool // only meaningful without fast-sync
	proto   bool // only meaningful for the Protocol driver (signatures, lateness)
}

// c11pMenu is the Byzantine menu. Besides the behaviours of DESIGN §5 it holds, for every
// validation branch of ProcessDeals / ProcessResponses / ProcessJustifications / set.Push /
// VerifyPacketSignature, an entry that only this branch stops (branch -> entry):
//
//	ProcessDeals   nil bundle                    -> nil entries put into the lists by the direct engine
//	               dealer index unknown          -> deal-ghost-dealer
//	               session id                    -> deal-sid, deal-equivocate-sid
//	               public polynomial nil/length  -> deal-publen-zero/-short/-long
//	               second bundle of a dealer     -> deal-dup, deal-equivocate*
//	               deal for unknown holder index -> deal-extra-far/{first,mid,last}, deal-relabel-far/{keep,first,last}
//	               undecryptable / not a scalar  -> deal-garbage, deal-misdirected, deal-badplaintext
//	               share off the polynomial      -> deal-wrongshare
//	               resharing constant term       -> reshare-wrongconst
//	               no deal for this node         -> absent, deal-missing, deal-relabel-dup, deal-relabel-far
//	ProcessResponses holder index unknown        -> resp-ghost-holder
//	               session id                    -> resp-sid, resp-equivocate-sid
//	               dealer index unknown          -> resp-baddealer/{first,mid,last}
//	               success outside fast-sync     -> resp-success-nonfast, resp-dupdealer
//	               silent holder (fast-sync)     -> resp-absent, absent
//	               t complaints                  -> deal-*/all, coalitions of false complaints
//	ProcessJustifications second bundle          -> dupjust, equivocate-share, equivocate-sid
//	               dealer index unknown          -> just-ghost-dealer
//	               session id                    -> sidjust
//	               holder index unknown          -> badidxjust/{first,last}
//	               share off the polynomial      -> badjust, dupidxjust/{cw,wc}
//	               complaint left unanswered     -> nojust, partialjust, otherholderjust
//	set.Push       identical packet again        -> deal-dup, resp-dup, dupjust and the scheduler's duplicated deliveries
//	               conflicting packet            -> *equivocate* pairs differing in exactly one field
//	signature      wrong / foreign key           -> deal-badsig, resp-badsig, deal-/resp-/just-impersonate
func c11pMenu() []c11pMenuEntry {
	var m []c11pMenuEntry
	d := func(kind, target, just string) {
		m = append(m, c11pMenuEntry{f: c11pFault{kind: kind, target: target, just: just}, dealer: true})
	}
	dp := func(kind, pos, target, just string) {
		m = append(m, c11pMenuEntry{f: c11pFault{kind: kind, pos: pos, target: target, just: just}, dealer: true})
	}
	h := func(kind, target string) {
		m = append(m, c11pMenuEntry{f: c11pFault{kind: kind, target: target}, holder: true})
	}
	hp := func(kind, pos, target string) {
		m = append(m, c11pMenuEntry{f: c11pFault{kind: kind, pos: pos, target: target}, holder: true})
	}
	m = append(m, c11pMenuEntry{f: c11pFault{kind: "absent"}})
	// invalid encrypted shares to chosen honest parties, with every justification behaviour
	d("deal-garbage", "one", "nojust")
	d("deal-garbage", "one", "just")
	d("deal-garbage", "all", "nojust")
	d("deal-wrongshare", "one", "nojust")
	d("deal-wrongshare", "one", "just")
	d("deal-wrongshare", "one", "badjust")
	d("deal-wrongshare", "one", "dupjust")
	d("deal-wrongshare", "one", "equivocate-share")
	d("deal-wrongshare", "one", "equivocate-sid")
	d("deal-wrongshare", "one", "sidjust")
	dp("deal-wrongshare", "first", "one", "badidxjust")
	dp("deal-wrongshare", "last", "one", "badidxjust")
	dp("deal-wrongshare", "cw", "one", "dupidxjust")
	dp("deal-wrongshare", "wc", "one", "dupidxjust")
	d("deal-wrongshare", "one", "otherholderjust")
	d("deal-wrongshare", "two", "partialjust")
	d("deal-wrongshare", "two", "just")
	d("deal-wrongshare", "all", "just")
	d("deal-misdirected", "one", "nojust")
	d("deal-misdirected", "one", "just")
	d("deal-missing", "one", "nojust")
	d("deal-missing", "one", "just")
	d("deal-badplaintext", "one", "nojust")
	d("deal-badplaintext", "one", "just")
	// edits of the inner structure of a deal bundle: relabelled, bogus, reordered entries
	dp("deal-relabel-far", "keep", "one", "nojust")
	dp("deal-relabel-far", "first", "one", "nojust")
	dp("deal-relabel-far", "last", "one", "nojust")
	dp("deal-relabel-dup", "keep", "one", "nojust")
	dp("deal-relabel-dup", "first", "one", "just")
	dp("deal-relabel-dup", "last", "one", "nojust")
	dp("deal-extra-far", "first", "", "")
	dp("deal-extra-far", "mid", "", "")
	dp("deal-extra-far", "last", "", "")
	dp("deal-order", "reversed", "", "")
	dp("deal-order", "rotated", "", "")
	// structurally invalid / duplicated / conflicting bundles
	d("deal-publen-short", "", "")
	d("deal-publen-long", "", "")
	d("deal-publen-zero", "", "")
	d("deal-sid", "", "")
	d("deal-ghost-dealer", "", "")
	d("deal-dup", "", "")
	d("deal-equivocate", "", "")
	d("deal-equivocate-sid", "", "")
	d("deal-equivocate-cipher", "", "")
	d("deal-equivocate-public", "", "")
	d("just-ghost-dealer", "", "")
	m = append(m, c11pMenuEntry{f: c11pFault{kind: "reshare-wrongconst", just: "nojust"}, dealer: true, reshare: true})
	m = append(m, c11pMenuEntry{f: c11pFault{kind: "reshare-wrongconst", just: "just"}, dealer: true, reshare: true})
	m = append(m, c11pMenuEntry{f: c11pFault{kind: "deal-badsig"}, dealer: true, proto: true})
	m = append(m, c11pMenuEntry{f: c11pFault{kind: "deal-late"}, dealer: true, proto: true})
	m = append(m, c11pMenuEntry{f: c11pFault{kind: "deal-impersonate"}, dealer: true, proto: true})
	// share-holder misbehaviour in the response phase
	h("resp-false-complaint", "one")
	h("resp-false-complaint", "all")
	hp("resp-baddealer", "first", "one")
	hp("resp-baddealer", "mid", "one")
	hp("resp-baddealer", "last", "one")
	hp("resp-dupdealer", "cs", "one")
	hp("resp-dupdealer", "sc", "one")
	hp("resp-order", "reversed", "two")
	m = append(m, c11pMenuEntry{f: c11pFault{kind: "resp-success-nonfast"}, holder: true, nonfast: true})
	h("resp-sid", "")
	h("resp-absent", "")
	h("resp-ghost-holder", "")
	h("resp-dup", "one")
	h("resp-equivocate", "one")
	h("resp-equivocate-sid", "one")
	m = append(m, c11pMenuEntry{f: c11pFault{kind: "resp-badsig"}, holder: true, proto: true})
	m = append(m, c11pMenuEntry{f: c11pFault{kind: "resp-late", target: "one"}, holder: true, proto: true})
	m = append(m, c11pMenuEntry{f: c11pFault{kind: "resp-impersonate"}, holder: true, proto: true})
	m = append(m, c11pMenuEntry{f: c11pFault{kind: "just-impersonate", target: "one"}, holder: true, proto: true})
	return m
}

func (e c11pMenuEntry) applies(sh *c11pShape, party int, fast bool, mode string) bool {
	m := sh.members[party]
	if e.dealer && m[0] < 0 {
		return false
	}
	if e.holder && m[1] < 0 {
		return false
	}
	if e.reshare && sh.kind != "reshare" {
		return false
	}
	if e.nonfast && fast {
		return false
	}
	if e.proto && mode != "proto" {
		return false
	}
	return true
}

// c11pFaultBudgetOK: at most oldN-oldT faulty dealers and at most newN-newT faulty share holders.
func c11pFaultBudgetOK(sh *c11pShape, faulty []int) bool {
	fo, fn := 0, 0
	for _, p := range faulty {
		if sh.members[p][0] >= 0 {
			fo++
		}
		if sh.members[p][1] >= 0 {
			fn++
		}
	}
	return fo <= sh.oldN()-sh.oldT && fn <= sh.newN()-sh.newT
}

func c11pFresh(n, t int) c11pShape {
	sh := c11pShape{kind: "fresh", name: "fresh", oldT: t, newT: t}
	for i := 0; i < n; i++ {
		sh.members = append(sh.members, [2]int{i, i})
	}
	return sh
}

// c11pReshare builds a resharing shape. stay = number of old members that stay (the first ones),
// join = number of new members; variants gap and relabel modify the indices.
func c11pReshare(name string, oldN, oldT, stay, join, newT int) c11pShape {
	sh := c11pShape{kind: "reshare", name: name, oldT: oldT, newT: newT}
	switch name {
	case "gap":
		// a node in the middle leaves, the others keep their indices
		gone := oldN / 2
		for i := 0; i < oldN; i++ {
			if i == gone {
				sh.members = append(sh.members, [2]int{i, -1})
			} else {
				sh.members = append(sh.members, [2]int{i, i})
			}
		}
		for j := 0; j < join; j++ {
			sh.members = append(sh.members, [2]int{-1, oldN + j})
		}
	case "relabel":
		// same members, rotated indices in the new group
		for i := 0; i < oldN; i++ {
			sh.members = append(sh.members, [2]int{i, (i + 1) % oldN})
		}
		for j := 0; j < join; j++ {
			sh.members = append(sh.members, [2]int{-1, oldN + j})
		}
	default:
		for i := 0; i < oldN; i++ {
			if i < stay {
				sh.members = append(sh.members, [2]int{i, i})
			} else {
				sh.members = append(sh.members, [2]int{i, -1})
			}
		}
		// new members take the next free indices; these coincide with indices of leaving old members
		for j := 0; j < join; j++ {
			sh.members = append(sh.members, [2]int{-1, stay + j})
		}
	}
	return sh
}

func c11pValidT(n int) []int {
	var out []int
	for t := n/2 + 1; t <= n; t++ {
		out = append(out, t)
	}
	return out
}

// c11pSmallShapes: resharing shapes whose groups have at most 4 nodes (fault assignments enumerated exhaustively).
func c11pSmallShapes() []c11pShape {
	return []c11pShape{
		c11pReshare("same", 3, 2, 3, 0, 2),
		c11pReshare("same", 4, 3, 4, 0, 3),
		c11pReshare("newt", 3, 2, 3, 0, 3),
		c11pReshare("newt", 3, 3, 3, 0, 2),
		c11pReshare("newt", 4, 3, 4, 0, 4),
		c11pReshare("newt", 4, 4, 4, 0, 3),
		c11pReshare("overlap", 4, 3, 2, 2, 3),
		c11pReshare("overlap", 3, 2, 2, 1, 2),
		c11pReshare("overlap", 4, 3, 3, 1, 3),
		c11pReshare("grow", 3, 2, 3, 1, 3),
		c11pReshare("shrink", 4, 3, 3, 0, 2),
		c11pReshare("disjoint", 3, 2, 0, 3, 2),
		c11pReshare("disjoint", 3, 2, 0, 4, 3),
		c11pReshare("disjoint", 4, 3, 0, 3, 2),
		c11pReshare("gap", 4, 3, 0, 0, 2),
		c11pReshare("gap", 4, 3, 0, 1, 3),
		c11pReshare("relabel", 3, 2, 0, 0, 2),
		c11pReshare("relabel", 4, 3, 0, 0, 3),
	}
}

// c11pRandomShape draws a resharing shape with groups of lo..hi nodes.
func c11pRandomShape(g *gen.Rng, lo, hi int) c11pShape {
	names := []string{"same", "newt", "overlap", "grow", "shrink", "disjoint", "gap", "relabel"}
	for {
		name := gen.Pick(g, names)
		oldN := lo + g.IntN(hi-lo+1)
		oldT := gen.Pick(g, c11pValidT(oldN))
		var stay, join int
		switch name {
		case "same", "newt":
			stay, join = oldN, 0
		case "overlap":
			stay = 1 + g.IntN(oldN-1)
			join = 1 + g.IntN(3)
		case "grow":
			stay, join = oldN, 1+g.IntN(3)
		case "shrink":
			stay, join = oldN-1-g.IntN(2), 0
		case "disjoint":
			stay, join = 0, lo+g.IntN(hi-lo+1)
		case "gap":
			stay, join = oldN-1, g.IntN(2)
		case "relabel":
			stay, join = oldN, g.IntN(2)
		}
		newN := stay + join
		if newN < 3 || newN > hi+1 {
			continue
		}
		ts := c11pValidT(newN)
		newT := gen.Pick(g, ts)
		if name == "same" {
			newT = oldT
			if newT < newN/2+1 || newT > newN {
				continue
			}
		}
		if name == "newt" && newT == oldT {
			continue
		}
		return c11pReshare(name, oldN, oldT, stay, join, newT)
	}
}

// c11pSampleFaults draws a fault assignment within the budget (at least one faulty party if the budget allows one).
func c11pSampleFaults(g *gen.Rng, sh *c11pShape, fast bool, mode string, menu []c11pMenuEntry) map[int]c11pFault {
	np := len(sh.members)
	perm := g.Perm(np)
	var faulty []int
	want := 1 + g.IntN(3)
	for _, p := range perm {
		if len(faulty) >= want {
			break
		}
		if c11pFaultBudgetOK(sh, append(append([]int(nil), faulty...), p)) {
			faulty = append(faulty, p)
		}
	}
	if len(faulty) == 0 {
		return nil
	}
	out := map[int]c11pFault{}
	style := g.IntN(8)
	for _, p := range faulty {
		var cands []c11pMenuEntry
		for _, e := range menu {
			if e.applies(sh, p, fast, mode) {
				cands = append(cands, e)
			}
		}
		e := gen.Pick(g, cands)
		if style == 0 && sh.members[p][1] >= 0 {
			// coalition: every faulty share holder falsely complains about the same honest dealer(s)
			e = c11pMenuEntry{f: c11pFault{kind: "resp-false-complaint", target: "one"}}
			if g.IntN(3) == 0 {
				e.f.target = "all"
			}
		}
		if style == 1 && sh.members[p][0] >= 0 {
			// coalition of dealers handing invalid shares to the same honest parties
			e = c11pMenuEntry{f: c11pFault{kind: "deal-wrongshare", target: gen.Pick(g, []string{"one", "two"}), just: gen.Pick(g, []string{"nojust", "just", "badjust", "partialjust"})}}
		}
		out[p] = e.f
	}
	return out
}

// c11pScenarios returns the list of sessions of a mode; a function of (seed, tier) only.
func c11pScenarios(r *mon.R, mode string) []*c11pScn {
	menu := c11pMenu()
	var out []*c11pScn
	scheds := []string{""}
	if mode == "proto" {
		scheds = []string{"lockstep", "eager", "skew"}
	}
	g := gen.New(r.Seed, "c11p-scenarios/"+mode, 0)
	add := func(sh c11pShape, fast bool, faults map[int]c11pFault, dv int, origin string) {
		sc := &c11pScn{shape: sh, fast: fast, faults: faults, dv: dv, origin: origin}
		if mode == "proto" {
			sc.sched = scheds[(len(out)+dv)%len(scheds)]
		}
		if sh.kind == "reshare" {
			sc.chained = (len(out) % 5) == 0
		}
		out = append(out, sc)
	}
	// budgets (sessions cost ~30 ms of CPU each, ~9x that under the race detector, which the
	// thorough tier uses for mode proto)
	var kHonest, kExh, sampFresh, sampReshare, sampPairs, maxN int
	halfFast := false // quick proto: each (party, entry) of a resharing shape runs with one of the two sync modes
	if mode == "direct" {
		kHonest, kExh = r.N(2, 10), r.N(1, 4)
		sampFresh, sampReshare, sampPairs = r.N(24, 400), r.N(400, 10000), r.N(6, 60)
		maxN = r.N(6, 9)
	} else {
		kHonest, kExh = r.N(1, 3), r.N(1, 1)
		sampFresh, sampReshare, sampPairs = r.N(8, 50), r.N(100, 1000), r.N(3, 20)
		maxN = r.N(6, 9)
		halfFast = !r.Thorough()
	}
	exhaustive := func(sh c11pShape) {
		for fi, fast := range []bool{false, true} {
			for dv := 0; dv < kHonest; dv++ {
				add(sh, fast, nil, dv, "honest")
			}
			np := len(sh.members)
			for p := 0; p < np; p++ {
				if !c11pFaultBudgetOK(&sh, []int{p}) {
					continue
				}
				for ei, e := range menu {
					if !e.applies(&sh, p, fast, mode) {
						continue
					}
					if halfFast && sh.kind == "reshare" && !e.nonfast && (p+ei+int(r.Seed))%2 != fi {
						continue
					}
					for dv := 0; dv < kExh; dv++ {
						add(sh, fast, map[int]c11pFault{p: e.f}, dv+1, "exhaustive")
					}
				}
			}
		}
	}
	// fresh DKG
	for n := 3; n <= maxN; n++ {
		for _, t := range c11pValidT(n) {
			sh := c11pFresh(n, t)
			if n <= 4 {
				exhaustive(sh)
				continue
			}
			for _, fast := range []bool{false, true} {
				for dv := 0; dv < kHonest; dv++ {
					add(sh, fast, nil, dv, "honest")
				}
				if n-t == 0 {
					continue
				}
				for k := 0; k < sampFresh; k++ {
					add(sh, fast, c11pSampleFaults(g, &sh, fast, mode, menu), 1+g.IntN(1000), "sampled")
				}
			}
		}
	}
	// resharing, small shapes: exhaustive single faults, and sampled pairs where two seats may be faulty
	for _, sh := range c11pSmallShapes() {
		exhaustive(sh)
		for _, fast := range []bool{false, true} {
			for k := 0; k < sampPairs; k++ {
				f := c11pSampleFaults(g, &sh, fast, mode, menu)
				if len(f) >= 2 {
					add(sh, fast, f, 1+g.IntN(1000), "sampled")
				}
			}
		}
	}
	// resharing with a growing threshold (oldT < newT): coalitions of k = oldT .. newN-newT faulty NEW holders all falsely
	// complaining about the same honest dealer(s) - between oldT and newT-1 complaints must not disqualify it
	for _, sh := range []c11pShape{
		c11pReshare("grow", 3, 2, 3, 2, 3), c11pReshare("grow", 3, 2, 3, 3, 4), c11pReshare("grow", 4, 3, 4, 3, 4),
		c11pReshare("disjoint", 3, 2, 0, 5, 3), c11pReshare("overlap", 3, 2, 2, 3, 3), c11pReshare("newt", 5, 3, 5, 0, 4),
	} {
		sh := sh
		var holders []int // seats holding a new share, newcomers first
		for p, m := range sh.members {
			if m[0] < 0 && m[1] >= 0 {
				holders = append(holders, p)
			}
		}
		for p, m := range sh.members {
			if m[0] >= 0 && m[1] >= 0 {
				holders = append(holders, p)
			}
		}
		budget := sh.newN() - sh.newT
		for k := 1; k <= budget && k <= len(holders); k++ {
			for _, target := range []string{"one", "all"} {
				for rot := 0; rot < 2 && rot < len(holders); rot++ {
					f := map[int]c11pFault{}
					var seats []int
					for i := 0; i < k; i++ {
						seats = append(seats, holders[(rot*k+i)%len(holders)])
					}
					if !c11pFaultBudgetOK(&sh, seats) {
						continue
					}
					for _, p := range seats {
						f[p] = c11pFault{kind: "resp-false-complaint", target: target}
					}
					if len(f) != k {
						continue
					}
					for _, fast := range []bool{false, true} {
						add(sh, fast, f, 1+k+rot, "threshold-gap")
					}
				}
			}
		}
	}
	// several equivocators in the same phase (fault budget >= 2), many per-recipient delivery orders with re-deliveries: the
	// memory of who equivocated must not depend on the order in which the conflicts were noticed
	for _, nt := range [][2]int{{5, 3}, {6, 4}, {7, 4}} {
		sh := c11pFresh(nt[0], nt[1])
		kinds := []string{"deal-equivocate", "deal-equivocate-public", "deal-equivocate-cipher", "resp-equivocate"}
		nDv := r.N(10, 40)
		if mode == "direct" {
			nDv = r.N(4, 16)
		}
		for ki, kd := range kinds {
			for rot := 0; rot < 2; rot++ {
				// seats: spread over the index range, highest first / lowest first makes no difference to the set, the
				// delivery order per recipient is what varies (dv)
				var seats []int
				budget := nt[0] - nt[1]
				for i := 0; i < budget; i++ {
					seats = append(seats, (1+rot+2*i)%nt[0])
				}
				f := map[int]c11pFault{}
				for _, p := range seats {
					tgt := ""
					if kd == "resp-equivocate" {
						tgt = "one"
					}
					f[p] = c11pFault{kind: kd, target: tgt}
				}
				if len(f) != budget || !c11pFaultBudgetOK(&sh, seats) {
					continue
				}
				for dv := 1; dv <= nDv; dv++ {
					add(sh, false, f, 100*ki+dv, "multi-equivocation")
					if dv%4 == 0 {
						add(sh, true, f, 100*ki+dv, "multi-equivocation")
					}
				}
			}
		}
	}
	// resharing, larger groups: sampled shapes and fault assignments
	for k := 0; k < sampReshare; k++ {
		sh := c11pRandomShape(g, 3, maxN)
		fast := g.IntN(2) == 0
		if k%10 == 0 {
			add(sh, fast, nil, g.IntN(1000), "honest")
			continue
		}
		add(sh, fast, c11pSampleFaults(g, &sh, fast, mode, menu), 1+g.IntN(1000), "sampled")
	}
	return out
}
