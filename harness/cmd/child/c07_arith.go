package main

import (
	"bytes"
	"fmt"
	"math/big"
	"sync"

	"go.dedis.ch/kyber/v4"
	"go.dedis.ch/kyber/v4/share"

	"verif/internal/gen"
	"verif/internal/groups"
	"verif/internal/mon"
	"verif/internal/ref"
)

// c07Arith: polynomial addition and multiplication commute with evaluation
// and commitment; every derived polynomial (sum, product, their commitments
// under every base class, sums of commitments under every base class and
// under mixed bases, polynomials rebuilt from Info()) goes through the same
// battery as a freshly dealt one; operands stay intact; p+q = q+p, p*q = q*p.
func c07Arith(r *mon.R, g *groups.G, light bool, idx int) {
	rng := gen.New(r.Seed, "C07/arith/"+g.Name, idx)
	edge := gen.Edge(g.Q)
	r.Op("PriPoly.Add", "PriPoly.Mul", "PubPoly.Add", "PriPoly.Commit", "PriPoly.Eval", "PubPoly.Eval", "CoefficientsToPriPoly")
	mk := func(t int, class int) (*ref.C07Poly, *share.PriPoly) {
		cs := make([]*big.Int, t)
		for i := range cs {
			switch class {
			case 0:
				cs[i] = rng.Big(g.Q)
			case 1:
				cs[i] = rng.EdgeOrRandom(edge, g.Q, 220)
			case 2:
				cs[i] = new(big.Int)
			case 3: // sparse
				cs[i] = new(big.Int)
				if rng.IntN(3) == 0 {
					cs[i] = rng.Big(g.Q)
				}
			}
		}
		ss := make([]kyber.Scalar, t)
		for i := range ss {
			ss[i] = g.ScalarFromBig(cs[i])
		}
		return ref.C07NewPoly(g.Q, cs), share.CoefficientsToPriPoly(g.Grp, ss)
	}
	tmax := r.N(6, 9)
	if light {
		tmax = r.N(4, 6)
	}
	t1 := 1 + rng.IntN(tmax)
	t2 := 1 + rng.IntN(tmax)
	cl1, cl2 := rng.IntN(4), rng.IntN(4)
	if idx%4 != 0 { // mostly non-zero operands
		cl1, cl2 = rng.IntN(2), rng.IntN(2)
	}
	rp, p := mk(t1, cl1)
	rq, q := mk(t2, cl2)
	rq1, q1 := mk(t1, cl2) // same threshold as p, for Add
	bases := c07Bases(g, rng)
	c07Counter("arith/pairs").Add(1)
	nt := !rp.IsZero() && !rq.IsZero() && !rq1.IsZero()
	det := func(extra map[string]any) map[string]any {
		d := map[string]any{"group": g.Name, "pair": idx, "seed": r.Seed, "p": c07Big(rp.C), "q": c07Big(rq.C), "q_same_threshold": c07Big(rq1.C)}
		for _, b := range bases {
			d["base["+b.class+"]"] = mon.Hex(groups.Enc(b.pt))
		}
		for k, v := range extra {
			d[k] = v
		}
		return d
	}
	desc := func(s string) string { return fmt.Sprintf("%s|arith%d|%s", g.Name, idx, s) }
	bat := &c07bat{r: r, g: g, rng: rng, n: 4 + rng.IntN(5), ctx: fmt.Sprintf("%s|arith%d", g.Name, idx), det: det, light: light}
	evalIdx := func(k int) []uint32 {
		out := []uint32{0}
		for len(out) < k {
			out = append(out, uint32(rng.IntN(30)))
		}
		return out
	}
	// base classes used for the (quadratic) commitment batteries of this pair: all four on
	// full-budget groups; on reduced-budget groups nil plus one rotating explicit class
	useBases := bases
	if light {
		useBases = []c07base{bases[0], bases[1+idx%3]}
	}

	// ---- addition of private polynomials
	sum, err := p.Add(q1)
	sum2, err2 := q1.Add(p)
	r.Eval("arith/Add/coefficients", desc("add"), nt)
	wantSum := rp.Add(rq1)
	if err != nil || sum == nil || err2 != nil || sum2 == nil {
		r.Violation("C07/"+g.Name+"/PriPoly.Add/error", "PriPoly.Add of two polynomials of the same group and threshold fails", det(map[string]any{"err": fmt.Sprint(err, err2)}))
	} else {
		if !c07Coeffs(g, sum).Equal(wantSum) {
			r.Violation("C07/"+g.Name+"/PriPoly.Add/wrong-coefficients", "coefficients of p+q differ from the reference sum", det(map[string]any{"got": c07Big(c07Coeffs(g, sum).C)}))
		}
		r.Eval("arith/Add/commutes", desc("addcomm"), nt)
		if !c07Coeffs(g, sum).Equal(c07Coeffs(g, sum2)) || !sum.Equal(sum2) || !sum2.Equal(sum) {
			r.Violation("C07/"+g.Name+"/PriPoly.Add/not-commutative", "p+q and q+p are different polynomials", det(map[string]any{"p+q": c07Big(c07Coeffs(g, sum).C), "q+p": c07Big(c07Coeffs(g, sum2).C)}))
		}
		for _, i := range evalIdx(4) {
			r.Eval("arith/Add/eval", desc(fmt.Sprintf("addev%d", i)), nt)
			l := groups.ScalarToBig(sum.Eval(i).V)
			rr := groups.ScalarToBig(g.Scalar().Add(p.Eval(i).V, q1.Eval(i).V))
			w := wantSum.EvalIndex(i)
			if l.Cmp(rr) != 0 || l.Cmp(w) != 0 {
				r.Violation("C07/"+g.Name+"/PriPoly.Add/eval-not-additive", "(p+q).Eval(i) != p.Eval(i)+q.Eval(i)", det(map[string]any{"i": i, "lhs": l.Text(16), "rhs": rr.Text(16), "ref": w.Text(16)}))
			}
		}
		// the sum as an object of its own, committed under every base class
		bat.pri("PriPoly.Add", sum, wantSum, useBases)
	}

	// ---- operands created through two different group OBJECTS of the same group (a second suite instance): the library
	// compares groups by name, so addition must work and give the same polynomial
	if g2 := c07TwinGroup(g); g2 != nil {
		ss := make([]kyber.Scalar, t1)
		for i := range ss {
			ss[i] = g2.ScalarFromBig(rq1.C[i])
		}
		q1b := share.CoefficientsToPriPoly(g2.Grp, ss)
		r.Eval("arith/Add/operands-from-two-group-objects", desc("addtwin"), nt)
		sB, errB := p.Add(q1b)
		sC, errC := q1b.Add(p)
		if errB != nil || errC != nil || sB == nil || sC == nil {
			r.Violation("C07/"+g.Name+"/PriPoly.Add/two-group-objects/error", "PriPoly.Add fails for operands created through two objects of the same group", det(map[string]any{"err": fmt.Sprint(errB, errC)}))
		} else if !c07Coeffs(g, sB).Equal(wantSum) || !c07Coeffs(g, sC).Equal(wantSum) {
			r.Violation("C07/"+g.Name+"/PriPoly.Add/two-group-objects/wrong-coefficients", "sum of operands created through two objects of the same group differs from the reference", det(nil))
		}
		cpA, cqB := p.Commit(nil), q1b.Commit(nil)
		pB, errP := cpA.Add(cqB)
		pC, errQ := cqB.Add(cpA)
		r.Eval("arith/PubPoly.Add/operands-from-two-group-objects", desc("paddtwin"), nt)
		if errP != nil || errQ != nil || pB == nil || pC == nil {
			r.Violation("C07/"+g.Name+"/PubPoly.Add/two-group-objects/error", "PubPoly.Add fails for operands created through two objects of the same group", det(map[string]any{"err": fmt.Sprint(errP, errQ)}))
		} else {
			i := uint32(1 + rng.IntN(20))
			want := g.Point().Mul(g.ScalarFromBig(wantSum.EvalIndex(i)), nil)
			if ok, why := c07SamePt(pB.Eval(i).V, want); !ok {
				r.Violation("C07/"+g.Name+"/PubPoly.Add/two-group-objects/wrong-evaluation", "sum of commitments created through two objects of the same group evaluates wrongly", det(map[string]any{"i": i, "why": why}))
			}
			if ok, why := c07SamePt(pC.Eval(i).V, want); !ok {
				r.Violation("C07/"+g.Name+"/PubPoly.Add/two-group-objects/wrong-evaluation", "sum of commitments created through two objects of the same group evaluates wrongly (swapped)", det(map[string]any{"i": i, "why": why}))
			}
		}
	}

	// ---- values handed out by Eval / Shares belong to the caller: altering them must not change what the polynomial
	// hands out next time
	{
		i := uint32(rng.IntN(12))
		cp := p.Commit(nil)
		e1 := cp.Eval(i)
		before := groups.Enc(e1.V)
		e1.V.Add(e1.V, g.Point().Base())
		e1.I += 7
		e2 := cp.Eval(i)
		r.Eval("arith/Eval/result-belongs-to-caller", desc(fmt.Sprintf("evalfresh%d", i)), nt)
		if !bytes.Equal(groups.Enc(e2.V), before) || e2.I != i {
			r.Violation("C07/"+g.Name+"/PubPoly.Eval/altered-result-comes-back", "a PubShare returned by Eval and then altered by the caller is handed out again by the next Eval", det(map[string]any{"i": i}))
		}
		sh := cp.Shares(4)
		b2 := groups.Enc(sh[2].V)
		sh[2].V.Add(sh[2].V, g.Point().Base())
		if sh3 := cp.Shares(4); !bytes.Equal(groups.Enc(sh3[2].V), b2) {
			r.Violation("C07/"+g.Name+"/PubPoly.Shares/altered-result-comes-back", "a PubShare returned by Shares and then altered by the caller is handed out again", det(nil))
		}
		x1 := p.Eval(i)
		bx := groups.Enc(x1.V)
		x1.V.Add(x1.V, g.Scalar().One())
		if x2 := p.Eval(i); !bytes.Equal(groups.Enc(x2.V), bx) {
			r.Violation("C07/"+g.Name+"/PriPoly.Eval/altered-result-comes-back", "a PriShare returned by Eval and then altered by the caller is handed out again by the next Eval", det(map[string]any{"i": i}))
		}
	}

	// ---- addition of public polynomials, under every base class and both operand orders
	for _, bs := range useBases {
		spP, spQ, spS := c07SpecOver(g, rp, bs), c07SpecOver(g, rq1, bs), c07SpecOver(g, wantSum, bs)
		cp, cq := p.Commit(bs.arg), q1.Commit(bs.arg)
		csum, err := cp.Add(cq)
		csum2, err2 := cq.Add(cp)
		r.Eval("arith/PubPoly.Add/"+bs.class, desc("padd|"+bs.class), nt)
		if err != nil || csum == nil || err2 != nil || csum2 == nil {
			r.Violation("C07/"+g.Name+"/PubPoly.Add/"+bs.class+"/error", "PubPoly.Add of two commitments of the same group and threshold fails", det(map[string]any{"err": fmt.Sprint(err, err2), "base_class": bs.class}))
			continue
		}
		bat.pub("PubPoly.Add", csum, spS, 0)
		bat.pub("PubPoly.Add(swapped)", csum2, spS, 1)
		r.Eval("arith/PubPoly.Add/commutes", desc("paddcomm|"+bs.class), nt)
		if !csum.Equal(csum2) || !csum2.Equal(csum) {
			r.Violation("C07/"+g.Name+"/PubPoly.Add/"+bs.class+"/not-commutative", "P+Q and Q+P are different public polynomials", det(map[string]any{"base_class": bs.class}))
		}
		if sum != nil {
			r.Eval("arith/Add/commit", desc("addcommit|"+bs.class), nt)
			cs := sum.Commit(bs.arg)
			if !cs.Equal(csum) || !csum.Equal(cs) {
				r.Violation("C07/"+g.Name+"/PubPoly.Add/"+bs.class+"/commit-not-additive", "(p+q).Commit != p.Commit + q.Commit", det(map[string]any{"base_class": bs.class}))
			}
		}
		i := uint32(rng.IntN(30))
		r.Eval("arith/Add/pub-eval", desc(fmt.Sprintf("addpub%d|%s", i, bs.class)), nt)
		if ok, why := c07SamePt(csum.Eval(i).V, g.Point().Add(cp.Eval(i).V, cq.Eval(i).V)); !ok {
			r.Violation("C07/"+g.Name+"/PubPoly.Add/"+bs.class+"/eval-not-additive", "(P+Q).Eval(i) != P.Eval(i)+Q.Eval(i)", det(map[string]any{"i": i, "why": why, "base_class": bs.class}))
		}
		// a sum of a sum (derived from derived)
		if bs.class == useBases[len(useBases)-1].class {
			if c3, err := csum.Add(cp); err != nil || c3 == nil {
				r.Violation("C07/"+g.Name+"/PubPoly.Add/"+bs.class+"/error", "PubPoly.Add of a sum and a commitment fails", det(map[string]any{"err": fmt.Sprint(err)}))
			} else {
				bat.pub("PubPoly.Add(PubPoly.Add)", c3, c07SpecOver(g, wantSum.Add(rp), bs), 1)
			}
		}
		// operands as they were
		bat.pubIntact("PubPoly.Add/operand-P", cp, spP)
		bat.pubIntact("PubPoly.Add/operand-Q", cq, spQ)
		bat.pubIntact("PubPoly.Add/result-after-use", csum, spS)
	}
	// mixed naming of the same base: nil + explicit Base() (both orders). The sum is over the standard base.
	{
		bn, bb := bases[0], bases[2]
		cpN, cqB := p.Commit(bn.arg), q1.Commit(bb.arg)
		if s1, err := cpN.Add(cqB); err == nil && s1 != nil {
			sp := c07SpecOver(g, wantSum, bn)
			sp.baseClass = "nil+Base()"
			bat.pub("PubPoly.Add", s1, sp, 1)
		} else {
			r.Violation("C07/"+g.Name+"/PubPoly.Add/nil+Base()/error", "PubPoly.Add fails", det(map[string]any{"err": fmt.Sprint(err)}))
		}
		if s2, err := cqB.Add(cpN); err == nil && s2 != nil {
			sp := c07SpecOver(g, wantSum, bb)
			sp.baseClass = "Base()+nil"
			bat.pub("PubPoly.Add", s2, sp, 1)
		} else {
			r.Violation("C07/"+g.Name+"/PubPoly.Add/Base()+nil/error", "PubPoly.Add fails", det(map[string]any{"err": fmt.Sprint(err)}))
		}
	}
	// operands over unrelated bases: only what share/poly.go promises is judged (commitments and
	// evaluations add up, the base reported is the receiver's); Check has no meaning there.
	{
		b1, b2 := bases[1], bases[3]
		c1, c2 := p.Commit(b1.arg), q1.Commit(b2.arg)
		s, err := c1.Add(c2)
		if err != nil || s == nil {
			r.Violation("C07/"+g.Name+"/PubPoly.Add/k*B+Pick/error", "PubPoly.Add fails", det(map[string]any{"err": fmt.Sprint(err)}))
		} else {
			sp := &c07pubSpec{T: t1, base: b1.pt, nilBase: false, baseClass: "k*B+Pick",
				commit: func(j int) kyber.Point {
					return g.Point().Add(g.Point().Mul(g.ScalarFromBig(rp.C[j]), b1.pt), g.Point().Mul(g.ScalarFromBig(rq1.C[j]), b2.pt))
				},
				eval: func(i uint32) kyber.Point {
					return g.Point().Add(g.Point().Mul(g.ScalarFromBig(rp.EvalIndex(i)), b1.pt), g.Point().Mul(g.ScalarFromBig(rq1.EvalIndex(i)), b2.pt))
				}}
			bat.pub("PubPoly.Add", s, sp, 1)
			bat.pubIntact("PubPoly.Add/operand-P", c1, c07SpecOver(g, rp, b1))
			bat.pubIntact("PubPoly.Add/operand-Q", c2, c07SpecOver(g, rq1, b2))
		}
	}

	// ---- multiplication
	prod := p.Mul(q)
	prod2 := q.Mul(p)
	wantProd := rp.Mul(rq)
	nt2 := !rp.IsZero() && !rq.IsZero()
	r.Eval("arith/Mul/coefficients", desc("mul"), nt2)
	if prod == nil || prod2 == nil || int(prod.Threshold()) != t1+t2-1 || !c07Coeffs(g, prod).Equal(wantProd) {
		d := det(nil)
		if prod != nil {
			d["got"] = c07Big(c07Coeffs(g, prod).C)
			d["Threshold"] = prod.Threshold()
		}
		r.Violation("C07/"+g.Name+"/PriPoly.Mul/wrong-coefficients", "coefficients/threshold of p*q differ from the reference convolution", d)
	}
	if prod != nil && prod2 != nil {
		r.Eval("arith/Mul/commutes", desc("mulcomm"), nt2)
		if !c07Coeffs(g, prod).Equal(c07Coeffs(g, prod2)) || !prod.Equal(prod2) || !prod2.Equal(prod) {
			r.Violation("C07/"+g.Name+"/PriPoly.Mul/not-commutative", "p*q and q*p are different polynomials", det(map[string]any{"p*q": c07Big(c07Coeffs(g, prod).C), "q*p": c07Big(c07Coeffs(g, prod2).C)}))
		}
		for _, i := range evalIdx(4) {
			r.Eval("arith/Mul/eval", desc(fmt.Sprintf("mulev%d", i)), nt2)
			l := groups.ScalarToBig(prod.Eval(i).V)
			rr := groups.ScalarToBig(g.Scalar().Mul(p.Eval(i).V, q.Eval(i).V))
			w := wantProd.EvalIndex(i)
			if l.Cmp(rr) != 0 || l.Cmp(w) != 0 {
				r.Violation("C07/"+g.Name+"/PriPoly.Mul/eval-not-multiplicative", "(p*q).Eval(i) != p.Eval(i)*q.Eval(i)", det(map[string]any{"i": i, "lhs": l.Text(16), "rhs": rr.Text(16), "ref": w.Text(16)}))
			}
		}
		// the product as an object of its own, committed under base classes (rotating pair: the battery is linear in t1+t2)
		pb := []c07base{useBases[idx%len(useBases)], useBases[(idx+1)%len(useBases)]}
		bat.pri("PriPoly.Mul", prod, wantProd, pb)
		bs := pb[0]
		i := uint32(rng.IntN(30))
		r.Eval("arith/Mul/pub-eval", desc(fmt.Sprintf("mulpub%d", i)), nt2)
		pe := g.Scalar().Mul(p.Eval(i).V, q.Eval(i).V)
		if ok, why := c07SamePt(prod.Commit(bs.arg).Eval(i).V, g.Point().Mul(pe, bs.pt)); !ok {
			r.Violation("C07/"+g.Name+"/PriPoly.Mul/commit-eval-wrong", "(p*q).Commit.Eval(i) != (p.Eval(i)*q.Eval(i))*base", det(map[string]any{"i": i, "why": why, "base_class": bs.class}))
		}
	}

	// ---- the operands must still be what they were (Add/Mul/Commit/Eval return new objects)
	intact := func(stage string) {
		r.Eval("arith/operands-intact", desc("intact|"+stage), nt)
		if !c07Coeffs(g, p).Equal(rp) || !c07Coeffs(g, q).Equal(rq) || !c07Coeffs(g, q1).Equal(rq1) {
			r.Violation("C07/"+g.Name+"/PriPoly.arith/operand-changed/"+stage, "an operand polynomial changed ("+stage+")", det(map[string]any{"p_now": c07Big(c07Coeffs(g, p).C), "q_now": c07Big(c07Coeffs(g, q).C), "q1_now": c07Big(c07Coeffs(g, q1).C)}))
		}
	}
	intact("after-use")
	// a derived polynomial is a value of its own: overwriting ITS coefficients must not reach the operands
	if sum != nil {
		for _, c := range sum.Coefficients() {
			c.Add(c, g.Scalar().One())
		}
	}
	if prod != nil {
		for _, c := range prod.Coefficients() {
			c.Zero()
		}
	}
	intact("after-overwriting-derived")
	if sum != nil {
		// and the same for the commitments of a derived public polynomial
		bs := useBases[len(useBases)-1]
		cp, cq := p.Commit(bs.arg), q1.Commit(bs.arg)
		if cs, err := cp.Add(cq); err == nil && cs != nil {
			_, cc := cs.Info()
			for _, c := range cc {
				c.Null()
			}
			bat.pubIntact("PubPoly.Add/operand-P-after-overwriting-derived", cp, c07SpecOver(g, rp, bs))
			bat.pubIntact("PubPoly.Add/operand-Q-after-overwriting-derived", cq, c07SpecOver(g, rq1, bs))
			intact("after-overwriting-derived-commitments")
		}
	}
	r.SampleClass("arith/"+g.Name, map[string]any{"kind": "arith", "group": g.Name, "t_p": t1, "t_q": t2, "p": c07Big(rp.C), "q": c07Big(rq.C)})
}

var c07TwinOnce sync.Once
var c07Twins map[string]*groups.G

// c07TwinGroup returns the group of the same name from a second, independently constructed registry (other suite objects).
func c07TwinGroup(g *groups.G) *groups.G {
	c07TwinOnce.Do(func() {
		c07Twins = map[string]*groups.G{}
		for _, x := range groups.All() {
			c07Twins[x.Name] = x
		}
	})
	t := c07Twins[g.Name]
	if t == nil || t.Grp == g.Grp {
		return nil
	}
	return t
}
