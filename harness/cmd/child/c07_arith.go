package main

import (
	"fmt"
	"math/big"

	"go.dedis.ch/kyber/v4"
	"go.dedis.ch/kyber/v4/share"

	"verif/internal/gen"
	"verif/internal/groups"
	"verif/internal/mon"
	"verif/internal/ref"
)

// c07Arith: polynomial addition and multiplication commute with evaluation
// and commitment.
func c07Arith(r *mon.R, g *groups.G, idx int) {
	rng := gen.New(r.Seed, "C07/arith/"+g.Name, idx)
	edge := gen.Edge(g.Q)
	r.Op("PriPoly.Add", "PriPoly.Mul", "PubPoly.Add", "PriPoly.Commit", "PriPoly.Eval", "PubPoly.Eval")
	mk := func(t int, class int) (*ref.C07Poly, *share.PriPoly) {
		cs := make([]*big.Int, t)
		for i := range cs {
			switch class {
			case 0:
				cs[i] = rng.Big(g.Q)
			case 1:
				cs[i] = rng.EdgeOrRandom(edge, g.Q, 220)
			case 2:
				cs[i] = new(big.Int)
			case 3: // sparse
				cs[i] = new(big.Int)
				if rng.IntN(3) == 0 {
					cs[i] = rng.Big(g.Q)
				}
			}
		}
		ss := make([]kyber.Scalar, t)
		for i := range ss {
			ss[i] = g.ScalarFromBig(cs[i])
		}
		return ref.C07NewPoly(g.Q, cs), share.CoefficientsToPriPoly(g.Grp, ss)
	}
	t1 := 1 + rng.IntN(r.N(6, 9))
	t2 := 1 + rng.IntN(r.N(6, 9))
	cl1, cl2 := rng.IntN(4), rng.IntN(4)
	if idx%4 != 0 { // mostly non-zero operands
		cl1, cl2 = rng.IntN(2), rng.IntN(2)
	}
	rp, p := mk(t1, cl1)
	rq, q := mk(t2, cl2)
	rq1, q1 := mk(t1, cl2) // same threshold as p, for Add
	var baseArg kyber.Point
	base := g.Point().Base()
	baseClass := "nil"
	if rng.IntN(2) == 0 {
		k := new(big.Int).Add(rng.Big(new(big.Int).Sub(g.Q, big.NewInt(1))), big.NewInt(1))
		base = g.Point().Mul(g.ScalarFromBig(k), g.Point().Base())
		baseArg = c07DecP(g, groups.Enc(base))
		baseClass = "k*B"
	}
	c07Counter("arith/pairs").Add(1)
	nt := !rp.IsZero() && !rq.IsZero() && !rq1.IsZero()
	det := func(extra map[string]any) map[string]any {
		d := map[string]any{"group": g.Name, "pair": idx, "seed": r.Seed, "p": c07Big(rp.C), "q": c07Big(rq.C), "q_same_threshold": c07Big(rq1.C), "base_class": baseClass, "base_enc": mon.Hex(groups.Enc(base))}
		for k, v := range extra {
			d[k] = v
		}
		return d
	}
	desc := func(s string) string { return fmt.Sprintf("%s|arith%d|%s", g.Name, idx, s) }
	coeffs := func(pp *share.PriPoly) *ref.C07Poly {
		cs := pp.Coefficients()
		out := make([]*big.Int, len(cs))
		for i := range cs {
			out[i] = groups.ScalarToBig(cs[i])
		}
		return ref.C07NewPoly(g.Q, out)
	}
	nEval := 4
	evalIdx := func() []uint32 {
		out := []uint32{0}
		for len(out) < nEval {
			out = append(out, uint32(rng.IntN(30)))
		}
		return out
	}
	expPt := func(v *big.Int) kyber.Point { return g.Point().Mul(g.ScalarFromBig(v), base) }

	// ---- addition
	sum, err := p.Add(q1)
	r.Eval("arith/Add/coefficients", desc("add"), nt)
	wantSum := rp.Add(rq1)
	if err != nil || sum == nil {
		r.Violation("C07/"+g.Name+"/PriPoly.Add/error", "PriPoly.Add of two polynomials of the same group and threshold fails", det(map[string]any{"err": fmt.Sprint(err)}))
	} else {
		if !coeffs(sum).Equal(wantSum) {
			r.Violation("C07/"+g.Name+"/PriPoly.Add/wrong-coefficients", "coefficients of p+q differ from the reference sum", det(map[string]any{"got": c07Big(coeffs(sum).C)}))
		}
		// operands untouched by the sum (a sum that aliases an operand would make p.Eval wrong below)
		for _, i := range evalIdx() {
			r.Eval("arith/Add/eval", desc(fmt.Sprintf("addev%d", i)), nt)
			l := groups.ScalarToBig(sum.Eval(i).V)
			rr := groups.ScalarToBig(g.Scalar().Add(p.Eval(i).V, q1.Eval(i).V))
			w := wantSum.EvalIndex(i)
			if l.Cmp(rr) != 0 || l.Cmp(w) != 0 {
				r.Violation("C07/"+g.Name+"/PriPoly.Add/eval-not-additive", "(p+q).Eval(i) != p.Eval(i)+q.Eval(i)", det(map[string]any{"i": i, "lhs": l.Text(16), "rhs": rr.Text(16), "ref": w.Text(16)}))
			}
		}
		// commitment
		cs := sum.Commit(baseArg)
		cp, cq := p.Commit(baseArg), q1.Commit(baseArg)
		csum, err := cp.Add(cq)
		r.Eval("arith/Add/commit", desc("addcommit"), nt)
		if err != nil || csum == nil {
			r.Violation("C07/"+g.Name+"/PubPoly.Add/error", "PubPoly.Add of two commitments of the same group and threshold fails", det(map[string]any{"err": fmt.Sprint(err)}))
		} else {
			_, a := cs.Info()
			_, b := csum.Info()
			bad := ""
			if len(a) != len(b) || len(a) != len(wantSum.C) {
				bad = fmt.Sprintf("lengths %d %d want %d", len(a), len(b), len(wantSum.C))
			} else {
				for j := range a {
					if ok, why := c07SamePt(a[j], b[j]); !ok {
						bad = fmt.Sprintf("coefficient %d: (p+q).Commit vs p.Commit+q.Commit: %s", j, why)
						break
					}
					if ok, why := c07SamePt(b[j], expPt(wantSum.C[j])); !ok {
						bad = fmt.Sprintf("coefficient %d: p.Commit+q.Commit vs reference: %s", j, why)
						break
					}
				}
			}
			if bad != "" {
				r.Violation("C07/"+g.Name+"/PubPoly.Add/commit-not-additive", "(p+q).Commit != p.Commit + q.Commit coefficient-wise", det(map[string]any{"why": bad}))
			}
			if !cs.Equal(csum) || !csum.Equal(cs) {
				r.Violation("C07/"+g.Name+"/PubPoly.Add/not-Equal", "PubPoly.Equal((p+q).Commit, p.Commit+q.Commit) is false", det(nil))
			}
			for _, i := range evalIdx() {
				r.Eval("arith/Add/pub-eval", desc(fmt.Sprintf("addpub%d", i)), nt)
				l := csum.Eval(i).V
				rr := g.Point().Add(cp.Eval(i).V, cq.Eval(i).V)
				ok1, why1 := c07SamePt(l, rr)
				ok2, why2 := c07SamePt(l, expPt(wantSum.EvalIndex(i)))
				if !ok1 || !ok2 {
					r.Violation("C07/"+g.Name+"/PubPoly.Add/eval-not-additive", "(P+Q).Eval(i) != P.Eval(i)+Q.Eval(i)", det(map[string]any{"i": i, "vs_sum": why1, "vs_ref": why2}))
				}
			}
		}
	}

	// ---- multiplication
	prod := p.Mul(q)
	wantProd := rp.Mul(rq)
	nt2 := !rp.IsZero() && !rq.IsZero()
	r.Eval("arith/Mul/coefficients", desc("mul"), nt2)
	if prod == nil || int(prod.Threshold()) != t1+t2-1 || !coeffs(prod).Equal(wantProd) {
		d := det(nil)
		if prod != nil {
			d["got"] = c07Big(coeffs(prod).C)
		}
		r.Violation("C07/"+g.Name+"/PriPoly.Mul/wrong-coefficients", "coefficients of p*q differ from the reference convolution", d)
	} else {
		for _, i := range evalIdx() {
			r.Eval("arith/Mul/eval", desc(fmt.Sprintf("mulev%d", i)), nt2)
			l := groups.ScalarToBig(prod.Eval(i).V)
			rr := groups.ScalarToBig(g.Scalar().Mul(p.Eval(i).V, q.Eval(i).V))
			w := wantProd.EvalIndex(i)
			if l.Cmp(rr) != 0 || l.Cmp(w) != 0 {
				r.Violation("C07/"+g.Name+"/PriPoly.Mul/eval-not-multiplicative", "(p*q).Eval(i) != p.Eval(i)*q.Eval(i)", det(map[string]any{"i": i, "lhs": l.Text(16), "rhs": rr.Text(16), "ref": w.Text(16)}))
			}
		}
		cpd := prod.Commit(baseArg)
		_, a := cpd.Info()
		r.Eval("arith/Mul/commit", desc("mulcommit"), nt2)
		bad := ""
		if len(a) != len(wantProd.C) {
			bad = "length"
		} else {
			for j := range a {
				if ok, why := c07SamePt(a[j], expPt(wantProd.C[j])); !ok {
					bad = fmt.Sprintf("coefficient %d: %s", j, why)
					break
				}
			}
		}
		if bad != "" {
			r.Violation("C07/"+g.Name+"/PriPoly.Mul/commit-wrong", "(p*q).Commit differs from the commitment of the reference product", det(map[string]any{"why": bad}))
		}
		i := uint32(rng.IntN(30))
		r.Eval("arith/Mul/pub-eval", desc(fmt.Sprintf("mulpub%d", i)), nt2)
		pe := g.Scalar().Mul(p.Eval(i).V, q.Eval(i).V)
		if ok, why := c07SamePt(cpd.Eval(i).V, g.Point().Mul(pe, base)); !ok {
			r.Violation("C07/"+g.Name+"/PriPoly.Mul/commit-eval-wrong", "(p*q).Commit.Eval(i) != (p.Eval(i)*q.Eval(i))*base", det(map[string]any{"i": i, "why": why}))
		}
	}
	// the operands must still be what they were (Add/Mul return new polynomials)
	r.Eval("arith/operands-intact", desc("intact"), nt)
	if !coeffs(p).Equal(rp) || !coeffs(q).Equal(rq) || !coeffs(q1).Equal(rq1) {
		r.Violation("C07/"+g.Name+"/PriPoly.arith/operand-changed", "Add/Mul/Commit/Eval changed an operand polynomial", det(map[string]any{"p_now": c07Big(coeffs(p).C), "q_now": c07Big(coeffs(q).C), "q1_now": c07Big(coeffs(q1).C)}))
	}
	r.SampleClass("arith/"+g.Name, map[string]any{"kind": "arith", "group": g.Name, "t_p": t1, "t_q": t2, "base_class": baseClass, "p": c07Big(rp.C), "q": c07Big(rq.C)})
}
