package main

import (
	"bytes"
	"fmt"
	"math"
	"math/big"

	"go.dedis.ch/kyber/v4"

	"verif/internal/gen"
	"verif/internal/groups"
)

// ---------------------------------------------------------------------------
// Setter-type operations on a receiver that already holds a value.
//
// A setter overwrites its receiver completely (Zero, One, SetInt64, SetBytes,
// Pick, Set, UnmarshalBinary, UnmarshalFrom; Null, Base, Pick, Embed, Hash,
// Set, UnmarshalBinary, UnmarshalFrom). The property calls the results of
// SetBytes, SetInt64 and Pick "reduced form" without restricting the receiver
// to a fresh one, so the value left in a *reused* object must encode, decode
// and compare exactly like the value the same setter leaves in a fresh object.
// A setter that forgets one field / the high bytes of the previous content is
// invisible on fresh receivers.
// ---------------------------------------------------------------------------

// c03SSet is a scalar setter with its arguments bound: on(recv) applies it to recv.
type c03SSet struct {
	name  string // Zero, One, SetInt64, SetBytes, Pick, Set, UnmarshalBinary, UnmarshalFrom
	route string
	on    func(recv kyber.Scalar) kyber.Scalar
	v     *big.Int // residue shadow of the result (nil = unknown)
}

// c03PSet is a point setter with its arguments bound.
type c03PSet struct {
	name  string // Null, Base, Pick, Embed, Hash, Set, UnmarshalBinary, UnmarshalFrom
	route string
	on    func(recv kyber.Point) kyber.Point
	k     []*big.Int
}

var c03ScalarSetterNames = []string{"Zero", "One", "SetInt64", "SetBytes", "Pick", "Set", "UnmarshalBinary", "UnmarshalFrom"}

// sShortSrc is a source value biased towards short residues (the interesting
// case: a short value written over a long one), built on fresh receivers.
func (b *c03B) sSrc() c03S {
	rng := b.rng
	switch rng.IntN(6) {
	case 0:
		return b.sFromBig(big.NewInt(int64(rng.IntN(1<<16))), "short")
	case 1:
		bits := 1 + rng.IntN(b.g.Q.BitLen()-8)
		v := new(big.Int).SetBytes(rng.Bytes((bits + 7) / 8))
		v.Rsh(v, uint((8-bits%8)%8))
		return b.sFromBig(v, "short")
	case 2:
		return b.sFromBig(gen.Pick(rng, b.edge), "edge")
	case 3:
		return b.sExpr(1 + rng.IntN(2))
	case 4:
		return b.sZeroRoute(rng.IntN(8))
	default:
		return b.sFromBig(rng.Big(b.g.Q), "random")
	}
}

// sSetter draws the arguments of the named scalar setter.
func (b *c03B) sSetter(name string) c03SSet {
	g, rng := b.g, b.rng
	L := g.Grp.ScalarLen()
	switch name {
	case "Zero":
		return c03SSet{name: name, route: "Zero", v: new(big.Int), on: func(s kyber.Scalar) kyber.Scalar { return s.Zero() }}
	case "One":
		return c03SSet{name: name, route: "One", v: big.NewInt(1), on: func(s kyber.Scalar) kyber.Scalar { return s.One() }}
	case "SetInt64":
		vals := []int64{0, 1, 2, 255, 256, 65535, -1, -2, -256, 1 << 31, 1 << 62, math.MaxInt64, math.MinInt64,
			int64(rng.IntN(1 << 20)), int64(rng.Uint64()), int64(rng.Uint64() >> uint(rng.IntN(64)))}
		v := gen.Pick(rng, vals)
		return c03SSet{name: name, route: fmt.Sprintf("SetInt64(%d)", v), v: b.mod(big.NewInt(v)), on: func(s kyber.Scalar) kyber.Scalar { return s.SetInt64(v) }}
	case "SetBytes":
		var n int
		switch rng.IntN(4) {
		case 0:
			n = 1 + rng.IntN(3) // very short input
		case 1:
			n = 1 + rng.IntN(L) // shorter than the scalar
		case 2:
			n = L
		default:
			n = L + 1 + rng.IntN(L+8) // needs reduction
		}
		x := new(big.Int).SetBytes(rng.Bytes(n))
		if rng.IntN(6) == 0 {
			x.SetInt64(0)
		}
		raw := c03IntBytes(x, g.Scalar().ByteOrder(), 0)
		if len(raw) == 0 {
			raw = []byte{0}
		}
		return c03SSet{name: name, route: fmt.Sprintf("SetBytes[%dB](%s)", len(raw), c03Short(x)), v: b.mod(x),
			on: func(s kyber.Scalar) kyber.Scalar { return s.SetBytes(append([]byte(nil), raw...)) }}
	case "Pick":
		seed := string(rng.Bytes(16))
		return c03SSet{name: name, route: fmt.Sprintf("Pick(%x)", seed), on: func(s kyber.Scalar) kyber.Scalar { return s.Pick(groups.Stream(seed)) }}
	case "Set":
		src := b.sSrc()
		return c03SSet{name: name, route: "Set(" + src.route + ")", v: src.v, on: func(s kyber.Scalar) kyber.Scalar { return s.Set(src.mk()) }}
	case "UnmarshalBinary":
		src := b.sSrc()
		return c03SSet{name: name, route: "UnmarshalBinary(Encode(" + src.route + "))", v: src.v, on: func(s kyber.Scalar) kyber.Scalar {
			e := groups.Enc(src.mk())
			if err := s.UnmarshalBinary(e); err != nil {
				panic(fmt.Sprintf("UnmarshalBinary of the library's own scalar encoding %x failed: %v", e, err))
			}
			return s
		}}
	case "UnmarshalFrom":
		src := b.sSrc()
		return c03SSet{name: name, route: "UnmarshalFrom(Encode(" + src.route + "))", v: src.v, on: func(s kyber.Scalar) kyber.Scalar {
			e := groups.Enc(src.mk())
			if _, err := s.UnmarshalFrom(bytes.NewReader(e)); err != nil {
				panic(fmt.Sprintf("UnmarshalFrom of the library's own scalar encoding %x failed: %v", e, err))
			}
			return s
		}}
	}
	panic("harness: unknown scalar setter " + name)
}

// sOnFresh is the setter applied to a fresh receiver.
func (b *c03B) sOnFresh(st c03SSet) c03S {
	g := b.g
	return c03S{class: "setter." + st.name, route: st.route, v: st.v, mk: func() kyber.Scalar { return st.on(g.Scalar()) }}
}

// sPrefill is what the receiver holds before the setter runs.
// kind: "full" (full-width value), "short" (short value), "setter" (left by another kind of setter).
func (b *c03B) sPrefill(kind, notSetter string) c03S {
	rng := b.rng
	g := b.g
	switch kind {
	case "full":
		switch rng.IntN(5) {
		case 0:
			return b.sFromBig(new(big.Int).Sub(g.Q, big.NewInt(1)), "q-1")
		case 1:
			return b.sUn("Neg", b.sOne())
		case 2:
			return b.sInt64(-1)
		case 3:
			return b.sBin("Mul", b.sFromBig(rng.Big(g.Q), "random"), b.sFromBig(rng.Big(g.Q), "random"))
		default:
			// all bytes non-zero
			n := g.Grp.ScalarLen()
			raw := make([]byte, n)
			for i := range raw {
				raw[i] = 0xff
			}
			return b.sSetBytesRaw(new(big.Int).SetBytes(raw), 0, "setbytes-long")
		}
	case "short":
		switch rng.IntN(4) {
		case 0:
			return b.sInt64(int64(1 + rng.IntN(255)))
		case 1:
			return b.sOne()
		case 2:
			return b.sZero()
		default:
			return b.sFromBig(big.NewInt(int64(rng.IntN(1<<24))), "short")
		}
	default:
		for {
			n := gen.Pick(rng, c03ScalarSetterNames)
			if n != notSetter {
				return b.sOnFresh(b.sSetter(n))
			}
		}
	}
}

// sReused is the setter applied to a receiver holding pre.
func (b *c03B) sReused(st c03SSet, pre c03S, kind string) c03S {
	return c03S{class: "reused." + st.name + ".over-" + kind, route: st.route + " over [" + pre.route + "]", v: st.v,
		mk: func() kyber.Scalar { return st.on(pre.mk()) }}
}

// ---- points ------------------------------------------------------------------

func (b *c03B) pointSetterNames() []string {
	g := b.g
	names := []string{"Null", "Set", "UnmarshalBinary", "UnmarshalFrom"}
	if g.CanBase {
		names = append(names, "Base")
	}
	if g.CanPick {
		names = append(names, "Pick")
	}
	if g.CanEmbed {
		names = append(names, "Embed")
	}
	if g.CanHash {
		names = append(names, "Hash")
	}
	return names
}

// pSrc is a source point for Set / Unmarshal*: identity and base are over-represented
// because their internal representation is special (z = 0, small coordinates).
func (b *c03B) pSrc() c03P {
	rng := b.rng
	switch rng.IntN(6) {
	case 0:
		return b.pIdentity(rng.IntN(10))
	case 1:
		return b.pBase(rng.IntN(6))
	default:
		return b.pRandom()
	}
}

func (b *c03B) pSetter(name string) c03PSet {
	g, rng := b.g, b.rng
	switch name {
	case "Null":
		return c03PSet{name: name, route: "Null", k: b.zeroK(), on: func(p kyber.Point) kyber.Point { return p.Null() }}
	case "Base":
		return c03PSet{name: name, route: "Base", k: b.unit(0), on: func(p kyber.Point) kyber.Point { return p.Base() }}
	case "Pick":
		seed := string(rng.Bytes(16))
		return c03PSet{name: name, route: fmt.Sprintf("Pick(%x)", seed), on: func(p kyber.Point) kyber.Point { return p.Pick(groups.Stream(seed)) }}
	case "Embed":
		seed := string(rng.Bytes(16))
		l := g.Point().EmbedLen()
		data := rng.Bytes(rng.IntN(l + 1))
		if rng.IntN(4) == 0 {
			for i := range data {
				data[i] = 0
			}
		}
		return c03PSet{name: name, route: fmt.Sprintf("Embed(%x;%x)", data, seed), on: func(p kyber.Point) kyber.Point {
			return p.Embed(append([]byte(nil), data...), groups.Stream(seed))
		}}
	case "Hash":
		msg := rng.Bytes(rng.IntN(40))
		return c03PSet{name: name, route: fmt.Sprintf("Hash(%x)", msg), on: func(p kyber.Point) kyber.Point {
			return p.(groups.Hasher).Hash(append([]byte(nil), msg...))
		}}
	case "Set":
		src := b.pSrc()
		return c03PSet{name: name, route: "Set(" + src.route + ")", k: src.k, on: func(p kyber.Point) kyber.Point { return p.Set(src.mk()) }}
	case "UnmarshalBinary":
		src := b.pSrc()
		return c03PSet{name: name, route: "UnmarshalBinary(Encode(" + src.route + "))", k: src.k, on: func(p kyber.Point) kyber.Point {
			e := groups.Enc(src.mk())
			if err := p.UnmarshalBinary(e); err != nil {
				panic(fmt.Sprintf("UnmarshalBinary of the library's own encoding %x failed: %v", e, err))
			}
			return p
		}}
	case "UnmarshalFrom":
		src := b.pSrc()
		return c03PSet{name: name, route: "UnmarshalFrom(Encode(" + src.route + "))", k: src.k, on: func(p kyber.Point) kyber.Point {
			e := groups.Enc(src.mk())
			if _, err := p.UnmarshalFrom(bytes.NewReader(e)); err != nil {
				panic(fmt.Sprintf("UnmarshalFrom of the library's own encoding %x failed: %v", e, err))
			}
			return p
		}}
	}
	panic("harness: unknown point setter " + name)
}

func (b *c03B) pOnFresh(st c03PSet) c03P {
	g := b.g
	return c03P{class: "setter." + st.name, route: st.route, k: st.k, mk: func() kyber.Point { return st.on(g.Point()) }}
}

// pPrefill: "full" = random non-normalised point, "short" = identity / generator
// (special internal representation), "setter" = left by another kind of setter.
func (b *c03B) pPrefill(kind, notSetter string) c03P {
	rng := b.rng
	switch kind {
	case "full":
		if rng.IntN(3) == 0 {
			return b.pMul(b.nonzeroScalar(60), b.pChain())
		}
		return b.pChain()
	case "short":
		switch rng.IntN(4) {
		case 0:
			return b.pNull()
		case 1:
			return b.gens[0]
		case 2:
			return b.pNeg(b.pNull())
		default:
			return b.pSub(b.gens[0], b.gens[0])
		}
	default:
		names := b.pointSetterNames()
		for {
			n := gen.Pick(rng, names)
			if n != notSetter {
				return b.pOnFresh(b.pSetter(n))
			}
		}
	}
}

func (b *c03B) pReused(st c03PSet, pre c03P, kind string) c03P {
	return c03P{class: "reused." + st.name + ".over-" + kind, route: st.route + " over [" + pre.route + "]", k: st.k,
		mk: func() kyber.Point { return st.on(pre.mk()) }}
}

var c03PrefillKinds = []string{"full", "short", "setter"}
