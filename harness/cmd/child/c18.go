package main

// C18 — independent implementations and build variants of a group agree
// bit-for-bit. This file schedules the in-process parts (i)-(iii); part (iv),
// the build-variant transcript differential, is cmd/ctprog + driver.py.

import (
	"fmt"
	"strings"
	"sync/atomic"

	"verif/internal/mon"
)

func init() { register("C18", c18) }

type c18Job struct {
	part string // ed | hooks | keyderiv | w:<curve> | bls | blssig
	idx  int
	run  func()
}

func c18(r *mon.R) {
	r.SetRule("lock-step straight-line programs (init + 24..40 random steps over 4 scalar and 4-6 point registers per sort: scalar Add/Sub/Mul/Div/Neg/Inv/Set/SetInt64/SetBytes/hash-to-scalar, point Add/Sub/Neg/Mul/Mul(s,nil)/double/P-P/Null/Base/Set/encode-decode/decode of external points/Hash with default and custom tag/Pair; 1 in 4 steps with the receiver aliasing an operand) executed on every implementation of the same group: " +
		"(i) ed25519 constant-time, ed25519 with AllowVarTime, edwards25519vartime projective/extended (the affine 'basic' variant needs the experimental tag and does not compile) and a big.Int affine Edwards model; edwards25519 field ops, the three scalar multipliers and the sliding-window recoding (hooks) against math/big; key derivation and EdDSA against crypto/ed25519; scalars in [l,2^255) on both multiplication paths; " +
		"(ii) P-256, BN256 G1, BN254 G1 against a big.Int Weierstrass model; (iii) Kilic/CIRCL/gnark BLS12-381: scalars, G1 (plus model), G2, GT, hash-to-curve, pairings, BLS signatures on G1 and G2 with cross verification. " +
		"After every step the destination register of every machine is encoded and compared with the model (or the majority where no model exists); all registers are swept every 13 steps. " +
		"One evaluation = one (step, machine) comparison. distinct = (part, op, machine, program, step); non-trivial = not all operands are the identity / zero. " +
		"(iv) is added by the driver: transcripts of cmd/ctprog built with 5 tag sets compared line by line (one evaluation per compared line pair)")
	r.Assume("math/big modular arithmetic, the affine Edwards / Weierstrass formulas of internal/ref and crypto/ed25519, crypto/sha512 are the reference")
	r.Assume("where no model exists (BLS12-381 G2, GT, hash-to-curve, pairings) agreement of three independent back-ends is the oracle; two of three agreeing identifies the deviating one")
	r.Assume("Pick is excluded from cross-implementation comparison (back-ends legitimately sample differently)")

	mode := *flagMode
	want := func(p string) bool { return mode == "" || strings.Contains(","+mode+",", ","+p+",") }
	var jobs []c18Job
	add := func(part string, n int, f func(i int)) {
		if !want(strings.SplitN(part, ":", 2)[0]) {
			return
		}
		for i := 0; i < n; i++ {
			i := i
			jobs = append(jobs, c18Job{part, i, func() { f(i) }})
		}
	}
	// BLS programs are the most expensive jobs: schedule them first
	add("bls", r.N(96, 1000), func(i int) { c18BLSProgram(r, i) })
	add("blssig", r.N(48, 500), func(i int) { c18BLSSig(r, i) })
	for _, cfg := range c18WConfigs() {
		cfg := cfg
		add("w:"+cfg.part, r.N(80, 800), func(i int) { c18WProgram(r, cfg, i) })
	}
	add("ed", r.N(300, 3000), func(i int) { c18EdProgram(r, i) })
	add("eddecode", r.N(8, 80), func(i int) { c18EdDecodeAgreement(r, i) })
	add("hooks", r.N(150, 1500), func(i int) { c18Hooks(r, i) })
	add("keyderiv", r.N(60, 600), func(i int) { c18KeyDeriv(r, i) })

	if len(jobs) == 0 {
		r.Inconclusive("C18: no in-process job selected (mode=" + mode + ")")
	}
	ran := map[string]*atomic.Int64{}
	for _, j := range jobs {
		if ran[j.part] == nil {
			ran[j.part] = new(atomic.Int64)
		}
	}
	mon.Parallel(len(jobs), func(w, i int) {
		j := jobs[i]
		r.Journal(w, "C18 %s %d", j.part, j.idx)
		key := "C18/" + strings.TrimPrefix(j.part, "w:") + "/job"
		if r.Guard(key, map[string]any{"part": j.part, "idx": j.idx, "seed": r.Seed}, j.run) {
			ran[j.part].Add(1)
		}
	})
	// a part that was scheduled but judged nothing must be reported
	for part, n := range ran {
		r.Note("jobs_completed/"+part, n.Load())
		if n.Load() == 0 {
			r.Inconclusive(fmt.Sprintf("C18: part %s observed nothing (no job completed)", part))
		}
	}
	r.Note("jobs", len(jobs))
}
