package main

import (
	"fmt"
	"strconv"
	"strings"

	"go.dedis.ch/kyber/v4"
	"go.dedis.ch/kyber/v4/group/edwards25519"
	"go.dedis.ch/kyber/v4/share"
	vssp "go.dedis.ch/kyber/v4/share/vss/pedersen"
	vssr "go.dedis.ch/kyber/v4/share/vss/rabin"
	"go.dedis.ch/kyber/v4/sign/schnorr"

	"verif/internal/gen"
	"verif/internal/mon"
)

func init() { register("C10", c10) }

// ---------------------------------------------------------------- variant adapters

type c10suite = *edwards25519.SuiteEd25519

// c10deal is a plaintext deal of either variant, manipulated through closures.
type c10variant struct {
	name string
	// dealer side
	newDealer func(s c10suite, long, secret kyber.Scalar, pubs []kyber.Point, t uint32) (c10dealer, error)
	// verifier side
	newVerifier func(s c10suite, long kyber.Scalar, dealerPub kyber.Point, pubs []kyber.Point) (c10verifier, error)
	// messages
	mkResponse func(s c10suite, sid []byte, idx uint32, approved bool, signKey kyber.Scalar) any
	cloneResp  func(r any) any
	respInfo   func(r any) (idx uint32, approved bool)
	mkJust     func(s c10suite, sid []byte, idx uint32, deal any, dealerLong kyber.Scalar) any
	cloneJust  func(s c10suite, j any) any
	// deals
	cloneDeal             func(s c10suite, d any) any
	dealShare             func(d any) *share.PriShare
	dealSetT              func(d any, t uint32)
	dealCommit            func(d any) []kyber.Point
	dealSid               func(d any) []byte
	dealBytes             func(d any) []byte
	recover               func(s c10suite, deals []any, n, t uint32) (kyber.Scalar, error)
	timeoutAddsComplaints bool // Rabin: SetTimeout turns absent verifiers into complaints
}

type c10dealer interface {
	honestEnc(i int) (any, error)
	plaintext(i int) any
	sealStruct(i int, d any) (any, error)
	sealBytes(i int, b []byte) (any, error)
	processResponse(r any) (any, error) // returns justification or nil
	certified() bool
	secretCommit() kyber.Point
	commits() []kyber.Point
	sid() []byte
	setTimeout()
	tamperEnc(enc any, what string) any
}

type c10verifier interface {
	processDeal(enc any) (any, error)
	processResponse(r any) error
	processJust(j any) error
	certified() bool
	deal() any
	setTimeout()
}

// ---- Pedersen

type c10pd struct{ d *vssp.Dealer }

func (x c10pd) honestEnc(i int) (any, error) { return x.d.EncryptedDeal(i) }
func (x c10pd) plaintext(i int) any          { d, _ := x.d.PlaintextDeal(i); return d }
func (x c10pd) sealStruct(i int, d any) (any, error) {
	return x.d.VerifSealDealStruct(i, d.(*vssp.Deal))
}
func (x c10pd) sealBytes(i int, b []byte) (any, error) { return x.d.VerifSealDeal(i, b) }
func (x c10pd) processResponse(r any) (any, error) {
	j, err := x.d.ProcessResponse(r.(*vssp.Response))
	if j == nil {
		return nil, err
	}
	return j, err
}
func (x c10pd) certified() bool           { return x.d.DealCertified() }
func (x c10pd) secretCommit() kyber.Point { return x.d.SecretCommit() }
func (x c10pd) commits() []kyber.Point    { return x.d.Commits() }
func (x c10pd) sid() []byte               { return x.d.SessionID() }
func (x c10pd) setTimeout()               { x.d.SetTimeout() }
func (x c10pd) tamperEnc(enc any, what string) any {
	e := enc.(*vssp.EncryptedDeal)
	c := &vssp.EncryptedDeal{DHKey: append([]byte(nil), e.DHKey...), Signature: append([]byte(nil), e.Signature...), Cipher: append([]byte(nil), e.Cipher...)}
	switch what {
	case "sig":
		c.Signature[len(c.Signature)/2] ^= 0x10
	case "cipher":
		c.Cipher[len(c.Cipher)/2] ^= 0x01
	case "dh":
		c.DHKey[3] ^= 0x04
	}
	return c
}

type c10pv struct{ v *vssp.Verifier }

func (x c10pv) processDeal(enc any) (any, error) {
	r, err := x.v.ProcessEncryptedDeal(enc.(*vssp.EncryptedDeal))
	if r == nil {
		return nil, err
	}
	return r, err
}
func (x c10pv) processResponse(r any) error { return x.v.ProcessResponse(r.(*vssp.Response)) }
func (x c10pv) processJust(j any) error     { return x.v.ProcessJustification(j.(*vssp.Justification)) }
func (x c10pv) certified() bool             { return x.v.DealCertified() }
func (x c10pv) deal() any {
	d := x.v.Deal()
	if d == nil {
		return nil
	}
	return d
}
func (x c10pv) setTimeout() { x.v.SetTimeout() }

var c10Pedersen = c10variant{
	name: "pedersen",
	newDealer: func(s c10suite, long, secret kyber.Scalar, pubs []kyber.Point, t uint32) (c10dealer, error) {
		d, err := vssp.NewDealer(s, long, secret, pubs, t)
		if err != nil {
			return nil, err
		}
		return c10pd{d}, nil
	},
	newVerifier: func(s c10suite, long kyber.Scalar, dealerPub kyber.Point, pubs []kyber.Point) (c10verifier, error) {
		v, err := vssp.NewVerifier(s, long, dealerPub, pubs)
		if err != nil {
			return nil, err
		}
		return c10pv{v}, nil
	},
	mkResponse: func(s c10suite, sid []byte, idx uint32, approved bool, signKey kyber.Scalar) any {
		r := &vssp.Response{SessionID: append([]byte(nil), sid...), Index: idx, StatusApproved: approved}
		sig, err := schnorr.Sign(s, signKey, r.Hash(s))
		if err != nil {
			panic(err)
		}
		r.Signature = sig
		return r
	},
	cloneResp: func(r any) any {
		x := r.(*vssp.Response)
		return &vssp.Response{SessionID: append([]byte(nil), x.SessionID...), Index: x.Index, StatusApproved: x.StatusApproved, Signature: append([]byte(nil), x.Signature...)}
	},
	respInfo: func(r any) (uint32, bool) { x := r.(*vssp.Response); return x.Index, x.StatusApproved },
	mkJust: func(s c10suite, sid []byte, idx uint32, deal any, dealerLong kyber.Scalar) any {
		j := &vssp.Justification{SessionID: append([]byte(nil), sid...), Index: idx, Deal: deal.(*vssp.Deal)}
		sig, err := schnorr.Sign(s, dealerLong, j.Hash(s))
		if err != nil {
			panic(err)
		}
		j.Signature = sig
		return j
	},
	cloneDeal: func(s c10suite, d any) any {
		b, err := d.(*vssp.Deal).Marshal()
		if err != nil {
			panic(err)
		}
		n := &vssp.Deal{}
		if err := n.Unmarshal(b, s); err != nil {
			panic(err)
		}
		return n
	},
	dealShare:  func(d any) *share.PriShare { return d.(*vssp.Deal).SecShare },
	dealSetT:   func(d any, t uint32) { d.(*vssp.Deal).T = t },
	dealCommit: func(d any) []kyber.Point { return d.(*vssp.Deal).Commitments },
	dealSid:    func(d any) []byte { return d.(*vssp.Deal).SessionID },
	dealBytes:  func(d any) []byte { b, _ := d.(*vssp.Deal).Marshal(); return b },
	recover: func(s c10suite, deals []any, n, t uint32) (kyber.Scalar, error) {
		var ds []*vssp.Deal
		for _, d := range deals {
			ds = append(ds, d.(*vssp.Deal))
		}
		return vssp.RecoverSecret(s, ds, n, t)
	},
}

// ---- Rabin

type c10rd struct{ d *vssr.Dealer }

func (x c10rd) honestEnc(i int) (any, error) { return x.d.EncryptedDeal(i) }
func (x c10rd) plaintext(i int) any          { d, _ := x.d.PlaintextDeal(i); return d }
func (x c10rd) sealStruct(i int, d any) (any, error) {
	return x.d.VerifSealDealStruct(i, d.(*vssr.Deal))
}
func (x c10rd) sealBytes(i int, b []byte) (any, error) { return x.d.VerifSealDeal(i, b) }
func (x c10rd) processResponse(r any) (any, error) {
	j, err := x.d.ProcessResponse(r.(*vssr.Response))
	if j == nil {
		return nil, err
	}
	return j, err
}
func (x c10rd) certified() bool           { return x.d.EnoughApprovals() && x.d.DealCertified() }
func (x c10rd) secretCommit() kyber.Point { return x.d.SecretCommit() }
func (x c10rd) commits() []kyber.Point    { return x.d.Commits() }
func (x c10rd) sid() []byte               { return x.d.SessionID() }
func (x c10rd) setTimeout()               { x.d.SetTimeout() }
func (x c10rd) tamperEnc(enc any, what string) any {
	e := enc.(*vssr.EncryptedDeal)
	c := &vssr.EncryptedDeal{DHKey: e.DHKey.Clone(), Signature: append([]byte(nil), e.Signature...), Cipher: append([]byte(nil), e.Cipher...)}
	switch what {
	case "sig":
		c.Signature[len(c.Signature)/2] ^= 0x10
	case "cipher":
		c.Cipher[len(c.Cipher)/2] ^= 0x01
	case "dh":
		c.DHKey = c.DHKey.Add(c.DHKey, c.DHKey.Clone().Base())
	}
	return c
}

type c10rv struct{ v *vssr.Verifier }

func (x c10rv) processDeal(enc any) (any, error) {
	r, err := x.v.ProcessEncryptedDeal(enc.(*vssr.EncryptedDeal))
	if r == nil {
		return nil, err
	}
	return r, err
}
func (x c10rv) processResponse(r any) error { return x.v.ProcessResponse(r.(*vssr.Response)) }
func (x c10rv) processJust(j any) error     { return x.v.ProcessJustification(j.(*vssr.Justification)) }
func (x c10rv) certified() bool             { return x.v.DealCertified() }
func (x c10rv) deal() any {
	d := x.v.Deal()
	if d == nil {
		return nil
	}
	return d
}
func (x c10rv) setTimeout() { x.v.SetTimeout() }

var c10Rabin = c10variant{
	name: "rabin",
	newDealer: func(s c10suite, long, secret kyber.Scalar, pubs []kyber.Point, t uint32) (c10dealer, error) {
		d, err := vssr.NewDealer(s, long, secret, pubs, t)
		if err != nil {
			return nil, err
		}
		return c10rd{d}, nil
	},
	newVerifier: func(s c10suite, long kyber.Scalar, dealerPub kyber.Point, pubs []kyber.Point) (c10verifier, error) {
		v, err := vssr.NewVerifier(s, long, dealerPub, pubs)
		if err != nil {
			return nil, err
		}
		return c10rv{v}, nil
	},
	mkResponse: func(s c10suite, sid []byte, idx uint32, approved bool, signKey kyber.Scalar) any {
		r := &vssr.Response{SessionID: append([]byte(nil), sid...), Index: idx, Approved: approved}
		sig, err := schnorr.Sign(s, signKey, r.Hash(s))
		if err != nil {
			panic(err)
		}
		r.Signature = sig
		return r
	},
	cloneResp: func(r any) any {
		x := r.(*vssr.Response)
		return &vssr.Response{SessionID: append([]byte(nil), x.SessionID...), Index: x.Index, Approved: x.Approved, Signature: append([]byte(nil), x.Signature...)}
	},
	respInfo: func(r any) (uint32, bool) { x := r.(*vssr.Response); return x.Index, x.Approved },
	mkJust: func(s c10suite, sid []byte, idx uint32, deal any, dealerLong kyber.Scalar) any {
		j := &vssr.Justification{SessionID: append([]byte(nil), sid...), Index: idx, Deal: deal.(*vssr.Deal)}
		sig, err := schnorr.Sign(s, dealerLong, j.Hash(s))
		if err != nil {
			panic(err)
		}
		j.Signature = sig
		return j
	},
	cloneDeal: func(s c10suite, d any) any {
		b, err := d.(*vssr.Deal).Marshal()
		if err != nil {
			panic(err)
		}
		n := &vssr.Deal{}
		if err := n.Unmarshal(b, s); err != nil {
			panic(err)
		}
		return n
	},
	dealShare:  func(d any) *share.PriShare { return d.(*vssr.Deal).SecShare },
	dealSetT:   func(d any, t uint32) { d.(*vssr.Deal).T = t },
	dealCommit: func(d any) []kyber.Point { return d.(*vssr.Deal).Commitments },
	dealSid:    func(d any) []byte { return d.(*vssr.Deal).SessionID },
	dealBytes:  func(d any) []byte { b, _ := d.(*vssr.Deal).Marshal(); return b },
	recover: func(s c10suite, deals []any, n, t uint32) (kyber.Scalar, error) {
		var ds []*vssr.Deal
		for _, d := range deals {
			ds = append(ds, d.(*vssr.Deal))
		}
		return vssr.RecoverSecret(s, ds, n, t)
	},
	timeoutAddsComplaints: true,
}

func init() {
	c10Pedersen.cloneJust = func(s c10suite, j any) any {
		x := j.(*vssp.Justification)
		return &vssp.Justification{SessionID: append([]byte(nil), x.SessionID...), Index: x.Index, Deal: c10Pedersen.cloneDeal(s, x.Deal).(*vssp.Deal), Signature: append([]byte(nil), x.Signature...)}
	}
	c10Rabin.cloneJust = func(s c10suite, j any) any {
		x := j.(*vssr.Justification)
		return &vssr.Justification{SessionID: append([]byte(nil), x.SessionID...), Index: x.Index, Deal: c10Rabin.cloneDeal(s, x.Deal).(*vssr.Deal), Signature: append([]byte(nil), x.Signature...)}
	}
}

// ---------------------------------------------------------------- scenario

var c10dealFaults = []string{"honest", "bad-share", "bad-commit", "wrong-index", "t-zero", "t-one", "t-n+1", "wrong-recipient", "forged-sig", "cipher-flip", "dh-tampered", "replayed", "missing-share", "garbage-plaintext", "other-session", "other-poly-same-sid", "other-group", "extended-commit"}
var c10respBehav = []string{"as-is", "absent", "flip", "forged-key", "wrong-sid", "duplicate", "equivocate", "out-of-range-index"}
var c10justKinds = []string{"correct", "wrong-share", "other-index", "other-poly", "none", "unsolicited-correct", "unsolicited-wrong", "wrong-then-correct", "correct-then-wrong", "other-index-then-correct"}

type c10event struct {
	kind string // "resp", "just", "timeout"
	msg  any
	// ground truth about the message, known by construction
	idx       uint32
	approved  bool   // resp: status
	validResp bool   // resp: signed by idx's own key with the session's sid and idx in range
	justKind  string // just: kind
	desc      string
	ord       int // for two-step justification sequences on one index: 1 = must come first, 2 = second
}

// c10ledger is the reference model of one observer's view.
type c10ledger struct {
	status   map[uint32]string // "approved", "complaint", "justified"
	bad      bool
	timeout  bool
	hasDeal  bool
	everBad  bool
	certSeen bool
}

func (l *c10ledger) count() int {
	c := 0
	for _, s := range l.status {
		if s == "approved" || s == "justified" {
			c++
		}
	}
	return c
}

type c10scn struct {
	v       *c10variant
	n, t    int
	faults  []string
	behav   []string
	justs   map[int]string
	prelude map[int]string // per verifier: a deal the code refuses with an error, delivered before the verifier's deal proper
	tpos    int            // position of the timeout in the event list (-1: none)
	seedIdx int
}

func (s *c10scn) String() string {
	if len(s.prelude) > 0 {
		return fmt.Sprintf("%s n=%d t=%d prelude=%v deals=%v resp=%v just=%v timeout@%d", s.v.name, s.n, s.t, s.prelude, s.faults, s.behav, s.justs, s.tpos)
	}
	return fmt.Sprintf("%s n=%d t=%d deals=%v resp=%v just=%v timeout@%d", s.v.name, s.n, s.t, s.faults, s.behav, s.justs, s.tpos)
}

func c10(r *mon.R) {
	r.SetRule("per variant (Pedersen, Rabin): a real Dealer, n real Verifiers; per verifier a deal fault from a menu of 15 (sealed through the real encryption path via the verif hook), per verifier a response behaviour from a menu of 8 (absent, lying, forged, duplicated, equivocating...), per index a justification kind from a menu of 7, a timeout position; every observer receives its own deep copies in a seeded order. Oracle = ground-truth ledger kept by the harness (which deals were really good, which responses were really signed by whom, which justification really revealed the complainer's share on the committed polynomial). quick: all single deal faults x positions exhaustively for n=3,4 + sampled multi-fault histories; thorough: n up to 6. distinct = (variant, n, t, fault assignment, response behaviours, justification kinds, timeout position, delivery seed); non-trivial = history contains at least one fault")
	r.Assume("faults are known by construction; for a mutated deal the harness knows which single field it changed")
	r.Assume("Ed25519 suite for both variants")
	variants := []*c10variant{&c10Pedersen, &c10Rabin}
	var scns []*c10scn
	// (1) honest runs and single deal faults, exhaustively over verifier position and timeout position
	ns := []int{3, 4}
	if r.Thorough() {
		ns = []int{3, 4, 5, 6}
	}
	for _, v := range variants {
		for _, n := range ns {
			for t := 2; t <= n; t++ {
				for _, tpos := range []int{-1, 0, 1, 2} {
					scns = append(scns, &c10scn{v: v, n: n, t: t, faults: c10fill(n, "honest"), behav: c10fill(n, "as-is"), justs: map[int]string{}, tpos: tpos})
				}
				if n > 4 && !r.Thorough() {
					continue
				}
				for _, f := range c10dealFaults[1:] {
					for pos := 0; pos < n; pos++ {
						for _, jk := range []string{"correct", "wrong-share", "other-index", "other-poly", "none", "wrong-then-correct", "correct-then-wrong", "other-index-then-correct"} {
							fs := c10fill(n, "honest")
							fs[pos] = f
							scns = append(scns, &c10scn{v: v, n: n, t: t, faults: fs, behav: c10fill(n, "as-is"), justs: map[int]string{pos: jk}, tpos: []int{-1, 1, 2}[(pos+len(f))%3]})
						}
					}
				}
				// single response faults
				for _, b := range c10respBehav[1:] {
					for pos := 0; pos < n; pos++ {
						for _, jk := range []string{"correct", "wrong-share", "none", "wrong-then-correct"} {
							bs := c10fill(n, "as-is")
							bs[pos] = b
							scns = append(scns, &c10scn{v: v, n: n, t: t, faults: c10fill(n, "honest"), behav: bs, justs: map[int]string{pos: jk}, tpos: []int{-1, 1, 2}[(pos+len(b))%3]})
						}
					}
				}
			}
		}
	}
	// (1b) a refused deal first, then the deal proper, on the same verifier object
	for _, v := range variants {
		for _, n := range ns {
			for t := 2; t <= n; t++ {
				var pks []string
				for _, b := range []string{"wrong-index", "other-dealer-wrong-index"} {
					pks = append(pks, b)
					for _, tp := range []int{0, 1, 2, n, n + 1} {
						if tp != t {
							pks = append(pks, fmt.Sprintf("%s+t=%d", b, tp))
						}
					}
				}
				pks = append(pks, "wrong-recipient", "forged-sig", "cipher-flip", "dh-tampered", "garbage-plaintext")
				for pi, pk := range pks {
					for pos := 0; pos < n; pos++ {
						if n > 4 && (pos+pi)%2 == 1 {
							continue
						}
						// all others honest; then: everybody approves / only t-1 others are heard before the timeout
						for _, absent := range []int{0, n - t, n - t + 1} {
							if absent > n-1 {
								continue
							}
							bs := c10fill(n, "as-is")
							for k, left := 1, absent; left > 0 && k < n; k++ {
								bs[(pos+k)%n] = "absent"
								left--
							}
							for _, f := range []string{"honest", "bad-share"} {
								fs := c10fill(n, "honest")
								fs[pos] = f
								scns = append(scns, &c10scn{v: v, n: n, t: t, faults: fs, behav: bs, justs: map[int]string{pos: "correct"}, prelude: map[int]string{pos: pk}, tpos: []int{1, 2}[(pos+pi)%2]})
							}
						}
					}
				}
			}
		}
	}
	// (2) sampled multi-fault histories
	nSample := r.N(1200, 24000)
	for i := 0; i < nSample; i++ {
		rng := gen.New(r.Seed, "C10scn", i)
		v := variants[i%2]
		n := 3 + rng.IntN(len(ns))
		t := 2 + rng.IntN(n-1)
		s := &c10scn{v: v, n: n, t: t, faults: c10fill(n, "honest"), behav: c10fill(n, "as-is"), justs: map[int]string{}, tpos: rng.IntN(5) - 1, seedIdx: i}
		for k := 0; k < n; k++ {
			if rng.IntN(3) == 0 {
				s.faults[k] = gen.Pick(rng, c10dealFaults)
			}
			if rng.IntN(3) == 0 {
				s.behav[k] = gen.Pick(rng, c10respBehav)
			}
			if rng.IntN(2) == 0 {
				s.justs[k] = gen.Pick(rng, c10justKinds)
			}
			if i%3 == 2 && rng.IntN(3) == 0 {
				if s.prelude == nil {
					s.prelude = map[int]string{}
				}
				s.prelude[k] = gen.Pick(rng, []string{"wrong-index", "wrong-index+t=1", "wrong-index+t=2", fmt.Sprintf("wrong-index+t=%d", n), "other-dealer-wrong-index+t=2", "wrong-recipient", "forged-sig", "garbage-plaintext"})
			}
		}
		scns = append(scns, s)
	}
	mon.Parallel(len(scns), func(w, i int) {
		s := scns[i]
		r.Journal(w, "C10 %d %s", i, s.String())
		r.Guard("C10/"+s.v.name+"/scenario", map[string]any{"scenario": s.String(), "index": i}, func() { c10run(r, s, i) })
	})
	r.Op("NewDealer", "EncryptedDeal", "ProcessEncryptedDeal", "ProcessResponse", "ProcessJustification", "SetTimeout", "DealCertified", "Deal", "RecoverSecret", "SecretCommit", "Commits")
}

func c10fill(n int, s string) []string {
	out := make([]string, n)
	for i := range out {
		out[i] = s
	}
	return out
}

func c10run(r *mon.R, s *c10scn, scnIdx int) {
	v := s.v
	n, t := s.n, s.t
	rng := gen.New(r.Seed, "C10run"+v.name, scnIdx)
	suite := edwards25519.NewBlakeSHA256Ed25519WithRand(rng.Stream())
	det := func(extra map[string]any) map[string]any {
		d := map[string]any{"scenario": s.String(), "scenario_index": scnIdx}
		for k, x := range extra {
			d[k] = x
		}
		return d
	}
	viol := func(what, msg string, extra map[string]any) {
		r.Violation("C10/"+v.name+"/"+what, msg, det(extra))
	}
	// keys
	var longs []kyber.Scalar
	var pubs []kyber.Point
	for i := 0; i < n; i++ {
		x := suite.Scalar().Pick(rng.Stream())
		longs = append(longs, x)
		pubs = append(pubs, suite.Point().Mul(x, nil))
	}
	dlong := suite.Scalar().Pick(rng.Stream())
	dpub := suite.Point().Mul(dlong, nil)
	secret := suite.Scalar().Pick(rng.Stream())
	if rng.IntN(8) == 0 {
		secret = suite.Scalar().Zero()
	}
	dealer, err := v.newDealer(suite, dlong, secret, pubs, uint32(t))
	if err != nil {
		viol("NewDealer/error-on-valid-parameters", "NewDealer refused valid parameters: "+err.Error(), nil)
		return
	}
	// a second dealer (other polynomial, same keys) as source of "other session" material
	dealer2, _ := v.newDealer(suite, dlong, suite.Scalar().Pick(rng.Stream()), pubs, uint32(t))
	sid := dealer.sid()
	verifiers := make([]c10verifier, n)
	for i := 0; i < n; i++ {
		verifiers[i], err = v.newVerifier(suite, longs[i], dpub, pubs)
		if err != nil {
			panic(err)
		}
	}
	nontriv := false
	// ---------------- phase 1: deals
	commitClass := make([]string, n) // by construction: which commitments the deal handed to verifier i carries
	goodDeal := make([]bool, n)      // by construction: verifier i received the dealer's own untouched deal
	codeResp := make([]any, n)       // response produced by the code
	codeApproved := make([]bool, n)
	for i := 0; i < n; i++ {
		f := s.faults[i]
		if f != "honest" {
			nontriv = true
		}
		switch f {
		case "bad-commit":
			commitClass[i] = "altered"
		case "other-session", "other-poly-same-sid", "other-group", "extended-commit":
			commitClass[i] = "other-polynomial"
		default:
			commitClass[i] = "dealer"
		}
		var enc any
		var e error
		mutated := func(mut func(d any)) {
			d := v.cloneDeal(suite, dealer.plaintext(i))
			mut(d)
			enc, e = dealer.sealStruct(i, d)
		}
		if pk := s.prelude[i]; pk != "" {
			// a deal that is refused with an error (no response) must leave nothing behind: the deal proper is then judged
			// exactly as without the prelude. If the code answers the prelude with a response, the prelude is this verifier's deal.
			nontriv = true
			base, tp := pk, -1
			if k := strings.Index(pk, "+t="); k >= 0 {
				base = pk[:k]
				tp, _ = strconv.Atoi(pk[k+3:])
			}
			var penc any
			var pe error
			switch base {
			case "wrong-index":
				j := (i + 1 + rng.IntN(n-1)) % n
				d := v.cloneDeal(suite, dealer.plaintext(j))
				if tp >= 0 {
					v.dealSetT(d, uint32(tp))
				}
				penc, pe = dealer.sealStruct(i, d)
			case "wrong-recipient":
				penc, pe = dealer.honestEnc((i + 1) % n)
			case "forged-sig", "cipher-flip", "dh-tampered":
				penc, pe = dealer.honestEnc(i)
				penc = dealer.tamperEnc(penc, map[string]string{"forged-sig": "sig", "cipher-flip": "cipher", "dh-tampered": "dh"}[base])
			case "garbage-plaintext":
				penc, pe = dealer.sealBytes(i, rng.Bytes(rng.IntN(200)))
			case "other-dealer-wrong-index":
				j := (i + 1 + rng.IntN(n-1)) % n
				d := v.cloneDeal(suite, dealer2.plaintext(j))
				if tp >= 0 {
					v.dealSetT(d, uint32(tp))
				}
				penc, pe = dealer.sealStruct(i, d)
			default:
				panic("unknown prelude " + pk)
			}
			if pe != nil {
				viol("harness/seal-failed/prelude-"+pk, "harness could not seal the prelude deal: "+pe.Error(), nil)
				return
			}
			var presp any
			okp := r.Guard("C10/"+v.name+"/ProcessEncryptedDeal/prelude-"+base, det(map[string]any{"verifier": i}), func() { presp, _ = verifiers[i].processDeal(penc) })
			r.Eval("deal/prelude-"+base, fmt.Sprintf("%s|%d|%d|%d|%s|%s", v.name, n, t, i, pk, f), true)
			if !okp {
				continue
			}
			if presp != nil {
				_, ap := v.respInfo(presp)
				if ap {
					viol("ProcessEncryptedDeal/approved-bad-deal/prelude-"+base, "verifier approved a deal the harness built to be invalid ("+pk+")", map[string]any{"verifier": i})
				}
				// answered with a complaint: legitimate; this verifier has now spent its one deal on the prelude
				r.NoteAdd("C10/prelude-answered-with-complaint/"+v.name+"/"+base, 1)
				codeResp[i] = presp
				codeApproved[i] = ap
				if base == "other-dealer-wrong-index" {
					commitClass[i] = "other-polynomial"
				}
				continue
			}
			r.NoteAdd("C10/prelude-refused-with-error/"+v.name+"/"+base, 1)
		}
		switch f {
		case "honest", "replayed":
			enc, e = dealer.honestEnc(i)
			goodDeal[i] = true
		case "bad-share":
			mutated(func(d any) { sh := v.dealShare(d); sh.V = suite.Scalar().Add(sh.V, suite.Scalar().One()) })
		case "bad-commit":
			mutated(func(d any) {
				c := v.dealCommit(d)
				k := rng.IntN(len(c))
				c[k] = suite.Point().Add(c[k], suite.Point().Base())
			})
		case "wrong-index":
			// a perfectly valid deal of another verifier
			j := (i + 1 + rng.IntN(n-1)) % n
			enc, e = dealer.sealStruct(i, v.cloneDeal(suite, dealer.plaintext(j)))
		case "t-zero":
			mutated(func(d any) { v.dealSetT(d, 0) })
		case "t-one":
			mutated(func(d any) { v.dealSetT(d, 1) })
		case "t-n+1":
			mutated(func(d any) { v.dealSetT(d, uint32(n+1)) })
		case "wrong-recipient":
			enc, e = dealer.honestEnc((i + 1) % n)
		case "forged-sig":
			enc, e = dealer.honestEnc(i)
			enc = dealer.tamperEnc(enc, "sig")
		case "cipher-flip":
			enc, e = dealer.honestEnc(i)
			enc = dealer.tamperEnc(enc, "cipher")
		case "dh-tampered":
			enc, e = dealer.honestEnc(i)
			enc = dealer.tamperEnc(enc, "dh")
		case "missing-share":
			b := v.dealBytes(dealer.plaintext(i))
			// drop bytes in the middle of the share field
			cut := len(b) / 3
			enc, e = dealer.sealBytes(i, append(append([]byte(nil), b[:cut]...), b[cut+5:]...))
		case "garbage-plaintext":
			enc, e = dealer.sealBytes(i, rng.Bytes(rng.IntN(200)))
		case "other-session":
			// a valid deal of another run (other polynomial) by the same dealer key
			enc, e = dealer2.honestEnc(i)
		case "other-poly-same-sid":
			// equivocating dealer: a self-consistent deal on another polynomial, labelled with this session's id
			d2 := v.cloneDeal(suite, dealer2.plaintext(i))
			copy(v.dealSid(d2), sid)
			enc, e = dealer.sealStruct(i, d2)
		case "other-group":
			// the same dealer key runs another sharing for a verifier group of the same size in which only ONE OTHER member
			// differs; the deal it made there for this verifier (same index, same key) is delivered here
			pubsB := append([]kyber.Point(nil), pubs...)
			pubsB[(i+1)%n] = suite.Point().Mul(suite.Scalar().Pick(rng.Stream()), nil)
			d3, e3 := v.newDealer(suite, dlong, suite.Scalar().Pick(rng.Stream()), pubsB, uint32(t))
			if e3 != nil {
				panic(e3)
			}
			enc, e = d3.honestEnc(i)
		case "extended-commit":
			// a share of p + c*x^t together with the honest commitments followed by c*G (threshold field unchanged)
			mutated(func(d any) {
				if dd, ok := d.(*vssp.Deal); ok {
					c := suite.Scalar().Pick(rng.Stream())
					x := suite.Scalar().SetInt64(int64(dd.SecShare.I) + 1)
					xt := suite.Scalar().One()
					for k := 0; k < t; k++ {
						xt = suite.Scalar().Mul(xt, x)
					}
					dd.SecShare.V = suite.Scalar().Add(dd.SecShare.V, suite.Scalar().Mul(c, xt))
					dd.Commitments = append(dd.Commitments, suite.Point().Mul(c, nil))
					return
				}
				cm := v.dealCommit(d) // Rabin: no such variant, alter one commitment instead
				k := rng.IntN(len(cm))
				cm[k] = suite.Point().Add(cm[k], suite.Point().Base())
			})
		default:
			panic("unknown fault " + f)
		}
		if e != nil {
			viol("harness/seal-failed/"+f, "harness could not seal the deal: "+e.Error(), nil)
			return
		}
		var resp any
		var perr error
		okp := r.Guard("C10/"+v.name+"/ProcessEncryptedDeal/"+f, det(map[string]any{"verifier": i}), func() { resp, perr = verifiers[i].processDeal(enc) })
		r.Eval("deal/"+f, fmt.Sprintf("%s|%d|%d|%d|%s", v.name, n, t, i, f), f != "honest")
		if !okp {
			continue
		}
		if resp != nil {
			_, ap := v.respInfo(resp)
			codeResp[i] = resp
			codeApproved[i] = ap
			if ap && !goodDeal[i] && f != "other-session" && f != "other-poly-same-sid" && f != "extended-commit" {
				viol("ProcessEncryptedDeal/approved-bad-deal/"+f, "verifier approved a deal the harness built to be invalid ("+f+")", map[string]any{"verifier": i})
			}
			if !ap && goodDeal[i] {
				viol("ProcessEncryptedDeal/complained-about-honest-deal", "verifier complained about an honest deal", map[string]any{"verifier": i})
			}
		} else if goodDeal[i] {
			viol("ProcessEncryptedDeal/error-on-honest-deal", fmt.Sprintf("verifier returned an error for an honest deal: %v", perr), map[string]any{"verifier": i})
		}
		if f == "replayed" {
			var r2 any
			var e2 error
			r.Guard("C10/"+v.name+"/ProcessEncryptedDeal/replay", det(map[string]any{"verifier": i}), func() { r2, e2 = verifiers[i].processDeal(enc) })
			r.Eval("deal/replay-second-delivery", fmt.Sprintf("%s|%d|%d|%d", v.name, n, t, i), true)
			if r2 != nil || e2 == nil {
				viol("ProcessEncryptedDeal/replayed-deal-answered-twice", "a replayed deal produced a second response", map[string]any{"verifier": i})
			}
		}
	}
	// "other-session" deals are valid deals of another polynomial: the verifier may approve them, but they are not good for this session
	// ---------------- phase 2: build the broadcast events
	var events []c10event
	for i := 0; i < n; i++ {
		b := s.behav[i]
		if b != "as-is" {
			nontriv = true
		}
		idx := uint32(i)
		mk := func(approved bool) any { return v.mkResponse(suite, sid, idx, approved, longs[i]) }
		asIs := codeResp[i]
		hasOwn := asIs != nil
		switch b {
		case "as-is":
			if hasOwn {
				events = append(events, c10event{kind: "resp", msg: asIs, idx: idx, approved: codeApproved[i], validResp: true, desc: "own"})
			}
		case "absent":
		case "flip":
			st := true
			if hasOwn {
				st = !codeApproved[i]
			}
			events = append(events, c10event{kind: "resp", msg: mk(st), idx: idx, approved: st, validResp: true, desc: "flipped"})
		case "forged-key":
			other := longs[(i+1)%n]
			events = append(events, c10event{kind: "resp", msg: v.mkResponse(suite, sid, idx, true, other), idx: idx, approved: true, validResp: false, desc: "signed-by-other-key"})
			if hasOwn {
				events = append(events, c10event{kind: "resp", msg: asIs, idx: idx, approved: codeApproved[i], validResp: true, desc: "own"})
			}
		case "wrong-sid":
			bad := append([]byte(nil), sid...)
			bad[0] ^= 1
			events = append(events, c10event{kind: "resp", msg: v.mkResponse(suite, bad, idx, true, longs[i]), idx: idx, approved: true, validResp: false, desc: "wrong-sid"})
		case "duplicate":
			if hasOwn {
				events = append(events, c10event{kind: "resp", msg: asIs, idx: idx, approved: codeApproved[i], validResp: true, desc: "own"})
				events = append(events, c10event{kind: "resp", msg: asIs, idx: idx, approved: codeApproved[i], validResp: true, desc: "own-duplicate"})
			}
		case "equivocate":
			events = append(events, c10event{kind: "resp", msg: mk(true), idx: idx, approved: true, validResp: true, desc: "equivocate-approve"})
			events = append(events, c10event{kind: "resp", msg: mk(false), idx: idx, approved: false, validResp: true, desc: "equivocate-complain"})
		case "out-of-range-index":
			events = append(events, c10event{kind: "resp", msg: v.mkResponse(suite, sid, uint32(n+rng.IntN(3)), true, longs[i]), idx: uint32(n), approved: true, validResp: false, desc: "index>=n"})
			if hasOwn {
				events = append(events, c10event{kind: "resp", msg: asIs, idx: idx, approved: codeApproved[i], validResp: true, desc: "own"})
			}
		}
	}
	nResp := len(events)
	// justifications
	for i := 0; i < n; i++ {
		jk, ok := s.justs[i]
		if !ok || jk == "none" {
			continue
		}
		nontriv = true
		idx := uint32(i)
		mkOne := func(jk string, ord int) {
			var d any
			kind := jk
			switch jk {
			case "correct", "unsolicited-correct":
				d = v.cloneDeal(suite, dealer.plaintext(i))
				kind = "correct"
			case "wrong-share", "unsolicited-wrong":
				d = v.cloneDeal(suite, dealer.plaintext(i))
				sh := v.dealShare(d)
				sh.V = suite.Scalar().Add(sh.V, suite.Scalar().One())
				kind = "wrong-share"
			case "other-index":
				d = v.cloneDeal(suite, dealer.plaintext((i+1)%n))
			case "other-poly":
				// self-consistent deal for index i on another polynomial, carrying this session's id
				d = v.cloneDeal(suite, dealer2.plaintext(i))
				copy(v.dealSid(d), sid)
			}
			events = append(events, c10event{kind: "just", msg: v.mkJust(suite, sid, idx, d, dlong), idx: idx, justKind: kind, desc: jk, ord: ord})
		}
		switch jk {
		case "wrong-then-correct":
			mkOne("wrong-share", 1)
			mkOne("correct", 2)
		case "correct-then-wrong":
			mkOne("correct", 1)
			mkOne("wrong-share", 2)
		case "other-index-then-correct":
			mkOne("other-index", 1)
			mkOne("correct", 2)
		default:
			mkOne(jk, 0)
		}
	}
	// order: responses permuted, then justifications permuted; sometimes fully mixed
	respPart := events[:nResp]
	justPart := events[nResp:]
	perm := func(xs []c10event) []c10event {
		out := make([]c10event, len(xs))
		for i, p := range rng.Perm(len(xs)) {
			out[i] = xs[p]
		}
		return out
	}
	// ---------------- phase 3: deliver to every observer (its own copies, its own order)
	for obs := 0; obs < n; obs++ {
		var seq []c10event
		mixed := rng.IntN(4) == 0
		if mixed {
			seq = perm(events)
		} else {
			seq = append(perm(respPart), perm(justPart)...)
		}
		// two-step justification sequences keep their relative order
		for a := range seq {
			if seq[a].kind == "just" && seq[a].ord == 2 {
				for b := a + 1; b < len(seq); b++ {
					if seq[b].kind == "just" && seq[b].ord == 1 && seq[b].idx == seq[a].idx {
						seq[a], seq[b] = seq[b], seq[a]
					}
				}
			}
		}
		// timeout position: 0 = before everything, 1 = after responses, 2 = at the end, 3 = in the middle of the justifications
		tpos := -1
		switch s.tpos {
		case 0:
			tpos = 0
		case 1:
			tpos = nResp
		case 2:
			tpos = len(seq)
		case 3:
			tpos = nResp + len(justPart)/2
		}
		if tpos > len(seq) {
			tpos = len(seq)
		}
		vv := verifiers[obs]
		led := &c10ledger{status: map[uint32]string{}}
		led.hasDeal = codeResp[obs] != nil
		if led.hasDeal {
			if codeApproved[obs] {
				led.status[uint32(obs)] = "approved"
			} else {
				led.status[uint32(obs)] = "complaint"
			}
		}
		var hist []string
		// an observer that was handed a deal on other commitments (altered / another polynomial) follows a different
		// session: events are still delivered to it (nothing may panic) but the shared-deal ledger does not apply to it
		judge := commitClass[obs] == "dealer"
		check := func(stage string) {
			var cert bool
			if !r.Guard("C10/"+v.name+"/DealCertified", det(map[string]any{"observer": obs, "history": hist}), func() { cert = vv.certified() }) {
				return
			}
			r.Eval("certified-check", fmt.Sprintf("%s|%d|%d|%d|%d|%s", v.name, scnIdx, obs, len(hist), led.count(), stage), nontriv)
			if cert && judge {
				led.certSeen = true
				if led.count() < t {
					viol("DealCertified/certified-with-fewer-than-t-approvals-or-correct-justifications", fmt.Sprintf("observer reports the deal certified although only %d < t=%d verifiers approved or had their complaint correctly justified", led.count(), t), map[string]any{"observer": obs, "history": hist, "ledger": led.status})
				}
				if led.everBad {
					viol("DealCertified/certified-after-invalid-justification", "observer reports the deal certified although the dealer produced an invalid justification earlier", map[string]any{"observer": obs, "history": hist, "ledger": led.status})
				}
			}
		}
		deliver := func(ev c10event) {
			switch ev.kind {
			case "resp":
				if int(ev.idx) == obs && ev.desc == "own" {
					return // the observer already holds its own response
				}
				msg := v.cloneResp(ev.msg)
				var e error
				if !r.Guard("C10/"+v.name+"/ProcessResponse", det(map[string]any{"observer": obs, "event": ev.desc, "history": hist}), func() { e = vv.processResponse(msg) }) {
					return
				}
				hist = append(hist, fmt.Sprintf("resp[%d %s approved=%v]->%v", ev.idx, ev.desc, ev.approved, e != nil))
				r.Eval("response/"+ev.desc, fmt.Sprintf("%s|%d|%d|%d", v.name, scnIdx, obs, len(hist)), nontriv)
				_, already := led.status[ev.idx]
				if e == nil && judge {
					if ev.desc == "own" && codeResp[obs] != nil && int(ev.idx) < n && commitClass[obs] == "dealer" && commitClass[ev.idx] != "dealer" {
						viol("ProcessResponse/approval-for-other-commitments-counted", "an observer holding the dealer's published commitments counted the response of a verifier whose deal carries other commitments (the response refers to another deal)", map[string]any{"observer": obs, "from": ev.idx, "observer_commitments": commitClass[obs], "sender_commitments": commitClass[ev.idx], "history": hist})
					}
					if !ev.validResp {
						viol("ProcessResponse/accepted-forged-response/"+ev.desc, "observer accepted a response that is not validly signed by the verifier it names for this session", map[string]any{"observer": obs, "history": hist})
					}
					if already {
						viol("ProcessResponse/accepted-second-response-from-same-verifier", "observer accepted a second response from a verifier that already has one recorded", map[string]any{"observer": obs, "history": hist})
					}
					if ev.validResp && !already {
						if ev.approved {
							led.status[ev.idx] = "approved"
						} else {
							led.status[ev.idx] = "complaint"
						}
					}
				}
			case "just":
				msg := v.cloneJust(suite, ev.msg)
				var e error
				if !r.Guard("C10/"+v.name+"/ProcessJustification/"+ev.justKind, det(map[string]any{"observer": obs, "event": ev.desc, "history": hist}), func() { e = vv.processJust(msg) }) {
					return
				}
				st := led.status[ev.idx]
				hist = append(hist, fmt.Sprintf("just[%d %s]->%v (ledger status before: %q)", ev.idx, ev.desc, e != nil, st))
				r.Eval("justification/"+ev.desc, fmt.Sprintf("%s|%d|%d|%d", v.name, scnIdx, obs, len(hist)), nontriv)
				if !led.hasDeal || !judge {
					return
				}
				if st == "complaint" {
					if ev.justKind == "correct" {
						if e != nil && !goodDeal[obs] {
							// an observer that was itself handed a bad deal (other threshold, other commitments) may legitimately distrust the dealer
							led.everBad = true
						} else if e != nil {
							viol("ProcessJustification/correct-justification-rejected", "a correct justification (the complainer's own share on the committed polynomial) was rejected: "+e.Error(), map[string]any{"observer": obs, "history": hist})
						} else {
							led.status[ev.idx] = "justified"
						}
					} else {
						led.everBad = true
						if e == nil {
							viol("ProcessJustification/incorrect-justification-accepted/"+ev.justKind, "a justification that does not reveal the complainer's share on the committed polynomial ("+ev.justKind+") cleared the complaint", map[string]any{"observer": obs, "history": hist})
						}
					}
				}
			case "timeout":
				r.Guard("C10/"+v.name+"/SetTimeout", det(map[string]any{"observer": obs, "history": hist}), func() { vv.setTimeout() })
				hist = append(hist, "timeout")
				led.timeout = true
				if v.timeoutAddsComplaints && led.hasDeal {
					for k := 0; k < n; k++ {
						if _, ok := led.status[uint32(k)]; !ok {
							led.status[uint32(k)] = "complaint"
						}
					}
				}
			}
			check(ev.kind)
		}
		check("start")
		for k, ev := range seq {
			if k == tpos {
				deliver(c10event{kind: "timeout"})
			}
			deliver(ev)
		}
		if tpos == len(seq) {
			deliver(c10event{kind: "timeout"})
		}
		// honest scenario: completeness
		if !nontriv && s.tpos != 0 { // a timeout before any response is not a protocol-following run
			if !vv.certified() {
				viol("honest-run/not-certified", "dealer and verifiers followed the protocol and all responses were delivered, yet the deal is not certified", map[string]any{"observer": obs, "history": hist})
			}
		}
		// correct justifications clear complaints (positive direction): all responded (or timed out), every complaint correctly justified, >= t approvals, no bad justification
		if led.hasDeal && !led.everBad && goodDeal[obs] {
			complete, clean := true, true
			for k := 0; k < n; k++ {
				st, ok := led.status[uint32(k)]
				if !ok {
					complete = false
				}
				if st == "complaint" {
					clean = false
				}
			}
			if complete && clean && led.count() >= t && c10allSameSession(s) {
				r.Eval("positive/certified-expected", fmt.Sprintf("%s|%d|%d", v.name, scnIdx, obs), nontriv)
				if !vv.certified() {
					viol("DealCertified/not-certified-although-all-complaints-correctly-justified", "every verifier answered, every complaint was correctly justified, at least t approvals and no invalid justification, yet the deal is not certified", map[string]any{"observer": obs, "history": hist, "ledger": led.status})
				}
			}
		}
		if obs == 0 && scnIdx%97 == 0 {
			r.SampleClass(fmt.Sprintf("hist:%s:%d", v.name, scnIdx%5), map[string]any{"scenario": s.String(), "observer": obs, "history": hist, "ledger": led.status})
		}
		r.NoteAdd("ledgers."+v.name+"."+c10ledgerClass(led, n), 1)
	}
	// ---------------- phase 4: recoverability
	var good []any
	var goodIdx []int
	for i := 0; i < n; i++ {
		if !goodDeal[i] || !codeApproved[i] {
			continue
		}
		var d any
		r.Guard("C10/"+v.name+"/Deal", det(map[string]any{"verifier": i}), func() { d = verifiers[i].deal() })
		if d != nil {
			good = append(good, d)
			goodIdx = append(goodIdx, i)
		}
	}
	if len(good) >= t {
		subsets := gen.Subsets(len(good), t)
		if len(subsets) > 6 {
			subsets = subsets[:6]
		}
		for _, sub := range subsets {
			var ds []any
			for _, k := range rng.Perm(len(sub)) {
				ds = append(ds, good[sub[k]])
			}
			var rec kyber.Scalar
			var e error
			if !r.Guard("C10/"+v.name+"/RecoverSecret", det(map[string]any{"subset": sub}), func() { rec, e = v.recover(suite, ds, uint32(n), uint32(t)) }) {
				continue
			}
			r.Eval("recover", fmt.Sprintf("%s|%d|%v", v.name, scnIdx, sub), nontriv)
			if e != nil || !rec.Equal(secret) {
				viol("RecoverSecret/wrong-secret-from-certified-deals", fmt.Sprintf("t certified deals of honest verifiers do not reconstruct the dealer's secret (err=%v)", e), map[string]any{"subset": sub, "verifiers": goodIdx})
			}
		}
	}
	// dealer view in the honest scenario: certified, SecretCommit = secret*G
	if !nontriv {
		for i := 0; i < n; i++ {
			if codeResp[i] != nil {
				_, _ = dealer.processResponse(v.cloneResp(codeResp[i]))
			}
		}
		r.Eval("dealer/honest", fmt.Sprintf("%s|%d|%d", v.name, n, t), false)
		if !dealer.certified() {
			viol("honest-run/dealer-not-certified", "dealer does not consider its own honest deal certified after all approvals", nil)
		} else {
			sc := dealer.secretCommit()
			if sc == nil || !sc.Equal(suite.Point().Mul(secret, nil)) {
				viol("honest-run/SecretCommit-mismatch", "SecretCommit() is not secret*G", nil)
			}
			if cs := dealer.commits(); len(cs) != t || (v.name == "pedersen" && !cs[0].Equal(suite.Point().Mul(secret, nil))) {
				viol("honest-run/Commits-mismatch", "Commits() has the wrong length or constant term", nil)
			}
		}
	}
	r.NoteAdd("scenarios."+v.name, 1)
}

// c10allSameSession: no verifier was handed material of another session (their responses carry another sid and are legitimately rejected).
func c10allSameSession(s *c10scn) bool {
	for _, f := range s.faults {
		if f == "other-session" || f == "bad-commit" || f == "other-poly-same-sid" || f == "other-group" || f == "extended-commit" {
			return false
		}
	}
	return true
}

func c10ledgerClass(l *c10ledger, n int) string {
	a, c, j := 0, 0, 0
	for _, s := range l.status {
		switch s {
		case "approved":
			a++
		case "complaint":
			c++
		case "justified":
			j++
		}
	}
	return strings.ReplaceAll(fmt.Sprintf("a%d-c%d-j%d-absent%d-bad%v-timeout%v-cert%v", a, c, j, n-len(l.status), l.everBad, l.timeout, l.certSeen), " ", "")
}
