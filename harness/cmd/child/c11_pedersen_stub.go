package main

import "verif/internal/mon"

// stub: replaced by the Pedersen builder (delete this file when c11_direct.go / c11_proto.go exist)
func c11Direct(r *mon.R) { r.SetRule("stub") }
func c11Proto(r *mon.R)  { r.SetRule("stub") }
