package main

// C11, Rabin DKG part: scenario description, fault atoms, deep-copy helpers.
//
// A scenario is (n, t, set of Byzantine positions, list of fault atoms, delivery
// schedule). Honest participants are real dkg/rabin DistKeyGenerators; a
// Byzantine participant is the harness holding that participant's long-term
// key (see c11_rabin_run.go). Everything is derived from (seed, scenario index).

import (
	"fmt"
	"sort"
	"strings"

	"go.dedis.ch/kyber/v4"
	"go.dedis.ch/kyber/v4/group/edwards25519"
	"go.dedis.ch/kyber/v4/share"
	dkgr "go.dedis.ch/kyber/v4/share/dkg/rabin"
	vssr "go.dedis.ch/kyber/v4/share/vss/rabin"
)

type c11rSuite = *edwards25519.SuiteEd25519

// c11rAtom is one deviation of one Byzantine participant. Everything an atom
// does not mention is done the way an honest participant would do it.
//
//	Kind  "absent" | "deal/<k>" | "resp/<k>" | "just/<k>" | "sc/<k>" | "cc/<k>" | "rc/<k>"
//	Who   position of the deviating participant
//	Tgt   deal/*: honest recipient; resp/*, cc/*: dealer concerned; just/*: complainer concerned;
//	      -1 = every applicable target; -2 = the targets in bit mask Arg
//	Arg   secondary parameter (variant selector / bit mask)
type c11rAtom struct {
	Kind string
	Who  int
	Tgt  int
	Arg  int
}

func (a c11rAtom) String() string {
	s := fmt.Sprintf("%s@%d", a.Kind, a.Who)
	switch {
	case a.Tgt >= 0:
		s += fmt.Sprintf(">%d", a.Tgt)
	case a.Tgt == -2:
		s += fmt.Sprintf(">mask%b", a.Arg)
	case a.Tgt == -1 && (strings.HasPrefix(a.Kind, "deal/") || strings.HasPrefix(a.Kind, "resp/") || strings.HasPrefix(a.Kind, "just/")):
		s += ">all"
	}
	if a.Arg != 0 && a.Tgt != -2 {
		s += fmt.Sprintf("#%d", a.Arg)
	}
	return s
}

func (a c11rAtom) hits(target int) bool {
	switch {
	case a.Tgt == -1:
		return true
	case a.Tgt == -2:
		return a.Arg&(1<<uint(target)) != 0
	}
	return a.Tgt == target
}

// c11rScn is one scenario.
type c11rScn struct {
	N, T  int
	Byz   []int
	Atoms []c11rAtom
	Perm  int  // 0: every recipient sees the broadcasts of a phase in issue order; k>0: k-th seeded per-recipient permutation
	Dup   bool // every delivery is made twice
	Idx   int  // position in the scenario list: all randomness of the run derives from (seed, Idx)
	Class string
}

func (s *c11rScn) String() string {
	var as []string
	for _, a := range s.Atoms {
		as = append(as, a.String())
	}
	return fmt.Sprintf("n=%d t=%d byz=%v faults=[%s] perm=%d dup=%v", s.N, s.T, s.Byz, strings.Join(as, " "), s.Perm, s.Dup)
}

// faultKey identifies the fault assignment without the schedule.
func (s *c11rScn) faultKey() string {
	var as []string
	for _, a := range s.Atoms {
		as = append(as, a.String())
	}
	return fmt.Sprintf("n=%d t=%d byz=%v [%s]", s.N, s.T, s.Byz, strings.Join(as, " "))
}

// signature is the sorted set of distinct fault kinds ('/' replaced), used as the
// cause part of violation keys that the ledger cannot attribute more precisely.
func (s *c11rScn) signature() string {
	if len(s.Atoms) == 0 {
		if s.Perm != 0 || s.Dup {
			return "no-fault-reordered-or-duplicated-delivery"
		}
		return "no-fault"
	}
	set := map[string]bool{}
	for _, a := range s.Atoms {
		set[strings.ReplaceAll(a.Kind, "/", "-")] = true
	}
	var ks []string
	for k := range set {
		ks = append(ks, k)
	}
	sort.Strings(ks)
	return strings.Join(ks, "+")
}

func (s *c11rScn) clone() *c11rScn {
	c := *s
	c.Byz = append([]int(nil), s.Byz...)
	c.Atoms = append([]c11rAtom(nil), s.Atoms...)
	return &c
}

func (s *c11rScn) nontrivial() bool { return len(s.Atoms) > 0 || s.Perm != 0 || s.Dup }

// atom returns the first atom of the given kind prefix of participant who that hits target.
func (s *c11rScn) atom(who int, prefix string, target int) (c11rAtom, bool) {
	for _, a := range s.Atoms {
		if a.Who == who && strings.HasPrefix(a.Kind, prefix) && a.hits(target) {
			return a, true
		}
	}
	return c11rAtom{}, false
}

// atomsOf returns all atoms of a kind prefix of participant who.
func (s *c11rScn) atomsOf(who int, prefix string) []c11rAtom {
	var out []c11rAtom
	for _, a := range s.Atoms {
		if a.Who == who && strings.HasPrefix(a.Kind, prefix) {
			out = append(out, a)
		}
	}
	return out
}

func (s *c11rScn) has(who int, kind string) bool {
	for _, a := range s.Atoms {
		if a.Who == who && a.Kind == kind {
			return true
		}
	}
	return false
}

// ---------------------------------------------------------------- deep copies (per recipient)

func c11rB(b []byte) []byte { return append([]byte(nil), b...) }

func c11rPt(s c11rSuite, p kyber.Point) kyber.Point {
	if p == nil {
		return nil
	}
	b, err := p.MarshalBinary()
	if err != nil {
		panic("harness: point encode: " + err.Error())
	}
	q := s.Point()
	if err := q.UnmarshalBinary(b); err != nil {
		panic("harness: point decode: " + err.Error())
	}
	return q
}

func c11rPts(s c11rSuite, ps []kyber.Point) []kyber.Point {
	if ps == nil {
		return nil
	}
	out := make([]kyber.Point, len(ps))
	for i, p := range ps {
		out[i] = c11rPt(s, p)
	}
	return out
}

func c11rSc(s c11rSuite, x kyber.Scalar) kyber.Scalar {
	if x == nil {
		return nil
	}
	b, err := x.MarshalBinary()
	if err != nil {
		panic("harness: scalar encode: " + err.Error())
	}
	y := s.Scalar()
	if err := y.UnmarshalBinary(b); err != nil {
		panic("harness: scalar decode: " + err.Error())
	}
	return y
}

func c11rShare(s c11rSuite, p *share.PriShare) *share.PriShare {
	if p == nil {
		return nil
	}
	return &share.PriShare{I: p.I, V: c11rSc(s, p.V)}
}

func c11rCopyVDeal(s c11rSuite, d *vssr.Deal) *vssr.Deal {
	if d == nil {
		return nil
	}
	return &vssr.Deal{SessionID: c11rB(d.SessionID), SecShare: c11rShare(s, d.SecShare), RndShare: c11rShare(s, d.RndShare),
		T: d.T, Commitments: c11rPts(s, d.Commitments)}
}

func c11rCopyEnc(s c11rSuite, e *vssr.EncryptedDeal) *vssr.EncryptedDeal {
	if e == nil {
		return nil
	}
	return &vssr.EncryptedDeal{DHKey: c11rPt(s, e.DHKey), Signature: c11rB(e.Signature), Cipher: c11rB(e.Cipher)}
}

func c11rCopyDeal(s c11rSuite, d *dkgr.Deal) *dkgr.Deal {
	return &dkgr.Deal{Index: d.Index, Deal: c11rCopyEnc(s, d.Deal)}
}

func c11rCopyVResp(r *vssr.Response) *vssr.Response {
	if r == nil {
		return nil
	}
	return &vssr.Response{SessionID: c11rB(r.SessionID), Index: r.Index, Approved: r.Approved, Signature: c11rB(r.Signature)}
}

func c11rCopyResp(r *dkgr.Response) *dkgr.Response {
	return &dkgr.Response{Index: r.Index, Response: c11rCopyVResp(r.Response)}
}

func c11rCopyJust(s c11rSuite, j *dkgr.Justification) *dkgr.Justification {
	in := j.Justification
	return &dkgr.Justification{Index: j.Index, Justification: &vssr.Justification{SessionID: c11rB(in.SessionID), Index: in.Index,
		Deal: c11rCopyVDeal(s, in.Deal), Signature: c11rB(in.Signature)}}
}

func c11rCopySC(s c11rSuite, sc *dkgr.SecretCommits) *dkgr.SecretCommits {
	return &dkgr.SecretCommits{Index: sc.Index, Commitments: c11rPts(s, sc.Commitments), SessionID: c11rB(sc.SessionID), Signature: c11rB(sc.Signature)}
}

func c11rCopyCC(s c11rSuite, cc *dkgr.ComplaintCommits) *dkgr.ComplaintCommits {
	return &dkgr.ComplaintCommits{Index: cc.Index, DealerIndex: cc.DealerIndex, Deal: c11rCopyVDeal(s, cc.Deal), Signature: c11rB(cc.Signature)}
}

func c11rCopyRC(s c11rSuite, rc *dkgr.ReconstructCommits) *dkgr.ReconstructCommits {
	return &dkgr.ReconstructCommits{SessionID: c11rB(rc.SessionID), Index: rc.Index, DealerIndex: rc.DealerIndex,
		Share: c11rShare(s, rc.Share), Signature: c11rB(rc.Signature)}
}

func c11rIntsKey(xs []int) string {
	var b strings.Builder
	for i, x := range xs {
		if i > 0 {
			b.WriteByte(',')
		}
		fmt.Fprintf(&b, "%d", x)
	}
	return "{" + b.String() + "}"
}

func c11rContains(xs []int, v int) bool {
	for _, x := range xs {
		if x == v {
			return true
		}
	}
	return false
}
