package main

import (
	"bytes"
	"crypto/sha256"
	"crypto/sha512"
	"fmt"
	"hash"
	"math/big"
	"runtime"
	"strings"

	"go.dedis.ch/kyber/v4"
	"go.dedis.ch/kyber/v4/group/edwards25519"
	"go.dedis.ch/kyber/v4/group/edwards25519vartime"
	"go.dedis.ch/kyber/v4/group/p256"
	"go.dedis.ch/kyber/v4/pairing/bls12381/kilic"
	"go.dedis.ch/kyber/v4/pairing/bn254"
	"go.dedis.ch/kyber/v4/pairing/bn256"
	"go.dedis.ch/kyber/v4/sign/anon"

	"verif/internal/gen"
	"verif/internal/groups"
	"verif/internal/mon"
	"verif/internal/ref"
)

// c17HT is one hash-to-group entry point.
type c17HT struct {
	name      string // evidence name
	op        string // "Hash" | "HashG1"
	g         *groups.G
	hasDST    bool
	defaultOK bool             // a variant without explicit DST exists (dst == nil)
	family    string           // "bls.G1" / "bls.G2" for the cross-back-end comparison, "ed" for the reference differential
	xmd       func() hash.Hash // hash of expand_message_xmd when the function claims an RFC 9380 XMD suite
	fresh     func(dst []byte) kyber.Point
	hash      func(recv kyber.Point, msg, dst []byte) kyber.Point
}

type c17EdHasher interface {
	Hash(m []byte, dst string) kyber.Point
}
type c17Hasher2 interface {
	Hash2(msg, dst []byte) kyber.Point
}

func c17HashTargets(gs []*groups.G) []*c17HT {
	var out []*c17HT
	for _, g := range gs {
		g := g
		plain := func(dst []byte) kyber.Point { return g.Point() }
		switch {
		case g.Name == "ed25519" || g.Name == "ed25519-vt":
			if _, ok := g.Point().(c17EdHasher); !ok {
				continue
			}
			out = append(out, &c17HT{name: g.Name, op: "Hash", g: g, hasDST: true, family: "ed", xmd: sha512.New, fresh: plain,
				hash: func(recv kyber.Point, msg, dst []byte) kyber.Point { return recv.(c17EdHasher).Hash(msg, string(dst)) }})
		case g.Name == "bn256.G1":
			out = append(out, &c17HT{name: "bn256.G1/Hash", op: "Hash", g: g, defaultOK: true, fresh: plain,
				hash: func(recv kyber.Point, msg, dst []byte) kyber.Point { return recv.(groups.Hasher).Hash(msg) }})
			out = append(out, &c17HT{name: "bn256.G1/HashG1", op: "HashG1", g: g, hasDST: true, fresh: plain,
				hash: func(recv kyber.Point, msg, dst []byte) kyber.Point { return bn256.HashG1(msg, dst) }})
		case g.Name == "bn254.G1":
			out = append(out, &c17HT{name: "bn254.G1", op: "Hash", g: g, hasDST: true, defaultOK: true,
				fresh: func(dst []byte) kyber.Point {
					if dst == nil {
						return g.Point()
					}
					s := bn254.NewSuite()
					s.SetDomainG1(dst)
					return s.G1().Point()
				},
				hash: func(recv kyber.Point, msg, dst []byte) kyber.Point { return recv.(groups.Hasher).Hash(msg) }})
		case strings.HasPrefix(g.Name, "kilic.G1") || strings.HasPrefix(g.Name, "kilic.G2"):
			kind := g.Kind
			out = append(out, &c17HT{name: g.Name, op: "Hash", g: g, hasDST: true, defaultOK: true, family: "bls." + kind, xmd: sha256.New,
				fresh: func(dst []byte) kyber.Point {
					if dst == nil {
						return g.Point()
					}
					// two routes to a group with a custom tag: the group constructor, and a suite configured with DIFFERENT
					// tags for G1 and G2 (each group must use its own)
					other := append([]byte("C17-OTHER-GROUP-TAG-"), dst...)
					if len(dst)%2 == 0 {
						if kind == "G1" {
							return kilic.NewBLS12381SuiteWithDST(append([]byte(nil), dst...), other).G1().Point()
						}
						return kilic.NewBLS12381SuiteWithDST(other, append([]byte(nil), dst...)).G2().Point()
					}
					if kind == "G1" {
						return kilic.NewGroupG1(dst...).Point()
					}
					return kilic.NewGroupG2(dst...).Point()
				},
				hash: func(recv kyber.Point, msg, dst []byte) kyber.Point { return recv.(groups.Hasher).Hash(msg) }})
		case (strings.HasPrefix(g.Name, "circl.G") || strings.HasPrefix(g.Name, "gnark.G")) && g.Kind != "GT":
			if _, ok := g.Point().(c17Hasher2); !ok {
				continue
			}
			out = append(out, &c17HT{name: g.Name, op: "Hash", g: g, hasDST: true, defaultOK: true, family: "bls." + g.Kind, xmd: sha256.New, fresh: plain,
				hash: func(recv kyber.Point, msg, dst []byte) kyber.Point {
					if dst == nil {
						return recv.(groups.Hasher).Hash(msg)
					}
					return recv.(c17Hasher2).Hash2(msg, dst)
				}})
		default:
			// any other group that advertises Hash([]byte) through the registry probe
			if g.CanHash {
				out = append(out, &c17HT{name: g.Name, op: "Hash", g: g, defaultOK: true, fresh: plain,
					hash: func(recv kyber.Point, msg, dst []byte) kyber.Point { return recv.(groups.Hasher).Hash(msg) }})
			}
		}
	}
	return out
}

var c17EdgeLens = []int{0, 1, 2, 3, 31, 32, 33, 47, 48, 55, 56, 63, 64, 65, 111, 112, 119, 120, 127, 128, 129, 191, 192, 255, 256, 257, 299, 300}

type c17Msg struct {
	tag string
	b   []byte
}

// c17Messages: base messages over the length range plus related messages (prefix/suffix/bit-flip/truncation).
func c17Messages(rng *gen.Rng, round int, thorough bool) []c17Msg {
	var out []c17Msg
	seen := map[string]bool{}
	add := func(tag string, b []byte) {
		if !seen[string(b)] {
			seen[string(b)] = true
			out = append(out, c17Msg{tag, b})
		}
	}
	var lens []int
	for i, l := range c17EdgeLens {
		if i%2 == round%2 {
			lens = append(lens, l)
		}
	}
	if thorough {
		for l := round % 24; l <= 300; l += 24 {
			lens = append(lens, l)
		}
	} else {
		for i := 0; i < 5; i++ {
			lens = append(lens, rng.IntN(301))
		}
	}
	for _, l := range lens {
		add(fmt.Sprintf("len%d", l), rng.Bytes(l))
	}
	for i := 0; i < 3; i++ {
		m := rng.Bytes(1 + rng.IntN(120))
		add("base", m)
		add("base||00", append(append([]byte{}, m...), 0))
		add("00||base", append([]byte{0}, m...))
		add("base-last-bit-flipped", gen.FlipBit(m, 8*(len(m)-1)))
		add("base-truncated", m[:len(m)-1])
		add("base||base", append(append([]byte{}, m...), m...))
	}
	add("zero32", make([]byte, 32))
	add("zero33", make([]byte, 33))
	add("ff32", bytes.Repeat([]byte{0xff}, 32))
	return out
}

func c17Dsts(ht *c17HT, rng *gen.Rng, round int) [][]byte {
	var out [][]byte
	if ht.defaultOK {
		out = append(out, nil)
	}
	if ht.hasDST {
		edge := []int{1, 2, 16, 43, 64, 128, 254, 255}
		out = append(out, c17Tag(rng, edge[round%len(edge)]))
		out = append(out, c17Tag(rng, 1+rng.IntN(255)))
	}
	return out
}

func c17Tag(rng *gen.Rng, n int) []byte {
	const base = "QUUX-V01-CS02-with-C17-monitor-"
	b := rng.Bytes(n)
	if n > len(base)+4 && rng.IntN(2) == 0 {
		copy(b, base)
	}
	return b
}

func c17DstName(dst []byte) string {
	if dst == nil {
		return "default-dst"
	}
	return fmt.Sprintf("dst%d:%x", len(dst), c17Head(dst, 12))
}

func (c *c17Ctx) hashCase(ht *c17HT, msg c17Msg, dst []byte, class, desc string, w int) {
	r := c.r
	g := ht.g
	det := map[string]any{"target": ht.name, "group": g.Name, "op": ht.op, "msg": mon.Hex(msg.b), "msg_len": len(msg.b), "msg_kind": msg.tag, "dst": mon.Hex(dst), "dst_len": len(dst), "dst_default": dst == nil}
	r.Journal(w, "C17 %s %s msg=%x dst=%x", ht.op, ht.name, c17Head(msg.b, 300), dst)
	r.Guard("C17/"+g.Name+"/"+ht.op, det, func() {
		recv := ht.fresh(dst)
		p := ht.hash(recv, append([]byte{}, msg.b...), dst)
		enc, member := c.judge(g, func() kyber.Point { return ht.fresh(dst) }, ht.op, class, desc, p, det)
		c.count("hash|"+ht.name, 1)
		if enc == nil {
			return
		}
		r.SampleClass(ht.op+"/"+ht.name, map[string]any{"op": ht.op, "target": ht.name, "msg": mon.Hex(msg.b), "dst": mon.Hex(dst), "point": mon.Hex(enc)})
		if !bytes.Equal(groups.Enc(recv), enc) {
			r.NoteAdd("hash-result-not-stored-in-receiver."+ht.name, 1)
		}
		// again, receiver holding another point
		recv2 := ht.fresh(dst)
		if g.CanBase {
			recv2.Mul(g.ScalarFromBig(big.NewInt(5)), ht.fresh(dst).Base())
		}
		p2 := ht.hash(recv2, append([]byte{}, msg.b...), dst)
		enc2 := groups.Enc(p2)
		r.Eval(ht.op+"/deterministic/"+class, desc, true)
		if !bytes.Equal(enc, enc2) {
			r.Violation("C17/"+g.Name+"/"+ht.op+"/nondeterministic", "hashing the same (msg, DST) twice gives different points (second receiver held 5*Base)",
				c17Merge(det, map[string]any{"first": mon.Hex(enc), "second": mon.Hex(enc2)}))
		}
		if member {
			clash, compared := c.distinct("hash|"+ht.name+"|"+c17DstKey(dst), enc, mon.Hex(msg.b))
			if compared {
				r.Eval(ht.op+"/distinct-messages/"+class, desc, true)
			}
			if clash != "" {
				r.Violation("C17/"+g.Name+"/"+ht.op+"/collision", "two different messages hash to the same point under the same DST",
					c17Merge(det, map[string]any{"point": mon.Hex(enc), "other_msg": clash}))
			}
		}
	})
}

func c17DstKey(dst []byte) string {
	if dst == nil {
		return "<default>"
	}
	return mon.Hex(dst)
}

func (c *c17Ctx) hashJob(w int, ht *c17HT, round int) {
	r := c.r
	rng := gen.New(r.Seed, "C17hash/"+ht.name, round)
	msgs := c17Messages(rng, round, r.Thorough())
	for _, dst := range c17Dsts(ht, rng, round) {
		class := "explicit-dst"
		if dst == nil {
			class = "default-dst"
		}
		for _, m := range msgs {
			c.hashCase(ht, m, dst, class, fmt.Sprintf("%s|%s|%s|%x|r%d", ht.name, ht.op, c17DstName(dst), m.b, round), w)
		}
	}
	if !ht.hasDST {
		return
	}
	// DST lengths outside 1..255: RFC 9380 forbids the empty tag and prescribes hashing of oversize tags.
	// A deliberate refusal is recorded; a runtime error (nil dereference, slice bounds) is a crash, not a refusal.
	for _, n := range []int{0, 256, 257, 300} {
		cls := "dst-len-0"
		if n > 0 {
			cls = "dst-oversize"
		}
		dst := c17Tag(rng, n)
		if n == 0 {
			dst = []byte{}
		}
		for k := 0; k < 2; k++ {
			m := c17Msg{"edge-dst", rng.Bytes(rng.IntN(80))}
			desc := fmt.Sprintf("%s|%s|%s|%d|%x|r%d", ht.name, ht.op, cls, n, m.b, round)
			var p kyber.Point
			var enc []byte
			r.Journal(w, "C17 %s %s %s msg=%x dst=%x", ht.op, ht.name, cls, m.b, dst)
			v, bad := c17Try(func() {
				p = ht.hash(ht.fresh(dst), append([]byte{}, m.b...), dst)
				enc = groups.Enc(p)
			})
			if bad {
				r.Eval(ht.op+"/"+cls+"/refused-or-crashed", desc, true)
				c.count("hash|"+ht.name, 1)
				if _, isRT := v.(runtime.Error); isRT {
					r.Violation("C17/"+ht.g.Name+"/"+ht.op+"/"+cls+"/panic", "hash-to-group crashes with a runtime error (not a deliberate refusal) on a tag length inside the property's range 0..300: "+fmt.Sprint(v),
						map[string]any{"target": ht.name, "msg": mon.Hex(m.b), "dst": mon.Hex(dst), "dst_len": n, "panic": fmt.Sprint(v)})
				} else {
					r.NoteAdd("hash-deliberately-refused."+ht.name+"."+cls, 1)
				}
				continue
			}
			c.hashCase(ht, m, dst, cls, desc, w)
			if n > 255 && ht.xmd != nil {
				// RFC 9380 5.3.3: an oversize DST is replaced by H("H2C-OVERSIZE-DST-" || DST); so hashing with the
				// oversize tag must equal hashing with that (ordinary-size) replacement tag.
				h := ht.xmd()
				h.Write([]byte("H2C-OVERSIZE-DST-"))
				h.Write(dst)
				red := h.Sum(nil)
				var enc2 []byte
				if _, bad2 := c17Try(func() { enc2 = groups.Enc(ht.hash(ht.fresh(red), append([]byte{}, m.b...), red)) }); bad2 {
					continue
				}
				r.Eval(ht.op+"/dst-oversize/reduced-per-rfc9380", desc, true)
				if !bytes.Equal(enc, enc2) {
					// Recorded, not judged: the property demands membership, determinism and the RFC vectors; it does not
					// state RFC 9380 5.3.3 conformance for tags beyond 255 bytes (observed on the unchanged tree: the kilic
					// back-end truncates the length byte instead of replacing the tag).
					r.NoteAdd("dst-oversize-not-reduced-per-rfc9380."+ht.g.Name, 1)
				}
			}
		}
	}
}

func c17Find(hts []*c17HT, family string) []*c17HT {
	var out []*c17HT
	for _, h := range hts {
		if h.family == family {
			out = append(out, h)
		}
	}
	return out
}

// xbackendJob: the BLS12-381 back-ends must agree on arbitrary (msg, DST).
func (c *c17Ctx) xbackendJob(w int, hts []*c17HT, round int) {
	r := c.r
	rng := gen.New(r.Seed, "C17xbackend", round)
	for _, kind := range []string{"G1", "G2"} {
		bs := c17Find(hts, "bls."+kind)
		if len(bs) < 2 {
			continue
		}
		for k := 0; k < 20; k++ {
			ml := rng.IntN(301)
			if k < len(c17EdgeLens) && round%2 == 0 {
				ml = c17EdgeLens[(k+7*round)%len(c17EdgeLens)]
			}
			msg := rng.Bytes(ml)
			dl := 1 + rng.IntN(255)
			cls := "dst<=255"
			if k >= 17 {
				dl = []int{1, 254, 255}[k-17]
			}
			dst := c17Tag(rng, dl)
			desc := fmt.Sprintf("bls.%s|%x|%x|r%d", kind, msg, dst, round)
			det := map[string]any{"kind": kind, "msg": mon.Hex(msg), "dst": mon.Hex(dst), "msg_len": ml, "dst_len": dl}
			r.Journal(w, "C17 xbackend %s msg=%x dst=%x", kind, msg, dst)
			encs := map[string]string{}
			var names []string
			for _, b := range bs {
				b := b
				var enc []byte
				v, bad := c17Try(func() { enc = groups.Enc(b.hash(b.fresh(dst), append([]byte{}, msg...), dst)) })
				if bad {
					r.Violation("C17/"+b.g.Name+"/Hash/panic", "hash-to-group panics on an ordinary (msg, DST)", c17Merge(det, map[string]any{"panic": fmt.Sprint(v)}))
					continue
				}
				encs[b.name] = mon.Hex(enc)
				names = append(names, b.name)
			}
			if len(names) < 2 {
				continue
			}
			r.Eval("Hash/bls12381-back-ends-agree/"+kind+"/"+cls, desc, true)
			c.count("xbackend", 1)
			for _, n := range names[1:] {
				if encs[n] != encs[names[0]] {
					r.Violation("C17/bls12381."+kind+"/Hash/back-ends-disagree", "BLS12-381 back-ends map the same (msg, DST) to different points ("+names[0]+" vs "+n+")",
						c17Merge(det, map[string]any{"points": encs}))
					break
				}
			}
		}
	}
}

// edrefJob: Ed25519 Hash against the math/big model of RFC 9380 on arbitrary (msg, DST), DST up to 300 bytes.
func (c *c17Ctx) edrefJob(w int, hts []*c17HT, round int) {
	r := c.r
	rng := gen.New(r.Seed, "C17edref", round)
	eds := c17Find(hts, "ed")
	for k := 0; k < 30; k++ {
		ml := rng.IntN(301)
		if k < 10 {
			ml = c17EdgeLens[(k+10*round)%len(c17EdgeLens)]
		}
		msg := rng.Bytes(ml)
		dl := 1 + rng.IntN(255)
		cls := "dst<=255"
		if k%5 == 4 {
			dl = 256 + rng.IntN(45)
			cls = "dst>255"
		}
		dst := c17Tag(rng, dl)
		want, ok := ref.C17EdHashToCurve(msg, dst)
		if !ok {
			continue
		}
		wenc := ref.EdEncode(want)
		for _, ht := range eds {
			desc := fmt.Sprintf("%s|ref|%x|%x", ht.name, msg, dst)
			det := map[string]any{"target": ht.name, "msg": mon.Hex(msg), "dst": mon.Hex(dst), "msg_len": ml, "dst_len": dl, "reference": mon.Hex(wenc)}
			r.Journal(w, "C17 edref %s msg=%x dst=%x", ht.name, msg, dst)
			r.Guard("C17/"+ht.g.Name+"/Hash/"+cls, det, func() {
				enc := groups.Enc(ht.hash(ht.fresh(dst), append([]byte{}, msg...), dst))
				r.Eval("Hash/ed25519-vs-rfc9380-model/"+cls, desc, true)
				c.count("edref", 1)
				if !bytes.Equal(enc, wenc) {
					r.Violation("C17/"+ht.g.Name+"/Hash/differs-from-rfc9380-model/"+cls, "Ed25519 Hash differs from the math/big model of edwards25519_XMD:SHA-512_ELL2_RO_",
						c17Merge(det, map[string]any{"got": mon.Hex(enc)}))
				}
			})
		}
	}
}

func c17Hex(s string) *big.Int {
	v, ok := new(big.Int).SetString(s, 16)
	if !ok {
		panic("harness: bad vector constant")
	}
	return v
}

// rfcJob: RFC 9380 known answers.
func (c *c17Ctx) rfcJob(w int, hts []*c17HT) {
	r := c.r
	check := func(ht *c17HT, suite, dst string, v c17Vec, want []byte) {
		msg := []byte(c17Msgs[v.msgIdx])
		desc := fmt.Sprintf("%s|rfc9380|%s|%d", ht.name, suite, v.msgIdx)
		det := map[string]any{"target": ht.name, "suite": suite, "dst": dst, "msg": c17Msgs[v.msgIdx], "want": mon.Hex(want)}
		r.Journal(w, "C17 rfc9380 %s %s vector %d", ht.name, suite, v.msgIdx)
		r.Guard("C17/"+ht.g.Name+"/Hash/rfc9380-vector", det, func() {
			enc := groups.Enc(ht.hash(ht.fresh([]byte(dst)), msg, []byte(dst)))
			r.Eval("Hash/rfc9380/"+suite, desc, true)
			c.count("rfc", 1)
			if !bytes.Equal(enc, want) {
				r.Violation("C17/"+ht.g.Name+"/Hash/rfc9380-vector", "hash-to-curve does not reproduce the RFC 9380 vector of "+suite,
					c17Merge(det, map[string]any{"got": mon.Hex(enc)}))
			}
			r.SampleClass("rfc9380/"+suite, map[string]any{"suite": suite, "target": ht.name, "msg": c17Msgs[v.msgIdx], "point": mon.Hex(enc)})
		})
	}
	for _, ht := range c17Find(hts, "ed") {
		for _, v := range c17VecEd {
			check(ht, "edwards25519_XMD:SHA-512_ELL2_RO_", c17DstEd, v, ref.EdEncode(&ref.EdPoint{X: c17Hex(v.coords[0]), Y: c17Hex(v.coords[1])}))
		}
	}
	for _, ht := range c17Find(hts, "bls.G1") {
		for _, v := range c17VecG1 {
			x, y := c17Hex(v.coords[0]), c17Hex(v.coords[1])
			if !ref.BLS12381G1.OnCurve(x, y) {
				r.Inconclusive("harness: embedded RFC 9380 BLS12-381 G1 vector is not on the curve")
				return
			}
			check(ht, "BLS12381G1_XMD:SHA-256_SSWU_RO_", c17DstG1, v, c17BlsG1Compress(x, y))
		}
	}
	for _, ht := range c17Find(hts, "bls.G2") {
		for _, v := range c17VecG2 {
			x0, x1, y0, y1 := c17Hex(v.coords[0]), c17Hex(v.coords[1]), c17Hex(v.coords[2]), c17Hex(v.coords[3])
			if !ref.OnTwist(ref.BLS12381G1.P, ref.BLS12381G2B, ref.F2{A: x0, B: x1}, ref.F2{A: y0, B: y1}) {
				r.Inconclusive("harness: embedded RFC 9380 BLS12-381 G2 vector is not on the twist")
				return
			}
			check(ht, "BLS12381G2_XMD:SHA-256_SSWU_RO_", c17DstG2, v, c17BlsG2Compress(x0, x1, y0, y1))
		}
	}
}

// anonJob: the linkage tag of sign/anon is x * Pick(suite.XOF(scope)); the tag returned by Verify must be a
// group member and a function of (key, scope) only.
func (c *c17Ctx) anonJob(w int, round int) {
	r := c.r
	type st struct {
		gname string
		suite anon.Suite
	}
	rng := gen.New(r.Seed, "C17anon", round)
	suites := []st{
		{"ed25519", edwards25519.NewBlakeSHA256Ed25519WithRand(rng.Stream())},
		{"p256", p256.NewBlakeSHA256P256()},
		{"edvartime", edwards25519vartime.NewBlakeSHA256Ed25519(false)},
	}
	for _, s := range suites {
		var g *groups.G
		for _, x := range c.all {
			if x.Name == s.gname {
				g = x
			}
		}
		if g == nil || !c.sel[s.gname] {
			continue
		}
		suite := s.suite
		n := 2 + rng.IntN(3)
		mine := rng.IntN(n)
		var set anon.Set
		var priv kyber.Scalar
		for i := 0; i < n; i++ {
			x := suite.Scalar().Pick(rng.Stream())
			set = append(set, suite.Point().Mul(x, nil))
			if i == mine {
				priv = x
			}
		}
		scopes := [][]byte{{}, rng.Bytes(1), rng.Bytes(32), rng.Bytes(1 + rng.IntN(200)), bytes.Repeat([]byte{0xff}, 64), make([]byte, 32)}
		for si, scope := range scopes {
			desc := fmt.Sprintf("anon|%s|%x|r%d", s.gname, scope, round)
			det := map[string]any{"suite": s.gname, "scope": mon.Hex(scope), "ring": n, "mine": mine, "private_key": priv.String()}
			r.Journal(w, "C17 anon %s scope=%x", s.gname, scope)
			r.Guard("C17/anon/"+s.gname+"/linkage-tag", det, func() {
				sig1 := anon.Sign(suite, rng.Bytes(20), set, scope, mine, priv)
				m2 := rng.Bytes(33)
				sig2 := anon.Sign(suite, m2, set, scope, mine, priv)
				tag2, err2 := anon.Verify(suite, m2, set, scope, sig2)
				_ = sig1
				if err2 != nil {
					r.NoteAdd("anon-honest-signature-rejected."+s.gname, 1) // C08's business
					return
				}
				tp := g.Point()
				if err := tp.UnmarshalBinary(tag2); err != nil {
					r.Eval("anon/linkage-tag-member", desc, true)
					r.Violation("C17/anon/"+s.gname+"/linkage-tag/undecodable", "the linkage tag returned by Verify does not decode as a point", c17Merge(det, map[string]any{"tag": mon.Hex(tag2), "err": err.Error()}))
					return
				}
				c.judge(g, nil, "anon-linkage-tag", "scope", desc, tp, c17Merge(det, map[string]any{"tag": mon.Hex(tag2)}))
				c.count("anon", 1)
				// function of (key, scope): recompute from the idiom
				base := suite.Point().Pick(suite.XOF(scope))
				want := groups.Enc(suite.Point().Mul(priv, base))
				r.Eval("anon/linkage-tag-is-x*Pick(XOF(scope))", desc, true)
				if !bytes.Equal(want, tag2) {
					r.Violation("C17/anon/"+s.gname+"/linkage-tag/not-deterministic", "the linkage tag is not x*Pick(suite.XOF(scope))", c17Merge(det, map[string]any{"tag": mon.Hex(tag2), "want": mon.Hex(want)}))
				}
				clash, compared := c.distinct(fmt.Sprintf("anon|%s|r%d", s.gname, round), tag2, mon.Hex(scope))
				if compared {
					r.Eval("anon/linkage-tag-distinct-scopes", desc, true)
				}
				if clash != "" {
					r.Violation("C17/anon/"+s.gname+"/linkage-tag/collision", "two different scopes give the same linkage tag for the same key", c17Merge(det, map[string]any{"other_scope": clash}))
				}
				_ = si
			})
		}
	}
}
