package main

import (
	"fmt"

	"go.dedis.ch/kyber/v4"
	"go.dedis.ch/kyber/v4/encrypt/ecies"
	"go.dedis.ch/kyber/v4/group/edwards25519"
	"go.dedis.ch/kyber/v4/group/edwards25519vartime"
	"go.dedis.ch/kyber/v4/group/p256"
	"go.dedis.ch/kyber/v4/pairing"
	"go.dedis.ch/kyber/v4/pairing/bls12381/circl"
	"go.dedis.ch/kyber/v4/pairing/bls12381/gnark"
	"go.dedis.ch/kyber/v4/pairing/bls12381/kilic"
	"go.dedis.ch/kyber/v4/pairing/bn254"
	"go.dedis.ch/kyber/v4/pairing/bn256"
	"go.dedis.ch/kyber/v4/proof"
	"go.dedis.ch/kyber/v4/share"
	vssp "go.dedis.ch/kyber/v4/share/vss/pedersen"
	vssr "go.dedis.ch/kyber/v4/share/vss/rabin"
	"go.dedis.ch/kyber/v4/shuffle"
	"go.dedis.ch/kyber/v4/sign/anon"
	"go.dedis.ch/kyber/v4/sign/bdn"
	"go.dedis.ch/kyber/v4/sign/bls"
	"go.dedis.ch/kyber/v4/sign/cosi"
	"go.dedis.ch/kyber/v4/sign/eddsa"
	"go.dedis.ch/kyber/v4/sign/schnorr"
	"go.dedis.ch/kyber/v4/sign/tbls"

	"verif/internal/gen"
	"verif/internal/mon"
)

var c04mutClasses = []string{"random", "truncate", "bitflip", "extend", "splice", "all-ff", "all-00", "empty", "valid"}

func c04Mutate(rng *gen.Rng, valid []byte, i int) (string, []byte) {
	cls := c04mutClasses[i%len(c04mutClasses)]
	switch cls {
	case "random":
		return cls, rng.Bytes(rng.IntN(2*len(valid) + 40))
	case "truncate":
		return cls, append([]byte(nil), valid[:rng.IntN(len(valid)+1)]...)
	case "bitflip":
		if len(valid) == 0 {
			return cls, nil
		}
		return cls, gen.FlipBit(valid, rng.IntN(8*len(valid)))
	case "extend":
		return cls, append(append([]byte(nil), valid...), rng.Bytes(1+rng.IntN(40))...)
	case "splice":
		m := append([]byte(nil), valid...)
		for j := 0; j < 1+rng.IntN(4) && len(m) > 0; j++ {
			m[rng.IntN(len(m))] = byte(rng.IntN(256))
		}
		return cls, m
	case "all-ff":
		m := make([]byte, len(valid))
		for j := range m {
			m[j] = 0xff
		}
		return cls, m
	case "all-00":
		return cls, make([]byte, len(valid))
	case "empty":
		return cls, []byte{}
	}
	return "valid", append([]byte(nil), valid...)
}

type c04entry struct {
	name  string
	valid []byte
	f     func(in []byte)
}

func c04Parsers(r *mon.R) {
	rng0 := gen.New(r.Seed, "C04parsers-setup", 0)
	msg := []byte("message to be signed")
	var entries []c04entry
	add := func(name string, valid []byte, f func(in []byte)) {
		entries = append(entries, c04entry{name, valid, f})
	}
	setup := func(name string, f func()) {
		r.Guard("C04/parsers/setup/"+name, nil, f)
	}

	ed := edwards25519.NewBlakeSHA256Ed25519WithRand(rng0.Stream())
	p2 := p256.NewBlakeSHA256P256()
	edv := edwards25519vartime.NewBlakeSHA256Ed25519(false)
	qr := p256.NewBlakeSHA256QR512()

	// Schnorr over group families
	for _, s := range []struct {
		n string
		g schnorr.Suite
	}{{"ed25519", ed}, {"p256", p2}, {"edvartime", edv}, {"qr512", qr}} {
		s := s
		setup("schnorr/"+s.n, func() {
			x := s.g.Scalar().Pick(rng0.Stream())
			X := s.g.Point().Mul(x, nil)
			sig, err := schnorr.Sign(s.g, x, msg)
			if err != nil {
				panic(err)
			}
			pb, _ := X.MarshalBinary()
			add("schnorr.Verify(sig)/"+s.n, sig, func(in []byte) { _ = schnorr.Verify(s.g, X, msg, in) })
			add("schnorr.VerifyWithChecks(sig)/"+s.n, sig, func(in []byte) { _ = schnorr.VerifyWithChecks(s.g, pb, msg, in) })
			add("schnorr.VerifyWithChecks(pub)/"+s.n, pb, func(in []byte) { _ = schnorr.VerifyWithChecks(s.g, in, msg, sig) })
			add("schnorr.Verify(msg)/"+s.n, msg, func(in []byte) { _ = schnorr.Verify(s.g, X, in, sig) })
		})
	}
	setup("eddsa", func() {
		e := eddsa.NewEdDSA(rng0.Stream())
		esig, _ := e.Sign(msg)
		epb, _ := e.Public.MarshalBinary()
		eb, _ := e.MarshalBinary()
		add("eddsa.Verify(sig)", esig, func(in []byte) { _ = eddsa.Verify(e.Public, msg, in) })
		add("eddsa.VerifyWithChecks(sig)", esig, func(in []byte) { _ = eddsa.VerifyWithChecks(epb, msg, in) })
		add("eddsa.VerifyWithChecks(pub)", epb, func(in []byte) { _ = eddsa.VerifyWithChecks(in, msg, esig) })
		add("eddsa.UnmarshalBinary", eb, func(in []byte) {
			var z eddsa.EdDSA
			if z.UnmarshalBinary(in) == nil {
				_, _ = z.Sign(msg)
			}
		})
	})
	// BLS / TBLS / BDN on the 8 (suite, group) combinations
	type psuite struct {
		n  string
		s  pairing.Suite
		g2 bool
	}
	var pss []psuite
	pss = append(pss, psuite{"bn256", bn256.NewSuite(), false}, psuite{"bn254", bn254.NewSuite(), false})
	for _, x := range []struct {
		n string
		s pairing.Suite
	}{{"kilic", kilic.NewBLS12381Suite()}, {"circl", circl.NewSuite()}, {"gnark", gnark.NewSuite()}} {
		pss = append(pss, psuite{x.n, x.s, true})
	}
	for _, ps := range pss {
		ps := ps
		for _, onG2 := range []bool{false, true} {
			if onG2 && !ps.g2 {
				continue
			}
			onG2 := onG2
			tag := ps.n + "/G1"
			if onG2 {
				tag = ps.n + "/G2"
			}
			setup("bls/"+tag, func() {
				sch := bls.NewSchemeOnG1(ps.s)
				tsch := tbls.NewThresholdSchemeOnG1(ps.s)
				keyGroup := ps.s.G2()
				if onG2 {
					sch = bls.NewSchemeOnG2(ps.s)
					tsch = tbls.NewThresholdSchemeOnG2(ps.s)
					keyGroup = ps.s.G1()
				}
				sk, pk := sch.NewKeyPair(rng0.Stream())
				sig, err := sch.Sign(sk, msg)
				if err != nil {
					panic(err)
				}
				add("bls.Verify(sig)/"+tag, sig, func(in []byte) { _ = sch.Verify(pk, msg, in) })
				pri := share.NewPriPoly(keyGroup, 2, nil, rng0.Stream())
				pub := pri.Commit(keyGroup.Point().Base())
				shares := pri.Shares(3)
				psig, _ := tsch.Sign(shares[1], msg)
				psig2, _ := tsch.Sign(shares[2], msg)
				add("tbls.VerifyPartial/"+tag, psig, func(in []byte) { _ = tsch.VerifyPartial(pub, msg, in) })
				add("tbls.Recover/"+tag, psig, func(in []byte) { _, _ = tsch.Recover(pub, msg, [][]byte{in, psig2, in}, 2, 3) })
				add("tbls.IndexOf/"+tag, psig, func(in []byte) { _, _ = tsch.IndexOf(in) })
				add("tbls.VerifyRecovered/"+tag, sig, func(in []byte) { _ = tsch.VerifyRecovered(pk, msg, in) })
			})
			setup("bdn/"+tag, func() {
				sch := bdn.NewSchemeOnG1(ps.s)
				if onG2 {
					sch = bdn.NewSchemeOnG2(ps.s)
				}
				var sks []kyber.Scalar
				var pks []kyber.Point
				for i := 0; i < 3; i++ {
					sk, pk := sch.NewKeyPair(rng0.Stream())
					sks, pks = append(sks, sk), append(pks, pk)
				}
				var sigs [][]byte
				for i := range sks {
					s, _ := sch.Sign(sks[i], msg)
					sigs = append(sigs, s)
				}
				var grp kyber.Group = ps.s.G2()
				if onG2 {
					grp = ps.s.G1()
				}
				mask, err := bdn.NewMask(grp, pks, nil)
				if err != nil {
					panic(err)
				}
				for i := range pks {
					_ = mask.SetBit(i, true)
				}
				add("bdn.AggregateSignatures/"+tag, sigs[1], func(in []byte) { _, _ = sch.AggregateSignatures([][]byte{sigs[0], in, sigs[2]}, mask) })
				add("bdn.Verify(sig)/"+tag, sigs[0], func(in []byte) { _ = sch.Verify(pks[0], msg, in) })
				add("bdn.Mask.SetMask/"+tag, mask.Mask(), func(in []byte) {
					m2, _ := bdn.NewMask(grp, pks, nil)
					if m2.SetMask(in) == nil {
						_, _ = sch.AggregatePublicKeys(m2)
					}
				})
			})
		}
	}
	setup("cosi", func() {
		n := 3
		var priv []kyber.Scalar
		var pubs []kyber.Point
		for i := 0; i < n; i++ {
			x := ed.Scalar().Pick(rng0.Stream())
			priv = append(priv, x)
			pubs = append(pubs, ed.Point().Mul(x, nil))
		}
		var vs []kyber.Scalar
		var Vs []kyber.Point
		var masks [][]byte
		for i := 0; i < n; i++ {
			v, V := cosi.Commit(ed)
			vs = append(vs, v)
			Vs = append(Vs, V)
			m, _ := cosi.NewMask(ed, pubs, pubs[i])
			masks = append(masks, m.Mask())
		}
		aggV, aggM, _ := cosi.AggregateCommitments(ed, Vs, masks)
		mask, _ := cosi.NewMask(ed, pubs, nil)
		_ = mask.SetMask(aggM)
		c, _ := cosi.Challenge(ed, aggV, mask.AggregatePublic, msg)
		var rs []kyber.Scalar
		for i := 0; i < n; i++ {
			rr, _ := cosi.Response(ed, priv[i], vs[i], c)
			rs = append(rs, rr)
		}
		aggR, _ := cosi.AggregateResponses(ed, rs)
		sig, _ := cosi.Sign(ed, aggV, aggR, mask)
		if err := cosi.Verify(ed, pubs, msg, sig, nil); err != nil {
			panic("harness: honest cosi signature rejected: " + err.Error())
		}
		add("cosi.Verify(sig)", sig, func(in []byte) { _ = cosi.Verify(ed, pubs, msg, in, nil) })
		add("cosi.Verify(sig,threshold)", sig, func(in []byte) { _ = cosi.Verify(ed, pubs, msg, in, cosi.NewThresholdPolicy(2)) })
		add("cosi.Mask.SetMask", aggM, func(in []byte) {
			m2, _ := cosi.NewMask(ed, pubs, nil)
			_ = m2.SetMask(in)
		})
		add("cosi.AggregateMasks", aggM, func(in []byte) { _, _ = cosi.AggregateMasks(in, aggM) })
	})
	// proofs and shuffles
	for _, s := range []struct {
		n string
		g proof.Suite
	}{{"ed25519", ed}, {"p256", p2}} {
		s := s
		setup("proof/"+s.n, func() {
			g := s.g
			x := g.Scalar().Pick(rng0.Stream())
			y := g.Scalar().Pick(rng0.Stream())
			B := g.Point().Base()
			H := g.Point().Pick(rng0.Stream())
			X := g.Point().Mul(x, nil)
			Y := g.Point().Add(g.Point().Mul(x, B), g.Point().Mul(y, H))
			pub := map[string]kyber.Point{"B": B, "H": H, "X": X, "Y": Y}
			mk := func() proof.Predicate {
				return proof.Or(proof.And(proof.Rep("X", "x", "B"), proof.Rep("Y", "x", "B", "y", "H")), proof.Rep("H", "z", "B"))
			}
			choice := map[proof.Predicate]int{}
			pred := mk()
			choice[pred] = 0
			prf, err := proof.HashProve(g, "t", pred.Prover(g, map[string]kyber.Scalar{"x": x, "y": y}, pub, choice))
			if err != nil {
				panic(err)
			}
			if err := proof.HashVerify(g, "t", mk().Verifier(g, pub), prf); err != nil {
				panic("harness: honest proof rejected: " + err.Error())
			}
			add("proof.HashVerify(or-and-rep)/"+s.n, prf, func(in []byte) { _ = proof.HashVerify(g, "t", mk().Verifier(g, pub), in) })
			k := 3
			Xs := make([]kyber.Point, k)
			Ys := make([]kyber.Point, k)
			for i := range Xs {
				Xs[i] = g.Point().Pick(rng0.Stream())
				Ys[i] = g.Point().Pick(rng0.Stream())
			}
			xb, yb, prover := shuffle.Shuffle(g, nil, H, Xs, Ys, rng0.Stream())
			sprf, err := proof.HashProve(g, "s", prover)
			if err != nil {
				panic(err)
			}
			add("proof.HashVerify(pair-shuffle)/"+s.n, sprf, func(in []byte) { _ = proof.HashVerify(g, "s", shuffle.Verifier(g, nil, H, Xs, Ys, xb, yb), in) })
			xb2, yb2, bprover := shuffle.Biffle(g, nil, H, [2]kyber.Point{Xs[0], Xs[1]}, [2]kyber.Point{Ys[0], Ys[1]}, rng0.Stream())
			bprf, err := proof.HashProve(g, "b", bprover)
			if err != nil {
				panic(err)
			}
			add("proof.HashVerify(biffle)/"+s.n, bprf, func(in []byte) {
				_ = proof.HashVerify(g, "b", shuffle.BiffleVerifier(g, nil, H, [2]kyber.Point{Xs[0], Xs[1]}, [2]kyber.Point{Ys[0], Ys[1]}, xb2, yb2), in)
			})
		})
	}
	// ecies on 5 groups, anon enc / sig
	for _, s := range []struct {
		n string
		g kyber.Group
	}{{"ed25519", ed}, {"p256", p2}, {"edvartime", edv}, {"edvartime-full", edwards25519vartime.NewBlakeSHA256Ed25519(true)}, {"qr512", qr}} {
		s := s
		setup("ecies/"+s.n, func() {
			x := s.g.Scalar().Pick(rng0.Stream())
			X := s.g.Point().Mul(x, nil)
			ct, err := ecies.Encrypt(s.g, X, msg, nil)
			if err != nil {
				panic(err)
			}
			add("ecies.Decrypt/"+s.n, ct, func(in []byte) { _, _ = ecies.Decrypt(s.g, x, in, nil) })
		})
	}
	for _, s := range []struct {
		n string
		g anon.Suite
	}{{"ed25519", ed}, {"p256", p2}} {
		s := s
		setup("anon/"+s.n, func() {
			x := s.g.Scalar().Pick(rng0.Stream())
			X := s.g.Point().Mul(x, nil)
			set := anon.Set{X, s.g.Point().Pick(rng0.Stream()), s.g.Point().Pick(rng0.Stream())}
			act, err := anon.Encrypt(s.g, msg, set)
			if err != nil {
				panic(err)
			}
			add("anon.Decrypt/"+s.n, act, func(in []byte) { _, _ = anon.Decrypt(s.g, in, set, 0, x) })
			asig := anon.Sign(s.g, msg, set, nil, 0, x)
			add("anon.Verify/"+s.n, asig, func(in []byte) { _, _ = anon.Verify(s.g, msg, set, nil, in) })
			lsig := anon.Sign(s.g, msg, set, []byte("scope"), 0, x)
			add("anon.Verify(linkable)/"+s.n, lsig, func(in []byte) { _, _ = anon.Verify(s.g, msg, set, []byte("scope"), in) })
		})
	}
	// VSS deals: Unmarshal followed by use
	setup("vss", func() {
		n := 4
		var pubs []kyber.Point
		var privs []kyber.Scalar
		for i := 0; i < n; i++ {
			x := ed.Scalar().Pick(rng0.Stream())
			privs = append(privs, x)
			pubs = append(pubs, ed.Point().Mul(x, nil))
		}
		dlong := ed.Scalar().Pick(rng0.Stream())
		dpub := ed.Point().Mul(dlong, nil)
		d, err := vssp.NewDealer(ed, dlong, ed.Scalar().Pick(rng0.Stream()), pubs, 3)
		if err != nil {
			panic(err)
		}
		pd, _ := d.PlaintextDeal(0)
		pb, _ := pd.Marshal()
		add("vss/pedersen Deal.Unmarshal+VerifyDeal", pb, func(in []byte) {
			var dd vssp.Deal
			if err := dd.Unmarshal(in, ed); err == nil {
				a := vssp.NewEmptyAggregator(ed, pubs)
				_ = a.VerifyDeal(&dd, true)
				_, _ = dd.Marshal()
			}
		})
		add("vss/pedersen sealed-plaintext->ProcessEncryptedDeal", pb, func(in []byte) {
			enc, err := d.VerifSealDeal(0, in)
			if err != nil {
				return
			}
			v, err := vssp.NewVerifier(ed, privs[0], dpub, pubs)
			if err != nil {
				panic(err)
			}
			_, _ = v.ProcessEncryptedDeal(enc)
		})
		ed0, _ := d.EncryptedDeal(0)
		add("vss/pedersen EncryptedDeal.Cipher", ed0.Cipher, func(in []byte) {
			v, _ := vssp.NewVerifier(ed, privs[0], dpub, pubs)
			_, _ = v.ProcessEncryptedDeal(&vssp.EncryptedDeal{DHKey: ed0.DHKey, Signature: ed0.Signature, Cipher: in})
		})
		add("vss/pedersen EncryptedDeal.DHKey", ed0.DHKey, func(in []byte) {
			v, _ := vssp.NewVerifier(ed, privs[0], dpub, pubs)
			_, _ = v.ProcessEncryptedDeal(&vssp.EncryptedDeal{DHKey: in, Signature: ed0.Signature, Cipher: ed0.Cipher})
		})
		add("vss/pedersen EncryptedDeal.Signature", ed0.Signature, func(in []byte) {
			v, _ := vssp.NewVerifier(ed, privs[0], dpub, pubs)
			_, _ = v.ProcessEncryptedDeal(&vssp.EncryptedDeal{DHKey: ed0.DHKey, Signature: in, Cipher: ed0.Cipher})
		})
		dr, err := vssr.NewDealer(ed, dlong, ed.Scalar().Pick(rng0.Stream()), pubs, 3)
		if err != nil {
			panic(err)
		}
		rd, _ := dr.PlaintextDeal(0)
		rb, _ := rd.Marshal()
		add("vss/rabin Deal.Unmarshal+Marshal", rb, func(in []byte) {
			var dd vssr.Deal
			if err := dd.Unmarshal(in, ed); err == nil {
				_, _ = dd.Marshal()
			}
		})
		add("vss/rabin sealed-plaintext->ProcessEncryptedDeal", rb, func(in []byte) {
			enc, err := dr.VerifSealDeal(0, in)
			if err != nil {
				return
			}
			v, err := vssr.NewVerifier(ed, privs[0], dpub, pubs)
			if err != nil {
				panic(err)
			}
			_, _ = v.ProcessEncryptedDeal(enc)
		})
		er0, _ := dr.EncryptedDeal(0)
		add("vss/rabin EncryptedDeal.Cipher", er0.Cipher, func(in []byte) {
			v, _ := vssr.NewVerifier(ed, privs[0], dpub, pubs)
			_, _ = v.ProcessEncryptedDeal(&vssr.EncryptedDeal{DHKey: er0.DHKey, Signature: er0.Signature, Cipher: in})
		})
	})

	n := r.N(300, 6000)
	type job struct {
		e  int
		lo int
		hi int
	}
	var jobs []job
	const chunk = 100
	for ei := range entries {
		for lo := 0; lo < n; lo += chunk {
			jobs = append(jobs, job{ei, lo, min(lo+chunk, n)})
		}
	}
	mon.Parallel(len(jobs), func(w, ji int) {
		j := jobs[ji]
		e := entries[j.e]
		for i := j.lo; i < j.hi; i++ {
			rng := gen.New(r.Seed, "C04parse"+e.name, i)
			cls, in := c04Mutate(rng, e.valid, i)
			hx := mon.Hex(in)
			if len(hx) > 3000 {
				hx = hx[:3000] + "..."
			}
			r.Journal(w, "C04 parser %s %s %s", e.name, cls, hx)
			r.Guard("C04/parser/"+e.name, map[string]any{"entry": e.name, "mutation": cls, "input": hx, "valid": mon.Hex(e.valid)}, func() { e.f(in) })
			r.Eval("parser/"+e.name+"/"+cls, fmt.Sprintf("%s|%x", e.name, hashShort(in)), cls != "valid")
		}
		if j.lo == 0 {
			r.SampleClass("parser:"+e.name, map[string]any{"entry": e.name, "valid_len": len(e.valid), "mutations": c04mutClasses})
		}
	})
	for _, e := range entries {
		r.Op(e.name)
	}
	r.Note("entry_points", len(entries))
}
