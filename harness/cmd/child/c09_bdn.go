package main

import (
	"fmt"
	"math/big"

	"go.dedis.ch/kyber/v4"
	"go.dedis.ch/kyber/v4/sign"
	"go.dedis.ch/kyber/v4/sign/bdn"
	"golang.org/x/crypto/blake2s"

	"verif/internal/gen"
	"verif/internal/groups"
	"verif/internal/mon"
)

type c09BDNCtx struct {
	r      *mon.R
	e      *c09Env
	sch    *bdn.Scheme
	job    string
	n      int
	xs     []*big.Int
	pubEnc [][]byte
	msg    []byte
	sigs   [][]byte // honest signature of every roster member on msg
}

// pubs returns a fresh roster (decoded copies; nothing shared between masks).
func (c *c09BDNCtx) pubs() []kyber.Point {
	out := make([]kyber.Point, c.n)
	for i := range out {
		out[i] = c09MustDec(c.e.keyG, c.pubEnc[i])
	}
	return out
}

func (c *c09BDNCtx) newMask(my int) (*bdn.Mask, error) {
	var k kyber.Point
	if my >= 0 {
		k = c09MustDec(c.e.keyG, c.pubEnc[my])
	}
	return bdn.NewMask(c.e.keyG, c.pubs(), k)
}

func (c *c09BDNCtx) mustMask(my int) *bdn.Mask {
	m, err := c.newMask(my)
	if err != nil {
		panic(fmt.Sprintf("bdn.NewMask failed: %v", err))
	}
	return m
}

// refMask builds the pattern the plainest way: NewMask(nil) + SetBit ascending.
func (c *c09BDNCtx) refMask(p c09Pattern) *bdn.Mask {
	m := c.mustMask(-1)
	for _, i := range p.idx() {
		if err := m.SetBit(i, true); err != nil {
			panic(fmt.Sprintf("bdn SetBit(%d) failed: %v", i, err))
		}
	}
	return m
}

func (c *c09BDNCtx) sigsFor(p c09Pattern) [][]byte {
	var out [][]byte
	for _, i := range p.idx() {
		out = append(out, c09Cp(c.sigs[i]))
	}
	return out
}

// verify presents freshly decoded copies to Verify.
func (c *c09BDNCtx) verify(pk kyber.Point, msg []byte, sig kyber.Point) error {
	return c.sch.Verify(c09MustDec(c.e.keyG, groups.Enc(pk)), c09Cp(msg), groups.Enc(sig))
}

func (c *c09BDNCtx) detail(p c09Pattern, extra map[string]any) map[string]any {
	d := map[string]any{"combination": c.e.cb.name, "job": c.job, "n": c.n, "pattern": p.String(), "mask_bytes": mon.Hex(p.bytes()),
		"secrets": c09BigHex(c.xs), "msg": mon.Hex(c.msg)}
	for k, v := range extra {
		d[k] = v
	}
	return d
}

func c09BDNRefCoefs(pubEnc [][]byte) []*big.Int {
	h, err := blake2s.NewXOF(blake2s.OutputLengthUnknown, nil)
	if err != nil {
		panic(err)
	}
	for _, b := range pubEnc {
		_, _ = h.Write(b)
	}
	out := make([]byte, 16*len(pubEnc))
	_, _ = h.Read(out)
	cs := make([]*big.Int, len(pubEnc))
	for i := range cs {
		le := out[16*i : 16*i+16]
		be := make([]byte, 16)
		for k := range le {
			be[15-k] = le[k]
		}
		cs[i] = new(big.Int).SetBytes(be)
	}
	return cs
}

// checkAccessors compares the read-only view of a mask with the pattern.
func (c *c09BDNCtx) checkAccessors(route string, m *bdn.Mask, p c09Pattern, stray bool) {
	name := c.e.cb.name
	bad := func(what string, extra map[string]any) {
		c.r.Violation("C09/bdn/"+name+"/route:"+route+"/"+what, "bdn.Mask built by route "+route+": "+what, c.detail(p, extra))
	}
	c.r.Eval("bdn/mask-state/"+route, name+"|"+c.job, p.count() > 0)
	got := c09PatternFromBytes(m.Mask(), c.n)
	if !got.equal(p) || len(m.Mask()) != (c.n+7)/8 || m.Len() != (c.n+7)/8 {
		bad("mask-bits-differ", map[string]any{"got": mon.Hex(m.Mask())})
		return
	}
	if m.CountEnabled() != p.count() || m.CountTotal() != c.n {
		bad("count-differs", map[string]any{"enabled": m.CountEnabled(), "total": m.CountTotal()})
	}
	for i := 0; i < c.n; i++ {
		if b, err := m.GetBit(i); err != nil || b != p[i] {
			bad("GetBit-differs", map[string]any{"i": i, "got": b, "err": fmt.Sprint(err)})
			break
		}
	}
	parts := m.Participants()
	idx := p.idx()
	okp := len(parts) == len(idx)
	for k := 0; okp && k < len(idx); k++ {
		okp = string(groups.Enc(parts[k])) == string(c.pubEnc[idx[k]])
	}
	if !okp {
		bad("Participants-differ", map[string]any{"got_len": len(parts)})
	}
	if !stray {
		for k, i := range idx {
			if g := m.IndexOfNthEnabled(k); g != i {
				bad("IndexOfNthEnabled-differs", map[string]any{"nth": k, "got": g, "want": i})
				break
			}
			if g := m.NthEnabledAtIndex(i); g != k {
				bad("NthEnabledAtIndex-differs", map[string]any{"index": i, "got": g, "want": k})
				break
			}
		}
	}
	// sign.Policy over the mask (judged on two routes only: it reads nothing but the counts)
	if route != "setbit-ascending" && route != "SetMask" {
		return
	}
	c.r.Eval("policy/sign.CompletePolicy+ThresholdPolicy/bdn-mask", name+"|"+c.job+"|"+route, true)
	if (sign.CompletePolicy{}).Check(m) != (p.count() == c.n) {
		bad("sign.CompletePolicy-wrong", nil)
	}
	for _, k := range []int{0, 1, p.count() - 1, p.count(), p.count() + 1, c.n, c.n + 1} {
		if sign.NewThresholdPolicy(k).Check(m) != (p.count() >= k) {
			bad("sign.ThresholdPolicy-wrong", map[string]any{"threshold": k})
		}
	}
}

func c09BDN(r *mon.R, j c09Job) {
	n := j.n
	rng := gen.New(r.Seed, "C09bdn"+j.cb.name, n*10000+j.idx)
	e := c09NewEnv(j.cb)
	c := &c09BDNCtx{r: r, e: e, n: n, job: fmt.Sprintf("bdn-n%d-%d", n, j.idx)}
	if e.cb.onG1 {
		c.sch = bdn.NewSchemeOnG1(e.ps)
	} else {
		c.sch = bdn.NewSchemeOnG2(e.ps)
	}
	name := e.cb.name
	r.Op("bdn.NewSchemeOnG1/G2", "bdn.Sign", "bdn.Verify", "bdn.NewMask(nil)", "bdn.NewMask(myKey)", "bdn.Mask.SetBit", "bdn.Mask.SetMask", "bdn.Mask.Merge", "bdn.Mask.Clone",
		"bdn.AggregateSignatures", "bdn.AggregatePublicKeys", "bdn.Mask.{Mask,GetBit,CountEnabled,CountTotal,Participants,IndexOfNthEnabled,NthEnabledAtIndex}", "sign.CompletePolicy", "sign.ThresholdPolicy")

	// roster: distinct non-zero secrets, one of them edge-valued now and then
	seen := map[string]bool{}
	for len(c.xs) < n {
		x := c09NonZero(rng, e.q)
		if len(c.xs) == 0 && j.idx%4 == 3 {
			x = c09EdgeSecret(rng, e.q)
		}
		if seen[x.String()] {
			continue
		}
		seen[x.String()] = true
		c.xs = append(c.xs, x)
	}
	// one key pair through the scheme's own NewKeyPair
	if sk, pk := c.sch.NewKeyPair(rng.Stream()); sk != nil {
		x := groups.ScalarToBig(sk)
		if x.Sign() != 0 && !seen[x.String()] && pk.Equal(e.pub(x)) {
			c.xs[rng.IntN(n)] = x
		}
	}
	for _, x := range c.xs {
		c.pubEnc = append(c.pubEnc, groups.Enc(e.pub(x)))
	}
	c.msg = c09Msg(rng)
	for i := 0; i < n; i++ {
		s, err := c.sch.Sign(e.sk(c.xs[i]), c09Cp(c.msg))
		if err != nil {
			panic("bdn.Sign failed: " + err.Error())
		}
		c.sigs = append(c.sigs, s)
	}
	P, pkind := c09MakePattern(rng, n, j.idx)
	idx := P.idx()

	// ---- reference route and the honest aggregate
	var refPK, refSig kyber.Point
	okRef := r.Guard("C09/bdn/"+name+"/route:setbit-ascending", c.detail(P, nil), func() {
		m := c.refMask(P)
		c.checkAccessors("setbit-ascending", m, P, false)
		var err error
		if refPK, err = c.sch.AggregatePublicKeys(m); err != nil {
			panic("AggregatePublicKeys: " + err.Error())
		}
		if refSig, err = c.sch.AggregateSignatures(c.sigsFor(P), m); err != nil {
			panic("AggregateSignatures: " + err.Error())
		}
	})
	if !okRef {
		return
	}
	desc := fmt.Sprintf("%s|%s|%s", name, c.job, P)
	r.Eval("bdn/honest-aggregate-verifies/"+pkind, desc, true)
	if err := c.verify(refPK, c.msg, refSig); err != nil {
		r.Violation("C09/bdn/"+name+"/Verify/rejected:honest-aggregate", "the BDN aggregate over a mask does not verify under the aggregate key of that mask: "+err.Error(),
			c.detail(P, map[string]any{"agg_key": mon.Hex(groups.Enc(refPK)), "agg_sig": mon.Hex(groups.Enc(refSig))}))
	}
	if j.idx < 4 {
		r.SampleClass("bdn:"+name, map[string]any{"scheme": "bdn", "combination": name, "n": n, "pattern": P.String(), "kind": pkind,
			"agg_key": mon.Hex(groups.Enc(refPK)), "agg_sig": mon.Hex(groups.Enc(refSig)), "msg": mon.Hex(c.msg)})
	}
	// documented construction (blake2s XOF, 128-bit c_i, weight c_i+1): agreement is recorded, not demanded
	{
		cs := c09BDNRefCoefs(c.pubEnc)
		a := new(big.Int)
		for _, i := range idx {
			w := new(big.Int).Add(cs[i], big.NewInt(1))
			a.Add(a, w.Mul(w, c.xs[i]))
		}
		a.Mod(a, e.q)
		if refPK.Equal(e.pub(a)) && refSig.Equal(e.sigPoint(a, c.msg)) {
			r.NoteAdd("bdn_aggregates_equal_to_documented_construction", 1)
		} else {
			r.NoteAdd("bdn_aggregates_DIFFERENT_from_documented_construction(not_demanded)", 1)
		}
	}

	// ---- must NOT verify: other masks, other message
	reject := func(class string, pk kyber.Point, msg []byte, sig kyber.Point, extra map[string]any) {
		err := c.verify(pk, msg, sig)
		r.Eval("bdn/must-reject/"+class, desc, true)
		if err == nil {
			d := c.detail(P, extra)
			d["agg_key"], d["agg_sig"], d["presented_msg"] = mon.Hex(groups.Enc(pk)), mon.Hex(groups.Enc(sig)), mon.Hex(msg)
			r.Violation("C09/bdn/"+name+"/Verify/accepted:"+class, "BDN aggregate accepted although "+class, d)
		}
	}
	others := map[string]c09Pattern{}
	{
		f := P.clone()
		k := rng.IntN(n)
		f[k] = !f[k]
		others["one-bit-flipped"] = f
		comp := make(c09Pattern, n)
		for i := range comp {
			comp[i] = !P[i]
		}
		others["complement"] = comp
		rp, _ := c09MakePattern(rng, n, 99)
		others["random-mask"] = rp
		others["empty-mask"] = make(c09Pattern, n)
		if P.count() < n {
			sup := P.clone()
			for i := range sup {
				if !sup[i] {
					sup[i] = true
					break
				}
			}
			others["superset"] = sup
		}
		if P.count() > 1 {
			sub := P.clone()
			sub[idx[rng.IntN(len(idx))]] = false
			others["subset"] = sub
		}
	}
	for _, how := range []string{"one-bit-flipped", "complement", "random-mask", "empty-mask", "superset", "subset"} {
		o, ok := others[how]
		if !ok || o.equal(P) {
			continue
		}
		r.Guard("C09/bdn/"+name+"/other-mask:"+how, c.detail(P, map[string]any{"other": o.String()}), func() {
			pk, err := c.sch.AggregatePublicKeys(c.refMask(o))
			if err != nil {
				panic("AggregatePublicKeys: " + err.Error())
			}
			reject("other-mask:"+how, pk, c.msg, refSig, map[string]any{"other_mask": o.String()})
		})
	}
	reject("other-message", refPK, c09NearMsg(rng, c.msg), refSig, nil)

	// ---- manipulated signature lists aggregated under the right mask
	manip := func(class string, sigs [][]byte) {
		r.Guard("C09/bdn/"+name+"/AggregateSignatures:"+class, c.detail(P, map[string]any{"sigs": c09Hexes(sigs)}), func() {
			agg, err := c.sch.AggregateSignatures(c09CpAll(sigs), c.refMask(P))
			if err != nil {
				r.Eval("bdn/must-reject/"+class, desc, true)
				return // refused outright: fine
			}
			reject(class, refPK, c.msg, agg, map[string]any{"sigs": c09Hexes(sigs)})
		})
	}
	hs := c.sigsFor(P)
	if len(hs) >= 2 {
		a := rng.IntN(len(hs))
		b := (a + 1 + rng.IntN(len(hs)-1)) % len(hs)
		sw := c09CpAll(hs)
		sw[a], sw[b] = sw[b], sw[a]
		manip("signatures-of-two-signers-swapped", sw)
	}
	if P.count() < n {
		var out int
		for i := range P {
			if !P[i] {
				out = i
				break
			}
		}
		sb := c09CpAll(hs)
		sb[rng.IntN(len(sb))] = c09Cp(c.sigs[out])
		manip("signature-of-a-non-participant-substituted", sb)
	}
	{
		om := c09CpAll(hs)
		k := rng.IntN(len(om))
		s, _ := c.sch.Sign(e.sk(c.xs[idx[k]]), []byte("another message"))
		om[k] = s
		manip("one-signature-on-another-message", om)
		manip("one-signature-missing", c09CpAll(hs)[:len(hs)-1])
		// one signature too many: refusing is fine, ignoring the surplus is fine too (the result is then the
		// honest aggregate); anything else must not verify
		r.Guard("C09/bdn/"+name+"/AggregateSignatures:one-signature-too-many", c.detail(P, nil), func() {
			agg, err := c.sch.AggregateSignatures(append(c09CpAll(hs), c09Cp(c.sigs[idx[0]])), c.refMask(P))
			if err == nil && !agg.Equal(refSig) {
				reject("one-signature-too-many", refPK, c.msg, agg, nil)
			}
		})
	}

	// ---- every construction route must behave like the reference route
	type route struct {
		name  string
		stray bool
		build func() *bdn.Mask
	}
	must := func(err error) {
		if err != nil {
			panic("mask operation failed: " + err.Error())
		}
	}
	routes := []route{
		{"setbit-random-order", false, func() *bdn.Mask {
			m := c.mustMask(-1)
			for _, k := range rng.Perm(len(idx)) {
				must(m.SetBit(idx[k], true))
			}
			return m
		}},
		{"NewMask(myKey)+setbit-others", false, func() *bdn.Mask {
			my := idx[rng.IntN(len(idx))]
			m := c.mustMask(my)
			for _, i := range idx {
				if i != my {
					must(m.SetBit(i, true))
				}
			}
			return m
		}},
		{"SetMask", false, func() *bdn.Mask {
			m := c.mustMask(-1)
			must(m.SetMask(P.bytes()))
			return m
		}},
		{"Merge-two-parts", false, func() *bdn.Mask {
			a, b := make(c09Pattern, n), make(c09Pattern, n)
			for _, i := range idx {
				switch rng.IntN(3) {
				case 0:
					a[i] = true
				case 1:
					b[i] = true
				default:
					a[i], b[i] = true, true
				}
			}
			m := c.mustMask(-1)
			must(m.Merge(a.bytes()))
			must(m.Merge(b.bytes()))
			return m
		}},
		{"setbit-some+Merge-rest", false, func() *bdn.Mask {
			m := c.mustMask(-1)
			rest := make(c09Pattern, n)
			for _, i := range idx {
				if rng.IntN(2) == 0 {
					must(m.SetBit(i, true))
				} else {
					rest[i] = true
				}
			}
			must(m.Merge(rest.bytes()))
			return m
		}},
		{"Clone-of-empty-base+setbit", false, func() *bdn.Mask {
			base := c.mustMask(-1)
			m := base.Clone()
			for _, i := range idx {
				must(m.SetBit(i, true))
			}
			if base.CountEnabled() != 0 {
				r.Violation("C09/bdn/"+name+"/Clone/original-changed-through-clone", "setting bits on a Clone changed the original mask", c.detail(P, map[string]any{"original": mon.Hex(base.Mask())}))
			}
			return m
		}},
		{"Clone-then-original-cleared", false, func() *bdn.Mask {
			orig := c.refMask(P)
			m := orig.Clone()
			for i := 0; i < n; i++ {
				must(orig.SetBit(i, false))
			}
			return m
		}},
		{"set-all-then-clear", false, func() *bdn.Mask {
			m := c.mustMask(-1)
			for i := 0; i < n; i++ {
				must(m.SetBit(i, true))
			}
			for _, i := range rng.Perm(n) {
				if !P[i] {
					must(m.SetBit(i, false))
				}
			}
			return m
		}},
		{"other-pattern-overwritten-by-SetMask", false, func() *bdn.Mask {
			o, _ := c09MakePattern(rng, n, 99)
			m := c.refMask(o)
			must(m.SetMask(P.bytes()))
			return m
		}},
		{"NewMask(myKey)+Clone+SetMask", false, func() *bdn.Mask {
			m := c.mustMask(rng.IntN(n)).Clone()
			must(m.SetMask(P.bytes()))
			return m
		}},
	}
	if n%8 != 0 {
		routes = append(routes, route{"SetMask-with-stray-bits-beyond-n", true, func() *bdn.Mask {
			b := P.bytes()
			b[len(b)-1] |= byte(0xff) << uint(n%8)
			m := c.mustMask(-1)
			must(m.SetMask(b))
			return m
		}})
	}
	for _, rt := range routes {
		rt := rt
		key := "C09/bdn/" + name + "/route:" + rt.name
		r.Guard(key, c.detail(P, map[string]any{"route": rt.name}), func() {
			m := rt.build()
			c.checkAccessors(rt.name, m, P, rt.stray)
			r.Eval("bdn/route-equals-reference/"+rt.name, desc, true)
			pk, err := c.sch.AggregatePublicKeys(m)
			if err != nil {
				r.Violation(key+"/AggregatePublicKeys-error", "AggregatePublicKeys failed on a mask built by route "+rt.name+": "+err.Error(), c.detail(P, nil))
				return
			}
			sg, err := c.sch.AggregateSignatures(c.sigsFor(P), m)
			if err != nil {
				r.Violation(key+"/AggregateSignatures-error", "AggregateSignatures failed on a mask built by route "+rt.name+": "+err.Error(), c.detail(P, nil))
				return
			}
			if !pk.Equal(refPK) || string(groups.Enc(pk)) != string(groups.Enc(refPK)) {
				r.Violation(key+"/aggregate-key-differs", "same bit pattern, different aggregate key (route "+rt.name+" vs NewMask(nil)+SetBit)", c.detail(P, map[string]any{"got": mon.Hex(groups.Enc(pk)), "want": mon.Hex(groups.Enc(refPK))}))
			}
			if !sg.Equal(refSig) || string(groups.Enc(sg)) != string(groups.Enc(refSig)) {
				r.Violation(key+"/aggregate-signature-differs", "same bit pattern, different aggregate signature (route "+rt.name+" vs NewMask(nil)+SetBit)", c.detail(P, map[string]any{"got": mon.Hex(groups.Enc(sg)), "want": mon.Hex(groups.Enc(refSig))}))
			}
		})
	}

	// ---- random operation sequence with a shadow bit vector
	c.randomSequence(rng)
}

// randomSequence drives one mask through random SetBit/SetMask/Merge/Clone
// steps; the bits < n must follow the shadow after every step and the final
// aggregates must equal those of the reference route for the final pattern.
func (c *c09BDNCtx) randomSequence(rng *gen.Rng) {
	r, n, name := c.r, c.n, c.e.cb.name
	var hist []string
	sh := make(c09Pattern, n)
	my := -1
	key := "C09/bdn/" + name + "/mask-sequence:from-NewMask(nil)"
	if rng.IntN(3) == 0 {
		my = rng.IntN(n)
		key = "C09/bdn/" + name + "/mask-sequence:from-NewMask(myKey)"
	}
	r.Guard(key, map[string]any{"combination": name, "job": c.job, "history": &hist}, func() {
		var m *bdn.Mask
		if my >= 0 {
			m = c.mustMask(my)
			sh[my] = true
			hist = append(hist, fmt.Sprintf("NewMask(myKey=%d)", my))
		} else {
			m = c.mustMask(-1)
			hist = append(hist, "NewMask(nil)")
		}
		steps := 6 + rng.IntN(10)
		for s := 0; s < steps; s++ {
			switch op := rng.IntN(10); {
			case op < 4:
				i, b := rng.IntN(n), rng.IntN(3) != 0
				hist = append(hist, fmt.Sprintf("SetBit(%d,%v)", i, b))
				if err := m.SetBit(i, b); err != nil {
					panic("SetBit in range failed: " + err.Error())
				}
				sh[i] = b
			case op == 4:
				hist = append(hist, fmt.Sprintf("SetBit(%d,true) [out of range]", n))
				if err := m.SetBit(n, true); err == nil {
					hist = append(hist, "  (accepted)")
				}
			case op < 7:
				p, _ := c09MakePattern(rng, n, 99)
				if rng.IntN(4) == 0 {
					p = make(c09Pattern, n)
				}
				hist = append(hist, "SetMask("+p.String()+")")
				if err := m.SetMask(p.bytes()); err != nil {
					panic("SetMask with matching length failed: " + err.Error())
				}
				sh = p.clone()
			case op < 9:
				p, _ := c09MakePattern(rng, n, 99)
				hist = append(hist, "Merge("+p.String()+")")
				if err := m.Merge(p.bytes()); err != nil {
					panic("Merge with matching length failed: " + err.Error())
				}
				for i := range sh {
					sh[i] = sh[i] || p[i]
				}
			default:
				hist = append(hist, "Clone (continue on the clone, clear the original)")
				old := m
				m = m.Clone()
				for i := 0; i < n; i++ {
					_ = old.SetBit(i, false)
				}
			}
			r.Eval("bdn/mask-sequence/step", fmt.Sprintf("%s|%s|%d", name, c.job, s), true)
			got := c09PatternFromBytes(m.Mask(), n)
			if !got.equal(sh) || m.CountEnabled() != sh.count() {
				r.Violation(key+"/state-diverged", "bdn.Mask bits do not follow the operations applied", map[string]any{"combination": name, "job": c.job, "history": append([]string(nil), hist...), "got": got.String(), "want": sh.String(), "count": m.CountEnabled()})
				return
			}
		}
		if sh.count() == 0 {
			return
		}
		r.Eval("bdn/mask-sequence/final-aggregates", fmt.Sprintf("%s|%s|%s", name, c.job, sh), true)
		ref := c.refMask(sh)
		wpk, err1 := c.sch.AggregatePublicKeys(ref)
		wsg, err2 := c.sch.AggregateSignatures(c.sigsFor(sh), ref)
		if err1 != nil || err2 != nil {
			panic(fmt.Sprint("reference aggregate failed: ", err1, err2))
		}
		pk, err1 := c.sch.AggregatePublicKeys(m)
		sg, err2 := c.sch.AggregateSignatures(c.sigsFor(sh), m)
		if err1 != nil || err2 != nil || !pk.Equal(wpk) || !sg.Equal(wsg) {
			r.Violation(key+"/final-aggregates-differ", "after a sequence of mask operations the aggregates differ from those of a freshly built mask with the same bits",
				map[string]any{"combination": name, "job": c.job, "history": append([]string(nil), hist...), "pattern": sh.String(), "errors": fmt.Sprint(err1, err2)})
		}
	})
}
