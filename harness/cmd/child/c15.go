package main

// C15 — verifiable shuffles verify only re-encryption permutations of the input.
//
// The monitor plays both roles around the real verifier code
// (proof.HashVerify over shuffle.Verifier / shuffle.BiffleVerifier /
// (*shuffle.SimpleShuffle).Verify):
//
//   - an honest shuffler (shuffle.Shuffle, (*PairShuffle).Prove with a chosen
//     permutation, (*SimpleShuffle).Prove, shuffle.Biffle, SequencesShuffle) whose
//     proofs must verify;
//   - a party that presents an honest proof for an altered statement (one output
//     replaced, swapped, duplicated, summed, scaled; an input replaced; G, H or the
//     protocol name altered), which must be rejected;
//   - a *cheating prover* (c15_forge.go) that writes a transcript of the right
//     shape for an output the harness knows not to be a permutation of
//     re-encryptions, recomputing the Fiat-Shamir challenges honestly; every such
//     transcript must be rejected;
//   - a man in the middle that splices two honest transcripts or flips a bit in
//     every transcript field (c15_mut.go); every result must be rejected.
//
// Ground truth. The harness generates G = g·B, H = h·G and all ciphertexts
// itself, so it holds the decryption key h. For outputs in the prime-order
// subgroup (all points here are multiples of B) "(X̄,Ȳ) is a re-encryption of
// (X,Y) under (G,H)" is equivalent to Ȳ − h·X̄ = Y − h·X. The statement "the
// output is a permutation of re-encryptions of the input" is therefore decided
// by a perfect-matching test on the k×k matrix of plaintext equalities (one
// common permutation for all sequences of a sequence shuffle). Soundness cases
// are judged only when this oracle says the statement is false (DESIGN §6b).

import (
	"bytes"
	"crypto/cipher"
	"crypto/sha256"
	"fmt"
	"sort"
	"strings"

	"go.dedis.ch/kyber/v4"
	"go.dedis.ch/kyber/v4/group/edwards25519"
	"go.dedis.ch/kyber/v4/group/p256"
	"go.dedis.ch/kyber/v4/proof"
	"go.dedis.ch/kyber/v4/shuffle"

	"verif/internal/gen"
	"verif/internal/groups"
	"verif/internal/mon"
)

func init() { register("C15", c15) }

// c15Suite is a proof.Suite whose RandomStream is a seeded XOF (the P-256 suite
// has no WithRand constructor; HashProve draws the prover's private randomness
// from suite.RandomStream()).
type c15Suite struct {
	proof.Suite
	rs cipher.Stream
}

func (s *c15Suite) RandomStream() cipher.Stream { return s.rs }

type c15Env struct {
	name   string
	mk     func() proof.Suite
	nullRT bool // decode(encode(identity)) works
}

func c15Envs() []*c15Env {
	envs := []*c15Env{
		{name: "ed25519", mk: func() proof.Suite { return edwards25519.NewBlakeSHA256Ed25519() }},
		{name: "p256", mk: func() proof.Suite { return p256.NewBlakeSHA256P256() }},
	}
	for _, e := range envs {
		s := e.mk()
		_, p := mon.Try(func() {
			b, err := s.Point().Null().MarshalBinary()
			if err != nil {
				panic(err)
			}
			q := s.Point()
			if err := q.UnmarshalBinary(b); err != nil {
				panic(err)
			}
			if !q.Equal(s.Point().Null()) {
				panic("identity round trip changed the value")
			}
			// identity must also survive arithmetic used by the instance generator
			if !s.Point().Add(q, s.Point().Base()).Equal(s.Point().Base()) {
				panic("O+B != B")
			}
		})
		e.nullRT = !p
	}
	return envs
}

// c15V is a violation buffered by a job; flushed in job order after the
// parallel phase so that the witness kept per class key is the one of the
// lowest job index (deterministic, and the smallest instance).
type c15V struct {
	key, what string
	detail    map[string]any
}

// c15J is the context of one job.
type c15J struct {
	r         *mon.R
	env       *c15Env
	s         *c15Suite
	rng       *gen.Rng
	st        cipher.Stream
	id        string
	pairScale kyber.Scalar // eq33pair: factor of the second coordinated slot, exported by the tampering prover
	viol      []c15V
	samp      []c15S
}

type c15S struct {
	tag string
	v   any
}

func c15NewJ(r *mon.R, env *c15Env, label string, idx int) *c15J {
	rng := gen.New(r.Seed, "C15/"+env.name+"/"+label, idx)
	j := &c15J{r: r, env: env, rng: rng, id: fmt.Sprintf("%s/%s/%d", env.name, label, idx)}
	j.s = &c15Suite{Suite: env.mk(), rs: rng.Stream()}
	j.st = rng.Stream()
	return j
}

// sample buffers an evidence sample (flushed in job order, one per tag).
func (j *c15J) sample(tag string, v any) { j.samp = append(j.samp, c15S{tag, v}) }

func (j *c15J) violation(key, what string, detail map[string]any) {
	detail["env"] = j.env.name
	detail["job"] = j.id
	j.viol = append(j.viol, c15V{key, what, detail})
}

// ---- small helpers -------------------------------------------------------

func (j *c15J) rs() kyber.Scalar { return j.s.Scalar().Pick(j.st) }
func (j *c15J) nz() kyber.Scalar {
	for {
		x := j.rs()
		if !x.Equal(j.s.Scalar().Zero()) {
			return x
		}
	}
}
func (j *c15J) si(v int64) kyber.Scalar { return j.s.Scalar().SetInt64(v) }

// cp makes an independent copy by encode→decode.
func (j *c15J) cp(p kyber.Point) kyber.Point {
	if p == nil {
		return nil
	}
	q := j.s.Point()
	if err := q.UnmarshalBinary(groups.Enc(p)); err != nil {
		panic("harness: decode of an encoding the library produced failed: " + err.Error())
	}
	return q
}
func (j *c15J) cps(ps []kyber.Point) []kyber.Point {
	out := make([]kyber.Point, len(ps))
	for i, p := range ps {
		out[i] = j.cp(p)
	}
	return out
}
func (j *c15J) cpss(ps [][]kyber.Point) [][]kyber.Point {
	out := make([][]kyber.Point, len(ps))
	for i, p := range ps {
		out[i] = j.cps(p)
	}
	return out
}

// shallow clones of slices (elements are never mutated by the harness; the
// verifier always gets deep copies).
func c15Dup(ps []kyber.Point) []kyber.Point { return append([]kyber.Point(nil), ps...) }

func c15HexP(p kyber.Point) string {
	if p == nil {
		return "nil"
	}
	return mon.Hex(groups.Enc(p))
}
func c15HexPs(ps []kyber.Point) []string {
	out := make([]string, len(ps))
	for i, p := range ps {
		out[i] = c15HexP(p)
	}
	return out
}
func c15HexS(s kyber.Scalar) string { return mon.Hex(groups.Enc(s)) }
func c15HexSs(ss []kyber.Scalar) []string {
	out := make([]string, len(ss))
	for i, s := range ss {
		out[i] = c15HexS(s)
	}
	return out
}
func c15HexProof(b []byte) any {
	if len(b) <= 6000 {
		return mon.Hex(b)
	}
	h := sha256.Sum256(b)
	return map[string]any{"len": len(b), "sha256": mon.Hex(h[:]), "head": mon.Hex(b[:256])}
}
func c15Perm(pi []int) string {
	var sb strings.Builder
	for i, v := range pi {
		if i > 0 {
			sb.WriteByte(',')
		}
		fmt.Fprintf(&sb, "%d", v)
	}
	return sb.String()
}
func c15Err(err error) string {
	if err == nil {
		return "accepted"
	}
	return err.Error()
}

// ---- instances -------------------------------------------------------------

// c15Inst is a list of ElGamal pairs under (G,H) whose secrets the harness knows.
type c15Inst struct {
	k      int
	flavor string
	gnil   bool         // hand nil to the API as G (documented: standard base point)
	hS     kyber.Scalar // H = hS·G
	G, H   kyber.Point
	X, Y   []kyber.Point
}

// aG is G as handed to the library.
func (in *c15Inst) aG() kyber.Point {
	if in.gnil {
		return nil
	}
	return in.G
}

var c15Flavors = []string{"random", "random", "random", "dup-plain", "dup-pair", "null-plain", "zero-r"}

func (j *c15J) pairs(in *c15Inst, k int, flavor string) (X, Y []kyber.Point) {
	s := j.s
	X = make([]kyber.Point, k)
	Y = make([]kyber.Point, k)
	var r0, m0 kyber.Scalar
	for i := 0; i < k; i++ {
		rr, m := j.rs(), j.rs()
		switch {
		case flavor == "null-plain" && i == 0:
			m = s.Scalar().Zero()
		case flavor == "zero-r" && i == 0:
			rr = s.Scalar().Zero()
		case flavor == "dup-plain" && i == 1:
			m = m0.Clone()
		case flavor == "dup-pair" && i == 1:
			rr, m = r0.Clone(), m0.Clone()
		}
		if i == 0 {
			r0, m0 = rr, m
		}
		X[i] = s.Point().Mul(rr, in.G)
		Y[i] = s.Point().Add(s.Point().Mul(rr, in.H), s.Point().Mul(m, in.G))
	}
	return
}

func (j *c15J) inst(k int, flavor string, gnil bool) *c15Inst {
	s := j.s
	if flavor == "zero-r" && !j.env.nullRT {
		flavor = "random"
	}
	in := &c15Inst{k: k, flavor: flavor, gnil: gnil}
	if gnil {
		in.G = s.Point().Base()
	} else {
		in.G = s.Point().Mul(j.nz(), nil)
	}
	in.hS = j.nz()
	in.H = s.Point().Mul(in.hS, in.G)
	in.X, in.Y = j.pairs(in, k, flavor)
	return in
}

// fresh returns a fresh encryption of a fresh random plaintext.
func (j *c15J) fresh(in *c15Inst) (kyber.Point, kyber.Point) {
	rr, m := j.rs(), j.nz()
	return j.s.Point().Mul(rr, in.G), j.s.Point().Add(j.s.Point().Mul(rr, in.H), j.s.Point().Mul(m, in.G))
}

// reenc builds the honest output for (pi, beta) exactly as shuffle.Shuffle does:
// out[i] = in[pi[i]] + beta[pi[i]]·(G,H).
func (j *c15J) reenc(in *c15Inst, X, Y []kyber.Point, pi []int, beta []kyber.Scalar) (Xb, Yb []kyber.Point) {
	s := j.s
	k := len(X)
	Xb = make([]kyber.Point, k)
	Yb = make([]kyber.Point, k)
	for i := 0; i < k; i++ {
		Xb[i] = s.Point().Add(s.Point().Mul(beta[pi[i]], in.G), X[pi[i]])
		Yb[i] = s.Point().Add(s.Point().Mul(beta[pi[i]], in.H), Y[pi[i]])
	}
	return
}

// ---- ground truth ------------------------------------------------------------

// isShuffle decides, with the decryption key h (H = h·G), whether there is ONE
// permutation pi such that for every sequence q and every i, (Xb[q][i],Yb[q][i])
// is a re-encryption of (X[q][pi(i)],Y[q][pi(i)]). All points are in the
// prime-order subgroup by construction.
func (j *c15J) isShuffle(h kyber.Scalar, X, Y, Xb, Yb [][]kyber.Point) bool {
	s := j.s
	nq, k := len(X), len(X[0])
	E := make([][]bool, k)
	for i := range E {
		E[i] = make([]bool, k)
		for c := range E[i] {
			E[i][c] = true
		}
	}
	for q := 0; q < nq; q++ {
		din := make([][]byte, k)
		dout := make([][]byte, k)
		for i := 0; i < k; i++ {
			din[i] = groups.Enc(s.Point().Sub(Y[q][i], s.Point().Mul(h, X[q][i])))
			dout[i] = groups.Enc(s.Point().Sub(Yb[q][i], s.Point().Mul(h, Xb[q][i])))
		}
		for i := 0; i < k; i++ {
			for c := 0; c < k; c++ {
				if !bytes.Equal(dout[i], din[c]) {
					E[i][c] = false
				}
			}
		}
	}
	// Kuhn's augmenting paths
	match := make([]int, k)
	for i := range match {
		match[i] = -1
	}
	var try func(i int, seen []bool) bool
	try = func(i int, seen []bool) bool {
		for c := 0; c < k; c++ {
			if E[i][c] && !seen[c] {
				seen[c] = true
				if match[c] < 0 || try(match[c], seen) {
					match[c] = i
					return true
				}
			}
		}
		return false
	}
	for i := 0; i < k; i++ {
		if !try(i, make([]bool, k)) {
			return false
		}
	}
	return true
}

func (j *c15J) isShuffle1(in *c15Inst, X, Y, Xb, Yb []kyber.Point) bool {
	return j.isShuffle(in.hS, [][]kyber.Point{X}, [][]kyber.Point{Y}, [][]kyber.Point{Xb}, [][]kyber.Point{Yb})
}

// ---- running the real verifier ----------------------------------------------

// verify runs proof.HashVerify with mk() building the verifier from per-party
// copies; a panic is recorded as a violation (hostile proofs must yield errors).
func (j *c15J) verify(scheme, what, name string, mk func() proof.Verifier, prf []byte, detail func() map[string]any) (err error, ok bool) {
	p, panicked := mon.Try(func() {
		err = proof.HashVerify(j.s, name, mk(), append([]byte(nil), prf...))
	})
	if panicked {
		d := detail()
		d["panic"] = p
		d["proof"] = c15HexProof(prf)
		j.violation("C15/"+scheme+"/"+what+"/verify/panic", "verifier panicked: "+p, d)
		return nil, false
	}
	return err, true
}

func (j *c15J) pairVerifier(G, H kyber.Point, X, Y, Xb, Yb []kyber.Point) func() proof.Verifier {
	return func() proof.Verifier {
		return shuffle.Verifier(j.s, j.cp(G), j.cp(H), j.cps(X), j.cps(Y), j.cps(Xb), j.cps(Yb))
	}
}

// c15Stmt is a pair-shuffle statement as handed to the verifier.
type c15Stmt struct {
	G, H         kyber.Point // G may be nil
	X, Y, Xb, Yb []kyber.Point
	name         string
}

func (st *c15Stmt) clone() *c15Stmt {
	return &c15Stmt{G: st.G, H: st.H, X: c15Dup(st.X), Y: c15Dup(st.Y), Xb: c15Dup(st.Xb), Yb: c15Dup(st.Yb), name: st.name}
}
func (st *c15Stmt) digest() string {
	h := sha256.New()
	w := func(p kyber.Point) {
		if p == nil {
			h.Write([]byte{0})
		} else {
			h.Write(groups.Enc(p))
		}
	}
	w(st.G)
	w(st.H)
	for _, l := range [][]kyber.Point{st.X, st.Y, st.Xb, st.Yb} {
		for _, p := range l {
			w(p)
		}
	}
	h.Write([]byte(st.name))
	return string(h.Sum(nil))
}
func (st *c15Stmt) detail() map[string]any {
	return map[string]any{"G": c15HexP(st.G), "H": c15HexP(st.H), "X": c15HexPs(st.X), "Y": c15HexPs(st.Y),
		"Xbar": c15HexPs(st.Xb), "Ybar": c15HexPs(st.Yb), "protocol_name": st.name}
}

// c15Alt is one alteration of an honest statement.
type c15Alt struct {
	name string
	// apply edits st; returns the decryption key valid for the edited (G,H)
	// (nil = keep in.hS) and false if not applicable.
	apply func(j *c15J, in *c15Inst, st *c15Stmt, a, b int) (kyber.Scalar, bool)
}

func c15PairAlts() []c15Alt {
	return []c15Alt{
		{"replace-pair", func(j *c15J, in *c15Inst, st *c15Stmt, a, b int) (kyber.Scalar, bool) {
			st.Xb[a], st.Yb[a] = j.fresh(in)
			return nil, true
		}},
		{"replace-X-only", func(j *c15J, in *c15Inst, st *c15Stmt, a, b int) (kyber.Scalar, bool) {
			st.Xb[a] = j.s.Point().Add(st.Xb[a], in.G)
			return nil, true
		}},
		{"replace-Y-only", func(j *c15J, in *c15Inst, st *c15Stmt, a, b int) (kyber.Scalar, bool) {
			st.Yb[a] = j.s.Point().Add(st.Yb[a], in.G)
			return nil, true
		}},
		{"swap-X-only", func(j *c15J, in *c15Inst, st *c15Stmt, a, b int) (kyber.Scalar, bool) {
			st.Xb[a], st.Xb[b] = st.Xb[b], st.Xb[a]
			return nil, true
		}},
		{"swap-pairs-without-reproof", func(j *c15J, in *c15Inst, st *c15Stmt, a, b int) (kyber.Scalar, bool) {
			st.Xb[a], st.Xb[b] = st.Xb[b], st.Xb[a]
			st.Yb[a], st.Yb[b] = st.Yb[b], st.Yb[a]
			return nil, true
		}},
		{"duplicate-output", func(j *c15J, in *c15Inst, st *c15Stmt, a, b int) (kyber.Scalar, bool) {
			st.Xb[b], st.Yb[b] = st.Xb[a], st.Yb[a]
			return nil, true
		}},
		{"homomorphic-sum", func(j *c15J, in *c15Inst, st *c15Stmt, a, b int) (kyber.Scalar, bool) {
			st.Xb[a] = j.s.Point().Add(st.Xb[a], st.Xb[b])
			st.Yb[a] = j.s.Point().Add(st.Yb[a], st.Yb[b])
			return nil, true
		}},
		{"scalar-multiple", func(j *c15J, in *c15Inst, st *c15Stmt, a, b int) (kyber.Scalar, bool) {
			c := j.si(2 + int64(j.rng.IntN(5)))
			st.Xb[a] = j.s.Point().Mul(c, st.Xb[a])
			st.Yb[a] = j.s.Point().Mul(c, st.Yb[a])
			return nil, true
		}},
		{"extra-rerandomisation", func(j *c15J, in *c15Inst, st *c15Stmt, a, b int) (kyber.Scalar, bool) {
			d := j.nz()
			st.Xb[a] = j.s.Point().Add(st.Xb[a], j.s.Point().Mul(d, in.G))
			st.Yb[a] = j.s.Point().Add(st.Yb[a], j.s.Point().Mul(d, in.H))
			return nil, true
		}},
		{"input-replaced", func(j *c15J, in *c15Inst, st *c15Stmt, a, b int) (kyber.Scalar, bool) {
			st.X[a], st.Y[a] = j.fresh(in)
			return nil, true
		}},
		{"input-overwritten-by-other-input", func(j *c15J, in *c15Inst, st *c15Stmt, a, b int) (kyber.Scalar, bool) {
			st.X[a], st.Y[a] = st.X[b], st.Y[b]
			return nil, true
		}},
		{"input-swap-X-only", func(j *c15J, in *c15Inst, st *c15Stmt, a, b int) (kyber.Scalar, bool) {
			st.X[a], st.X[b] = st.X[b], st.X[a]
			return nil, true
		}},
		{"G-altered", func(j *c15J, in *c15Inst, st *c15Stmt, a, b int) (kyber.Scalar, bool) {
			// G' = 2G, so H = (h/2)·G'
			two := j.si(2)
			st.G = j.s.Point().Mul(two, in.G)
			return j.s.Scalar().Div(in.hS, two), true
		}},
		{"H-altered", func(j *c15J, in *c15Inst, st *c15Stmt, a, b int) (kyber.Scalar, bool) {
			st.H = j.s.Point().Add(in.H, in.G)
			return j.s.Scalar().Add(in.hS, j.s.Scalar().One()), true
		}},
		{"protocol-name-altered", func(j *c15J, in *c15Inst, st *c15Stmt, a, b int) (kyber.Scalar, bool) {
			st.name += "x"
			return nil, true
		}},
	}
}

// wrongStatements presents the honest proof prf of statement st0 with every
// alteration. scheme is "pair" or (consolidated sequence statement) "sequences".
func (j *c15J) wrongStatements(scheme string, in *c15Inst, st0 *c15Stmt, prf []byte, desc string) {
	k := len(st0.X)
	d0 := st0.digest()
	for _, alt := range c15PairAlts() {
		a := j.rng.IntN(k)
		b := (a + 1 + j.rng.IntN(k-1)) % k
		st := st0.clone()
		hEff, ok := alt.apply(j, in, st, a, b)
		if !ok {
			continue
		}
		if hEff == nil {
			hEff = in.hS
		}
		class := scheme + "/wrong-statement/" + alt.name
		if st.digest() == d0 {
			j.r.Eval(class+"/no-op-skipped", j.id+desc, false)
			continue
		}
		Gv := st.G
		if Gv == nil {
			Gv = in.G
		}
		stillTrue := j.isShuffle(hEff, [][]kyber.Point{st.X}, [][]kyber.Point{st.Y}, [][]kyber.Point{st.Xb}, [][]kyber.Point{st.Yb})
		if stillTrue {
			// the altered statement is still a valid shuffle; the proof was made
			// for other public values ("public parameters altered")
			class += "+statement-still-true"
		}
		err, ok := j.verify(scheme, "wrong-statement/"+alt.name, st.name, j.pairVerifier(st.G, st.H, st.X, st.Y, st.Xb, st.Yb), prf, st.detail)
		if !ok {
			continue
		}
		j.r.Eval(class, j.id+desc+fmt.Sprintf("|a=%d,b=%d", a, b), true)
		j.sample(fmt.Sprintf("%s/wrong-statement/still-true=%v", scheme, stillTrue), map[string]any{"class": class, "env": j.env.name, "k": k, "slots": []int{a, b}, "ground_truth_statement_still_a_shuffle": stillTrue, "verdict": c15Err(err)})
		if err == nil {
			d := st.detail()
			d["alteration"] = alt.name
			d["slots"] = []int{a, b}
			d["k"] = k
			d["statement_still_a_shuffle"] = stillTrue
			d["proof"] = c15HexProof(prf)
			j.violation("C15/"+scheme+"/wrong-statement/"+alt.name+"/accepted",
				"honest proof accepted for an altered statement ("+alt.name+")", d)
		}
	}
}

// ---- honest pair shuffle ---------------------------------------------------------

// pairProve runs (*PairShuffle).Prove with a chosen permutation and blinding.
func (j *c15J) pairProve(in *c15Inst, X, Y []kyber.Point, pi []int, beta []kyber.Scalar) ([]byte, error) {
	ps := new(shuffle.PairShuffle).Init(j.s, len(X))
	prover := func(ctx proof.ProverContext) error {
		return ps.Prove(append([]int(nil), pi...), in.aG(), in.H, beta, X, Y, j.st, ctx)
	}
	return proof.HashProve(j.s, "PairShuffle", prover)
}

func (j *c15J) betas(k int, withZero bool) []kyber.Scalar {
	beta := make([]kyber.Scalar, k)
	for i := range beta {
		beta[i] = j.rs()
	}
	if withZero {
		beta[j.rng.IntN(k)] = j.s.Scalar().Zero()
	}
	return beta
}

// jobPair: one honest pair shuffle (mode "prove": chosen pi through Prove;
// mode "shuffle": shuffle.Shuffle draws pi from the stream), then all wrong
// statements for its proof.
func (j *c15J) jobPair(mode string, k int, pi []int, flavor string, gnil bool) {
	in := j.inst(k, flavor, gnil)
	var Xb, Yb []kyber.Point
	var prf []byte
	var err error
	desc := fmt.Sprintf("|k=%d|%s|gnil=%v", k, flavor, gnil)
	class := "pair/honest/"
	switch mode {
	case "prove":
		beta := j.betas(k, flavor == "zero-beta" || j.rng.IntN(4) == 0)
		Xb, Yb = j.reenc(in, in.X, in.Y, pi, beta)
		prf, err = j.pairProve(in, in.X, in.Y, pi, beta)
		desc += "|pi=" + c15Perm(pi)
		class += "Prove-chosen-permutation"
		j.r.Op("shuffle.PairShuffle.Init", "shuffle.PairShuffle.Prove")
	default:
		var prover proof.Prover
		Xb, Yb, prover = shuffle.Shuffle(j.s, in.aG(), in.H, c15Dup(in.X), c15Dup(in.Y), j.st)
		prf, err = proof.HashProve(j.s, "PairShuffle", prover)
		class += "Shuffle-random-permutation"
		j.r.Op("shuffle.Shuffle")
		// the prover returned by Shuffle may be run again (e.g. to re-issue the proof): every proof it produces must verify
		if err == nil {
			for rep := 2; rep <= 3; rep++ {
				prf2, err2 := proof.HashProve(j.s, "PairShuffle", prover)
				j.r.Eval("pair/honest/prover-run-again", fmt.Sprintf("%s%s|rep=%d", j.id, desc, rep), true)
				st2 := &c15Stmt{G: in.aG(), H: in.H, X: in.X, Y: in.Y, Xb: Xb, Yb: Yb, name: "PairShuffle"}
				if err2 != nil {
					d := st2.detail()
					d["error"] = err2.Error()
					d["run"] = rep
					j.violation("C15/pair/honest/prover-run-again/prove-error", "the prover returned by Shuffle fails when run a second time: "+err2.Error(), d)
					break
				}
				if verr2, ok2 := j.verify("pair", "honest-prover-run-again", st2.name, j.pairVerifier(st2.G, st2.H, st2.X, st2.Y, st2.Xb, st2.Yb), prf2, st2.detail); ok2 && verr2 != nil {
					d := st2.detail()
					d["error"] = verr2.Error()
					d["run"] = rep
					j.violation("C15/pair/honest/prover-run-again/rejected", fmt.Sprintf("proof number %d produced by the same honest prover is rejected: %v", rep, verr2), d)
					break
				}
			}
		}
	}
	j.r.Op("proof.HashProve", "proof.HashVerify", "shuffle.Verifier", "shuffle.PairShuffle.Verify", "shuffle.SimpleShuffle.Verify")
	st := &c15Stmt{G: in.aG(), H: in.H, X: in.X, Y: in.Y, Xb: Xb, Yb: Yb, name: "PairShuffle"}
	if err != nil {
		d := st.detail()
		d["error"] = err.Error()
		j.r.Eval(class, j.id+desc, true)
		j.violation("C15/pair/honest/prove-error", "honest prover returned an error: "+err.Error(), d)
		return
	}
	// the shuffler's output must itself be a shuffle (ground truth)
	if !j.isShuffle1(in, in.X, in.Y, Xb, Yb) {
		d := st.detail()
		d["k"] = k
		j.violation("C15/pair/honest/output-not-a-shuffle", "output of the honest shuffler is not a permutation of re-encryptions of its input", d)
	}
	verr, ok := j.verify("pair", "honest", st.name, j.pairVerifier(st.G, st.H, st.X, st.Y, st.Xb, st.Yb), prf, st.detail)
	if !ok {
		return
	}
	j.r.Eval(class, j.id+desc, true)
	if k > 12 {
		j.r.Eval("pair/honest/k>12", j.id+desc, true)
	}
	if flavor != "random" {
		j.r.Eval("pair/honest/input-flavor/"+flavor, j.id+desc, true)
	}
	if verr != nil {
		d := st.detail()
		d["k"] = k
		d["pi"] = c15Perm(pi)
		d["flavor"] = flavor
		d["error"] = verr.Error()
		d["proof"] = c15HexProof(prf)
		j.violation("C15/pair/honest/rejected", "honest pair-shuffle proof rejected: "+verr.Error(), d)
		return
	}
	// reference re-verification (Neff's verifier incl. the binding of the embedded
	// simple shuffle to A+λB, C+λD): informational, see c15_forge.go
	ref := j.refPair(st, prf)
	j.r.NoteAdd("honest_pair_transcripts_checked_by_reference_verifier", 1)
	if ref.all() {
		j.r.NoteAdd("honest_pair_transcripts_satisfying_neff_binding", 1)
	} else {
		j.r.NoteAdd("honest_pair_transcripts_NOT_satisfying_reference_verifier", 1)
		j.r.Note("honest_pair_transcript_reference_mismatch_example", map[string]any{"job": j.id, "ref": ref.String()})
	}
	j.sample(class, map[string]any{"class": class, "env": j.env.name, "k": k, "pi": c15Perm(pi), "flavor": flavor, "G_nil": gnil,
		"proof_len": len(prf), "verdict": "accepted", "reference_verifier": ref.String()})
	j.wrongStatements("pair", in, st, prf, desc)
}

// ---- simple shuffle ------------------------------------------------------------------

func (j *c15J) simpleProve(G kyber.Point, gamma kyber.Scalar, x, y []kyber.Scalar) ([]byte, error) {
	ss := new(shuffle.SimpleShuffle).Init(j.s, len(x))
	prover := func(ctx proof.ProverContext) error { return ss.Prove(G, gamma, x, y, j.st, ctx) }
	return proof.HashProve(j.s, "SimpleShuffle", prover)
}

func (j *c15J) simpleVerifier(k int, G, Gamma kyber.Point) func() proof.Verifier {
	return func() proof.Verifier {
		vs := new(shuffle.SimpleShuffle).Init(j.s, k)
		g, gm := j.cp(G), j.cp(Gamma)
		return func(ctx proof.VerifierContext) error { return vs.Verify(g, gm, ctx) }
	}
}

func c15SortedEnc(ss []kyber.Scalar) []string {
	out := make([]string, len(ss))
	for i, s := range ss {
		out[i] = string(groups.Enc(s))
	}
	sort.Strings(out)
	return out
}

func (j *c15J) jobSimple(k int, pi []int, gnil bool) {
	s := j.s
	var G, aG kyber.Point
	if gnil {
		G = s.Point().Base()
	} else {
		G = s.Point().Mul(j.nz(), nil)
		aG = G
	}
	gamma := j.nz()
	Gamma := s.Point().Mul(gamma, G)
	x := make([]kyber.Scalar, k)
	y := make([]kyber.Scalar, k)
	for i := range x {
		x[i] = j.rs()
	}
	if j.rng.IntN(4) == 0 && k > 2 {
		x[1] = x[0].Clone() // repeated element
	}
	for i := range y {
		y[i] = s.Scalar().Mul(gamma, x[pi[i]])
	}
	desc := fmt.Sprintf("|k=%d|pi=%s|gnil=%v", k, c15Perm(pi), gnil)
	det := func() map[string]any {
		return map[string]any{"k": k, "G": c15HexP(aG), "Gamma": c15HexP(Gamma), "gamma": c15HexS(gamma), "x": c15HexSs(x), "pi": c15Perm(pi)}
	}
	j.r.Op("shuffle.SimpleShuffle.Init", "shuffle.SimpleShuffle.Prove", "shuffle.SimpleShuffle.Verify", "proof.HashProve", "proof.HashVerify")
	prf, err := j.simpleProve(aG, gamma, x, y)
	if err != nil {
		d := det()
		d["error"] = err.Error()
		j.r.Eval("simple/honest", j.id+desc, true)
		j.violation("C15/simple/honest/prove-error", "honest simple-shuffle prover returned an error: "+err.Error(), d)
		return
	}
	verr, ok := j.verify("simple", "honest", "SimpleShuffle", j.simpleVerifier(k, aG, Gamma), prf, det)
	if !ok {
		return
	}
	j.r.Eval("simple/honest", j.id+desc, true)
	if verr != nil {
		d := det()
		d["error"] = verr.Error()
		d["proof"] = c15HexProof(prf)
		j.violation("C15/simple/honest/rejected", "honest simple-shuffle proof rejected: "+verr.Error(), d)
		return
	}
	// the statement the proof speaks about is written in the transcript: it must
	// be the shuffler's (x·G, y·G)
	if tx, ty, e := j.simpleStatement(k, prf); e != nil {
		j.violation("C15/simple/honest/transcript-unreadable", "transcript of an accepted proof cannot be parsed: "+e.Error(), det())
	} else {
		same := true
		for i := 0; i < k; i++ {
			if !tx[i].Equal(s.Point().Mul(x[i], G)) || !ty[i].Equal(s.Point().Mul(y[i], G)) {
				same = false
			}
		}
		j.r.Eval("simple/honest/transcript-statement-is-input-output", j.id+desc, true)
		if !same {
			d := det()
			d["proof"] = c15HexProof(prf)
			j.violation("C15/simple/honest/statement-mismatch", "accepted simple-shuffle transcript speaks about other X,Y than x·G, y·G", d)
		}
	}
	j.sample("simple/honest", map[string]any{"class": "simple/honest", "env": j.env.name, "k": k, "pi": c15Perm(pi), "proof_len": len(prf), "verdict": "accepted"})

	// honest proof, altered public parameters
	type palt struct {
		name     string
		G, Gamma kyber.Point
		proto    string
	}
	palts := []palt{
		{"Gamma-altered", aG, s.Point().Add(Gamma, G), "SimpleShuffle"},
		{"Gamma-from-other-gamma", aG, s.Point().Mul(j.nz(), G), "SimpleShuffle"},
		{"G-altered", s.Point().Mul(j.si(2), G), Gamma, "SimpleShuffle"},
		{"protocol-name-altered", aG, Gamma, "SimpleShufflex"},
	}
	for _, pa := range palts {
		pa := pa
		d2 := func() map[string]any {
			d := det()
			d["alteration"] = pa.name
			d["G_given"] = c15HexP(pa.G)
			d["Gamma_given"] = c15HexP(pa.Gamma)
			return d
		}
		e, ok := j.verify("simple", "wrong-statement/"+pa.name, pa.proto, j.simpleVerifier(k, pa.G, pa.Gamma), prf, d2)
		if !ok {
			continue
		}
		j.r.Eval("simple/wrong-statement/"+pa.name, j.id+desc, true)
		if e == nil {
			d := d2()
			d["proof"] = c15HexProof(prf)
			j.violation("C15/simple/wrong-statement/"+pa.name+"/accepted", "honest simple-shuffle proof accepted under altered public parameters ("+pa.name+")", d)
		}
	}

	// the honest prover algorithm run on a false witness (y is not gamma·pi(x))
	type walt struct {
		name string
		mk   func() ([]kyber.Scalar, kyber.Scalar, bool)
	}
	a := j.rng.IntN(k)
	b := (a + 1 + j.rng.IntN(k-1)) % k
	cl := func() []kyber.Scalar {
		o := make([]kyber.Scalar, k)
		for i := range y {
			o[i] = y[i].Clone()
		}
		return o
	}
	walts := []walt{
		{"one-y-replaced", func() ([]kyber.Scalar, kyber.Scalar, bool) { o := cl(); o[a] = j.rs(); return o, gamma, true }},
		{"y-duplicated", func() ([]kyber.Scalar, kyber.Scalar, bool) { o := cl(); o[b] = o[a].Clone(); return o, gamma, true }},
		{"one-y-scaled", func() ([]kyber.Scalar, kyber.Scalar, bool) {
			o := cl()
			o[a] = s.Scalar().Mul(o[a], j.si(2))
			return o, gamma, true
		}},
		{"sum-preserving-shift", func() ([]kyber.Scalar, kyber.Scalar, bool) {
			o := cl()
			d := j.nz()
			o[a] = s.Scalar().Add(o[a], d)
			o[b] = s.Scalar().Sub(o[b], d)
			return o, gamma, true
		}},
		{"prover-uses-other-gamma", func() ([]kyber.Scalar, kyber.Scalar, bool) {
			// y = gamma'·pi(x), proved with gamma', verified against Gamma = gamma·G
			g2 := j.nz()
			o := make([]kyber.Scalar, k)
			for i := range o {
				o[i] = s.Scalar().Mul(g2, x[pi[i]])
			}
			return o, g2, true
		}},
	}
	for _, wa := range walts {
		y2, gp, _ := wa.mk()
		// ground truth: multiset {y2} == multiset {gamma·x} ?
		gx := make([]kyber.Scalar, k)
		for i := range gx {
			gx[i] = s.Scalar().Mul(gamma, x[i])
		}
		stmtTrue := strings.Join(c15SortedEnc(y2), "") == strings.Join(c15SortedEnc(gx), "")
		class := "simple/false-witness/" + wa.name
		if stmtTrue {
			j.r.Eval(class+"/statement-true-skipped", j.id+desc, false)
			continue
		}
		d2 := func() map[string]any {
			d := det()
			d["family"] = wa.name
			d["y"] = c15HexSs(y2)
			return d
		}
		var p2 []byte
		var perr error
		pm, panicked := mon.Try(func() { p2, perr = j.simpleProve(aG, gp, x, y2) })
		if panicked {
			// the prover is not the party the property protects; a panic on a false
			// witness is recorded as an observation only
			j.r.Eval(class+"/prover-panicked", j.id+desc, false)
			j.r.NoteAdd("simple_prover_panics_on_false_witness", 1)
			j.r.Note("simple_prover_panic_example", pm)
			continue
		}
		if perr != nil {
			j.r.Eval(class+"/prover-refused", j.id+desc, true)
			continue
		}
		e, ok := j.verify("simple", "false-witness/"+wa.name, "SimpleShuffle", j.simpleVerifier(k, aG, Gamma), p2, d2)
		if !ok {
			continue
		}
		j.r.Eval(class, j.id+desc, true)
		if e == nil {
			d := d2()
			d["proof"] = c15HexProof(p2)
			j.violation("C15/simple/false-witness/"+wa.name+"/accepted", "simple-shuffle proof accepted although Y is not gamma·permutation(X) ("+wa.name+")", d)
		}
	}
	j.simpleCut(k, aG, G, Gamma, gamma, x, y, desc, det)
}

// simpleCut confronts the simple-shuffle verifier with transcripts in which
// all equations but one hold (see simpleCutProver).
func (j *c15J) simpleCut(k int, aG, G, Gamma kyber.Point, gamma kyber.Scalar, x, y []kyber.Scalar, desc string, det func() map[string]any) {
	s := j.s
	// control: for the true statement every cut yields a fully valid transcript
	pc := j.rng.IntN(2 * k)
	if prf, err := proof.HashProve(j.s, "SimpleShuffle", j.simpleCutProver(G, gamma, x, y, pc)); err != nil {
		panic("harness: cut prover failed: " + err.Error())
	} else if e, ok := j.verify("simple", "harness-prover/true-statement", "SimpleShuffle", j.simpleVerifier(k, aG, Gamma), prf, det); ok {
		j.r.Eval("simple/harness-prover/true-statement", fmt.Sprintf("%s%s|p=%d", j.id, desc, pc), true)
		if e != nil {
			d := det()
			d["error"] = e.Error()
			d["proof"] = c15HexProof(prf)
			j.violation("C15/simple/harness-prover/true-statement/rejected", "a transcript satisfying every simple-shuffle equation for a true statement was rejected: "+e.Error(), d)
		}
	}
	// false statement: one y replaced
	y2 := make([]kyber.Scalar, k)
	for i := range y {
		y2[i] = y[i].Clone()
	}
	a := j.rng.IntN(k)
	y2[a] = s.Scalar().Add(y2[a], j.nz())
	gx := make([]kyber.Scalar, k)
	for i := range gx {
		gx[i] = s.Scalar().Mul(gamma, x[i])
	}
	if strings.Join(c15SortedEnc(y2), "") == strings.Join(c15SortedEnc(gx), "") {
		j.r.Eval("simple/cheating-prover/statement-true-skipped", j.id+desc, false)
		return
	}
	for p := 0; p < 2*k; p++ {
		var region string
		switch {
		case p == 0:
			region = "E_0"
		case p < k:
			region = "E_1..k-1"
		case p < 2*k-1:
			region = "E_k..2k-2"
		default:
			region = "E_2k-1"
		}
		p := p
		d2 := func() map[string]any {
			d := det()
			d["y"] = c15HexSs(y2)
			d["only_equation_violated"] = p
			return d
		}
		prf, err := proof.HashProve(j.s, "SimpleShuffle", j.simpleCutProver(G, gamma, x, y2, p))
		if err != nil {
			panic("harness: cut prover failed: " + err.Error())
		}
		e, ok := j.verify("simple", "cheating-prover/all-equations-but-one", "SimpleShuffle", j.simpleVerifier(k, aG, Gamma), prf, d2)
		if !ok {
			continue
		}
		j.r.Eval("simple/cheating-prover/all-equations-but-one/"+region, fmt.Sprintf("%s%s|p=%d", j.id, desc, p), true)
		if e == nil {
			d := d2()
			d["proof"] = c15HexProof(prf)
			j.violation("C15/simple/cheating-prover/all-equations-but-"+region+"/accepted",
				fmt.Sprintf("simple-shuffle transcript accepted although Y is not gamma·permutation(X); it violates only verification equation E_%d of 0..%d", p, 2*k-1), d)
		}
	}
}

// ---- sequences --------------------------------------------------------------------------

func (j *c15J) jobSeq(nq, k int, gnil bool) {
	s := j.s
	in := j.inst(k, "random", gnil)
	X := make([][]kyber.Point, nq)
	Y := make([][]kyber.Point, nq)
	X[0], Y[0] = in.X, in.Y
	for q := 1; q < nq; q++ {
		X[q], Y[q] = j.pairs(in, k, "random")
	}
	desc := fmt.Sprintf("|nq=%d|k=%d|gnil=%v", nq, k, gnil)
	j.r.Op("shuffle.SequencesShuffle", "shuffle.GetSequenceVerifiable", "shuffle.Verifier", "proof.HashProve", "proof.HashVerify")
	Xb, Yb, getProver := shuffle.SequencesShuffle(j.s, in.aG(), in.H, j.cpss(X), j.cpss(Y), j.st)
	e := make([]kyber.Scalar, nq)
	for q := range e {
		e[q] = j.nz()
	}
	if j.rng.IntN(3) == 0 {
		e[0] = s.Scalar().One() // Remark 7 of the paper
	}
	det := func() map[string]any {
		d := map[string]any{"nq": nq, "k": k, "G": c15HexP(in.aG()), "H": c15HexP(in.H), "e": c15HexSs(e)}
		for q := 0; q < nq; q++ {
			d[fmt.Sprintf("X[%d]", q)] = c15HexPs(X[q])
			d[fmt.Sprintf("Y[%d]", q)] = c15HexPs(Y[q])
			d[fmt.Sprintf("Xbar[%d]", q)] = c15HexPs(Xb[q])
			d[fmt.Sprintf("Ybar[%d]", q)] = c15HexPs(Yb[q])
		}
		return d
	}
	prover, err := getProver(e)
	var prf []byte
	if err == nil {
		prf, err = proof.HashProve(j.s, "PairShuffle", prover)
	}
	if err != nil {
		d := det()
		d["error"] = err.Error()
		j.r.Eval("sequences/honest", j.id+desc, true)
		j.violation("C15/sequences/honest/prove-error", "honest sequence-shuffle prover returned an error: "+err.Error(), d)
		return
	}
	if !j.isShuffle(in.hS, X, Y, Xb, Yb) {
		j.violation("C15/sequences/honest/output-not-a-shuffle", "output of SequencesShuffle is not one common permutation of re-encryptions of all sequences", det())
	}
	seqVerifier := func(X, Y, Xb, Yb [][]kyber.Point, e []kyber.Scalar, G, H kyber.Point) func() proof.Verifier {
		return func() proof.Verifier {
			ec := make([]kyber.Scalar, len(e))
			for i := range e {
				ec[i] = e[i].Clone()
			}
			xu, yu, xd, yd := shuffle.GetSequenceVerifiable(j.s, j.cpss(X), j.cpss(Y), j.cpss(Xb), j.cpss(Yb), ec)
			return shuffle.Verifier(j.s, j.cp(G), j.cp(H), xu, yu, xd, yd)
		}
	}
	verr, ok := j.verify("sequences", "honest", "PairShuffle", seqVerifier(X, Y, Xb, Yb, e, in.aG(), in.H), prf, det)
	if !ok {
		return
	}
	j.r.Eval("sequences/honest", j.id+desc, true)
	j.r.Eval(fmt.Sprintf("sequences/honest/NQ=%d", nq), j.id+desc, true)
	if verr != nil {
		d := det()
		d["error"] = verr.Error()
		d["proof"] = c15HexProof(prf)
		j.violation("C15/sequences/honest/rejected", "honest sequence-shuffle proof rejected: "+verr.Error(), d)
		return
	}
	j.sample("sequences/honest", map[string]any{"class": "sequences/honest", "env": j.env.name, "nq": nq, "k": k, "proof_len": len(prf), "verdict": "accepted"})

	// altered statements (per-sequence edits, judged on the full statement)
	type salt struct {
		name  string
		apply func(X, Y, Xb, Yb [][]kyber.Point, e []kyber.Scalar) []kyber.Scalar
	}
	a := j.rng.IntN(k)
	b := (a + 1 + j.rng.IntN(k-1)) % k
	q0 := j.rng.IntN(nq)
	salts := []salt{
		{"replace-output-in-one-sequence", func(X, Y, Xb, Yb [][]kyber.Point, e []kyber.Scalar) []kyber.Scalar {
			Xb[q0][a], Yb[q0][a] = j.fresh(in)
			return e
		}},
		{"swap-outputs-in-one-sequence", func(X, Y, Xb, Yb [][]kyber.Point, e []kyber.Scalar) []kyber.Scalar {
			Xb[q0][a], Xb[q0][b] = Xb[q0][b], Xb[q0][a]
			Yb[q0][a], Yb[q0][b] = Yb[q0][b], Yb[q0][a]
			return e
		}},
		{"swap-outputs-in-all-sequences-without-reproof", func(X, Y, Xb, Yb [][]kyber.Point, e []kyber.Scalar) []kyber.Scalar {
			for q := range Xb {
				Xb[q][a], Xb[q][b] = Xb[q][b], Xb[q][a]
				Yb[q][a], Yb[q][b] = Yb[q][b], Yb[q][a]
			}
			return e
		}},
		{"duplicate-output-in-one-sequence", func(X, Y, Xb, Yb [][]kyber.Point, e []kyber.Scalar) []kyber.Scalar {
			Xb[q0][b], Yb[q0][b] = Xb[q0][a], Yb[q0][a]
			return e
		}},
		{"homomorphic-sum-in-one-sequence", func(X, Y, Xb, Yb [][]kyber.Point, e []kyber.Scalar) []kyber.Scalar {
			Xb[q0][a] = s.Point().Add(Xb[q0][a], Xb[q0][b])
			Yb[q0][a] = s.Point().Add(Yb[q0][a], Yb[q0][b])
			return e
		}},
		{"input-overwritten-by-other-input", func(X, Y, Xb, Yb [][]kyber.Point, e []kyber.Scalar) []kyber.Scalar {
			X[q0][a], Y[q0][a] = X[q0][b], Y[q0][b]
			return e
		}},
		{"outputs-moved-between-sequences", func(X, Y, Xb, Yb [][]kyber.Point, e []kyber.Scalar) []kyber.Scalar {
			if nq < 2 {
				return nil
			}
			q1 := (q0 + 1) % nq
			Xb[q0][a], Xb[q1][a] = Xb[q1][a], Xb[q0][a]
			Yb[q0][a], Yb[q1][a] = Yb[q1][a], Yb[q0][a]
			return e
		}},
		{"verifier-challenge-e-altered", func(X, Y, Xb, Yb [][]kyber.Point, e []kyber.Scalar) []kyber.Scalar {
			e2 := make([]kyber.Scalar, len(e))
			for i := range e {
				e2[i] = e[i].Clone()
			}
			e2[q0] = s.Scalar().Add(e2[q0], s.Scalar().One())
			return e2
		}},
	}
	cl2 := func(p [][]kyber.Point) [][]kyber.Point {
		o := make([][]kyber.Point, len(p))
		for i := range p {
			o[i] = c15Dup(p[i])
		}
		return o
	}
	for _, sa := range salts {
		X2, Y2, Xb2, Yb2 := cl2(X), cl2(Y), cl2(Xb), cl2(Yb)
		e2 := sa.apply(X2, Y2, Xb2, Yb2, e)
		if e2 == nil {
			continue
		}
		class := "sequences/wrong-statement/" + sa.name
		if j.isShuffle(in.hS, X2, Y2, Xb2, Yb2) {
			class += "+statement-still-true"
		}
		d2 := func() map[string]any {
			d := det()
			d["alteration"] = sa.name
			d["slots"] = []int{a, b}
			d["sequence"] = q0
			d["e_given"] = c15HexSs(e2)
			return d
		}
		ev, ok := j.verify("sequences", "wrong-statement/"+sa.name, "PairShuffle", seqVerifier(X2, Y2, Xb2, Yb2, e2, in.aG(), in.H), prf, d2)
		if !ok {
			continue
		}
		j.r.Eval(class, j.id+desc, true)
		if ev == nil {
			d := d2()
			d["proof"] = c15HexProof(prf)
			j.violation("C15/sequences/wrong-statement/"+sa.name+"/accepted", "honest sequence-shuffle proof accepted for an altered statement ("+sa.name+")", d)
		}
	}
}

// ---- driver -------------------------------------------------------------------------------

type c15Job struct {
	env    *c15Env
	kind   string
	label  string
	idx    int
	k, nq  int
	pi     []int
	flavor string
	gnil   bool
	arg    string
	arg2   string
	ti, tp int // tamper jobs: tampered slot (-1 random), simple-shuffle equation to break
}

func c15(r *mon.R) {
	r.SetRule("Workload per curve (Ed25519, P-256): (1) honest shufflers: pair shuffle via (*PairShuffle).Prove with every permutation of k<=4 (thorough k<=5) and via shuffle.Shuffle for k=2..12 (thorough: sampled up to 40), input flavours {random, equal plaintexts, identical pairs, identity plaintext, zero randomness, zero blinding}, G given or nil; simple shuffle (all permutations k<=4/5, random k<=12/40); biffle (shuffle.Biffle and a harness-built prover over the same predicate for both bits); sequence shuffle NQ=1..4. Every honest proof must verify and the shuffler's output must be a shuffle by the ground truth. (2) honest proof presented with an altered statement (15 alterations of outputs / inputs / G / H / protocol name; per-sequence alterations and altered e for sequences): must be rejected. (3) cheating provers that write a well-formed transcript, with honestly recomputed Fiat-Shamir challenges, for outputs Xbar = M·X + beta·G, Ybar = M·Y + beta·H with invertible non-permutation M (sum, scalar multiple, diagonal, one replaced row, general) and variants that additionally break exactly one verification equation; tampered honest runs (c15_tamper.go): the complete honest prover algorithm for a true shuffle, after which one output slot is multiplied by s != 1 (or shifted) and the transcript is adjusted so that exactly ONE check of PairShuffle.Verify fails - (31)+(34), (32)+(35), (33) at one index, the binding of the embedded simple shuffle's X or Y at one index, or one chosen equation E_p of the embedded simple shuffle - for pair and sequence shuffles, every index and every p for k=2,3; false-witness runs of the simple-shuffle and biffle provers; a simulated-both-branches biffle transcript: must be rejected. (4) splices of two honest transcripts at every message boundary and one bit flipped in every transcript field, truncations: must be rejected. Ground truth: the harness holds the ElGamal key h and decides 'output is a permutation of re-encryptions' by a perfect-matching test on plaintext equality (one common permutation for all sequences); soundness cases are judged only if the ground truth says the statement is false (or, for alterations that keep it true, that the public values differ from those the proof was made for). distinct = (class, job, parameters); non-trivial = the altered statement/transcript differs from the honest one and the ground truth was evaluated; skipped no-op alterations are counted as trivial.")
	r.Assume("group arithmetic, Equal and encodings of Ed25519 and P-256 points/scalars are correct (C01-C03); they are used to build instances and to decrypt for the ground truth")
	r.Assume("all generated points lie in the prime-order subgroup (multiples of the base point), so 're-encryption' is equivalent to plaintext equality under the key h")
	r.Assume("soundness is only confronted with the explicit cheating-prover families listed in the rule; 'held' means none of them was accepted")
	r.Assume("the Fiat-Shamir challenge derivation of proof.HashProve is reused by the cheating provers (they call ctx.PubRand like an honest prover)")

	envs := c15Envs()
	var sel []*c15Env
	for _, e := range envs {
		if *flagGroups == "" {
			sel = append(sel, e)
			continue
		}
		for _, f := range strings.Split(*flagGroups, ",") {
			if strings.Contains(e.name, f) {
				sel = append(sel, e)
				break
			}
		}
	}
	T := r.Thorough()
	var jobs []c15Job
	add := func(jb c15Job) {
		jb.idx = len(jobs)
		jobs = append(jobs, jb)
	}
	plan := gen.New(r.Seed, "C15/plan", 0)
	kRand := func() int { // thorough: sample k up to 40
		if T && plan.IntN(3) == 0 {
			return 13 + plan.IntN(28)
		}
		return 2 + plan.IntN(11)
	}
	// cheating provers first: the minimal witness (k=2, sum) gets the lowest index
	for _, e := range sel {
		c15PlanForge(r, e, plan, add)
		c15PlanTamper(r, e, plan, add)
	}
	maxPermK := r.N(4, 5)
	for _, e := range sel {
		// honest pair, exhaustive permutations
		for k := 2; k <= maxPermK; k++ {
			for pn, pi := range gen.Perms(k) {
				fl := c15Flavors[(pn+k)%len(c15Flavors)]
				if pn%5 == 3 {
					fl = "zero-beta"
				}
				add(c15Job{env: e, kind: "pair", label: "pair-prove", arg: "prove", k: k, pi: pi, flavor: fl, gnil: pn%3 == 1})
			}
		}
		// honest pair, random
		for k := 2; k <= 12; k++ {
			for i := 0; i < r.N(2, 12); i++ {
				add(c15Job{env: e, kind: "pair", label: "pair-shuffle", arg: "shuffle", k: k, flavor: c15Flavors[plan.IntN(len(c15Flavors))], gnil: i%2 == 1})
			}
			add(c15Job{env: e, kind: "pair", label: "pair-prove-rand", arg: "prove", k: k, pi: plan.Perm(k), flavor: c15Flavors[plan.IntN(len(c15Flavors))], gnil: k%2 == 0})
		}
		if T {
			for i := 0; i < 40; i++ {
				k := 13 + plan.IntN(28)
				if i%2 == 0 {
					add(c15Job{env: e, kind: "pair", label: "pair-shuffle", arg: "shuffle", k: k, flavor: c15Flavors[plan.IntN(len(c15Flavors))], gnil: i%4 == 0})
				} else {
					add(c15Job{env: e, kind: "pair", label: "pair-prove-rand", arg: "prove", k: k, pi: plan.Perm(k), flavor: c15Flavors[plan.IntN(len(c15Flavors))]})
				}
			}
		}
		// simple shuffle
		for k := 2; k <= maxPermK; k++ {
			for pn, pi := range gen.Perms(k) {
				add(c15Job{env: e, kind: "simple", label: "simple", k: k, pi: pi, gnil: pn%3 == 1})
			}
		}
		for i := 0; i < r.N(12, 150); i++ {
			k := kRand()
			if k < 5 {
				k += 4
			}
			add(c15Job{env: e, kind: "simple", label: "simple-rand", k: k, pi: plan.Perm(k), gnil: i%2 == 1})
		}
		// biffle
		for i := 0; i < r.N(16, 320); i++ {
			add(c15Job{env: e, kind: "biffle", label: "biffle", k: 2, flavor: c15Flavors[i%len(c15Flavors)], gnil: i%2 == 1})
		}
		// sequences
		for nq := 1; nq <= 4; nq++ {
			for _, k := range []int{2, 3, 5, 8, 12} {
				add(c15Job{env: e, kind: "seq", label: "seq", k: k, nq: nq, gnil: (k+nq)%2 == 0})
			}
			if T {
				for i := 0; i < 48; i++ {
					add(c15Job{env: e, kind: "seq", label: "seq", k: kRand(), nq: nq, gnil: i%2 == 0})
				}
			}
		}
		// splices and mutations
		c15PlanMut(r, e, plan, add)
	}

	out := make([][]c15V, len(jobs))
	samples := make([][]c15S, len(jobs))
	mon.Parallel(len(jobs), func(w, i int) {
		jb := jobs[i]
		j := c15NewJ(r, jb.env, jb.label, i)
		r.Journal(w, "C15 job %d %s kind=%s k=%d nq=%d pi=%s flavor=%s gnil=%v arg=%s/%s", i, j.id, jb.kind, jb.k, jb.nq, c15Perm(jb.pi), jb.flavor, jb.gnil, jb.arg, jb.arg2)
		r.Guard("C15/"+jb.kind+"/"+jb.label, map[string]any{"env": jb.env.name, "job": j.id, "k": jb.k, "nq": jb.nq, "pi": c15Perm(jb.pi), "arg": jb.arg, "arg2": jb.arg2}, func() {
			switch jb.kind {
			case "pair":
				j.jobPair(jb.arg, jb.k, jb.pi, jb.flavor, jb.gnil)
			case "simple":
				j.jobSimple(jb.k, jb.pi, jb.gnil)
			case "biffle":
				j.jobBiffle(jb.flavor, jb.gnil)
			case "seq":
				j.jobSeq(jb.nq, jb.k, jb.gnil)
			case "forge":
				j.jobForge(jb)
			case "seqforge":
				j.jobSeqForge(jb)
			case "tamper":
				j.jobTamper(jb)
			case "splice":
				j.jobSplice(jb)
			case "mutate":
				j.jobMutate(jb)
			default:
				panic("harness: unknown job kind " + jb.kind)
			}
		})
		out[i] = j.viol
		samples[i] = j.samp
	})
	for _, ss := range samples {
		for _, sm := range ss {
			r.SampleClass(sm.tag, sm.v)
		}
	}
	for _, vs := range out {
		for _, v := range vs {
			r.Violation(v.key, v.what, v.detail)
		}
	}
	r.Note("jobs", int64(len(jobs)))
}
