package main

// C18 part (ii): P-256, BN256 G1 and BN254 G1 in lock step with the big.Int
// short-Weierstrass model; the same adapter (with the zcash compressed
// format) serves as model of BLS12-381 G1 in part (iii).

import (
	"math/big"

	"go.dedis.ch/kyber/v4"
	"go.dedis.ch/kyber/v4/group/p256"
	"go.dedis.ch/kyber/v4/pairing/bn254"
	"go.dedis.ch/kyber/v4/pairing/bn256"

	"verif/internal/gen"
	"verif/internal/mon"
	"verif/internal/ref"
)

// c18WRef adapts a WCurve to the engine with a wire format.
type c18WRef struct {
	c      *ref.WCurve
	format string // "sec1" (04|x|y, identity 04|0|0), "xy" (x|y, identity zeros), "zcash" (compressed BLS12-381)
}

func (w c18WRef) Null() any        { return &ref.WPoint{Inf: true} }
func (w c18WRef) Base() any        { return w.c.Gen() }
func (w c18WRef) Add(a, b any) any { return w.c.Add(a.(*ref.WPoint), b.(*ref.WPoint)) }
func (w c18WRef) Neg(a any) any    { return w.c.Neg(a.(*ref.WPoint)) }
func (w c18WRef) Mul(k *big.Int, a any) any {
	return w.c.Mul(k, a.(*ref.WPoint))
}
func (w c18WRef) IsNull(a any) bool { return a.(*ref.WPoint).Inf }

func (w c18WRef) Enc(a any) []byte {
	p := a.(*ref.WPoint)
	switch w.format {
	case "sec1":
		return append([]byte{4}, w.c.Bytes(p)...)
	case "xy":
		return w.c.Bytes(p)
	case "zcash":
		n := (w.c.P.BitLen() + 7) / 8
		out := make([]byte, n)
		if p.Inf {
			out[0] = 0xc0
			return out
		}
		p.X.FillBytes(out)
		out[0] |= 0x80
		half := new(big.Int).Rsh(w.c.P, 1) // (p-1)/2
		if p.Y.Cmp(half) > 0 {
			out[0] |= 0x20
		}
		return out
	}
	panic("harness: unknown format " + w.format)
}

func (w c18WRef) Dec(b []byte) (any, bool) {
	n := (w.c.P.BitLen() + 7) / 8
	zero := func(x []byte) bool {
		for _, v := range x {
			if v != 0 {
				return false
			}
		}
		return true
	}
	var xb, yb []byte
	switch w.format {
	case "sec1":
		if len(b) != 1+2*n || b[0] != 4 {
			return nil, false
		}
		xb, yb = b[1:1+n], b[1+n:]
	case "xy":
		if len(b) != 2*n {
			return nil, false
		}
		xb, yb = b[:n], b[n:]
	case "zcash":
		if len(b) != n || b[0]&0x80 == 0 {
			return nil, false
		}
		if b[0]&0x40 != 0 {
			c := append([]byte(nil), b...)
			c[0] &^= 0xc0
			if !zero(c) {
				return nil, false
			}
			return &ref.WPoint{Inf: true}, true
		}
		c := append([]byte(nil), b...)
		big1 := c[0]&0x20 != 0
		c[0] &^= 0xe0
		x := new(big.Int).SetBytes(c)
		if x.Cmp(w.c.P) >= 0 {
			return nil, false
		}
		p, ok := w.c.LiftX(x, false)
		if !ok {
			return nil, false
		}
		half := new(big.Int).Rsh(w.c.P, 1)
		if (p.Y.Cmp(half) > 0) != big1 {
			p.Y.Sub(w.c.P, p.Y)
		}
		if !w.c.InSubgroup(p) {
			return nil, false
		}
		return p, true
	}
	if zero(xb) && zero(yb) {
		return &ref.WPoint{Inf: true}, true
	}
	x, y := new(big.Int).SetBytes(xb), new(big.Int).SetBytes(yb)
	if !w.c.OnCurve(x, y) {
		return nil, false
	}
	return &ref.WPoint{X: x, Y: y}, true
}

// c18BLSG1Cofactor is the cofactor of BLS12-381 G1.
var c18BLSG1Cofactor, _ = new(big.Int).SetString("396c8c005555e1568c00aaab0000aaab", 16)

// ext returns a generator of valid external encodings for the curve.
func (w c18WRef) ext() func(rng *gen.Rng) ([]byte, string) {
	return func(rng *gen.Rng) ([]byte, string) {
		for {
			x := rng.Big(w.c.P)
			p, ok := w.c.LiftX(x, rng.IntN(2) == 1)
			if !ok {
				continue
			}
			if w.format == "zcash" {
				p = w.c.Mul(c18BLSG1Cofactor, p)
				if p.Inf {
					continue
				}
				return w.Enc(p), "cofactor-cleared-curve-point"
			}
			return w.Enc(p), "random-curve-point"
		}
	}
}

type c18WCfg struct {
	part string
	grp  func() kyber.Group
	ref  c18WRef
}

func c18WConfigs() []c18WCfg {
	return []c18WCfg{
		{"p256", func() kyber.Group { return p256.NewBlakeSHA256P256() }, c18WRef{ref.P256, "sec1"}},
		{"bn256.G1", func() kyber.Group { return bn256.NewSuite().G1() }, c18WRef{ref.BN256G1, "xy"}},
		{"bn254.G1", func() kyber.Group { return bn254.NewSuite().G1() }, c18WRef{ref.BN254G1, "xy"}},
	}
}

// c18WProgram runs one lock-step program of one Weierstrass group against the model.
func c18WProgram(r *mon.R, cfg c18WCfg, idx int) {
	rng := gen.New(r.Seed, "C18w"+cfg.part, idx)
	q := cfg.ref.c.N
	L := &c18Lock{r: r, part: cfg.part, idx: idx, q: q, edge: gen.Edge(q), nS: 4, nP: 6,
		ms:    []*c18Mach{{name: cfg.part, grp: []kyber.Group{cfg.grp()}}},
		sorts: []c18Sort{{name: "point", ref: cfg.ref, ext: cfg.ref.ext()}}}
	L.run(rng, 28+rng.IntN(13))
	if idx == 0 {
		r.SampleClass(cfg.part+"-program", map[string]any{"part": cfg.part, "program": idx, "machines": []string{cfg.part, "big.Int Weierstrass model"}, "last_steps": L.hist})
	}
}
