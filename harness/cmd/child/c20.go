package main

import (
	"bytes"
	"crypto/sha256"
	"encoding/binary"
	"fmt"
	"io"
	"math/big"
	"sync"
	"sync/atomic"

	"go.dedis.ch/kyber/v4"
	"go.dedis.ch/kyber/v4/encrypt/ecies"
	"go.dedis.ch/kyber/v4/group/edwards25519"
	"go.dedis.ch/kyber/v4/group/edwards25519vartime"
	"go.dedis.ch/kyber/v4/group/p256"
	"go.dedis.ch/kyber/v4/pairing"
	"go.dedis.ch/kyber/v4/pairing/bls12381/kilic"
	"go.dedis.ch/kyber/v4/pairing/bn254"
	"go.dedis.ch/kyber/v4/proof"
	"go.dedis.ch/kyber/v4/proof/dleq"
	"go.dedis.ch/kyber/v4/share"
	"go.dedis.ch/kyber/v4/share/pvss"
	"go.dedis.ch/kyber/v4/sign/anon"
	"go.dedis.ch/kyber/v4/sign/bdn"
	"go.dedis.ch/kyber/v4/sign/bls"
	"go.dedis.ch/kyber/v4/sign/cosi"
	"go.dedis.ch/kyber/v4/sign/eddsa"
	"go.dedis.ch/kyber/v4/sign/schnorr"
	"go.dedis.ch/kyber/v4/sign/tbls"
	"go.dedis.ch/kyber/v4/util/random"

	"verif/internal/gen"
	"verif/internal/groups"
	"verif/internal/mon"
)

func init() { register("C20", c20) }

// c20action is a read-only use of shared objects returning a fingerprint of its result.
type c20action struct {
	name string
	f    func() string
}

// c20kind builds a set of shared objects from a seed and returns the read-only actions on them.
type c20kind struct {
	name  string
	build func(rng *gen.Rng) []c20action
}

func fp(b []byte, err error) string {
	if err != nil {
		return "err:" + err.Error()
	}
	return mon.Hex(b)
}
func fpe(err error) string {
	if err != nil {
		return "err:" + err.Error()
	}
	return "ok"
}

// counterReader is a goroutine-safe deterministic entropy source without locks
// (every Read returns bytes derived from a unique counter value).
type counterReader struct{ n atomic.Uint64 }

func (c *counterReader) Read(p []byte) (int, error) {
	v := c.n.Add(1)
	var seed [8]byte
	binary.BigEndian.PutUint64(seed[:], v)
	off := 0
	ctr := uint32(0)
	for off < len(p) {
		h := sha256.New()
		h.Write(seed[:])
		var cb [4]byte
		binary.BigEndian.PutUint32(cb[:], ctr)
		h.Write(cb[:])
		off += copy(p[off:], h.Sum(nil))
		ctr++
	}
	return len(p), nil
}

// dryReader delivers budget full reads and then only io.EOF (lock-free: one atomic counter).
type dryReader struct {
	budget int64
	used   atomic.Int64
}

func (d *dryReader) Read(p []byte) (int, error) {
	if d.used.Add(1) > d.budget {
		return 0, io.EOF
	}
	for i := range p {
		p[i] = byte(11*i + 5)
	}
	return len(p), nil
}

// constReader is a stateless entropy source (no synchronisation, deterministic).
type constReader struct{}

func (constReader) Read(p []byte) (int, error) {
	for i := range p {
		p[i] = byte(7*i + 3)
	}
	return len(p), nil
}

const c20DrawAction = "random.New(shared stream, counter reader).draw"

func c20GroupKind(g *groups.G) c20kind {
	return c20kind{name: "group/" + g.Name, build: func(rng *gen.Rng) []c20action {
		B := g.Gen()
		k1, k2 := g.ScalarFromBig(rng.Big(g.Q)), g.ScalarFromBig(rng.Big(g.Q))
		// non-normalised shared points: results of arithmetic, never encoded before
		P := g.Point().Add(g.Point().Mul(k1, B), B)
		P.Add(P, g.Point().Mul(k2, B))
		Q := g.Point().Sub(g.Point().Mul(k2, B), B)
		Psame := g.Point().Add(g.Point().Add(g.Point().Mul(k2, B), g.Point().Mul(k1, B)), B) // equal to P by another route
		s := g.Scalar().Mul(k1, k2)
		s.Add(s, k1)
		var E kyber.Point
		var data []byte
		if g.CanEmbed && g.CanData {
			data = rng.Bytes(g.Point().EmbedLen())
			E = g.Point().Embed(data, rng.Stream())
		}
		acts := []c20action{
			{"Point.MarshalBinary", func() string { return fp(P.MarshalBinary()) }},
			{"Point.MarshalTo", func() string { var w bytes.Buffer; _, err := P.MarshalTo(&w); return fp(w.Bytes(), err) }},
			{"Point.String", func() string { return P.String() }},
			{"Point.Equal(P,Q)", func() string { return fmt.Sprint(P.Equal(Q), Q.Equal(P)) }},
			{"Point.Equal(P,P')", func() string { return fmt.Sprint(P.Equal(Psame), Psame.Equal(P)) }},
			{"Point.Clone", func() string { return fp(P.Clone().MarshalBinary()) }},
			{"Point.MarshalSize", func() string { return fmt.Sprint(P.MarshalSize()) }},
			{"Point.Add(operands)", func() string { return fp(g.Point().Add(P, Q).MarshalBinary()) }},
			{"Point.Sub(operands)", func() string { return fp(g.Point().Sub(Q, P).MarshalBinary()) }},
			{"Point.Neg(operand)", func() string { return fp(g.Point().Neg(Q).MarshalBinary()) }},
			{"Point.Mul(operands)", func() string { return fp(g.Point().Mul(s, P).MarshalBinary()) }},
			{"Point.Set(operand)", func() string { return fp(g.Point().Set(Q).MarshalBinary()) }},
			{"Scalar.MarshalBinary", func() string { return fp(s.MarshalBinary()) }},
			{"Scalar.String", func() string { return s.String() }},
			{"Scalar.Equal", func() string { return fmt.Sprint(s.Equal(k1), s.Equal(s)) }},
			{"Scalar.Clone", func() string { return fp(s.Clone().MarshalBinary()) }},
			{"Scalar.Add/Mul/Inv(operands)", func() string {
				x := g.Scalar().Add(s, k1)
				x.Mul(x, s)
				y := g.Scalar().Inv(s)
				return fp(x.MarshalBinary()) + fp(y.MarshalBinary())
			}},
		}
		// independent operations on goroutine-local receivers: they share nothing visible, so any interference comes from
		// hidden package-level state (cached hashers, tables, scratch buffers)
		hmsg := rng.Bytes(40)
		pseed := string(rng.Bytes(16))
		if g.CanHash {
			acts = append(acts, c20action{"Point.Hash(local receiver)", func() string {
				return fp(g.Point().(groups.Hasher).Hash(append([]byte(nil), hmsg...)).MarshalBinary())
			}})
		}
		if _, ok := g.Point().(interface {
			Hash(m []byte, dst string) kyber.Point
		}); ok {
			acts = append(acts, c20action{"Point.Hash(m,dst)(local receiver)", func() string {
				h := g.Point().(interface {
					Hash(m []byte, dst string) kyber.Point
				})
				return fp(h.Hash(append([]byte(nil), hmsg...), "QUUX-V01-CS02-with-edwards25519_XMD:SHA-512_ELL2_RO_").MarshalBinary())
			}})
		}
		if g.CanPick {
			acts = append(acts, c20action{"Point.Pick(local receiver, local stream)", func() string {
				return fp(g.Point().Pick(groups.Stream(pseed)).MarshalBinary())
			}})
		}
		acts = append(acts, c20action{"Scalar.Pick/SetBytes(local receiver)", func() string {
			return fp(g.Scalar().Pick(groups.Stream(pseed)).MarshalBinary()) + fp(g.Scalar().SetBytes(append([]byte(nil), hmsg...)).MarshalBinary())
		}})
		if g.CanMulNil {
			acts = append(acts, c20action{"Point.Mul(s,nil)", func() string { return fp(g.Point().Mul(s, nil).MarshalBinary()) }})
		}
		if E != nil {
			// the same embedded value in a non-normalised internal form (E - B + B), and an arbitrary non-normalised point
			EN := g.Point().Add(g.Point().Sub(E, B), B)
			acts = append(acts, c20action{"Point.Data(non-normalised)", func() string { d, err := EN.Data(); return fp(d, err) }},
				c20action{"Point.Data(arbitrary point)", func() string { d, err := P.Data(); return fp(d, err) }})
			acts = append(acts, c20action{"Point.Data", func() string { d, err := E.Data(); return fp(d, err) }},
				c20action{"Point.MarshalBinary(embedded)", func() string { return fp(E.MarshalBinary()) }})
		}
		return acts
	}}
}

func c20PairingKind(ps *groups.PS) c20kind {
	return c20kind{name: "pairing/" + ps.Name, build: func(rng *gen.Rng) []c20action {
		s := ps.S
		a := s.G1().Scalar().Pick(rng.Stream())
		b := s.G2().Scalar().Pick(rng.Stream())
		P := s.G1().Point().Mul(a, nil)
		P.Add(P, s.G1().Point().Base())
		Q := s.G2().Point().Mul(b, nil)
		Q.Add(Q, s.G2().Point().Base())
		P2 := s.G1().Point().Mul(b, P)
		Q2 := s.G2().Point().Mul(b, Q)
		T := s.Pair(s.G1().Point().Mul(a, nil), s.G2().Point().Mul(b, nil))
		T.Add(T, T)
		msg := []byte("shared message")
		sch := bls.NewSchemeOnG1(s)
		sk, pk := sch.NewKeyPair(rng.Stream())
		sig, _ := sch.Sign(sk, msg)
		tsch := tbls.NewThresholdSchemeOnG1(s)
		pri := share.NewPriPoly(s.G2(), 2, nil, rng.Stream())
		pub := pri.Commit(s.G2().Point().Base())
		shares := pri.Shares(3)
		var psigs [][]byte
		for _, sh := range shares {
			ps, _ := tsch.Sign(sh, msg)
			psigs = append(psigs, ps)
		}
		bsch := bdn.NewSchemeOnG1(s)
		_, pk2 := bsch.NewKeyPair(rng.Stream())
		_, pk3 := bsch.NewKeyPair(rng.Stream())
		mask, err := bdn.NewMask(s.G2(), []kyber.Point{pk, pk2, pk3}, nil)
		if err != nil {
			panic(err)
		}
		_ = mask.SetBit(1, true)
		return []c20action{
			{"Pair(P,Q)", func() string { return fp(s.Pair(P, Q).MarshalBinary()) }},
			{"Pair(P2,Q)", func() string { return fp(s.Pair(P2, Q).MarshalBinary()) }},
			{"ValidatePairing(true)", func() string { return fmt.Sprint(s.ValidatePairing(P2, Q, P, Q2)) }},
			{"ValidatePairing(false)", func() string { return fmt.Sprint(s.ValidatePairing(P, Q, P2, Q2)) }},
			{"GT.MarshalBinary", func() string { return fp(T.MarshalBinary()) }},
			{"GT.Equal/String", func() string { return fmt.Sprint(T.Equal(T)) + T.String() }},
			{"GT.Add(operands)", func() string { return fp(s.GT().Point().Add(T, T).MarshalBinary()) }},
			{"bls.Verify(shared key)", func() string { return fpe(sch.Verify(pk, msg, sig)) }},
			{"tbls.VerifyPartial(shared PubPoly)", func() string { return fpe(tsch.VerifyPartial(pub, msg, psigs[1])) }},
			{"tbls.Recover(shared PubPoly)", func() string { return fp(tsch.Recover(pub, msg, psigs, 2, 3)) }},
			{"PubPoly.Eval/Check/Commit", func() string {
				e := pub.Eval(2)
				return fp(e.V.MarshalBinary()) + fmt.Sprint(pub.Check(shares[1])) + fp(pub.Commit().MarshalBinary())
			}},
			{"bdn.Mask.Clone+mutate+AggregatePublicKeys", func() string {
				c := mask.Clone()
				_ = c.SetBit(0, true)
				agg, err := bsch.AggregatePublicKeys(c)
				if err != nil {
					return "err:" + err.Error()
				}
				return fp(agg.MarshalBinary()) + mon.Hex(c.Mask()) + mon.Hex(mask.Mask())
			}},
		}
	}}
}

// c20FreshSuitesKind: suite and group objects that nobody has touched before the concurrent phase (lazy initialisation
// on first use must be race-free too).
func c20FreshSuitesKind() c20kind {
	return c20kind{name: "fresh-suites", build: func(rng *gen.Rng) []c20action {
		var acts []c20action
		type fullSuite interface {
			kyber.Group
			kyber.HashFactory
			kyber.XOFFactory
			kyber.Random
		}
		add := func(name string, s fullSuite) {
			acts = append(acts, c20action{"fresh " + name + ".RandomStream/Hash/XOF/Point/Scalar", func() string {
				b := make([]byte, 16)
				s.RandomStream().XORKeyStream(b, b)
				h := s.Hash()
				h.Write([]byte("x"))
				x := s.XOF([]byte("seed"))
				o := make([]byte, 8)
				_, _ = x.Read(o)
				p := s.Point().Null()
				sc := s.Scalar().One()
				return mon.Hex(h.Sum(nil)) + mon.Hex(o) + fp(p.MarshalBinary()) + fp(sc.MarshalBinary()) + fmt.Sprint(s.PointLen(), s.ScalarLen(), s.String())
			}})
		}
		add("edwards25519", edwards25519.NewBlakeSHA256Ed25519())
		add("edwards25519vartime", edwards25519vartime.NewBlakeSHA256Ed25519(false))
		add("p256", p256.NewBlakeSHA256P256())
		add("qr512", p256.NewBlakeSHA256QR512())
		for _, ps := range groups.Suites() {
			ps := ps
			acts = append(acts, c20action{"fresh " + ps.Name + ".G1/G2/GT/RandomStream/Hash/XOF", func() string {
				s := ps.S
				b := make([]byte, 16)
				s.RandomStream().XORKeyStream(b, b)
				h := s.Hash()
				h.Write([]byte("x"))
				x := s.XOF([]byte("seed"))
				o := make([]byte, 8)
				_, _ = x.Read(o)
				return mon.Hex(h.Sum(nil)) + mon.Hex(o) + fp(s.G1().Point().Null().MarshalBinary()) + fp(s.G2().Point().Null().MarshalBinary()) + fp(s.GT().Point().Null().MarshalBinary()) + fp(s.G1().Scalar().One().MarshalBinary())
			}})
		}
		return acts
	}}
}

// c20CustomDSTKind: pairing suites configured with the caller's own domain separation tags (lengths that are not
// allocation size classes, handed over as sub-slices of larger buffers), then shared: hash-to-group and BLS sign/verify
// only read the suite.
func c20CustomDSTKind() c20kind {
	return c20kind{name: "custom-dst", build: func(rng *gen.Rng) []c20action {
		var acts []c20action
		msg := []byte("shared message")
		mk := func(n int) []byte { // a tag of length n inside a larger buffer
			b := make([]byte, n+5+rng.IntN(20))
			copy(b, "BLS_SIG_BN254G1_XMD:KECCAK-256_SVDW_RO_NUL_-verif-custom-tag-0123456789")
			return b[:n]
		}
		type hs struct {
			name string
			s    pairing.Suite
		}
		var suites []hs
		for _, n := range []int{1, 17, 43, 47, 100} {
			b := bn254.NewSuite()
			b.SetDomainG1(mk(n))
			b.SetDomainG2(mk(n + 1))
			suites = append(suites, hs{fmt.Sprintf("bn254/dst%d", n), b})
			suites = append(suites, hs{fmt.Sprintf("kilic/dst%d", n), kilic.NewBLS12381SuiteWithDST(mk(n), mk(n+1))})
		}
		for _, x := range suites {
			x := x
			for _, gk := range []struct {
				n string
				g kyber.Group
			}{{"G1", x.s.G1()}, {"G2", x.s.G2()}} {
				gk := gk
				if _, ok := gk.g.Point().(groups.Hasher); !ok {
					continue
				}
				acts = append(acts, c20action{x.name + "." + gk.n + ".Hash(local receiver)", func() string {
					return fp(gk.g.Point().(groups.Hasher).Hash(msg).MarshalBinary())
				}})
			}
			sch := bls.NewSchemeOnG1(x.s)
			sk, pk := sch.NewKeyPair(rng.Stream())
			sig, err := sch.Sign(sk, msg)
			if err != nil {
				panic(err)
			}
			acts = append(acts, c20action{x.name + " bls.Sign(shared key)", func() string { return fp(sch.Sign(sk, msg)) }})
			acts = append(acts, c20action{x.name + " bls.Verify(shared key)", func() string { return fpe(sch.Verify(pk, msg, sig)) }})
		}
		return acts
	}}
}

func c20SchemesKind() c20kind {
	return c20kind{name: "schemes/ed25519+p256", build: func(rng *gen.Rng) []c20action {
		var acts []c20action
		msg := []byte("shared message")
		ed := edwards25519.NewBlakeSHA256Ed25519()
		for _, s := range []struct {
			n string
			g interface {
				kyber.Group
				kyber.HashFactory
				kyber.XOFFactory
				kyber.Random
				kyber.Encoding
			}
		}{{"ed25519", ed}, {"p256", p256.NewBlakeSHA256P256()}} {
			g := s.g
			n := s.n
			x := g.Scalar().Pick(rng.Stream())
			X := g.Point().Mul(x, nil)
			X.Add(X, g.Point().Null())
			sig, err := schnorr.Sign(g, x, msg)
			if err != nil {
				panic(err)
			}
			acts = append(acts, c20action{"schnorr.Verify(shared key)/" + n, func() string { return fpe(schnorr.Verify(g, X, msg, sig)) }})
			// dleq
			H := g.Point().Pick(rng.Stream())
			G := g.Point().Base()
			prf, xG, xH, err := dleq.NewDLEQProof(g, G, H, x)
			if err != nil {
				panic(err)
			}
			acts = append(acts, c20action{"dleq.Verify(shared proof)/" + n, func() string { return fpe(prf.Verify(g, G, H, xG, xH)) }})
			// recovery from a shared, complete, NOT index-ordered list of shares (the list is an input: it must not be reordered)
			{
				pri := share.NewPriPoly(g, 3, g.Scalar().Pick(rng.Stream()), rng.Stream())
				pub := pri.Commit(nil)
				ord := rng.Perm(5)
				if ord[0] < ord[1] {
					ord[0], ord[1] = ord[1], ord[0] // certainly not ascending
				}
				var pubSh []*share.PubShare
				var priSh []*share.PriShare
				for _, i := range ord {
					pubSh = append(pubSh, pub.Eval(uint32(i)))
					priSh = append(priSh, pri.Eval(uint32(i)))
				}
				order := func() string {
					o := ""
					for k := range pubSh {
						o += fmt.Sprint(pubSh[k].I, priSh[k].I, ",")
					}
					return o
				}
				acts = append(acts, c20action{"share.RecoverCommit(shared unordered shares)/" + n, func() string {
					before := order()
					c, err := share.RecoverCommit(g, pubSh, 3, 5)
					if err != nil {
						return before + "err:" + err.Error()
					}
					return before + fp(c.MarshalBinary())
				}})
				acts = append(acts, c20action{"share.RecoverPubPoly(shared unordered shares)/" + n, func() string {
					before := order()
					pp, err := share.RecoverPubPoly(g, pubSh, 3, 5)
					if err != nil {
						return before + "err:" + err.Error()
					}
					return before + fp(pp.Commit().MarshalBinary())
				}})
				acts = append(acts, c20action{"share.RecoverSecret(shared unordered shares)/" + n, func() string {
					before := order()
					x, err := share.RecoverSecret(g, priSh, 3, 5)
					if err != nil {
						return before + "err:" + err.Error()
					}
					return before + fp(x.MarshalBinary())
				}})
			}
			// pvss
			nT, t := 4, 3
			var xs []kyber.Scalar
			var Xs []kyber.Point
			for i := 0; i < nT; i++ {
				xi := g.Scalar().Pick(rng.Stream())
				xs = append(xs, xi)
				Xs = append(Xs, g.Point().Mul(xi, nil))
			}
			secret := g.Scalar().Pick(rng.Stream())
			enc, pubPoly, err := pvss.EncShares(g, H, Xs, secret, uint32(t))
			if err != nil {
				panic(err)
			}
			sH := make([]kyber.Point, nT)
			for i := range sH {
				sH[i] = pubPoly.Eval(uint32(i)).V
			}
			acts = append(acts, c20action{"pvss.VerifyEncShare(shared)/" + n, func() string { return fpe(pvss.VerifyEncShare(g, H, Xs[1], sH[1], enc[0].P.C, enc[1])) }})
			acts = append(acts, c20action{"pvss.VerifyEncShareBatch(shared)/" + n, func() string {
				K, E, err := pvss.VerifyEncShareBatch(g, H, Xs, sH, pubPoly, enc)
				return fmt.Sprint(len(K), len(E)) + fpe(err)
			}})
			acts = append(acts, c20action{"pvss.DecShare(shared enc share)/" + n, func() string {
				d, err := pvss.DecShare(g, H, Xs[2], sH[2], xs[2], enc[0].P.C, enc[2])
				if err != nil {
					return "err:" + err.Error()
				}
				_ = d
				return "ok" // EncShares draws its polynomial from the suite's own randomness: only the outcome is comparable
			}})
			// proof verifier built from a shared predicate
			pred := proof.And(proof.Rep("X", "x", "B"), proof.Rep("xH", "x", "H"))
			pub := map[string]kyber.Point{"B": G, "H": H, "X": X, "xH": g.Point().Mul(x, H)}
			pf, err := proof.HashProve(g, "c20", pred.Prover(g, map[string]kyber.Scalar{"x": x}, pub, nil))
			if err != nil {
				panic(err)
			}
			acts = append(acts, c20action{"proof.HashVerify(shared Predicate)/" + n, func() string { return fpe(proof.HashVerify(g, "c20", pred.Verifier(g, pub), pf)) }})
			// polynomials
			pri := share.NewPriPoly(g, 3, nil, rng.Stream())
			pp := pri.Commit(nil)
			acts = append(acts, c20action{"PriPoly.Eval+PubPoly.Eval/Check/" + n, func() string {
				sh := pri.Eval(3)
				return fp(sh.V.MarshalBinary()) + fp(pp.Eval(3).V.MarshalBinary()) + fmt.Sprint(pp.Check(sh))
			}})
			// suite services
			acts = append(acts, c20action{"suite.Hash/XOF/" + n, func() string {
				h := g.Hash()
				h.Write(msg)
				xo := g.XOF(msg)
				b := make([]byte, 16)
				_, _ = xo.Read(b)
				return mon.Hex(h.Sum(nil)) + mon.Hex(b)
			}})
			acts = append(acts, c20action{"suite.RandomStream(draw)/" + n, func() string {
				b := make([]byte, 32)
				g.RandomStream().XORKeyStream(b, b)
				sc := g.Scalar().Pick(g.RandomStream())
				_ = sc
				return "drawn" // value is random by design; only races matter here
			}})
			// ecies to a shared key, decrypt with shared private key
			acts = append(acts, c20action{"ecies.Encrypt/Decrypt(shared key)/" + n, func() string {
				ct, err := ecies.Encrypt(g, X, msg, nil)
				if err != nil {
					return "err:" + err.Error()
				}
				pt, err := ecies.Decrypt(g, x, ct, nil)
				return fp(pt, err)
			}})
		}
		// eddsa
		e := eddsa.NewEdDSA(rng.Stream())
		esig, _ := e.Sign(msg)
		acts = append(acts, c20action{"eddsa.Verify(shared key)", func() string { return fpe(eddsa.Verify(e.Public, msg, esig)) }})
		acts = append(acts, c20action{"eddsa.Sign(shared signer)", func() string { s, err := e.Sign(msg); return fp(s, err) }})
		// signer objects that have never signed before the concurrent phase (fresh, and loaded through UnmarshalBinary)
		e2 := eddsa.NewEdDSA(rng.Stream())
		acts = append(acts, c20action{"eddsa.Sign(shared signer, first signatures)", func() string { s, err := e2.Sign(msg); return fp(s, err) }})
		e3 := &eddsa.EdDSA{}
		if eb, err := e.MarshalBinary(); err == nil && e3.UnmarshalBinary(eb) == nil {
			acts = append(acts, c20action{"eddsa.Sign(shared signer loaded by UnmarshalBinary, first signatures)", func() string { s, err := e3.Sign(msg); return fp(s, err) }})
			acts = append(acts, c20action{"eddsa.MarshalBinary(shared signer)", func() string { return fp(e3.MarshalBinary()) }})
		}
		// anon ring with shared set
		x := ed.Scalar().Pick(rng.Stream())
		set := anon.Set{ed.Point().Mul(x, nil), ed.Point().Pick(rng.Stream()), ed.Point().Pick(rng.Stream())}
		asig := anon.Sign(ed, msg, set, []byte("scope"), 0, x)
		acts = append(acts, c20action{"anon.Verify(shared ring)", func() string { tag, err := anon.Verify(ed, msg, set, []byte("scope"), asig); return fp(tag, err) }})
		acts = append(acts, c20action{"anon.Encrypt/Decrypt(shared set)", func() string {
			ct, err := anon.Encrypt(ed, msg, set)
			if err != nil {
				return "err:" + err.Error()
			}
			pt, err := anon.Decrypt(ed, ct, set, 0, x)
			return fp(pt, err)
		}})
		// cosi mask with shared public keys
		pubs := []kyber.Point{set[0], set[1], set[2]}
		acts = append(acts, c20action{"cosi.NewMask(shared keys)+SetBit", func() string {
			m, err := cosi.NewMask(ed, pubs, nil)
			if err != nil {
				return "err:" + err.Error()
			}
			_ = m.SetBit(1, true)
			return fp(m.AggregatePublic.MarshalBinary())
		}})
		// random.New streams shared between goroutines. (a) entropy from a stateless Go reader: no
		// synchronisation at all, output deterministic and comparable; (b) entropy from a counter
		// reader: every draw must be fresh (checked after the run from per-goroutine logs).
		rsConst := random.New(constReader{})
		acts = append(acts, c20action{"random.New(shared stream, stateless reader).draw", func() string {
			b := make([]byte, 48)
			rsConst.XORKeyStream(b, b)
			return mon.Hex(b)
		}})
		// a stream over several sources, one of which runs dry during the concurrent phase (the other keeps delivering)
		rsDry := random.New(&dryReader{budget: 12}, constReader{})
		acts = append(acts, c20action{"random.New(shared stream, one of two sources runs dry).draw", func() string {
			b := make([]byte, 16)
			rsDry.XORKeyStream(b, b)
			return "drawn"
		}})
		cr := &counterReader{}
		rs := random.New(cr)
		acts = append(acts, c20action{c20DrawAction, func() string {
			b := make([]byte, 32)
			rs.XORKeyStream(b, b)
			return mon.Hex(b)
		}})
		return acts
	}}
}

func c20(r *mon.R) {
	r.SetRule("per object kind: two identical object sets are built from one seed; the read-only action list is run sequentially on set A (expected fingerprints) and then by 16 goroutines x M iterations (actions in per-goroutine shuffled order) on the untouched set B, under a -race build; every concurrent result is compared with the sequential one. Shared points are results of arithmetic (non-normalised) and are rebuilt for every repetition so that a lazily normalising read is exercised from its first call. distinct = (kind, action, repetition); all are non-trivial. Race reports are parsed from the GORACE log by the driver and deduplicated by kyber frame pair")
	r.Assume("the Go race detector (happens-before) reports conflicting accesses that occurred in this run; result comparison catches corrupted values even without a report")
	var kinds []c20kind
	for _, g := range groups.Select(groups.All(), *flagGroups) {
		kinds = append(kinds, c20GroupKind(g))
	}
	if *flagGroups == "" {
		for _, ps := range groups.Suites() {
			kinds = append(kinds, c20PairingKind(ps))
		}
		kinds = append(kinds, c20SchemesKind())
		kinds = append(kinds, c20FreshSuitesKind())
		kinds = append(kinds, c20CustomDSTKind())
	}
	reps := r.N(3, 40)
	iters := r.N(4, 8)
	const nG = 16
	var totalCalls int64
	for ki, kd := range kinds {
		for rep := 0; rep < reps; rep++ {
			r.Journal(0, "C20 kind %s rep %d", kd.name, rep)
			var actsA, actsB []c20action
			ok := r.Guard("C20/"+kd.name+"/build", nil, func() {
				actsA = kd.build(gen.New(r.Seed, "C20"+kd.name, rep))
				actsB = kd.build(gen.New(r.Seed, "C20"+kd.name, rep))
			})
			if !ok {
				break
			}
			expected := make([]string, len(actsA))
			seqOK := r.Guard("C20/"+kd.name+"/sequential", nil, func() {
				for i, a := range actsA {
					expected[i] = a.f()
				}
			})
			if !seqOK {
				break
			}
			var wg sync.WaitGroup
			start := make(chan struct{})
			calls := make([]int64, nG)    // per-goroutine, read after wg.Wait (no synchronisation in the hot path:
			draws := make([][]string, nG) // atomics or locks would add happens-before edges and hide races)
			for gi := 0; gi < nG; gi++ {
				wg.Add(1)
				go func(gi int) {
					defer wg.Done()
					rng := gen.New(r.Seed, fmt.Sprintf("C20sched%d-%d", ki, rep), gi)
					<-start
					for it := 0; it < iters; it++ {
						for _, ai := range rng.Perm(len(actsB)) {
							a := actsB[ai]
							var got string
							msg, panicked := mon.Try(func() { got = a.f() })
							calls[gi]++
							if panicked {
								r.Violation("C20/"+kd.name+"/"+a.name+"/panic-under-concurrency", "read-only call panicked while other goroutines used the shared objects: "+msg, map[string]any{"kind": kd.name, "action": a.name, "rep": rep})
								continue
							}
							if a.name == c20DrawAction {
								draws[gi] = append(draws[gi], got)
								continue
							}
							if want := expected[ai]; got != want {
								r.Violation("C20/"+kd.name+"/"+a.name+"/result-differs-from-sequential", "concurrent read-only call returned a different result than the sequential run", map[string]any{"kind": kd.name, "action": a.name, "rep": rep, "got": trunc(got), "want": trunc(want)})
							}
						}
					}
				}(gi)
			}
			close(start)
			wg.Wait()
			seenDraw := map[string]bool{}
			for gi := range draws {
				totalCalls += calls[gi]
				for _, d := range draws[gi] {
					if seenDraw[d] {
						r.Violation("C20/"+kd.name+"/"+c20DrawAction+"/duplicate-draw", "two draws from a shared random.New stream returned identical bytes although the entropy source never repeats", map[string]any{"kind": kd.name, "rep": rep, "draw": d})
					}
					seenDraw[d] = true
				}
			}
			for _, a := range actsB {
				r.Eval(kd.name+"/"+a.name, fmt.Sprintf("%s|%s|%d", kd.name, a.name, rep), true)
				r.Op(a.name)
			}
			if rep == 0 {
				var names []string
				for _, a := range actsB {
					names = append(names, a.name)
				}
				r.SampleClass(kd.name, map[string]any{"kind": kd.name, "goroutines": nG, "iterations": iters, "actions": names})
			}
		}
	}
	r.Note("goroutine_calls", totalCalls)
	r.Note("goroutines", nG)
	r.Note("object_kinds", len(kinds))
	_ = big.NewInt
}

func trunc(s string) string {
	if len(s) > 200 {
		return s[:200] + "..."
	}
	return s
}
