package main

import (
	"bytes"
	"encoding/hex"
	"fmt"
	"io"
	"math/big"
	"strings"
	"sync/atomic"
	"testing/iotest"

	"go.dedis.ch/kyber/v4"
	kenc "go.dedis.ch/kyber/v4/util/encoding"

	"verif/internal/gen"
	"verif/internal/groups"
	"verif/internal/mon"
)

func init() { register("C03", c03) }

// c03J is the judge for one group: it owns no kyber objects, only the recorder.
type c03J struct {
	r   *mon.R
	g   *groups.G
	cnt *c03Cnt
}

// c03Cnt counts, per group, the values and pairs that went through an oracle
// (a group that was silently skipped must not pass).
type c03Cnt struct{ points, scalars, ppairs, spairs, walk, ssetters, psetters atomic.Int64 }

func (j *c03J) viol(kind, class, check, what, msg string, d map[string]any) {
	d["group"] = j.g.Name
	d["class"] = class
	j.r.Violation("C03/"+j.g.Name+"/"+kind+"/"+class+"/"+check+"/"+what, msg, d)
}

var c03Prefix = []byte{0xee, 0xee, 0xee}
var c03Trailer = []byte{0xa5, 0x5a, 0xc3}

// c03Coord says where the fixed-width coordinates of a group's encoding lie,
// only to *classify* encodings with a coordinate that has leading zero bytes
// (no verdict depends on it).
func c03CoordHasLeadingZero(g *groups.G, e []byte) bool {
	n := len(e)
	if n == 0 {
		return false
	}
	name := g.Name
	switch {
	case strings.HasPrefix(name, "ed"):
		return e[n-1]&0x7f == 0 // little-endian y, top bit is the sign of x
	case name == "qr512":
		return e[0] == 0
	}
	w := 32
	bls := strings.HasPrefix(name, "kilic") || strings.HasPrefix(name, "circl") || strings.HasPrefix(name, "gnark")
	if bls {
		w = 48
	}
	for off := n % w; off < n; off += w {
		b := e[off]
		if off == 0 && bls && g.Kind != "GT" {
			b &= 0x1f // compression / infinity / sign flags
		}
		if b == 0 {
			return true
		}
	}
	return false
}

// ---------------------------------------------------------------------------
// per-value battery, points
// ---------------------------------------------------------------------------

// point judges one point recipe. Returns the encoding (nil if it could not be produced).
func (j *c03J) point(s c03P) []byte {
	r, g := j.r, j.g
	desc := g.Name + "|" + s.class + "|" + s.route
	nt := !s.triv
	det := func(extra map[string]any) map[string]any {
		d := map[string]any{"route": s.route}
		for k, v := range extra {
			d[k] = v
		}
		return d
	}
	rtBad := false // UnmarshalBinary(MarshalBinary(p)) already failed: the wrappers around UnmarshalBinary are then not judged a second time
	bad := func(check, what, msg string, extra map[string]any) {
		if check == "round-trip" {
			rtBad = true
		}
		j.viol("point", s.class, check, what, msg, det(extra))
	}
	r.NoteAdd("values/point/"+s.class, 1)
	j.cnt.points.Add(1)

	p := s.mk()    // the value under observation
	twin := s.mk() // same construction, never encoded before p has been encoded twice

	// --- encode, length ---
	raw, err := p.MarshalBinary()
	r.Op("Point.MarshalBinary", "Point.MarshalSize", "Group.PointLen")
	if err != nil {
		r.Eval("point/length", desc, nt)
		bad("MarshalBinary", "error", "MarshalBinary of a reachable point failed: "+err.Error(), nil)
		return nil
	}
	e1 := append([]byte(nil), raw...)
	r.Eval("point/length", desc, nt)
	if ms, pl := p.MarshalSize(), g.Grp.PointLen(); len(e1) != ms || len(e1) != pl {
		bad("length", "mismatch", fmt.Sprintf("encoding has %d bytes, MarshalSize()=%d, Group.PointLen()=%d", len(e1), ms, pl), map[string]any{"enc": mon.Hex(e1)})
	}
	if s.k != nil && !c03KIsZero(s.k) && c03CoordHasLeadingZero(g, e1) {
		r.NoteAdd("values/point-with-leading-zero-coordinate", 1)
	}

	// --- encoding is a function of the value: twice the same bytes ---
	r.Eval("point/encode-twice", desc, nt)
	e2 := groups.Enc(p)
	if !bytes.Equal(e1, e2) {
		bad("encode-twice", "bytes-differ", "two successive MarshalBinary calls on the same point return different bytes", map[string]any{"first": mon.Hex(e1), "second": mon.Hex(e2)})
		// nothing below can be judged against an encoding that is not a function of the value
		r.NoteAdd("skipped/battery-after-unstable-encoding", 1)
		return e1
	}

	// --- encoding does not change the value encoded ---
	r.Eval("point/value-unchanged", desc, nt)
	eqA, eqB := p.Equal(twin), twin.Equal(p)
	et := groups.Enc(twin)
	if !eqA || !eqB || !bytes.Equal(et, e1) {
		bad("value-unchanged", "differs-from-unencoded-twin", "a point that has been encoded is no longer the same as an identically constructed point that has not",
			map[string]any{"Equal(p,twin)": eqA, "Equal(twin,p)": eqB, "enc": mon.Hex(e1), "enc_twin": mon.Hex(et)})
	}
	twin2 := s.mk()
	after := g.Point().Add(p, p)         // p used as operand after it has been encoded
	fresh := g.Point().Add(twin2, twin2) // never-encoded twin used the same way
	ea, ef := groups.Enc(after), groups.Enc(fresh)
	if !bytes.Equal(ea, ef) {
		bad("value-unchanged", "use-after-encode-differs", "P+P computed from a point after encoding it differs from P+P computed from a never-encoded twin",
			map[string]any{"enc": mon.Hex(e1), "after": mon.Hex(ea), "fresh": mon.Hex(ef)})
	}

	// --- decode: succeeds, Equal, re-encodes byte-identically ---
	r.Op("Point.UnmarshalBinary", "Point.Equal")
	r.Eval("point/round-trip", desc, nt)
	dec := g.Point()
	in := append([]byte(nil), e1...)
	if err := dec.UnmarshalBinary(in); err != nil {
		bad("round-trip", "own-encoding-rejected", "UnmarshalBinary rejects the library's own encoding: "+err.Error(), map[string]any{"enc": mon.Hex(e1)})
	} else {
		d1, d2 := dec.Equal(p), p.Equal(dec)
		ed := groups.Enc(dec)
		if !d1 || !d2 {
			bad("round-trip", "decoded-not-Equal", "decoding the encoding of a point yields a point that is not Equal to it",
				map[string]any{"enc": mon.Hex(e1), "reenc": mon.Hex(ed), "Equal(dec,p)": d1, "Equal(p,dec)": d2})
		}
		if !bytes.Equal(ed, e1) {
			bad("round-trip", "reencoding-differs", "re-encoding the decoded point is not byte-identical", map[string]any{"enc": mon.Hex(e1), "reenc": mon.Hex(ed)})
		}
		if !bytes.Equal(in, e1) {
			r.NoteAdd("observations/UnmarshalBinary-modified-its-input", 1)
		}
		// decoded value must behave as the original
		if ed2 := groups.Enc(g.Point().Add(dec, dec)); !bytes.Equal(ed2, ef) {
			bad("round-trip", "decoded-behaves-differently", "P+P computed from the decoded point differs from P+P computed from the original",
				map[string]any{"enc": mon.Hex(e1), "from_decoded": mon.Hex(ed2), "from_original": mon.Hex(ef)})
		}
	}
	// decode into a receiver that already holds another value (2P)
	if rtBad {
		r.NoteAdd("skipped/decode-wrappers-after-round-trip-failure", 1)
	} else {
		r.Eval("point/round-trip-used-receiver", desc, nt)
		// the receiver holds a finite, non-normalised value whatever p is (2P would be the identity when p is)
		if p.Equal(g.Point().Null()) {
			B := g.Gen()
			fresh = g.Point().Add(B, g.Point().Add(B, B))
		}
		if err := fresh.UnmarshalBinary(append([]byte(nil), e1...)); err != nil {
			bad("round-trip", "own-encoding-rejected-by-used-receiver", "UnmarshalBinary into a receiver holding another point rejects the library's own encoding: "+err.Error(), map[string]any{"enc": mon.Hex(e1)})
		} else if ed := groups.Enc(fresh); !fresh.Equal(p) || !bytes.Equal(ed, e1) {
			bad("round-trip", "used-receiver-decodes-differently", "decoding into a receiver that held another point gives a different value",
				map[string]any{"enc": mon.Hex(e1), "reenc": mon.Hex(ed), "Equal": fresh.Equal(p)})
		}
	}

	// --- stream wrappers carry exactly those bytes ---
	r.Op("Point.MarshalTo", "Point.UnmarshalFrom")
	r.Eval("point/MarshalTo", desc, nt)
	var w bytes.Buffer
	w.Write(c03Prefix)
	n, err := p.MarshalTo(&w)
	if err != nil || n != len(e1) || !bytes.Equal(w.Bytes(), append(append([]byte(nil), c03Prefix...), e1...)) {
		bad("MarshalTo", "bytes-or-count-differ", "MarshalTo does not write exactly the MarshalBinary bytes / report their count",
			map[string]any{"enc": mon.Hex(e1), "written": mon.Hex(w.Bytes()[len(c03Prefix):]), "n": n, "err": fmt.Sprint(err)})
	}
	if !rtBad {
		r.Eval("point/UnmarshalFrom", desc, nt)
		j.pointFrom(s, "UnmarshalFrom", e1, p, func(rd io.Reader) io.Reader { return rd })
		r.Eval("point/UnmarshalFrom-short-reads", desc, nt)
		j.pointFrom(s, "UnmarshalFrom-short-reads", e1, p, func(rd io.Reader) io.Reader { return iotest.OneByteReader(rd) })
	}

	// --- hexadecimal helpers ---
	r.Op("encoding.PointToStringHex", "encoding.StringHexToPoint", "encoding.WriteHexPoint", "encoding.ReadHexPoint")
	r.Eval("point/hex", desc, nt)
	want := hex.EncodeToString(e1)
	hs, err := kenc.PointToStringHex(g.Grp, p)
	if err != nil || hs != want {
		bad("hex", "PointToStringHex-differs", "PointToStringHex is not the hex of MarshalBinary", map[string]any{"enc": want, "got": hs, "err": fmt.Sprint(err)})
	}
	var hw bytes.Buffer
	if err := kenc.WriteHexPoint(&hw, p); err != nil || hw.String() != want {
		bad("hex", "WriteHexPoint-differs", "WriteHexPoint does not write the hex of MarshalBinary", map[string]any{"enc": want, "got": hw.String(), "err": fmt.Sprint(err)})
	}
	if rtBad {
		return e1
	}
	if hp, err := kenc.StringHexToPoint(g.Grp, want); err != nil {
		bad("hex", "StringHexToPoint-rejects", "StringHexToPoint rejects the hex of the library's own encoding: "+err.Error(), map[string]any{"enc": want})
	} else if eh := groups.Enc(hp); !hp.Equal(p) || !p.Equal(hp) || !bytes.Equal(eh, e1) {
		bad("hex", "StringHexToPoint-differs", "StringHexToPoint yields a different point", map[string]any{"enc": want, "reenc": mon.Hex(eh)})
	}
	hr := bytes.NewReader([]byte(want + "zz"))
	if hp, err := kenc.ReadHexPoint(g.Grp, hr); err != nil {
		bad("hex", "ReadHexPoint-rejects", "ReadHexPoint rejects the hex of the library's own encoding: "+err.Error(), map[string]any{"enc": want})
	} else if eh := groups.Enc(hp); !hp.Equal(p) || !bytes.Equal(eh, e1) || hr.Len() != 2 {
		bad("hex", "ReadHexPoint-differs", "ReadHexPoint yields a different point or consumes a different number of characters", map[string]any{"enc": want, "reenc": mon.Hex(eh), "left": hr.Len()})
	}

	// p must still be what it was after all of the above
	if e3 := groups.Enc(p); !bytes.Equal(e3, e1) {
		bad("value-unchanged", "changed-by-encoding-calls", "the encoding of a point changed after MarshalTo / hex / Equal calls on it", map[string]any{"first": mon.Hex(e1), "last": mon.Hex(e3)})
	}
	r.SampleClass("point:"+s.class, map[string]any{"group": g.Name, "kind": "point", "class": s.class, "route": s.route, "enc": mon.Hex(e1)})
	return e1
}

func (j *c03J) pointFrom(s c03P, check string, e1 []byte, p kyber.Point, wrap func(io.Reader) io.Reader) {
	g := j.g
	br := bytes.NewReader(append(append([]byte(nil), e1...), c03Trailer...))
	uf := g.Point()
	n, err := uf.UnmarshalFrom(wrap(br))
	if err != nil {
		j.viol("point", s.class, check, "own-encoding-rejected", "UnmarshalFrom fails on a reader delivering the library's own encoding: "+err.Error(),
			map[string]any{"route": s.route, "enc": mon.Hex(e1), "n": n})
		return
	}
	eu := groups.Enc(uf)
	if n != len(e1) || br.Len() != len(c03Trailer) || !uf.Equal(p) || !p.Equal(uf) || !bytes.Equal(eu, e1) {
		j.viol("point", s.class, check, "bytes-or-count-differ", "UnmarshalFrom does not consume exactly the MarshalBinary bytes / yields a different point",
			map[string]any{"route": s.route, "enc": mon.Hex(e1), "reenc": mon.Hex(eu), "n": n, "left_in_reader": br.Len(), "Equal": uf.Equal(p)})
	}
}

// ---------------------------------------------------------------------------
// per-value battery, scalars
// ---------------------------------------------------------------------------

func (j *c03J) scalar(s c03S) []byte {
	r, g := j.r, j.g
	desc := g.Name + "|" + s.class + "|" + s.route
	nt := !s.triv
	rtBad := false
	bad := func(check, what, msg string, extra map[string]any) {
		d := map[string]any{"route": s.route}
		if s.v != nil {
			d["residue"] = s.v.Text(16)
		}
		for k, v := range extra {
			d[k] = v
		}
		if check == "round-trip" {
			rtBad = true
		}
		j.viol("scalar", s.class, check, what, msg, d)
	}
	r.NoteAdd("values/scalar/"+s.class, 1)
	j.cnt.scalars.Add(1)

	x := s.mk()
	twin := s.mk()

	raw, err := x.MarshalBinary()
	r.Op("Scalar.MarshalBinary", "Scalar.MarshalSize", "Group.ScalarLen")
	r.Eval("scalar/length", desc, nt)
	if err != nil {
		bad("MarshalBinary", "error", "MarshalBinary of a reduced scalar failed: "+err.Error(), nil)
		return nil
	}
	e1 := append([]byte(nil), raw...)
	if ms, sl := x.MarshalSize(), g.Grp.ScalarLen(); len(e1) != ms || len(e1) != sl {
		bad("length", "mismatch", fmt.Sprintf("encoding has %d bytes, MarshalSize()=%d, Group.ScalarLen()=%d", len(e1), ms, sl), map[string]any{"enc": mon.Hex(e1)})
	}
	if len(e1) > 0 && (e1[0] == 0 || e1[len(e1)-1] == 0) {
		r.NoteAdd("values/scalar-with-zero-byte-at-an-end", 1)
	}

	r.Eval("scalar/encode-twice", desc, nt)
	if e2 := groups.Enc(x); !bytes.Equal(e1, e2) {
		bad("encode-twice", "bytes-differ", "two successive MarshalBinary calls on the same scalar return different bytes", map[string]any{"first": mon.Hex(e1), "second": mon.Hex(e2)})
		r.NoteAdd("skipped/battery-after-unstable-encoding", 1)
		return e1
	}

	r.Eval("scalar/value-unchanged", desc, nt)
	eqA, eqB := x.Equal(twin), twin.Equal(x)
	et := groups.Enc(twin)
	if !eqA || !eqB || !bytes.Equal(et, e1) {
		bad("value-unchanged", "differs-from-unencoded-twin", "a scalar that has been encoded is no longer the same as an identically constructed scalar that has not",
			map[string]any{"Equal(x,twin)": eqA, "Equal(twin,x)": eqB, "enc": mon.Hex(e1), "enc_twin": mon.Hex(et)})
	}
	twin2 := s.mk()
	after := g.Scalar().Add(x, g.Scalar().One())
	fresh := g.Scalar().Add(twin2, g.Scalar().One())
	ea, ef := groups.Enc(after), groups.Enc(fresh)
	if !bytes.Equal(ea, ef) {
		bad("value-unchanged", "use-after-encode-differs", "x+1 computed from a scalar after encoding it differs from x+1 computed from a never-encoded twin",
			map[string]any{"enc": mon.Hex(e1), "after": mon.Hex(ea), "fresh": mon.Hex(ef)})
	}

	r.Op("Scalar.UnmarshalBinary", "Scalar.Equal")
	r.Eval("scalar/round-trip", desc, nt)
	dec := g.Scalar()
	if err := dec.UnmarshalBinary(append([]byte(nil), e1...)); err != nil {
		bad("round-trip", "own-encoding-rejected", "UnmarshalBinary rejects the library's own scalar encoding: "+err.Error(), map[string]any{"enc": mon.Hex(e1)})
	} else {
		d1, d2 := dec.Equal(x), x.Equal(dec)
		ed := groups.Enc(dec)
		if !d1 || !d2 {
			bad("round-trip", "decoded-not-Equal", "decoding the encoding of a scalar yields a scalar that is not Equal to it",
				map[string]any{"enc": mon.Hex(e1), "reenc": mon.Hex(ed), "Equal(dec,x)": d1, "Equal(x,dec)": d2})
		}
		if !bytes.Equal(ed, e1) {
			bad("round-trip", "reencoding-differs", "re-encoding the decoded scalar is not byte-identical", map[string]any{"enc": mon.Hex(e1), "reenc": mon.Hex(ed)})
		}
		if ed2 := groups.Enc(g.Scalar().Add(dec, g.Scalar().One())); !bytes.Equal(ed2, ef) {
			bad("round-trip", "decoded-behaves-differently", "x+1 computed from the decoded scalar differs from x+1 computed from the original",
				map[string]any{"enc": mon.Hex(e1), "from_decoded": mon.Hex(ed2), "from_original": mon.Hex(ef)})
		}
	}
	if rtBad {
		r.NoteAdd("skipped/decode-wrappers-after-round-trip-failure", 1)
	} else {
		r.Eval("scalar/round-trip-used-receiver", desc, nt)
		if err := fresh.UnmarshalBinary(append([]byte(nil), e1...)); err != nil {
			bad("round-trip", "own-encoding-rejected-by-used-receiver", "UnmarshalBinary into a receiver holding another scalar rejects the library's own encoding: "+err.Error(), map[string]any{"enc": mon.Hex(e1)})
		} else if ed := groups.Enc(fresh); !fresh.Equal(x) || !bytes.Equal(ed, e1) {
			bad("round-trip", "used-receiver-decodes-differently", "decoding into a receiver that held another scalar gives a different value",
				map[string]any{"enc": mon.Hex(e1), "reenc": mon.Hex(ed), "Equal": fresh.Equal(x)})
		}
	}

	r.Op("Scalar.MarshalTo", "Scalar.UnmarshalFrom")
	r.Eval("scalar/MarshalTo", desc, nt)
	var w bytes.Buffer
	w.Write(c03Prefix)
	n, err := x.MarshalTo(&w)
	if err != nil || n != len(e1) || !bytes.Equal(w.Bytes(), append(append([]byte(nil), c03Prefix...), e1...)) {
		bad("MarshalTo", "bytes-or-count-differ", "MarshalTo does not write exactly the MarshalBinary bytes / report their count",
			map[string]any{"enc": mon.Hex(e1), "written": mon.Hex(w.Bytes()[len(c03Prefix):]), "n": n, "err": fmt.Sprint(err)})
	}
	for _, mode := range []string{"UnmarshalFrom", "UnmarshalFrom-short-reads"} {
		if rtBad {
			break
		}
		r.Eval("scalar/"+mode, desc, nt)
		br := bytes.NewReader(append(append([]byte(nil), e1...), c03Trailer...))
		var rd io.Reader = br
		if mode != "UnmarshalFrom" {
			rd = iotest.OneByteReader(br)
		}
		uf := g.Scalar()
		n, err := uf.UnmarshalFrom(rd)
		if err != nil {
			bad(mode, "own-encoding-rejected", "UnmarshalFrom fails on a reader delivering the library's own scalar encoding: "+err.Error(), map[string]any{"enc": mon.Hex(e1), "n": n})
			continue
		}
		eu := groups.Enc(uf)
		if n != len(e1) || br.Len() != len(c03Trailer) || !uf.Equal(x) || !x.Equal(uf) || !bytes.Equal(eu, e1) {
			bad(mode, "bytes-or-count-differ", "UnmarshalFrom does not consume exactly the MarshalBinary bytes / yields a different scalar",
				map[string]any{"enc": mon.Hex(e1), "reenc": mon.Hex(eu), "n": n, "left_in_reader": br.Len(), "Equal": uf.Equal(x)})
		}
	}

	r.Op("encoding.ScalarToStringHex", "encoding.StringHexToScalar", "encoding.WriteHexScalar", "encoding.ReadHexScalar")
	r.Eval("scalar/hex", desc, nt)
	want := hex.EncodeToString(e1)
	hs, err := kenc.ScalarToStringHex(g.Grp, x)
	if err != nil || hs != want {
		bad("hex", "ScalarToStringHex-differs", "ScalarToStringHex is not the hex of MarshalBinary", map[string]any{"enc": want, "got": hs, "err": fmt.Sprint(err)})
	}
	var hw bytes.Buffer
	if err := kenc.WriteHexScalar(g.Grp, &hw, x); err != nil || hw.String() != want {
		bad("hex", "WriteHexScalar-differs", "WriteHexScalar does not write the hex of MarshalBinary", map[string]any{"enc": want, "got": hw.String(), "err": fmt.Sprint(err)})
	}
	if rtBad {
		return e1
	}
	if hx, err := kenc.StringHexToScalar(g.Grp, want); err != nil {
		bad("hex", "StringHexToScalar-rejects", "StringHexToScalar rejects the hex of the library's own encoding: "+err.Error(), map[string]any{"enc": want})
	} else if eh := groups.Enc(hx); !hx.Equal(x) || !x.Equal(hx) || !bytes.Equal(eh, e1) {
		bad("hex", "StringHexToScalar-differs", "StringHexToScalar yields a different scalar", map[string]any{"enc": want, "reenc": mon.Hex(eh)})
	}
	hr := bytes.NewReader([]byte(want + "zz"))
	if hx, err := kenc.ReadHexScalar(g.Grp, hr); err != nil {
		bad("hex", "ReadHexScalar-rejects", "ReadHexScalar rejects the hex of the library's own encoding: "+err.Error(), map[string]any{"enc": want})
	} else if eh := groups.Enc(hx); !hx.Equal(x) || !bytes.Equal(eh, e1) || hr.Len() != 2 {
		bad("hex", "ReadHexScalar-differs", "ReadHexScalar yields a different scalar or consumes a different number of characters", map[string]any{"enc": want, "reenc": mon.Hex(eh), "left": hr.Len()})
	}

	if e3 := groups.Enc(x); !bytes.Equal(e3, e1) {
		bad("value-unchanged", "changed-by-encoding-calls", "the encoding of a scalar changed after MarshalTo / hex / Equal calls on it", map[string]any{"first": mon.Hex(e1), "last": mon.Hex(e3)})
	}
	r.SampleClass("scalar:"+s.class, map[string]any{"group": g.Name, "kind": "scalar", "class": s.class, "route": s.route, "enc": mon.Hex(e1)})
	return e1
}

// ---------------------------------------------------------------------------
// pairs: Equal <=> identical bytes, and both agree with the shadow
// ---------------------------------------------------------------------------

// pairVerdict judges the observations made on a pair.
func (j *c03J) pairVerdict(kind, rel, ra, rb string, eq bool, ab, ba, ab2, dab bool, ea, eb []byte, decErr error) {
	be := bytes.Equal(ea, eb)
	d := func() map[string]any {
		return map[string]any{"relation": rel, "a": ra, "b": rb, "enc_a": mon.Hex(ea), "enc_b": mon.Hex(eb), "expected_same_value": eq,
			"Equal(a,b)_before_encoding": ab, "Equal(b,a)_before_encoding": ba, "Equal(a,b)_after_encoding": ab2, "Equal(decoded_a,b)": dab}
	}
	class := "pair"
	if ab != be || ba != be || ab2 != be {
		j.viol(kind, class, rel, "Equal-disagrees-with-bytes", "Equal and byte-identity of the encodings disagree", d())
	}
	if ab != ab2 {
		j.viol(kind, class, rel, "Equal-changed-by-encoding", "Equal gives a different answer after the operands have been encoded", d())
	}
	if eq && !be {
		j.viol(kind, class, rel, "same-value-different-bytes", "two routes to the same value give different encodings", d())
	}
	if eq && !(ab && ba) {
		j.viol(kind, class, rel, "same-value-not-Equal", "two routes to the same value are not Equal", d())
	}
	if !eq && be {
		j.viol(kind, class, rel, "different-values-same-bytes", "two different values have the same encoding", d())
	}
	if !eq && (ab || ba) {
		j.viol(kind, class, rel, "different-values-Equal", "two different values are Equal", d())
	}
	if decErr != nil {
		j.viol(kind, class, rel, "own-encoding-rejected", "decoding the library's own encoding failed: "+decErr.Error(), d())
	} else if dab != eq {
		j.viol(kind, class, rel, "decoded-Equal-wrong", "Equal between the decoded first value and the second disagrees with the values", d())
	}
}

func (j *c03J) pointPair(x, y c03P, eq bool, rel string) {
	g := j.g
	a, b := x.mk(), y.mk()
	ab, ba := a.Equal(b), b.Equal(a) // before either has ever been encoded
	ea, eb := groups.Enc(a), groups.Enc(b)
	ab2 := a.Equal(b)
	da := g.Point()
	err := da.UnmarshalBinary(append([]byte(nil), ea...))
	dab := false
	if err == nil {
		dab = da.Equal(b)
	}
	j.r.Eval("point-pair/"+rel, g.Name+"|"+rel+"|"+x.route+"|"+y.route, x.route != y.route)
	j.r.NoteAdd(fmt.Sprintf("pairs/point/expected-equal=%v", eq), 1)
	j.cnt.ppairs.Add(1)
	j.pairVerdict("point", rel, x.route, y.route, eq, ab, ba, ab2, dab, ea, eb, err)
	if eq && bytes.Equal(ea, eb) {
		// the same value must also behave the same: P+P and P+Q from either object
		// (a representation with a stale internal field encodes alike but computes differently)
		da, db, dm := groups.Enc(g.Point().Add(a, a)), groups.Enc(g.Point().Add(b, b)), groups.Enc(g.Point().Add(a, b))
		if !bytes.Equal(da, db) || !bytes.Equal(da, dm) {
			j.viol("point", "pair", rel, "same-value-behaves-differently", "two objects with Equal values and identical encodings give different sums",
				map[string]any{"relation": rel, "a": x.route, "b": y.route, "enc": mon.Hex(ea), "a+a": mon.Hex(da), "b+b": mon.Hex(db), "a+b": mon.Hex(dm)})
		}
	}
	j.r.SampleClass(fmt.Sprintf("ppair:%v", eq), map[string]any{"group": g.Name, "kind": "point-pair", "relation": rel, "a": x.route, "b": y.route, "same": eq, "enc_a": mon.Hex(ea), "enc_b": mon.Hex(eb)})
}

func (j *c03J) scalarPair(x, y c03S, eq bool, rel string) {
	g := j.g
	a, b := x.mk(), y.mk()
	ab, ba := a.Equal(b), b.Equal(a)
	ea, eb := groups.Enc(a), groups.Enc(b)
	ab2 := a.Equal(b)
	da := g.Scalar()
	err := da.UnmarshalBinary(append([]byte(nil), ea...))
	dab := false
	if err == nil {
		dab = da.Equal(b)
	}
	j.r.Eval("scalar-pair/"+rel, g.Name+"|"+rel+"|"+x.route+"|"+y.route, x.route != y.route)
	j.r.NoteAdd(fmt.Sprintf("pairs/scalar/expected-equal=%v", eq), 1)
	j.cnt.spairs.Add(1)
	j.pairVerdict("scalar", rel, x.route, y.route, eq, ab, ba, ab2, dab, ea, eb, err)
	if eq && bytes.Equal(ea, eb) {
		one := g.Scalar().One()
		da, db := groups.Enc(g.Scalar().Add(a, one)), groups.Enc(g.Scalar().Add(b, one))
		ma, mb := groups.Enc(g.Scalar().Mul(a, a)), groups.Enc(g.Scalar().Mul(b, a))
		if !bytes.Equal(da, db) || !bytes.Equal(ma, mb) {
			j.viol("scalar", "pair", rel, "same-value-behaves-differently", "two objects with Equal values and identical encodings give different sums or products",
				map[string]any{"relation": rel, "a": x.route, "b": y.route, "enc": mon.Hex(ea), "a+1": mon.Hex(da), "b+1": mon.Hex(db), "a*a": mon.Hex(ma), "b*a": mon.Hex(mb)})
		}
	}
	j.r.SampleClass(fmt.Sprintf("spair:%v", eq), map[string]any{"group": g.Name, "kind": "scalar-pair", "relation": rel, "a": x.route, "b": y.route, "same": eq, "enc_a": mon.Hex(ea), "enc_b": mon.Hex(eb)})
}

// ---------------------------------------------------------------------------
// walk: consecutive multiples k0*B, (k0+1)*B, ... accumulated by Add (the
// accumulator is in whatever internal form a long addition chain leaves it).
// Every step gets the cheap checks; encodings with a coordinate that has
// leading zero bytes (probability ~1/128 per point on 256-bit curves) get the
// whole battery. Consecutive values are different by construction.
// ---------------------------------------------------------------------------

func (j *c03J) walk(b *c03B, idx, steps int) {
	r, g := j.r, j.g
	rng := b.rng
	k0 := big.NewInt(1)
	if idx > 0 {
		k0 = rng.Big(new(big.Int).Rsh(g.Q, 1))
		k0.Add(k0, big.NewInt(1))
	}
	B := g.Gen()
	acc := g.Point().Mul(g.ScalarFromBig(k0), B)
	var prev []byte
	pl := g.Grp.PointLen()
	hits := 0
	for i := 0; i < steps; i++ {
		k := new(big.Int).Add(k0, big.NewInt(int64(i)))
		desc := g.Name + "|walk|" + k.Text(16)
		snap := acc.Clone() // not encoded until acc has been
		e := groups.Enc(acc)
		r.Eval("walk/length+twice+round-trip+neighbour", desc, true)
		d := func(extra map[string]any) map[string]any {
			m := map[string]any{"k": k.Text(16), "k0": k0.Text(16), "step": i, "construction": "acc=Mul(k0,B); acc=Add(acc,B) i times", "enc": mon.Hex(e)}
			for kk, v := range extra {
				m[kk] = v
			}
			return m
		}
		if len(e) != pl || acc.MarshalSize() != pl {
			j.viol("point", "walk", "length", "mismatch", fmt.Sprintf("encoding has %d bytes, MarshalSize()=%d, PointLen()=%d", len(e), acc.MarshalSize(), pl), d(nil))
		}
		if e2 := groups.Enc(acc); !bytes.Equal(e, e2) {
			j.viol("point", "walk", "encode-twice", "bytes-differ", "two successive MarshalBinary calls return different bytes", d(map[string]any{"second": mon.Hex(e2)}))
		}
		if es := groups.Enc(snap); !acc.Equal(snap) || !bytes.Equal(es, e) {
			j.viol("point", "walk", "value-unchanged", "differs-from-unencoded-clone", "an encoded accumulator differs from the clone taken before encoding", d(map[string]any{"clone": mon.Hex(es)}))
		}
		dec := g.Point()
		if err := dec.UnmarshalBinary(append([]byte(nil), e...)); err != nil {
			j.viol("point", "walk", "round-trip", "own-encoding-rejected", "UnmarshalBinary rejects the library's own encoding: "+err.Error(), d(nil))
		} else {
			ed := groups.Enc(dec)
			if !dec.Equal(acc) || !acc.Equal(dec) {
				j.viol("point", "walk", "round-trip", "decoded-not-Equal", "decoded point is not Equal to the encoded one", d(map[string]any{"reenc": mon.Hex(ed)}))
			}
			if !bytes.Equal(ed, e) {
				j.viol("point", "walk", "round-trip", "reencoding-differs", "re-encoding the decoded point is not byte-identical", d(map[string]any{"reenc": mon.Hex(ed)}))
			}
		}
		if prev != nil && bytes.Equal(prev, e) {
			j.viol("point", "walk", "neighbour", "different-values-same-bytes", "k*B and (k+1)*B have the same encoding", d(nil))
		}
		if c03CoordHasLeadingZero(g, e) {
			hits++
		}
		if c03CoordHasLeadingZero(g, e) && hits <= 16 {
			// same value by an independent route, full battery
			km1 := new(big.Int).Sub(k, big.NewInt(1))
			spec := b.pAdd(b.pMulBase(km1), b.gens[0])
			spec.class = "lz"
			if e2 := j.point(spec); e2 != nil && !bytes.Equal(e2, e) {
				j.viol("point", "walk", "routes", "same-value-different-bytes", "k*B accumulated by additions and (k-1)*B+B encode differently", d(map[string]any{"other": mon.Hex(e2)}))
			}
			// and its negation (sign handling when the other coordinate is short)
			neg := b.pNeg(spec)
			neg.class = "lz"
			j.point(neg)
			j.pointPair(spec, neg, false, "P!=-P")
		}
		prev = e
		acc = g.Point().Add(acc, B)
	}
	r.NoteAdd("walk/steps", int64(steps))
	j.cnt.walk.Add(int64(steps))
	r.NoteAdd("walk/leading-zero-coordinate-hits", int64(hits))
	r.NoteAdd("walk/leading-zero-coordinate-hits/"+g.Name, int64(hits))
}

// ---------------------------------------------------------------------------

func c03(r *mon.R) {
	r.SetRule("per group (20 instances): (a) point values built by recipes — routes to the identity (Null, Neg(Null), P-P, 0*P, kB+(q-k)B ...), to the base, multiples by edge scalars, random Add/Sub/Neg/double chains over the base and opaque Pick/Embed/Hash/pairing-output points (non-normalised internal forms), Mul outputs, opaque points and their P+G-G forms, Set/Clone/decoded copies; (b) reduced scalars — 0, 1, q-1 by every route, edge values (2^k, 2^k+-1, short values with leading zero bytes), SetInt64 incl. negatives, SetBytes of long/unreduced/zero-padded input, Pick, arithmetic results, copies; each value goes through the battery: length = MarshalSize = Group.PointLen/ScalarLen, two encodings identical, value Equal to a never-encoded twin and behaving like it afterwards, decode succeeds / Equal / re-encodes byte-identically (fresh and used receiver), MarshalTo / UnmarshalFrom (also with 1-byte reads) / util/encoding hex functions move exactly these bytes; (c) pairs whose (in)equality the harness knows from a discrete-log / residue shadow: Equal both ways, before and after encoding, must coincide with byte-identity and with the shadow; (e) every setter-type operation (scalars: Zero, One, SetInt64, SetBytes, Pick, Set, UnmarshalBinary, UnmarshalFrom; points: Null, Base, Pick, Embed, Hash, Set, UnmarshalBinary, UnmarshalFrom where supported) applied to a receiver that already holds a full-width / non-normalised value, a short / special value (0, 1, small; identity, generator), or the result of another kind of setter: the value left in the reused object goes through the same battery and must be Equal both ways and byte-identical to the value the same setter leaves in a fresh receiver; (d) walks over consecutive multiples k*B accumulated by Add, cheap checks at every step and the battery on every encoding that has a coordinate with leading zero bytes. distinct = (group, class, construction route); non-trivial = value checks: the value is not a constant made directly on a fresh receiver (Null(), Base()/pairing of bases, Zero(), One()); pair checks: the two values are built by different routes")
	r.Assume("math/big arithmetic mod q is the reference that decides which scalars / discrete-log shadows denote the same value")
	r.Assume("opaque generators (Pick/Embed/Hash/pairing outputs with random arguments) are linearly independent of the base and of each other (fails with probability ~2^-250)")
	r.Assume("every group has odd prime order, so P != -P and P != 2P for P != O")
	r.Assume("decoders accepting non-canonical or unreduced input is outside C03 (only encodings produced by the library are decoded)")
	gs := groups.Select(groups.All(), *flagGroups)
	type job struct {
		g    *groups.G
		kind string
		idx  int
		n    int
	}
	var jobs []job
	cnts := map[string]*c03Cnt{}
	for _, g := range gs {
		cnts[g.Name] = &c03Cnt{}
		for op, msg := range g.PanicsSeen {
			r.Note("capability-probe-panic/"+g.Name+"/"+op, msg)
		}
		// values per job
		const per = 25
		np, ns, npp, nsp := r.N(300, 6000), r.N(300, 6000), r.N(300, 6000), r.N(300, 6000)
		nw, wsteps := r.N(4, 40), r.N(512, 1024)
		if g.Kind == "GT" || g.Kind == "G2" {
			np, npp = r.N(150, 2000), r.N(150, 2000)
			nw, wsteps = r.N(2, 20), r.N(256, 512)
		}
		for i := 0; i*per < np; i++ {
			jobs = append(jobs, job{g, "points", i, per})
		}
		for i := 0; i*per < npp; i++ {
			jobs = append(jobs, job{g, "point-pairs", i, per})
		}
		for i := 0; i < nw; i++ {
			jobs = append(jobs, job{g, "walk", i, wsteps})
		}
		for i := 0; i*2*per < ns; i++ {
			jobs = append(jobs, job{g, "scalars", i, 2 * per})
		}
		for i := 0; i*2*per < nsp; i++ {
			jobs = append(jobs, job{g, "scalar-pairs", i, 2 * per})
		}
		// setters on receivers that already hold a value: n = rounds of (every setter x every prefill kind)
		nss, nps := r.N(4, 80), r.N(2, 40)
		if g.Kind == "GT" || g.Kind == "G2" {
			nps = r.N(1, 20)
		}
		for i := 0; i < nss; i++ {
			jobs = append(jobs, job{g, "scalar-setters", i, 1})
		}
		for i := 0; i < nps; i++ {
			jobs = append(jobs, job{g, "point-setters", i, 1})
		}
	}
	// interleave groups so that expensive groups do not pile up at the end
	rngOrder := gen.New(r.Seed, "C03order", 0)
	perm := rngOrder.Perm(len(jobs))
	mon.Parallel(len(jobs), func(w, i int) {
		jb := jobs[perm[i]]
		r.Journal(w, "C03 %s %s %d", jb.g.Name, jb.kind, jb.idx)
		r.Guard("C03/"+jb.g.Name+"/"+jb.kind, map[string]any{"group": jb.g.Name, "kind": jb.kind, "idx": jb.idx}, func() {
			rng := gen.New(r.Seed, "C03"+jb.kind+jb.g.Name, jb.idx)
			j := &c03J{r: r, g: jb.g, cnt: cnts[jb.g.Name]}
			nOpaque := 2
			if jb.kind == "walk" || jb.kind == "scalars" || jb.kind == "scalar-pairs" || jb.kind == "scalar-setters" {
				nOpaque = 0
			}
			b := c03NewB(jb.g, rng, nOpaque)
			switch jb.kind {
			case "points":
				var specs []c03P
				if jb.idx == 0 {
					specs = b.pFixed()
				}
				for len(specs) < jb.n {
					specs = append(specs, b.pRandom())
				}
				for _, s := range specs {
					r.Guard("C03/"+jb.g.Name+"/point/"+s.class+"/battery", map[string]any{"group": jb.g.Name, "route": s.route}, func() { j.point(s) })
				}
			case "point-pairs":
				for k := 0; k < jb.n; k++ {
					x, y, eq, rel := b.pPair()
					r.Guard("C03/"+jb.g.Name+"/point/pair/"+rel, map[string]any{"group": jb.g.Name, "a": x.route, "b": y.route}, func() { j.pointPair(x, y, eq, rel) })
				}
			case "walk":
				j.walk(b, jb.idx, jb.n)
			case "scalars":
				var specs []c03S
				if jb.idx == 0 {
					specs = b.sFixed()
				}
				for len(specs) < jb.n {
					specs = append(specs, b.sRandom())
				}
				for _, s := range specs {
					r.Guard("C03/"+jb.g.Name+"/scalar/"+s.class+"/battery", map[string]any{"group": jb.g.Name, "route": s.route}, func() { j.scalar(s) })
				}
			case "scalar-setters":
				for round := 0; round < jb.n; round++ {
					for _, name := range c03ScalarSetterNames {
						for _, kind := range c03PrefillKinds {
							st := b.sSetter(name)
							reused, fresh := b.sReused(st, b.sPrefill(kind, name), kind), b.sOnFresh(st)
							rel := "reused." + name + "=fresh"
							det := map[string]any{"group": jb.g.Name, "route": reused.route}
							r.Op("Scalar." + name + "/used-receiver")
							r.Guard("C03/"+jb.g.Name+"/scalar/"+reused.class+"/battery", det, func() { j.scalar(reused) })
							r.Guard("C03/"+jb.g.Name+"/scalar/pair/"+rel, det, func() { j.scalarPair(reused, fresh, true, rel) })
							j.cnt.ssetters.Add(1)
						}
					}
				}
			case "point-setters":
				for round := 0; round < jb.n; round++ {
					for _, name := range b.pointSetterNames() {
						for _, kind := range c03PrefillKinds {
							st := b.pSetter(name)
							reused, fresh := b.pReused(st, b.pPrefill(kind, name), kind), b.pOnFresh(st)
							rel := "reused." + name + "=fresh"
							det := map[string]any{"group": jb.g.Name, "route": reused.route}
							r.Op("Point." + name + "/used-receiver")
							r.Guard("C03/"+jb.g.Name+"/point/"+reused.class+"/battery", det, func() { j.point(reused) })
							r.Guard("C03/"+jb.g.Name+"/point/pair/"+rel, det, func() { j.pointPair(reused, fresh, true, rel) })
							j.cnt.psetters.Add(1)
						}
					}
				}
			case "scalar-pairs":
				for k := 0; k < jb.n; k++ {
					x, y, eq, rel := b.sPair()
					r.Guard("C03/"+jb.g.Name+"/scalar/pair/"+rel, map[string]any{"group": jb.g.Name, "a": x.route, "b": y.route}, func() { j.scalarPair(x, y, eq, rel) })
				}
			}
		})
	})
	r.Note("groups", len(gs))
	if len(gs) == 0 {
		r.Inconclusive("no group selected: nothing observed")
	}
	for _, g := range gs {
		c := cnts[g.Name]
		if c.points.Load() == 0 || c.scalars.Load() == 0 || c.ppairs.Load() == 0 || c.spairs.Load() == 0 || c.walk.Load() == 0 || c.ssetters.Load() == 0 || c.psetters.Load() == 0 {
			r.Inconclusive(fmt.Sprintf("group %s: a workload observed nothing (points=%d scalars=%d point-pairs=%d scalar-pairs=%d walk-steps=%d scalar-setters=%d point-setters=%d)",
				g.Name, c.points.Load(), c.scalars.Load(), c.ppairs.Load(), c.spairs.Load(), c.walk.Load(), c.ssetters.Load(), c.psetters.Load()))
		}
	}
}
