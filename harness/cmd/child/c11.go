package main

import "verif/internal/mon"

func init() { register("C11", c11) }

// c11 dispatches on -mode: direct (Pedersen DKG through the direct API), proto (Pedersen Protocol driver with a
// harness Board/Phaser), rabin (Rabin DKG).
func c11(r *mon.R) {
	switch *flagMode {
	case "rabin":
		c11Rabin(r)
	case "proto":
		c11Proto(r)
	default:
		c11Direct(r)
	}
}
