package main

// C08, Ed25519-specific parts: structured/crafted cases, the EdDSA workload
// judged against crypto/ed25519, and the canonicity / small-order predicates.

import (
	"bytes"
	"crypto/ed25519"
	"crypto/sha512"
	"fmt"
	"math/big"
	"sync"

	"go.dedis.ch/kyber/v4/group/edwards25519"
	"go.dedis.ch/kyber/v4/sign/eddsa"

	"verif/internal/gen"
	"verif/internal/groups"
	"verif/internal/mon"
	"verif/internal/ref"
)

type c08Enc struct {
	name string
	b    []byte
}

// c08EdKit holds the fixed Ed25519 material derived from the big.Int model.
type c08EdKit struct {
	tors     []*ref.C08Pt // k*T8, k=0..7
	small    []c08Enc     // every encoding that denotes a small-order point (canonical and not)
	identity []c08Enc     // the encodings of the neutral element among them
	ncY      []c08Enc     // encodings with y >= p that denote points of large order
}

var (
	c08KitOnce sync.Once
	c08KitVal  *c08EdKit
)

func c08Kit() *c08EdKit {
	c08KitOnce.Do(func() {
		k := &c08EdKit{tors: ref.C08EdTorsion()}
		seen := map[string]bool{}
		addSmall := func(name string, b []byte) {
			if seen[string(b)] {
				return
			}
			d := ref.C08EdDecode(b)
			if !d.OnCurve || !ref.C08EdSmallOrder(d.P) {
				panic("harness: kit encoding is not a small-order point: " + name)
			}
			seen[string(b)] = true
			e := c08Enc{name, b}
			k.small = append(k.small, e)
			if ref.C08EdEqual(d.P, ref.C08EdNeutral()) {
				k.identity = append(k.identity, e)
			}
		}
		for i, t := range k.tors {
			o := ref.C08EdOrderOfTorsion(t)
			enc := ref.C08EdEncode(t)
			addSmall(fmt.Sprintf("%dT8(order%d)", i, o), enc)
			if t.X.Sign() == 0 { // x = 0: the sign bit is free
				v := c08Clone(enc)
				v[31] |= 0x80
				addSmall(fmt.Sprintf("%dT8(order%d)+xzero-sign", i, o), v)
			}
			if t.Y.Cmp(big.NewInt(19)) < 0 { // y+p still fits in 255 bits
				v := ref.C08BigToLE(new(big.Int).Add(t.Y, ref.C08P), 32)
				v[31] |= byte(t.X.Bit(0)) << 7
				addSmall(fmt.Sprintf("%dT8(order%d)+y+p", i, o), v)
				if t.X.Sign() == 0 {
					w := c08Clone(v)
					w[31] |= 0x80
					addSmall(fmt.Sprintf("%dT8(order%d)+y+p+xzero-sign", i, o), w)
				}
			}
		}
		for y := int64(0); y < 19; y++ {
			v := ref.C08BigToLE(new(big.Int).Add(big.NewInt(y), ref.C08P), 32)
			d := ref.C08EdDecode(v)
			if !d.OnCurve || ref.C08EdSmallOrder(d.P) {
				continue
			}
			for s := byte(0); s < 2; s++ {
				w := c08Clone(v)
				w[31] |= s << 7
				k.ncY = append(k.ncY, c08Enc{fmt.Sprintf("y=p+%d,sign=%d", y, s), w})
			}
		}
		if len(k.small) < 12 || len(k.identity) < 4 || len(k.ncY) < 4 {
			panic(fmt.Sprintf("harness: Ed25519 kit incomplete: small=%d identity=%d ncY=%d", len(k.small), len(k.identity), len(k.ncY)))
		}
		c08KitVal = k
	})
	return c08KitVal
}

// c08EdH computes SHA-512(R || A || msg) as an integer mod L, the digest being
// read in the byte order of the group's scalars (little endian for Ed25519 proper).
func c08EdH(g *c08Grp, R, A, msg []byte) *big.Int {
	h := sha512.New()
	h.Write(R)
	h.Write(A)
	h.Write(msg)
	x := g.scalarInt(h.Sum(nil))
	return x.Mod(x, ref.C08L)
}

// edCases builds the Ed25519-specific cases for an honest (pub0,msg0,sig0)
// whose secret scalar a (mod L) is known to the harness. rawHash tells whether
// the verifier under test hashes the raw R/A bytes (EdDSA, crypto/ed25519) or
// the re-encoded points (schnorr).
func (k *c08EdKit) edCases(g *c08Grp, rng *gen.Rng, pub0, msg0, sig0 []byte, a *big.Int, rawHash, lite bool) []*c08Case {
	small, torsIdx, tries := k.small, []int{1, 2, 3, 4, 5, 6, 7}, 96
	if lite { // slow implementations: a sampled subset of each family
		small = nil
		for _, i := range rng.Perm(len(k.small))[:3] {
			small = append(small, k.small[i])
		}
		torsIdx = []int{1 + rng.IntN(7), 4}
		tries = 32
	}
	var cs []*c08Case
	L := ref.C08L
	R0, S0 := sig0[:32], sig0[32:]
	add := func(class, pos string, pub, msg, sig []byte) {
		cs = append(cs, &c08Case{class: class, pos: pos, pub: pub, msg: msg, sig: sig, demand: -1})
	}
	craftedDemand := c08Free
	if g.strict {
		craftedDemand = c08Reject
	}
	crafted := func(class, pos, why string, pub, sig []byte, demand int) {
		cs = append(cs, &c08Case{class: class, pos: pos, pub: pub, msg: msg0, sig: sig, demand: demand, why: why})
	}
	hb := func(enc []byte) []byte { // the bytes the verifier under test feeds to the hash
		if rawHash {
			return enc
		}
		d := ref.C08EdDecode(enc)
		if !d.OnCurve {
			return enc
		}
		return ref.C08EdEncode(d.P)
	}
	baseMul := func(x *big.Int) []byte { return groups.Enc(g.point().Mul(g.scalarFromBig(x), nil)) }
	sEnc := func(x *big.Int) []byte { return g.scalarBytes(new(big.Int).Mod(x, L)) }

	Rd, Ad := ref.C08EdDecode(R0), ref.C08EdDecode(pub0)
	if !Rd.OnCurve || !Ad.OnCurve {
		panic("harness: honest R or A does not decode in the reference model")
	}
	// --- mutations of the honest triple (classified by the generic classifier)
	for _, i := range torsIdx {
		add("ed/R+torsion", fmt.Sprint(i), pub0, msg0, c08Cat(ref.C08EdEncode(ref.C08EdAdd(Rd.P, k.tors[i])), S0))
		add("ed/A+torsion", fmt.Sprint(i), ref.C08EdEncode(ref.C08EdAdd(Ad.P, k.tors[i])), msg0, sig0)
	}
	for _, e := range small {
		add("ed/R=small-order", e.name, pub0, msg0, c08Cat(e.b, S0))
		add("ed/A=small-order", e.name, e.b, msg0, sig0)
	}
	nNc := 4
	if lite {
		nNc = 1
	}
	for _, i := range rng.Perm(len(k.ncY))[:nNc] {
		e := k.ncY[i]
		add("ed/R=noncanonical-y", e.name, pub0, msg0, c08Cat(e.b, S0))
		add("ed/A=noncanonical-y", e.name, e.b, msg0, sig0)
	}
	// --- crafted forgeries: the verification equation holds, only the extra checks can stop them
	// F1: small-order key, h = 0 mod 8  =>  hA = O, so (R=rB, S=r) satisfies sB = R + hA for ANY message
	for _, e := range small {
		for try := 0; try < tries; try++ {
			rr := rng.Big(L)
			if rr.Sign() == 0 {
				continue
			}
			Renc := baseMul(rr)
			h := c08EdH(g, hb(Renc), hb(e.b), msg0)
			if new(big.Int).And(h, big.NewInt(7)).Sign() == 0 {
				crafted("ed/forge-smallorder-key", e.name, "A has small order and h=0 mod 8, so sB=R+hA holds with S=r for a message never signed", e.b, c08Cat(Renc, sEnc(rr)), craftedDemand)
				break
			}
		}
	}
	// F2: R = neutral element (every encoding of it), S = h*a
	for _, e := range k.identity {
		h := c08EdH(g, hb(e.b), hb(pub0), msg0)
		crafted("ed/forge-identity-R", e.name, "R is the neutral element (small order), S=h*a satisfies sB=R+hA", pub0, c08Cat(e.b, sEnc(new(big.Int).Mul(h, a))), craftedDemand)
	}
	// F3: mixed-order key A' = A + T8, R = k*T8 with k+h = 0 mod 8, S = h*a
	for _, ti := range []int{1, 3, 5, 7} {
		Ap := ref.C08EdEncode(ref.C08EdAdd(Ad.P, k.tors[ti]))
		for _, kk := range []int{1, 2, 3, 4, 5, 6, 7} {
			Renc := ref.C08EdEncode(k.tors[(kk*ti)%8])
			h := c08EdH(g, Renc, Ap, msg0)
			if (int64(kk)+new(big.Int).And(h, big.NewInt(7)).Int64())%8 == 0 {
				crafted("ed/forge-mixedkey-smallorder-R", fmt.Sprintf("T=%dT8,k=%d", ti, kk), "key A+T8 is canonical and of large order; R=k*T8 has small order and k+h=0 mod 8, so sB=R+hA' holds with S=h*a",
					Ap, c08Cat(Renc, sEnc(new(big.Int).Mul(h, a))), craftedDemand)
				break
			}
		}
	}
	// --- equation-valid signatures under a mixed-order key (nothing demanded of kyber itself;
	//     they matter for kyber-accept => std-accept: a cofactored verifier would disagree with crypto/ed25519)
	ti := []int{1, 3, 5, 7}[rng.IntN(4)]
	ApP := ref.C08EdAdd(Ad.P, k.tors[ti])
	Ap := ref.C08EdEncode(ApP)
	for try := 0; try < 64 && !lite; try++ {
		rr := rng.Big(L)
		kk := 1 + rng.IntN(7)
		rB := ref.C08EdDecode(baseMul(rr))
		if rr.Sign() == 0 || !rB.OnCurve {
			continue
		}
		Renc := ref.C08EdEncode(ref.C08EdAdd(rB.P, k.tors[(kk*ti)%8]))
		h := c08EdH(g, Renc, Ap, msg0)
		if (int64(kk)+new(big.Int).And(h, big.NewInt(7)).Int64())%8 == 0 {
			S := new(big.Int).Mul(h, a)
			S.Add(S, rr)
			crafted("ed/mixedkey-mixedR-valid", "", "A'=A+T8, R=rB+k*T8, k+h=0 mod 8: the cofactorless equation holds exactly", Ap, c08Cat(Renc, sEnc(S)), c08Free)
			break
		}
	}
	{
		rr := rng.Big(L)
		Renc := baseMul(rr)
		h := c08EdH(g, Renc, Ap, msg0)
		S := new(big.Int).Mul(h, a)
		S.Add(S, rr)
		if new(big.Int).And(h, big.NewInt(7)).Sign() == 0 {
			crafted("ed/mixedkey-plain-sign-h=0mod8", "", "signature by a under A'=A+T8, h=0 mod 8: the cofactorless equation holds", Ap, c08Cat(Renc, sEnc(S)), c08Free)
		} else {
			crafted("ed/mixedkey-plain-sign-h!=0mod8", "", "signature by a under A'=A+T8, h!=0 mod 8: only a cofactored verifier would accept", Ap, c08Cat(Renc, sEnc(S)), c08Free)
		}
	}
	return cs
}

// ---------------------------------------------------------------------------
// EdDSA

func c08StdVerify(pub, msg, sig []byte) bool {
	if len(pub) != ed25519.PublicKeySize {
		return false
	}
	return ed25519.Verify(ed25519.PublicKey(pub), msg, sig)
}

func c08EdLen(r *mon.R, rng *gen.Rng, idx int) int {
	if r.Thorough() {
		if idx <= 4096 {
			return idx
		}
		return rng.IntN(4097)
	}
	switch {
	case idx < 260:
		return idx
	case idx < 300:
		return 4096 - (idx - 260)
	}
	return rng.IntN(4097)
}

var c08SpecialSeeds = [][]byte{
	bytes.Repeat([]byte{0x00}, 32), bytes.Repeat([]byte{0xff}, 32), bytes.Repeat([]byte{0x80}, 32), bytes.Repeat([]byte{0x01}, 32),
	append([]byte{0x01}, make([]byte, 31)...), append(make([]byte, 31), 0x80),
}

func c08EdDSAJob(r *mon.R, idx int) {
	rng := gen.New(r.Seed, "C08eddsa", idx)
	g := c08NewGrp("ed25519", edwards25519.NewBlakeSHA256Ed25519(), false)
	const where = "eddsa"
	var e *eddsa.EdDSA
	var seed []byte
	path := "UnmarshalBinary"
	if idx%2 == 1 {
		// key generation from a stream: the seed is whatever the stream yields
		path = "NewEdDSA"
		e = eddsa.NewEdDSA(rng.Stream())
		mb, err := e.MarshalBinary()
		if err != nil || len(mb) != 64 {
			panic(fmt.Sprintf("eddsa.MarshalBinary: %v len=%d", err, len(mb)))
		}
		seed = c08Clone(mb[:32])
	} else {
		if idx%50 == 8 {
			seed = c08Clone(c08SpecialSeeds[(idx/50)%len(c08SpecialSeeds)])
		} else {
			seed = rng.Bytes(32)
		}
		e = &eddsa.EdDSA{}
		// the second half of the input is documented as the public key; only the seed is used
		if err := e.UnmarshalBinary(c08Cat(seed, make([]byte, 32))); err != nil {
			panic("eddsa.UnmarshalBinary: " + err.Error())
		}
	}
	std := ed25519.NewKeyFromSeed(seed)
	stdPub := []byte(std.Public().(ed25519.PublicKey))
	msg0 := rng.Bytes(c08EdLen(r, rng, idx))
	desc := fmt.Sprintf("%d|%s|len=%d", idx, path, len(msg0))
	wit0 := func() map[string]any {
		return map[string]any{"job": idx, "key_path": path, "seed": mon.Hex(seed), "msg": mon.Hex(msg0), "std_pub": mon.Hex(stdPub)}
	}
	r.Op("eddsa."+path, "eddsa.Sign", "eddsa.Verify", "eddsa.VerifyWithChecks", "eddsa.MarshalBinary", "crypto/ed25519.Sign", "crypto/ed25519.Verify")

	pub0 := groups.Enc(e.Public)
	c08Check(r, where, "eddsa."+path, "pubkey=crypto/ed25519", desc, bytes.Equal(pub0, stdPub), func() map[string]any {
		d := wit0()
		d["kyber_pub"] = mon.Hex(pub0)
		return d
	})
	mb, merr := e.MarshalBinary()
	c08Check(r, where, "eddsa.MarshalBinary", "private-encoding=crypto/ed25519", desc, merr == nil && bytes.Equal(mb, []byte(std)), func() map[string]any {
		d := wit0()
		d["kyber"], d["std"] = mon.Hex(mb), mon.Hex([]byte(std))
		return d
	})
	sig0, err := e.Sign(c08Clone(msg0))
	if err != nil {
		r.Violation("C08/eddsa/eddsa.Sign/honest/error", "Sign returned an error: "+err.Error(), wit0())
		return
	}
	sig0 = c08Clone(sig0)
	stdSig := ed25519.Sign(std, msg0)
	witS := func() map[string]any {
		d := wit0()
		d["kyber_sig"], d["std_sig"] = mon.Hex(sig0), mon.Hex(stdSig)
		return d
	}
	c08Check(r, where, "eddsa.Sign", "signature=crypto/ed25519", desc, bytes.Equal(sig0, stdSig), witS)
	sigB, errB := e.Sign(c08Clone(msg0))
	c08Check(r, where, "eddsa.Sign", "deterministic/same-object", desc, errB == nil && bytes.Equal(sigB, sig0), witS)
	var e2 eddsa.EdDSA
	if mb != nil && e2.UnmarshalBinary(c08Clone(mb)) == nil {
		sigC, errC := e2.Sign(c08Clone(msg0))
		c08Check(r, where, "eddsa.Sign", "deterministic/after-marshal-roundtrip", desc, errC == nil && bytes.Equal(sigC, sig0), witS)
	}
	// honest verification
	o := c08Run(func() error { return eddsa.VerifyWithChecks(c08Clone(pub0), c08Clone(msg0), c08Clone(sig0)) })
	c08Judge(r, where, "eddsa.VerifyWithChecks", "honest", desc, true, c08Accept, o, witS)
	o = c08Run(func() error { return eddsa.Verify(e.Public, c08Clone(msg0), c08Clone(sig0)) })
	c08Judge(r, where, "eddsa.Verify", "honest", desc, true, c08Accept, o, witS)
	c08Check(r, where, "crypto/ed25519.Verify", "std-accepts-kyber-signature", desc, c08StdVerify(stdPub, msg0, sig0), witS)
	if !bytes.Equal(pub0, stdPub) || !bytes.Equal(sig0, stdSig) {
		return // the mutation corpus presupposes an honest triple
	}

	// secret scalar a = clamp(SHA-512(seed)[:32]) mod L, computed by the harness
	dg := sha512.Sum512(seed)
	dg[0] &= 0xf8
	dg[31] &= 0x7f
	dg[31] |= 0x40
	a := ref.C08LEToBig(dg[:32])
	a.Mod(a, ref.C08L)

	otherSeed := rng.Bytes(32)
	otherPub := []byte(ed25519.NewKeyFromSeed(otherSeed).Public().(ed25519.PublicKey))
	nSig, nMsg, nKey, all := 64, 12, 24, false
	if r.Thorough() {
		nSig, nMsg, nKey, all = 128, 24, 48, idx%8 == 0
	}
	cases := g.c08GenericCases(rng, pub0, msg0, sig0, otherPub, nSig, nMsg, nKey, all)
	cases = append(cases, c08Kit().edCases(g, rng, pub0, msg0, sig0, a, true, false)...)
	// a valid signature of another key, and the std signature of another message
	cases = append(cases, &c08Case{class: "sig-of-other-key", pub: pub0, msg: msg0, sig: ed25519.Sign(ed25519.NewKeyFromSeed(otherSeed), msg0), demand: c08Reject, why: "valid signature by another key"})
	cases = append(cases, &c08Case{class: "sig-of-other-msg", pub: pub0, msg: msg0, sig: ed25519.Sign(std, c08Cat(msg0, []byte{1})), demand: c08Reject, why: "valid signature of another message"})
	for _, c := range cases {
		g.classify(pub0, msg0, sig0, c)
		if c.demand == -2 {
			continue
		}
		cd := fmt.Sprintf("%d|%s|%s", idx, c.class, c.pos)
		wit := c08Wit(g, idx, c, pub0, msg0, sig0)
		o := c08Run(func() error { return eddsa.VerifyWithChecks(c08Clone(c.pub), c08Clone(c.msg), c08Clone(c.sig)) })
		c08Judge(r, where, "eddsa.VerifyWithChecks", c.class, cd, true, c.demand, o, wit)
		stdAcc := c08StdVerify(c.pub, c.msg, c.sig)
		r.Eval("eddsa.VerifyWithChecks/accept=>std-accept", where+"|"+cd, true)
		if o.accepted && !stdAcc {
			d := wit()
			d["observed"] = "kyber eddsa.VerifyWithChecks: nil; crypto/ed25519.Verify: false"
			r.Violation("C08/eddsa/eddsa.VerifyWithChecks/"+c.class+"/accepted-but-std-rejects", "EdDSA verifier accepts what crypto/ed25519 rejects ("+c.class+")", d)
		}
		switch {
		case o.accepted && stdAcc:
			c08NoteAdd("eddsa-corpus/both-accept/"+c.class, 1)
		case stdAcc:
			c08NoteAdd("eddsa-corpus/std-accepts-kyber-rejects/"+c.class, 1)
		}
		c08Sample(r, "eddsa/"+c.class, func() any {
			return map[string]any{"scheme": "eddsa", "class": c.class, "variant": c.pos,
				"demand": []string{"accept", "reject", "recorded-only"}[c.demand], "classification": c.why, "kyber_accepts": o.accepted, "std_accepts": stdAcc, "error": c08Short(o.err),
				"pub": mon.Hex(c.pub), "msg_len": len(c.msg), "sig": mon.Hex(c.sig)}
		})
		// point-typed entry point for keys that are canonical encodings
		if len(c.pub) == 32 && (idx%4 == 0 || c.class[0] == 'm' || c.class[0] == 'k') {
			A := g.grp.Point()
			if A.UnmarshalBinary(c.pub) == nil && bytes.Equal(groups.Enc(A), c.pub) {
				o2 := c08Run(func() error { return eddsa.Verify(A, c08Clone(c.msg), c08Clone(c.sig)) })
				c08Judge(r, where, "eddsa.Verify", c.class, cd, true, c.demand, o2, wit)
				if o2.accepted && !stdAcc {
					d := wit()
					d["observed"] = "kyber eddsa.Verify: nil; crypto/ed25519.Verify: false"
					r.Violation("C08/eddsa/eddsa.Verify/"+c.class+"/accepted-but-std-rejects", "EdDSA verifier accepts what crypto/ed25519 rejects ("+c.class+")", d)
				}
			}
		}
	}
}

// ---------------------------------------------------------------------------
// predicates IsCanonical / HasSmallOrder

type c08PointPred interface {
	IsCanonical(b []byte) bool
	HasSmallOrder() bool
}
type c08ScalarPred interface {
	IsCanonical(b []byte) bool
}

func c08PredJob(r *mon.R, idx int) {
	rng := gen.New(r.Seed, "C08pred", idx)
	const where = "ed25519"
	suite := edwards25519.NewBlakeSHA256Ed25519()
	if _, ok := suite.Point().(c08PointPred); !ok {
		r.Inconclusive("edwards25519 point does not expose IsCanonical/HasSmallOrder")
		return
	}
	if _, ok := suite.Scalar().(c08ScalarPred); !ok {
		r.Inconclusive("edwards25519 scalar does not expose IsCanonical")
		return
	}
	r.Op("edwards25519.point.IsCanonical", "edwards25519.point.HasSmallOrder", "edwards25519.scalar.IsCanonical")
	k := c08Kit()
	p, L := ref.C08P, ref.C08L
	two255 := new(big.Int).Lsh(big.NewInt(1), 255)
	var encs []c08Enc
	addY := func(name string, y *big.Int, sign byte) {
		if y.Sign() < 0 || y.Cmp(two255) >= 0 {
			return
		}
		b := ref.C08BigToLE(y, 32)
		b[31] |= sign << 7
		encs = append(encs, c08Enc{name, b})
	}
	if idx == 0 {
		for d := int64(0); d <= 40; d++ {
			for s := byte(0); s < 2; s++ {
				addY(fmt.Sprintf("y=%d", d), big.NewInt(d), s)
				addY(fmt.Sprintf("y=p-%d", d), new(big.Int).Sub(p, big.NewInt(d)), s)
				addY(fmt.Sprintf("y=p+%d", d), new(big.Int).Add(p, big.NewInt(d)), s)
			}
		}
		encs = append(encs, k.small...)
		encs = append(encs, k.ncY...)
		// byte patterns around the comparison loop of IsCanonical (bytes 1..30 all 0xff or not, byte 0 around 0xed)
		for _, b0 := range []byte{0x00, 0xec, 0xed, 0xee, 0xff} {
			for _, hole := range []int{-1, 1, 15, 30, 31} {
				b := bytes.Repeat([]byte{0xff}, 32)
				b[0] = b0
				b[31] = 0x7f
				if hole >= 0 {
					b[hole] ^= 0x10
				}
				encs = append(encs, c08Enc{fmt.Sprintf("pattern b0=%02x hole=%d", b0, hole), b})
				c := c08Clone(b)
				c[31] |= 0x80
				encs = append(encs, c08Enc{fmt.Sprintf("pattern b0=%02x hole=%d sign", b0, hole), c})
			}
		}
		for _, n := range []int{0, 1, 31, 33, 64} {
			encs = append(encs, c08Enc{fmt.Sprintf("len=%d", n), bytes.Repeat([]byte{0x01}, n)})
		}
	} else {
		g := c08NewGrp("ed25519", suite, false)
		for i := 0; i < 24; i++ {
			encs = append(encs, c08Enc{"random-bytes", rng.Bytes(32)})
		}
		for i := 0; i < 8; i++ {
			kb := groups.Enc(g.point().Mul(g.scalarFromBig(rng.Big(L)), nil))
			encs = append(encs, c08Enc{"kB", kb})
			if d := ref.C08EdDecode(kb); d.OnCurve {
				t := 1 + rng.IntN(7)
				encs = append(encs, c08Enc{fmt.Sprintf("kB+%dT8", t), ref.C08EdEncode(ref.C08EdAdd(d.P, k.tors[t]))})
			}
		}
		for i := 0; i < 8; i++ {
			addY("y=p+r", new(big.Int).Add(p, big.NewInt(int64(rng.IntN(19)))), byte(rng.IntN(2)))
			addY("y=p-r", new(big.Int).Sub(p, big.NewInt(int64(1+rng.IntN(5000)))), byte(rng.IntN(2)))
			addY("y=small", big.NewInt(int64(rng.IntN(100000))), byte(rng.IntN(2)))
		}
		for i := 0; i < 4; i++ {
			e := k.small[rng.IntN(len(k.small))]
			encs = append(encs, e)
		}
	}
	for _, e := range encs {
		d := ref.C08EdDecode(e.b)
		want := len(e.b) == 32 && d.CanonicalY
		cls := "noncanonical"
		if want {
			cls = "canonical"
		}
		var got bool
		o := c08Run(func() error { got = suite.Point().(c08PointPred).IsCanonical(c08Clone(e.b)); return nil })
		wit := func() map[string]any {
			return map[string]any{"encoding": mon.Hex(e.b), "name": e.name, "kyber": got, "model": want, "panic": o.pmsg}
		}
		c08Check(r, where, "point.IsCanonical", cls, e.name+"|"+mon.Hex(e.b), !o.panicked && got == want, wit)
		if len(e.b) != 32 {
			continue
		}
		P := suite.Point()
		var derr error
		if pm, pk := mon.Try(func() { derr = P.UnmarshalBinary(c08Clone(e.b)) }); pk {
			r.Violation("C08/ed25519/point.UnmarshalBinary/panic", "decoder panics: "+c08Short(pm), map[string]any{"encoding": mon.Hex(e.b)})
			continue
		}
		if derr != nil {
			c08NoteAdd("pred/undecodable-inputs", 1)
			continue
		}
		if !d.OnCurve {
			c08NoteAdd("pred/kyber-decodes-what-the-model-calls-off-curve", 1)
			continue
		}
		wantS := ref.C08EdSmallOrder(d.P)
		cls = "large-order"
		if wantS {
			cls = fmt.Sprintf("small-order-%d", ref.C08EdOrderOfTorsion(d.P))
			if !d.CanonicalY || d.XZeroSign {
				cls += "-noncanonical-encoding"
			}
		}
		var gotS bool
		o = c08Run(func() error { gotS = P.(c08PointPred).HasSmallOrder(); return nil })
		c08Check(r, where, "point.HasSmallOrder", cls, e.name+"|"+mon.Hex(e.b), !o.panicked && gotS == wantS, func() map[string]any {
			return map[string]any{"encoding": mon.Hex(e.b), "name": e.name, "kyber": gotS, "model": wantS, "panic": o.pmsg}
		})
		c08Sample(r, "pred/"+cls, func() any {
			return map[string]any{"predicate": "HasSmallOrder", "class": cls, "encoding": mon.Hex(e.b), "kyber": gotS, "model": wantS}
		})
	}
	// scalars
	var scs []c08Enc
	two256 := new(big.Int).Lsh(big.NewInt(1), 256)
	addS := func(name string, v *big.Int) {
		if v.Sign() < 0 || v.Cmp(two256) >= 0 {
			return
		}
		scs = append(scs, c08Enc{name, ref.C08BigToLE(v, 32)})
	}
	if idx == 0 {
		for d := int64(-40); d <= 40; d++ {
			addS(fmt.Sprintf("L%+d", d), new(big.Int).Add(L, big.NewInt(d)))
			addS(fmt.Sprintf("2^252%+d", d), new(big.Int).Add(new(big.Int).Lsh(big.NewInt(1), 252), big.NewInt(d)))
			addS(fmt.Sprintf("2^253%+d", d), new(big.Int).Add(new(big.Int).Lsh(big.NewInt(1), 253), big.NewInt(d)))
			addS(fmt.Sprintf("%d", d), big.NewInt(d))
			addS(fmt.Sprintf("2^256%+d", d), new(big.Int).Add(two256, big.NewInt(d)))
		}
		for m := int64(2); m <= 15; m++ {
			for d := int64(-1); d <= 1; d++ {
				addS(fmt.Sprintf("%dL%+d", m, d), new(big.Int).Add(new(big.Int).Mul(L, big.NewInt(m)), big.NewInt(d)))
			}
		}
		// L with a single byte raised/lowered: exercises every position of the byte-wise comparison
		Lb := ref.C08BigToLE(L, 32)
		for i := 0; i < 32; i++ {
			for _, dlt := range []int{-1, 1} {
				v := int(Lb[i]) + dlt
				if v < 0 || v > 255 {
					continue
				}
				b := c08Clone(Lb)
				b[i] = byte(v)
				scs = append(scs, c08Enc{fmt.Sprintf("L byte%d%+d", i, dlt), b})
				// and everything below that byte saturated the other way
				c := c08Clone(b)
				for j := 0; j < i; j++ {
					if dlt < 0 {
						c[j] = 0xff
					} else {
						c[j] = 0
					}
				}
				scs = append(scs, c08Enc{fmt.Sprintf("L byte%d%+d low-saturated", i, dlt), c})
			}
		}
		for _, n := range []int{0, 31, 33} {
			scs = append(scs, c08Enc{fmt.Sprintf("len=%d", n), make([]byte, n)})
		}
	} else {
		for i := 0; i < 24; i++ {
			scs = append(scs, c08Enc{"random-bytes", rng.Bytes(32)})
			addS("random<L", rng.Big(L))
			addS("random<L + mL", new(big.Int).Add(rng.Big(L), new(big.Int).Mul(L, big.NewInt(int64(1+rng.IntN(15))))))
			b := ref.C08BigToLE(L, 32)
			j := rng.IntN(32)
			b[j] = byte(rng.IntN(256))
			scs = append(scs, c08Enc{"L with one random byte", b})
		}
	}
	for _, e := range scs {
		want := len(e.b) == 32 && ref.C08LEToBig(e.b).Cmp(L) < 0
		cls := "noncanonical"
		if want {
			cls = "canonical"
		}
		var got bool
		o := c08Run(func() error { got = suite.Scalar().(c08ScalarPred).IsCanonical(c08Clone(e.b)); return nil })
		c08Check(r, where, "scalar.IsCanonical", cls, e.name+"|"+mon.Hex(e.b), !o.panicked && got == want, func() map[string]any {
			return map[string]any{"encoding": mon.Hex(e.b), "name": e.name, "kyber": got, "model": want, "panic": o.pmsg}
		})
	}
}
