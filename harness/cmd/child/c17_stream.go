package main

import (
	"bytes"
	"crypto/cipher"
	"fmt"
	"math/big"
	"strings"

	"go.dedis.ch/kyber/v4"

	"verif/internal/gen"
	"verif/internal/groups"
	"verif/internal/ref"
)

// c17Stream is a cipher.Stream that first hands out a chosen prefix and then
// the output of a seeded XOF; it records every keystream byte it hands out.
type c17Stream struct {
	prefix []byte
	pos    int
	tail   cipher.Stream
	rec    []byte
}

func (s *c17Stream) XORKeyStream(dst, src []byte) {
	if len(dst) < len(src) {
		panic("c17Stream: short destination")
	}
	n := len(src)
	ks := make([]byte, n)
	k := 0
	for k < n && s.pos < len(s.prefix) {
		ks[k] = s.prefix[s.pos]
		s.pos++
		k++
	}
	if k < n {
		s.tail.XORKeyStream(ks[k:], ks[k:]) // zero input => raw keystream
	}
	s.rec = append(s.rec, ks...)
	for i := 0; i < n; i++ {
		dst[i] = src[i] ^ ks[i]
	}
}

// c17Replay hands out exactly the recorded bytes, then a filler (counting the overrun).
type c17Replay struct {
	data    []byte
	pos     int
	overrun int
}

func (s *c17Replay) XORKeyStream(dst, src []byte) {
	for i := range src {
		var k byte = 0x5c
		if s.pos < len(s.data) {
			k = s.data[s.pos]
			s.pos++
		} else {
			s.overrun++
		}
		dst[i] = src[i] ^ k
	}
}

// c17Spec describes one stream deterministically (so it can be re-opened any number of times).
type c17Spec struct {
	class  string // seeded | suite-xof | ff-run | zero-run | modulus-edge | torsion | mixed
	id     string
	prefix []byte
	seed   []byte
	xof    func(seed []byte) kyber.XOF // nil => blake2xb
}

func (sp *c17Spec) open() *c17Stream {
	var tail cipher.Stream
	if sp.xof != nil {
		tail = sp.xof(sp.seed)
	} else {
		tail = gen.StreamOf(sp.seed)
	}
	return &c17Stream{prefix: sp.prefix, tail: tail}
}

func (sp *c17Spec) witness() map[string]any {
	p := sp.prefix
	d := map[string]any{"stream_class": sp.class, "stream_id": sp.id, "prefix_len": len(p), "tail_seed": fmt.Sprintf("%x", sp.seed)}
	if len(p) > 200 {
		d["prefix_head"] = fmt.Sprintf("%x", p[:200])
	} else {
		d["prefix"] = fmt.Sprintf("%x", p)
	}
	if sp.xof != nil {
		d["tail"] = "suite.XOF(tail_seed)"
	} else {
		d["tail"] = "blake2xb.New(tail_seed)"
	}
	return d
}

func c17Fixed(x *big.Int, n int, little bool) []byte {
	m := new(big.Int).Lsh(big.NewInt(1), uint(8*n))
	v := new(big.Int).Mod(x, m)
	b := make([]byte, n)
	v.FillBytes(b)
	if little {
		for i, j := 0, n-1; i < j; i, j = i+1, j-1 {
			b[i], b[j] = b[j], b[i]
		}
	}
	return b
}

// c17Moduli returns the draw width in bytes and the moduli that matter for
// the rejection loops of the group (field prime / group modulus, group order).
func c17Moduli(g *groups.G) (n int, ms []*big.Int) {
	name := g.Name
	switch {
	case strings.HasPrefix(name, "ed"):
		return 32, []*big.Int{ref.EdP, ref.EdL, new(big.Int).Lsh(big.NewInt(1), 255)}
	case name == "p256":
		return 32, []*big.Int{ref.P256.P, ref.P256.N}
	case c17IsResidue(g):
		q := c17PQ(g)
		return g.Grp.PointLen(), []*big.Int{q.P, q.Q}
	case strings.HasPrefix(name, "bn256"):
		return 32, []*big.Int{ref.BN256G1.P, ref.BN256G1.N}
	case strings.HasPrefix(name, "bn254"):
		return 32, []*big.Int{ref.BN254G1.P, ref.BN254G1.N}
	}
	return 32, []*big.Int{g.Q}
}

type c17Block struct {
	name string
	b    []byte
}

// c17Specials returns the draw-sized blocks sitting on the edges of the rejection tests.
func c17Specials(g *groups.G) []c17Block {
	n, ms := c17Moduli(g)
	var out []c17Block
	for mi, m := range ms {
		for d := int64(-2); d <= 2; d++ {
			v := new(big.Int).Add(m, big.NewInt(d))
			for _, le := range []bool{false, true} {
				e := "be"
				if le {
					e = "le"
				}
				out = append(out, c17Block{fmt.Sprintf("m%d%+d/%s", mi, d, e), c17Fixed(v, n, le)})
			}
		}
	}
	for _, v := range []int64{0, 1, 2} {
		out = append(out, c17Block{fmt.Sprintf("%d/be", v), c17Fixed(big.NewInt(v), n, false)})
		out = append(out, c17Block{fmt.Sprintf("%d/le", v), c17Fixed(big.NewInt(v), n, true)})
	}
	out = append(out, c17Block{"ff", bytes.Repeat([]byte{0xff}, n)})
	out = append(out, c17Block{"7f-ff/be", append([]byte{0x7f}, bytes.Repeat([]byte{0xff}, n-1)...)})
	out = append(out, c17Block{"ff-7f/le", append(bytes.Repeat([]byte{0xff}, n-1), 0x7f)})
	out = append(out, c17Block{"80-00/be", append([]byte{0x80}, make([]byte, n-1)...)})
	return out
}

// c17EdTorsion returns the encodings of the 8 small-order points of edwards25519
// (computed with the reference model: T = L*R for random curve points R until a point of order 8 appears).
func c17EdTorsion() [][]byte {
	var t8 *ref.EdPoint
	for y := int64(2); y < 400 && t8 == nil; y++ {
		enc := c17Fixed(big.NewInt(y), 32, true)
		p, ok, _ := ref.EdDecode(enc)
		if !ok {
			continue
		}
		t := ref.EdMul(ref.EdL, p)
		if !ref.EdIsIdentity(ref.EdMul(big.NewInt(4), t)) {
			t8 = t
		}
	}
	if t8 == nil {
		panic("harness: no point of order 8 found")
	}
	var out [][]byte
	acc := ref.EdIdentity()
	for i := 0; i < 8; i++ {
		out = append(out, ref.EdEncode(acc))
		acc = ref.EdAdd(acc, t8)
	}
	return out
}

var c17RunLens = []int{1, 31, 32, 33, 63, 64, 65, 96, 100, 200, 1000}

type c17XOFer interface {
	XOF(seed []byte) kyber.XOF
}

// c17Specs builds the stream list of one (group, round).
func c17Specs(g *groups.G, rng *gen.Rng, round int, torsion [][]byte) []*c17Spec {
	var out []*c17Spec
	add := func(class, id string, prefix []byte) {
		out = append(out, &c17Spec{class: class, id: fmt.Sprintf("r%d/%s", round, id), prefix: prefix, seed: rng.Bytes(32)})
	}
	for i := 0; i < 12; i++ {
		add("seeded", fmt.Sprintf("seeded%d", i), nil)
	}
	if x, ok := g.Grp.(c17XOFer); ok {
		// the way share/vss/rabin deriveH and sign/anon derive a base: Pick(suite.XOF(public bytes))
		for i := 0; i < 4; i++ {
			var seed []byte
			if i%2 == 0 {
				for k := 0; k <= rng.IntN(4); k++ {
					seed = append(seed, groups.Enc(g.Point().Mul(g.ScalarFromBig(rng.Big(g.Q)), nil))...)
				}
			} else {
				seed = rng.Bytes(rng.IntN(65))
			}
			out = append(out, &c17Spec{class: "suite-xof", id: fmt.Sprintf("r%d/suitexof%d", round, i), seed: seed, xof: x.XOF})
		}
	}
	for _, l := range c17RunLens {
		add("ff-run", fmt.Sprintf("ff%d", l), bytes.Repeat([]byte{0xff}, l))
		add("zero-run", fmt.Sprintf("zero%d", l), make([]byte, l))
	}
	sp := c17Specials(g)
	for _, b := range sp {
		add("modulus-edge", b.name, b.b)
	}
	for i := 0; i < 6; i++ {
		b := gen.Pick(rng, sp)
		add("modulus-edge", b.name+"x3", bytes.Repeat(b.b, 3))
	}
	if strings.HasPrefix(g.Name, "ed") {
		for i, t := range torsion {
			add("torsion", fmt.Sprintf("small-order%d", i), t)
			flip := append([]byte(nil), t...)
			flip[31] ^= 0x80
			add("torsion", fmt.Sprintf("small-order%d-signflip", i), flip)
		}
		// subgroup point + torsion component
		for i := 0; i < 4; i++ {
			p := ref.EdMul(rng.Big(ref.EdL), ref.EdBase())
			tp, _, _ := ref.EdDecode(torsion[1+rng.IntN(7)])
			add("torsion", fmt.Sprintf("mixed-order%d", i), ref.EdEncode(ref.EdAdd(p, tp)))
		}
	}
	for i := 0; i < 8; i++ {
		var p []byte
		for k := 0; k <= rng.IntN(4); k++ {
			switch rng.IntN(4) {
			case 0:
				p = append(p, bytes.Repeat([]byte{0xff}, 1+rng.IntN(40))...)
			case 1:
				p = append(p, make([]byte, 1+rng.IntN(40))...)
			default:
				p = append(p, gen.Pick(rng, sp).b...)
			}
		}
		add("mixed", fmt.Sprintf("mixed%d", i), p)
	}
	return out
}
