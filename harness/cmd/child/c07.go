package main

import (
	"bytes"
	"fmt"
	"math/big"

	"go.dedis.ch/kyber/v4"
	"go.dedis.ch/kyber/v4/share"

	"verif/internal/gen"
	"verif/internal/groups"
	"verif/internal/mon"
	"verif/internal/ref"
)

func init() { register("C07", c07) }

// c07Primary are the groups of the property's quantifier that get the full
// budget; c07Secondary (one more instance of every remaining family) get a
// reduced one.
var c07Primary = []string{"ed25519", "p256", "bn256.G1", "gnark.G1"}
var c07Secondary = []string{"edvartime", "qr512", "bn254.G1", "kilic.G1", "circl.G2"}
var c07Slow = map[string]bool{"edvartime": true, "circl.G2": true}

// c07ctx is one dealer: a sharing polynomial known to the harness in math/big
// (ground truth) together with the kyber objects built from it.
type c07ctx struct {
	r        *mon.R
	g        *groups.G
	n, t     int
	idx      int
	rng      *gen.Rng
	ref      *ref.C07Poly
	pp       *share.PriPoly
	pub      *share.PubPoly
	base     kyber.Point // explicit base the oracle multiplies with (never nil)
	baseArg  kyber.Point // what Commit received (nil = standard base)
	baseKind string
	coefKind string
	shareEnc [][]byte // encoding of the reference value of share i (i < n+2)
	pubEnc   [][]byte // encoding of reference public share i
	commEnc  [][]byte // encoding of reference commitment j (j < t)
	light    bool     // secondary group: fewer presentations
	baseHex  string   // cached witness fields
	coefHex  []string
	batDone  map[string]bool // derived-object batteries already run in this job
}

var c07CoefKinds = []string{"NewPriPoly(secret)", "secret=0", "edge-coefficients", "NewPriPoly(nil)", "zero-leading-coefficient", "all-zero", "edge-secret"}
var c07BaseKinds = []string{"nil", "k*B", "Base()", "Pick"}

func c07(r *mon.R) {
	r.SetRule("dealer polynomial known to the harness in math/big (coefficients chosen by the harness or read back from NewPriPoly); per (group,t,n,variant): Eval/Shares/Commit/PubPoly.Eval vs power-sum reference; Check verdict vs reference membership on honest, value+1, value+random, negated, wrong-index, other-polynomial shares; every subset of the n shares for n<=6 (thorough 7), sampled subsets above up to n=12 (thorough 24), each presented compact-sorted/shuffled/in an n-slot slice with nil holes/scattered with nil holes/with duplicated entries, all orders for small subsets; RecoverSecret/RecoverCommit/RecoverPriPoly/RecoverPubPoly must give the dealer's secret/commitment/coefficients/commitments when >= t distinct shares are present and an error otherwise; Add/Mul of polynomials vs big.Int convolution, evaluation and commitment. distinct = (group,t,n,variant,subset,presentation,operation); non-trivial = sharing polynomial not identically zero (recovery, evaluation), mutated share differs from the honest one (Check), both operands non-zero (arithmetic)")
	r.Assume("math/big arithmetic mod q (power sums, Newton divided differences, Lagrange at 0) is the reference; the three reference routes are cross-checked against each other in every job")
	r.Assume("scalars are observed through MarshalBinary in the declared byte order, points through Equal (both directions) and MarshalBinary jointly; Point.Mul with an explicit base and scalar SetBytes (C01/C02) build the expected values")
	r.Assume("the base of a PubPoly returned by RecoverPubPoly is not judged (the API has no base parameter; share/poly.go documents the base of sums as meaningless), only its commitments and evaluations")
	all := groups.All()
	byName := map[string]*groups.G{}
	for _, g := range all {
		byName[g.Name] = g
	}
	type grp struct {
		g     *groups.G
		light bool
	}
	var gs []grp
	sel := map[string]bool{}
	for _, g := range groups.Select(all, *flagGroups) {
		sel[g.Name] = true
	}
	for _, n := range c07Primary {
		if g := byName[n]; g != nil && sel[n] {
			gs = append(gs, grp{g, false})
		}
	}
	for _, n := range c07Secondary {
		if g := byName[n]; g != nil && sel[n] {
			gs = append(gs, grp{g, true})
		}
	}
	if *flagGroups != "" {
		// explicit selection of a group outside both lists: run it light
		for _, g := range groups.Select(all, *flagGroups) {
			found := false
			for _, x := range gs {
				if x.g == g {
					found = true
				}
			}
			if !found && g.Kind != "GT" && g.CanBase && g.CanMulNil && !g.VarTime {
				gs = append(gs, grp{g, true})
			}
		}
	}
	type job struct {
		g     *groups.G
		light bool
		kind  string
		n, t  int
		idx   int
	}
	var jobs []job
	nExh := r.N(6, 7)
	nMax := r.N(12, 24)
	for _, x := range gs {
		if !x.g.CanBase || !x.g.CanMulNil {
			r.Inconclusive("group " + x.g.Name + " lacks Base/Mul(s,nil); skipped")
			continue
		}
		// budgets: (exhaustive up to ex, sampled up to mx, variants, arithmetic pairs)
		ex, mx := nExh, nMax
		vExh, vSmpLow, vSmpHigh, nAr := r.N(3, 8), r.N(1, 5), r.N(1, 2), r.N(12, 200)
		if x.light {
			ex, mx = r.N(4, 5), r.N(8, 12)
			vExh, vSmpLow, vSmpHigh, nAr = r.N(1, 3), 1, 1, r.N(4, 40)
			if c07Slow[x.g.Name] { // big.Int field arithmetic / G2: an order of magnitude slower per operation
				ex, mx = r.N(4, 5), r.N(6, 9)
				vExh = r.N(1, 2)
			}
		}
		for n := 1; n <= mx; n++ {
			for t := 1; t <= n; t++ {
				kind, v := "exh", vExh
				if n > ex {
					kind, v = "smp", vSmpLow
					if n > 12 {
						v = vSmpHigh
					}
				}
				for i := 0; i < v; i++ {
					jobs = append(jobs, job{x.g, x.light, kind, n, t, i})
				}
			}
		}
		// a few large thresholds in every tier (products of t index differences exceed 64 bits from t = 21, or t = 17 on high indices)
		if !x.light {
			for _, nt := range [][2]int{{24, 17}, {24, 21}, {24, 24}, {30, 23}, {40, 33}} {
				if nt[0] > mx {
					for i := 0; i < 2; i++ {
						jobs = append(jobs, job{x.g, x.light, "smp", nt[0], nt[1], i})
					}
				}
			}
		}
		for i := 0; i < nAr; i++ {
			jobs = append(jobs, job{x.g, x.light, "arith", 0, 0, i})
		}
	}
	{
		var full, light []string
		for _, x := range gs {
			if x.light {
				light = append(light, x.g.Name)
			} else {
				full = append(full, x.g.Name)
			}
		}
		r.Note("groups/full-budget", full)
		r.Note("groups/reduced-budget", light)
		r.Note("n/exhaustive-subsets-up-to", nExh)
		r.Note("n/max", nMax)
	}
	// big jobs first so that the tail of the parallel run is short
	order := make([]int, len(jobs))
	for i := range order {
		order[i] = i
	}
	cost := func(j job) int {
		if j.kind == "arith" {
			return 50
		}
		c := j.t * j.t * 30
		if j.kind == "exh" {
			c = (1 << uint(j.n)) * (j.t*j.t + 4)
		}
		return c
	}
	// stable insertion into descending cost order (deterministic)
	for i := 1; i < len(order); i++ {
		for k := i; k > 0 && cost(jobs[order[k]]) > cost(jobs[order[k-1]]); k-- {
			order[k], order[k-1] = order[k-1], order[k]
		}
	}
	mon.Parallel(len(jobs), func(w, oi int) {
		j := jobs[order[oi]]
		r.Journal(w, "C07 %s %s n=%d t=%d variant=%d", j.g.Name, j.kind, j.n, j.t, j.idx)
		key := "C07/" + j.g.Name + "/" + j.kind
		r.Guard(key, map[string]any{"group": j.g.Name, "kind": j.kind, "n": j.n, "t": j.t, "variant": j.idx}, func() {
			switch j.kind {
			case "arith":
				c07Arith(r, j.g, j.light, j.idx)
			default:
				rng := gen.New(r.Seed, fmt.Sprintf("C07/%s/%s/n%d/t%d", j.kind, j.g.Name, j.n, j.t), j.idx)
				c := c07NewDealer(r, j.g, rng, j.n, j.t, j.idx, (j.n+j.t+j.idx)%len(c07CoefKinds), (j.t+2*j.idx+j.n/2)%len(c07BaseKinds))
				c.light = j.light
				r.Guard("C07/"+j.g.Name+"/dealer", c.detail(nil), func() { c07Dealer(c) })
				if j.kind == "exh" {
					c07Exhaustive(c)
				} else {
					c07Sampled(c)
				}
			}
		})
		r.NoteAdd("jobs/"+j.kind, 1)
	})
	c07SelfCheck(r)
}

// c07SelfCheck fails loudly when a whole judgement class was never observed.
func c07SelfCheck(r *mon.R) {
	for _, k := range []string{"recover/accepted", "recover/refused", "check/accepted", "check/rejected", "subsets/exhaustive", "subsets/sampled", "arith/pairs"} {
		if c07Counter(k).Load() == 0 {
			r.Inconclusive("C07: no observation of class " + k + " (monitor observed nothing there)")
		}
		r.Note(k, c07Counter(k).Load())
	}
}

func c07Big(xs []*big.Int) []string {
	out := make([]string, len(xs))
	for i, x := range xs {
		out[i] = x.Text(16)
	}
	return out
}

func c07SamePt(a, b kyber.Point) (bool, string) {
	eq1, eq2 := a.Equal(b), b.Equal(a)
	ea, eb := groups.Enc(a), groups.Enc(b)
	be := bytes.Equal(ea, eb)
	if eq1 && eq2 && be {
		return true, ""
	}
	return false, fmt.Sprintf("Equal=%v/%v bytesEqual=%v got=%x want=%x", eq1, eq2, be, ea, eb)
}

func c07DecS(g *groups.G, b []byte) kyber.Scalar {
	s := g.Scalar()
	if err := s.UnmarshalBinary(b); err != nil {
		panic(fmt.Sprintf("harness: scalar decode failed: %v (%x)", err, b))
	}
	return s
}

func c07DecP(g *groups.G, b []byte) kyber.Point {
	p := g.Grp.Point()
	if err := p.UnmarshalBinary(b); err != nil {
		panic(fmt.Sprintf("harness: point decode failed: %v (%x)", err, b))
	}
	return p
}

// c07NewDealer builds the polynomial of the requested coefficient class and
// commits to it under the requested base class.
func c07NewDealer(r *mon.R, g *groups.G, rng *gen.Rng, n, t, idx, coefKind, baseKind int) *c07ctx {
	c := &c07ctx{r: r, g: g, n: n, t: t, idx: idx, rng: rng, coefKind: c07CoefKinds[coefKind], baseKind: c07BaseKinds[baseKind]}
	edge := gen.Edge(g.Q)
	viol := func(op, what, msg string, d map[string]any) {
		d["group"], d["n"], d["t"], d["variant"], d["coef_class"] = g.Name, n, t, idx, c.coefKind
		r.Violation("C07/"+g.Name+"/"+op+"/"+what, msg, d)
	}
	var coeffs []*big.Int
	fromLib := func(secret kyber.Scalar, wantSecret *big.Int) {
		c.pp = share.NewPriPoly(g.Grp, uint32(t), secret, rng.Stream())
		r.Op("NewPriPoly", "PriPoly.Coefficients", "PriPoly.Threshold", "PriPoly.Secret")
		cs := c.pp.Coefficients()
		r.Eval("dealer/NewPriPoly-shape", fmt.Sprintf("%s|%d|%d|%d", g.Name, n, t, idx), true)
		if len(cs) != t || int(c.pp.Threshold()) != t {
			viol("NewPriPoly", "wrong-threshold", "NewPriPoly(t) does not have t coefficients", map[string]any{"len": len(cs), "Threshold": c.pp.Threshold()})
		}
		for _, s := range cs {
			coeffs = append(coeffs, groups.ScalarToBig(s))
		}
		if wantSecret != nil && (len(coeffs) == 0 || coeffs[0].Cmp(wantSecret) != 0 || groups.ScalarToBig(c.pp.Secret()).Cmp(wantSecret) != 0) {
			viol("NewPriPoly", "secret-not-kept", "NewPriPoly(secret) does not share the given secret", map[string]any{"want": wantSecret.Text(16), "coeffs": c07Big(coeffs)})
		}
	}
	fromCoeffs := func() {
		ss := make([]kyber.Scalar, len(coeffs))
		for i, x := range coeffs {
			ss[i] = g.ScalarFromBig(x)
		}
		c.pp = share.CoefficientsToPriPoly(g.Grp, ss)
		r.Op("CoefficientsToPriPoly")
	}
	switch coefKind {
	case 0:
		s := rng.Big(g.Q)
		fromLib(g.ScalarFromBig(s), s)
	case 1:
		fromLib(g.Scalar().Zero(), new(big.Int))
	case 2:
		for i := 0; i < t; i++ {
			coeffs = append(coeffs, rng.EdgeOrRandom(edge, g.Q, 200))
		}
		fromCoeffs()
	case 3:
		fromLib(nil, nil)
	case 4:
		for i := 0; i < t; i++ {
			coeffs = append(coeffs, rng.Big(g.Q))
		}
		z := 1 + rng.IntN(2)
		for i := 0; i < z && t-1-i >= 0; i++ {
			coeffs[t-1-i] = new(big.Int)
		}
		fromCoeffs()
	case 5:
		for i := 0; i < t; i++ {
			coeffs = append(coeffs, new(big.Int))
		}
		fromCoeffs()
	case 6:
		s := new(big.Int).Set(edge[rng.IntN(len(edge))])
		if rng.IntN(3) == 0 {
			s.Sub(g.Q, big.NewInt(1))
		}
		fromLib(g.ScalarFromBig(s), s)
	}
	c.ref = ref.C07NewPoly(g.Q, coeffs)
	// base
	switch baseKind {
	case 0:
		c.baseArg = nil
		c.base = g.Point().Base()
	case 1:
		k := rng.Big(g.Q)
		if k.Sign() == 0 {
			k.SetInt64(2)
		}
		c.base = g.Point().Mul(g.ScalarFromBig(k), g.Point().Base())
		c.baseArg = c07DecP(g, groups.Enc(c.base))
	case 2:
		c.base = g.Point().Base()
		c.baseArg = g.Point().Base()
	case 3:
		if g.CanPick {
			c.base = g.Point().Pick(rng.Stream())
			if c.base.Equal(g.Point().Null()) {
				c.base = g.Point().Base()
			}
		} else {
			c.baseKind = "k*B"
			c.base = g.Point().Mul(g.ScalarFromBig(new(big.Int).Add(rng.Big(g.Q), big.NewInt(1))), g.Point().Base())
			if c.base.Equal(g.Point().Null()) {
				c.base = g.Point().Base()
			}
		}
		c.baseArg = c07DecP(g, groups.Enc(c.base))
	}
	c.pub = c.pp.Commit(c.baseArg)
	r.Op("PriPoly.Commit")
	// reference artefacts
	for i := 0; i < n+2; i++ {
		v := c.ref.EvalIndex(uint32(i))
		c.shareEnc = append(c.shareEnc, groups.Enc(g.ScalarFromBig(v)))
		c.pubEnc = append(c.pubEnc, groups.Enc(g.Point().Mul(g.ScalarFromBig(v), c.base)))
	}
	for j := 0; j < len(c.ref.C); j++ {
		c.commEnc = append(c.commEnc, groups.Enc(g.Point().Mul(g.ScalarFromBig(c.ref.C[j]), c.base)))
	}
	return c
}

func (c *c07ctx) detail(extra map[string]any) map[string]any {
	if c.baseHex == "" {
		c.baseHex = mon.Hex(groups.Enc(c.base))
		c.coefHex = c07Big(c.ref.C)
	}
	d := map[string]any{"group": c.g.Name, "n": c.n, "t": c.t, "variant": c.idx, "seed": c.r.Seed, "coef_class": c.coefKind, "base_class": c.baseKind,
		"coeffs_hex": c.coefHex, "base_enc": c.baseHex}
	for k, v := range extra {
		d[k] = v
	}
	return d
}

func (c *c07ctx) viol(op, what, msg string, extra map[string]any) {
	c.r.Violation("C07/"+c.g.Name+"/"+op+"/"+what, msg, c.detail(extra))
}

func (c *c07ctx) desc(s string) string {
	return fmt.Sprintf("%s|n%d|t%d|v%d|%s", c.g.Name, c.n, c.t, c.idx, s)
}

// priShare / pubShare return fresh, unshared copies of reference share i.
func (c *c07ctx) priShare(i int) *share.PriShare {
	return &share.PriShare{I: uint32(i), V: c07DecS(c.g, c.shareEnc[i])}
}
func (c *c07ctx) pubShare(i int) *share.PubShare {
	return &share.PubShare{I: uint32(i), V: c07DecP(c.g, c.pubEnc[i])}
}
