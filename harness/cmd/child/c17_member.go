package main

import (
	"bytes"
	"fmt"
	"math/big"
	"strings"
	"sync"

	"go.dedis.ch/kyber/v4"
	"go.dedis.ch/kyber/v4/group/edwards25519vartime"

	"verif/internal/groups"
	"verif/internal/mon"
	"verif/internal/ref"
)

// c17Ctx holds what the membership oracle needs.
type c17Ctx struct {
	r       *mon.R
	all     []*groups.G
	twistB  map[string]ref.F2
	sib     map[string][]*groups.G // "G1"/"G2" -> BLS12-381 back-ends
	torsion [][]byte

	mu   sync.Mutex
	seen map[string]map[string]string // bucket -> encoding -> descriptor
	ran  map[string]int64             // part -> judgements made (coverage check)
	sel  map[string]bool              // selected group names
}

func c17IsBLS(g *groups.G) bool {
	return g.Suite != nil && (strings.HasPrefix(g.Name, "kilic") || strings.HasPrefix(g.Name, "circl") || strings.HasPrefix(g.Name, "gnark"))
}

func c17IsEd(g *groups.G) bool { return strings.HasPrefix(g.Name, "ed") }

// c17Groups is the registry plus the other edwards25519vartime variants.
func c17Groups() []*groups.G {
	all := groups.All()
	extra := func(name string, grp kyber.Group) {
		G := &groups.G{Name: name, Grp: grp, PanicsSeen: map[string]string{},
			CanBase: true, CanMulNil: true, CanPick: true, CanEmbed: true, CanData: true}
		G.Q = new(big.Int).Set(grp.Scalar().GroupOrder().ToBigInt())
		all = append(all, G)
	}
	extra("edvartime-full", edwards25519vartime.NewBlakeSHA256Ed25519(true))
	extra("edvartime-ext", new(edwards25519vartime.ExtendedCurve).InitCurve(edwards25519vartime.ParamEd25519(), false))
	// a residue group whose EmbedLen exceeds 255 (16-bit length field really used): quadratic residues of the 3072-bit MODP prime
	all = append(all, groups.ResidueBig())
	return all
}

func c17NewCtx(r *mon.R, all []*groups.G) *c17Ctx {
	c := &c17Ctx{r: r, all: all, twistB: map[string]ref.F2{}, sib: map[string][]*groups.G{}, seen: map[string]map[string]string{}}
	for _, g := range all {
		if g.Name == "bn256.G2" || g.Name == "bn254.G2" {
			enc := groups.Enc(g.Gen())
			P := ref.BN256G1.P
			if g.Name == "bn254.G2" {
				P = ref.BN254G1.P
			}
			x := ref.F2{A: new(big.Int).SetBytes(enc[32:64]), B: new(big.Int).SetBytes(enc[0:32])}
			y := ref.F2{A: new(big.Int).SetBytes(enc[96:128]), B: new(big.Int).SetBytes(enc[64:96])}
			c.twistB[g.Name] = ref.TwistB(P, x, y)
		}
		if c17IsBLS(g) && (g.Kind == "G1" || g.Kind == "G2") {
			c.sib[g.Kind] = append(c.sib[g.Kind], g)
		}
	}
	c.torsion = c17EdTorsion()
	return c
}

// c17BlsG1Decompress decodes the zcash compressed form with the reference curve.
func c17BlsG1Decompress(b []byte) (pt *ref.WPoint, ok bool, why string) {
	if len(b) != 48 {
		return nil, false, "length"
	}
	if b[0]&0x80 == 0 {
		return nil, false, "compression flag clear"
	}
	if b[0]&0x40 != 0 {
		if b[0]&0x3f != 0 {
			return nil, false, "infinity with non-zero body"
		}
		for _, v := range b[1:] {
			if v != 0 {
				return nil, false, "infinity with non-zero body"
			}
		}
		return &ref.WPoint{Inf: true}, true, ""
	}
	c := append([]byte(nil), b...)
	sign := c[0]&0x20 != 0
	c[0] &= 0x1f
	x := new(big.Int).SetBytes(c)
	if x.Cmp(ref.BLS12381G1.P) >= 0 {
		return nil, false, "x >= p"
	}
	p, ok := ref.BLS12381G1.LiftX(x, false)
	if !ok {
		return nil, false, "x has no point on the curve"
	}
	negY := new(big.Int).Sub(ref.BLS12381G1.P, p.Y)
	if (p.Y.Cmp(negY) > 0) != sign {
		p.Y = negY
	}
	return p, true, ""
}

func c17BlsG1Compress(x, y *big.Int) []byte {
	b := make([]byte, 48)
	x.FillBytes(b)
	b[0] |= 0x80
	negY := new(big.Int).Sub(ref.BLS12381G1.P, y)
	if y.Cmp(negY) > 0 {
		b[0] |= 0x20
	}
	return b
}

// c17BlsG2Compress builds the zcash compressed form x.c1 || x.c0 with the sign of y (lexicographic on (c1,c0)).
func c17BlsG2Compress(x0, x1, y0, y1 *big.Int) []byte {
	b := make([]byte, 96)
	x1.FillBytes(b[:48])
	x0.FillBytes(b[48:])
	b[0] |= 0x80
	P := ref.BLS12381G1.P
	half := new(big.Int).Rsh(new(big.Int).Sub(P, big.NewInt(1)), 1)
	largest := false
	if y1.Sign() != 0 {
		largest = y1.Cmp(half) > 0
	} else {
		largest = y0.Cmp(half) > 0
	}
	if largest {
		b[0] |= 0x20
	}
	return b
}

func c17AllZero(b []byte) bool {
	for _, v := range b {
		if v != 0 {
			return false
		}
	}
	return true
}

// model judges the canonical encoding of a point with a model that shares no code with kyber.
// checked=false: no model for this group (GT, BLS G2 beyond cross-decoding).
func (c *c17Ctx) model(g *groups.G, enc []byte) (checked, ok bool, why string) {
	name := g.Name
	switch {
	case c17IsEd(g):
		p, dec, canonical := ref.EdDecode(enc)
		if !dec {
			return true, false, "encoding has no point on the curve"
		}
		if !canonical {
			return true, false, "encoding is not canonical"
		}
		if !ref.EdOnCurve(p) {
			return true, false, "curve equation"
		}
		if name == "edvartime-full" {
			return true, true, ""
		}
		if !ref.EdIsIdentity(ref.EdMul(ref.EdL, p)) {
			return true, false, "L*P != O in the reference model (point has a small-order component)"
		}
		return true, true, ""
	case name == "p256":
		if len(enc) != 65 || enc[0] != 4 {
			return true, false, "format"
		}
		x, y := new(big.Int).SetBytes(enc[1:33]), new(big.Int).SetBytes(enc[33:])
		if x.Sign() == 0 && y.Sign() == 0 {
			return true, true, ""
		}
		if x.Cmp(ref.P256.P) >= 0 {
			return true, false, "x >= p (coordinate not reduced)"
		}
		if y.Cmp(ref.P256.P) >= 0 {
			return true, false, "y >= p (coordinate not reduced)"
		}
		return true, ref.P256.OnCurve(x, y), "curve equation"
	case c17IsResidue(g):
		grp := c17PQ(g)
		v := new(big.Int).SetBytes(enc)
		if v.Sign() <= 0 || v.Cmp(grp.P) >= 0 {
			return true, false, "value outside [1,P)"
		}
		return true, new(big.Int).Exp(v, grp.Q, grp.P).Cmp(big.NewInt(1)) == 0, "v^Q != 1 mod P"
	case name == "bn256.G1" || name == "bn254.G1":
		cv := ref.BN256G1
		if name == "bn254.G1" {
			cv = ref.BN254G1
		}
		if len(enc) != 64 {
			return true, false, "length"
		}
		if c17AllZero(enc) {
			return true, true, ""
		}
		return true, cv.OnCurve(new(big.Int).SetBytes(enc[:32]), new(big.Int).SetBytes(enc[32:64])), "curve equation / coordinate range"
	case name == "bn256.G2" || name == "bn254.G2":
		P := ref.BN256G1.P
		if name == "bn254.G2" {
			P = ref.BN254G1.P
		}
		if len(enc) != 128 {
			return true, false, "length"
		}
		if c17AllZero(enc) {
			return true, true, ""
		}
		x := ref.F2{A: new(big.Int).SetBytes(enc[32:64]), B: new(big.Int).SetBytes(enc[0:32])}
		y := ref.F2{A: new(big.Int).SetBytes(enc[96:128]), B: new(big.Int).SetBytes(enc[64:96])}
		return true, ref.OnTwist(P, c.twistB[name], x, y), "twist equation / coordinate range"
	case c17IsBLS(g) && g.Kind == "G1":
		p, dec, why := c17BlsG1Decompress(enc)
		if !dec {
			return true, false, "encoding: " + why
		}
		if p.Inf {
			return true, true, ""
		}
		if !ref.BLS12381G1.OnCurve(p.X, p.Y) {
			return true, false, "curve equation"
		}
		return true, ref.BLS12381G1.InSubgroup(p), "r*P != O in the reference model"
	}
	return false, true, ""
}

// member is the complete membership judgement of a produced point:
// independent model, q*P = O through the group's own arithmetic, and for
// BLS12-381 acceptance + q*P' = O by the two other back-ends.
func (c *c17Ctx) member(g *groups.G, pt func() kyber.Point, p kyber.Point, enc []byte) (ok bool, why string, how string) {
	checked, mok, mwhy := c.model(g, enc)
	if checked {
		how = "model"
		if !mok {
			return false, "independent model: " + mwhy, how
		}
	}
	qm1 := g.ScalarFromBig(new(big.Int).Sub(g.Q, big.NewInt(1)))
	qp := pt().Add(pt().Mul(qm1, p), p)
	if !qp.Equal(pt().Null()) {
		return false, "q*P != O (group's own arithmetic)", how + "+qP"
	}
	how += "+qP"
	if c17IsBLS(g) && g.Kind != "GT" {
		for _, s := range c.sib[g.Kind] {
			if s == g {
				continue
			}
			sp := s.Point()
			if err := sp.UnmarshalBinary(append([]byte(nil), enc...)); err != nil {
				return false, "back-end " + s.Name + " rejects the encoding: " + err.Error(), how
			}
			sq := s.ScalarFromBig(new(big.Int).Sub(s.Q, big.NewInt(1)))
			if !s.Point().Add(s.Point().Mul(sq, sp), sp).Equal(s.Point().Null()) {
				return false, "q*P != O in back-end " + s.Name, how
			}
			if !bytes.Equal(groups.Enc(sp), enc) {
				return false, "back-end " + s.Name + " re-encodes the point differently", how
			}
		}
		how += "+siblings"
	}
	return true, "", how
}

// use exercises the point the way protocols do; returns a description of the first failure ("" = fine).
// Panics propagate to the caller's guard.
func c17Use(g *groups.G, pt func() kyber.Point, p kyber.Point, enc []byte) string {
	_ = p.String()
	if !p.Equal(p) {
		return "point is not Equal to itself"
	}
	c := p.Clone()
	if !c.Equal(p) || !bytes.Equal(groups.Enc(c), enc) {
		return "Clone differs"
	}
	two := pt().Mul(g.ScalarFromBig(big.NewInt(2)), p)
	dbl := pt().Add(p, p)
	if !two.Equal(dbl) || !bytes.Equal(groups.Enc(two), groups.Enc(dbl)) {
		return "2*P != P+P"
	}
	var B kyber.Point
	if g.CanBase {
		B = pt().Base()
	} else {
		B = g.Gen()
	}
	s := pt().Add(p, B)
	back := pt().Sub(s, B)
	if !back.Equal(p) || !bytes.Equal(groups.Enc(back), enc) {
		return "(P+B)-B != P"
	}
	n := pt().Neg(p)
	if !pt().Add(n, p).Equal(pt().Null()) {
		return "P + (-P) != O"
	}
	d := pt()
	if err := d.UnmarshalBinary(append([]byte(nil), enc...)); err != nil {
		return "the point's own encoding does not decode: " + err.Error()
	}
	if !d.Equal(p) || !p.Equal(d) || !bytes.Equal(groups.Enc(d), enc) {
		return "decode(encode(P)) != P"
	}
	if !bytes.Equal(groups.Enc(p), enc) {
		return "using the point changed its encoding"
	}
	return ""
}

// c17Try runs f and returns the recovered panic value.
func c17Try(f func()) (val any, panicked bool) {
	defer func() {
		if e := recover(); e != nil {
			val, panicked = e, true
		}
	}()
	f()
	return nil, false
}

// judge runs membership + use on a produced point and records one violation per (group, op) root cause.
// Returns the encoding (nil if the point could not even be encoded).
func (c *c17Ctx) judge(g *groups.G, pt func() kyber.Point, op, class, desc string, p kyber.Point, det map[string]any) (encoding []byte, isMember bool) {
	if pt == nil {
		pt = g.Point
	}
	key := strings.TrimSuffix(op, "(nil)") // Embed(nil) is the Embed call site
	r := c.r
	var enc []byte
	if v, bad := c17Try(func() { enc = groups.Enc(p) }); bad {
		r.Eval(op+"/member/"+class, desc, true)
		d := c17Merge(det, map[string]any{"panic": fmt.Sprint(v)})
		r.Violation("C17/"+g.Name+"/"+key+"/encode/panic", "the produced point cannot be encoded (panic)", d)
		return nil, false
	}
	var ok bool
	var why, how string
	pv, bad := c17Try(func() { ok, why, how = c.member(g, pt, p, enc) })
	r.Eval(op+"/member/"+class, desc, true)
	if bad {
		ok, why = false, "membership computation panicked: "+fmt.Sprint(pv)
	}
	r.NoteAdd("membership-oracle."+g.Name+"."+how, 1)
	var useErr string
	uv, ubad := c17Try(func() { useErr = c17Use(g, pt, p, enc) })
	r.Eval(op+"/usable/"+class, desc, true)
	if ubad {
		useErr = "panic: " + fmt.Sprint(uv)
	}
	if !ok {
		d := c17Merge(det, map[string]any{"encoding": mon.Hex(enc), "why": why, "later_use": useErr})
		r.NoteAdd("non-member."+g.Name+"."+op+"."+class, 1)
		r.Violation("C17/"+g.Name+"/"+key+"/non-member", "produced point is not a member of the group ("+why+")", d)
		return enc, false
	}
	if useErr != "" {
		d := c17Merge(det, map[string]any{"encoding": mon.Hex(enc), "use": useErr})
		vkey := "C17/" + g.Name + "/" + key + "/unusable"
		if ubad {
			vkey += "/panic"
		}
		r.Violation(vkey, "produced point passes the membership test but a later operation fails: "+useErr, d)
	}
	return enc, true
}

func c17Merge(a, b map[string]any) map[string]any {
	d := map[string]any{}
	for k, v := range a {
		d[k] = v
	}
	for k, v := range b {
		d[k] = v
	}
	return d
}

// distinct registers enc in bucket; a different descriptor with the same encoding is reported by the caller.
// Returns the earlier descriptor on collision and whether the bucket already held other entries.
func (c *c17Ctx) distinct(bucket string, enc []byte, desc string) (clash string, compared bool) {
	c.mu.Lock()
	defer c.mu.Unlock()
	m := c.seen[bucket]
	if m == nil {
		m = map[string]string{}
		c.seen[bucket] = m
	}
	compared = len(m) > 0
	k := string(enc)
	if prev, ok := m[k]; ok && prev != desc {
		return prev, compared
	}
	m[k] = desc
	return "", compared
}

// c17Layout is the embedding layout of a group read from the canonical encoding:
// the length field and the data bytes, independent of kyber's Data().
func c17Layout(g *groups.G, enc []byte) (lenField int, data func(dl int) []byte, ok bool) {
	switch {
	case c17IsEd(g):
		if len(enc) != 32 {
			return 0, nil, false
		}
		return int(enc[0]), func(dl int) []byte { return enc[1 : 1+dl] }, true
	case g.Name == "p256":
		if len(enc) != 65 {
			return 0, nil, false
		}
		x := enc[1:33]
		return int(x[31]), func(dl int) []byte { return x[31-dl : 31] }, true
	case c17IsResidue(g):
		n := len(enc)
		if n < 4 {
			return 0, nil, false
		}
		return int(enc[n-2])<<8 | int(enc[n-1]), func(dl int) []byte { return enc[n-2-dl : n-2] }, true
	case g.Name == "bn256.G1":
		if len(enc) != 64 || c17AllZero(enc) {
			return 0, nil, false
		}
		return int(enc[0]), func(dl int) []byte { return enc[1 : 1+dl] }, true
	}
	return 0, nil, false
}

// c17IsResidue / c17PQ: the residue (Schnorr) groups - the shipped QR512 and the configurations built through SetParams.
func c17IsResidue(g *groups.G) bool { P, _ := groups.ResiduePQ(g); return P != nil }

type c17pq struct{ P, Q *big.Int }

func c17PQ(g *groups.G) c17pq { P, Q := groups.ResiduePQ(g); return c17pq{P, Q} }
