package main

import (
	"math/big"

	"go.dedis.ch/kyber/v4"
	"go.dedis.ch/kyber/v4/compatible/compatiblemod"
	"go.dedis.ch/kyber/v4/group/edwards25519"
	"go.dedis.ch/kyber/v4/group/edwards25519vartime"
	"go.dedis.ch/kyber/v4/group/mod"
	"go.dedis.ch/kyber/v4/group/p256"

	"verif/internal/c02core"
	"verif/internal/gen"
	"verif/internal/groups"
	"verif/internal/mon"
)

func init() { register("C02", c02) }

const c02Rule = "per scalar implementation: (ops) 100 edge-biased operand pairs per job judged against math/big for Add,Sub,Mul,Neg,Div,Inv,Zero,One,Set,Clone plus Equal/byte-equality on values reached by different routes; (setbytes) lengths 0..96 x {random, all-ff, all-00, one-hot, k*q+-1} in the declared byte order; (setint64) edge and random int64; (pick) range, determinism, and replay of the recorded stream bytes; (limb hooks, Ed25519) scMulAdd/scReduce on arbitrary 256/512-bit inputs, scAdd/scSub/scMul on reduced edge inputs. distinct = (implementation, op, operand descriptor); non-trivial = operands not both zero / non-empty input"

func c02(r *mon.R) {
	r.SetRule(c02Rule)
	r.Assume("math/big is the reference for Z_q")
	var impls []c02core.Impl
	for _, g := range groups.Select(groups.All(), *flagGroups) {
		switch g.Name {
		case "ed25519", "edvartime", "p256", "qr512", "bn256.G1", "bn254.G1", "kilic.G1", "circl.G1", "gnark.G1":
			g := g
			impls = append(impls, c02core.Impl{Name: g.Name, New: func() kyber.Scalar { return g.Grp.Scalar() }, Q: g.Q, Len: g.Grp.ScalarLen()})
		}
	}
	if *flagGroups == "" {
		// residue groups configured through SetParams: cofactor 6, and one group object configured twice (its scalars must
		// follow the parameters in force, not the first ones)
		for _, g := range []*groups.G{groups.ResidueR6(), groups.ResidueReconfigured()} {
			g := g
			impls = append(impls, c02core.Impl{Name: g.Name, New: func() kyber.Scalar { return g.Grp.Scalar() }, Q: g.Q, Len: g.Grp.ScalarLen()})
		}
		// the full edwards25519vartime group (order 8Q, composite modulus) and mod.Int with both byte orders on odd moduli of several word sizes
		fg := edwards25519vartime.NewBlakeSHA256Ed25519(true)
		{
			qf := new(big.Int).Set(fg.Scalar().GroupOrder().ToBigInt())
			impls = append(impls, c02core.Impl{Name: "edvartime-full(composite order 8l)", New: func() kyber.Scalar { return fg.Scalar() }, Q: qf, Len: fg.ScalarLen()})
		}
		// a residue group whose order is below 2^63 (int64 arguments can exceed it)
		{
			rg := new(p256.ResidueGroup)
			rg.SetParams(big.NewInt(2000000579), big.NewInt(1000000289), big.NewInt(2), big.NewInt(4))
			impls = append(impls, c02core.Impl{Name: "residue-31bit", New: func() kyber.Scalar { return rg.Scalar() }, Q: big.NewInt(1000000289), Len: rg.ScalarLen()})
		}
		for _, m := range []struct {
			name string
			q    string
		}{
			{"modint-le-127", "170141183460469231731687303715884105727"},
			{"modint-be-64", "18446744073709551557"},
			{"modint-be-61", "2305843009213693951"},
			{"modint-be-521", "6864797660130609714981900799081393217269435300143305409394463459185543183397656052122559640661454554977296311391480858037121987999716643812574028291115057151"},
		} {
			q, _ := new(big.Int).SetString(m.q, 10)
			M := compatiblemod.FromBigInt(q)
			bo := kyber.BigEndian
			if m.name == "modint-le-127" {
				bo = kyber.LittleEndian
			}
			l := (q.BitLen() + 7) / 8
			impls = append(impls, c02core.Impl{Name: m.name, New: func() kyber.Scalar { return mod.NewIntBytes(nil, M, bo) }, Q: q, Len: l})
		}
	}
	c02core.Run(r, impls, "default")
	if *flagGroups == "" || groups.Select(groups.All(), *flagGroups)[0].Name == "ed25519" {
		c02Limbs(r)
	}
}

var c02L, _ = new(big.Int).SetString("7237005577332262213973186563042994240857116359379907606001950938285454250989", 10)

func le32(x *big.Int) (out [32]byte) {
	b := x.Bytes()
	for i := range b {
		out[i] = b[len(b)-1-i]
	}
	return
}
func fromLE(b []byte) *big.Int {
	c := make([]byte, len(b))
	for i := range b {
		c[len(b)-1-i] = b[i]
	}
	return new(big.Int).SetBytes(c)
}

// c02Limbs drives the Ed25519 limb arithmetic through the verif hooks.
func c02Limbs(r *mon.R) {
	L := c02L
	two256 := new(big.Int).Lsh(big.NewInt(1), 256)
	n := r.N(64, 1500)
	mon.Parallel(n, func(w, i int) {
		r.Journal(w, "C02 limbs %d", i)
		r.Guard("C02/ed25519/limbs", map[string]any{"idx": i}, func() {
			rng := gen.New(r.Seed, "C02limbs", i)
			edgeL := gen.Edge(L)
			edge256 := gen.Edge(two256)
			// limb-boundary patterns: one-hot / all-ones 21-bit limbs
			pat := func() *big.Int {
				v := new(big.Int)
				for l := 0; l < 13; l++ {
					switch rng.IntN(4) {
					case 0:
						v.SetBit(v, l*21, 1)
					case 1:
						for b := 0; b < 21 && l*21+b < 256; b++ {
							v.SetBit(v, l*21+b, 1)
						}
					case 2:
						if l*21+20 < 256 {
							v.SetBit(v, l*21+20, 1)
						}
					}
				}
				return v.Mod(v, two256)
			}
			any256 := func() *big.Int {
				switch rng.IntN(3) {
				case 0:
					return pat()
				case 1:
					return rng.EdgeOrRandom(edge256, two256, 200)
				}
				return rng.Big(two256)
			}
			for it := 0; it < 40; it++ {
				a, b, c := any256(), any256(), any256()
				got := edwards25519.VerifScMulAdd(le32(a), le32(b), le32(c))
				want := new(big.Int).Mul(a, b)
				want.Add(want, c).Mod(want, L)
				r.Eval("limbs/scMulAdd", a.Text(16)+b.Text(16)+c.Text(16), true)
				if fromLE(got[:]).Cmp(want) != 0 {
					r.Violation("C02/ed25519/limbs/scMulAdd", "scMulAdd(a,b,c) != (ab+c) mod l on 256-bit inputs", map[string]any{"a": a.Text(16), "b": b.Text(16), "c": c.Text(16), "got": fromLE(got[:]).Text(16), "want": want.Text(16)})
				}
				// scReduce on 512-bit input
				hi := any256()
				x := new(big.Int).Lsh(hi, 256)
				x.Add(x, a)
				var in [64]byte
				xb := x.Bytes()
				for k := range xb {
					in[k] = xb[len(xb)-1-k]
				}
				red := edwards25519.VerifScReduce(in)
				r.Eval("limbs/scReduce", x.Text(16), true)
				if fromLE(red[:]).Cmp(new(big.Int).Mod(x, L)) != 0 {
					r.Violation("C02/ed25519/limbs/scReduce", "scReduce(x) != x mod l on a 512-bit input", map[string]any{"x": x.Text(16), "got": fromLE(red[:]).Text(16)})
				}
				// reduced operands for scAdd/scSub/scMul (what the Scalar API feeds them)
				ra, rb := rng.EdgeOrRandom(edgeL, L, 200), rng.EdgeOrRandom(edgeL, L, 200)
				s1 := edwards25519.VerifScAdd(le32(ra), le32(rb))
				s2 := edwards25519.VerifScSub(le32(ra), le32(rb))
				s3 := edwards25519.VerifScMul(le32(ra), le32(rb))
				w1 := new(big.Int).Add(ra, rb)
				w1.Mod(w1, L)
				w2 := new(big.Int).Sub(ra, rb)
				w2.Mod(w2, L)
				w3 := new(big.Int).Mul(ra, rb)
				w3.Mod(w3, L)
				r.Eval("limbs/scAdd", ra.Text(16)+rb.Text(16), true)
				r.Eval("limbs/scSub", ra.Text(16)+rb.Text(16), true)
				r.Eval("limbs/scMul", ra.Text(16)+rb.Text(16), true)
				for _, t := range []struct {
					n    string
					g    [32]byte
					want *big.Int
				}{{"scAdd", s1, w1}, {"scSub", s2, w2}, {"scMul", s3, w3}} {
					if fromLE(t.g[:]).Cmp(t.want) != 0 {
						r.Violation("C02/ed25519/limbs/"+t.n, t.n+" differs from the integer result mod l on reduced inputs", map[string]any{"a": ra.Text(16), "b": rb.Text(16), "got": fromLE(t.g[:]).Text(16), "want": t.want.Text(16)})
					}
				}
			}
		})
	})
	r.Op("scMulAdd", "scReduce", "scAdd", "scSub", "scMul")
	r.SampleClass("limbs", map[string]any{"kind": "limb-hooks", "inputs": "one-hot/all-ones 21-bit limb patterns, edge values of 2^256, uniform"})
}
