package main

import (
	"bytes"
	"fmt"
	"math/big"
	"sort"
	"strings"

	"go.dedis.ch/kyber/v4"

	"verif/internal/gen"
	"verif/internal/groups"
	"verif/internal/mon"
	"verif/internal/ref"
)

func init() { register("C17", c17) }

type c17Job struct {
	kind  string // pick | embed | data | hash | xbackend | rfc | edref | anon
	g     *groups.G
	ht    *c17HT
	round int
}

func (j c17Job) String() string {
	n := ""
	if j.g != nil {
		n = j.g.Name
	}
	if j.ht != nil {
		n = j.ht.name
	}
	return fmt.Sprintf("%s %s round %d", j.kind, n, j.round)
}

func c17(r *mon.R) {
	r.SetRule("Pick/Embed/Data/Hash of every group that supports them (20 registry instances + edwards25519vartime full-group and extended-coordinates variants). " +
		"Streams: seeded XOFs, suite.XOF(public bytes) (the deriveH / linkage-base idiom), and adversarial prefixes followed by a seeded XOF: runs of 0x00 / 0xff of 1..1000 bytes, draw-sized blocks on both sides of the field prime and of the group order in both byte orders (once and three times), the 8 small-order Ed25519 encodings and subgroup+torsion points, random concatenations. " +
		"Every produced point is judged by an independent model (math/big Edwards incl. L*P=O, P-256 / BN G1 curve equations and coordinate range, BN twist over F_p^2, BLS12-381 G1 incl. r*P=O, QR group v^Q=1; BLS12-381 points also decoded and q*P=O-tested by the two other back-ends), by q*P=O in the group's own arithmetic, and is then used (Clone, 2P=P+P, (P+B)-B, P+(-P), encode->decode->Equal). " +
		"Determinism: the same stream re-opened on a dirty receiver gives the same encoding and draws the same bytes; replaying exactly the recorded drawn bytes gives the same point without reading further; seeded streams give pairwise distinct points. " +
		"Embed: every data length 0..EmbedLen+8 x contents {random, 0x00, 0xff, text} per round, streams rotating through all classes; Data() == first min(len,EmbedLen) bytes, also after encode->decode and Clone; crafted points (reference-model lifts) whose length field is out of range => Data() must fail. " +
		"Hash: messages of length 0..300 incl. related messages (m, m||00, 00||m, last-bit flip, truncation) and DSTs of length 1..255 (0 and 256..300 as separate classes): membership, determinism on dirty receivers, distinct messages => distinct points under the same DST, RFC 9380 vectors (edwards25519_XMD:SHA-512_ELL2_RO_, BLS12381G1/G2_XMD:SHA-256_SSWU_RO_ on all three back-ends), the three BLS12-381 back-ends agree on arbitrary (msg,DST), Ed25519 Hash == math/big model of RFC 9380 on arbitrary (msg,DST). Linkage tags returned by anon.Verify are members and a function of (key, scope). " +
		"distinct = (group/target, operation, stream id or data/message descriptor, round); every judgement is on an input generated for the case, so all are counted non-trivial; the evidence separately counts cases whose stream forced at least one retry")
	r.Assume("math/big models of the curves (internal/ref) and the math/big model of RFC 9380 edwards25519_XMD:SHA-512_ELL2_RO_ (validated against the RFC vectors at start) are the reference")
	r.Assume("RFC 9380 appendix J.5.1 / J.9.1 / J.10.1 vectors are embedded as data (cross-checked: on the curve and in the prime-order subgroup by the reference model where one exists)")
	r.Assume("for BLS12-381 G2, GT groups and the BN G2 subgroup there is no independent arithmetic model: membership is q*P=O in the group's own arithmetic (+ twist equation for BN G2, + decoding by the sibling back-ends for BLS12-381 G2)")

	all := c17Groups()
	gs := groups.Select(all, *flagGroups)
	ctx := c17NewCtx(r, all)
	ctx.sel = map[string]bool{}
	for _, g := range gs {
		ctx.sel[g.Name] = true
	}
	if len(gs) == 0 {
		r.Inconclusive("no group selected: nothing observed")
		return
	}
	for _, g := range gs {
		for op, msg := range g.PanicsSeen {
			if op == "Pick" || op == "Embed" || op == "Data" || op == "Hash" {
				r.Violation("C17/"+g.Name+"/"+op+"/probe/panic", "operation panics on the benign capability probe (not a documented 'unsupported'): "+msg, map[string]any{"group": g.Name, "op": op, "panic": msg})
			}
		}
	}
	edRefOK := c17ValidateEdRef(r)

	var jobs []c17Job
	pickRounds, embedRounds, dataRounds := r.N(2, 24), r.N(2, 24), r.N(1, 12)
	for _, g := range gs {
		slow := g.Kind == "GT" || g.Name == "residue-3072"
		if g.CanPick {
			n := pickRounds
			if slow {
				n = r.N(1, 8)
			}
			for k := 0; k < n; k++ {
				jobs = append(jobs, c17Job{kind: "pick", g: g, round: k})
			}
		}
		if g.CanEmbed && g.CanData {
			n := embedRounds
			if slow {
				n = r.N(1, 8)
			}
			for k := 0; k < n; k++ {
				jobs = append(jobs, c17Job{kind: "embed", g: g, round: k})
			}
			for k := 0; k < dataRounds; k++ {
				jobs = append(jobs, c17Job{kind: "data", g: g, round: k})
			}
		}
	}
	hts := c17HashTargets(gs)
	hashRounds := r.N(2, 24)
	for _, ht := range hts {
		for k := 0; k < hashRounds; k++ {
			jobs = append(jobs, c17Job{kind: "hash", ht: ht, round: k})
		}
	}
	for k := 0; k < r.N(2, 24); k++ {
		jobs = append(jobs, c17Job{kind: "xbackend", round: k})
		if edRefOK {
			jobs = append(jobs, c17Job{kind: "edref", round: k})
		}
	}
	jobs = append(jobs, c17Job{kind: "rfc"})
	for k := 0; k < r.N(1, 12); k++ {
		jobs = append(jobs, c17Job{kind: "anon", round: k})
	}
	// longest jobs first is not needed; keep the order deterministic
	mon.Parallel(len(jobs), func(w, i int) {
		j := jobs[i]
		r.Journal(w, "C17 job %s", j.String())
		key := "C17/job/" + j.kind
		if j.g != nil {
			key = "C17/" + j.g.Name + "/" + j.kind + "-job"
		} else if j.ht != nil {
			key = "C17/" + j.ht.name + "/" + j.kind + "-job"
		}
		r.Guard(key, map[string]any{"job": j.String()}, func() {
			switch j.kind {
			case "pick":
				ctx.pickJob(w, j.g, j.round)
			case "embed":
				ctx.embedJob(w, j.g, j.round)
			case "data":
				ctx.dataJob(w, j.g, j.round)
			case "hash":
				ctx.hashJob(w, j.ht, j.round)
			case "xbackend":
				ctx.xbackendJob(w, hts, j.round)
			case "edref":
				ctx.edrefJob(w, hts, j.round)
			case "rfc":
				ctx.rfcJob(w, hts)
			case "anon":
				ctx.anonJob(w, j.round)
			}
		})
	})
	r.Op("Point.Pick", "Point.Embed", "Point.EmbedLen", "Point.Data", "Point.Hash", "bn256.HashG1", "G1Elt.Hash2", "G2Elt.Hash2", "anon.Sign", "anon.Verify", "Suite.XOF")
	ctx.coverage(gs, hts, edRefOK)
}

// coverage makes the monitor fail loudly when a part that should have run observed nothing.
func (c *c17Ctx) coverage(gs []*groups.G, hts []*c17HT, edRefOK bool) {
	c.mu.Lock()
	counts := map[string]int{}
	for k, v := range c.seen {
		counts[k] = len(v)
	}
	ran := map[string]int64{}
	for k, v := range c.ran {
		ran[k] = v
	}
	c.mu.Unlock()
	var names []string
	for _, g := range gs {
		if g.CanPick && ran["pick|"+g.Name] == 0 {
			names = append(names, "Pick on "+g.Name)
		}
		if g.CanEmbed && g.CanData && ran["embed|"+g.Name] == 0 {
			names = append(names, "Embed on "+g.Name)
		}
		if g.CanEmbed && g.CanData && ran["data|"+g.Name] == 0 {
			names = append(names, "Data error cases on "+g.Name)
		}
	}
	for _, ht := range hts {
		if ran["hash|"+ht.name] == 0 {
			names = append(names, "Hash on "+ht.name)
		}
	}
	full := *flagGroups == ""
	if full {
		if !edRefOK {
			names = append(names, "Ed25519 RFC 9380 reference differential (reference model failed its own vector check)")
		}
		for _, k := range []string{"rfc", "xbackend", "anon"} {
			if ran[k] == 0 {
				names = append(names, k)
			}
		}
	}
	sort.Strings(names)
	for _, n := range names {
		c.r.Inconclusive("C17: no judgement was made for: " + n)
	}
	c.r.Note("groups", len(gs))
	c.r.Note("hash_targets", len(hts))
}

func (c *c17Ctx) count(k string, n int64) {
	c.mu.Lock()
	if c.ran == nil {
		c.ran = map[string]int64{}
	}
	c.ran[k] += n
	c.mu.Unlock()
}

// receiver returns a receiver in a chosen prior state.
func c17Receiver(g *groups.G, kind int, prev kyber.Point) (kyber.Point, string) {
	switch kind % 4 {
	case 1:
		if g.CanBase {
			// a multiple of the base: non-normalised internal coordinates where the implementation has them
			return g.Point().Mul(g.ScalarFromBig(big.NewInt(int64(3+kind))), g.Point().Base()), "holds-k*Base"
		}
	case 2:
		if prev != nil {
			return prev.Clone(), "holds-previous-result"
		}
	case 3:
		return g.Point().Null(), "holds-Null"
	}
	return g.Point(), "fresh"
}

// ---------------------------------------------------------------- Pick

func (c *c17Ctx) pickJob(w int, g *groups.G, round int) {
	r := c.r
	rng := gen.New(r.Seed, "C17pick/"+g.Name, round)
	specs := c17Specs(g, rng, round, c.torsion)
	var prev kyber.Point
	minDraw := -1
	var draws []int
	for i, sp := range specs {
		desc := g.Name + "|Pick|" + sp.id
		det := c17Merge(sp.witness(), map[string]any{"group": g.Name, "op": "Pick"})
		r.Journal(w, "C17 Pick %s %s prefix=%x tailseed=%x", g.Name, sp.id, c17Head(sp.prefix, 80), sp.seed)
		r.Guard("C17/"+g.Name+"/Pick", det, func() {
			s1 := sp.open()
			p1 := g.Point().Pick(s1)
			det["drawn_bytes"] = len(s1.rec)
			det["drawn"] = fmt.Sprintf("%x", c17Head(s1.rec, 160))
			enc1, member := c.judge(g, nil, "Pick", sp.class, desc, p1, det)
			c.count("pick|"+g.Name, 1)
			draws = append(draws, len(s1.rec))
			if minDraw < 0 || len(s1.rec) < minDraw {
				minDraw = len(s1.rec)
			}
			if enc1 == nil {
				return
			}
			r.SampleClass("Pick/"+sp.class, map[string]any{"op": "Pick", "group": g.Name, "stream": sp.witness(), "drawn_bytes": len(s1.rec), "point": mon.Hex(enc1)})
			// same stream again, receiver in a different prior state
			recv, rk := c17Receiver(g, i, prev)
			s2 := sp.open()
			p2 := recv.Pick(s2)
			enc2 := groups.Enc(p2)
			r.Eval("Pick/deterministic/"+sp.class, desc, true)
			if !bytes.Equal(enc2, enc1) || !bytes.Equal(s1.rec, s2.rec) {
				r.Violation("C17/"+g.Name+"/Pick/nondeterministic", "the same stream gives a different point or draws different bytes (second receiver "+rk+")",
					c17Merge(det, map[string]any{"first": mon.Hex(enc1), "second": mon.Hex(enc2), "receiver": rk, "drawn_second": len(s2.rec)}))
			}
			// exactly the drawn bytes, nothing else, determine the point
			s3 := &c17Replay{data: s1.rec}
			p3 := g.Point().Pick(s3)
			enc3 := groups.Enc(p3)
			r.Eval("Pick/function-of-drawn-bytes/"+sp.class, desc, true)
			if !bytes.Equal(enc3, enc1) || s3.overrun != 0 || s3.pos != len(s1.rec) {
				r.Violation("C17/"+g.Name+"/Pick/not-a-function-of-the-drawn-bytes", "replaying exactly the bytes drawn from the stream does not reproduce the point",
					c17Merge(det, map[string]any{"first": mon.Hex(enc1), "replayed": mon.Hex(enc3), "overrun": s3.overrun, "consumed": s3.pos}))
			}
			if member && (sp.class == "seeded" || sp.class == "suite-xof") {
				// identity of the input = the bytes actually drawn (two specs may legitimately name the same stream, e.g. suite.XOF(empty seed))
				clash, compared := c.distinct("pick|"+g.Name, enc1, fmt.Sprintf("drawn=%x", s1.rec))
				if compared {
					r.Eval("Pick/distinct/"+sp.class, desc, true)
				}
				if clash != "" {
					r.Violation("C17/"+g.Name+"/Pick/collision", "two seeded streams that delivered different bytes give the same point",
						c17Merge(det, map[string]any{"point": mon.Hex(enc1), "other": string(c17Head([]byte(clash), 300))}))
				}
			}
			prev = p1
		})
	}
	retried := 0
	for _, d := range draws {
		if d > minDraw {
			retried++
		}
	}
	r.NoteAdd("cases-with-forced-retry.Pick."+g.Name, int64(retried))
}

func c17Head(b []byte, n int) []byte {
	if len(b) > n {
		return b[:n]
	}
	return b
}

// ---------------------------------------------------------------- Embed

var c17Contents = []string{"random", "zero", "ff", "text"}

func c17Data(kind string, n int, rng *gen.Rng) []byte {
	d := make([]byte, n)
	switch kind {
	case "random":
		copy(d, rng.Bytes(n))
	case "ff":
		for i := range d {
			d[i] = 0xff
		}
	case "text":
		const s = "The quick brown fox jumps over the lazy dog. "
		for i := range d {
			d[i] = s[i%len(s)]
		}
	}
	return d
}

func (c *c17Ctx) embedJob(w int, g *groups.G, round int) {
	r := c.r
	rng := gen.New(r.Seed, "C17embed/"+g.Name, round)
	L := g.Point().EmbedLen()
	specs := c17Specs(g, rng, round, c.torsion)
	perm := rng.Perm(len(specs))
	var prev kyber.Point
	idx := 0
	var draws []int
	minDraw := -1
	one := func(data []byte, cont string, sp *c17Spec) {
		idx++
		dl := len(data)
		op := "Embed"
		lenClass := "len<=EmbedLen"
		switch {
		case data == nil:
			op, lenClass = "Embed(nil)", "nil"
		case dl == 0:
			lenClass = "len=0"
		case dl == L:
			lenClass = "len=EmbedLen"
		case dl > L:
			lenClass = "len>EmbedLen"
		}
		desc := fmt.Sprintf("%s|%s|%s|%d|%s", g.Name, op, cont, dl, sp.id)
		det := c17Merge(sp.witness(), map[string]any{"group": g.Name, "op": op, "data": mon.Hex(data), "data_len": dl, "embed_len": L})
		r.Journal(w, "C17 %s %s data=%x %s prefix=%x tailseed=%x", op, g.Name, data, sp.id, c17Head(sp.prefix, 80), sp.seed)
		kop := strings.TrimSuffix(op, "(nil)") // violation keys name the call site
		r.Guard("C17/"+g.Name+"/"+kop, det, func() {
			var arg []byte
			if data != nil {
				arg = append([]byte{}, data...)
			}
			recv, rk := c17Receiver(g, idx, prev)
			det["receiver"] = rk
			s1 := sp.open()
			p1 := recv.Embed(arg, s1)
			det["drawn_bytes"] = len(s1.rec)
			det["drawn"] = fmt.Sprintf("%x", c17Head(s1.rec, 160))
			enc1, member := c.judge(g, nil, op, sp.class, desc, p1, det)
			c.count("embed|"+g.Name, 1)
			draws = append(draws, len(s1.rec))
			if minDraw < 0 || len(s1.rec) < minDraw {
				minDraw = len(s1.rec)
			}
			if enc1 == nil {
				return
			}
			prev = p1
			r.SampleClass(op+"/"+lenClass+"/"+sp.class, map[string]any{"op": op, "group": g.Name, "data": mon.Hex(data), "stream": sp.witness(), "point": mon.Hex(enc1)})
			if data != nil && !bytes.Equal(arg, data) {
				r.NoteAdd("embed-modified-callers-data."+g.Name, 1)
			}
			if data != nil {
				want := data
				if len(want) > L {
					want = want[:L]
				}
				got, err := p1.Data()
				r.Eval("Embed/Data/"+lenClass+"/"+cont, desc, true)
				lossless := err == nil && bytes.Equal(got, want)
				if !lossless {
					r.Violation("C17/"+g.Name+"/Embed/data-mismatch", "Data() of an embedded point does not return the stored bytes",
						c17Merge(det, map[string]any{"point": mon.Hex(enc1), "want": mon.Hex(want), "got": mon.Hex(got), "err": fmt.Sprint(err)}))
				}
				if member && lossless {
					// after encode -> decode and after Clone
					d := g.Point()
					if err := d.UnmarshalBinary(append([]byte(nil), enc1...)); err == nil {
						got2, err2 := d.Data()
						r.Eval("Embed/Data-after-roundtrip/"+lenClass+"/"+cont, desc, true)
						if err2 != nil || !bytes.Equal(got2, want) {
							r.Violation("C17/"+g.Name+"/Embed/data-after-roundtrip", "Data() after encode->decode does not return the stored bytes",
								c17Merge(det, map[string]any{"point": mon.Hex(enc1), "want": mon.Hex(want), "got": mon.Hex(got2), "err": fmt.Sprint(err2)}))
						}
					}
					got3, err3 := p1.Clone().Data()
					if err3 != nil || !bytes.Equal(got3, want) {
						r.Violation("C17/"+g.Name+"/Embed/data-after-clone", "Data() of a Clone does not return the stored bytes",
							c17Merge(det, map[string]any{"point": mon.Hex(enc1), "want": mon.Hex(want), "got": mon.Hex(got3), "err": fmt.Sprint(err3)}))
					}
					// the encoding itself carries length and data where the layout says
					if lf, at, ok := c17Layout(g, enc1); ok {
						r.Eval("Embed/encoding-holds-data/"+lenClass, desc, true)
						if lf != len(want) || !bytes.Equal(at(len(want)), want) {
							r.Violation("C17/"+g.Name+"/Embed/encoding-does-not-hold-data", "the canonical encoding does not carry the length field and data at the documented position",
								c17Merge(det, map[string]any{"point": mon.Hex(enc1), "length_field": lf, "want": mon.Hex(want)}))
						}
					}
				}
			} else {
				// Data() on a point without embedded data: error or bytes, never a panic
				_, _ = p1.Data()
			}
			// determinism
			s2 := sp.open()
			var arg2 []byte
			if data != nil {
				arg2 = append([]byte{}, data...)
			}
			p2 := g.Point().Embed(arg2, s2)
			enc2 := groups.Enc(p2)
			r.Eval(op+"/deterministic/"+sp.class, desc, true)
			if !bytes.Equal(enc2, enc1) || !bytes.Equal(s1.rec, s2.rec) {
				r.Violation("C17/"+g.Name+"/"+kop+"/nondeterministic", "the same data and stream give a different point or draw different bytes (first receiver "+rk+", second fresh)",
					c17Merge(det, map[string]any{"first": mon.Hex(enc1), "second": mon.Hex(enc2), "drawn_second": len(s2.rec)}))
			}
			s3 := &c17Replay{data: s1.rec}
			p3 := g.Point().Embed(arg2, s3)
			enc3 := groups.Enc(p3)
			r.Eval(op+"/function-of-drawn-bytes/"+sp.class, desc, true)
			if !bytes.Equal(enc3, enc1) || s3.overrun != 0 || s3.pos != len(s1.rec) {
				r.Violation("C17/"+g.Name+"/"+kop+"/not-a-function-of-the-drawn-bytes", "replaying exactly the bytes drawn from the stream does not reproduce the point",
					c17Merge(det, map[string]any{"first": mon.Hex(enc1), "replayed": mon.Hex(enc3), "overrun": s3.overrun, "consumed": s3.pos}))
			}
		})
	}
	for dl := 0; dl <= L+8; dl++ {
		for _, cont := range c17Contents {
			if dl == 0 && cont != "random" {
				continue
			}
			one(c17Data(cont, dl, rng), cont, specs[perm[idx%len(perm)]])
		}
	}
	// full-length 0xff data meets every adversarial stream class (largest embeddable value next to the modulus)
	for _, sp := range specs {
		if sp.class != "seeded" && rng.IntN(3) == 0 {
			one(c17Data("ff", L, rng), "ff", sp)
			one(c17Data("zero", L, rng), "zero", sp)
		}
	}
	// Embed(nil, stream): Pick by another name for most groups, a separate code path for bn256.G1
	for k, sp := range specs {
		if g.Name == "bn256.G1" || k%6 == round%6 {
			one(nil, "nil", sp)
		}
	}
	retried := 0
	for _, d := range draws {
		if d > minDraw {
			retried++
		}
	}
	r.NoteAdd("cases-with-forced-retry.Embed."+g.Name, int64(retried))
}

// ---------------------------------------------------------------- Data on crafted points

// c17Craft builds the encoding of a point of the group whose length field is lv, using only the reference models.
func c17Craft(g *groups.G, lv int, rng *gen.Rng) []byte {
	switch {
	case c17IsEd(g):
		if lv > 255 {
			return nil
		}
		for t := 0; t < 400; t++ {
			b := rng.Bytes(32)
			b[0] = byte(lv)
			if b[31]&0x7f == 0x7f {
				b[31] ^= 0x01
			}
			if _, ok, canon := ref.EdDecode(b); ok && canon {
				// prime-order variants only decode subgroup points: let the decoder choose
				if g.Point().UnmarshalBinary(append([]byte(nil), b...)) == nil {
					return b
				}
			}
		}
	case g.Name == "p256":
		if lv > 255 {
			return nil
		}
		for t := 0; t < 200; t++ {
			x := rng.Bytes(32)
			x[0] &= 0x7f
			x[31] = byte(lv)
			if p, ok := ref.P256.LiftX(new(big.Int).SetBytes(x), rng.IntN(2) == 1); ok {
				return append([]byte{4}, ref.P256.Bytes(p)...)
			}
		}
	case g.Name == "bn256.G1":
		if lv > 0x8e {
			return nil
		}
		for t := 0; t < 200; t++ {
			x := rng.Bytes(32)
			x[0] = byte(lv)
			if p, ok := ref.BN256G1.LiftX(new(big.Int).SetBytes(x), rng.IntN(2) == 1); ok {
				return ref.BN256G1.Bytes(p)
			}
		}
	case c17IsResidue(g):
		if lv > 0xffff {
			return nil
		}
		grp := c17PQ(g)
		n := g.Grp.PointLen()
		for t := 0; t < 200; t++ {
			v := rng.Bytes(n)
			v[0] &= 0x7f
			v[n-2], v[n-1] = byte(lv>>8), byte(lv)
			x := new(big.Int).SetBytes(v)
			if x.Sign() > 0 && x.Cmp(grp.P) < 0 && new(big.Int).Exp(x, grp.Q, grp.P).Cmp(big.NewInt(1)) == 0 {
				return v
			}
		}
	}
	return nil
}

func (c *c17Ctx) dataJob(w int, g *groups.G, round int) {
	r := c.r
	rng := gen.New(r.Seed, "C17data/"+g.Name, round)
	L := g.Point().EmbedLen()
	maxLv := 255
	if c17IsResidue(g) {
		maxLv = 0xffff
	}
	if g.Name == "bn256.G1" {
		maxLv = 0x8e
	}
	lvs := []int{0, 1, L - 1, L, L + 1, L + 2, 2 * L, 0x7f, 0x80, 0x8e, 0xfe, 0xff, 0x100, 0x101, 0x8000, 0xffff, 0xff00 + L}
	for i := 0; i < 10; i++ {
		lvs = append(lvs, L+1+rng.IntN(maxLv-L))
	}
	for _, lv := range lvs {
		if lv < 0 || lv > maxLv {
			continue
		}
		cls := "length-in-range"
		if lv > L {
			cls = "length-out-of-range"
		}
		desc := fmt.Sprintf("%s|Data|%d|r%d", g.Name, lv, round)
		det := map[string]any{"group": g.Name, "op": "Data", "length_field": lv, "embed_len": L}
		r.Journal(w, "C17 Data %s length field %d round %d", g.Name, lv, round)
		r.Guard("C17/"+g.Name+"/Data", det, func() {
			enc := c17Craft(g, lv, rng)
			if enc == nil {
				r.NoteAdd("data-case-not-constructible."+g.Name, 1)
				return
			}
			det["point"] = mon.Hex(enc)
			p := g.Point()
			if err := p.UnmarshalBinary(append([]byte(nil), enc...)); err != nil {
				r.NoteAdd("data-crafted-point-rejected-by-decoder."+g.Name, 1)
				return
			}
			re := groups.Enc(p)
			lf, at, ok := c17Layout(g, re)
			if !ok || lf != lv {
				r.NoteAdd("data-crafted-point-reencoded-differently."+g.Name, 1)
				return
			}
			b, err := p.Data()
			r.Eval("Data/"+cls, desc, true)
			c.count("data|"+g.Name, 1)
			if lv > L {
				if err == nil {
					r.Violation("C17/"+g.Name+"/Data/no-error-on-bad-length", "Data() of a point whose length field exceeds EmbedLen returns bytes instead of an error",
						c17Merge(det, map[string]any{"returned": mon.Hex(b)}))
				}
				r.SampleClass("Data/out-of-range", map[string]any{"op": "Data", "group": g.Name, "point": mon.Hex(enc), "length_field": lv, "err": fmt.Sprint(err)})
			} else if err != nil || !bytes.Equal(b, at(lv)) {
				// not stated by the property for points that did not come from Embed: recorded, not judged
				r.NoteAdd("data-on-foreign-point-differs-from-layout."+g.Name, 1)
			}
		})
	}
}

// c17ValidateEdRef checks the math/big RFC 9380 model against the RFC vectors before it is used as an oracle.
func c17ValidateEdRef(r *mon.R) bool {
	ok := true
	for _, v := range c17VecEd {
		x, _ := new(big.Int).SetString(v.coords[0], 16)
		y, _ := new(big.Int).SetString(v.coords[1], 16)
		want := &ref.EdPoint{X: x, Y: y}
		if !ref.EdOnCurve(want) || !ref.EdIsIdentity(ref.EdMul(ref.EdL, want)) {
			r.Inconclusive("harness: embedded RFC 9380 Ed25519 vector is not a subgroup point")
			return false
		}
		got, gok := ref.C17EdHashToCurve([]byte(c17Msgs[v.msgIdx]), []byte(c17DstEd))
		if !gok || got.X.Cmp(x) != 0 || got.Y.Cmp(y) != 0 {
			ok = false
		}
	}
	if !ok {
		r.Inconclusive("harness: the math/big model of edwards25519_XMD:SHA-512_ELL2_RO_ does not reproduce the RFC 9380 vectors; differential against it skipped")
	}
	r.Note("ed25519_reference_model_reproduces_rfc9380_vectors", ok)
	return ok
}

var c17Msgs = []string{"", "abc", "abcdef0123456789",
	"q128_" + strings.Repeat("q", 128),
	"a512_" + strings.Repeat("a", 512)}
