package main

import (
	"bytes"
	"fmt"
	"strings"
	"sync/atomic"

	"go.dedis.ch/kyber/v4"
	"go.dedis.ch/kyber/v4/group/edwards25519"
	"go.dedis.ch/kyber/v4/group/edwards25519vartime"
	"go.dedis.ch/kyber/v4/group/p256"
	"go.dedis.ch/kyber/v4/xof/blake2xb"
	"go.dedis.ch/kyber/v4/xof/blake2xs"
	"go.dedis.ch/kyber/v4/xof/keccak"

	"verif/internal/gen"
	"verif/internal/groups"
	"verif/internal/mon"
	"verif/internal/ref"
)

func init() { register("C19", c19) }

// c19Ctor is one way of obtaining a factory-made XOF.
type c19Ctor struct {
	name string // call site
	impl string // model
	mk   func(seed []byte) kyber.XOF
}

func c19Ctors() (direct, factories []c19Ctor) {
	direct = []c19Ctor{
		{"blake2xb.New", "blake2xb", blake2xb.New},
		{"blake2xs.New", "blake2xs", blake2xs.New},
		{"keccak.New", "keccak", keccak.New},
	}
	fac := func(n string, f kyber.XOFFactory) {
		factories = append(factories, c19Ctor{"suite:" + n + ".XOF", "blake2xb", f.XOF})
	}
	fac("ed25519", edwards25519.NewBlakeSHA256Ed25519())
	fac("edvartime", edwards25519vartime.NewBlakeSHA256Ed25519(false))
	fac("p256", p256.NewBlakeSHA256P256())
	fac("qr512", p256.NewBlakeSHA256QR512())
	for _, ps := range groups.Suites() {
		if f, ok := ps.S.(kyber.XOFFactory); ok {
			fac(ps.Name, f)
		}
	}
	return
}

// sizes at block / rate / key boundaries of the three primitives
var c19EdgeSizes = []int{0, 0, 1, 2, 31, 32, 33, 63, 64, 65, 127, 128, 129, 135, 136, 137, 191, 192, 193, 255, 256, 257, 271, 272, 273, 299, 300, 511, 512, 599, 600}

func c19Size(rng *gen.Rng, max int) int {
	if rng.IntN(40) == 0 {
		// occasionally far beyond the usual range: implementations may process long inputs in pieces
		return gen.Pick(rng, []int{1023, 1024, 1025, 1500, 2047, 2048, 2049, 3000, 4095, 4096, 4097, 5000})
	}
	if rng.IntN(5) < 2 {
		for {
			v := gen.Pick(rng, c19EdgeSizes)
			if v <= max {
				return v
			}
		}
	}
	if rng.IntN(3) == 0 {
		return rng.IntN(40)
	}
	return rng.IntN(max + 1)
}

// c19Pattern is the documented data pattern of Write operations: byte i = a + i*b.
func c19Pattern(n int, a, b byte) []byte {
	p := make([]byte, n)
	for i := range p {
		p[i] = a + byte(i)*b
	}
	return p
}

// c19Partition splits n into pieces (zero-length pieces included).
func c19Partition(rng *gen.Rng, n int) []int {
	var out []int
	rem := n
	for rem > 0 {
		var c int
		switch rng.IntN(6) {
		case 0:
			c = 0
		case 1:
			c = 1
		case 2:
			c = gen.Pick(rng, []int{31, 32, 33, 63, 64, 65, 127, 128, 129, 135, 136, 137})
		default:
			c = 1 + rng.IntN(rem)
		}
		if c > rem {
			c = rem
		}
		out = append(out, c)
		rem -= c
	}
	if n == 0 || rng.IntN(4) == 0 {
		out = append(out, 0)
	}
	return out
}

func c19SeedClass(impl string, n int) string {
	ks := ref.C19KeySize(impl)
	switch {
	case n == 0:
		return "seed-empty"
	case n <= ks:
		return "seed-le-key"
	case ks == 0:
		return "seed-absorbed"
	}
	return "seed-gt-key"
}

// ---------------------------------------------------------------------------
// the XOF machine: real objects next to single-shot models

type c19Obj struct {
	x        kyber.XOF
	m        *ref.C19Xof
	factory  bool     // made by the factory with seed0 and never rebuilt: Reset is defined
	seed0    []byte   // harness-private copy of the factory seed
	reseeded bool     // a Reseed happened on this object since New (sticky: input class of Reset)
	pending  string   // oldest state-changing op whose effect has not been compared with the model yet (a mismatch is charged to it)
	chain    []string // all ops applied since the last comparison (witness detail; several entries = the charge is a guess)
}

type c19M struct {
	r     *mon.R
	c     c19Ctor
	idx   int
	kind  string
	seeds []string
	hist  []string
	nviol int
	step  int
	evals *atomic.Int64
}

func (mc *c19M) viol(sub, what string, extra map[string]any) {
	mc.nviol++
	d := map[string]any{"ctor": mc.c.name, "impl": mc.c.impl, "program": fmt.Sprintf("%s#%d", mc.kind, mc.idx),
		"rng":               fmt.Sprintf("gen.New(seed,%q,%d)", "C19/"+mc.kind+"/"+mc.c.name, mc.idx),
		"factory_seeds_hex": mc.seeds, "history": append([]string(nil), mc.hist...),
		"write_data": "Write(n,a,b) absorbs bytes d[i]=a+i*b (mod 256)"}
	for k, v := range extra {
		d[k] = v
	}
	mc.r.Violation("C19/"+mc.c.impl+"/"+sub, what, d)
}

func (mc *c19M) eval(class, desc string, nontrivial bool) {
	mc.evals.Add(1)
	mc.r.Eval(mc.c.impl+"/"+class, fmt.Sprintf("%s|%s#%d|%d|%s", mc.c.name, mc.kind, mc.idx, mc.step, desc), nontrivial)
}

// rebuild replaces the real object by one constructed from the model state
// (used only after a violation so that later steps are judged on their own).
func (mc *c19M) rebuild(o *c19Obj) {
	defer func() {
		if e := recover(); e != nil {
			panic(fmt.Sprintf("while rebuilding an XOF from the model after a violation: %v", e))
		}
	}()
	x := mc.c.mk(append([]byte(nil), o.m.Key...))
	if len(o.m.Data) > 0 {
		_, _ = x.Write(append([]byte(nil), o.m.Data...))
	}
	if o.m.Squeezing {
		_, _ = x.Read(make([]byte, o.m.Off))
	}
	o.x = x
	o.factory = false
	o.pending, o.chain = "", nil
}

// c19Describe turns the class key of a state-changing op into prose.
func c19Describe(sub string) string {
	switch sub {
	case "Reset/after-reseed/not-initial-state":
		return "Reset() of a factory-made XOF on which Reseed() was called does not return it to the New(seed) state"
	case "Reset/no-reseed/not-initial-state":
		return "Reset() of a factory-made XOF (never reseeded) does not return it to the New(seed) state"
	case "Write/state-wrong":
		return "after Write the output is not that of the primitive having absorbed exactly the written bytes"
	case "Reseed/state-wrong":
		return "after Reseed the XOF is not a fresh XOF seeded with its next 128 output bytes"
	case "Clone/clone-differs":
		return "a Clone does not continue like its original"
	case "Clone/original-changed":
		return "taking a Clone changed the original"
	case "Write/after-read/state-changed-by-refused-write":
		return "a Write that panicked (after Read, no Reseed) nevertheless changed the output"
	}
	if strings.HasSuffix(sub, "/stream-position-wrong") {
		return "the operation returned the right bytes but did not advance the key stream by exactly the number of bytes it returned"
	}
	if len(sub) > 4 && sub[:4] == "New/" {
		return "a freshly made XOF does not produce the output of the primitive keyed/fed with the seed"
	}
	if len(sub) > 21 && sub[len(sub)-21:] == "/other-object-changed" {
		return "an operation on one XOF changed the state of another live XOF (original/clone not independent)"
	}
	return "state after " + sub + " differs from the model"
}

func c19Diff(a, b []byte) int {
	for i := range a {
		if i >= len(b) || a[i] != b[i] {
			return i
		}
	}
	if len(b) > len(a) {
		return len(a)
	}
	return -1
}

func c19Head(b []byte) string {
	if len(b) > 48 {
		return mon.Hex(b[:48]) + fmt.Sprintf("...(%d bytes)", len(b))
	}
	return mon.Hex(b)
}

// physical read styles
const (
	c19Read = iota
	c19XorInPlace
	c19XorDisjoint
	c19XorDstLonger
	c19XorZero
	c19NStyles
)

var c19StyleName = []string{"Read", "XORKeyStream/in-place", "XORKeyStream/disjoint", "XORKeyStream/dst-longer", "XORKeyStream/zero-src"}

// squeeze performs one physical output operation of n bytes on o.x and returns
// the key-stream bytes it revealed plus contract problems noticed on the way.
func (mc *c19M) squeeze(o *c19Obj, n, style int, rng *gen.Rng) (ks []byte, problems []string) {
	switch style {
	case c19Read:
		buf := rng.Bytes(n) // pre-filled with garbage: Read must overwrite, not XOR
		m, err := o.x.Read(buf)
		if m != n || err != nil {
			problems = append(problems, fmt.Sprintf("bad-return|Read(%d bytes) returned (%d,%v)", n, m, err))
		}
		mc.r.Op("XOF.Read")
		return buf, problems
	case c19XorInPlace, c19XorZero:
		src := rng.Bytes(n)
		if style == c19XorZero {
			src = make([]byte, n)
		}
		buf := append([]byte(nil), src...)
		o.x.XORKeyStream(buf, buf)
		for i := range buf {
			buf[i] ^= src[i]
		}
		mc.r.Op("XOF.XORKeyStream")
		return buf, nil
	default:
		src := rng.Bytes(n)
		keep := append([]byte(nil), src...)
		extra := 0
		if style == c19XorDstLonger {
			extra = 1 + rng.IntN(16)
		}
		dst := rng.Bytes(n + extra)
		tail := append([]byte(nil), dst[n:]...)
		o.x.XORKeyStream(dst, src)
		if !bytes.Equal(src, keep) {
			problems = append(problems, "src-modified|XORKeyStream changed its src operand (dst and src disjoint)")
		}
		if !bytes.Equal(dst[n:], tail) {
			problems = append(problems, fmt.Sprintf("dst-tail-modified|XORKeyStream touched dst beyond len(src)=%d", n))
		}
		ks = make([]byte, n)
		for i := range ks {
			ks[i] = dst[i] ^ keep[i]
		}
		mc.r.Op("XOF.XORKeyStream")
		return ks, problems
	}
}

// judgeOut compares revealed key-stream with the model output. If the object
// still has an unverified state-changing op pending, the mismatch is charged
// to that op (the state was equal to the model before it).
func (mc *c19M) judgeOut(o *c19Obj, slot int, opname string, got, want []byte, problems []string, who string) bool {
	ok := true
	for _, p := range problems {
		i := bytes.IndexByte([]byte(p), '|')
		mc.viol(opname+"/"+p[:i], p[i+1:], map[string]any{"slot": slot, "machine": who})
		ok = false
	}
	if d := c19Diff(got, want); d >= 0 {
		sub, what := opname+"/wrong-output", fmt.Sprintf("%s output differs from the single-shot reference at byte %d of %d", opname, d, len(want))
		if o.pending != "" {
			sub = o.pending
			what = fmt.Sprintf("%s: first output afterwards (%s) differs from the single-shot reference at byte %d", c19Describe(o.pending), opname, d)
		}
		mc.viol(sub, what, map[string]any{"slot": slot, "machine": who, "got": c19Head(got), "want": c19Head(want), "unverified_ops_on_this_object": append([]string(nil), o.chain...),
			"model_key_hex": mon.Hex(o.m.Key), "model_absorbed_len": len(o.m.Data), "model_offset_after": o.m.Off})
		ok = false
	}
	if len(want) >= 8 || !ok {
		// fewer than 8 matching bytes are not a verification (a wrong state passes a 1-byte comparison once in 256 times)
		o.pending, o.chain = "", nil
	}
	if !ok {
		mc.rebuild(o)
	}
	return ok
}

// peek compares the next 32 output bytes of o (through a Clone) with the model.
func (mc *c19M) peek(o *c19Obj, slot int, opkind, chargeTo, who string) {
	c := o.x.Clone()
	mc.r.Op("XOF.Clone")
	buf := make([]byte, 32)
	m, err := c.Read(buf)
	want := o.m.Peek(32)
	mc.eval(opkind+"/state", fmt.Sprintf("%s/s%d/%s", who, slot, chargeTo), true)
	if m != 32 || err != nil || !bytes.Equal(buf, want) {
		mc.viol(chargeTo, c19Describe(chargeTo)+" (next 32 output bytes, observed through a Clone, differ from the single-shot reference)",
			map[string]any{"slot": slot, "machine": who, "got": mon.Hex(buf), "want": mon.Hex(want), "read_ret": fmt.Sprint(m, err), "unverified_ops_on_this_object": append([]string(nil), o.chain...),
				"model_key_hex": mon.Hex(o.m.Key), "model_absorbed_len": len(o.m.Data), "model_offset": o.m.Off})
		mc.rebuild(o)
	}
	if chargeTo == o.pending {
		o.pending, o.chain = "", nil
	}
}

// verify is called after a state-changing op on `targets` (non-blind programs).
func (mc *c19M) verify(objs []*c19Obj, targets []int, opkind string, all bool, who string) {
	isT := map[int]bool{}
	for _, t := range targets {
		isT[t] = true
		if objs[t].pending != "" {
			mc.peek(objs[t], t, opkind, objs[t].pending, who)
		}
	}
	if all {
		for i, o := range objs {
			if !isT[i] {
				mc.peek(o, i, opkind, opkind+"/other-object-changed", who)
			}
		}
	}
}

type c19Op struct {
	kind  string
	slot  int
	dst   int
	n     int
	a, b  byte
	style int
}

func (op c19Op) String() string {
	switch op.kind {
	case "Write":
		return fmt.Sprintf("s%d.Write(n=%d,a=%d,b=%d)", op.slot, op.n, op.a, op.b)
	case "WritePanic":
		return fmt.Sprintf("s%d.Write(n=%d,a=%d,b=%d) after Read: must panic", op.slot, op.n, op.a, op.b)
	case "Out":
		return fmt.Sprintf("s%d.%s(%d)", op.slot, c19StyleName[op.style], op.n)
	case "Clone":
		return fmt.Sprintf("s%d=s%d.Clone()", op.dst, op.slot)
	}
	return fmt.Sprintf("s%d.%s()", op.slot, op.kind)
}

// exec applies one logical op to a machine side. chunk != nil re-chunks writes
// and outputs (twin side). Returns the key-stream revealed by an Out op.
func (mc *c19M) exec(objs *[]*c19Obj, op c19Op, chunk *gen.Rng, styleRng *gen.Rng, blind, all bool, who string) []byte {
	o := (*objs)[op.slot]
	setPending := func(x *c19Obj, p string) {
		if x.pending == "" {
			x.pending = p
		}
		x.chain = append(x.chain, p)
	}
	switch op.kind {
	case "Write":
		data := c19Pattern(op.n, op.a, op.b)
		o.m.Write(data)
		pieces := []int{op.n}
		if chunk != nil {
			pieces = c19Partition(chunk, op.n)
		}
		pos := 0
		for _, l := range pieces {
			p := append([]byte(nil), data[pos:pos+l]...)
			if l == 0 && chunk != nil && chunk.IntN(2) == 0 {
				p = nil
			}
			m, err := o.x.Write(p)
			if m != l || err != nil {
				mc.viol("Write/bad-return", fmt.Sprintf("Write(%d bytes) returned (%d,%v)", l, m, err), map[string]any{"slot": op.slot, "machine": who})
			}
			for i := range p { // the caller may reuse its buffer
				p[i] = 0xEE
			}
			pos += l
		}
		mc.r.Op("XOF.Write")
		setPending(o, "Write/state-wrong")
		if o.reseeded {
			mc.r.NoteAdd("writes_after_reseed", 1)
		}
		if !blind {
			mc.verify(*objs, []int{op.slot}, "Write", all, who)
		}
	case "WritePanic":
		data := c19Pattern(op.n, op.a, op.b)
		msg, panicked := mon.Try(func() { _, _ = o.x.Write(data) })
		mc.r.Op("XOF.Write(after Read)")
		mc.eval("Write-after-Read/panics", who+"/"+op.String(), true)
		if !panicked {
			mc.viol("Write/after-read/no-panic", "Write after Read (without Reseed) did not panic: the XOF interface documents a panic; absorbed data after squeezing is undefined",
				map[string]any{"slot": op.slot, "machine": who, "bytes_read_before": o.m.ReadBytes})
			mc.rebuild(o)
		} else {
			_ = msg
			setPending(o, "Write/after-read/state-changed-by-refused-write")
			if !blind {
				mc.verify(*objs, []int{op.slot}, "Write-after-Read", all, who)
			}
		}
	case "Out":
		want := o.m.Next(op.n)
		pieces, styles := []int{op.n}, []int{op.style}
		if chunk != nil {
			pieces = c19Partition(chunk, op.n)
			styles = styles[:0]
			for range pieces {
				styles = append(styles, chunk.IntN(c19NStyles))
			}
		}
		var got []byte
		var problems []string
		for i, l := range pieces {
			ks, pr := mc.squeeze(o, l, styles[i], styleRng)
			got = append(got, ks...)
			problems = append(problems, pr...)
		}
		opname := c19StyleName[op.style]
		cls := opname
		if chunk != nil {
			opname, cls = "rechunked-output", "rechunked/vs-single-shot"
		}
		mc.eval(cls, who+"/"+op.String(), op.n > 0)
		mc.judgeOut(o, op.slot, opname, got, want, problems, who)
		if !blind {
			// the op must have consumed exactly op.n key-stream bytes: look at what comes next
			setPending(o, opname+"/stream-position-wrong")
			mc.verify(*objs, []int{op.slot}, opname, all, who)
		}
		return got
	case "Reseed":
		o.m.Reseed()
		o.x.Reseed()
		mc.r.Op("XOF.Reseed")
		o.reseeded = true
		setPending(o, "Reseed/state-wrong")
		if !blind {
			mc.verify(*objs, []int{op.slot}, "Reseed", all, who)
		}
	case "Reset":
		cls := "no-reseed"
		if o.reseeded {
			cls = "after-reseed"
		}
		o.m = ref.C19NewXof(mc.c.impl, o.seed0)
		o.x.Reset()
		mc.r.Op("XOF.Reset")
		o.pending = "Reset/" + cls + "/not-initial-state" // Reset defines the whole state: older pending ops are moot
		o.chain = []string{o.pending}
		if !blind {
			mc.verify(*objs, []int{op.slot}, "Reset/"+cls, all, who)
		}
	case "Clone":
		c := &c19Obj{x: o.x.Clone(), m: o.m.Clone(), reseeded: o.reseeded}
		mc.r.Op("XOF.Clone")
		if o.pending != "" {
			c.pending = o.pending
		} else {
			c.pending = "Clone/clone-differs"
		}
		c.chain = append(append([]string(nil), o.chain...), "Clone/clone-differs")
		setPending(o, "Clone/original-changed")
		if op.dst == len(*objs) {
			*objs = append(*objs, c)
		} else {
			(*objs)[op.dst] = c
		}
		if !blind {
			mc.verify(*objs, []int{op.slot, op.dst}, "Clone", all, who)
		}
	default:
		panic("harness: unknown op " + op.kind)
	}
	return nil
}

// c19Program runs one random (or Fiat-Shamir shaped) program.
func c19Program(r *mon.R, c c19Ctor, kind string, idx int, evals *atomic.Int64) {
	label := "C19/" + kind + "/" + c.name
	rng := gen.New(r.Seed, label, idx)
	chunk := gen.New(r.Seed, label+"/twin-chunking", idx)
	styleA := gen.New(r.Seed, label+"/bufs-main", idx)
	styleB := gen.New(r.Seed, label+"/bufs-twin", idx)
	mc := &c19M{r: r, c: c, idx: idx, kind: kind, evals: evals}

	// mode of the program
	blind := rng.IntN(4) == 0    // no Clone-observers: states are judged by real outputs only
	all := rng.IntN(2) == 0      // observe every object after every op (interference)
	twinOn := rng.IntN(3) != 0   // second machine executing the same logical program re-chunked
	scribble := rng.IntN(2) == 0 // overwrite the caller's seed buffer after New
	if kind == "fs" {
		blind, all, twinOn = idx%2 == 0, false, true
	}

	mkSeed := func() []byte {
		var n int
		switch {
		case idx <= 300 && len(mc.seeds) == 0:
			n = idx // every seed length 0..300 is used by the first 301 programs of each constructor
		case rng.IntN(2) == 0:
			n = gen.Pick(rng, []int{0, 1, 16, 31, 32, 33, 63, 64, 65, 95, 96, 97, 127, 128, 129, 135, 136, 137, 192, 200, 255, 256, 299, 300})
		default:
			n = rng.IntN(301)
		}
		return rng.Bytes(n)
	}
	var main, twin []*c19Obj
	newObj := func(seed []byte) *c19Obj {
		arg := append([]byte(nil), seed...)
		if len(seed) == 0 && rng.IntN(2) == 0 {
			arg = nil
		}
		x := c.mk(arg)
		if scribble {
			for i := range arg {
				arg[i] ^= 0xA5
			}
		}
		return &c19Obj{x: x, m: ref.C19NewXof(c.impl, seed), factory: true, seed0: append([]byte(nil), seed...),
			pending: "New/" + c19SeedClass(c.impl, len(seed)) + "/wrong-state", chain: []string{"New"}}
	}
	nfac := 1
	if rng.IntN(3) == 0 {
		nfac = 2
	}
	for i := 0; i < nfac; i++ {
		seed := mkSeed()
		if i == 1 && rng.IntN(2) == 0 {
			seed = append([]byte(nil), main[0].seed0...) // same seed twice: determinism, independence
		}
		mc.seeds = append(mc.seeds, mon.Hex(seed))
		mc.hist = append(mc.hist, fmt.Sprintf("s%d=%s(seed[%d] len=%d)%s", i, c.name, i, len(seed), map[bool]string{true: " then caller overwrites its seed buffer", false: ""}[scribble]))
		main = append(main, newObj(seed))
		if twinOn {
			twin = append(twin, newObj(seed))
		}
	}
	r.Op(c.name)

	steps := 6 + rng.IntN(25) // <= 30
	fsLeft := 0
	for s := 0; s < steps && mc.nviol < 4; s++ {
		mc.step = s
		var op c19Op
		slot := rng.IntN(len(main))
		if rng.IntN(3) == 0 {
			slot = 0
		}
		o := main[slot]
		pick := rng.IntN(100)
		if kind == "fs" {
			// proof/hash.go shape on slot 0: Reseed; Write(message); challenge reads in element-sized pieces
			slot, o = 0, main[0]
			switch {
			case fsLeft == 0:
				pick = 60 // Reseed
				fsLeft = -1
			case fsLeft == -1:
				pick = 0 // Write
				fsLeft = 1 + rng.IntN(4)
			default:
				pick = 30 // Out
				fsLeft--
			}
		}
		switch {
		case pick < 22: // Write
			op = c19Op{kind: "Write", slot: slot, n: c19Size(rng, 600), a: byte(rng.IntN(256)), b: byte(rng.IntN(128)*2 + 1)}
			if kind == "fs" {
				op.n = 32 + rng.IntN(300)
			}
			if o.m.Squeezing {
				if o.m.ReadBytes == 0 {
					// only zero-length reads so far: whether the XOF is still writable is not specified; read something instead
					op = c19Op{kind: "Out", slot: slot, n: 1 + rng.IntN(64), style: rng.IntN(c19NStyles)}
				} else if kind != "fs" && rng.IntN(3) != 0 {
					op = c19Op{kind: "Reseed", slot: slot} // becomes writable again: the next Write on it succeeds
				} else {
					op.kind = "WritePanic"
					op.n = 1 + rng.IntN(64)
				}
			}
		case pick < 60: // output
			op = c19Op{kind: "Out", slot: slot, n: c19Size(rng, 600), style: rng.IntN(c19NStyles)}
			if kind == "fs" {
				op.n = gen.Pick(rng, []int{16, 32, 32, 32, 48, 64, 128})
				op.style = c19XorZero
			}
		case pick < 74:
			op = c19Op{kind: "Reseed", slot: slot}
		case pick < 88:
			dst := len(main) // slots [0,nfac) hold the factory-made objects and are never overwritten
			if dst >= 4 {
				dst = nfac + rng.IntN(4-nfac)
			}
			op = c19Op{kind: "Clone", slot: slot, dst: dst}
		default:
			if !o.factory {
				// Reset is specified for factory-made XOFs only (DESIGN 6b)
				op = c19Op{kind: "Out", slot: slot, n: c19Size(rng, 600), style: rng.IntN(c19NStyles)}
			} else {
				op = c19Op{kind: "Reset", slot: slot}
			}
		}
		if op.kind == "Reset" && twinOn && !twin[slot].factory {
			op = c19Op{kind: "Out", slot: slot, n: c19Size(rng, 600), style: rng.IntN(c19NStyles)}
		}
		mc.hist = append(mc.hist, op.String())
		ga := mc.exec(&main, op, nil, styleA, blind, all, "main")
		if twinOn {
			gb := mc.exec(&twin, op, chunk, styleB, blind, all, "twin")
			if op.kind == "Out" {
				mc.eval("rechunked/vs-main", op.String(), op.n > 0)
				if !bytes.Equal(ga, gb) {
					mc.viol("rechunk/output-depends-on-chunking", "the same logical program with different Read/XORKeyStream/Write chunking produced different output",
						map[string]any{"slot": op.slot, "main": c19Head(ga), "rechunked": c19Head(gb), "first_diff": c19Diff(ga, gb)})
				}
			}
		}
	}
	// final direct outputs of every live object
	mc.step = steps
	for _, side := range []struct {
		objs []*c19Obj
		who  string
		rng  *gen.Rng
	}{{main, "main", styleA}, {twin, "twin", styleB}} {
		for i, o := range side.objs {
			want := o.m.Next(48)
			got, pr := mc.squeeze(o, 48, c19Read, side.rng)
			mc.eval("final-output", fmt.Sprintf("%s/s%d", side.who, i), true)
			mc.judgeOut(o, i, "Read", got, want, pr, side.who)
		}
	}
	if idx < 2 {
		r.SampleClass("xof:"+kind+":"+c.name, map[string]any{"kind": "xof-program/" + kind, "ctor": c.name, "blind": blind, "observe_all": all, "rechunked_twin": twinOn,
			"seed_lens": func() (l []int) {
				for _, s := range mc.seeds {
					l = append(l, len(s)/2)
				}
				return
			}(), "steps": mc.hist})
	}
}

// c19Kat: known answers of New(seed) for one seed length (all three implementations).
func c19Kat(r *mon.R, c c19Ctor, n int, evals *atomic.Int64) {
	rng := gen.New(r.Seed, "C19/kat/"+c.name, n)
	seed := rng.Bytes(n)
	ks := ref.C19KeySize(c.impl)
	var key, tail []byte
	if n > ks {
		key, tail = seed[:ks], seed[ks:]
	} else {
		key = seed
	}
	outLen := 1 + rng.IntN(400)
	want := ref.C19SingleShot(c.impl, key, tail, outLen)
	x := c.mk(append([]byte(nil), seed...))
	got := make([]byte, outLen)
	m, err := x.Read(got)
	evals.Add(1)
	r.Eval(c.impl+"/New/known-answer", fmt.Sprintf("%s|%d", c.name, n), true)
	r.Op(c.name, "XOF.Read")
	if m != outLen || err != nil || !bytes.Equal(got, want) {
		r.Violation("C19/"+c.impl+"/New/"+c19SeedClass(c.impl, n)+"/wrong-output",
			"New(seed).Read differs from the keyed primitive absorbing the seed tail (single shot)",
			map[string]any{"ctor": c.name, "seed_hex": mon.Hex(seed), "seed_len": n, "read_ret": fmt.Sprint(m, err), "got": c19Head(got), "want": c19Head(want), "first_diff": c19Diff(got, want)})
	}
	// the empty seed given as nil and as []byte{} is the same seed
	if n == 0 {
		a, b := make([]byte, 64), make([]byte, 64)
		_, _ = c.mk(nil).Read(a)
		_, _ = c.mk([]byte{}).Read(b)
		evals.Add(1)
		r.Eval(c.impl+"/New/nil-vs-empty", c.name, true)
		if !bytes.Equal(a, b) || !bytes.Equal(a, ref.C19SingleShot(c.impl, nil, nil, 64)) {
			r.Violation("C19/"+c.impl+"/New/seed-empty/nil-vs-empty", "New(nil) and New([]byte{}) differ (or differ from the unkeyed primitive)", map[string]any{"ctor": c.name, "nil": mon.Hex(a), "empty": mon.Hex(b)})
		}
	}
}

func c19(r *mon.R) {
	r.SetRule("(A) XOF: for blake2xb/blake2xs/keccak New and the 9 suite XOF factories, random programs (<=30 steps, sizes 0..600 biased to block/rate/key boundaries and 1 in 40 of 1023..5000, seed lengths 0..300 each used at least once per direct constructor) of Write/Read/XORKeyStream(4 buffer layouts)/Reseed/Clone/Reset over <=4 live objects, plus proof/hash.go-shaped programs (Reseed;Write(msg);element-sized reads). Every output is compared with a single-shot reference (fresh primitive, one Write, one Read); a twin machine runs the same logical program with different Write/Read/XOR chunking and must agree; after every state-changing op the touched objects (and in half of the programs all other objects) are compared with their model through a Clone; 1/4 of the programs use no observers. Write after Read must panic until Reseed. Reset only on factory-made objects. non-trivial = at least one output byte compared. (B) random.Bits for bit lengths 0..1030 x exact, random.Int for moduli of 1..521 bits (2^(b-1), 2^(b-1)+1, 2^b-1, random, M=1,2,3) on recorded random and scripted streams (draw==M, draw==M-1, all-ones, garbage above the top bit): result < M and equal to the first masked draw < M of the recorded stream; non-trivial = at least one candidate was rejected or surplus top bits had to be masked. (C) random.New with 1..4 scripted readers (full, chunked, short, failing, failing later, recovering, misaligned): same consumed bytes re-chunked => same output; one flipped consumed bit of any reader => different output of exactly that call; no panic when a reader delivered its 32 bytes, panic when all delivered nothing; known answer blake2xb(sha256(consumed bytes)). distinct = (call site, program/case index, step)")
	r.Assume("x/crypto blake2b.NewXOF / blake2s.NewXOF and std crypto/sha3 SHAKE256, used single-shot (one Write, one Read), are the reference primitives; kyber's XOFs are wrappers around the same primitives used incrementally")
	r.Assume("Reseed is modelled as: next 128 output bytes become the seed of a fresh XOF of the same implementation (mechanism stated by the property anchors)")
	r.Assume("math/big is the reference for integer comparisons; crypto/sha256 for the reader-mixing known answer")
	r.Assume("Write after a zero-length Read is not generated (whether the XOF is still writable then is unspecified); Reset is judged only on factory-made objects; Bits(0,exact) is not generated")

	direct, factories := c19Ctors()
	type job struct {
		kind string
		c    c19Ctor
		idx  int
	}
	var jobs []job
	nprog := r.N(3000, 36000)
	nfs := r.N(500, 6000)
	nfac := r.N(120, 1500)
	for _, c := range direct {
		for n := 0; n <= 300; n++ {
			jobs = append(jobs, job{"kat", c, n})
		}
		for i := 0; i < nprog; i++ {
			jobs = append(jobs, job{"prog", c, i})
		}
		for i := 0; i < nfs; i++ {
			jobs = append(jobs, job{"fs", c, i})
		}
	}
	for _, c := range factories {
		for _, n := range []int{0, 1, 63, 64, 65, 128, 300} {
			jobs = append(jobs, job{"kat", c, n})
		}
		for i := 0; i < nfac; i++ {
			jobs = append(jobs, job{"prog", c, i * 7}) // idx<=300 fixes the seed length: spread them
		}
		for i := 0; i < nfac/4; i++ {
			jobs = append(jobs, job{"fs", c, i})
		}
	}
	nXofJobs := len(jobs)
	for _, j := range c19RandJobs(r) {
		jobs = append(jobs, job{kind: j.kind, idx: j.idx})
	}
	var evXof, evBits, evInt, evRdr atomic.Int64
	mon.Parallel(len(jobs), func(w, i int) {
		j := jobs[i]
		r.Journal(w, "C19 %s %s %d", j.kind, j.c.name, j.idx)
		switch j.kind {
		case "kat":
			r.Guard("C19/"+j.c.impl+"/New", map[string]any{"ctor": j.c.name, "seed_len": j.idx}, func() { c19Kat(r, j.c, j.idx, &evXof) })
		case "prog", "fs":
			r.Guard("C19/"+j.c.impl+"/program", map[string]any{"ctor": j.c.name, "program": fmt.Sprintf("%s#%d", j.kind, j.idx),
				"rng": fmt.Sprintf("gen.New(seed,%q,%d)", "C19/"+j.kind+"/"+j.c.name, j.idx)}, func() { c19Program(r, j.c, j.kind, j.idx, &evXof) })
		case "bits":
			c19BitsJob(r, j.idx, &evBits)
		case "int":
			c19IntJob(r, j.idx, &evInt)
		case "readers":
			c19ReadersJob(r, j.idx, &evRdr)
		default:
			panic("harness: unknown job kind " + j.kind)
		}
	})
	r.Note("xof_jobs", nXofJobs)
	r.Note("evaluations_xof", evXof.Load())
	r.Note("evaluations_bits", evBits.Load())
	r.Note("evaluations_int", evInt.Load())
	r.Note("evaluations_readers", evRdr.Load())
	for name, v := range map[string]int64{"xof": evXof.Load(), "random.Bits": evBits.Load(), "random.Int": evInt.Load(), "random.New(readers)": evRdr.Load()} {
		if v == 0 {
			r.Inconclusive("part " + name + " of the C19 monitor observed nothing")
		}
	}
}
