package main

// C18 part (i): the Ed25519 implementations in lock step with a big.Int model,
// the edwards25519 internals (hooks) against math/big, and key derivation
// against crypto/ed25519.

import (
	"bytes"
	"crypto/ed25519"
	"crypto/sha512"
	"fmt"
	"math/big"
	"sync"

	"go.dedis.ch/kyber/v4"
	"go.dedis.ch/kyber/v4/group/edwards25519"
	"go.dedis.ch/kyber/v4/group/edwards25519vartime"
	"go.dedis.ch/kyber/v4/sign/eddsa"

	"verif/internal/gen"
	"verif/internal/mon"
	"verif/internal/ref"
)

// c18EdRef adapts the affine big.Int Edwards model to the engine.
type c18EdRef struct{}

func (c18EdRef) Null() any                 { return ref.EdIdentity() }
func (c18EdRef) Base() any                 { return ref.EdBase() }
func (c18EdRef) Add(a, b any) any          { return ref.EdAdd(a.(*ref.EdPoint), b.(*ref.EdPoint)) }
func (c18EdRef) Neg(a any) any             { return ref.EdNeg(a.(*ref.EdPoint)) }
func (c18EdRef) Mul(k *big.Int, a any) any { return ref.EdMul(k, a.(*ref.EdPoint)) }
func (c18EdRef) Enc(a any) []byte          { return ref.EdEncode(a.(*ref.EdPoint)) }
func (c18EdRef) IsNull(a any) bool         { return ref.EdIsIdentity(a.(*ref.EdPoint)) }
func (c18EdRef) Dec(b []byte) (any, bool) {
	p, ok, canon := ref.EdDecode(b)
	if !ok || !canon || !ref.EdOnCurve(p) {
		return nil, false
	}
	return p, true
}

var (
	c18EdTorsOnce sync.Once
	c18EdTors     []*ref.EdPoint // the 8 points of order dividing 8
)

// c18EdTorsion returns the 8-torsion subgroup, computed with the model from the first curve point
// (y = 2,3,...) whose L-multiple has order exactly 8.
func c18EdTorsion() []*ref.EdPoint {
	c18EdTorsOnce.Do(func() {
		for y := int64(2); ; y++ {
			enc := make([]byte, 32)
			enc[0] = byte(y)
			p, ok, _ := ref.EdDecode(enc)
			if !ok {
				continue
			}
			t := ref.EdMul(ref.EdL, p)
			if ref.EdIsIdentity(ref.EdMul(big.NewInt(4), t)) {
				continue
			}
			acc := ref.EdIdentity()
			for i := 0; i < 8; i++ {
				c18EdTors = append(c18EdTors, acc)
				acc = ref.EdAdd(acc, t)
			}
			if !ref.EdIsIdentity(acc) {
				panic("harness: torsion generator does not have order 8")
			}
			return
		}
	})
	return c18EdTors
}

// c18EdRandomPoint returns a uniformly chosen decodable curve point (in general of order 8L or a divisor).
func c18EdRandomPoint(rng *gen.Rng) *ref.EdPoint {
	for {
		b := rng.Bytes(32)
		b[31] &= 0x7f
		if rng.IntN(2) == 0 {
			b[31] |= 0x80
		}
		p, ok, canon := ref.EdDecode(b)
		if ok && canon {
			return p
		}
	}
}

// c18EdExternal produces a valid canonical external encoding and its class.
func c18EdExternal(rng *gen.Rng) ([]byte, string) {
	switch c := rng.IntN(10); {
	case c < 5:
		p := c18EdRandomPoint(rng)
		for i := 0; i < 3; i++ {
			p = ref.EdAdd(p, p)
		}
		return ref.EdEncode(p), "prime-order"
	case c < 8:
		return ref.EdEncode(c18EdRandomPoint(rng)), "with-torsion-component"
	default:
		t := c18EdTorsion()
		return ref.EdEncode(t[rng.IntN(8)]), "small-order"
	}
}

func c18EdMachines() []*c18Mach {
	ct := edwards25519.NewBlakeSHA256Ed25519()
	p := edwards25519vartime.ParamEd25519
	return []*c18Mach{
		{name: "ed25519-ct", grp: []kyber.Group{ct}},
		{name: "ed25519-allowvartime", grp: []kyber.Group{ct}, vt: true},
		{name: "edvartime-proj", grp: []kyber.Group{new(edwards25519vartime.ProjectiveCurve).Init(p(), false)}},
		{name: "edvartime-ext", grp: []kyber.Group{new(edwards25519vartime.ExtendedCurve).InitCurve(p(), false)}},
	}
}

var c18EdEdge = gen.Edge(ref.EdL)

// c18EdProgram runs one lock-step program over the four Ed25519 implementations and the model.
func c18EdProgram(r *mon.R, idx int) {
	rng := gen.New(r.Seed, "C18ed", idx)
	L := &c18Lock{r: r, part: "ed25519", idx: idx, ms: c18EdMachines(), q: ref.EdL, edge: c18EdEdge, nS: 4, nP: 6,
		sorts: []c18Sort{{name: "point", ref: c18EdRef{}, ext: c18EdExternal, canEmbed: true}}}
	L.run(rng, 28+rng.IntN(13))
	if idx == 0 {
		r.SampleClass("ed25519-program", map[string]any{"part": "ed25519", "program": idx, "machines": []string{"ed25519-ct", "ed25519-allowvartime", "edvartime-proj", "edvartime-ext", "big.Int model"}, "last_steps": L.hist})
	}
}

// ---------------------------------------------------------------- hooks

var c18TwoTo255 = new(big.Int).Lsh(big.NewInt(1), 255)

func c18LE32(v *big.Int) (out [32]byte) {
	b := make([]byte, 32)
	v.FillBytes(b)
	for i := range b {
		out[31-i] = b[i]
	}
	return
}

func c18FromLE(b []byte) *big.Int {
	c := make([]byte, len(b))
	for i := range b {
		c[len(b)-1-i] = b[i]
	}
	return new(big.Int).SetBytes(c)
}

// c18FeInput draws an edge-biased 256-bit string; the field element it denotes is (value mod 2^255) mod p.
func c18FeInput(rng *gen.Rng) [32]byte {
	p := ref.EdP
	var v *big.Int
	switch rng.IntN(10) {
	case 0:
		v = big.NewInt(int64(rng.IntN(20)))
	case 1:
		v = new(big.Int).Sub(p, big.NewInt(int64(rng.IntN(20)))) // p-19..p
	case 2:
		v = new(big.Int).Add(p, big.NewInt(int64(rng.IntN(19)))) // non-canonical p..p+18 (< 2^255)
	case 3:
		k := uint(rng.IntN(255))
		v = new(big.Int).Lsh(big.NewInt(1), k)
		v.Add(v, big.NewInt(int64(rng.IntN(3))-1))
	case 4:
		// limb boundaries of the 25.5-bit radix: 26,51,77,102,128,153,179,204,230
		bd := []uint{26, 51, 77, 102, 128, 153, 179, 204, 230, 255}
		k := bd[rng.IntN(len(bd))]
		v = new(big.Int).Lsh(big.NewInt(1), k)
		v.Sub(v, big.NewInt(int64(rng.IntN(3))))
	case 5:
		b := make([]byte, 32)
		pat := []byte{0xff, 0xaa, 0x55, 0x7f, 0x80, 0xfe}[rng.IntN(6)]
		for i := range b {
			b[i] = pat
		}
		v = new(big.Int).SetBytes(b)
	default:
		v = new(big.Int).SetBytes(rng.Bytes(32))
	}
	if v.Sign() < 0 {
		v.SetInt64(0)
	}
	v.Mod(v, new(big.Int).Lsh(big.NewInt(1), 256))
	out := c18LE32(v)
	if rng.IntN(4) == 0 {
		out[31] ^= 0x80 // bit 255 is ignored by feFromBytes
	}
	return out
}

func c18FeVal(b [32]byte) *big.Int {
	v := c18FromLE(b[:])
	v.Mod(v, c18TwoTo255)
	return v.Mod(v, ref.EdP)
}

// c18Hooks checks the field arithmetic, the three scalar multipliers and the sliding-window recoding of
// group/edwards25519 directly against math/big.
func c18Hooks(r *mon.R, idx int) {
	rng := gen.New(r.Seed, "C18hooks", idx)
	p := ref.EdP
	for it := 0; it < 40; it++ {
		a, b := c18FeInput(rng), c18FeInput(rng)
		av, bv := c18FeVal(a), c18FeVal(b)
		desc := fmt.Sprintf("%x|%x", a, b)
		check := func(op string, got [32]byte, want *big.Int) {
			want = new(big.Int).Mod(want, p)
			r.Eval("hook/"+op, desc, av.Sign() != 0 || bv.Sign() != 0)
			r.Op("edwards25519." + op)
			w := c18LE32(want)
			if got != w {
				r.Violation("C18/ed25519/hook/"+op+"/differs-from-math-big", "field operation of group/edwards25519 differs from math/big mod 2^255-19 (or its output is not canonical)",
					map[string]any{"a": mon.Hex(a[:]), "b": mon.Hex(b[:]), "got": mon.Hex(got[:]), "want": mon.Hex(w[:])})
			}
		}
		check("feMul", edwards25519.VerifFeMul(a, b), new(big.Int).Mul(av, bv))
		check("feSquare", edwards25519.VerifFeSquare(a), new(big.Int).Mul(av, av))
		inv := new(big.Int)
		if av.Sign() != 0 {
			inv.ModInverse(av, p)
		}
		check("feInvert", edwards25519.VerifFeInvert(a), inv)
		s, d, n := edwards25519.VerifFeAddSubNeg(a, b)
		check("feAdd", s, new(big.Int).Add(av, bv))
		check("feSub", d, new(big.Int).Sub(av, bv))
		check("feNeg", n, new(big.Int).Neg(av))
		check("feRoundTrip", edwards25519.VerifFeRoundTrip(a), av)
	}
	// scalar multipliers on arbitrary 255-bit scalars (not necessarily reduced) and arbitrary curve points
	for it := 0; it < 6; it++ {
		var k *big.Int
		switch rng.IntN(8) {
		case 0:
			k = new(big.Int).Add(ref.EdL, big.NewInt(int64(rng.IntN(5))-2)) // around l
		case 1:
			k = new(big.Int).Sub(c18TwoTo255, big.NewInt(int64(1+rng.IntN(3)))) // top of the range
		case 2:
			// clamped secret key
			h := sha512.Sum512(rng.Bytes(32))
			h[0] &= 248
			h[31] &= 127
			h[31] |= 64
			k = c18FromLE(h[:32])
		case 3:
			// nibble patterns at the signed radix-16 recoding boundaries
			b := make([]byte, 32)
			pat := []byte{0x88, 0x77, 0x8f, 0xf8, 0x80, 0x08, 0xff, 0x0f}[rng.IntN(8)]
			for i := range b {
				b[i] = pat
			}
			b[0] &= 0x7f
			k = new(big.Int).SetBytes(b)
		case 4:
			k = rng.EdgeOrRandom(c18EdEdge, ref.EdL, 256)
		default:
			k = new(big.Int).SetBytes(rng.Bytes(32))
			k.Mod(k, c18TwoTo255)
		}
		a := c18LE32(k)
		var P *ref.EdPoint
		var enc []byte
		class := "base"
		if rng.IntN(3) != 0 {
			enc, class = c18EdExternal(rng)
			P, _, _ = ref.EdDecode(enc)
		} else {
			P = ref.EdBase()
		}
		want := ref.EdEncode(ref.EdMul(k, P))
		ct, vt, base, ok := edwards25519.VerifScalarMult(a, enc)
		desc := fmt.Sprintf("%x|%x", a, enc)
		det := map[string]any{"scalar_le": mon.Hex(a[:]), "point": mon.Hex(enc), "point_class": class, "want": mon.Hex(want)}
		if !ok {
			r.Violation("C18/ed25519/hook/FromBytes/rejects-valid-"+class, "a canonical encoding of a curve point is rejected", det)
			continue
		}
		cmp := func(name string, got [32]byte) {
			r.Eval("hook/"+name+"/"+class, desc, k.Sign() != 0)
			r.Op("edwards25519." + name)
			if !bytes.Equal(got[:], want) {
				d := map[string]any{"got": mon.Hex(got[:])}
				for k, v := range det {
					d[k] = v
				}
				r.Violation("C18/ed25519/hook/"+name+"/differs-from-model", "scalar multiplication routine differs from the big.Int model of the curve", d)
			}
		}
		r.SampleClass("hook-scalarmult-"+class, map[string]any{"part": "hooks", "scalar_le": mon.Hex(a[:]), "point": mon.Hex(enc), "point_class": class, "model": mon.Hex(want), "geScalarMult": mon.Hex(ct[:]), "geScalarMultVartime": mon.Hex(vt[:])})
		cmp("geScalarMult", ct)
		cmp("geScalarMultVartime", vt)
		if enc == nil {
			cmp("geScalarMultBase", base)
		}
		// sliding-window recoding: sum r[i] 2^i = a, digits odd or zero, |digit| <= 15
		sl := edwards25519.VerifSlide(a)
		sum := new(big.Int)
		okDigits := true
		for i := 255; i >= 0; i-- {
			sum.Lsh(sum, 1)
			sum.Add(sum, big.NewInt(int64(sl[i])))
			if sl[i] != 0 && (sl[i]%2 == 0 || sl[i] > 15 || sl[i] < -15) {
				okDigits = false
			}
		}
		r.Eval("hook/slide", fmt.Sprintf("%x", a), k.Sign() != 0)
		r.Op("edwards25519.slide")
		if sum.Cmp(k) != 0 || !okDigits {
			r.Violation("C18/ed25519/hook/slide/wrong-recoding", "signed sliding-window recoding does not represent the scalar (or has an even / out-of-range digit)",
				map[string]any{"scalar_le": mon.Hex(a[:]), "digits": fmt.Sprint(sl), "sum": sum.Text(16), "want": k.Text(16)})
		}
	}
}

// ---------------------------------------------------------------- key derivation and non-reduced scalars

// c18KeyDeriv compares key derivation with crypto/ed25519 and checks that non-reduced scalars (as produced by
// NewKey, or received through UnmarshalBinary) give the same point on the constant-time and the variable-time path.
func c18KeyDeriv(r *mon.R, idx int) {
	rng := gen.New(r.Seed, "C18key", idx)
	suite := edwards25519.NewBlakeSHA256Ed25519()
	vtPoint := func() kyber.Point {
		p := suite.Point()
		p.(kyber.AllowsVarTime).AllowVarTime(true)
		return p
	}
	for it := 0; it < 8; it++ {
		seed := rng.Bytes(32)
		switch rng.IntN(8) {
		case 0:
			for i := range seed {
				seed[i] = 0
			}
		case 1:
			for i := range seed {
				seed[i] = 0xff
			}
		}
		std := ed25519.NewKeyFromSeed(seed)
		wantPub := []byte(std.Public().(ed25519.PublicKey))
		h := sha512.Sum512(seed)
		clamped := append([]byte(nil), h[:32]...)
		clamped[0] &= 248
		clamped[31] &= 127
		clamped[31] |= 64
		sc, buf, prefix := suite.NewKeyAndSeedWithInput(append([]byte(nil), seed...))
		det := map[string]any{"seed": mon.Hex(seed), "want_public": mon.Hex(wantPub)}
		desc := mon.Hex(seed)
		judge := func(name string, got []byte, want []byte) {
			r.Eval("keyderiv/"+name, desc, true)
			if !bytes.Equal(got, want) {
				d := map[string]any{"got": mon.Hex(got), "want": mon.Hex(want)}
				for k, v := range det {
					d[k] = v
				}
				r.Violation("C18/ed25519/keyderiv/"+name+"/differs-from-crypto-ed25519", "key derivation differs from crypto/ed25519 / RFC 8032", d)
			}
		}
		r.Op("edwards25519.NewKeyAndSeedWithInput", "eddsa.UnmarshalBinary", "eddsa.Sign")
		judge("seed-returned", buf, seed)
		judge("prefix", prefix, h[32:])
		scb := make([]byte, 32)
		copy(scb, clamped)
		// the scalar is the clamped digest; its canonical encoding is the digest reduced mod l
		want := new(big.Int).Mod(c18FromLE(clamped), ref.EdL)
		if got := c18ScalarInt(sc); got.Cmp(want) != 0 {
			judge("secret-scalar", got.Bytes(), want.Bytes())
		} else {
			r.Eval("keyderiv/secret-scalar", desc, true)
		}
		judge("public/Mul(s,nil)", c18Enc(suite.Point().Mul(sc, nil)), wantPub)
		judge("public/Mul(s,Base)-consttime", c18Enc(suite.Point().Mul(sc, suite.Point().Base())), wantPub)
		judge("public/Mul(s,Base)-allowvartime", c18Enc(vtPoint().Mul(sc, suite.Point().Base())), wantPub)
		// eddsa key object from seed||public and its deterministic signature
		var e eddsa.EdDSA
		if err := e.UnmarshalBinary(append(append([]byte(nil), seed...), wantPub...)); err != nil {
			r.Violation("C18/ed25519/keyderiv/eddsa.UnmarshalBinary/error", "eddsa key from seed||public refused: "+err.Error(), det)
			continue
		}
		judge("eddsa-public", c18Enc(e.Public), wantPub)
		msg := rng.Bytes(rng.IntN(100))
		sig, err := e.Sign(msg)
		if err != nil {
			r.Violation("C18/ed25519/keyderiv/eddsa.Sign/error", "eddsa.Sign failed: "+err.Error(), det)
			continue
		}
		det["msg"] = mon.Hex(msg)
		judge("eddsa-signature", sig, ed25519.Sign(std, msg))
		r.SampleClass("keyderiv", map[string]any{"part": "keyderiv", "seed": mon.Hex(seed), "public": mon.Hex(wantPub), "msg": mon.Hex(msg), "signature": mon.Hex(sig)})
	}
	// non-reduced scalars through the public API: both multiplication paths against the model
	for it := 0; it < 4; it++ {
		var k *big.Int
		switch rng.IntN(4) {
		case 0:
			k = new(big.Int).Add(ref.EdL, big.NewInt(int64(rng.IntN(9))))
		case 1:
			k = new(big.Int).Sub(c18TwoTo255, big.NewInt(int64(1+rng.IntN(9))))
		default:
			k = new(big.Int).SetBytes(rng.Bytes(32))
			k.Mod(k, c18TwoTo255)
		}
		a := c18LE32(k)
		enc, class := c18EdExternal(rng)
		P, _, _ := ref.EdDecode(enc)
		s := suite.Scalar()
		if err := s.UnmarshalBinary(a[:]); err != nil {
			r.Violation("C18/ed25519/nonreduced/Scalar.UnmarshalBinary/error", "32-byte scalar refused: "+err.Error(), map[string]any{"scalar_le": mon.Hex(a[:])})
			continue
		}
		pt := suite.Point()
		if err := pt.UnmarshalBinary(enc); err != nil {
			r.Violation("C18/ed25519/nonreduced/Point.UnmarshalBinary/rejects-valid-"+class, "canonical encoding of a curve point refused: "+err.Error(), map[string]any{"point": mon.Hex(enc)})
			continue
		}
		want := ref.EdEncode(ref.EdMul(k, P))
		wantB := ref.EdEncode(ref.EdMul(k, ref.EdBase()))
		desc := fmt.Sprintf("%x|%x", a, enc)
		for _, c := range []struct {
			name string
			got  []byte
			want []byte
		}{
			{"Mul(s,P)-consttime", c18Enc(suite.Point().Mul(s, pt)), want},
			{"Mul(s,P)-allowvartime", c18Enc(vtPoint().Mul(s, pt)), want},
			{"Mul(s,nil)", c18Enc(suite.Point().Mul(s, nil)), wantB},
		} {
			r.Eval("nonreduced/"+c.name+"/"+class, desc, true)
			r.Op("ed25519:" + c.name)
			if !bytes.Equal(c.got, c.want) {
				r.Violation("C18/ed25519/nonreduced/"+c.name+"/differs-from-model", "multiplication by a scalar in [l, 2^255) differs from the big.Int model",
					map[string]any{"scalar_le": mon.Hex(a[:]), "point": mon.Hex(enc), "point_class": class, "got": mon.Hex(c.got), "want": mon.Hex(c.want)})
			}
		}
	}
}

// c18EdDecodeAgreement: the four Ed25519 implementations must treat the same 32 input bytes alike - all accept or all
// refuse, and what they accept re-encodes to the same bytes. Inputs are the classes on which decoders differ in practice:
// non-canonical y (p..p+18, both signs), x = 0 with the sign bit set, small-order points, y in {0, 1, p-1}, random strings.
func c18EdDecodeAgreement(r *mon.R, idx int) {
	rng := gen.New(r.Seed, "C18eddecode", idx)
	type in struct {
		b     []byte
		class string
	}
	var ins []in
	le := func(v *big.Int, sign bool) []byte {
		b := c18LE32(v)
		if sign {
			b[31] |= 0x80
		}
		return b[:]
	}
	for k := int64(0); k <= 18; k++ {
		y := new(big.Int).Add(ref.EdP, big.NewInt(k))
		ins = append(ins, in{le(y, false), "y>=p"}, in{le(y, true), "y>=p,sign"})
	}
	for _, y := range []*big.Int{big.NewInt(0), big.NewInt(1), new(big.Int).Sub(ref.EdP, big.NewInt(1))} {
		ins = append(ins, in{le(y, false), "y-special"}, in{le(y, true), "x=0-with-sign-bit-or-special"})
	}
	for _, t := range c18EdTorsion() {
		e := ref.EdEncode(t)
		ins = append(ins, in{e, "small-order"})
		f := append([]byte(nil), e...)
		f[31] ^= 0x80
		ins = append(ins, in{f, "small-order,sign-flipped"})
	}
	for i := 0; i < 40; i++ {
		ins = append(ins, in{rng.Bytes(32), "random"})
	}
	for i := 0; i < 10; i++ {
		ins = append(ins, in{ref.EdEncode(c18EdRandomPoint(rng)), "canonical"})
	}
	ms := c18EdMachines()
	for _, x := range ins {
		type out struct {
			ok  bool
			enc []byte
			msg string
		}
		outs := make([]out, len(ms))
		for i, m := range ms {
			i, m := i, m
			if p, bad := mon.Try(func() {
				pt := m.point(0)
				if err := pt.UnmarshalBinary(append([]byte(nil), x.b...)); err != nil {
					outs[i].msg = err.Error()
					return
				}
				outs[i].ok = true
				outs[i].enc = c18Enc(pt)
			}); bad {
				outs[i].msg = "panic: " + p
				r.Violation("C18/ed25519/"+m.name+"/decode-untrusted/"+x.class+"/panic", "panic while decoding: "+p, map[string]any{"input": mon.Hex(x.b), "machine": m.name})
			}
		}
		det := func() map[string]any {
			d := map[string]any{"input": mon.Hex(x.b), "class": x.class}
			for i, m := range ms {
				if outs[i].ok {
					d[m.name] = "accepted, re-encodes to " + mon.Hex(outs[i].enc)
				} else {
					d[m.name] = "refused: " + outs[i].msg
				}
			}
			return d
		}
		for i := 1; i < len(ms); i++ {
			r.Eval("ed25519/decode-untrusted/"+x.class, fmt.Sprintf("%s|%x", ms[i].name, x.b), true)
			r.Op(ms[i].name + ":UnmarshalBinary(untrusted)")
			if outs[i].ok != outs[0].ok {
				r.Violation("C18/ed25519/"+ms[i].name+"-vs-"+ms[0].name+"/decode-untrusted/"+x.class+"/accept-refuse-differs", "the implementations disagree on whether these 32 bytes encode a point", det())
			} else if outs[i].ok && !bytes.Equal(outs[i].enc, outs[0].enc) {
				r.Violation("C18/ed25519/"+ms[i].name+"-vs-"+ms[0].name+"/decode-untrusted/"+x.class+"/re-encoding-differs", "the implementations decode the same bytes to different points", det())
			}
		}
	}
}
