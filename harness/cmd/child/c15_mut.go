package main

// C15 — transcripts altered in transit: splices of two honest transcripts at
// message boundaries, one flipped bit in every transcript field, truncations.

import (
	"bytes"
	"fmt"

	"go.dedis.ch/kyber/v4"
	"go.dedis.ch/kyber/v4/proof"
	"go.dedis.ch/kyber/v4/shuffle"

	"verif/internal/gen"
	"verif/internal/mon"
)

// c15Field is one element (point or scalar) of a transcript.
type c15Field struct {
	group string // e.g. "ega1.A"
	off   int
	n     int
	msg   int // index of the prover message it belongs to
}

// c15Layout lists the elements of a transcript. The encoding is fixed-length
// (fixbuf, no length prefixes); the caller checks the total against the real
// proof length.
func c15Layout(scheme string, k, pl, sl int) (fs []c15Field, total int) {
	off := 0
	msg := 0
	add := func(group string, count, size int) {
		for i := 0; i < count; i++ {
			fs = append(fs, c15Field{group, off, size, msg})
			off += size
		}
	}
	simple := func() {
		add("ssa0.X", k, pl)
		add("ssa0.Y", k, pl)
		msg++
		add("ssa2.Theta", 2*k, pl)
		msg++
		add("ssa4.alpha", 2*k-1, sl)
		msg++
	}
	switch scheme {
	case "pair":
		add("ega1.Gamma", 1, pl)
		add("ega1.A", k, pl)
		add("ega1.C", k, pl)
		add("ega1.U", k, pl)
		add("ega1.W", k, pl)
		add("ega1.Lambda1", 1, pl)
		add("ega1.Lambda2", 1, pl)
		msg++
		add("ega3.D", k, pl)
		msg++
		add("ega5.sigma", k, sl)
		add("ega5.tau", 1, sl)
		msg++
		simple()
	case "simple":
		simple()
	case "biffle":
		add("or.commit.V", 8, pl)
		msg++
		add("or.subchallenge", 2, sl)
		add("and0.response", 2, sl)
		add("and1.response", 2, sl)
		msg++
	default:
		panic("harness: unknown scheme " + scheme)
	}
	return fs, off
}

// c15Honest is an honest proof of one scheme together with a verifier factory.
type c15Honest struct {
	scheme string
	k      int
	prf    []byte
	name   string
	mk     func() proof.Verifier
	detail func() map[string]any
}

// honest builds an honest (statement, proof) of the scheme; with a non-nil
// `same` the pair/simple statement is reused (same inputs, same pi and beta,
// fresh prover randomness).
func (j *c15J) honestPair(in *c15Inst, pi []int, beta []kyber.Scalar) *c15Honest {
	Xb, Yb := j.reenc(in, in.X, in.Y, pi, beta)
	prf, err := j.pairProve(in, in.X, in.Y, pi, beta)
	if err != nil {
		panic("harness: honest pair prover failed in a mutation job: " + err.Error())
	}
	st := &c15Stmt{G: in.aG(), H: in.H, X: in.X, Y: in.Y, Xb: Xb, Yb: Yb, name: "PairShuffle"}
	return &c15Honest{scheme: "pair", k: in.k, prf: prf, name: st.name, mk: j.pairVerifier(st.G, st.H, st.X, st.Y, st.Xb, st.Yb), detail: st.detail}
}

func (j *c15J) honestSimple(k int) *c15Honest {
	s := j.s
	G := s.Point().Mul(j.nz(), nil)
	gamma := j.nz()
	Gamma := s.Point().Mul(gamma, G)
	pi := j.rng.Perm(k)
	x := make([]kyber.Scalar, k)
	y := make([]kyber.Scalar, k)
	for i := range x {
		x[i] = j.rs()
	}
	for i := range y {
		y[i] = s.Scalar().Mul(gamma, x[pi[i]])
	}
	prf, err := j.simpleProve(G, gamma, x, y)
	if err != nil {
		panic("harness: honest simple prover failed in a mutation job: " + err.Error())
	}
	det := func() map[string]any {
		return map[string]any{"k": k, "G": c15HexP(G), "Gamma": c15HexP(Gamma), "gamma": c15HexS(gamma), "x": c15HexSs(x), "pi": c15Perm(pi)}
	}
	return &c15Honest{scheme: "simple", k: k, prf: prf, name: "SimpleShuffle", mk: j.simpleVerifier(k, G, Gamma), detail: det}
}

func (j *c15J) honestBiffle() *c15Honest {
	in := j.inst(2, "random", false)
	Xa, Ya, prover := shuffle.Biffle(j.s, in.aG(), in.H, c15Arr(in.X), c15Arr(in.Y), j.st)
	prf, err := proof.HashProve(j.s, "Biffle", prover)
	if err != nil {
		panic("harness: honest biffle prover failed in a mutation job: " + err.Error())
	}
	st := &c15Stmt{G: in.aG(), H: in.H, X: in.X, Y: in.Y, Xb: Xa[:], Yb: Ya[:], name: "Biffle"}
	return &c15Honest{scheme: "biffle", k: 2, prf: prf, name: "Biffle", mk: j.biffleVerifier(st.G, st.H, st.X, st.Y, st.Xb, st.Yb), detail: st.detail}
}

func c15PlanMut(r *mon.R, e *c15Env, plan *gen.Rng, add func(c15Job)) {
	for _, k := range []int{2, 3, 6} {
		add(c15Job{env: e, kind: "mutate", label: "mutate", arg: "pair", k: k})
	}
	for _, k := range []int{2, 5} {
		add(c15Job{env: e, kind: "mutate", label: "mutate", arg: "simple", k: k})
	}
	add(c15Job{env: e, kind: "mutate", label: "mutate", arg: "biffle", k: 2})
	add(c15Job{env: e, kind: "mutate", label: "mutate", arg: "biffle", k: 2})
	for _, k := range []int{2, 3, 4, 6, 9} {
		add(c15Job{env: e, kind: "splice", label: "splice", arg: "same-statement", k: k})
		add(c15Job{env: e, kind: "splice", label: "splice", arg: "other-output", k: k})
	}
	if r.Thorough() {
		for i := 0; i < 30; i++ {
			add(c15Job{env: e, kind: "mutate", label: "mutate", arg: "pair", k: 2 + plan.IntN(11)})
			add(c15Job{env: e, kind: "mutate", label: "mutate", arg: "simple", k: 2 + plan.IntN(11)})
		}
		for i := 0; i < 2; i++ {
			add(c15Job{env: e, kind: "mutate", label: "mutate", arg: "pair", k: 13 + plan.IntN(28)})
		}
		for i := 0; i < 20; i++ {
			add(c15Job{env: e, kind: "mutate", label: "mutate", arg: "biffle", k: 2})
		}
		for i := 0; i < 50; i++ {
			k := 2 + plan.IntN(11)
			if i%10 == 0 {
				k = 13 + plan.IntN(28)
			}
			add(c15Job{env: e, kind: "splice", label: "splice", arg: []string{"same-statement", "other-output"}[i%2], k: k})
		}
	}
}

// jobMutate flips one random bit in every element of an honest transcript and
// truncates it at every message boundary; every altered transcript must be rejected.
func (j *c15J) jobMutate(jb c15Job) {
	var h *c15Honest
	switch jb.arg {
	case "pair":
		in := j.inst(jb.k, "random", false)
		h = j.honestPair(in, j.rng.Perm(jb.k), j.betas(jb.k, false))
	case "simple":
		h = j.honestSimple(jb.k)
	case "biffle":
		h = j.honestBiffle()
	}
	j.r.Op("proof.HashVerify")
	desc := fmt.Sprintf("|%s|k=%d", h.scheme, h.k)
	// sanity: the unaltered proof verifies (otherwise rejections below mean nothing)
	if err, ok := j.verify(h.scheme, "honest", h.name, h.mk, h.prf, h.detail); !ok || err != nil {
		if ok {
			d := h.detail()
			d["error"] = err.Error()
			d["proof"] = c15HexProof(h.prf)
			j.violation("C15/"+h.scheme+"/honest/rejected", "honest proof rejected: "+err.Error(), d)
		}
		return
	}
	j.r.Eval(h.scheme+"/honest/before-mutation", j.id+desc, true)
	fs, total := c15Layout(h.scheme, h.k, j.s.PointLen(), j.s.ScalarLen())
	if total != len(h.prf) {
		panic(fmt.Sprintf("harness: transcript layout of %s (k=%d) predicts %d bytes, proof has %d", h.scheme, h.k, total, len(h.prf)))
	}
	for fi, f := range fs {
		bit := j.rng.IntN(8 * f.n)
		mut := gen.FlipBit(h.prf, 8*f.off+bit)
		class := h.scheme + "/bit-flip/" + f.group
		if bytes.Equal(mut, h.prf) {
			panic("harness: FlipBit did not change the proof")
		}
		det := func() map[string]any {
			d := h.detail()
			d["field"] = f.group
			d["element_index_in_transcript"] = fi
			d["flipped_bit"] = 8*f.off + bit
			return d
		}
		err, ok := j.verify(h.scheme, "bit-flip/"+f.group, h.name, h.mk, mut, det)
		if !ok {
			continue
		}
		j.r.Eval(class, fmt.Sprintf("%s%s|el=%d|bit=%d", j.id, desc, fi, bit), true)
		if err == nil {
			d := det()
			d["proof_original"] = c15HexProof(h.prf)
			d["proof_mutated"] = c15HexProof(mut)
			j.violation("C15/"+h.scheme+"/bit-flip/"+f.group+"/accepted", "transcript with one flipped bit in "+f.group+" accepted", d)
		}
	}
	// truncations: at every message boundary, and one byte short
	cuts := map[int]bool{0: true, len(h.prf) - 1: true, len(h.prf) / 2: true}
	for i := 1; i < len(fs); i++ {
		if fs[i].msg != fs[i-1].msg {
			cuts[fs[i].off] = true
		}
	}
	for cut := range cuts {
		cut := cut
		det := func() map[string]any {
			d := h.detail()
			d["truncated_to"] = cut
			d["proof_len"] = len(h.prf)
			return d
		}
		err, ok := j.verify(h.scheme, "truncated", h.name, h.mk, h.prf[:cut], det)
		if !ok {
			continue
		}
		j.r.Eval(h.scheme+"/truncated", fmt.Sprintf("%s%s|cut=%d", j.id, desc, cut), true)
		if err == nil {
			d := det()
			d["proof_original"] = c15HexProof(h.prf)
			j.violation("C15/"+h.scheme+"/truncated/accepted", "truncated transcript accepted", d)
		}
	}
	// trailing bytes: observation only (the property speaks about altered proofs;
	// ignoring a suffix after a complete valid transcript is not counted)
	ext := append(append([]byte(nil), h.prf...), j.rng.Bytes(1+j.rng.IntN(40))...)
	if p, panicked := mon.Try(func() {
		if proof.HashVerify(j.s, h.name, h.mk(), ext) == nil {
			j.r.NoteAdd("observation_trailing_bytes_after_valid_transcript_accepted", 1)
		} else {
			j.r.NoteAdd("observation_trailing_bytes_after_valid_transcript_rejected", 1)
		}
	}); panicked {
		j.violation("C15/"+h.scheme+"/trailing-bytes/verify/panic", "verifier panicked: "+p, h.detail())
	}
}

// jobSplice cuts two honest pair-shuffle transcripts at every message boundary
// and glues the head of one to the tail of the other.
func (j *c15J) jobSplice(jb c15Job) {
	k := jb.k
	in := j.inst(k, "random", false)
	pi1, beta1 := j.rng.Perm(k), j.betas(k, false)
	pi2, beta2 := pi1, beta1
	if jb.arg == "other-output" {
		pi2, beta2 = j.rng.Perm(k), j.betas(k, false)
	}
	h1 := j.honestPair(in, pi1, beta1)
	h2 := j.honestPair(in, pi2, beta2)
	desc := fmt.Sprintf("|%s|k=%d", jb.arg, k)
	j.r.Op("proof.HashVerify", "shuffle.Verifier")
	for _, h := range []*c15Honest{h1, h2} {
		if err, ok := j.verify("pair", "honest", h.name, h.mk, h.prf, h.detail); !ok || err != nil {
			if ok {
				d := h.detail()
				d["error"] = err.Error()
				d["proof"] = c15HexProof(h.prf)
				j.violation("C15/pair/honest/rejected", "honest proof rejected: "+err.Error(), d)
			}
			return
		}
		j.r.Eval("pair/honest/before-splice", j.id+desc, true)
	}
	fs, total := c15Layout("pair", k, j.s.PointLen(), j.s.ScalarLen())
	if total != len(h1.prf) || total != len(h2.prf) {
		panic(fmt.Sprintf("harness: transcript layout predicts %d bytes, proofs have %d and %d", total, len(h1.prf), len(h2.prf)))
	}
	msgNames := []string{"", "after-ega1", "after-ega3", "after-ega5", "after-ssa0(step-6-statement)", "after-ssa2"}
	for i := 1; i < len(fs); i++ {
		if fs[i].msg == fs[i-1].msg {
			continue
		}
		cut := fs[i].off
		for dir, pair := range [][2]*c15Honest{{h1, h2}, {h2, h1}} {
			sp := append(append([]byte(nil), pair[0].prf[:cut]...), pair[1].prf[cut:]...)
			if bytes.Equal(sp, h1.prf) || bytes.Equal(sp, h2.prf) {
				j.r.Eval("pair/splice/no-op-skipped", j.id+desc, false)
				continue
			}
			// present the splice for both statements
			for vi, hv := range []*c15Honest{h1, h2} {
				if jb.arg == "same-statement" && vi == 1 {
					continue
				}
				class := "pair/splice/" + jb.arg + "/" + msgNames[fs[i].msg]
				det := func() map[string]any {
					d := hv.detail()
					d["cut_at_byte"] = cut
					d["cut"] = msgNames[fs[i].msg]
					d["head_from"] = []string{"proof1", "proof2"}[dir]
					d["verified_against_statement_of"] = []string{"proof1", "proof2"}[vi]
					d["kind"] = jb.arg
					return d
				}
				err, ok := j.verify("pair", "splice", hv.name, hv.mk, sp, det)
				if !ok {
					continue
				}
				j.r.Eval(class, fmt.Sprintf("%s%s|cut=%d|dir=%d|v=%d", j.id, desc, cut, dir, vi), true)
				if err == nil {
					d := det()
					d["proof1"] = c15HexProof(h1.prf)
					d["proof2"] = c15HexProof(h2.prf)
					d["spliced"] = c15HexProof(sp)
					j.violation("C15/pair/splice/"+msgNames[fs[i].msg]+"/accepted", "splice of two honest transcripts accepted (cut "+msgNames[fs[i].msg]+")", d)
				}
			}
		}
	}
}
