package main

// C11, mode rabin: runtime monitor for the Rabin DKG (share/dkg/rabin over share/vss/rabin).
// Files: c11_rabin.go (scenario enumeration, recording), c11_rabin_types.go (scenario/atoms/copies),
// c11_rabin_run.go (engine), c11_rabin_oracle.go (oracle).

import (
	"fmt"
	"sort"
	"strings"
	"sync"

	"verif/internal/gen"
	"verif/internal/mon"
)

// c11rMenu is the finite menu of fault behaviours of ONE Byzantine participant b; an entry is a small set
// of atoms (e.g. "invalid share to node h and never justify").
func c11rMenu(n, t, b int, honest []int) [][]c11rAtom {
	var m [][]c11rAtom
	one := func(kind string, tgt, arg int) { m = append(m, []c11rAtom{{Kind: kind, Who: b, Tgt: tgt, Arg: arg}}) }
	m = append(m, []c11rAtom{{Kind: "absent", Who: b, Tgt: -1}})
	targets := append(append([]int(nil), honest...), -1)
	// deals the recipient cannot process (no response possible)
	for _, k := range []string{"none", "cipher-flip", "sig-forged", "dh-tampered", "wrong-recipient", "garbage", "wrong-index"} {
		for _, h := range targets {
			one("deal/"+k, h, 0)
		}
	}
	// deals the recipient can read: complaint expected; the dealer then justifies correctly / not at all / wrongly
	for _, k := range []string{"bad-share", "bad-rnd-share", "bad-commit", "index-mismatch", "t-out-of-range"} {
		for _, h := range targets {
			for arg := 0; arg < map[string]int{"t-out-of-range": 3}[k]+1 && arg < 3; arg++ {
				one("deal/"+k, h, arg)
			}
			for _, j := range []string{"none", "wrong-share", "other-index"} {
				m = append(m, []c11rAtom{{Kind: "deal/" + k, Who: b, Tgt: h}, {Kind: "just/" + j, Who: b, Tgt: -1}})
			}
		}
	}
	for _, h := range honest {
		m = append(m, []c11rAtom{{Kind: "deal/bad-share", Who: b, Tgt: h}, {Kind: "just/none", Who: b, Tgt: -1}, {Kind: "sc/fit-dealt-shares", Who: b, Tgt: -1}})
		m = append(m, []c11rAtom{{Kind: "deal/bad-share", Who: b, Tgt: h}, {Kind: "sc/fit-dealt-shares", Who: b, Tgt: -1}})
		// the holder of an invalid share takes part in the reconstruction of the dealer's polynomial
		for arg := 0; arg < len(honest); arg++ {
			m = append(m, []c11rAtom{{Kind: "deal/bad-share", Who: b, Tgt: h}, {Kind: "just/none", Who: b, Tgt: -1}, {Kind: "sc/partial", Who: b, Tgt: -1, Arg: arg}})
			m = append(m, []c11rAtom{{Kind: "deal/bad-share", Who: b, Tgt: h}, {Kind: "sc/partial", Who: b, Tgt: -1, Arg: arg}})
		}
	}
	for _, k := range []string{"t-other", "wrong-sid", "duplicate", "conflicting"} {
		for _, h := range targets {
			one("deal/"+k, h, 0)
			if k == "t-other" {
				one("deal/"+k, h, 1)
			}
		}
	}
	// two polynomials: some honest nodes get shares of another session of the same dealer
	for mask := 1; mask < (1 << uint(n)); mask++ {
		cnt, okMask := 0, true
		for i := 0; i < n; i++ {
			if mask&(1<<uint(i)) != 0 {
				cnt++
				if !c11rContains(honest, i) {
					okMask = false
				}
			}
		}
		if !okMask || cnt == len(honest) || (n > 4 && cnt > 2) {
			continue
		}
		m = append(m, []c11rAtom{{Kind: "deal/alt-poly", Who: b, Tgt: -2, Arg: mask}})
		m = append(m, []c11rAtom{{Kind: "deal/alt-poly", Who: b, Tgt: -2, Arg: mask}, {Kind: "sc/alt-poly-equivocate", Who: b, Tgt: -1}})
	}
	// responses
	dealers := append(append([]int(nil), honest...), -1)
	for _, k := range []string{"withhold", "false-complaint", "bad-signature", "wrong-sid", "wrong-index", "equivocate", "duplicate", "unknown-dealer"} {
		for _, d := range dealers {
			one("resp/"+k, d, 0)
		}
	}
	// justifications
	for _, h := range honest {
		one("just/unsolicited-bad", h, 0)
		one("just/forged-for-honest", h, 0)
		m = append(m, []c11rAtom{{Kind: "resp/equivocate", Who: b, Tgt: h}, {Kind: "just/forged-for-honest", Who: b, Tgt: h}})
	}
	// secret commits
	for _, k := range []string{"none", "inconsistent", "wrong-sid", "bad-signature", "long", "long-null", "short", "equivocate", "duplicate"} {
		one("sc/"+k, -1, 0)
	}
	for arg := 0; arg < len(honest); arg++ {
		one("sc/partial", -1, arg)
		for _, k := range []string{"none", "falsified", "wrong-index-share", "wrong-sid", "bad-signature"} {
			m = append(m, []c11rAtom{{Kind: "sc/partial", Who: b, Tgt: -1, Arg: arg}, {Kind: "rc/" + k, Who: b, Tgt: -1}})
		}
	}
	// complaint-commits against honest dealers, reconstruction
	for _, d := range honest {
		for _, k := range []string{"false-real-deal", "bad-deal", "foreign-commitments", "bad-signature", "as-honest"} {
			one("cc/"+k, d, 0)
		}
		for _, k := range []string{"none", "falsified", "wrong-index-share", "wrong-sid", "bad-signature"} {
			m = append(m, []c11rAtom{{Kind: "cc/foreign-commitments", Who: b, Tgt: d}, {Kind: "rc/" + k, Who: b, Tgt: -1}})
		}
		one("rc/unsolicited", d, 0)
	}
	return m
}

func c11rHonestOf(n int, byz []int) []int {
	var h []int
	for i := 0; i < n; i++ {
		if !c11rContains(byz, i) {
			h = append(h, i)
		}
	}
	return h
}

func c11rThresholds(n int) []int {
	var ts []int
	for t := n/2 + 1; t <= n; t++ {
		ts = append(ts, t)
	}
	return ts
}

// c11rScenarios builds the scenario list of a tier; it depends on (seed, tier) only.
func c11rScenarios(r *mon.R) []*c11rScn {
	var scns []*c11rScn
	push := func(s *c11rScn) { s.Idx = len(scns); scns = append(scns, s) }
	// (1) everyone honest: every (n, t), several delivery schedules, with and without duplicated delivery
	maxHonestN := r.N(6, 9)
	for n := 3; n <= maxHonestN; n++ {
		for _, t := range c11rThresholds(n) {
			perms := r.N(3, 8)
			if n > 6 {
				perms = 3
			}
			for p := 0; p <= perms; p++ {
				push(&c11rScn{N: n, T: t, Perm: p, Class: "honest"})
			}
			push(&c11rScn{N: n, T: t, Perm: 1, Dup: true, Class: "honest"})
		}
	}
	// (2) one Byzantine participant, every menu entry, every position: exhaustive for n<=4 (thorough: n<=5)
	maxExh := r.N(4, 5)
	for n := 3; n <= maxExh; n++ {
		for _, t := range c11rThresholds(n) {
			if n-t < 1 {
				continue
			}
			for b := 0; b < n; b++ {
				honest := c11rHonestOf(n, []int{b})
				for mi, atoms := range c11rMenu(n, t, b, honest) {
					perms := []int{0, 1 + (mi+b)%3}
					if r.Thorough() {
						perms = []int{0, 1, 2, 3}
					}
					for _, p := range perms {
						push(&c11rScn{N: n, T: t, Byz: []int{b}, Atoms: atoms, Perm: p, Class: "single"})
					}
				}
			}
		}
	}
	// (2b) two colluding participants, n=5 t=3: one deals badly to two honest nodes, the other manipulates its response about it
	{
		n, t := 5, 3
		for _, pr := range [][2]int{{0, 1}, {4, 2}, {2, 3}} {
			b, b2 := pr[0], pr[1]
			honest := c11rHonestOf(n, []int{b, b2})
			mask := 1<<uint(honest[0]) | 1<<uint(honest[1])
			for _, dk := range [][]c11rAtom{
				{{Kind: "deal/bad-share", Who: b, Tgt: -2, Arg: mask}, {Kind: "just/none", Who: b, Tgt: -1}},
				{{Kind: "deal/cipher-flip", Who: b, Tgt: -2, Arg: mask}},
				{{Kind: "deal/bad-commit", Who: b, Tgt: -2, Arg: mask}},
				{{Kind: "deal/alt-poly", Who: b, Tgt: -2, Arg: mask}, {Kind: "sc/alt-poly-equivocate", Who: b, Tgt: -1}},
			} {
				for _, rk := range []string{"equivocate", "withhold", "false-complaint"} {
					for p := 1; p <= r.N(2, 5); p++ {
						atoms := append(append([]c11rAtom(nil), dk...), c11rAtom{Kind: "resp/" + rk, Who: b2, Tgt: b})
						push(&c11rScn{N: n, T: t, Byz: []int{b, b2}, Atoms: atoms, Perm: p, Class: "pair"})
					}
				}
			}
		}
	}
	// (3) sampled: up to n-t Byzantine participants, each with 1..3 menu entries, random schedule
	nSample := r.N(2500, 30000)
	for i := 0; i < nSample; i++ {
		rng := gen.New(r.Seed, "C11R/sample", i)
		var n int
		switch x := rng.IntN(100); {
		case !r.Thorough():
			n = 3 + rng.IntN(3) // 3..5
			if x < 8 {
				n = 6
			}
		case x < 70:
			n = 3 + rng.IntN(4) // 3..6
		case x < 92:
			n = 7
		case x < 97:
			n = 8
		default:
			n = 9
		}
		var ts []int
		for _, t := range c11rThresholds(n) {
			if n-t >= 1 {
				ts = append(ts, t)
			}
		}
		t := gen.Pick(rng, ts)
		k := 1 + rng.IntN(n-t)
		byz := append([]int(nil), rng.Perm(n)[:k]...)
		sort.Ints(byz)
		honest := c11rHonestOf(n, byz)
		s := &c11rScn{N: n, T: t, Byz: byz, Perm: rng.IntN(6), Dup: rng.IntN(10) == 0, Class: "sampled"}
		for _, b := range byz {
			menu := c11rMenu(n, t, b, honest)
			for c := 1 + rng.IntN(3); c > 0; c-- {
				s.Atoms = append(s.Atoms, gen.Pick(rng, menu)...)
			}
		}
		push(s)
	}
	return scns
}

// c11rMinimise removes fault atoms (greedily) as long as a finding with the same clause and observable
// persists, so that a violation found in a multi-fault scenario is keyed by a minimal fault set.
func c11rMinimise(seed int64, s *c11rScn, f *c11rFinding) (*c11rScn, *c11rFinding) {
	cur, curF := s, f
	for changed := true; changed && len(cur.Atoms) > 0; {
		changed = false
		for k := range cur.Atoms {
			c := cur.clone()
			c.Atoms = append(c.Atoms[:k:k], c.Atoms[k+1:]...)
			var hit *c11rFinding
			func() {
				defer func() { _ = recover() }()
				_, fs := c11rJudge(c11rExecute(seed, c))
				for i := range fs {
					if fs[i].Clause == f.Clause && fs[i].Observable == f.Observable && !fs[i].Ledger {
						hit = &fs[i]
						break
					}
				}
			}()
			if hit != nil {
				cur, curF, changed = c, hit, true
				break
			}
		}
	}
	return cur, curF
}

func c11Rabin(r *mon.R) {
	r.SetRule("Rabin DKG, direct API. Honest participants are real DistKeyGenerators (own seeded suite each, per-recipient deep copies of every message); " +
		"a Byzantine participant is the harness holding its long-term key: a real vss/rabin Dealer (deals tampered after sealing or sealed from altered plaintext via VerifSealDeal*), " +
		"Verifiers for the honest dealers, hand-signed Responses/Justifications/SecretCommits/ComplaintCommits/ReconstructCommits. A scenario = (n, t in [n/2+1, n], Byzantine positions (<= n-t), " +
		"fault atoms from a finite menu, per-recipient delivery permutation of the broadcasts of each phase, optional duplicated delivery). All-honest runs for every (n,t); " +
		"one Byzantine participant x every menu entry x every position exhaustively for n<=4 (thorough n<=5); sampled multi-fault scenarios with up to n-t colluding participants above (quick n<=6, thorough n<=9). " +
		"Byzantine broadcasts reach every honest node (never selectively withheld); only the order differs. " +
		"Oracle over the honest nodes whose DistKeyShare() succeeds: identical public key / Commits / QUAL set; share on the polynomial of Commits (PubPoly.Check and an independent evaluation); " +
		"every t-subset (<=10 per run) interpolates (math/big Lagrange) to s with s*G = public key; Commits = sum over QUAL of the polynomials really dealt (when every Byzantine dealer in QUAL dealt shares of one polynomial); " +
		"after SetTimeout and at the end: every honest dealer in QUAL at every honest node, no Byzantine dealer with an unjustified invalid deal to an honest node in QUAL at any honest node; all-honest runs complete everywhere; no panic. " +
		"Non-completion in the presence of a faulty participant is not judged. distinct = (scenario incl. schedule, judged object); non-trivial = at least one fault atom or a non-identity/duplicated delivery schedule")
	r.Assume("Ed25519 suite (edwards25519.SuiteEd25519) only")
	r.Assume("ground truth is known by construction: the harness knows every Byzantine dealer's polynomials (recovered from its plaintext deals and cross-checked against Dealer.Commits()) and which single field of a deal it changed")
	r.Assume("share.RecoverPriPoly / PriPoly.Commit (property C07) are used to build Byzantine material; the oracle's interpolation is math/big (ref.C07Lagrange0)")
	r.Assume("root-cause attribution: a violation is keyed '" + c11rCauseUndec + "' only if every QUAL difference is at a node whose ProcessDeal returned an error (or that got no deal) and every finisher's key is the sum over its own QUAL; '" +
		c11rCauseUnjust + "' only if the ledger shows a complaint about a readable invalid deal that the dealer never answered; every other violation is keyed by the (minimised) set of fault kinds")

	scns := c11rScenarios(r)
	var mu sync.Mutex
	faultKeys := map[string]bool{}
	schedules := map[string]bool{}
	outcomes := map[string]int64{}
	counts := map[string]int64{}
	var nAgree, nHonestDone, nFinRuns int64

	mon.Parallel(len(scns), func(w, i int) {
		s := scns[i]
		r.Journal(w, "C11/rabin %d %s", i, s.String())
		r.Guard("C11/rabin/scenario", map[string]any{"scenario": s.String(), "scenario_index": i}, func() {
			o := c11rExecute(r.Seed, s)
			evals, finds := c11rJudge(o)
			nt := s.nontrivial()
			for _, e := range evals {
				r.Eval(e.Class, e.Desc, nt)
			}
			for k := range finds {
				f := &finds[k]
				detail := f.Detail
				if !f.Ledger && len(s.Atoms) > 0 && f.Clause != "harness" {
					ms, mf := c11rMinimise(r.Seed, s, f)
					if ms != s {
						detail = mf.Detail
						detail["found_in_scenario"] = s.String()
						detail["minimised_from_atoms"] = len(s.Atoms)
						f = mf
					}
				}
				r.Violation(f.key(), f.What, detail)
			}
			cls := c11rOutcomeClass(o)
			fin := 0
			for _, x := range o.honest {
				if o.dks[x] != nil {
					fin++
				}
			}
			mu.Lock()
			faultKeys[s.faultKey()] = true
			schedules[fmt.Sprintf("n=%d perm=%d dup=%v", s.N, s.Perm, s.Dup)] = true
			outcomes[cls]++
			for k, v := range o.count {
				counts[k] += v
			}
			if fin >= 2 {
				nAgree++
			}
			if fin >= 1 {
				nFinRuns++
			}
			if len(s.Byz) == 0 && fin == s.N {
				nHonestDone++
			}
			for _, x := range o.honest {
				if o.finished[x] != (o.dks[x] != nil) {
					counts["note.Finished-disagrees-with-DistKeyShare"]++
				}
			}
			if fin == 0 && len(s.Byz) > 0 {
				counts["note.runs-where-no-honest-node-completes"]++
			}
			mu.Unlock()
			tag := s.Class + ":" + s.signature()
			if len(tag) < 60 && (s.Class != "sampled" || i%50 == 0) {
				h := o.hist
				if len(h) > 60 {
					h = h[:60]
				}
				r.SampleClass(tag, map[string]any{"scenario": s.String(), "scenario_index": i, "outcome": cls,
					"qual_final": c11rQualMap(o, o.qualF), "history": h})
			}
		})
	})

	r.Note("rabin.scenarios", len(scns))
	r.Note("rabin.distinct_fault_assignments", len(faultKeys))
	r.Note("rabin.distinct_delivery_schedules", len(schedules))
	r.Note("rabin.distinct_outcome_shapes", len(outcomes))
	r.Note("rabin.runs_with_agreement_judged", nAgree)
	r.Note("rabin.runs_with_a_finisher", nFinRuns)
	r.Note("rabin.all_honest_runs_completed", nHonestDone)
	var oc []string
	for k, v := range outcomes {
		oc = append(oc, fmt.Sprintf("%s:%d", k, v))
	}
	sort.Strings(oc)
	if len(oc) > 80 {
		oc = oc[:80]
	}
	r.Note("rabin.outcome_shapes", strings.Join(oc, " "))
	for k, v := range counts {
		r.Note("rabin.count."+k, v)
	}
	if nAgree == 0 || nHonestDone == 0 {
		r.Violation("C11/rabin/harness/observed-nothing", "the monitor never saw two honest nodes complete (or no all-honest run completed): nothing was judged", map[string]any{"scenarios": len(scns)})
	}
	r.Op("dkg/rabin.NewDistKeyGenerator", "dkg/rabin.Deals", "dkg/rabin.ProcessDeal", "dkg/rabin.ProcessResponse", "dkg/rabin.ProcessJustification",
		"dkg/rabin.SetTimeout", "dkg/rabin.Certified", "dkg/rabin.QUAL", "dkg/rabin.SecretCommits", "dkg/rabin.ProcessSecretCommits",
		"dkg/rabin.ProcessComplaintCommits", "dkg/rabin.ProcessReconstructCommits", "dkg/rabin.Finished", "dkg/rabin.DistKeyShare",
		"vss/rabin.NewDealer", "vss/rabin.EncryptedDeal", "vss/rabin.VerifSealDeal", "vss/rabin.VerifSealDealStruct", "vss/rabin.NewVerifier", "vss/rabin.ProcessEncryptedDeal")
}
