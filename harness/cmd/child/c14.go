package main

// C14 — Sigma-protocol proofs: complete for true statements, reject false or altered.
//
// Two modes (driver runs them as separate child processes):
//   -mode hash      HashProve / HashVerify
//   -mode deniable  DeniableProver over a harness clique Context (see c14_deniable.go)

import (
	"bytes"
	"fmt"
	"sort"

	"go.dedis.ch/kyber/v4"
	"go.dedis.ch/kyber/v4/proof"

	"verif/internal/gen"
	"verif/internal/mon"
)

func init() { register("C14", c14) }

const c14RuleHash = "hash mode: per group (Ed25519, P-256, BN256 G1) seeded random predicate trees: Or of <=4 branches (also no Or, Or of one, nested Or), each an And of <=4 Rep (also bare Rep, And of one, nested And) with <=3 (scalar,base) terms; scalar and base names drawn from pools of <=4 / <=3 so that variables are shared between terms and branches; earlier public points reused as bases, Reps repeated across branches, two base names for one point, secrets 0/1/-1 mixed in. Public points come from one assignment; every branch is independently made true or false and its truth is then EVALUATED in the group. Oracles: (1) the prover claims every branch in turn: accept iff the branch evaluates true; (2) one secret at a time is replaced (random, +1, negated, zero): accept iff the claimed branch still evaluates true; (3) a valid proof is mutated per transcript field (bit flips, byte substitution, zero/identity, swap of equal-kind fields, sum-preserving rebalancing of sub-challenges), truncated at every field boundary and inside fields: reject; (4) verification with one used public point replaced, all points re-drawn, a semantically different predicate of the same/different shape, another protocol name: reject; (5) explicit cheating provers that know no witness: all branches simulated with random sub-challenges, with sub-challenges summing to a guessed challenge, and with the challenge transplanted from a valid proof of the same shape and length: reject. distinct = (group, tree, check, case); non-trivial = the statement is more than a single P=x*B, or the case is a rejection case whose falsity/alteration the harness established (value really changed, branch really false)"

// note-key prefixes (the driver already prefixes notes with the part name when the modes run as separate parts)
var c14HP, c14DP = "", ""

func c14(r *mon.R) {
	mode := *flagMode
	if mode != "hash" && mode != "deniable" {
		c14HP, c14DP = "hash.", "deniable."
	}
	r.Assume("group arithmetic (Mul/Add/Equal) and encodings of Ed25519, P-256 and BN256 G1 are correct (C01-C03) - used for the ground-truth evaluation of statements and to assemble forged transcripts")
	r.Assume("soundness is judged on explicit families of cheating provers only (falsified secrets, false branch claims, simulators with guessed/transplanted challenges, altered transcripts); a 2^-128-probability accidental acceptance is ignored")
	switch mode {
	case "hash":
		r.SetRule(c14RuleHash)
		c14Hash(r)
	case "deniable":
		r.SetRule(c14RuleDeniable)
		c14Deniable(r)
	default:
		r.SetRule(c14RuleHash + " || " + c14RuleDeniable)
		c14Hash(r)
		c14Deniable(r)
	}
}

// ---------------------------------------------------------------- hash mode

type c14Job struct {
	env *c14Env
	idx int
}

func c14Hash(r *mon.R) {
	envs := c14SelectEnvs(*flagGroups)
	var jobs []c14Job
	for _, e := range envs {
		n := r.N(120, 3000)
		if e.name != "ed25519" {
			n = r.N(60, 1500)
		}
		for i := 0; i < n; i++ {
			jobs = append(jobs, c14Job{e, i})
		}
	}
	r.Op("proof.Rep", "proof.And", "proof.Or", "Predicate.Prover", "Predicate.Verifier", "proof.HashProve", "proof.HashVerify")
	if len(envs) > 1 {
		c14CrossGroup(r, envs)
	}
	mon.Parallel(len(jobs), func(w, i int) {
		j := jobs[i]
		r.Journal(w, "C14 hash %s tree %d seed %d", j.env.name, j.idx, r.Seed)
		h := &c14H{r: r, env: j.env, idx: j.idx}
		r.Guard("C14/"+j.env.name+"/hash/job", map[string]any{"group": j.env.name, "tree": j.idx}, func() { h.run() })
	})
}

// c14H is the state of one hash-mode job (one tree).
type c14H struct {
	r     *mon.R
	env   *c14Env
	idx   int
	rng   *gen.Rng
	g     kyber.Group
	t     *c14Tree
	name  string // protocol name
	tstr  string
	nsuit int
}

func (h *c14H) suite() proof.Suite {
	h.nsuit++
	return h.env.mk(gen.New(h.r.Seed, "C14suite"+h.env.name, h.idx*100000+h.nsuit).Stream())
}

func (h *c14H) key(check, what string) string {
	return "C14/" + h.env.name + "/hash/" + check + "/" + what
}

func (h *c14H) detail(extra map[string]any) map[string]any {
	d := map[string]any{"group": h.env.name, "tree": h.idx, "predicate": h.tstr, "protocol_name": h.name,
		"points": c14HexPoints(h.t.pts), "secrets": c14HexScalars(h.t.sec), "branch_truth": h.t.truth}
	for k, v := range extra {
		d[k] = v
	}
	return d
}

func (h *c14H) desc(c string) string { return fmt.Sprintf("%s|%d|%s|%s", h.env.name, h.idx, h.tstr, c) }

func (h *c14H) class(check string) string {
	return fmt.Sprintf("hash/%s/branches=%d", check, len(h.t.scopes))
}

// prove runs HashProve with fresh predicate objects and fresh copies of all values.
func (h *c14H) prove(root *c14Node, path []c14Step, sec map[string]kyber.Scalar, pts map[string]kyber.Point, name string) ([]byte, error) {
	s := h.suite()
	pred, ch := c14Build(root, path)
	prv := pred.Prover(s, c14CopyScalars(h.g, sec), c14CopyPoints(h.g, pts), ch)
	b, err := proof.HashProve(s, name, prv)
	return append([]byte(nil), b...), err
}

// verify runs HashVerify as a different party: fresh suite, predicate, point copies, proof copy.
func (h *c14H) verify(root *c14Node, pts map[string]kyber.Point, name string, prf []byte) error {
	s := h.suite()
	pred, _ := c14Build(root, nil)
	return proof.HashVerify(s, name, pred.Verifier(s, c14CopyPoints(h.g, pts)), append([]byte(nil), prf...))
}

// mustReject judges one rejection case.
func (h *c14H) mustReject(check, what, caseID string, root *c14Node, pts map[string]kyber.Point, name string, prf []byte, extra map[string]any) {
	key := h.key(check, what)
	h.r.Guard(key, h.detail(extra), func() {
		err := h.verify(root, pts, name, prf)
		h.r.Eval(h.class(check+"/"+what), h.desc(check+"/"+what+"/"+caseID), true)
		if err == nil {
			d := h.detail(extra)
			d["case"] = caseID
			d["proof_presented"] = mon.Hex(prf)
			d["verified_against_predicate"] = root.String()
			h.r.Violation(key+"/accepted", "HashVerify accepted: "+check+" / "+what, d)
			h.r.NoteAdd(c14HP+"reject-cases.accepted", 1)
		} else {
			h.r.NoteAdd(c14HP+"reject-cases.rejected", 1)
		}
	})
}

// altered judges one alteration m of the accepted transcript valid: rejection is demanded iff the
// reference judgement says that m is no longer a valid transcript (a commitment decodes to another
// point or not at all / is missing, or the differential reference verifier rejects the rest).
func (h *c14H) altered(valid []byte, what, caseID string, m []byte, extra map[string]any) {
	g, t := h.g, h.t
	nc := c14CommitLen(g, t.root)
	if len(m) >= nc && c14CommitsEqual(g, t.root, valid[:nc], m[:nc]) && c14TailValid(g, t.root, t.pts, valid[nc:], m[nc:]) {
		h.r.NoteAdd(c14HP+"alteration-leaves-a-valid-transcript(not judged)."+what, 1)
		return
	}
	if len(m) > nc && c14NonCanonicalScalar(g, t.root, m[nc:]) {
		// own input class: the altered scalar is an encoding the library never produces (value >= group order)
		what += "-noncanonical-scalar"
	}
	h.mustReject("mutation", what, caseID, t.root, t.pts, h.name, m, extra)
}

func (h *c14H) run() {
	r := h.r
	h.rng = gen.New(r.Seed, "C14hash"+h.env.name, h.idx)
	rng := h.rng
	h.g = h.env.mk(rng.Stream())
	g := h.g
	h.t = c14Gen(g, rng, c14GenOpt{maxBranches: 4, maxReps: 4, maxTerms: 3, allowNestedOr: true})
	t := h.t
	h.tstr = t.root.String()
	h.name = gen.Pick(rng, []string{"", "p", "C14 protocol", "a much longer protocol name that exceeds the sixty-four byte key size of blake2b......"})
	for _, f := range t.feat {
		r.NoteAdd(c14HP+"trees-with."+f, 1)
	}
	r.NoteAdd(c14HP+fmt.Sprintf("trees.branches=%d", len(t.scopes)), 1)
	maxReps := 0
	for _, s := range t.scopes {
		if n := len(s.reps()); n > maxReps {
			maxReps = n
		}
	}
	r.NoteAdd(c14HP+fmt.Sprintf("trees.max-and-terms=%d", maxReps), 1)
	nontriv := !t.simple()

	// (1) claim every branch in turn
	var valid []byte
	validBranch := -1
	// the branch used for the follow-up checks: a random true branch
	var trueIdx []int
	for b, v := range t.truth {
		if v {
			trueIdx = append(trueIdx, b)
		}
	}
	wantBranch := gen.Pick(rng, trueIdx)
	for b := range t.scopes {
		b := b
		what := "claim-true-branch"
		if !t.truth[b] {
			what = "claim-false-branch"
		}
		pos := "first"
		if b > 0 {
			pos = "not-first"
		}
		extra := map[string]any{"claimed_branch": b, "claimed_branch_predicate": t.scopes[b].String()}
		r.Guard(h.key(what, "run"), h.detail(extra), func() {
			prf, err := h.prove(t.root, t.paths[b], t.sec, t.pts, h.name)
			if t.truth[b] {
				if err != nil {
					r.Eval(h.class("complete/"+what+"/"+pos), h.desc(fmt.Sprintf("claim%d", b)), nontriv)
					d := h.detail(extra)
					d["error"] = err.Error()
					r.Violation(h.key("complete", what+"/prover-error"), "HashProve fails on a satisfied branch", d)
					return
				}
				verr := h.verify(t.root, t.pts, h.name, prf)
				r.Eval(h.class("complete/"+what+"/"+pos), h.desc(fmt.Sprintf("claim%d", b)), nontriv)
				if verr != nil {
					d := h.detail(extra)
					d["error"] = verr.Error()
					d["proof"] = mon.Hex(prf)
					r.Violation(h.key("complete", what+"/rejected"), "HashVerify rejects the proof of a satisfied branch", d)
					return
				}
				r.NoteAdd(c14HP+"accepted-honest", 1)
				if b == wantBranch {
					valid, validBranch = prf, b
				}
				return
			}
			// false branch claimed with the true secrets
			r.Eval(h.class("sound/"+what), h.desc(fmt.Sprintf("claim%d", b)), true)
			if err != nil {
				r.NoteAdd(c14HP+"cheat.prover-refused", 1)
				return
			}
			if verr := h.verify(t.root, t.pts, h.name, prf); verr == nil {
				d := h.detail(extra)
				d["proof"] = mon.Hex(prf)
				r.Violation(h.key("sound", what+"/accepted"), "proof claiming a branch the secrets do not satisfy is accepted", d)
			} else {
				r.NoteAdd(c14HP+"cheat.rejected", 1)
			}
		})
	}
	if valid == nil {
		return // completeness failure already reported
	}
	if h.idx < 3 {
		r.SampleClass("hash:"+h.env.name+fmt.Sprint(h.idx), map[string]any{"mode": "hash", "group": h.env.name, "predicate": h.tstr,
			"branch_truth": t.truth, "claimed": validBranch, "proof_len": len(valid), "features": t.feat, "protocol_name": h.name})
	}

	// (1b) the same Predicate object for prover and verifier, verifier closure reused (as in the package examples)
	r.Guard(h.key("complete", "shared-predicate-object"), h.detail(nil), func() {
		s := h.suite()
		pred, ch := c14Build(t.root, t.paths[validBranch])
		pts := c14CopyPoints(g, t.pts)
		prf, err := proof.HashProve(s, h.name, pred.Prover(s, c14CopyScalars(g, t.sec), pts, ch))
		var e1, e2, e3 error
		if err == nil {
			vf := pred.Verifier(s, pts)
			e1 = proof.HashVerify(s, h.name, vf, prf)
			e2 = proof.HashVerify(s, h.name, vf, prf)
			e3 = proof.HashVerify(s, h.name, vf, valid)
		}
		r.Eval(h.class("complete/shared-predicate-object"), h.desc("shared"), nontriv)
		if err != nil || e1 != nil || e2 != nil || e3 != nil {
			d := h.detail(map[string]any{"prove_error": fmt.Sprint(err), "verify1": fmt.Sprint(e1), "verify2_same_closure": fmt.Sprint(e2), "verify3_other_valid_proof": fmt.Sprint(e3)})
			r.Violation(h.key("complete", "shared-predicate-object/rejected"), "prover and verifier built from one Predicate object (and a reused Verifier) do not accept valid proofs", d)
		}
	})

	// (1c) sub-predicate objects shared between several trees (predicates are documented as immutable and safe to share):
	// prover and verifier of tree 1 are created, then provers/verifiers of other trees over the SAME Rep/And/Or objects
	// (children reversed, every child alone, a child next to a fresh statement) are created and used, then tree 1's are run
	r.Guard(h.key("complete", "shared-subpredicates"), h.detail(nil), func() {
		s := h.suite()
		cache := map[*c14Node]proof.Predicate{}
		var build func(n *c14Node) proof.Predicate
		build = func(n *c14Node) proof.Predicate {
			if p, ok := cache[n]; ok {
				return p
			}
			var p proof.Predicate
			switch n.kind {
			case c14Rep:
				var sb []string
				for i := range n.S {
					sb = append(sb, n.S[i], n.B[i])
				}
				p = proof.Rep(n.P, sb...)
			default:
				var sub []proof.Predicate
				for _, c := range n.sub {
					sub = append(sub, build(c))
				}
				if n.kind == c14And {
					p = proof.And(sub...)
				} else {
					p = proof.Or(sub...)
				}
			}
			cache[n] = p
			return p
		}
		pred := build(t.root)
		ch := map[proof.Predicate]int{}
		for _, st := range t.paths[validBranch] {
			ch[cache[st.or]] = st.idx
		}
		pts := c14CopyPoints(g, t.pts)
		prv1 := pred.Prover(s, c14CopyScalars(g, t.sec), pts, ch)
		vf1 := pred.Verifier(s, pts)
		// other trees over the same objects
		nOther := 0
		use := func(q proof.Predicate) {
			nOther++
			s2 := h.suite()
			_ = q.Prover(s2, c14CopyScalars(g, t.sec), c14CopyPoints(g, t.pts), ch)
			vq := q.Verifier(s2, c14CopyPoints(g, t.pts))
			_ = proof.HashVerify(s2, h.name, vq, valid) // outcome irrelevant (other statement); it must only not disturb tree 1
		}
		var walk func(n *c14Node)
		walk = func(n *c14Node) {
			if n.kind == c14Rep {
				return
			}
			var rev []proof.Predicate
			for i := len(n.sub) - 1; i >= 0; i-- {
				rev = append(rev, cache[n.sub[i]])
				use(cache[n.sub[i]])
			}
			if len(rev) > 1 {
				if n.kind == c14And {
					use(proof.And(rev...))
				} else {
					use(proof.Or(rev...))
				}
			}
			for _, c := range n.sub {
				walk(c)
			}
		}
		walk(t.root)
		// a fresh statement over a new variable placed in front of the whole tree shifts every variable index
		use(proof.And(proof.Rep("c14fresh.P", "c14fresh.x", "c14fresh.B"), pred))
		prf, err := proof.HashProve(s, h.name, prv1)
		var e1, e2 error
		if err == nil {
			e1 = proof.HashVerify(s, h.name, vf1, prf)
			e2 = proof.HashVerify(s, h.name, vf1, valid)
		}
		r.Eval(h.class("complete/shared-subpredicates"), h.desc("shared-sub"), nontriv)
		r.NoteAdd(c14HP+"shared-subpredicates.other-trees-built", int64(nOther))
		if err != nil || e1 != nil || e2 != nil {
			d := h.detail(map[string]any{"prove_error": fmt.Sprint(err), "verify_own_proof": fmt.Sprint(e1), "verify_earlier_valid_proof": fmt.Sprint(e2), "other_trees_built_in_between": nOther})
			r.Violation(h.key("complete", "shared-subpredicates/rejected"), "prover/verifier of a tree stop working after provers/verifiers of other trees over the same predicate objects were created", d)
		}
	})

	h.falsify(validBranch)
	h.mutate(valid)
	h.cross(valid)
	h.forge(valid)
}

// (2) one secret at a time is replaced; accept iff the claimed branch still evaluates true.
func (h *c14H) falsify(branch int) {
	r, g, t, rng := h.r, h.g, h.t, h.rng
	order := t.root.scalarOrder()
	names := t.root.scalarNames(order)
	inScope := map[string]bool{}
	for _, x := range t.scopes[branch].scalarNames(order) {
		inScope[x] = true
	}
	kinds := []string{"random", "plus-one", "negated", "zero"}
	for _, x := range names {
		ks := []string{kinds[rng.IntN(len(kinds))]}
		if k2 := kinds[rng.IntN(len(kinds))]; k2 != ks[0] {
			ks = append(ks, k2)
		}
		for _, kind := range ks {
			x, kind := x, kind
			old := t.sec[x]
			var nv kyber.Scalar
			switch kind {
			case "random":
				nv = c14RandScalar(g, rng)
			case "plus-one":
				nv = g.Scalar().Add(old, g.Scalar().One())
			case "negated":
				nv = g.Scalar().Neg(old)
			default:
				nv = g.Scalar().Zero()
			}
			if nv.Equal(old) {
				continue // not a change (0 negated, 0 zeroed)
			}
			sec := c14CopyScalars(g, t.sec)
			sec[x] = nv
			still := c14Eval(g, t.scopes[branch], sec, t.pts)
			extra := map[string]any{"claimed_branch": branch, "changed_secret": x, "change": kind, "new_value": mon.Hex(c14Enc(nv)),
				"variable_used_in_claimed_branch": inScope[x], "claimed_branch_still_true": still}
			r.Guard(h.key("falsified-secret", "run"), h.detail(extra), func() {
				prf, err := h.prove(t.root, t.paths[branch], sec, t.pts, h.name)
				cid := fmt.Sprintf("b%d/%s/%s", branch, x, kind)
				if still {
					cls := "complete/changed-secret-branch-still-true"
					if !inScope[x] {
						cls = "complete/changed-secret-not-used-by-claimed-branch"
					}
					r.Eval(h.class(cls), h.desc(cid), true)
					var verr error
					if err == nil {
						verr = h.verify(t.root, t.pts, h.name, prf)
					}
					if err != nil || verr != nil {
						d := h.detail(extra)
						d["prove_error"], d["verify_error"], d["proof"] = fmt.Sprint(err), fmt.Sprint(verr), mon.Hex(prf)
						r.Violation(h.key("complete", "changed-secret-branch-still-true/rejected"), "claimed branch is satisfied (the changed secret does not matter) but no accepted proof results", d)
					}
					return
				}
				r.Eval(h.class("sound/falsified-secret/"+kind), h.desc(cid), true)
				if err != nil {
					r.NoteAdd(c14HP+"cheat.prover-refused", 1)
					return
				}
				if verr := h.verify(t.root, t.pts, h.name, prf); verr == nil {
					d := h.detail(extra)
					d["proof"] = mon.Hex(prf)
					r.Violation(h.key("sound", "falsified-secret/accepted"), "prover whose secrets do not satisfy the claimed branch obtains an accepted proof", d)
				} else {
					r.NoteAdd(c14HP+"cheat.rejected", 1)
				}
			})
		}
	}
}

// (3) byte-level mutations of a valid proof.
func (h *c14H) mutate(valid []byte) {
	r, g, t, rng := h.r, h.g, h.t, h.rng
	pl, sl := g.PointLen(), g.ScalarLen()
	fields, total := c14Layout(t.root, pl, sl)
	if total != len(valid) {
		// Without the layout model the alterations cannot be judged by the differential reference verifier.
		r.NoteAdd(c14HP+"layout-model-mismatch", 1)
		r.Inconclusive(fmt.Sprintf("hash %s tree %d: accepted transcript has %d bytes, the layout model says %d; alterations not judged", h.env.name, h.idx, len(valid), total))
		return
	}
	put := func(f c14Field, b []byte) []byte {
		m := append([]byte(nil), valid...)
		copy(m[f.off:f.off+f.n], b)
		return m
	}
	// choose the fields to attack: all if few, else first/last of each kind + every sub-challenge + a random sample
	pick := map[int]bool{}
	if len(fields) <= 14 {
		for i := range fields {
			pick[i] = true
		}
	} else {
		first, last := map[string]int{}, map[string]int{}
		for i, f := range fields {
			if _, ok := first[f.kind]; !ok {
				first[f.kind] = i
			}
			last[f.kind] = i
			if f.kind == "subch" {
				pick[i] = true
			}
		}
		for _, i := range first {
			pick[i] = true
		}
		for _, i := range last {
			pick[i] = true
		}
		for len(pick) < 14 {
			pick[rng.IntN(len(fields))] = true
		}
	}
	zeroS := c14Enc(g.Scalar().Zero())
	nullP := c14Enc(g.Point().Null())
	for i, f := range fields {
		if !pick[i] {
			continue
		}
		ex := func(m string) map[string]any {
			return map[string]any{"field": f.kind, "field_offset": f.off, "field_len": f.n, "field_name": f.name, "mutation": m, "valid_proof": mon.Hex(valid)}
		}
		var bits []int
		for _, b := range []int{0, f.n*8 - 1, (f.n - 1) * 8, rng.IntN(f.n * 8), rng.IntN(f.n * 8)} {
			dup := false
			for _, o := range bits {
				dup = dup || o == b
			}
			if !dup {
				bits = append(bits, b)
			}
		}
		for _, bit := range bits {
			m := gen.FlipBit(valid, f.off*8+bit)
			h.altered(valid, "bitflip-"+f.kind, fmt.Sprintf("f%d/bit%d", i, bit), m, ex(fmt.Sprintf("flip bit %d of the field", bit)))
		}
		{
			pos := f.off + rng.IntN(f.n)
			m := append([]byte(nil), valid...)
			m[pos] ^= byte(1 + rng.IntN(255))
			h.altered(valid, "bytesub-"+f.kind, fmt.Sprintf("f%d/byte%d=%02x", i, pos, m[pos]), m, ex(fmt.Sprintf("byte %d of the proof replaced by %02x", pos, m[pos])))
		}
		switch f.kind {
		case "commit":
			if !bytes.Equal(valid[f.off:f.off+f.n], nullP) && len(nullP) == f.n {
				h.altered(valid, "identity-commit", fmt.Sprintf("f%d", i), put(f, nullP), ex("commitment replaced by the identity encoding"))
			}
		case "subch", "resp":
			if !bytes.Equal(valid[f.off:f.off+f.n], zeroS) {
				h.altered(valid, "zero-"+f.kind, fmt.Sprintf("f%d", i), put(f, zeroS), ex("scalar replaced by zero"))
			}
			// the high nibble of the most significant byte raised from 0 to 9: value + 9*2^(8n-4), another residue
			msb := f.off
			if g.Scalar().ByteOrder() == kyber.LittleEndian {
				msb = f.off + f.n - 1
			}
			if valid[msb]&0xf0 == 0 {
				m := append([]byte(nil), valid...)
				m[msb] |= 0x90
				h.altered(valid, "high-digit-"+f.kind, fmt.Sprintf("f%d", i), m, ex("high nibble of the scalar's most significant byte set to 9"))
			}
		}
	}
	// swaps of two fields of the same kind holding different bytes
	byKind := map[string][]int{}
	for i, f := range fields {
		byKind[f.kind] = append(byKind[f.kind], i)
	}
	for _, kind := range []string{"commit", "subch", "resp"} {
		ix := byKind[kind]
		if len(ix) < 2 {
			continue
		}
		for k := 0; k < 2; k++ {
			a := ix[rng.IntN(len(ix))]
			b := ix[rng.IntN(len(ix))]
			fa, fb := fields[a], fields[b]
			if a == b || bytes.Equal(valid[fa.off:fa.off+fa.n], valid[fb.off:fb.off+fb.n]) {
				continue
			}
			if kind == "subch" && fa.or != fb.or {
				continue
			}
			m := append([]byte(nil), valid...)
			copy(m[fa.off:fa.off+fa.n], valid[fb.off:fb.off+fb.n])
			copy(m[fb.off:fb.off+fb.n], valid[fa.off:fa.off+fa.n])
			h.altered(valid, "swap-"+kind, fmt.Sprintf("f%d<->f%d", a, b), m,
				map[string]any{"mutation": fmt.Sprintf("fields at offsets %d and %d (%s) exchanged", fa.off, fb.off, kind), "valid_proof": mon.Hex(valid)})
		}
	}
	// sum-preserving rebalancing of two sub-challenges of one Or: only the per-branch equations can catch it
	if ix := byKind["subch"]; len(ix) >= 2 {
		a := ix[rng.IntN(len(ix))]
		var mates []int
		for _, b := range ix {
			if b != a && fields[b].or == fields[a].or {
				mates = append(mates, b)
			}
		}
		if len(mates) > 0 {
			b := gen.Pick(rng, mates)
			fa, fb := fields[a], fields[b]
			ca, cb := g.Scalar(), g.Scalar()
			if ca.UnmarshalBinary(valid[fa.off:fa.off+fa.n]) == nil && cb.UnmarshalBinary(valid[fb.off:fb.off+fb.n]) == nil {
				for _, d := range []kyber.Scalar{g.Scalar().One(), c14NonZeroScalar(g, rng)} {
					m := append([]byte(nil), valid...)
					copy(m[fa.off:], c14Enc(g.Scalar().Add(ca, d)))
					copy(m[fb.off:], c14Enc(g.Scalar().Sub(cb, d)))
					h.altered(valid, "rebalance-subch", fmt.Sprintf("f%d+d,f%d-d/%x", a, b, c14Enc(d)[:4]), m,
						map[string]any{"mutation": fmt.Sprintf("sub-challenge at %d increased and sub-challenge at %d decreased by %x (sum unchanged)", fa.off, fb.off, c14Enc(d)), "valid_proof": mon.Hex(valid)})
				}
			}
		}
	}
	// truncation: empty, every field boundary, inside a few fields, one byte short
	cuts := map[int]string{0: "empty", len(valid) - 1: "one-byte-short"}
	for _, f := range fields {
		if f.off > 0 {
			if _, ok := cuts[f.off]; !ok {
				cuts[f.off] = "before-" + f.kind
			}
		}
	}
	for k := 0; k < 4; k++ {
		c := rng.IntN(len(valid))
		if _, ok := cuts[c]; !ok {
			cuts[c] = "inside-field"
		}
	}
	var cutList []int
	for c := range cuts {
		cutList = append(cutList, c)
	}
	sort.Ints(cutList)
	for _, c := range cutList {
		what := cuts[c]
		h.altered(valid, "truncate-"+what, fmt.Sprintf("cut%d", c), valid[:c],
			map[string]any{"mutation": fmt.Sprintf("proof cut to its first %d of %d bytes", c, len(valid)), "valid_proof": mon.Hex(valid)})
	}
	// extension: the property does not demand rejection of trailing bytes; observed only.
	r.Guard(h.key("mutation", "extend"), h.detail(nil), func() {
		m := append(append([]byte(nil), valid...), rng.Bytes(1+rng.IntN(40))...)
		if h.verify(t.root, t.pts, h.name, m) == nil {
			r.NoteAdd(c14HP+"observed-only.extended-proof-accepted", 1)
		} else {
			r.NoteAdd(c14HP+"observed-only.extended-proof-rejected", 1)
		}
	})
}

// (4) valid proof checked against other points / another predicate / another protocol name.
func (h *c14H) cross(valid []byte) {
	g, t, rng := h.g, h.t, h.rng
	base := map[string]any{"valid_proof": mon.Hex(valid)}
	with := func(kv ...any) map[string]any {
		m := map[string]any{}
		for k, v := range base {
			m[k] = v
		}
		for i := 0; i+1 < len(kv); i += 2 {
			m[fmt.Sprint(kv[i])] = kv[i+1]
		}
		return m
	}
	// other points: one used name at a time
	names := t.root.pointNames()
	perm := rng.Perm(len(names))
	if len(perm) > 8 {
		perm = perm[:8]
	}
	for _, pi := range perm {
		nm := names[pi]
		kind := gen.Pick(rng, []string{"plus-generator", "negated", "random", "identity"})
		var np kyber.Point
		switch kind {
		case "plus-generator":
			np = g.Point().Add(t.pts[nm], g.Point().Base())
		case "negated":
			np = g.Point().Neg(t.pts[nm])
		case "identity":
			np = g.Point().Null()
		default:
			np = g.Point().Mul(c14NonZeroScalar(g, rng), nil)
		}
		if np.Equal(t.pts[nm]) {
			continue
		}
		pts := c14CopyPoints(g, t.pts)
		pts[nm] = np
		role := "base"
		if nm[0] == 'P' {
			role = "public"
		}
		h.mustReject("other-points", role+"-"+kind, nm, t.root, pts, h.name, valid, with("replaced_point", nm, "new_value", mon.Hex(c14Enc(np))))
	}
	// all points re-drawn (same shape, another instance)
	{
		pts := map[string]kyber.Point{}
		for k := range t.pts {
			pts[k] = g.Point().Mul(c14NonZeroScalar(g, rng), nil)
		}
		h.mustReject("other-points", "all-redrawn", "all", t.root, pts, h.name, valid, with("verifier_points", c14HexPoints(pts)))
	}
	// other predicate
	reps := t.root.reps()
	{ // one base name exchanged for another base with a different value
		var cands [][2]int
		for ri, rp := range reps {
			for ti := range rp.B {
				cands = append(cands, [2]int{ri, ti})
			}
		}
		c := gen.Pick(rng, cands)
		for _, nm := range names {
			if !t.pts[nm].Equal(t.pts[reps[c[0]].B[c[1]]]) {
				root := t.root.clone()
				root.reps()[c[0]].B[c[1]] = nm
				h.mustReject("other-predicate", "base-exchanged", fmt.Sprintf("rep%d.term%d->%s", c[0], c[1], nm), root, t.pts, h.name, valid, with("change", fmt.Sprintf("term %d of Rep %d uses base %s", c[1], c[0], nm)))
				break
			}
		}
	}
	if len(reps) >= 2 { // public points of two Reps exchanged
		a, b := rng.IntN(len(reps)), rng.IntN(len(reps))
		if a != b && !t.pts[reps[a].P].Equal(t.pts[reps[b].P]) {
			root := t.root.clone()
			rr := root.reps()
			rr[a].P, rr[b].P = rr[b].P, rr[a].P
			h.mustReject("other-predicate", "publics-exchanged", fmt.Sprintf("rep%d<->rep%d", a, b), root, t.pts, h.name, valid, with("change", fmt.Sprintf("public points of Rep %d and Rep %d exchanged", a, b)))
		}
	}
	{ // one term's scalar renamed to a fresh variable (sharing structure and number of responses change)
		root := t.root.clone()
		rr := root.reps()
		a := rng.IntN(len(rr))
		ti := rng.IntN(len(rr[a].S))
		rr[a].S[ti] = "fresh"
		if root.String() != t.root.String() && c14SharingChanged(t.root, root) {
			h.mustReject("other-predicate", "scalar-unshared", fmt.Sprintf("rep%d.term%d", a, ti), root, t.pts, h.name, valid, with("change", fmt.Sprintf("term %d of Rep %d uses a variable of its own", ti, a)))
		}
	}
	if t.root.kind == c14Or && len(t.root.sub) >= 2 { // a branch dropped / duplicated
		root := t.root.clone()
		k := rng.IntN(len(root.sub))
		root.sub = append(root.sub[:k:k], root.sub[k+1:]...)
		h.mustReject("other-predicate", "branch-dropped", fmt.Sprintf("b%d", k), root, t.pts, h.name, valid, with("change", fmt.Sprintf("Or branch %d removed", k)))
	}
	{
		root := t.root.clone()
		if root.kind != c14Or {
			root = &c14Node{kind: c14Or, sub: []*c14Node{root}}
		}
		root.sub = append(root.sub, root.sub[rng.IntN(len(root.sub))].clone())
		h.mustReject("other-predicate", "branch-added", "dup", root, t.pts, h.name, valid, with("change", "an Or branch appended"))
	}
	for _, s := range t.scopes { // a Rep dropped from an And
		if s.kind == c14And && len(s.sub) >= 2 {
			root := t.root.clone()
			for _, s2 := range root.scopes() {
				if s2.String() == s.String() {
					k := rng.IntN(len(s2.sub))
					s2.sub = append(s2.sub[:k:k], s2.sub[k+1:]...)
					break
				}
			}
			if root.String() != t.root.String() {
				h.mustReject("other-predicate", "and-term-dropped", s.String(), root, t.pts, h.name, valid, with("change", "one And term removed"))
			}
			break
		}
	}
	// other protocol name (judged only if the verification equations involve the challenge at all)
	if !c14ChallengeMatters(g, t.root, t.pts) {
		h.r.NoteAdd(c14HP+"other-name.skipped-challenge-free-statement", 1)
		return
	}
	for _, nm := range []string{h.name + "x", "other", h.name + "\x00"} {
		if nm == h.name {
			continue
		}
		h.mustReject("other-name", "name-changed", fmt.Sprintf("%q", nm), t.root, t.pts, nm, valid, with("verifier_protocol_name", nm))
	}
	if h.name != "" {
		h.mustReject("other-name", "name-empty", "empty", t.root, t.pts, "", valid, with("verifier_protocol_name", ""))
		h.mustReject("other-name", "name-prefix", "prefix", t.root, t.pts, h.name[:len(h.name)-1], valid, with("verifier_protocol_name", h.name[:len(h.name)-1]))
	}
}

// c14SharingChanged reports whether the number of responses per scope differs (so the transcripts cannot coincide).
func c14SharingChanged(a, b *c14Node) bool {
	sa, sb := a.scopes(), b.scopes()
	oa, ob := a.scalarOrder(), b.scalarOrder()
	for i := range sa {
		if len(sa[i].scalarNames(oa)) != len(sb[i].scalarNames(ob)) {
			return true
		}
	}
	return false
}

// (5) cheating provers that know no witness.
func (h *c14H) forge(valid []byte) {
	r, g, t, rng := h.r, h.g, h.t, h.rng
	// a statement of the same shape no branch of which the prover can satisfy
	pts := c14CopyPoints(g, t.pts)
	for _, rp := range t.root.reps() {
		pts[rp.P] = g.Point().Mul(c14NonZeroScalar(g, rng), nil)
	}
	for _, s := range t.scopes {
		if c14Eval(g, s, t.sec, pts) {
			r.NoteAdd(c14HP+"forge.skipped-statement-accidentally-true", 1)
			return
		}
	}
	ex := map[string]any{"forger_points": c14HexPoints(pts), "note": "no branch is satisfied by the harness's secrets; the transcript is built by simulation"}
	hasOr := t.root.kind == c14Or && len(t.root.sub) > 1
	guess := c14RandScalar(g, rng)
	h.mustReject("forge", "simulate-all/guessed-challenge", "guess", t.root, pts, h.name, c14Forge(g, t.root, pts, guess, true, rng), ex)
	if hasOr {
		h.mustReject("forge", "simulate-all/free-subchallenges", "free", t.root, pts, h.name, c14Forge(g, t.root, pts, guess, false, rng), ex)
	}
	// challenge transplanted from the valid proof (same predicate, same protocol name, same transcript length):
	// succeeds iff the challenge does not depend on the commitments.
	fields, total := c14Layout(t.root, g.PointLen(), g.ScalarLen())
	if hasOr && total == len(valid) {
		c := g.Scalar().Zero()
		ok := true
		for _, f := range fields {
			if f.kind == "subch" && f.or == t.root {
				ci := g.Scalar()
				if ci.UnmarshalBinary(valid[f.off:f.off+f.n]) != nil {
					ok = false
				}
				c = g.Scalar().Add(c, ci)
			}
		}
		if ok {
			ex2 := map[string]any{"forger_points": ex["forger_points"], "valid_proof_of_other_statement": mon.Hex(valid), "transplanted_challenge": mon.Hex(c14Enc(c))}
			h.mustReject("forge", "simulate-all/transplanted-challenge", "transplant", t.root, pts, h.name, c14Forge(g, t.root, pts, c, true, rng), ex2)
			// sanity of the forger itself: with the challenge of the valid proof and the valid proof's own commitments replaced, the
			// simulated transcript for the TRUE statement must also be rejected (its commitments differ), nothing to learn; skipped.
		}
	}
}

// c14CrossGroup: predicates only name their variables, so ONE predicate object may be used with suites over different
// groups, one after the other (documented: immutable, safe to reuse for any number of proofs). Every shape is proved and
// verified over every group in two orders with the same object.
func c14CrossGroup(r *mon.R, envs []*c14Env) {
	type shape struct {
		name   string
		mk     func() (proof.Predicate, proof.Predicate) // predicate, the Or inside it (nil if none)
		choice int
	}
	s2 := func() proof.Predicate { return proof.And(proof.Rep("X", "x", "B"), proof.Rep("Y", "x", "H")) }
	shapes := []shape{
		{"X=xB", func() (proof.Predicate, proof.Predicate) { return proof.Rep("X", "x", "B"), nil }, 0},
		{"X=xB+yH", func() (proof.Predicate, proof.Predicate) { return proof.Rep("X2", "x", "B", "y", "H"), nil }, 0},
		{"X=xB&&Y=xH", func() (proof.Predicate, proof.Predicate) { return s2(), nil }, 0},
		{"(X=xB&&Y=xH)||Z=zB/0", func() (proof.Predicate, proof.Predicate) { o := proof.Or(s2(), proof.Rep("Z", "z", "B")); return o, o }, 0},
		{"(X=xB&&Y=xH)||Z=zB/1", func() (proof.Predicate, proof.Predicate) { o := proof.Or(s2(), proof.Rep("Z", "z", "B")); return o, o }, 1},
	}
	for si, sh := range shapes {
		for ord := 0; ord < 2; ord++ {
			pred, or := sh.mk()
			var names []string
			for k := range envs {
				e := envs[(k*(1+ord)+ord)%len(envs)]
				if ord == 1 {
					e = envs[len(envs)-1-k]
				}
				names = append(names, e.name)
				rng := gen.New(r.Seed, "C14cross/"+e.name, si*2+ord)
				suite := e.mk(rng.Stream())
				var g kyber.Group = suite
				x, y, z := g.Scalar().Pick(rng.Stream()), g.Scalar().Pick(rng.Stream()), g.Scalar().Pick(rng.Stream())
				B, H := g.Point().Base(), g.Point().Pick(rng.Stream())
				pts := map[string]kyber.Point{"B": B, "H": H, "X": g.Point().Mul(x, B), "Y": g.Point().Mul(x, H), "Z": g.Point().Mul(z, B),
					"X2": g.Point().Add(g.Point().Mul(x, B), g.Point().Mul(y, H))}
				sec := map[string]kyber.Scalar{"x": x, "y": y, "z": z}
				if or != nil && sh.choice == 1 { // the first branch is false and its secret unknown
					pts["X"], pts["Y"] = g.Point().Pick(rng.Stream()), g.Point().Pick(rng.Stream())
					delete(sec, "x")
				}
				var ch map[proof.Predicate]int
				if or != nil {
					ch = map[proof.Predicate]int{or: sh.choice}
				}
				id := fmt.Sprintf("%s|%s|order%d|use%d", sh.name, e.name, ord, k)
				det := map[string]any{"predicate": sh.name, "group": e.name, "groups_used_so_far_with_this_object": append([]string(nil), names...)}
				r.Guard("C14/"+e.name+"/hash/complete/same-predicate-object-over-several-groups", det, func() {
					prf, err := proof.HashProve(suite, "C14 cross", pred.Prover(suite, sec, pts, ch))
					var verr error
					if err == nil {
						verr = proof.HashVerify(suite, "C14 cross", pred.Verifier(suite, pts), prf)
					}
					r.Eval("hash/complete/same-predicate-object-over-several-groups", id, true)
					if err != nil || verr != nil {
						det["prove_error"], det["verify_error"] = fmt.Sprint(err), fmt.Sprint(verr)
						r.Violation("C14/"+e.name+"/hash/complete/same-predicate-object-over-several-groups/rejected", "a predicate object that was used over another group before does not prove/verify a true statement", det)
					}
				})
			}
		}
	}
}
