package main

// C12 — threshold Schnorr (DSS): any t or more valid partial signatures,
// collected at any participant in any order, combine into ONE standard
// signature; invalid / forged / cross-session / duplicate / out-of-range
// partials are rejected and never contribute; nothing is produced below t.
//
// The monitor runs real DKGs (Pedersen and Rabin, all four pairings of them as
// long-term / one-time key), lets every participant issue its partial, and then
// replays *histories* of deliveries (honest partials, the combiner's own
// PartialSig() call, injected bad partials) against fresh DSS objects of every
// participant. After every event the oracle compares what the code says
// (ProcessPartialSig error, EnoughPartialSig, Signature bytes/error) with a
// ground-truth ledger (set of signer indices whose valid partial was really
// delivered) and with the unique signature R || r+H(R,A,m)a computed in
// math/big from the group secrets.

import (
	"bytes"
	"crypto/ed25519"
	"fmt"
	"math/big"
	"sort"
	"strings"
	"sync/atomic"

	"go.dedis.ch/kyber/v4"
	"go.dedis.ch/kyber/v4/group/edwards25519"
	"go.dedis.ch/kyber/v4/share"
	"go.dedis.ch/kyber/v4/sign/dss"
	"go.dedis.ch/kyber/v4/sign/eddsa"
	"go.dedis.ch/kyber/v4/sign/schnorr"

	"verif/internal/gen"
	"verif/internal/mon"
)

func init() { register("C12", c12) }

var c12Sessions atomic.Int64

// c12Suite is used by the oracle for decoding, hashing and verifying only (it never draws randomness).
var c12Suite = edwards25519.NewBlakeSHA256Ed25519()

// c12Share is a harness-side dss.DistKeyShare (deep copies, crafted sessions).
type c12Share struct {
	commits []kyber.Point
	sh      *share.PriShare
}

func (s *c12Share) PriShare() *share.PriShare  { return s.sh }
func (s *c12Share) Commitments() []kyber.Point { return s.commits }

func c12Enc(m kyber.Marshaling) []byte {
	b, err := m.MarshalBinary()
	if err != nil {
		panic("harness: MarshalBinary: " + err.Error())
	}
	return append([]byte(nil), b...)
}

func c12CopyPoint(p kyber.Point) kyber.Point {
	q := c12Suite.Point()
	if err := q.UnmarshalBinary(c12Enc(p)); err != nil {
		panic("harness: point copy: " + err.Error())
	}
	return q
}

func c12ScalarFromBytes(b []byte) kyber.Scalar {
	s := c12Suite.Scalar()
	if err := s.UnmarshalBinary(b); err != nil {
		panic("harness: scalar decode: " + err.Error())
	}
	return s
}

func c12CopyScalar(s kyber.Scalar) kyber.Scalar { return c12ScalarFromBytes(c12Enc(s)) }
func c12ScalarOf(x *big.Int) kyber.Scalar {
	return c12ScalarFromBytes(c12ToLE32(new(big.Int).Mod(x, c12L)))
}
func c12Big(s kyber.Scalar) *big.Int { return c12FromLE(c12Enc(s)) }

func c12CopyPoints(ps []kyber.Point) []kyber.Point {
	out := make([]kyber.Point, len(ps))
	for i, p := range ps {
		out[i] = c12CopyPoint(p)
	}
	return out
}

func c12CopyShare(d dss.DistKeyShare) *c12Share {
	p := d.PriShare()
	return &c12Share{commits: c12CopyPoints(d.Commitments()), sh: &share.PriShare{I: p.I, V: c12CopyScalar(p.V)}}
}

func c12CopyPS(ps *dss.PartialSig) *dss.PartialSig {
	return &dss.PartialSig{
		Partial:   &share.PriShare{I: ps.Partial.I, V: c12CopyScalar(ps.Partial.V)},
		SessionID: append([]byte(nil), ps.SessionID...),
		Signature: append([]byte(nil), ps.Signature...),
	}
}

func c12PSHex(ps *dss.PartialSig) map[string]any {
	m := map[string]any{"session_id": mon.Hex(ps.SessionID), "signature": mon.Hex(ps.Signature)}
	if ps.Partial != nil {
		m["index"] = ps.Partial.I
		if ps.Partial.V != nil {
			m["value"] = mon.Hex(c12Enc(ps.Partial.V))
		}
	}
	return m
}

// ---------------------------------------------------------------------------
// environment of one job: one group of participants, one (n,t), one pair of DKG kinds

type c12Env struct {
	r      *mon.R
	id     string // job id (part of every descriptor and witness)
	n, t   int
	lk, rk string // DKG kind of the long-term / one-time key
	nodes  *c12Nodes
	rng    *gen.Rng
	badCtr int // rotates the injected classes
	hctr   int // history counter
}

func (e *c12Env) base() map[string]any {
	return map[string]any{"seed": e.r.Seed, "job": e.id, "n": e.n, "t": e.t, "long_dkg": e.lk, "onetime_dkg": e.rk}
}

// c12Sess is one signing session (long-term key, one-time key, message) with its reference values.
type c12Sess struct {
	name      string
	long, rnd []dss.DistKeyShare
	msg       []byte
	R, A      []byte
	h         *big.Int
	partRef   []*big.Int
	sigRef    []byte
	ps        []*dss.PartialSig // honest partials as issued by the signers
	sid       []byte
	sigsSeen  map[string]int
	combiners int
}

// c12GroupSecret recovers the secret shared by ks from the shares the harness
// holds, checking that the nodes agree on the commitments and that the shares
// lie on one polynomial of degree t-1 (two different t-subsets give the same value).
func c12GroupSecret(ks []dss.DistKeyShare, t int) (sec *big.Int, shares []*big.Int, pub []byte, err error) {
	n := len(ks)
	var c0 []byte
	for i, k := range ks {
		sh := k.PriShare()
		if sh == nil || sh.V == nil {
			return nil, nil, nil, fmt.Errorf("node %d has no share", i)
		}
		if int(sh.I) != i {
			return nil, nil, nil, fmt.Errorf("node %d holds the share of index %d", i, sh.I)
		}
		cs := k.Commitments()
		if len(cs) != t {
			return nil, nil, nil, fmt.Errorf("node %d: %d commitments for t=%d", i, len(cs), t)
		}
		var all []byte
		for _, c := range cs {
			all = append(all, c12Enc(c)...)
		}
		if i == 0 {
			c0 = all
			pub = c12Enc(cs[0])
		} else if !bytes.Equal(all, c0) {
			return nil, nil, nil, fmt.Errorf("node %d disagrees with node 0 on the commitments", i)
		}
		shares = append(shares, c12Big(sh.V))
	}
	idx := make([]int, t)
	for i := range idx {
		idx[i] = i
	}
	sec = c12Lagrange0(idx, shares[:t], c12L)
	for i := range idx {
		idx[i] = n - t + i
	}
	if s2 := c12Lagrange0(idx, shares[n-t:], c12L); s2.Cmp(sec) != 0 {
		return nil, nil, nil, fmt.Errorf("shares are not on one polynomial of degree t-1")
	}
	if !bytes.Equal(c12Enc(c12Suite.Point().Mul(c12ScalarOf(sec), nil)), pub) {
		return nil, nil, nil, fmt.Errorf("recovered secret does not match the public commitment")
	}
	return sec, shares, pub, nil
}

// newDSS builds a DSS object of participant i on per-object copies of the public data.
func (e *c12Env) newDSS(i int, long, rnd dss.DistKeyShare, msg []byte) (*dss.DSS, error) {
	return dss.NewDSS(e.nodes.suites[i], e.nodes.privs[i], c12CopyPoints(e.nodes.pubs), long, rnd,
		append([]byte(nil), msg...), uint32(e.t))
}

// buildSess computes the reference values of a session and lets every
// participant issue its partial. judged: the issued partials are oracle
// judgements (main session) and not only material for injections.
func (e *c12Env) buildSess(name string, long, rnd []dss.DistKeyShare, msg []byte, judged bool) (*c12Sess, error) {
	s := &c12Sess{name: name, long: long, rnd: rnd, msg: msg, sigsSeen: map[string]int{}}
	a, alpha, A, err := c12GroupSecret(long, e.t)
	if err != nil {
		return nil, fmt.Errorf("long-term key: %w", err)
	}
	k, beta, R, err := c12GroupSecret(rnd, e.t)
	if err != nil {
		return nil, fmt.Errorf("one-time key: %w", err)
	}
	s.R, s.A = R, A
	s.h = c12Challenge(R, A, msg)
	s.sigRef = append(append([]byte(nil), R...), c12ToLE32(c12MulAdd(k, s.h, a))...)
	if !ed25519.Verify(ed25519.PublicKey(A), msg, s.sigRef) {
		return nil, fmt.Errorf("reference signature of the group secrets is not accepted by crypto/ed25519")
	}
	for i := 0; i < e.n; i++ {
		s.partRef = append(s.partRef, c12MulAdd(beta[i], s.h, alpha[i]))
	}
	for i := 0; i < e.n; i++ {
		var d *dss.DSS
		var ps *dss.PartialSig
		var err1, err2 error
		if p, bad := mon.Try(func() {
			d, err1 = e.newDSS(i, long[i], rnd[i], msg)
			if err1 == nil {
				ps, err2 = d.PartialSig()
			}
		}); bad {
			if judged {
				e.violation("C12/dss/PartialSig/signer/panic", "NewDSS/PartialSig panics for an honest participant", map[string]any{"signer": i, "panic": p, "msg": mon.Hex(msg)})
			}
			return nil, fmt.Errorf("signer %d panicked: %s", i, p)
		}
		if judged {
			e.r.Op("dss.NewDSS", "dss.(*DSS).PartialSig")
			e.r.Eval("signer/partial-issued", fmt.Sprintf("%s|%s|signer=%d", e.id, name, i), true)
		}
		if err1 != nil || err2 != nil {
			if judged {
				e.violation("C12/dss/PartialSig/signer/error", "an honest participant cannot issue its partial signature",
					map[string]any{"signer": i, "NewDSS": fmt.Sprint(err1), "PartialSig": fmt.Sprint(err2), "msg": mon.Hex(msg)})
			}
			return nil, fmt.Errorf("signer %d: NewDSS=%v PartialSig=%v", i, err1, err2)
		}
		if judged {
			e.judgeIssued("signer", i, s, ps, nil)
		}
		s.ps = append(s.ps, c12CopyPS(ps))
		if i == 0 {
			s.sid = append([]byte(nil), ps.SessionID...)
		}
	}
	return s, nil
}

// judgeIssued checks a partial returned by PartialSig() of participant i.
func (e *c12Env) judgeIssued(where string, i int, s *c12Sess, ps *dss.PartialSig, log []string) bool {
	ok := true
	det := func(extra map[string]any) map[string]any {
		d := map[string]any{"participant": i, "session": s.name, "msg": mon.Hex(s.msg), "partial": c12PSHex(ps), "history": log}
		for k, v := range extra {
			d[k] = v
		}
		return d
	}
	if ps == nil || ps.Partial == nil || ps.Partial.V == nil {
		e.violation("C12/dss/PartialSig/"+where+"/incomplete", "PartialSig returned an incomplete partial signature", map[string]any{"participant": i})
		return false
	}
	if int(ps.Partial.I) != i {
		e.violation("C12/dss/PartialSig/"+where+"/wrong-index", "issued partial carries another index than the participant's", det(nil))
		ok = false
	}
	if got := c12Big(ps.Partial.V); got.Cmp(s.partRef[i]) != 0 {
		e.violation("C12/dss/PartialSig/"+where+"/wrong-value", "issued partial is not beta_i + H(R,A,m)*alpha_i",
			det(map[string]any{"want": mon.Hex(c12ToLE32(s.partRef[i]))}))
		ok = false
	}
	if s.sid != nil && !bytes.Equal(ps.SessionID, s.sid) {
		e.violation("C12/dss/PartialSig/"+where+"/session-id-differs", "participants of one session derive different session ids", det(map[string]any{"want": mon.Hex(s.sid)}))
		ok = false
	}
	if err := schnorr.Verify(c12Suite, c12CopyPoint(e.nodes.pubs[i]), ps.Hash(c12Suite), ps.Signature); err != nil {
		e.violation("C12/dss/PartialSig/"+where+"/bad-authentication", "issued partial is not authenticated by the signer's long-term key", det(map[string]any{"error": err.Error()}))
		ok = false
	}
	return ok
}

func (e *c12Env) violation(key, what string, detail map[string]any) {
	d := e.base()
	for k, v := range detail {
		d[k] = v
	}
	e.r.Violation(key, what, d)
}

func (e *c12Env) resign(signer int, ps *dss.PartialSig) {
	sig, err := schnorr.Sign(e.nodes.suites[signer], e.nodes.privs[signer], ps.Hash(c12Suite))
	if err != nil {
		panic("harness: schnorr.Sign: " + err.Error())
	}
	ps.Signature = sig
}

// ---------------------------------------------------------------------------
// one history at one combiner

type c12Hist struct {
	e       *c12Env
	s       *c12Sess
	cx      *c12Ctx
	fam     string // family (part of class names)
	ctx     string // optional suffix of violation keys (families whose alarms must not be confused with the others)
	id      string
	c       int
	d       *dss.DSS
	acc     map[int]bool // ledger: indices whose valid partial was really delivered / issued
	signed  bool
	log     []string
	step    int
	dead    bool
	reached bool
}

func (e *c12Env) newHist(cx *c12Ctx, fam, spec string, c int) *c12Hist {
	e.hctr++
	h := &c12Hist{e: e, s: cx.main, cx: cx, fam: fam, c: c, acc: map[int]bool{},
		id: fmt.Sprintf("%s|%s|%s|c=%d|%s", e.id, cx.main.name, fam, c, spec)}
	var err error
	p, bad := mon.Try(func() {
		d, er := e.newDSS(c, c12CopyShare(cx.main.long[c]), c12CopyShare(cx.main.rnd[c]), cx.main.msg)
		h.d, err = d, er
	})
	if bad || err != nil {
		h.viol("C12/dss/NewDSS/combiner-not-created", "NewDSS fails for a participant of the group", map[string]any{"panic": p, "error": fmt.Sprint(err)})
		return h
	}
	cx.main.combiners++
	h.state(false)
	return h
}

func (h *c12Hist) viol(key, what string, detail map[string]any) {
	d := map[string]any{"combiner": h.c, "history_id": h.id, "history": append([]string(nil), h.log...),
		"msg": mon.Hex(h.s.msg), "ledger": h.ledger(), "reference_signature": mon.Hex(h.s.sigRef)}
	for k, v := range detail {
		d[k] = v
	}
	if h.ctx != "" {
		key += "/" + h.ctx
	}
	h.e.violation(key, what, d)
	h.dead = true
}

func (h *c12Hist) ledger() []int {
	var l []int
	for i := range h.acc {
		l = append(l, i)
	}
	sort.Ints(l)
	return l
}

func (h *c12Hist) desc() string { h.step++; return fmt.Sprintf("%s#%d", h.id, h.step) }

// verifiers runs the four verifiers on sig; returns the names of those that reject.
func (h *c12Hist) verifiers(sig []byte) []string {
	var rej []string
	s := h.s
	pub := c12Suite.Point()
	if err := pub.UnmarshalBinary(s.A); err != nil {
		return []string{"harness: public key does not decode: " + err.Error()}
	}
	if err := eddsa.Verify(pub, s.msg, sig); err != nil {
		rej = append(rej, "eddsa.Verify: "+err.Error())
	}
	if err := schnorr.Verify(c12Suite, pub, s.msg, sig); err != nil {
		rej = append(rej, "schnorr.Verify: "+err.Error())
	}
	if err := dss.Verify(pub, s.msg, sig); err != nil {
		rej = append(rej, "dss.Verify: "+err.Error())
	}
	if len(sig) != ed25519.SignatureSize || !ed25519.Verify(ed25519.PublicKey(s.A), s.msg, sig) {
		rej = append(rej, "crypto/ed25519.Verify: false")
	}
	h.e.r.Op("eddsa.Verify", "schnorr.Verify", "dss.Verify", "crypto/ed25519.Verify")
	return rej
}

// state compares EnoughPartialSig / Signature with the ledger and the reference signature.
func (h *c12Hist) state(final bool) {
	if h.dead {
		return
	}
	r := h.e.r
	want := len(h.acc) >= h.e.t
	var enough bool
	var sig []byte
	var err error
	if p, bad := mon.Try(func() { enough = h.d.EnoughPartialSig(); sig, err = h.d.Signature() }); bad {
		h.viol("C12/dss/Signature/panic", "EnoughPartialSig/Signature panics", map[string]any{"panic": p})
		return
	}
	r.Op("dss.(*DSS).EnoughPartialSig", "dss.(*DSS).Signature")
	class := "/state/below-t"
	if want {
		class = "/state/at-least-t"
	}
	r.Eval(h.fam+class, h.desc(), len(h.log) > 0)
	if enough != want {
		if enough {
			h.viol("C12/dss/EnoughPartialSig/true-with-fewer-than-t-valid-partials", "EnoughPartialSig is true although fewer than t distinct valid partials were delivered",
				map[string]any{"Signature_error": fmt.Sprint(err), "Signature": mon.Hex(sig)})
		} else {
			h.viol("C12/dss/EnoughPartialSig/false-with-t-valid-partials", "EnoughPartialSig is false although t distinct valid partials were delivered", nil)
		}
		return
	}
	if !want {
		if err == nil {
			h.viol("C12/dss/Signature/produced-from-fewer-than-t-partials", "Signature() returns a signature although fewer than t distinct valid partials were delivered",
				map[string]any{"signature": mon.Hex(sig), "rejected_by": h.verifiers(sig)})
		}
		return
	}
	if err != nil {
		h.viol("C12/dss/Signature/error-with-t-valid-partials", "Signature() fails although t distinct valid partials were accepted", map[string]any{"error": err.Error()})
		return
	}
	h.s.sigsSeen[string(sig)]++
	if !bytes.Equal(sig, h.s.sigRef) {
		h.viol("C12/dss/Signature/differs-from-reference", "combined signature is not R || r+H(R,A,m)a of the distributed keys",
			map[string]any{"signature": mon.Hex(sig), "rejected_by": h.verifiers(sig)})
		return
	}
	if final || !h.reached {
		h.reached = true
		r.Eval(h.fam+"/signature/four-verifiers", h.desc(), true)
		if rej := h.verifiers(sig); len(rej) > 0 {
			h.viol("C12/dss/Signature/rejected-by-verifier", "combined signature is rejected by a standard verifier", map[string]any{"signature": mon.Hex(sig), "rejected_by": rej})
		}
	}
}

// honest delivers the valid partial of participant i (not yet in the ledger): must be accepted.
func (h *c12Hist) honest(i int) {
	if h.dead {
		return
	}
	ps := c12CopyPS(h.s.ps[i])
	var err error
	h.log = append(h.log, fmt.Sprintf("ProcessPartialSig(valid partial of %d)", i))
	if p, bad := mon.Try(func() { err = h.d.ProcessPartialSig(ps) }); bad {
		h.viol("C12/dss/ProcessPartialSig/valid-partial/panic", "ProcessPartialSig panics on a valid partial", map[string]any{"panic": p, "partial": c12PSHex(ps)})
		return
	}
	h.e.r.Op("dss.(*DSS).ProcessPartialSig")
	cl := "/valid-partial/from-other"
	if i == h.c {
		cl = "/valid-partial/own-index-from-network"
	}
	h.e.r.Eval(h.fam+cl, h.desc(), true)
	h.log[len(h.log)-1] += fmt.Sprintf(" -> %v", err)
	if err != nil {
		h.viol("C12/dss/ProcessPartialSig/valid-partial-rejected", "a valid partial signature of a participant not yet heard is rejected", map[string]any{"error": err.Error(), "partial": c12PSHex(ps), "sender": i})
		return
	}
	h.acc[i] = true
	h.state(false)
}

// sign lets the combiner issue its own partial through PartialSig().
func (h *c12Hist) sign() {
	if h.dead {
		return
	}
	var ps *dss.PartialSig
	var err error
	h.log = append(h.log, "PartialSig()")
	if p, bad := mon.Try(func() { ps, err = h.d.PartialSig() }); bad {
		h.viol("C12/dss/PartialSig/combiner/panic", "PartialSig panics", map[string]any{"panic": p})
		return
	}
	cl := "/own/PartialSig"
	if h.signed {
		cl = "/own/PartialSig-again"
	} else if h.acc[h.c] {
		cl = "/own/PartialSig-after-own-partial-from-network"
	}
	h.e.r.Eval(h.fam+cl, h.desc(), true)
	h.log[len(h.log)-1] += fmt.Sprintf(" -> %v", err)
	if err != nil {
		h.viol("C12/dss/PartialSig/combiner/error", "PartialSig fails at an honest participant", map[string]any{"error": err.Error()})
		return
	}
	if !h.e.judgeIssued("combiner", h.c, h.s, ps, h.log) {
		h.dead = true
		return
	}
	h.signed = true
	h.acc[h.c] = true
	h.state(false)
}

// bad delivers a partial that must be rejected and must leave the state unchanged.
func (h *c12Hist) bad(class string, ps *dss.PartialSig, note string) {
	if h.dead {
		return
	}
	var err error
	h.log = append(h.log, fmt.Sprintf("ProcessPartialSig(%s: %s)", class, note))
	p, panicked := mon.Try(func() { err = h.d.ProcessPartialSig(ps) })
	h.e.r.Op("dss.(*DSS).ProcessPartialSig")
	h.e.r.Eval(h.fam+"/inject/"+class, h.desc(), true)
	h.e.r.SampleClass("C12/"+class, map[string]any{"class": class, "note": note, "n": h.e.n, "t": h.e.t, "combiner": h.c,
		"partial": c12PSHex(ps), "result": fmt.Sprint(err), "panic": p, "history": append([]string(nil), h.log...)})
	if panicked {
		h.viol("C12/dss/ProcessPartialSig/"+class+"/panic", "ProcessPartialSig panics on an invalid partial signature instead of rejecting it", map[string]any{"panic": p, "partial": c12PSHex(ps), "note": note})
		// a panic is not an acceptance: the history goes on and the state is judged against the unchanged ledger
		h.dead = false
		h.log[len(h.log)-1] += " -> panic"
		h.state(false)
		return
	}
	h.log[len(h.log)-1] += fmt.Sprintf(" -> %v", err)
	h.e.r.NoteAdd("rejections_observed", 1)
	if err == nil {
		h.viol("C12/dss/ProcessPartialSig/accepted/"+class, "an invalid partial signature ("+class+") is accepted", map[string]any{"partial": c12PSHex(ps), "note": note})
		return
	}
	h.state(false)
}

// ---------------------------------------------------------------------------
// injected partials

// c12Ctx holds the sessions a message is signed in and the foreign sessions used for injections.
type c12Ctx struct {
	e         *c12Env
	main      *c12Sess
	otherMsg  *c12Sess // same keys, other message
	otherRnd  *c12Sess // same long-term key, another one-time key, same message
	otherLong *c12Sess // another long-term key, same one-time key, same message
	crafted   map[int]*dss.PartialSig
}

var c12Classes = []string{
	"wrong-value/plus-one-resigned",
	"wrong-value/zero-resigned",
	"wrong-value/random-resigned",
	"wrong-value/value-of-another-signer-resigned",
	"wrong-value/plus-one-original-signature",
	"forged/signature-bit-flipped",
	"forged/signed-by-another-participant",
	"forged/signed-by-outsider",
	"forged/signature-length",
	"forged/signature-of-another-partial",
	"cross-session/other-message",
	"cross-session/other-one-time-key",
	"cross-session/other-long-term-key",
	"cross-session/foreign-session-id-resigned",
	"cross-session/same-share-other-polynomial",
	"cross-session/session-id-bit-flipped",
	"cross-session/session-id-empty-resigned",
	"out-of-range-index/original-signature",
	"out-of-range-index/resigned",
	"index-of-another-signer/original-signature",
	"index-of-another-signer/resigned-by-sender",
	"index-of-another-signer/resigned-by-claimed-signer",
	"duplicate/exact-copy",
	"duplicate/fresh-signature",
	"duplicate/own-partial-after-PartialSig",
	"malformed/nil-value",
	"malformed/nil-partial",
}

// craft builds the partial of signer i in a session whose one-time polynomial
// differs from the real one but has the same constant term and the same value
// at i+1 (so the partial VALUE is identical; only the session differs). t >= 3.
func (cx *c12Ctx) craft(i int) *dss.PartialSig {
	if ps, ok := cx.crafted[i]; ok {
		return ps
	}
	e := cx.e
	cx.crafted[i] = nil
	if e.t < 3 {
		return nil
	}
	c := new(big.Int).Add(e.rng.Big(new(big.Int).Sub(c12L, big.NewInt(1))), big.NewInt(1))
	orig := cx.main.rnd[i]
	commits := c12CopyPoints(orig.Commitments())
	// delta(x) = c*x*(x-(i+1)) = c*x^2 - c*(i+1)*x
	d1 := new(big.Int).Mul(c, big.NewInt(int64(i+1)))
	d1.Neg(d1)
	commits[1] = c12Suite.Point().Add(commits[1], c12Suite.Point().Mul(c12ScalarOf(d1), nil))
	commits[2] = c12Suite.Point().Add(commits[2], c12Suite.Point().Mul(c12ScalarOf(c), nil))
	fake := &c12Share{commits: commits, sh: &share.PriShare{I: uint32(i), V: c12CopyScalar(orig.PriShare().V)}}
	d, err := e.newDSS(i, c12CopyShare(cx.main.long[i]), fake, cx.main.msg)
	if err != nil {
		return nil
	}
	ps, err := d.PartialSig()
	if err != nil || ps == nil || ps.Partial == nil || c12Big(ps.Partial.V).Cmp(cx.main.partRef[i]) != 0 || bytes.Equal(ps.SessionID, cx.main.sid) {
		return nil
	}
	cx.crafted[i] = c12CopyPS(ps)
	return cx.crafted[i]
}

// make builds an injected partial of the class, nominally sent by participant i.
// ok=false: the class is not applicable in the current state of the history.
func (cx *c12Ctx) make(class string, i int, h *c12Hist) (ps *dss.PartialSig, note string, ok bool) {
	e := cx.e
	n := e.n
	rng := e.rng
	other := func() int { // another participant than i
		j := rng.IntN(n - 1)
		if j >= i {
			j++
		}
		return j
	}
	ps = c12CopyPS(cx.main.ps[i])
	addV := func(x *big.Int) { ps.Partial.V = c12ScalarOf(new(big.Int).Add(c12Big(ps.Partial.V), x)) }
	state := "sender not yet heard"
	if h.acc[i] {
		state = "sender already accepted"
	}
	note = fmt.Sprintf("sender %d (%s)", i, state)
	switch class {
	case "wrong-value/plus-one-resigned":
		addV(big.NewInt(1))
		e.resign(i, ps)
	case "wrong-value/zero-resigned":
		ps.Partial.V = c12Suite.Scalar().Zero()
		e.resign(i, ps)
	case "wrong-value/random-resigned":
		ps.Partial.V = c12ScalarOf(rng.Big(c12L))
		e.resign(i, ps)
	case "wrong-value/value-of-another-signer-resigned":
		j := other()
		ps.Partial.V = c12CopyScalar(cx.main.ps[j].Partial.V)
		e.resign(i, ps)
		note += fmt.Sprintf(", value of %d", j)
	case "wrong-value/plus-one-original-signature":
		addV(big.NewInt(1))
	case "forged/signature-bit-flipped":
		b := rng.IntN(len(ps.Signature) * 8)
		ps.Signature = gen.FlipBit(ps.Signature, b)
		note += fmt.Sprintf(", bit %d", b)
	case "forged/signed-by-another-participant":
		j := other()
		e.resign(j, ps)
		note += fmt.Sprintf(", signed with the key of %d", j)
	case "forged/signed-by-outsider":
		x := c12Suite.Scalar().Pick(rng.Stream())
		sig, err := schnorr.Sign(e.nodes.suites[i], x, ps.Hash(c12Suite))
		if err != nil {
			panic("harness: schnorr.Sign: " + err.Error())
		}
		ps.Signature = sig
	case "forged/signature-length":
		switch rng.IntN(4) {
		case 0:
			ps.Signature = nil
			note += ", empty"
		case 1:
			ps.Signature = ps.Signature[:len(ps.Signature)-1]
			note += ", one byte short"
		case 2:
			ps.Signature = append(ps.Signature, 0)
			note += ", one byte long"
		default:
			ps.Signature = ps.Signature[:32]
			note += ", R only"
		}
	case "forged/signature-of-another-partial":
		j := other()
		ps.Signature = append([]byte(nil), cx.main.ps[j].Signature...)
		note += fmt.Sprintf(", signature taken from the partial of %d", j)
	case "cross-session/other-message":
		ps = c12CopyPS(cx.otherMsg.ps[i])
	case "cross-session/other-one-time-key":
		ps = c12CopyPS(cx.otherRnd.ps[i])
	case "cross-session/other-long-term-key":
		ps = c12CopyPS(cx.otherLong.ps[i])
	case "cross-session/foreign-session-id-resigned":
		ps.SessionID = append([]byte(nil), cx.otherRnd.sid...)
		e.resign(i, ps)
	case "cross-session/same-share-other-polynomial":
		c := cx.craft(i)
		if c == nil {
			return nil, "", false
		}
		ps = c12CopyPS(c)
	case "cross-session/session-id-bit-flipped":
		if len(ps.SessionID) == 0 {
			return nil, "", false
		}
		b := rng.IntN(len(ps.SessionID) * 8)
		ps.SessionID = gen.FlipBit(ps.SessionID, b)
		note += fmt.Sprintf(", bit %d", b)
	case "cross-session/session-id-empty-resigned":
		ps.SessionID = nil
		e.resign(i, ps)
	case "out-of-range-index/original-signature", "out-of-range-index/resigned":
		idx := []uint32{uint32(n), uint32(n + 1), uint32(n + 3), 1 << 31, 0xffffffff, uint32(n) + 1<<16}[rng.IntN(6)]
		ps.Partial.I = idx
		if strings.HasSuffix(class, "/resigned") {
			e.resign(i, ps)
		}
		note += fmt.Sprintf(", index %d", idx)
	case "index-of-another-signer/original-signature", "index-of-another-signer/resigned-by-sender", "index-of-another-signer/resigned-by-claimed-signer":
		j := other()
		ps.Partial.I = uint32(j)
		switch {
		case strings.HasSuffix(class, "by-sender"):
			e.resign(i, ps)
		case strings.HasSuffix(class, "by-claimed-signer"):
			e.resign(j, ps)
		}
		st := "not yet heard"
		if h.acc[j] {
			st = "already accepted"
		}
		note += fmt.Sprintf(", claims index %d (%s)", j, st)
	case "duplicate/exact-copy", "duplicate/fresh-signature":
		if !h.acc[i] {
			return nil, "", false
		}
		if class == "duplicate/fresh-signature" {
			e.resign(i, ps)
		}
	case "duplicate/own-partial-after-PartialSig":
		if !h.signed {
			return nil, "", false
		}
		ps = c12CopyPS(cx.main.ps[h.c])
		note = "the combiner's own partial comes back from the network"
	case "malformed/nil-value":
		// a partial whose value is absent on the wire (the signature is the original one)
		ps.Partial.V = nil
	case "malformed/nil-partial":
		ps.Partial = nil
	default:
		panic("harness: unknown class " + class)
	}
	return ps, note, true
}

// inject picks a sender for the class and delivers the partial.
func (h *c12Hist) inject(class string, pending []int) {
	if h.dead {
		return
	}
	e := h.e
	var cand []int
	if strings.HasPrefix(class, "duplicate/") {
		for _, i := range h.ledger() {
			if i != h.c || class == "duplicate/exact-copy" {
				cand = append(cand, i)
			}
		}
		if class == "duplicate/own-partial-after-PartialSig" {
			cand = []int{h.c}
		}
	} else {
		for _, i := range pending {
			if i != h.c {
				cand = append(cand, i)
			}
		}
		if len(cand) == 0 || e.rng.IntN(10) < 3 {
			cand = cand[:0]
			for i := 0; i < e.n; i++ {
				if i != h.c && !h.acc[i] {
					cand = append(cand, i)
				}
			}
		}
		if len(cand) == 0 {
			for i := 0; i < e.n; i++ {
				if i != h.c {
					cand = append(cand, i)
				}
			}
		}
	}
	var ps *dss.PartialSig
	var note string
	ok := false
	if len(cand) > 0 {
		ps, note, ok = h.cx.make(class, cand[e.rng.IntN(len(cand))], h)
	}
	if !ok {
		e.r.NoteAdd("injections_not_applicable", 1)
		return
	}
	h.bad(class, ps, note)
}

func (e *c12Env) nextClass() string {
	c := c12Classes[e.badCtr%len(c12Classes)]
	e.badCtr++
	return c
}

// ---------------------------------------------------------------------------
// families of histories

func c12Fmt(xs []int) string {
	var sb strings.Builder
	for k, x := range xs {
		if k > 0 {
			sb.WriteByte(',')
		}
		fmt.Fprintf(&sb, "%d", x)
	}
	return sb.String()
}

// deliver plays the honest part "order" at combiner h.c; ownSign: the combiner's
// own index is served by PartialSig() (else by its partial arriving from the network).
func (h *c12Hist) deliver(i int, ownSign bool) {
	if i == h.c && ownSign {
		h.sign()
	} else {
		h.honest(i)
	}
}

// famSubsets: every t-subset (sampled above the cap) x orders x every combiner, honest partials only.
func (cx *c12Ctx) famSubsets(maxSub, nOrd int) {
	e := cx.e
	subs := gen.Subsets(e.n, e.t)
	if len(subs) > maxSub {
		p := e.rng.Perm(len(subs))
		var pick [][]int
		for _, k := range p[:maxSub] {
			pick = append(pick, subs[k])
		}
		subs = pick
		e.r.NoteAdd("subset_lists_sampled", 1)
	} else {
		e.r.NoteAdd("subset_lists_exhaustive", 1)
	}
	for _, S := range subs {
		var orders [][]int
		if f := c12Fact(e.t); f <= nOrd {
			orders = gen.Perms(e.t)
		} else {
			asc := make([]int, e.t)
			desc := make([]int, e.t)
			for k := range asc {
				asc[k], desc[k] = k, e.t-1-k
			}
			orders = append(orders, asc, desc)
			for len(orders) < nOrd {
				orders = append(orders, e.rng.Perm(e.t))
			}
		}
		for _, ord := range orders {
			seq := make([]int, e.t)
			for k, o := range ord {
				seq[k] = S[o]
			}
			for c := 0; c < e.n; c++ {
				ownSign := e.hctr%3 != 0
				h := e.newHist(cx, "subsets", fmt.Sprintf("order=%s|ownSign=%v", c12Fmt(seq), ownSign), c)
				for _, i := range seq {
					h.deliver(i, ownSign)
				}
				h.state(true)
				e.r.NoteAdd("histories", 1)
			}
		}
	}
}

func c12Fact(n int) int {
	f := 1
	for i := 2; i <= n; i++ {
		f *= i
	}
	return f
}

// famInject: per combiner, histories of k in {t-1, t, ..., n} valid partials in random order with
// injected bad partials between them; k = t-1 must end without a signature.
func (cx *c12Ctx) famInject(perComb, nBad int) {
	e := cx.e
	for c := 0; c < e.n; c++ {
		for rep := 0; rep < perComb; rep++ {
			var k int
			switch x := e.rng.IntN(20); {
			case x < 5:
				k = e.t - 1
			case x < 13 || e.t == e.n:
				k = e.t
			default:
				k = e.t + 1 + e.rng.IntN(e.n-e.t)
			}
			seq := e.rng.Perm(e.n)[:k]
			ownSign := e.rng.IntN(10) < 7
			pos := make([]int, nBad) // bad event b is injected before honest event pos[b] (k = after the last)
			for b := range pos {
				pos[b] = e.rng.IntN(k + 1)
			}
			sort.Ints(pos)
			h := e.newHist(cx, "mixed", fmt.Sprintf("k=%d|order=%s|ownSign=%v|bad@%s|ctr=%d", k, c12Fmt(seq), ownSign, c12Fmt(pos), e.badCtr), c)
			b := 0
			for step := 0; step <= k; step++ {
				for b < nBad && pos[b] == step {
					if !h.dead {
						h.inject(e.nextClass(), seq[step:])
					}
					b++
				}
				if step < k {
					h.deliver(seq[step], ownSign)
				}
			}
			if h.signed && e.rng.IntN(2) == 0 {
				h.sign() // PartialSig() a second time must change nothing
			}
			h.state(true)
			e.r.NoteAdd("histories", 1)
			if k < e.t {
				e.r.NoteAdd("histories_ending_below_t", 1)
			}
		}
	}
}

// famLoopback: the combiner first receives its own valid partial from the network (issued by
// another DSS object of the same participant), then calls PartialSig() itself: the second one is a
// duplicate of its own index and must not count.
func (cx *c12Ctx) famLoopback() {
	e := cx.e
	for c := 0; c < e.n; c++ {
		seq := e.rng.Perm(e.n)
		h := e.newHist(cx, "own-loopback", "order="+c12Fmt(seq), c)
		h.ctx = "own-partial-from-network-then-PartialSig"
		h.honest(c)
		h.sign()
		for _, i := range seq {
			if i != c {
				h.honest(i)
			}
		}
		h.state(true)
		e.r.NoteAdd("histories", 1)
	}
}

// ---------------------------------------------------------------------------

type c12Spec struct {
	n, t   int
	lk, rk string
	ks     int
}

func (j c12Spec) id() string {
	return fmt.Sprintf("n=%d,t=%d,long=%s,onetime=%s,keyset=%d", j.n, j.t, j.lk, j.rk, j.ks)
}

var c12MsgLens = []int{0, 1, 31, 32, 33, 64, 65, 127, 200, 1000, 4097}

func c12Job(r *mon.R, j c12Spec, idx int) {
	rng := gen.New(r.Seed, "c12/"+j.id(), 0)
	e := &c12Env{r: r, id: j.id(), n: j.n, t: j.t, lk: j.lk, rk: j.rk, rng: rng, badCtr: idx * 7}
	e.nodes = c12NewNodes(j.n, rng)
	minT := j.n/2 + 1
	setupFail := func(what string, err error) {
		r.NoteAdd("setup_failed", 1)
		if j.t < minT {
			r.NoteAdd("setup_failed_below_recommended_t", 1)
		}
		// never silent: a session that could not be set up was not observed (on the unchanged tree no setup fails)
		r.Inconclusive(fmt.Sprintf("%s: %s: %v", e.id, what, err))
	}
	var long, prev []dss.DistKeyShare
	var err error
	if p, bad := mon.Try(func() {
		long, err = c12RunDKG(j.lk, e.nodes, j.t, rng)
		if err == nil {
			prev, err = c12RunDKG(j.rk, e.nodes, j.t, rng)
		}
	}); bad {
		err = fmt.Errorf("panic: %s", p)
	}
	if err != nil {
		setupFail("DKG", err)
		return
	}
	r.Op("dkg/pedersen (all honest)", "dkg/rabin (all honest)")
	nmsg := r.N(2, 4)
	for mi := 0; mi < nmsg; mi++ {
		var rnd []dss.DistKeyShare
		if p, bad := mon.Try(func() { rnd, err = c12RunDKG(j.rk, e.nodes, j.t, rng) }); bad {
			err = fmt.Errorf("panic: %s", p)
		}
		if err != nil {
			setupFail("one-time DKG", err)
			return
		}
		msg := rng.Bytes(c12MsgLens[(idx+mi*5+j.ks*3)%len(c12MsgLens)])
		msg2 := append(append([]byte(nil), msg...), byte(mi))
		if len(msg) > 0 && rng.IntN(2) == 0 {
			msg2 = gen.FlipBit(msg, rng.IntN(len(msg)*8))
		}
		cx := &c12Ctx{e: e, crafted: map[int]*dss.PartialSig{}}
		name := fmt.Sprintf("msg%d", mi)
		if cx.main, err = e.buildSess(name, long, rnd, msg, true); err != nil {
			// the DKGs completed without error but their output is not what the reference expects for threshold t (e.g. another
			// number of commitments): no ledger can be built, so the session is judged end to end only - every participant
			// signs, participant 0 collects exactly t partials, and a signature that comes out must verify under the DKG's key
			e.endToEnd(name, long, rnd, msg, err)
			setupFail("session", err)
			return
		}
		if cx.otherMsg, err = e.buildSess(name+"/other-message", long, rnd, msg2, false); err == nil {
			if cx.otherRnd, err = e.buildSess(name+"/other-one-time-key", long, prev, msg, false); err == nil {
				cx.otherLong, err = e.buildSess(name+"/other-long-term-key", prev, rnd, msg, false)
			}
		}
		if err != nil {
			setupFail("foreign session", err)
			return
		}
		r.NoteAdd("sessions", 1)
		c12Sessions.Add(1)
		r.NoteAdd("sessions/"+j.lk+"+"+j.rk, 1)
		cx.famSubsets(r.N(10, 35), r.N(2, 4))
		cx.famInject(r.N(2, 6), r.N(4, 5))
		cx.famLoopback()
		// agreement of all combiners of the session
		r.Eval("agreement/all-combiners-one-signature", e.id+"|"+name, true)
		if len(cx.main.sigsSeen) > 1 {
			var sigs []string
			for s := range cx.main.sigsSeen {
				sigs = append(sigs, mon.Hex([]byte(s)))
			}
			sort.Strings(sigs)
			e.violation("C12/dss/Signature/combiners-disagree", "participants derive different signatures in one session", map[string]any{"signatures": sigs, "msg": mon.Hex(msg)})
		}
		if len(cx.main.sigsSeen) > 0 {
			r.NoteAdd("sessions_with_signature", 1)
		}
		r.SampleClass(fmt.Sprintf("C12/session/%s+%s", j.lk, j.rk), map[string]any{"job": e.id, "msg": mon.Hex(msg), "public_key": mon.Hex(cx.main.A),
			"signature": mon.Hex(cx.main.sigRef), "combiners": cx.main.combiners, "distinct_signatures_seen": len(cx.main.sigsSeen)})
		prev = rnd
	}
	// [mixed-thresholds] keys of different thresholds in one session, both directions (own PRNG stream: the histories above are unchanged)
	t2 := j.t + 1
	if t2 > j.n {
		t2 = j.t - 1
	}
	if t2 < 2 {
		return
	}
	mrng := gen.New(r.Seed, "c12mixed/"+j.id(), 0)
	var alt []dss.DistKeyShare
	if p, bad := mon.Try(func() { alt, err = c12RunDKG(j.rk, e.nodes, t2, mrng) }); bad {
		err = fmt.Errorf("panic: %s", p)
	}
	if err != nil {
		setupFail("DKG of the other threshold", err)
		return
	}
	mmsg := mrng.Bytes(c12MsgLens[(idx+j.ks)%len(c12MsgLens)])
	e.mixedThresholds("mixed/one-time-key-of-other-threshold", long, alt, j.t, t2, mmsg, mrng)
	e.mixedThresholds("mixed/long-term-key-of-other-threshold", alt, prev, t2, j.t, mmsg, mrng)
}

func c12(r *mon.R) {
	r.SetRule("jobs = (n in 3..7) x (t in 2..n) x (long-term DKG, one-time DKG in {pedersen,rabin}^2) x keysets; per job real all-honest DKG runs, per message a fresh one-time key; " +
		"histories at a fresh DSS object of EVERY participant: [subsets] every t-subset (sampled above the cap) x orders, own partial by PartialSig() or from the network; " +
		"[mixed] k in {t-1..n} valid partials in random order with injected wrong-value/forged/cross-session/out-of-range/other-index/duplicate/malformed partials (classes rotate); " +
		"[own-loopback] own partial from the network, then PartialSig(); [mixed-thresholds] long-term and one-time key from DKGs of different thresholds (t and t+1, or t-1 when t=n; both directions), T=max: every participant combines all honest partials in a random order. After EVERY event: ProcessPartialSig result, EnoughPartialSig and Signature() are compared with the ledger of really delivered valid partials " +
		"and with the reference signature R||r+H(R,A,m)a (math/big); eddsa/schnorr/dss/crypto-ed25519 verifiers on the first and the final signature of each history. " +
		"distinct = (job, session, family, combiner, history, step); non-trivial = at least one event was played before the judgement")
	r.Assume("math/big Lagrange interpolation over all shares held by the harness gives the group secrets; the reference signature is additionally checked by crypto/ed25519 before any judgement")
	r.Assume("DKG correctness is C11: a DKG run whose output is inconsistent makes the case inconclusive, not a C12 violation")
	r.Assume("kyber point decoding/encoding and base-point multiplication are used by the harness to craft foreign sessions and copy objects (C01/C03)")
	if q := c12Suite.Scalar().GroupOrder().ToBigInt(); q.Cmp(c12L) != 0 {
		r.Inconclusive("reference group order differs from the library's")
		return
	}
	var jobs []c12Spec
	nks := r.N(1, 3)
	kinds := [][2]string{{"pedersen", "pedersen"}, {"rabin", "rabin"}, {"pedersen", "rabin"}, {"rabin", "pedersen"}}
	for n := 7; n >= 3; n-- { // big jobs first
		for t := 2; t <= n; t++ {
			for _, k := range kinds {
				for ks := 0; ks < nks; ks++ {
					jobs = append(jobs, c12Spec{n, t, k[0], k[1], ks})
				}
			}
		}
	}
	mon.Parallel(len(jobs), func(w, i int) {
		j := jobs[i]
		if r.Only != "" && !strings.HasPrefix(j.id(), r.Only) {
			return
		}
		r.Journal(w, "C12 job %d %s seed=%d", i, j.id(), r.Seed)
		r.Guard("C12/dss/job", map[string]any{"job": j.id(), "seed": r.Seed}, func() { c12Job(r, j, i) })
	})
	r.Note("jobs", len(jobs))
	if c12Sessions.Load() == 0 {
		r.Inconclusive("no signing session could be set up: nothing was observed")
	}
	r.Note("injected_classes", len(c12Classes))
}

// endToEnd judges a session whose keys the reference could not validate (see c12Job): no ledger, only the end-to-end
// statement "t valid partials collected at a participant give a signature that crypto/ed25519 accepts under the DKG's key".
func (e *c12Env) endToEnd(name string, long, rnd []dss.DistKeyShare, msg []byte, why error) {
	r := e.r
	r.NoteAdd("end_to_end_only_sessions(keys not validated by the reference)", 1)
	det := map[string]any{"job": e.id, "session": name, "reference_refused_keys_because": why.Error(), "msg": mon.Hex(msg)}
	var sig []byte
	var serr error
	var accepted int
	var pub []byte
	if p, bad := mon.Try(func() {
		var objs []*dss.DSS
		for i := 0; i < e.n; i++ {
			d, err := e.newDSS(i, long[i], rnd[i], msg)
			if err != nil {
				serr = fmt.Errorf("NewDSS(%d): %w", i, err)
				return
			}
			objs = append(objs, d)
		}
		pub = c12Enc(long[0].Commitments()[0])
		if _, err := objs[0].PartialSig(); err != nil {
			serr = fmt.Errorf("PartialSig(0): %w", err)
			return
		}
		accepted = 1
		for i := 1; i < e.n && accepted < e.t; i++ {
			ps, err := objs[i].PartialSig()
			if err != nil {
				serr = fmt.Errorf("PartialSig(%d): %w", i, err)
				return
			}
			if err := objs[0].ProcessPartialSig(ps); err == nil {
				accepted++
			}
		}
		if accepted >= e.t && objs[0].EnoughPartialSig() {
			sig, serr = objs[0].Signature()
		}
	}); bad {
		det["panic"] = p
		e.violation("C12/dss/end-to-end/panic", "panic while signing with keys an all-honest DKG produced: "+p, det)
		return
	}
	r.Eval("end-to-end/t-partials-give-a-valid-signature", e.id+"|"+name, true)
	det["accepted_partials"] = accepted
	if sig == nil {
		det["error"] = fmt.Sprint(serr)
		r.NoteAdd("end_to_end_only_sessions.no-signature-produced", 1)
		return
	}
	det["signature"] = mon.Hex(sig)
	det["public_key"] = mon.Hex(pub)
	if len(sig) != ed25519.SignatureSize || !ed25519.Verify(ed25519.PublicKey(pub), msg, sig) {
		e.violation("C12/dss/Signature/invalid-signature-from-t-valid-partials/keys-of-other-threshold", "t accepted partials over keys produced by an all-honest DKG give a signature that crypto/ed25519 rejects under the distributed public key", det)
	}
}
