package main

// C14, deniable mode, aborted runs: fault injection at the clique Context
// (Step errors, failing Random stream, short/garbled slot vectors), a prover
// that returns an error midway, and a deadlock detector that inspects the
// states of the goroutines of one scenario (no wall-clock verdict: a scenario
// is declared hung only when every goroutine that could still wake another one
// is blocked).

import (
	"errors"
	"fmt"
	"regexp"
	"runtime"
	"strconv"
	"strings"
	"sync"
	"sync/atomic"
	"time"

	"go.dedis.ch/kyber/v4"
	"go.dedis.ch/kyber/v4/proof"

	"verif/internal/gen"
	"verif/internal/mon"
)

// c14Fault is one injected fault.
type c14Fault struct {
	kind    string // "step-error", "step-error-transient", "random-error", "garbled", "prover-error"
	who     int    // participant, -1 = every participant
	step    int    // Step call index / Read call index / prover operation index
	variant string
}

func (f *c14Fault) hits(i int) bool { return f != nil && (f.who < 0 || f.who == i) }

func (f *c14Fault) String() string {
	if f == nil {
		return "none"
	}
	who := "all"
	if f.who >= 0 {
		who = fmt.Sprintf("participant %d", f.who)
	}
	return fmt.Sprintf("%s at %d (%s) for %s", f.kind, f.step, f.variant, who)
}

// c14FaultMenu enumerates the fault classes; k participants, one victim.
func c14FaultMenu() []c14Fault {
	var m []c14Fault
	for s := 0; s < 3; s++ {
		m = append(m, c14Fault{kind: "step-error", who: -1, step: s, variant: "all"})
		m = append(m, c14Fault{kind: "step-error", who: 0, step: s, variant: "one"})
		m = append(m, c14Fault{kind: "step-error-transient", who: 0, step: s, variant: "one"})
		for _, v := range []string{"short-keeps-self", "short-drops-self", "nil-vector", "peer-slot-short", "peer-slot-garbage", "own-slot-corrupted", "extra-slot"} {
			m = append(m, c14Fault{kind: "garbled", who: 0, step: s, variant: v})
		}
	}
	for n := 0; n < 2; n++ {
		m = append(m, c14Fault{kind: "random-error", who: 0, step: n, variant: "one"})
	}
	m = append(m, c14Fault{kind: "random-error", who: -1, step: 0, variant: "all"})
	// an equivocating peer: the key it reveals (the same garbage for every other participant) does not open its commitment
	for _, v := range []string{"wrong-key-of-peer0-for-all", "wrong-key-of-last-peer-for-all", "wrong-key-of-random-peer-for-all"} {
		m = append(m, c14Fault{kind: "garbled", who: -1, step: 1, variant: v})
	}
	for _, v := range []string{"put-commit", "prirand", "pubrand-before", "pubrand-after", "put-response"} {
		m = append(m, c14Fault{kind: "prover-error", who: 0, step: 0, variant: v})
	}
	return m
}

var errC14Injected = errors.New("harness: injected failure")

// c14FailXOF fails its n-th Read.
type c14FailXOF struct {
	kyber.XOF
	n     int
	reads int
}

func (x *c14FailXOF) Read(b []byte) (int, error) {
	x.reads++
	if x.reads-1 == x.n {
		return 0, errC14Injected
	}
	return x.XOF.Read(b)
}

// c14FailProverCtx wraps the ProverContext handed to the real prover and fails one operation.
type c14FailProverCtx struct {
	proof.ProverContext
	variant string
	afterPR bool
	fired   bool
}

func (c *c14FailProverCtx) Put(m any) error {
	if !c.fired && ((c.variant == "put-commit" && !c.afterPR) || (c.variant == "put-response" && c.afterPR)) {
		c.fired = true
		return errC14Injected
	}
	return c.ProverContext.Put(m)
}

func (c *c14FailProverCtx) PriRand(m ...any) error {
	if !c.fired && c.variant == "prirand" {
		c.fired = true
		return errC14Injected
	}
	return c.ProverContext.PriRand(m...)
}

func (c *c14FailProverCtx) PubRand(m ...any) error {
	if !c.fired && c.variant == "pubrand-before" {
		c.fired = true
		return errC14Injected
	}
	err := c.ProverContext.PubRand(m...)
	c.afterPR = true
	if err == nil && !c.fired && c.variant == "pubrand-after" {
		c.fired = true
		return errC14Injected
	}
	return err
}

func c14FailingProver(p proof.Prover, variant string) proof.Prover {
	return func(ctx proof.ProverContext) error {
		return (func(proof.ProverContext) error)(p)(&c14FailProverCtx{ProverContext: ctx, variant: variant})
	}
}

// c14Garble applies a slot-vector fault to what participant i is about to receive.
// Returns the vector and, per slot, whether it differs from what was sent (all true if the shape changed).
func c14Garble(variant string, i int, res [][]byte, rnd []byte) ([][]byte, []bool) {
	k := len(res)
	bad := make([]bool, k)
	all := func() {
		for j := range bad {
			bad[j] = true
		}
	}
	peer := (i + 1 + int(rnd[0])%(k-1)) % k
	switch variant {
	case "wrong-key-of-peer0-for-all", "wrong-key-of-last-peer-for-all", "wrong-key-of-random-peer-for-all":
		peer = int(rnd[1]) % k
		if variant == "wrong-key-of-peer0-for-all" {
			peer = 0
		} else if variant == "wrong-key-of-last-peer-for-all" {
			peer = k - 1
		}
		if peer != i && len(res[peer]) > 0 {
			g := make([]byte, len(res[peer]))
			for x := range g {
				g[x] = rnd[x%len(rnd)] ^ byte(3*x)
			}
			res[peer] = g
			bad[peer] = true
		}
	case "short-keeps-self":
		if i+1 < k {
			res = res[:i+1]
			for j := i + 1; j < k; j++ {
				bad[j] = true
			}
		} else {
			res = res[:k:k]
		}
	case "short-drops-self":
		res = res[:i]
		all()
	case "nil-vector":
		res = nil
		all()
	case "peer-slot-short":
		if len(res[peer]) > 5 {
			res[peer] = res[peer][:5]
		} else {
			res[peer] = nil
		}
		bad[peer] = true
	case "peer-slot-garbage":
		g := make([]byte, len(res[peer])+3)
		for x := range g {
			g[x] = rnd[x%len(rnd)] ^ byte(x)
		}
		res[peer] = g
		bad[peer] = true
	case "own-slot-corrupted":
		own := append([]byte(nil), res[i]...)
		if len(own) > 0 {
			own[len(own)/2] ^= 0x40
		} else {
			own = []byte{1}
		}
		res[i] = own
		all()
	case "extra-slot":
		res = append(res, append([]byte(nil), rnd...))
		all()
	}
	return res, bad
}

// ---------------------------------------------------------------- deadlock detector

var c14GoHdr = regexp.MustCompile(`^goroutine (\d+)(?: gp=\S+ m=\S+(?: mp=\S+)?)? \[([^\]]*)\]:`)
var c14GoCreated = regexp.MustCompile(`in goroutine (\d+)\s*$`)

// c14GoID returns the id of the calling goroutine.
func c14GoID() int {
	buf := make([]byte, 64)
	buf = buf[:runtime.Stack(buf, false)]
	if m := c14GoHdr.FindSubmatch(buf); m != nil {
		id, _ := strconv.Atoi(string(m[1]))
		return id
	}
	return -1
}

// c14AllBlocked reports whether every goroutine in the closure of roots (the roots and, transitively, the
// goroutines they created) is blocked on a channel / condition variable / lock. Since the goroutines of one
// scenario are only ever woken by each other, "all blocked" means the scenario can make no further progress.
var c14DumpN, c14DumpNs, c14DumpBytes atomic.Int64
var c14DumpMu sync.Mutex
var c14DumpBuf []byte

func c14AllBlocked(roots []int) (bool, []string) {
	if len(roots) == 0 {
		return false, nil
	}
	c14DumpMu.Lock() // one dump at a time, one shared buffer
	defer c14DumpMu.Unlock()
	t0 := time.Now()
	defer func() { c14DumpN.Add(1); c14DumpNs.Add(int64(time.Since(t0))) }()
	var buf []byte
	for {
		if c14DumpBuf == nil {
			c14DumpBuf = make([]byte, 1<<20)
		}
		m := runtime.Stack(c14DumpBuf, true)
		if m < len(c14DumpBuf) {
			buf = c14DumpBuf[:m]
			c14DumpBytes.Add(int64(m))
			break
		}
		if len(c14DumpBuf) >= 1<<28 {
			return false, nil
		}
		c14DumpBuf = make([]byte, 4*len(c14DumpBuf))
	}
	type gr struct {
		id, parent int
		state, top string
	}
	var gs []gr
	for _, blk := range strings.Split(string(buf), "\n\n") {
		m := c14GoHdr.FindStringSubmatch(blk)
		if m == nil {
			continue
		}
		id, _ := strconv.Atoi(m[1])
		g := gr{id: id, parent: -1, state: m[2]}
		lines := strings.Split(strings.TrimRight(blk, "\n"), "\n")
		for _, l := range lines {
			if strings.Contains(l, "go.dedis.ch/kyber/v4/proof.") && g.top == "" {
				g.top = strings.TrimSpace(l)
			}
			if strings.HasPrefix(l, "created by ") {
				if c := c14GoCreated.FindStringSubmatch(l); c != nil {
					g.parent, _ = strconv.Atoi(c[1])
				}
			}
		}
		gs = append(gs, g)
	}
	in := map[int]bool{}
	for _, r := range roots {
		in[r] = true
	}
	for changed := true; changed; {
		changed = false
		for _, g := range gs {
			if !in[g.id] && in[g.parent] {
				in[g.id] = true
				changed = true
			}
		}
	}
	found := map[int]bool{}
	var where []string
	for _, g := range gs {
		if !in[g.id] {
			continue
		}
		found[g.id] = true
		st := g.state
		if x := strings.IndexByte(st, ','); x >= 0 {
			st = st[:x]
		}
		switch {
		// Only waits on objects private to the scenario count: kyber's verifier channels and the clique's condition
		// variable. Lock/semaphore waits (e.g. "semacquire" while this very dump holds the world) are transient.
		case strings.HasPrefix(st, "chan receive"), strings.HasPrefix(st, "chan send"), st == "sync.Cond.Wait":
			where = append(where, fmt.Sprintf("goroutine %d [%s] %s", g.id, st, g.top))
		default:
			return false, nil
		}
	}
	for _, r := range roots {
		if !found[r] {
			return false, nil // it is exiting: look again later
		}
	}
	return true, where
}

// ---------------------------------------------------------------- reference verifier of a deniable transcript

// c14RefVerify checks a complete interactive transcript (commitment block, challenge, sub-challenges and
// responses) of root against pts with group operations only.
func c14RefVerify(g kyber.Group, root *c14Node, pts map[string]kyber.Point, commits, tail []byte, c kyber.Scalar) bool {
	pl, sl := g.PointLen(), g.ScalarLen()
	fields, total := c14Layout(root, pl, sl)
	nc := c14CommitLen(g, root)
	if len(commits) < nc || len(tail) < total-nc {
		return false
	}
	type sk struct {
		or  *c14Node
		idx int
	}
	type rk struct {
		scope int
		name  string
	}
	sub := map[sk]kyber.Scalar{}
	resp := map[rk]kyber.Scalar{}
	var vs []kyber.Point
	for _, f := range fields {
		switch f.kind {
		case "commit":
			v := g.Point()
			if v.UnmarshalBinary(commits[f.off:f.off+f.n]) != nil {
				return false
			}
			vs = append(vs, v)
		default:
			s := g.Scalar()
			if s.UnmarshalBinary(tail[f.off-nc:f.off-nc+f.n]) != nil {
				return false
			}
			if f.kind == "subch" {
				sub[sk{f.or, f.idx}] = s
			} else {
				resp[rk{f.scope, f.name}] = s
			}
		}
	}
	scopeIdx := map[*c14Node]int{}
	repIdx := map[*c14Node]int{}
	for i, s := range root.scopes() {
		scopeIdx[s] = i
	}
	for i, rp := range root.reps() {
		repIdx[rp] = i
	}
	var walk func(n *c14Node, c kyber.Scalar) bool
	walk = func(n *c14Node, c kyber.Scalar) bool {
		if n.kind == c14Or {
			if len(n.sub) == 1 {
				return walk(n.sub[0], c)
			}
			sum := g.Scalar().Zero()
			for i := range n.sub {
				sum = g.Scalar().Add(sum, sub[sk{n, i}])
			}
			if !sum.Equal(c) {
				return false
			}
			for i, s := range n.sub {
				if !walk(s, sub[sk{n, i}]) {
					return false
				}
			}
			return true
		}
		si := scopeIdx[n]
		for _, rp := range n.reps() {
			acc := g.Point().Mul(c, pts[rp.P])
			for t := range rp.S {
				acc = g.Point().Add(acc, g.Point().Mul(resp[rk{si, rp.S[t]}], pts[rp.B[t]]))
			}
			if !acc.Equal(vs[repIdx[rp]]) {
				return false
			}
		}
		return true
	}
	return walk(root, c)
}

// c14RefChallenge recomputes, from the slot vectors one participant was handed in the commitment round and in
// the key round, the challenge the protocol prescribes: keys whose commitment or key slot is shorter than the
// key size are left out (drop-outs), a key that does not open its commitment invalidates the run.
func c14RefChallenge(suite proof.Suite, self int, res0, res1 [][]byte) (kyber.Scalar, bool) {
	mix := make([]byte, c14KeySize)
	if self >= len(res1) || self >= len(res0) {
		return nil, false
	}
	for i := range res1 {
		var com []byte // a key without a commitment is ignored like a drop-out's (it cannot influence the challenge)
		if i < len(res0) {
			com = res0[i]
		}
		key := res1[i]
		if len(com) < c14KeySize || len(key) < c14KeySize {
			continue
		}
		chk := make([]byte, c14KeySize)
		if _, err := suite.XOF(key).Read(chk); err != nil {
			return nil, false
		}
		if string(chk) != string(com[:c14KeySize]) {
			return nil, false
		}
		for x := 0; x < c14KeySize; x++ {
			mix[x] ^= key[x]
		}
	}
	c := suite.Scalar()
	if err := suite.Read(suite.XOF(mix), c); err != nil {
		return nil, false
	}
	return c, true
}

func c14FaultClass(f *c14Fault) string {
	switch f.kind {
	case "step-error", "step-error-transient":
		return fmt.Sprintf("step%d-%s", f.step, f.variant)
	case "random-error":
		return fmt.Sprintf("read%d-%s", f.step, f.variant)
	case "garbled":
		return fmt.Sprintf("step%d-%s", f.step, f.variant)
	}
	return f.variant
}

// c14JudgeAborted judges one aborted-run scenario from the clique's ledger: a nil result for peer j at
// participant p is legitimate only if p's three Step calls took part in rounds 0,1,2 and returned, and the
// reference verifier accepts what p was handed for j under the challenge p's view prescribes.
func c14JudgeAborted(r *mon.R, env *c14Env, g kyber.Group, idx, k int, parties []*c14Party, cl *c14Clique, fault *c14Fault,
	results [][]error, panics []string, hung []bool, descr func() map[string]any) {
	suite := env.mk(gen.New(r.Seed, "C14abortref"+env.name, idx).Stream())
	cl.mu.Lock()
	okRound, deliv := cl.okRound, cl.deliv
	cl.mu.Unlock()
	fc := fault.kind + "/" + c14FaultClass(fault)
	key := func(what string) string {
		if what == "participant-panic" {
			return "C14/deniable/aborted/" + fc + "/" + what // a crash on a malformed slot vector does not depend on the group
		}
		return "C14/" + env.name + "/deniable/aborted/" + fc + "/" + what
	}
	cls := func(what string) string { return "deniable/aborted/" + fc + "/" + what }
	r.NoteAdd(c14DP+"aborted-scenarios."+fc, 1)
	lockstep := func(p int) bool {
		return len(okRound[p]) >= 3 && okRound[p][0] == 0 && okRound[p][1] == 1 && okRound[p][2] == 2
	}
	with := func(kv ...any) map[string]any {
		d := descr()
		for i := 0; i+1 < len(kv); i += 2 {
			d[fmt.Sprint(kv[i])] = kv[i+1]
		}
		d["step_calls_round_or_minus1"] = okRound
		return d
	}
	for p := range parties {
		id := fmt.Sprintf("%s|%d|%d", env.name, idx, p)
		if hung[p] {
			r.NoteAdd(c14DP+"observed-only.deadlocked-participants", 1)
			continue
		}
		if panics[p] != "" {
			r.Eval(cls("participant-terminates"), id, true)
			r.Violation(key("participant-panic"), "DeniableProver panics in a participant: "+panics[p], with("panicking_participant", p))
			continue
		}
		r.Eval(cls("participant-terminates"), id, true)
		errs := results[p]
		if len(errs) != k {
			r.Violation(key("result-shape"), "DeniableProver returned a result vector of the wrong length", with("participant", p))
			continue
		}
		if fault.hits(p) && fault.kind != "garbled" {
			r.Eval(cls("own-slot-reports-error"), id, true)
			if errs[p] == nil {
				r.Violation(key("own-slot-nil"), "a participant whose own run failed ("+fault.kind+") reports nil for itself", with("participant", p))
			}
		}
		for j := range parties {
			if j == p {
				continue
			}
			legit := false
			if lockstep(p) {
				d0, d1, d2 := deliv[p][0], deliv[p][1], deliv[p][2]
				if c, ok := c14RefChallenge(suite, p, d0, d1); ok && j < len(d0) && j < len(d2) && len(d0[j]) >= c14KeySize && len(d2[j]) >= c14KeySize {
					legit = c14RefVerify(g, parties[j].t.root, parties[j].t.pts, d0[j][c14KeySize:], d2[j][c14KeySize:], c)
				}
			}
			must := !fault.hits(p) && !fault.hits(j)
			pair := fmt.Sprintf("%s|%d|%d->%d", env.name, idx, p, j)
			if legit {
				r.Eval(cls("peer-completely-verifiable"), pair, true)
			} else {
				r.Eval(cls("peer-not-verifiable"), pair, true)
			}
			switch {
			case errs[j] == nil && !legit:
				r.Violation(key("unverified-peer-accepted"), "result for a peer is nil although its complete proof was not delivered to / not valid for this participant", with("verifier", p, "prover", j))
			case errs[j] == nil:
				r.NoteAdd(c14DP+"aborted.pairs.accepted-legitimately", 1)
			case must && legit:
				r.Violation(key("complete/rejected-although-only-a-third-party-failed"), "two undisturbed participants do not accept each other: "+errs[j].Error(), with("verifier", p, "prover", j))
			case must:
				r.NoteAdd(c14DP+"aborted.reference-verifier-rejects-undisturbed-pair(not judged)", 1)
			default:
				r.NoteAdd(c14DP+"aborted.pairs.rejected", 1)
			}
		}
	}
}
