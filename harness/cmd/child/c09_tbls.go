package main

import (
	"encoding/binary"
	"fmt"
	"math/big"

	"go.dedis.ch/kyber/v4"
	"go.dedis.ch/kyber/v4/share"
	"go.dedis.ch/kyber/v4/sign"
	"go.dedis.ch/kyber/v4/sign/tbls"

	"verif/internal/gen"
	"verif/internal/groups"
	"verif/internal/mon"
)

// c09Entry is one element of a list presented to Recover.
type c09Entry struct {
	b    []byte
	kind string
}

type c09TBLSCtx struct {
	r      *mon.R
	e      *c09Env
	sch    sign.ThresholdScheme
	job    string
	t, n   int
	coeffs []*big.Int // the dealt polynomial (ground truth)
	msg    []byte
	other  []byte // another message
	hm     kyber.Point
	pub    *share.PubPoly
	part   [][]byte // honest partials for msg
	partO  [][]byte // honest partials for the other message
	partF  [][]byte // partials of a foreign polynomial for msg
	want   []byte   // bls.Sign(secret, msg)
	plen   int
}

// evalPoly is the big.Int reference of the share with index i (x = i+1).
func c09EvalPoly(coeffs []*big.Int, i int, q *big.Int) *big.Int {
	x := big.NewInt(int64(i) + 1)
	v := new(big.Int)
	for k := len(coeffs) - 1; k >= 0; k-- {
		v.Mul(v, x)
		v.Add(v, coeffs[k])
		v.Mod(v, q)
	}
	return v
}

// classify says, from ground truth only, whether b is a valid partial for the
// job's message, and for which index.
func (c *c09TBLSCtx) classify(b []byte) (idx int, valid bool) {
	if len(b) < 2 {
		return -1, false
	}
	idx = int(binary.BigEndian.Uint16(b[:2]))
	p, err := c09Dec(c.e.sigG, b[2:])
	if err != nil {
		return idx, false
	}
	exp := c.e.sigG.Point().Mul(c.e.sg.ScalarFromBig(c09EvalPoly(c.coeffs, idx, c.e.q)), c.hm)
	return idx, p.Equal(exp)
}

var c09JunkKinds = []string{"flip-value", "foreign-index", "oor-index", "other-msg", "other-poly", "truncated", "empty", "identity", "negated", "garbage"}

// junk builds one invalid partial of the given kind.
func (c *c09TBLSCtx) junk(rng *gen.Rng, kind string) c09Entry {
	i := rng.IntN(c.n)
	p := c.part[i]
	switch kind {
	case "flip-value":
		return c09Entry{gen.FlipBit(p, 16+rng.IntN(8*(len(p)-2))), kind}
	case "foreign-index":
		k := (i + 1 + rng.IntN(c.n-1)) % c.n // n >= 2
		return c09Entry{append(c09BE16(k), p[2:]...), kind}
	case "oor-index":
		k := gen.Pick(rng, []int{c.n, c.n + 1, 255, 256, 0x8000, 65535})
		return c09Entry{append(c09BE16(k), p[2:]...), kind}
	case "other-msg":
		return c09Entry{c09Cp(c.partO[i]), kind}
	case "other-poly":
		return c09Entry{c09Cp(c.partF[i]), kind}
	case "truncated":
		k := gen.Pick(rng, []int{1, 2, 3, len(p) / 2, len(p) - 1})
		return c09Entry{c09Cp(p[:k]), kind}
	case "empty":
		if rng.IntN(2) == 0 {
			return c09Entry{nil, kind}
		}
		return c09Entry{[]byte{}, kind}
	case "identity":
		return c09Entry{append(c09BE16(i), groups.Enc(c.e.sigG.Point().Null())...), kind}
	case "negated":
		sp := c09MustDec(c.e.sigG, p[2:])
		return c09Entry{append(c09BE16(i), groups.Enc(c.e.sigG.Point().Neg(sp))...), kind}
	case "garbage":
		return c09Entry{append(c09BE16(i), rng.Bytes(len(p)-2)...), kind}
	}
	panic("harness: junk kind " + kind)
}

// run presents one list to Recover and judges the outcome.
func (c *c09TBLSCtx) run(class string, entries []c09Entry, sub string) {
	e := c.e
	distinct := map[int]bool{}
	nvalid, ninvalid := 0, 0
	var kinds []string
	for _, en := range entries {
		idx, ok := c.classify(en.b)
		if ok {
			if idx >= c.n {
				return // never generated; would be outside what the property speaks about
			}
			distinct[idx] = true
			nvalid++
		} else {
			ninvalid++
		}
		kinds = append(kinds, en.kind)
	}
	wantOK := len(distinct) >= c.t
	list := make([][]byte, len(entries))
	for i, en := range entries {
		if en.b != nil {
			list[i] = c09Cp(en.b)
		}
	}
	var out []byte
	var err error
	detail := func() map[string]any {
		return map[string]any{"combination": e.cb.name, "job": c.job, "t": c.t, "n": c.n, "case": sub, "class": class,
			"poly_coeffs_hex": c09BigHex(c.coeffs), "msg": mon.Hex(c.msg), "list_kinds": kinds, "list": c09Hexes(list),
			"distinct_valid_indices": len(distinct), "expected_signature": mon.Hex(c.want)}
	}
	ok := c.r.Guard("C09/tbls/"+e.cb.name+"/Recover:"+class, detail(), func() {
		out, err = c.sch.Recover(c.pub, c09Cp(c.msg), list, uint32(c.t), uint32(c.n))
	})
	c.r.Eval("tbls/recover/"+class, e.cb.name+"|"+c.job+"|"+sub, nvalid > 0 || ninvalid > 0)
	if wantOK {
		c.r.NoteAdd("tbls_lists_expected_recoverable", 1)
	} else {
		c.r.NoteAdd("tbls_lists_expected_refused", 1)
	}
	if !ok {
		return
	}
	switch {
	case wantOK && err != nil:
		d := detail()
		d["error"] = err.Error()
		c.r.Violation("C09/tbls/"+e.cb.name+"/Recover/refused:"+class, fmt.Sprintf("tbls.Recover refused a list that contains >= t distinct valid partials (%s): %v", class, err), d)
	case wantOK && string(out) != string(c.want):
		d := detail()
		d["got"] = mon.Hex(out)
		c.r.Violation("C09/tbls/"+e.cb.name+"/Recover/wrong-signature:"+class, "tbls.Recover returned something else than the signature of the group secret ("+class+")", d)
	case !wantOK && err == nil:
		d := detail()
		d["got"] = mon.Hex(out)
		d["equals_group_signature"] = string(out) == string(c.want)
		c.r.Violation("C09/tbls/"+e.cb.name+"/Recover/not-refused:"+class, "tbls.Recover returned a signature although fewer than t distinct valid partials were presented ("+class+")", d)
	}
}

func c09BigHex(xs []*big.Int) []string {
	out := make([]string, len(xs))
	for i, x := range xs {
		out[i] = x.Text(16)
	}
	return out
}

func (c *c09TBLSCtx) valid(i int) c09Entry {
	return c09Entry{c09Cp(c.part[i]), fmt.Sprintf("valid%d", i)}
}

// insert places extra entries at random positions of base.
func c09Insert(rng *gen.Rng, base []c09Entry, extra []c09Entry) []c09Entry {
	out := append([]c09Entry(nil), base...)
	for _, x := range extra {
		pos := rng.IntN(len(out) + 1)
		out = append(out, c09Entry{})
		copy(out[pos+1:], out[pos:])
		out[pos] = x
	}
	return out
}

func c09TBLS(r *mon.R, j c09Job) {
	rng := gen.New(r.Seed, fmt.Sprintf("C09tbls%s/%d/%d", j.cb.name, j.t, j.n), j.idx)
	e := c09NewEnv(j.cb)
	t, n := j.t, j.n
	c := &c09TBLSCtx{r: r, e: e, job: fmt.Sprintf("tbls-t%dn%d-%d", t, n, j.idx), t: t, n: n}
	if e.cb.onG1 {
		c.sch = tbls.NewThresholdSchemeOnG1(e.ps)
	} else {
		c.sch = tbls.NewThresholdSchemeOnG2(e.ps)
	}
	r.Op("tbls.NewThresholdSchemeOnG1/G2", "tbls.Sign", "tbls.IndexOf", "tbls.VerifyPartial", "tbls.Recover", "tbls.VerifyRecovered", "share.PriPoly.Commit", "share.PubPoly.Eval", "share.RecoverCommit")

	// the harness deals the polynomial (secret now and then edge-valued)
	deal := func() []*big.Int {
		cs := make([]*big.Int, t)
		for k := range cs {
			cs[k] = c09NonZero(rng, e.q)
		}
		return cs
	}
	c.coeffs = deal()
	if j.idx%3 == 2 {
		c.coeffs[0] = c09EdgeSecret(rng, e.q)
	}
	foreign := deal()
	c.msg = c09Msg(rng)
	c.other = c09NearMsg(rng, c.msg)
	c.hm = e.hash(c.msg)
	secret := c.coeffs[0]

	mkPoly := func(cs []*big.Int) *share.PriPoly {
		ks := make([]kyber.Scalar, len(cs))
		for k := range cs {
			ks[k] = e.sk(cs[k])
		}
		return share.CoefficientsToPriPoly(e.keyG, ks)
	}
	pri := mkPoly(c.coeffs)
	c.pub = pri.Commit(e.keyG.Point().Base())

	// expected output: the plain BLS signature under the group secret
	var err error
	c.want, err = e.blsScheme().Sign(e.sk(secret), c09Cp(c.msg))
	if err != nil {
		panic("harness: bls.Sign failed: " + err.Error())
	}
	r.Eval("tbls/group-signature-is-secret·H(m)", e.cb.name+"|"+c.job, true)
	if string(c.want) != string(groups.Enc(e.sigPoint(secret, c.msg))) {
		r.Violation("C09/tbls/"+e.cb.name+"/bls.Sign/not-x·H(m)", "signature of the group secret differs from secret·H(m)", map[string]any{"combination": e.cb.name, "secret": secret.Text(16), "msg": mon.Hex(c.msg)})
	}
	c.plen = len(c.want)

	// partials: signed from shares the harness computed in math/big
	signAll := func(cs []*big.Int, msg []byte) [][]byte {
		out := make([][]byte, n)
		for i := 0; i < n; i++ {
			sh := &share.PriShare{I: uint32(i), V: e.sk(c09EvalPoly(cs, i, e.q))}
			p, err := c.sch.Sign(sh, c09Cp(msg))
			if err != nil {
				panic("harness: tbls.Sign failed: " + err.Error())
			}
			out[i] = p
		}
		return out
	}
	c.part = signAll(c.coeffs, c.msg)
	c.partO = signAll(c.coeffs, c.other)
	c.partF = signAll(foreign, c.msg)

	// every honest partial: format, IndexOf, VerifyPartial; shares agree with PriPoly.Shares
	kshares := pri.Shares(uint32(n))
	for i := 0; i < n; i++ {
		desc := fmt.Sprintf("%s|%s|p%d", e.cb.name, c.job, i)
		wantP := append(c09BE16(i), groups.Enc(e.sigG.Point().Mul(e.sg.ScalarFromBig(c09EvalPoly(c.coeffs, i, e.q)), c.hm))...)
		r.Eval("tbls/partial-is-index‖share·H(m)", desc, true)
		if string(wantP) != string(c.part[i]) {
			r.Violation("C09/tbls/"+e.cb.name+"/Sign/partial-malformed", "tbls.Sign output is not index ‖ enc(share·H(m))", map[string]any{"combination": e.cb.name, "i": i, "got": mon.Hex(c.part[i]), "want": mon.Hex(wantP)})
		}
		if groups.ScalarToBig(kshares[i].V).Cmp(c09EvalPoly(c.coeffs, i, e.q)) != 0 || int(kshares[i].I) != i {
			r.Violation("C09/tbls/"+e.cb.name+"/PriPoly.Shares/differs-from-reference", "share of the dealt polynomial differs from the big.Int evaluation", map[string]any{"combination": e.cb.name, "i": i, "coeffs": c09BigHex(c.coeffs)})
		}
		r.Eval("tbls/index-of", desc, true)
		if ix, err := c.sch.IndexOf(c09Cp(c.part[i])); err != nil || ix != i {
			r.Violation("C09/tbls/"+e.cb.name+"/IndexOf/wrong", "IndexOf of an honest partial is wrong", map[string]any{"combination": e.cb.name, "i": i, "got": ix, "err": fmt.Sprint(err)})
		}
		r.Eval("tbls/verify-partial/honest", desc, true)
		if err := c.sch.VerifyPartial(c.pub, c09Cp(c.msg), c09Cp(c.part[i])); err != nil {
			r.Violation("C09/tbls/"+e.cb.name+"/VerifyPartial/rejected:honest", "VerifyPartial rejected an honest partial: "+err.Error(), map[string]any{"combination": e.cb.name, "t": t, "n": n, "i": i, "coeffs": c09BigHex(c.coeffs), "msg": mon.Hex(c.msg), "partial": mon.Hex(c.part[i])})
		}
	}
	// every junk kind once through VerifyPartial (and IndexOf for malformed lengths)
	for _, kind := range c09JunkKinds {
		en := c.junk(rng, kind)
		_, valid := c.classify(en.b)
		var err error
		ok := r.Guard("C09/tbls/"+e.cb.name+"/VerifyPartial:"+kind, map[string]any{"combination": e.cb.name, "partial": mon.Hex(en.b), "msg": mon.Hex(c.msg)}, func() {
			err = c.sch.VerifyPartial(c.pub, c09Cp(c.msg), c09Cp(en.b))
		})
		r.Eval("tbls/verify-partial/"+kind, e.cb.name+"|"+c.job, true)
		if ok && (err == nil) != valid {
			r.Violation("C09/tbls/"+e.cb.name+"/VerifyPartial/accepted:"+kind, fmt.Sprintf("VerifyPartial verdict (err=%v) contradicts ground truth (valid=%v) for a %s partial", err, valid, kind),
				map[string]any{"combination": e.cb.name, "t": t, "n": n, "coeffs": c09BigHex(c.coeffs), "msg": mon.Hex(c.msg), "partial": mon.Hex(en.b)})
		}
		if len(en.b) != c.plen+2 {
			r.Eval("tbls/index-of/malformed-length", e.cb.name+"|"+c.job+"|"+kind, true)
			if _, err := c.sch.IndexOf(c09Cp(en.b)); err == nil {
				r.Violation("C09/tbls/"+e.cb.name+"/IndexOf/accepted-malformed-length", "IndexOf accepted a partial of the wrong length", map[string]any{"combination": e.cb.name, "partial": mon.Hex(en.b)})
			}
		}
	}
	// VerifyRecovered on the expected signature
	vr := func(class string, x *big.Int, msg []byte, want bool) {
		err := c.sch.VerifyRecovered(e.pub(x), c09Cp(msg), c09Cp(c.want))
		r.Eval("tbls/verify-recovered/"+class, e.cb.name+"|"+c.job, true)
		if (err == nil) != want {
			r.Violation("C09/tbls/"+e.cb.name+"/VerifyRecovered/"+class, fmt.Sprintf("VerifyRecovered gave err=%v on case %s", err, class), map[string]any{"combination": e.cb.name, "secret": secret.Text(16), "key_secret": x.Text(16), "msg": mon.Hex(msg), "sig": mon.Hex(c.want)})
		}
	}
	vr("honest", secret, c.msg, true)
	vr("other-message", secret, c.other, false)
	vr("other-key", foreign[0], c.msg, false)

	// --- lists
	subsets := gen.Subsets(n, t)
	nsub := len(subsets)
	if !r.Thorough() && nsub > 6 {
		// sample 6 subsets (always including the first and the last)
		perm := rng.Perm(nsub)
		pick := map[int]bool{0: true, nsub - 1: true}
		for _, p := range perm {
			if len(pick) >= 6 {
				break
			}
			pick[p] = true
		}
		var sel [][]int
		for i, s := range subsets {
			if pick[i] {
				sel = append(sel, s)
			}
		}
		subsets = sel
	}
	r.NoteAdd("tbls_subsets_presented", int64(len(subsets)))
	sampled := false
	for si, sub := range subsets {
		sdesc := fmt.Sprint(sub)
		base := func(order int) []c09Entry {
			idx := append([]int(nil), sub...)
			switch order {
			case 1:
				for a, b := 0, len(idx)-1; a < b; a, b = a+1, b-1 {
					idx[a], idx[b] = idx[b], idx[a]
				}
			case 2:
				p := rng.Perm(len(idx))
				o := make([]int, len(idx))
				for a, b := range p {
					o[a] = idx[b]
				}
				idx = o
			}
			out := make([]c09Entry, len(idx))
			for a, i := range idx {
				out[a] = c.valid(i)
			}
			return out
		}
		// (1) the bare t-subset, order rotating sorted / reversed / random
		order := (si + j.idx) % 3
		c.run([]string{"exact-sorted", "exact-reversed", "exact-random-order"}[order], base(order), sdesc)
		// (2) one hostile variant, rotating
		switch (si + j.idx) % 4 {
		case 0: // junk mixed in at random positions
			k := 1 + rng.IntN(4)
			var extra []c09Entry
			for a := 0; a < k; a++ {
				extra = append(extra, c.junk(rng, c09JunkKinds[rng.IntN(len(c09JunkKinds))]))
			}
			l := c09Insert(rng, base(2), extra)
			c.run("junk-mixed", l, sdesc+"+junk")
			if !sampled {
				sampled = true
				var ks []string
				for _, en := range l {
					ks = append(ks, en.kind)
				}
				r.SampleClass("tbls:"+e.cb.name, map[string]any{"scheme": "tbls", "combination": e.cb.name, "t": t, "n": n, "list_kinds": ks, "expected": "recover = bls.Sign(secret,m)", "expected_signature": mon.Hex(c.want)})
			}
		case 1: // duplicates of valid partials BEFORE the t-th distinct one
			b := base(2)
			dup := func(en c09Entry) c09Entry { return c09Entry{c09Cp(en.b), "dup-" + en.kind} }
			l := []c09Entry{b[0], dup(b[0])}
			rest := b[1:]
			if rng.IntN(2) == 0 && len(rest) > 1 {
				l = append(l, rest[0], dup(rest[0]))
				rest = rest[1:]
			}
			l = append(l, rest...)
			c.run("duplicates-before-t-distinct", l, sdesc+"+dups-early")
		case 2: // duplicates only after t distinct valid ones + junk in front
			b := base(2)
			l := append([]c09Entry{c.junk(rng, c09JunkKinds[rng.IntN(len(c09JunkKinds))])}, b...)
			l = append(l, c.valid(sub[rng.IntN(t)]), c.valid(sub[0]))
			c.run("duplicates-after-t-distinct", l, sdesc+"+dups-late")
		case 3: // one of the t replaced by junk carrying the same index => only t-1 valid: must refuse
			ord := append([]int(nil), sub...)
			rng.Shuffle(len(ord), func(a, b int) { ord[a], ord[b] = ord[b], ord[a] })
			drop := rng.IntN(t)
			kind := gen.Pick(rng, []string{"flip-value", "other-msg", "other-poly", "negated", "identity", "truncated"})
			var l []c09Entry
			var others []int
			for a, i := range ord {
				if a == drop {
					l = append(l, c.junkFor(rng, kind, i))
				} else {
					l = append(l, c.valid(i))
					others = append(others, i)
				}
			}
			// pad with duplicates of valid ones so that the list length is >= t+1
			l = append(l, c.valid(others[rng.IntN(len(others))]), c.valid(others[0]))
			c.run("below-t:one-replaced-by-"+kind+"+duplicates", l, sdesc+"-one")
		}
	}
	// --- fixed extra classes per job
	all := make([]int, n)
	for i := range all {
		all[i] = i
	}
	if n > t {
		// surplus: t+1 .. n valid partials, random order
		k := t + 1 + rng.IntN(n-t)
		p := rng.Perm(n)[:k]
		var l []c09Entry
		for _, i := range p {
			l = append(l, c.valid(i))
		}
		c.run("surplus", l, fmt.Sprint(p))
		// everything at once: all n partials + all junk kinds
		var extra []c09Entry
		for _, kind := range c09JunkKinds {
			extra = append(extra, c.junk(rng, kind))
		}
		var l2 []c09Entry
		for _, i := range rng.Perm(n) {
			l2 = append(l2, c.valid(i))
		}
		c.run("all-partials+every-junk-kind", c09Insert(rng, l2, extra), "all")
	}
	// junk first: every junk kind in front of exactly t valid ones
	{
		var l []c09Entry
		for _, kind := range c09JunkKinds {
			l = append(l, c.junk(rng, kind))
		}
		sub := subsets[rng.IntN(len(subsets))]
		for _, i := range sub {
			l = append(l, c.valid(i))
		}
		c.run("every-junk-kind-first", l, fmt.Sprint(sub))
	}
	// below t: t-1 distinct valid ones, alone / duplicated up to length >= t / with junk
	{
		p := rng.Perm(n)[:t-1]
		var l []c09Entry
		for _, i := range p {
			l = append(l, c.valid(i))
		}
		c.run("below-t:t-1-valid", l, fmt.Sprint(p))
		l2 := append([]c09Entry(nil), l...)
		for a := 0; a < 3; a++ {
			l2 = append(l2, c.valid(p[rng.IntN(len(p))]))
		}
		c.run("below-t:t-1-valid+duplicates", c09Insert(rng, nil, l2), fmt.Sprint(p))
		var extra []c09Entry
		for a := 0; a < 3; a++ {
			extra = append(extra, c.junk(rng, c09JunkKinds[rng.IntN(len(c09JunkKinds))]))
		}
		c.run("below-t:t-1-valid+junk", c09Insert(rng, l, extra), fmt.Sprint(p))
	}
	// nothing valid at all
	{
		var l []c09Entry
		for a := 0; a < t+1; a++ {
			l = append(l, c.junk(rng, c09JunkKinds[(a+j.idx)%len(c09JunkKinds)]))
		}
		c.run("below-t:only-junk", l, "junk")
		c.run("below-t:empty-list", nil, "empty")
		// t valid partials of the OTHER message
		var lo []c09Entry
		for _, i := range rng.Perm(n)[:t] {
			lo = append(lo, c09Entry{c09Cp(c.partO[i]), "other-msg"})
		}
		c.run("below-t:t-partials-of-another-message", lo, "othermsg")
		var lf []c09Entry
		for _, i := range rng.Perm(n)[:t] {
			lf = append(lf, c09Entry{c09Cp(c.partF[i]), "other-poly"})
		}
		c.run("below-t:t-partials-of-another-polynomial", lf, "otherpoly")
	}
}

// junkFor builds an invalid partial carrying the index prefix i.
func (c *c09TBLSCtx) junkFor(rng *gen.Rng, kind string, i int) c09Entry {
	p := c.part[i]
	switch kind {
	case "flip-value":
		return c09Entry{gen.FlipBit(p, 16+rng.IntN(8*(len(p)-2))), kind}
	case "other-msg":
		return c09Entry{c09Cp(c.partO[i]), kind}
	case "other-poly":
		return c09Entry{c09Cp(c.partF[i]), kind}
	case "negated":
		sp := c09MustDec(c.e.sigG, p[2:])
		return c09Entry{append(c09BE16(i), groups.Enc(c.e.sigG.Point().Neg(sp))...), kind}
	case "identity":
		return c09Entry{append(c09BE16(i), groups.Enc(c.e.sigG.Point().Null())...), kind}
	case "truncated":
		return c09Entry{c09Cp(p[:len(p)-1]), kind}
	}
	panic("harness: junkFor kind " + kind)
}
